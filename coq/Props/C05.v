(** C05 — The checker implements the documented machine.

    FULL STATEMENT: forall gamma claims proof, doc_verify gamma claims proof = verify guards_sound gamma claims proof
    (same verdict and, on acceptance, the same final stack, memory and outstanding claims), and
    malformed input is always rejected.

    PROVED:
    * [C05_doc_refines_checker]   (all inputs)  the documented machine accepts => the checker accepts with
      the same final state;
    * [C05_refines_partial]       (all inputs)  documented machine = checker + one extra check: the *result* of
      Instantiate / Substitution is well-formed.  I.e. for every other instruction the checker's
      top-constructor-only check is equivalent to the document's recursive check
      ([C05_top_level_check_suffices]);
    * [C05_refuted_redundant_result]  the full statement is false of the faithful model: a stream
      the checker accepts and the documented machine rejects (known finding D16);
    * [C05_reject_*]  every class of malformed input is rejected;
    * [C05_opcodes_agree]  the opcode tables of lib.rs and instruction.py agree with the model on all
      256 bytes (tables regenerated from the sources on every run);
    * [C05_refuted_truncated_instantiate]  the pinned tree (before "fix: Instantiate must reject a
      truncated metavariable id list") accepted a truncated Instantiate. *)
From Coq Require Import NArith List Bool.
From Pi2 Require Import ML.Syntax ML.Subst ML.Machine ML.Facts ML.Journal ML.Refute.
From Pi2 Require Import Doc.Machine Doc.Refine Doc.Reject Doc.Opcodes Gen.Opcodes.
Import ListNotations.
Open Scope N_scope.

Theorem C05_doc_refines_checker :
  forall gamma cl pr st, doc_verify gamma cl pr = Some st -> verify guards_sound gamma cl pr = Some st.
Proof. exact doc_verify_code. Qed.
Print Assumptions C05_doc_refines_checker.

Theorem C05_refines_partial : forall gamma cl pr, doc_verify gamma cl pr = rc_verify gamma cl pr.
Proof. exact doc_verify_rc. Qed.
Print Assumptions C05_refines_partial.

Theorem C05_top_level_check_suffices :
  forall ph i bs st bs' st', WF st -> constructs i = true -> i <> IInst -> i <> ISubst ->
    step_i guards_sound ph i bs st = Some (bs', st') -> top_wf st' = true.
Proof. exact top_level_suffices. Qed.
Print Assumptions C05_top_level_check_suffices.

Theorem C05_doc_invariant :
  forall f ph bs st st', WF st -> doc_exec_fuel f ph bs st = Some st' -> WF st'.
Proof. exact doc_exec_fuel_WF. Qed.

(** D16: Instantiate phi0 := phi1{e_fresh=[x0]} in phi0[s1/x0] leaves the redundant substitution
    phi1[s1/x0] on the stack; the document calls it ill-formed, lib.rs does not re-check it *)
Definition d16_stream : list N := [9; 1; 1; 0; 0; 0; 0; 0;  4; 1;  137; 0;  10; 0;  26; 1; 0].
Theorem C05_refuted_redundant_result :
  (exists st, verify guards_sound [] [] d16_stream = Some st) /\ doc_verify [] [] d16_stream = None.
Proof. split; [eexists|]; vm_compute; reflexivity. Qed.
Print Assumptions C05_refuted_redundant_result.

Theorem C05_refuted_truncated_instantiate :
  (exists st, exec guards_pinned Proof [12; 26; 3] st0 = Some st) /\ exec guards_sound Proof [12; 26; 3] st0 = None.
Proof. exact d2_truncated_instantiate. Qed.

Theorem C05_opcodes_agree :
  forall b, b < 256 ->
    oinstr_eqb (decode_op b) (rust_lookup b rust_opcodes) = true /\
    ostring_eqb (rust_name b rust_opcodes) (py_name b py_opcodes) = true.
Proof. exact opcodes_agree. Qed.
Print Assumptions C05_opcodes_agree.

(** malformed input *)
Theorem C05_reject_error_aborts : forall ph op rest st, step guards_sound ph op rest st = None -> exec guards_sound ph (op :: rest) st = None.
Proof. exact exec_abort. Qed.
Theorem C05_reject_unknown_opcode : forall ph op bs st, decode_op op = None -> step guards_sound ph op bs st = None.
Proof. exact reject_unknown_opcode. Qed.
Theorem C05_reject_unimplemented : forall ph op bs st, decode_op op = Some IUnimpl -> step guards_sound ph op bs st = None.
Proof. exact reject_unimplemented. Qed.
Theorem C05_reject_truncated_operand : forall ph i st, has_operand i = true -> step_i guards_sound ph i [] st = None.
Proof. exact reject_truncated_operand. Qed.
Theorem C05_reject_truncated_generalization : forall ph st, step_i guards_sound ph IGen [] st = None.
Proof. exact reject_truncated_generalization. Qed.
Theorem C05_reject_truncated_metavar : forall ph id len bs st, (length bs < N.to_nat len)%nat -> step_i guards_sound ph IMVar (id :: len :: bs) st = None.
Proof. exact reject_truncated_metavar. Qed.
Theorem C05_reject_truncated_instantiate : forall ph n bs st, (length bs < N.to_nat n)%nat -> step_i guards_sound ph IInst (n :: bs) st = None.
Proof. exact reject_truncated_instantiate. Qed.
Theorem C05_reject_underflow : forall ph i bs st, consumes i = true -> stack st = [] -> claims st <> [] \/ ph <> Proof \/ i <> IPublish -> step_i guards_sound ph i bs st = None.
Proof. exact reject_underflow. Qed.
Theorem C05_reject_proved_as_pattern : forall ph i bs st p s, stack st = TProved p :: s ->
  match i with IImp | IApp | IMu | IEx | IESub | ISSub => True | _ => False end -> step_i guards_sound ph i bs st = None.
Proof. exact reject_proved_as_pattern. Qed.
Theorem C05_reject_pattern_as_proved : forall ph i bs st p s, stack st = TPat p :: s ->
  match i with IMP | IGen | ISubst => True | _ => False end -> step_i guards_sound ph i bs st = None.
Proof. exact reject_pattern_as_proved. Qed.
Theorem C05_reject_second_operand_confusion : forall ph i bs st p q s, stack st = TPat p :: TProved q :: s ->
  match i with IImp | IApp | IESub | ISSub => True | _ => False end -> step_i guards_sound ph i bs st = None.
Proof. exact reject_second_operand_confusion. Qed.
Theorem C05_reject_publish_confusion : forall st bs p s,
  (stack st = TProved p :: s -> step_i guards_sound Gamma IPublish bs st = None /\ step_i guards_sound Claim IPublish bs st = None) /\
  (stack st = TPat p :: s -> step_i guards_sound Proof IPublish bs st = None).
Proof. exact reject_publish_confusion. Qed.
Theorem C05_reject_instantiate_plug_confusion : forall ph n id bs st t p s,
  stack st = t :: TProved p :: s -> n <> 0 -> step_i guards_sound ph IInst (n :: id :: bs) st = None.
Proof. exact reject_instantiate_plug_confusion. Qed.
Theorem C05_reject_bad_memory_index : forall ph i bs st, (length (memory st) <= N.to_nat i)%nat -> step_i guards_sound ph ILoad (i :: bs) st = None.
Proof. exact reject_bad_memory_index. Qed.
Theorem C05_reject_mp_mismatch : forall ph bs st l r p2 s, stack st = TProved p2 :: TProved (Imp l r) :: s -> l <> p2 -> step_i guards_sound ph IMP bs st = None.
Proof. exact reject_mp_mismatch. Qed.
Theorem C05_reject_generalization_not_fresh : forall ph x bs st l r s, stack st = TProved (Imp l r) :: s -> e_fresh r x = false -> step_i guards_sound ph IGen (x :: bs) st = None.
Proof. exact reject_generalization_not_fresh. Qed.
Theorem C05_reject_claim_mismatch : forall bs st c cs p s, claims st = c :: cs -> stack st = TProved p :: s -> c <> p -> step_i guards_sound Proof IPublish bs st = None.
Proof. exact reject_claim_mismatch. Qed.
Theorem C05_reject_no_claim_left : forall bs st, claims st = [] -> step_i guards_sound Proof IPublish bs st = None.
Proof. exact reject_no_claim_left. Qed.
Theorem C05_reject_unproved_claims : forall gamma cl pr s1 s2 s3 c cs,
  exec guards_sound Gamma gamma st0 = Some s1 -> exec guards_sound Claim cl (set_stack [] s1) = Some s2 ->
  exec guards_sound Proof pr (set_stack [] s2) = Some s3 -> claims s3 = c :: cs -> verify guards_sound gamma cl pr = None.
Proof. exact reject_unproved_claims. Qed.
Theorem C05_reject_nonpositive_mu : forall ph X bs st q s, stack st = TPat q :: s -> pat_positive q X = false -> step_i guards_sound ph IMu (X :: bs) st = None.
Proof. exact reject_nonpositive_mu. Qed.
Theorem C05_reject_illformed_esubst : forall ph x bs st p plug s, stack st = TPat p :: TPat plug :: s ->
  well_formed (ESub p x plug) <> Some true -> step_i guards_sound ph IESub (x :: bs) st = None.
Proof. exact reject_illformed_esubst. Qed.
Theorem C05_reject_illformed_ssubst : forall ph x bs st p plug s, stack st = TPat p :: TPat plug :: s ->
  well_formed (SSub p x plug) <> Some true -> step_i guards_sound ph ISSub (x :: bs) st = None.
Proof. exact reject_illformed_ssubst. Qed.
Print Assumptions C05_reject_underflow.

(** non-vacuity: the documented machine accepts a real proof (phi0 -> phi0), so the refinement
    statements are not about an empty set of runs *)
Example C05_nonvacuous : exists st, doc_verify [] ok_claim ok_proof = Some st /\ WF st.
Proof. eexists. split; [vm_compute; reflexivity|]. split; repeat constructor. Qed.

(** ** the same, stated of the source text: [gen_verify] / [gen_step_i] are the statement-by-statement translation of [verify] /
       [execute_instructions] of the CURRENT rust/src/lib.rs (Gen/Exec.v, regenerated on every run; ML/GenExec.v proves them equal to the
       model), so the refinement and every rejection lemma above is a statement about the code as written *)
From Pi2 Require Import Gen.Exec ML.GenExec.
Theorem C05_doc_refines_translated_source :
  forall gamma cl pr st, doc_verify gamma cl pr = Some st -> gen_verify gamma cl pr = Some st.
Proof. intros gamma cl pr st H. rewrite gen_verify_eq. exact (doc_verify_code gamma cl pr st H). Qed.
Print Assumptions C05_doc_refines_translated_source.
Theorem C05_translated_source_is_model :
  (forall ph i bs st, gen_step_i ph i bs st = step_i guards_sound ph i bs st) /\
  (forall g c p, gen_verify g c p = verify guards_sound g c p).
Proof. exact (conj gen_step_i_eq gen_verify_eq). Qed.

(** ** the documented machine as a readable specification: Doc/Spec.v gives ONE RULE PER DOCUMENTED INSTRUCTION ([doc_rel]: required stack shape,
       operand bytes, side condition, effect, and the document's "constructed term is well-formed" rule) and the three-phase acceptance
       [doc_accepts]; it defines exactly the transitions / acceptances of the executable documented machine, so the refinement reads:
       whatever the rule-by-rule specification accepts, the translated source accepts, with the same final stack, memory and claims *)
From Pi2 Require Import Doc.Spec.
Theorem C05_spec_is_machine :
  (forall ph i bs st bs' st', doc_step_i ph i bs st = Some (bs', st') <-> doc_rel ph i bs st bs' st') /\
  (forall g c p st, doc_verify g c p = Some st <-> doc_accepts g c p st).
Proof. exact (conj doc_rel_iff doc_verify_iff). Qed.
Print Assumptions C05_spec_is_machine.
Theorem C05_spec_refines_translated_source :
  forall gamma cl pr st, doc_accepts gamma cl pr st -> gen_verify gamma cl pr = Some st.
Proof. intros gamma cl pr st H. apply C05_doc_refines_translated_source. apply doc_verify_iff. exact H. Qed.
Print Assumptions C05_spec_refines_translated_source.
(** and conversely, up to the one extra check (results of Instantiate / Substitution; finding D16): what the source accepts and whose
    constructed terms are all well-formed in the document's sense, the specification accepts *)
Theorem C05_translated_source_refines_spec_partial :
  forall gamma cl pr st, rc_verify gamma cl pr = Some st -> doc_accepts gamma cl pr st.
Proof. intros gamma cl pr st H. apply doc_verify_iff. rewrite doc_verify_rc. exact H. Qed.
Example C05_spec_nonvacuous : exists st, doc_accepts [] ok_claim ok_proof st.
Proof. destruct C05_nonvacuous as [st [H _]]. exists st. apply doc_verify_iff. exact H. Qed.

(** C08 -- A proof means the same under every interpreter.

    FULL STATEMENT (properties.jsonl): for every proof expression [t] of the DSL, every interpreter
    stack [(b, ls)] and every start state,
        [run b ls axs t tbl s = Some c  <->  static_conc axs t = Some c].
    It is FALSE of the faithful model of the code for the whole DSL
    ([C08_refuted_static_instantiate], D10); it is proved for every proof term without a static
    [ProofExp.instantiate] that carries plugs ([no_plug_inst]: all other rule constructors, and the
    static instantiate with an empty delta since the fix of D11, /repo commit 9b6b5b9; the pre-fix
    behaviour is kept under the named flag [slice0_bug], [C08_prefix_empty_delta_refuted]), for ALL stacks of
    transformers over all five base interpreters, in start states whose memory resolves the term's
    [load_axiom]s and contains only patterns that went through [Interpreter.pattern]; the
    serialising base additionally needs its output to fit the byte format (documented limit of
    instruction.py: ids, lengths and memory indices < 256), stated as [out_fits]. *)
From Coq Require Import NArith List Bool.
From Pi2 Require Import ML.Syntax ML.Subst ML.Machine PTerm.Model PTerm.Facts PTerm.PyRt Gen.PyProofDSL PTerm.GenPyProofDSLAgree.
Import ListNotations.
Open Scope N_scope.

(** every interpreter stack returns exactly what [BasicInterpreter] returns, and fails exactly when
    it fails *)
Theorem C08_interp_agree : forall b ls axs t tbl s c,
  no_plug_inst t = true -> mem_shape_ok (s_mem s) -> loads_ok t (s_mem s) = true ->
  (run b ls axs t tbl s = Some c <-> run_basic axs t = Some c /\ out_fits b ls axs t tbl s = true).
Proof. exact interp_agree. Qed.
Print Assumptions C08_interp_agree.

Theorem C08_interp_agree_eq : forall b ls axs t tbl s,
  no_plug_inst t = true -> mem_shape_ok (s_mem s) -> loads_ok t (s_mem s) = true ->
  run b ls axs t tbl s = if out_fits b ls axs t tbl s then run_basic axs t else None.
Proof. exact interp_agree_eq. Qed.
Print Assumptions C08_interp_agree_eq.

(** ... and that result is the conclusion the expression advertises before it is run (whole DSL) *)
Theorem C08_conclusion_is_advertised : forall axs t c,
  run_basic axs t = Some c -> static_conc axs t = Some c.
Proof. exact run_advertised. Qed.
Print Assumptions C08_conclusion_is_advertised.

(** conversely an expression that could be built runs, provided the side conditions the rule
    constructors do not check themselves (freshness at generalisation, shape of the plugs) hold *)
Theorem C08_advertised_runs : forall axs t c,
  side_ok axs t = true -> static_conc axs t = Some c -> run_basic axs t = Some c.
Proof. exact advertised_run. Qed.
Print Assumptions C08_advertised_runs.

Theorem C08_memo_transparent : forall b ms ls axs t tbl s,
  no_plug_inst t = true -> mem_shape_ok (s_mem s) -> loads_ok t (s_mem s) = true ->
  out_fits b (LMemo ms :: ls) axs t tbl s = true -> out_fits b ls axs t tbl s = true ->
  run b (LMemo ms :: ls) axs t tbl s = run b ls axs t tbl s.
Proof. exact memo_transparent. Qed.
Print Assumptions C08_memo_transparent.

Theorem C08_instopt_transparent : forall b ls axs t tbl s,
  no_plug_inst t = true -> mem_shape_ok (s_mem s) -> loads_ok t (s_mem s) = true ->
  out_fits b (LInstOpt :: ls) axs t tbl s = true -> out_fits b ls axs t tbl s = true ->
  run b (LInstOpt :: ls) axs t tbl s = run b ls axs t tbl s.
Proof. exact instopt_transparent. Qed.
Print Assumptions C08_instopt_transparent.

(** whole DSL: the instantiation optimiser changes no call at all unless a static instantiate
    with an empty delta occurs *)
Theorem C08_instopt_calls_same : forall inS loads axs t, no_empty_inst t = true ->
  forall mem, tcalls inS loads true axs t mem = tcalls inS loads false axs t mem.
Proof. exact instopt_calls_same. Qed.
Print Assumptions C08_instopt_calls_same.

(** ** Refutations of the full statement (witnesses replayed on the real code by harness/c08.py) *)
Definition s_proof (stk:list term) : sstate := mksst stk [] [] Proof.

(** D10: [ProofExp.instantiate] (static) never pushes its plugs *)
Definition w_static_inst : pterm := PInst PProp1 [(0, phi 1)].
Theorem C08_refuted_static_instantiate :
  exists t s c, static_conc [] t = Some c /\ loads_ok t (s_mem s) = true /\ s_mem s = [] /\
    run BBasic [] [] t [] s = Some c /\
    run BStateful [] [] t [] s = None /\ run BSerializing [] [] t [] s = None /\
    run BCounting [] [] t [] s = None /\ run BPretty [] [] t [] s = None.
Proof. exists w_static_inst, (s_proof []), (Imp (phi 1) (Imp (phi 1) (phi 1))). vm_compute. repeat split. Qed.
Print Assumptions C08_refuted_static_instantiate.

(** D11 (FIXED in /repo by commit 9b6b5b9): before the fix [StatefulInterpreter.instantiate(p, {})]
    sliced [stack[-0:]]: with anything below the proof on the stack it failed while Basic returned
    [p].  The pre-fix code is [st_inst true]; the current code is [st_inst false] = [st_step (CInst _ _)]. *)
Definition w_empty_delta : pterm := PInst PProp1 [].
Theorem C08_prefix_empty_delta_refuted :
  exists c s, st_inst true c [] s = None /\ st_inst false c [] s = st_step (CInst c []) s /\
              st_step (CInst c []) s = Some s /\ run_basic [] w_empty_delta = Some c.
Proof. exists py_prop1, (s_proof [TProved py_prop1; TPat (EVar 0)]). vm_compute. repeat split. Qed.
Print Assumptions C08_prefix_empty_delta_refuted.

(** regression: the former D11 witness now agrees on every base, as [C08_interp_agree] says *)
Example C08_empty_delta_agrees :
  let s := s_proof [TPat (EVar 0)] in
  no_plug_inst w_empty_delta = true /\
  run BBasic [] [] w_empty_delta [] s = Some py_prop1 /\ run BStateful [] [] w_empty_delta [] s = Some py_prop1 /\
  run BSerializing [] [] w_empty_delta [] s = Some py_prop1 /\ run BCounting [] [] w_empty_delta [] s = Some py_prop1 /\
  run BPretty [] [] w_empty_delta [] s = Some py_prop1 /\ run BStateful [LInstOpt] [] w_empty_delta [] s = Some py_prop1.
Proof. vm_compute. repeat split. Qed.

(** the documented byte-range limit is a real hypothesis: outside it the serialiser alone fails *)
Example C08_out_fits_needed :
  let t := PDynInst PProp1 [(0, EVar 300)] in
  run BStateful [] [] t [] (s_proof []) = Some (Imp (EVar 300) (Imp (phi 1) (EVar 300))) /\
  run BSerializing [] [] t [] (s_proof []) = None /\ out_fits BSerializing [] [] t [] (s_proof []) = false.
Proof. vm_compute. repeat split. Qed.

(** ** Non-vacuity: [Propositional.imp_refl] with an axiom load, under a memoising serialiser *)
Definition t_imp_refl (p:pat) : pterm :=
  PMP (PMP (PDynInst PProp2 [(0, p); (1, Imp p p); (2, p)]) (PDynInst PProp1 [(0, p); (1, Imp p p)]))
      (PDynInst PProp1 [(0, p); (1, p)]).
Definition ex_ax : pat := Imp (Sym 7) (Sym 9).
Definition ex_term : pterm := PMP (PDynInst PProp1 [(0, Imp ex_ax ex_ax); (1, Sym 7)]) (t_imp_refl ex_ax).
Definition ex_state : sstate := mksst [TPat (EVar 3)] [TProved ex_ax] [] Proof.
Example C08_hypotheses_satisfiable :
  no_plug_inst ex_term = true /\ loads_ok ex_term (s_mem ex_state) = true /\
  out_fits BSerializing [LMemo [ex_ax; Sym 7]] [ex_ax] ex_term [] ex_state = true /\
  run BSerializing [LMemo [ex_ax; Sym 7]] [ex_ax] ex_term [] ex_state
    = Some (Imp (Sym 7) (Imp ex_ax ex_ax)) /\
  run BPretty [LInstOpt; LMemo [ex_ax]] [ex_ax] (PMP (PDynInst PProp1 [(0, ex_ax)]) (PLoadAxiom ex_ax)) [] ex_state
    = Some (Imp (phi 1) ex_ax) /\
  side_ok [ex_ax] ex_term = true.
Proof. vm_compute. repeat split. Qed.
Example C08_mem_hypothesis_satisfiable : mem_shape_ok (s_mem ex_state).
Proof. intros p [H|[]]. discriminate. Qed.

(** ** Tie to the source by TRANSLATION.  Gen/PyProofDSL.v is regenerated on every run from the current text of
    proof.py (ProofThunk.__call__, the rule constructors of ProofExp, the three phases), basic_interpreter.py (every
    method), interpreter.py (Interpreter.pattern), interpreter_transformer.py (every delegation) and
    optimizing_interpreters.py (MemoizingInterpreter.pattern, InstantiationOptimizer.instantiate);
    PTerm/GenPyProofDSLAgree.v proves that a thunk built by the translated DSL and run through ANY stack of the
    translated transformer classes sends to the innermost interpreter exactly the model's [stack_calls] and
    returns the model's conclusion.  The property stated of the translated source: *)
Theorem C08_source_interp_agree : forall b ls axs t tbl s,
  no_plug_inst t = true -> mem_shape_ok (s_mem s) -> loads_ok t (s_mem s) = true ->
  gen_run b ls axs t tbl s = if out_fits b ls axs t tbl s then gen_run_basic axs t else None.
Proof. intros. rewrite gen_run_eq, gen_run_basic_eq. apply interp_agree_eq; assumption. Qed.
Print Assumptions C08_source_interp_agree.

(** the advertised conclusion [ProofThunk.conc] computed by the translated rule constructors *)
Theorem C08_source_conclusion_is_advertised : forall axs t c,
  gen_run_basic axs t = Some c -> option_map th_conc (build axs t) = Some c.
Proof. intros axs t c H. rewrite gen_static_conc_agree. rewrite gen_run_basic_eq in H. apply run_advertised. exact H. Qed.
Print Assumptions C08_source_conclusion_is_advertised.

(** the stacking facts of the model are theorems about the translated classes *)
Theorem C08_source_stack_semantics : forall b ls axs t mem p ph,
  gen_stack_calls b ls axs t mem = tcalls (cfg_inS ls) (cfg_loads b ls) (cfg_instopt ls) axs t mem /\
  obj_pattern (stack_obj b ls) p (mkrst mem ph) = lift_p p ph (pcalls (cfg_inS ls) (cfg_loads b ls) p mem).
Proof. intros. split; [apply gen_stack_calls_agree | apply stack_pattern_agree]. Qed.
Print Assumptions C08_source_stack_semantics.

(** End to end (an extra theorem, not one of the twenty properties): composition of C03 (the files say exactly what the module declared)
    with C01 (what the checker accepts is valid).

    For every proof module [m] of the Python toolkit (model: Interp/Module.v — notation, submodule imports, the interpreter traversal;
    both with and without the memoiser): if the gamma and claim files are what the serialiser writes for [m] and the Rust checker
    (model [verify guards_sound], which is the translated source text by C01_source_machine_validated) ACCEPTS them together with ANY
    proof file whatever — produced by the toolkit or not —, then every claim the module declares is a semantic consequence of the axioms
    it declares: if the declared axioms (expanded, numbered by the symbol table [f] of the serialisation) are valid, so is every
    declared claim.  Nothing the proof file contains can make the checker certify a claim that does not follow. *)
From Coq Require Import NArith List Bool.
From Pi2 Require Import ML.Syntax ML.Subst ML.Machine ML.Journal ML.Sem ML.Sound
  Interp.Calls Interp.Facts Interp.RoundTrip Interp.Sim Interp.Module Interp.ModuleFacts.
From Pi2 Require Props.C01 Props.C03.
Import ListNotations.
Open Scope N_scope.

Theorem E2E_declared_claims_follow_from_declared_axioms :
  forall f m cl gcs t1 tr1 gb tr1' ccs t2 tr2 cb pb st,
    (* C03's hypotheses: gb, cb are the module's gamma and claim files *)
    gamma_calls m = Some gcs ->
    ser_run [] (fresh_tracker Gamma cl) gcs = Some (t1, tr1, gb) -> wf_run (fresh_tracker Gamma cl) gcs ->
    stateful_step tr1 CIntoClaim = Some tr1' ->
    claim_calls m = Some ccs ->
    ser_run t1 tr1' ccs = Some (t2, tr2, cb) -> wf_run tr1' ccs ->
    agrees f t1 -> agrees f t2 ->
    (* the checker accepts them with SOME proof file *)
    verify guards_sound gb cb pb = Some st ->
    (* then: declared axioms valid => declared claims valid *)
    Forall mvalid (map (rn f) (map expand (flat_axioms m))) ->
    Forall mvalid (map (rn f) (map expand (m_claims m))).
Proof.
  intros f m cl gcs t1 tr1 gb tr1' ccs t2 tr2 cb pb st Hg Hs1 Hw1 Hst Hc Hs2 Hw2 Ha1 Ha2 Hv Hax.
  pose proof (Props.C03.C03_gamma_exact f m cl gcs t1 tr1 gb Hg Hs1 Hw1 Ha1) as HG.
  destruct (Props.C03.C03_claims_exact f m cl gcs t1 tr1 gb tr1' ccs t2 tr2 cb Hs1 Hw1 Hst Hc Hs2 Hw2 Ha2) as [s1 [_ [_ HC]]].
  rewrite <- HG in Hax.
  destruct (Props.C01.C01_soundness gb cb pb st Hv Hax) as [Hcl _].
  rewrite <- HC. apply Forall_forall. exact Hcl.
Qed.
Print Assumptions E2E_declared_claims_follow_from_declared_axioms.

(** the same for three concrete files: used by the regenerated Gen/ShippedProofs.v for every proof triple committed under /repo/proofs *)
Definition is_some_state (o:option state) : bool := match o with Some _ => true | None => false end.
Theorem E2E_accepted_claims_valid : forall g c p,
  is_some_state (verify guards_sound g c p) = true -> Forall mvalid (gamma_axioms guards_sound g) ->
  Forall mvalid (declared_claims guards_sound g c).
Proof.
  intros g c p H Hax. destruct (verify guards_sound g c p) as [st|] eqn:E; [|discriminate].
  apply Forall_forall. exact (proj1 (Props.C01.C01_soundness g c p st E Hax)).
Qed.

(** C16 — Valid Metamath proofs translate to checkable proofs of the same statement.

    Model: MM16/Verify.v (reference Metamath verifier over parsed terms), MM16/Convert.v ([img]),
    MM16/Translate.v ([exec_proof] + module skeleton), MM16/Fragment.v ([in_fragment]); the checker is
    ML/Machine.v under [guards_sound].  Only statements live here; proofs are in MM16/*.v. *)
From Coq Require Import ZArith NArith List Bool.
From Pi2 Require Import ML.Syntax ML.Subst ML.Machine
  MM16.Verify MM16.Convert MM16.Instr MM16.Translate MM16.Fragment
  MM16.InstrFacts MM16.SimFacts MM16.Sim MM16.Step MM16.Rules MM16.Compose MM16.Main MM16.Compress
  MM16.GenPrims MM16.GenRun Gen.MMTranslate MM16.GenMMTranslateAgree MM16.SourceTranslate.
Import ListNotations.
Open Scope N_scope.

(** ** 0. the emitted instructions mean the same to the checker model as to the translator's tracker *)
Theorem C16_encode_exec ph is st st' :
  iruns ph is st = Some st' -> exec guards_sound ph (encode is) st = Some st'.
Proof. exact (exec_encode ph is st st'). Qed.
Print Assumptions C16_encode_exec.

(** ** 1. per-step simulation ([Rmm] = [rel]: [#Pattern t] |-> [Pattern (img t)], [|- t] |-> [Proved (img t)]).
    [inv d sid cl ms mh t]: Metamath stack [ms] / Z-heap [mh] are related entry-wise to the checker
    stack / saved terms tracked in [t], saved terms and all exported axioms are in checker memory.
    [steps_to t t']: the instructions emitted between [t] and [t'] run on the checker model from the
    state of [t] to the state of [t']. *)
Section Steps.
Variable d : db.
Variable sid : N -> N.
Hypothesis FF : floats_first d = true.
Hypothesis HPF : forallb (fun f => N.eqb (snd (fst f)) tc_pattern) (floats d) = true.
Hypothesis HND : nodupb (float_vars d) = true.
Hypothesis HENV : env_ok (env_of d) = true.
Hypothesis AX : forallb (fun it => match it with IAx a => axiom_ok d a | _ => true end) d = true.
Variable cl : list pat.

(** floating hypothesis *)
Theorem C16_mm_step_sim_float ms mh t v :
  inv d sid cl ms mh t ->
  exists t', do [OMeta (mvid d v)] t = Some t' /\ inv d sid cl ((tc_pattern, [TVar v]) :: ms) mh t' /\ steps_to t t'.
Proof. exact (float_sim d sid cl ms mh t v). Qed.

(** syntax constructor / notation axiom (incl. the 'imp-is-pattern' / 'app-is-pattern' short cuts) *)
Theorem C16_mm_step_sim_constructor a ctx ms ms' mh t :
  floats ctx = floats d -> In (IAx a) d -> classify a = KCtor ->
  inv d sid cl ms mh t -> apply_assertion ctx a ms = Some ms' ->
  exists t', ctor_step d sid a t = Some t' /\ inv d sid cl ms' mh t' /\ steps_to t t'.
Proof. exact (ctor_sim d sid HPF HND HENV AX cl a ctx ms ms' mh t). Qed.

(** logical axiom or rule with essential hypotheses (save/pop, load, instantiate, load+mp per hypothesis) *)
Theorem C16_mm_step_sim_axiom a ctx ms ms' mh t :
  floats ctx = floats d -> In (IAx a) d -> classify a = KAxiom -> axiom_ok d a = true ->
  inv d sid cl ms mh t -> apply_assertion ctx a ms = Some ms' ->
  exists t', ax_step d sid a t = Some t' /\ inv d sid cl ms' mh t' /\ steps_to t t'.
Proof. exact (ax_sim d sid HPF HND HENV cl a ctx ms ms' mh t). Qed.

Theorem C16_mm_step_sim_prop1 a ctx ms ms' mh t :
  floats ctx = floats d -> prop1_ok d a = true -> fst (a_stmt a) = tc_proved ->
  inv d sid cl ms mh t -> apply_assertion ctx a ms = Some ms' ->
  exists t', do [OProp1; OInst [1; 0]] t = Some t' /\ inv d sid cl ms' mh t' /\ steps_to t t'.
Proof. exact (prop1_sim d sid HPF HND HENV cl a ctx ms ms' mh t). Qed.

Theorem C16_mm_step_sim_prop2 a ctx ms ms' mh t :
  floats ctx = floats d -> prop2_ok d a = true -> fst (a_stmt a) = tc_proved ->
  inv d sid cl ms mh t -> apply_assertion ctx a ms = Some ms' ->
  exists t', do [OProp2; OInst [2; 1; 0]] t = Some t' /\ inv d sid cl ms' mh t' /\ steps_to t t'.
Proof. exact (prop2_sim d sid HPF HND HENV cl a ctx ms ms' mh t). Qed.

(** modus ponens with its save / pop / pop / pop / load cleanup *)
Theorem C16_mm_step_sim_mp a ctx ms ms' mh t :
  floats ctx = floats d -> mp_ok d a = true -> fst (a_stmt a) = tc_proved ->
  inv d sid cl ms mh t -> apply_assertion ctx a ms = Some ms' ->
  exists t', mp_step t = Some t' /\ inv d sid cl ms' mh t' /\ steps_to t t'.
Proof. exact (mp_sim d sid HPF HND HENV cl a ctx ms ms' mh t). Qed.

(** any step of a decoded compressed proof: label, Z mark, back-reference *)
Theorem C16_mm_step_sim pre post tgt pl steps labels n ms mh ms' mh' t :
  d = pre ++ IProv tgt pl steps :: post -> a_ess tgt = [] ->
  (forall l, In l labels -> label_ok d l = true) ->
  inv d sid cl ms mh t -> mm_step pre tgt labels n (ms, mh) = Some (ms', mh') ->
  exists t', tstep d sid labels n t = Some t' /\ inv d sid cl ms' mh' t' /\ steps_to t t'.
Proof. exact (tstep_sim d sid FF HPF HND HENV AX cl pre post tgt pl steps labels n ms mh ms' mh' t). Qed.
End Steps.
Print Assumptions C16_mm_step_sim.

(** ** 2. composition: the property for the fragment [in_fragment] (MM16/Fragment.v).
    [accepted_with d sid a g c p]: the Gamma phase ends with memory = the images of the exported
    axioms/rules (antecedents as implication chain), the Claim phase with claims = [img stmt], the
    Proof phase runs to the end with no claim left, and [verify] returns normally. *)
Theorem C16_translate d target :
  mm_verify d target = true -> in_fragment d target = true ->
  exists g c p a pl steps sid,
    translate_raw false d target = Some (g, c, p) /\
    find_proof d target = Some (a, pl, steps) /\ sid_of false d target = Some sid /\
    accepted_with d sid a g c p.
Proof. exact (translate_correct d target). Qed.
Print Assumptions C16_translate.

(** with the serializer's byte-range side condition, the byte strings are exactly [translate]'s *)
Theorem C16_translate_bytes d target g c p :
  translate_raw false d target = Some (g, c, p) ->
  small g && small c && small p = true -> translate d target = Some (g, c, p).
Proof. exact (translate_correct_small d target g c p). Qed.

(** ** 3. compression layout is irrelevant: two databases with the same skeleton (they differ only in the
    proof texts of their [$p] statements: label list, Z marks, back-references) publish byte-identical
    Gamma and Claim files, and both proofs are accepted *)
Theorem C16_compression_irrelevant d1 d2 target :
  skeleton d1 = skeleton d2 ->
  mm_verify d1 target = true -> mm_verify d2 target = true ->
  in_fragment d1 target = true -> in_fragment d2 target = true ->
  exists g c p1 p2 s1 s2,
    translate_raw false d1 target = Some (g, c, p1) /\ translate_raw false d2 target = Some (g, c, p2) /\
    verify guards_sound g c p1 = Some s1 /\ verify guards_sound g c p2 = Some s2.
Proof. exact (compression_irrelevant d1 d2 target). Qed.
Print Assumptions C16_compression_irrelevant.

(** ** 4. non-vacuity and anchors: the shipped impreflex-compressed.mm *)
Definition ph (n:N) := TVar n.
Definition d_impreflex (steps:list N) : db :=
  [ IFloat (LOther 0) 0 0; IFloat (LOther 1) 0 1; IFloat (LOther 2) 0 2;
    IAx (mkA LImpIsPattern [] (0, [timp (ph 0) (ph 1)]));
    IAx (mkA LProp1 [] (1, [timp (ph 0) (timp (ph 1) (ph 0))]));
    IAx (mkA LProp2 [] (1, [timp (timp (ph 0) (timp (ph 1) (ph 2))) (timp (timp (ph 0) (ph 1)) (timp (ph 0) (ph 2)))]));
    IAx (mkA LMp [(LOther 3, (1, [timp (ph 0) (ph 1)])); (LOther 4, (1, [ph 0]))] (1, [ph 1]));
    IProv (mkA (LOther 5) [] (1, [timp (ph 0) (ph 0)])) [LImpIsPattern; LProp2; LProp1; LMp] steps ].
(* AAABZBZFAFABBGFBAFACAFDEAADE *)
Definition steps_z : list N := [1;1;1;2;0;2;0;6;1;6;1;2;2;7;6;2;1;6;1;3;1;6;4;5;1;1;4;5].

Example C16_impreflex_hyps :
  mm_verify (d_impreflex steps_z) (LOther 5) = true /\ in_fragment (d_impreflex steps_z) (LOther 5) = true.
Proof. split; vm_compute; reflexivity. Qed.

(** the model's output is byte for byte what the real translator writes for this file *)
Example C16_impreflex_bytes :
  translate (d_impreflex steps_z) (LOther 5) =
  Some ([], [137;0;137;0;5;30],
        [137;0;137;0;137;0;5;28;5;28;29;0;137;0;29;0;137;0;5;5;29;1;29;0;5;137;0;29;0;137;0;13;26;3;2;1;0;
         137;0;29;0;12;26;2;1;0;21;28;27;27;27;29;2;137;0;137;0;12;26;2;1;0;21;28;27;27;27;29;3;30]).
Proof. vm_compute. reflexivity. Qed.

(** the same proof without Z marks (impreflex.mm layout): same Gamma/Claim bytes by [C16_compression_irrelevant] *)
Definition steps_noz : list N := [1;1;1;2;2;1;1;2;1;1;1;2;1;2;2;1;1;1;2;2;1;1;2;2;1;1;1;2;1;5;1;1;1;2;3;4;1;1;3;4].
Definition d_impreflex_noz : db :=
  [ IFloat (LOther 0) 0 0; IFloat (LOther 1) 0 1; IFloat (LOther 2) 0 2;
    IAx (mkA LImpIsPattern [] (0, [timp (ph 0) (ph 1)]));
    IAx (mkA LProp1 [] (1, [timp (ph 0) (timp (ph 1) (ph 0))]));
    IAx (mkA LProp2 [] (1, [timp (timp (ph 0) (timp (ph 1) (ph 2))) (timp (timp (ph 0) (ph 1)) (timp (ph 0) (ph 2)))]));
    IAx (mkA LMp [(LOther 3, (1, [timp (ph 0) (ph 1)])); (LOther 4, (1, [ph 0]))] (1, [ph 1]));
    IProv (mkA (LOther 5) [] (1, [timp (ph 0) (ph 0)])) [LImpIsPattern; LProp1; LMp; LProp2] steps_noz ].
Example C16_compression_hyps :
  skeleton (d_impreflex steps_z) = skeleton d_impreflex_noz /\
  mm_verify d_impreflex_noz (LOther 5) = true /\ in_fragment d_impreflex_noz (LOther 5) = true.
Proof. split; [reflexivity|]. split; vm_compute; reflexivity. Qed.

(** a database with a declared notation, an n-ary constructor and a rule with two essential hypotheses *)
Definition d_rule : db :=
  [ IFloat (LOther 0) 0 0; IFloat (LOther 1) 0 1;
    IAx (mkA LImpIsPattern [] (0, [timp (ph 0) (ph 1)]));
    IAx (mkA (LOther 2) [] (0, [TApp 5 []]));                                   (* k-is-pattern: \k *)
    IAx (mkA (LOther 3) [] (2, [TApp 6 [ph 0]; timp (ph 0) (TApp 5 [])]));     (* n-is-sugar: (\n ph0) := (\imp ph0 \k) *)
    IAx (mkA (LOther 4) [] (0, [TApp 6 [ph 0]]));                               (* n-is-pattern *)
    IAx (mkA (LOther 5) [] (1, [TApp 5 []]));                                   (* ax-k: |- \k *)
    IAx (mkA (LOther 6) [(LOther 7, (1, [ph 0])); (LOther 8, (1, [ph 1]))] (1, [TApp 6 [timp (ph 0) (ph 1)]]));
    IProv (mkA (LOther 9) [] (1, [TApp 6 [timp (TApp 5 []) (TApp 5 [])]])) [LOther 2; LOther 5; LOther 6] [1; 0; 4; 2; 0; 5; 3] ].
Example C16_rule_hyps : mm_verify d_rule (LOther 9) = true /\ in_fragment d_rule (LOther 9) = true.
Proof. split; vm_compute; reflexivity. Qed.
Example C16_rule_accepted :
  match translate d_rule (LOther 9) with
  | Some (g, c, p) => match verify guards_sound g c p with Some _ => true | None => false end
  | None => false end = true.
Proof. vm_compute. reflexivity. Qed.

(** ** 5. the pinned [translate.main] (before repair D16a) published every [$p] as a claim:
    a valid two-lemma database is translated to files the checker rejects *)
Definition d_two : db :=
  [ IFloat (LOther 0) 0 0; IFloat (LOther 1) 0 1;
    IAx (mkA LImpIsPattern [] (0, [timp (ph 0) (ph 1)]));
    IAx (mkA LProp1 [] (1, [timp (ph 0) (timp (ph 1) (ph 0))]));
    IProv (mkA (LOther 2) [] (1, [timp (ph 0) (timp (ph 0) (ph 0))])) [LProp1] [1; 1; 2];
    IProv (mkA (LOther 3) [] (1, [timp (ph 1) (timp (ph 0) (ph 1))])) [LProp1] [2; 1; 3] ].
Theorem C16_pinned_all_claims_refuted :
  exists d target g c p,
    mm_verify d target = true /\ in_fragment d target = true /\
    translate_gen true d target = Some (g, c, p) /\ verify guards_sound g c p = None.
Proof.
  exists d_two, (LOther 2). eexists. eexists. eexists.
  split; [vm_compute; reflexivity|]. split; [vm_compute; reflexivity|].
  split; [vm_compute; reflexivity | vm_compute; reflexivity].
Qed.
(** ... and the repaired one is covered by [C16_translate]: *)
Example C16_two_lemmas_ok :
  match translate d_two (LOther 3) with
  | Some (g, c, p) => match verify guards_sound g c p with Some _ => true | None => false end
  | None => false end = true.
Proof. vm_compute. reflexivity. Qed.

(** ** 6. tie by translation: the same statements about the functions GENERATED from the current Python
    source (coq/Gen/MMTranslate.v, rewritten on every run by translators/mm_translate.py from
    translate.exec_proof / get_delta / do_mp / convert_to_implication / main and converter.split_proof).
    [R m t] runs generated code on the model's translator state; vocabulary: MM16/GenPrims.v. *)

(** one iteration of [for lemma in exported_proof.applied_lemmas]: whenever the model's step succeeds, the
    generated step succeeds with the same emitted instructions, tracked state and Z-memory *)
Theorem C16_source_step_agrees cv axioms labels applied t n t' :
  (forall a, In a (exported (cv_d cv)) -> existsb (pat_eqb (axiom_pat (cv_d cv) (cv_sid cv) a)) axioms = true) ->
  (forall a, NoDup (map (mvid (cv_d cv)) (metavars_in_order (cv_d cv) a))) ->
  tstep (cv_d cv) (cv_sid cv) labels n t = Some t' ->
  R (gen_exec_proof_step cv axioms (mkPf (zenum 1 labels) applied) (py_len (zenum 1 labels)) (heap t) (Z.of_N n)) t
  = Some (heap t', mkT (mst t') (heap t) (out t')).
Proof. intros HA HN H. exact (gen_exec_proof_step_agree cv axioms HA HN labels applied t n t' H). Qed.

(** converter.split_proof numbers the mandatory floating hypotheses in database order *)
Theorem C16_source_split_proof_labels cv a t :
  R (gen_split_proof_labels cv a) t = Some (zenum 1 (float_labels_for (cv_d cv) (svars (a_stmt a))), t).
Proof. exact (gen_split_proof_labels_agree cv a t). Qed.

(** translate.main hands the skeleton the exported axioms (rules as implication chains) and the target's claim only *)
Theorem C16_source_extracted cv target a pl steps t :
  (forall b, In b (exported (cv_d cv)) -> exists i, find_item (cv_d cv) (a_label b) = Some (i, IAx b)) ->
  find_proof (cv_d cv) target = Some (a, pl, steps) ->
  R (gen_extracted cv target) t
  = Some ((map (axiom_pat (cv_d cv) (cv_sid cv)) (exported (cv_d cv)), [lemma_pat (cv_d cv) (cv_sid cv) a]), t).
Proof. intros HF F. exact (gen_extracted_agree cv HF target a pl steps t F). Qed.

(** the translation assembled from the generated functions coincides with the model's wherever that exists *)
Theorem C16_source_translate_agrees d target r :
  (forall a, NoDup (map (mvid d) (metavars_in_order d a))) -> nodup_labels (map item_label d) = true ->
  translate_raw false d target = Some r -> gen_translate_raw d target = Some r.
Proof. exact (gen_translate_raw_agree d target r). Qed.

(** the property, stated of the generated source *)
Theorem C16_source_translate d target :
  mm_verify d target = true -> in_fragment d target = true ->
  exists g c p a pl steps sid,
    gen_translate_raw d target = Some (g, c, p) /\
    find_proof d target = Some (a, pl, steps) /\ sid_of false d target = Some sid /\
    accepted_with d sid a g c p.
Proof. exact (source_translate d target). Qed.
Print Assumptions C16_source_translate.

(** the generated code really computes: impreflex through the generated functions gives the shipped bytes *)
Example C16_source_impreflex_bytes :
  gen_translate_raw (d_impreflex steps_z) (LOther 5) =
  Some ([], [137;0;137;0;5;30],
        [137;0;137;0;137;0;5;28;5;28;29;0;137;0;29;0;137;0;5;5;29;1;29;0;5;137;0;29;0;137;0;13;26;3;2;1;0;
         137;0;29;0;12;26;2;1;0;21;28;27;27;27;29;2;137;0;137;0;12;26;2;1;0;21;28;27;27;27;29;3;30]).
Proof. vm_compute. reflexivity. Qed.

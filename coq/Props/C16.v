(** C16 — Valid Metamath proofs translate to checkable proofs of the same statement.

    Model: MM16/Verify.v (reference Metamath verifier over parsed terms), MM16/Convert.v ([img]),
    MM16/Translate.v ([exec_proof] + module skeleton), MM16/Fragment.v ([in_fragment]); the checker is
    ML/Machine.v under [guards_sound].  Only statements live here; proofs are in MM16/*.v. *)
From Coq Require Import NArith List Bool.
From Pi2 Require Import ML.Syntax ML.Subst ML.Machine
  MM16.Verify MM16.Convert MM16.Instr MM16.Translate MM16.Fragment
  MM16.InstrFacts MM16.SimFacts MM16.Sim MM16.Step MM16.Rules MM16.Compose MM16.Main MM16.Compress.
Import ListNotations.
Open Scope N_scope.

(** ** 0. the emitted instructions mean the same to the checker model as to the translator's tracker *)
Theorem C16_encode_exec ph is st st' :
  iruns ph is st = Some st' -> exec guards_sound ph (encode is) st = Some st'.
Proof. exact (exec_encode ph is st st'). Qed.
Print Assumptions C16_encode_exec.

(** ** 1. per-step simulation ([Rmm] = [rel]: [#Pattern t] |-> [Pattern (img t)], [|- t] |-> [Proved (img t)]).
    [inv d sid cl ms mh t]: Metamath stack [ms] / Z-heap [mh] are related entry-wise to the checker
    stack / saved terms tracked in [t], saved terms and all exported axioms are in checker memory.
    [steps_to t t']: the instructions emitted between [t] and [t'] run on the checker model from the
    state of [t] to the state of [t']. *)
Section Steps.
Variable d : db.
Variable sid : N -> N.
Hypothesis FF : floats_first d = true.
Hypothesis HPF : forallb (fun f => N.eqb (snd (fst f)) tc_pattern) (floats d) = true.
Hypothesis HND : nodupb (float_vars d) = true.
Hypothesis HENV : env_ok (env_of d) = true.
Hypothesis AX : forallb (fun it => match it with IAx a => axiom_ok d a | _ => true end) d = true.
Variable cl : list pat.

(** floating hypothesis *)
Theorem C16_mm_step_sim_float ms mh t v :
  inv d sid cl ms mh t ->
  exists t', do [OMeta (mvid d v)] t = Some t' /\ inv d sid cl ((tc_pattern, [TVar v]) :: ms) mh t' /\ steps_to t t'.
Proof. exact (float_sim d sid cl ms mh t v). Qed.

(** syntax constructor / notation axiom (incl. the 'imp-is-pattern' / 'app-is-pattern' short cuts) *)
Theorem C16_mm_step_sim_constructor a ctx ms ms' mh t :
  floats ctx = floats d -> In (IAx a) d -> classify a = KCtor ->
  inv d sid cl ms mh t -> apply_assertion ctx a ms = Some ms' ->
  exists t', ctor_step d sid a t = Some t' /\ inv d sid cl ms' mh t' /\ steps_to t t'.
Proof. exact (ctor_sim d sid HPF HND HENV AX cl a ctx ms ms' mh t). Qed.

(** logical axiom or rule with essential hypotheses (save/pop, load, instantiate, load+mp per hypothesis) *)
Theorem C16_mm_step_sim_axiom a ctx ms ms' mh t :
  floats ctx = floats d -> In (IAx a) d -> classify a = KAxiom -> axiom_ok d a = true ->
  inv d sid cl ms mh t -> apply_assertion ctx a ms = Some ms' ->
  exists t', ax_step d sid a t = Some t' /\ inv d sid cl ms' mh t' /\ steps_to t t'.
Proof. exact (ax_sim d sid HPF HND HENV cl a ctx ms ms' mh t). Qed.

Theorem C16_mm_step_sim_prop1 a ctx ms ms' mh t :
  floats ctx = floats d -> prop1_ok d a = true -> fst (a_stmt a) = tc_proved ->
  inv d sid cl ms mh t -> apply_assertion ctx a ms = Some ms' ->
  exists t', do [OProp1; OInst [1; 0]] t = Some t' /\ inv d sid cl ms' mh t' /\ steps_to t t'.
Proof. exact (prop1_sim d sid HPF HND HENV cl a ctx ms ms' mh t). Qed.

Theorem C16_mm_step_sim_prop2 a ctx ms ms' mh t :
  floats ctx = floats d -> prop2_ok d a = true -> fst (a_stmt a) = tc_proved ->
  inv d sid cl ms mh t -> apply_assertion ctx a ms = Some ms' ->
  exists t', do [OProp2; OInst [2; 1; 0]] t = Some t' /\ inv d sid cl ms' mh t' /\ steps_to t t'.
Proof. exact (prop2_sim d sid HPF HND HENV cl a ctx ms ms' mh t). Qed.

(** modus ponens with its save / pop / pop / pop / load cleanup *)
Theorem C16_mm_step_sim_mp a ctx ms ms' mh t :
  floats ctx = floats d -> mp_ok d a = true -> fst (a_stmt a) = tc_proved ->
  inv d sid cl ms mh t -> apply_assertion ctx a ms = Some ms' ->
  exists t', mp_step t = Some t' /\ inv d sid cl ms' mh t' /\ steps_to t t'.
Proof. exact (mp_sim d sid HPF HND HENV cl a ctx ms ms' mh t). Qed.

(** any step of a decoded compressed proof: label, Z mark, back-reference *)
Theorem C16_mm_step_sim pre post tgt pl steps labels n ms mh ms' mh' t :
  d = pre ++ IProv tgt pl steps :: post -> a_ess tgt = [] ->
  (forall l, In l labels -> label_ok d l = true) ->
  inv d sid cl ms mh t -> mm_step pre tgt labels n (ms, mh) = Some (ms', mh') ->
  exists t', tstep d sid labels n t = Some t' /\ inv d sid cl ms' mh' t' /\ steps_to t t'.
Proof. exact (tstep_sim d sid FF HPF HND HENV AX cl pre post tgt pl steps labels n ms mh ms' mh' t). Qed.
End Steps.
Print Assumptions C16_mm_step_sim.

(** ** 2. composition: the property for the fragment [in_fragment] (MM16/Fragment.v).
    [accepted_with d sid a g c p]: the Gamma phase ends with memory = the images of the exported
    axioms/rules (antecedents as implication chain), the Claim phase with claims = [img stmt], the
    Proof phase runs to the end with no claim left, and [verify] returns normally. *)
Theorem C16_translate d target :
  mm_verify d target = true -> in_fragment d target = true ->
  exists g c p a pl steps sid,
    translate_raw false d target = Some (g, c, p) /\
    find_proof d target = Some (a, pl, steps) /\ sid_of false d target = Some sid /\
    accepted_with d sid a g c p.
Proof. exact (translate_correct d target). Qed.
Print Assumptions C16_translate.

(** with the serializer's byte-range side condition, the byte strings are exactly [translate]'s *)
Theorem C16_translate_bytes d target g c p :
  translate_raw false d target = Some (g, c, p) ->
  small g && small c && small p = true -> translate d target = Some (g, c, p).
Proof. exact (translate_correct_small d target g c p). Qed.

(** ** 3. compression layout is irrelevant: two databases with the same skeleton (they differ only in the
    proof texts of their [$p] statements: label list, Z marks, back-references) publish byte-identical
    Gamma and Claim files, and both proofs are accepted *)
Theorem C16_compression_irrelevant d1 d2 target :
  skeleton d1 = skeleton d2 ->
  mm_verify d1 target = true -> mm_verify d2 target = true ->
  in_fragment d1 target = true -> in_fragment d2 target = true ->
  exists g c p1 p2 s1 s2,
    translate_raw false d1 target = Some (g, c, p1) /\ translate_raw false d2 target = Some (g, c, p2) /\
    verify guards_sound g c p1 = Some s1 /\ verify guards_sound g c p2 = Some s2.
Proof. exact (compression_irrelevant d1 d2 target). Qed.
Print Assumptions C16_compression_irrelevant.

(** ** 4. non-vacuity and anchors: the shipped impreflex-compressed.mm *)
Definition ph (n:N) := TVar n.
Definition d_impreflex (steps:list N) : db :=
  [ IFloat (LOther 0) 0 0; IFloat (LOther 1) 0 1; IFloat (LOther 2) 0 2;
    IAx (mkA LImpIsPattern [] (0, [timp (ph 0) (ph 1)]));
    IAx (mkA LProp1 [] (1, [timp (ph 0) (timp (ph 1) (ph 0))]));
    IAx (mkA LProp2 [] (1, [timp (timp (ph 0) (timp (ph 1) (ph 2))) (timp (timp (ph 0) (ph 1)) (timp (ph 0) (ph 2)))]));
    IAx (mkA LMp [(LOther 3, (1, [timp (ph 0) (ph 1)])); (LOther 4, (1, [ph 0]))] (1, [ph 1]));
    IProv (mkA (LOther 5) [] (1, [timp (ph 0) (ph 0)])) [LImpIsPattern; LProp2; LProp1; LMp] steps ].
(* AAABZBZFAFABBGFBAFACAFDEAADE *)
Definition steps_z : list N := [1;1;1;2;0;2;0;6;1;6;1;2;2;7;6;2;1;6;1;3;1;6;4;5;1;1;4;5].

Example C16_impreflex_hyps :
  mm_verify (d_impreflex steps_z) (LOther 5) = true /\ in_fragment (d_impreflex steps_z) (LOther 5) = true.
Proof. split; vm_compute; reflexivity. Qed.

(** the model's output is byte for byte what the real translator writes for this file *)
Example C16_impreflex_bytes :
  translate (d_impreflex steps_z) (LOther 5) =
  Some ([], [137;0;137;0;5;30],
        [137;0;137;0;137;0;5;28;5;28;29;0;137;0;29;0;137;0;5;5;29;1;29;0;5;137;0;29;0;137;0;13;26;3;2;1;0;
         137;0;29;0;12;26;2;1;0;21;28;27;27;27;29;2;137;0;137;0;12;26;2;1;0;21;28;27;27;27;29;3;30]).
Proof. vm_compute. reflexivity. Qed.

(** the same proof without Z marks (impreflex.mm layout): same Gamma/Claim bytes by [C16_compression_irrelevant] *)
Definition steps_noz : list N := [1;1;1;2;2;1;1;2;1;1;1;2;1;2;2;1;1;1;2;2;1;1;2;2;1;1;1;2;1;5;1;1;1;2;3;4;1;1;3;4].
Definition d_impreflex_noz : db :=
  [ IFloat (LOther 0) 0 0; IFloat (LOther 1) 0 1; IFloat (LOther 2) 0 2;
    IAx (mkA LImpIsPattern [] (0, [timp (ph 0) (ph 1)]));
    IAx (mkA LProp1 [] (1, [timp (ph 0) (timp (ph 1) (ph 0))]));
    IAx (mkA LProp2 [] (1, [timp (timp (ph 0) (timp (ph 1) (ph 2))) (timp (timp (ph 0) (ph 1)) (timp (ph 0) (ph 2)))]));
    IAx (mkA LMp [(LOther 3, (1, [timp (ph 0) (ph 1)])); (LOther 4, (1, [ph 0]))] (1, [ph 1]));
    IProv (mkA (LOther 5) [] (1, [timp (ph 0) (ph 0)])) [LImpIsPattern; LProp1; LMp; LProp2] steps_noz ].
Example C16_compression_hyps :
  skeleton (d_impreflex steps_z) = skeleton d_impreflex_noz /\
  mm_verify d_impreflex_noz (LOther 5) = true /\ in_fragment d_impreflex_noz (LOther 5) = true.
Proof. split; [reflexivity|]. split; vm_compute; reflexivity. Qed.

(** a database with a declared notation, an n-ary constructor and a rule with two essential hypotheses *)
Definition d_rule : db :=
  [ IFloat (LOther 0) 0 0; IFloat (LOther 1) 0 1;
    IAx (mkA LImpIsPattern [] (0, [timp (ph 0) (ph 1)]));
    IAx (mkA (LOther 2) [] (0, [TApp 5 []]));                                   (* k-is-pattern: \k *)
    IAx (mkA (LOther 3) [] (2, [TApp 6 [ph 0]; timp (ph 0) (TApp 5 [])]));     (* n-is-sugar: (\n ph0) := (\imp ph0 \k) *)
    IAx (mkA (LOther 4) [] (0, [TApp 6 [ph 0]]));                               (* n-is-pattern *)
    IAx (mkA (LOther 5) [] (1, [TApp 5 []]));                                   (* ax-k: |- \k *)
    IAx (mkA (LOther 6) [(LOther 7, (1, [ph 0])); (LOther 8, (1, [ph 1]))] (1, [TApp 6 [timp (ph 0) (ph 1)]]));
    IProv (mkA (LOther 9) [] (1, [TApp 6 [timp (TApp 5 []) (TApp 5 [])]])) [LOther 2; LOther 5; LOther 6] [1; 0; 4; 2; 0; 5; 3] ].
Example C16_rule_hyps : mm_verify d_rule (LOther 9) = true /\ in_fragment d_rule (LOther 9) = true.
Proof. split; vm_compute; reflexivity. Qed.
Example C16_rule_accepted :
  match translate d_rule (LOther 9) with
  | Some (g, c, p) => match verify guards_sound g c p with Some _ => true | None => false end
  | None => false end = true.
Proof. vm_compute. reflexivity. Qed.

(** ** 5. the pinned [translate.main] (before repair D16a) published every [$p] as a claim:
    a valid two-lemma database is translated to files the checker rejects *)
Definition d_two : db :=
  [ IFloat (LOther 0) 0 0; IFloat (LOther 1) 0 1;
    IAx (mkA LImpIsPattern [] (0, [timp (ph 0) (ph 1)]));
    IAx (mkA LProp1 [] (1, [timp (ph 0) (timp (ph 1) (ph 0))]));
    IProv (mkA (LOther 2) [] (1, [timp (ph 0) (timp (ph 0) (ph 0))])) [LProp1] [1; 1; 2];
    IProv (mkA (LOther 3) [] (1, [timp (ph 1) (timp (ph 0) (ph 1))])) [LProp1] [2; 1; 3] ].
Theorem C16_pinned_all_claims_refuted :
  exists d target g c p,
    mm_verify d target = true /\ in_fragment d target = true /\
    translate_gen true d target = Some (g, c, p) /\ verify guards_sound g c p = None.
Proof.
  exists d_two, (LOther 2). eexists. eexists. eexists.
  split; [vm_compute; reflexivity|]. split; [vm_compute; reflexivity|].
  split; [vm_compute; reflexivity | vm_compute; reflexivity].
Qed.
(** ... and the repaired one is covered by [C16_translate]: *)
Example C16_two_lemmas_ok :
  match translate d_two (LOther 3) with
  | Some (g, c, p) => match verify guards_sound g c p with Some _ => true | None => false end
  | None => false end = true.
Proof. vm_compute. reflexivity. Qed.

(** C07 — Python proof rules apply exactly when the documented rule applies.
    Model: [basic_mp]/[basic_gen]/[basic_inst] in coq/Py/Pattern.v (basic_interpreter.py:97-117; the stateful
    and serialising interpreters and ProofExp.modus_ponens run the same code).  Inner [None] = AssertionError.
    The documented rule is evaluated on full expansions.  Partial-correctness form over the fuel. *)
From Coq Require Import NArith List Bool.
From Pi2 Require Import ML.Syntax ML.Subst Py.Pattern Py.PatFacts Py.ExpandFacts Py.RulesFacts Py.Termination Py.Total Py.Bridge Py.Current Py.Witness.
Import ListNotations.
Open Scope N_scope.

(** modus_ponens returns c exactly when the left premise expands to (right premise -> c) *)
Theorem C07_mp_exact : forall f, f_mv_keep_subst f = true -> f_inst_extend f = true ->
  forall n L R res, basic_mp f n L R = Some res ->
  forall c', (exists c, res = Some c /\ expand f c = c') <-> expand f L = Imp (expand f R) c'.
Proof. exact mp_exact. Qed.
Print Assumptions C07_mp_exact.

(** exists_generalization returns ((exists x. l) -> r) exactly when the premise expands to (l -> r) with x fresh in r *)
Theorem C07_gen_exact : forall f, f_mv_keep_subst f = true -> f_inst_extend f = true -> f_fresh_simplify f = true ->
  forall n C x res, basic_gen f n C x = Some res ->
  forall c', (exists c, res = Some c /\ expand f c = c') <->
             (exists l r, expand f C = Imp l r /\ e_fresh r x = true /\ c' = Imp (Ex x l) r).
Proof. exact gen_exact. Qed.
Print Assumptions C07_gen_exact.

(** instantiate never raises; its conclusion is the simultaneous instantiation of the expansion *)
Theorem C07_inst_exact : forall f, f_mv_keep_subst f = true -> f_inst_extend f = true ->
  forall n C d c, basic_inst f n C d = Some c -> expand f c = p_inst f (expand f C) (expand_delta f d).
Proof. exact inst_exact. Qed.
(** ... which is the pattern the checker's Instantiate produces whenever the checker accepts *)
Theorem C07_inst_agrees_with_checker : forall f, f_mv_keep_subst f = true ->
  forall g vars plugs, length vars = length plugs -> forall p q,
  wf_meta p = true -> inst g p vars plugs = Some q -> p_inst' f p (zipd vars plugs) = q.
Proof. exact inst_checker_py. Qed.
Print Assumptions C07_inst_agrees_with_checker.

(** total correctness: with fuel beyond the structural measure [dm] of the premises each rule answers
    (conclusion or AssertionError), exactly as the documented rule prescribes *)
Theorem C07_mp_total : forall f, f_mv_keep_subst f = true -> f_inst_extend f = true ->
  forall L R n, (dm L one + dm R one <= n)%nat ->
  exists res, basic_mp f n L R = Some res /\
    forall c', (exists c, res = Some c /\ expand f c = c') <-> expand f L = Imp (expand f R) c'.
Proof. exact basic_mp_total. Qed.
Theorem C07_gen_total : forall f, f_mv_keep_subst f = true -> f_inst_extend f = true -> f_fresh_simplify f = true ->
  forall C x n, (dm C one <= n)%nat ->
  exists res, basic_gen f n C x = Some res /\
    forall c', (exists c, res = Some c /\ expand f c = c') <->
               (exists l r, expand f C = Imp l r /\ e_fresh r x = true /\ c' = Imp (Ex x l) r).
Proof. exact basic_gen_total. Qed.
Theorem C07_inst_total : forall f, f_mv_keep_subst f = true -> f_inst_extend f = true ->
  forall C d n, (dm C (E d) <= n)%nat ->
  exists c, basic_inst f n C d = Some c /\ expand f c = p_inst f (expand f C) (expand_delta f d).
Proof. exact basic_inst_total. Qed.
Print Assumptions C07_gen_total.

(** ---- non-vacuity ---- *)
Example C07_ex_mp : basic_mp flags_sound 30 (PImp (neg_p (PEVar 1)) (PEVar 2)) (PImp (PEVar 1) bot_p) = Some (Some (PEVar 2)).
Proof. vm_compute. reflexivity. Qed.
Example C07_ex_mp_reject : basic_mp flags_sound 30 (PImp (neg_p (PEVar 1)) (PEVar 2)) (PEVar 1) = Some None.
Proof. vm_compute. reflexivity. Qed.
Example C07_ex_mp_nonimp : basic_mp flags_sound 30 bot_p (PEVar 1) = Some None.
Proof. vm_compute. reflexivity. Qed.
Example C07_ex_gen : basic_gen flags_sound 30 (PImp (PEVar 1) (and_p (PEVar 2) (PEVar 3))) 1 =
  Some (Some (PImp (PEx 1 (PEVar 1)) (and_p (PEVar 2) (PEVar 3)))).
Proof. vm_compute. reflexivity. Qed.
Example C07_ex_gen_reject : basic_gen flags_sound 30 (PImp (pphi 0) (and_p (PEVar 1) (PEVar 2))) 1 = Some None.
Proof. vm_compute. reflexivity. Qed.

(** ---- refutations ---- *)
(** D3: the generalised variable occurs free in the consequent, under notation, and the rule still fires *)
Theorem C07_refuted_gen_notation :
  exists C x n c, basic_gen flags_no_fresh_simplify n C x = Some (Some c) /\
    forall l r, expand flags_no_fresh_simplify C = Imp l r -> e_fresh r x = false.
Proof.
  exists (PImp (pphi 0) (and_p (PEVar 1) (PEVar 2))), 1, 30%nat, (PImp (PEx 1 (pphi 0)) (and_p (PEVar 1) (PEVar 2))).
  split; [vm_compute; reflexivity|]. intros l r H. vm_compute in H. inversion H; subst. reflexivity.
Qed.
(** D5: instantiate of a conclusion that is a partial Instantiate *)
Theorem C07_refuted_inst_partial :
  exists C d n c, basic_inst flags_no_inst_extend n C d = Some c /\
    expand flags_no_inst_extend c <> p_inst flags_no_inst_extend (expand flags_no_inst_extend C) (expand_delta flags_no_inst_extend d).
Proof.
  exists d5_pat, d5_delta, 30%nat, (PInst (PImp (pphi 0) (pphi 0)) [(0, PEVar 7)]).
  split; [vm_compute; reflexivity|]. vm_compute. discriminate.
Qed.

(** ================================================================================================
    For the configuration the CURRENT code is in ([flags_current], D9d present), on corner-free premises
    (Py/Bridge.v; see Props/C12.v); the returned conclusion is corner-free again. *)
Theorem C07_bridge_mp : forall se ss f n L R, corner_free se ss L = true -> corner_free se ss R = true ->
  basic_mp f n L R = basic_mp (with_keep f) n L R.
Proof. exact basic_mp_bridge. Qed.
Theorem C07_bridge_gen : forall se ss f n C x, corner_free se ss C = true -> basic_gen f n C x = basic_gen (with_keep f) n C x.
Proof. exact basic_gen_bridge. Qed.
Theorem C07_bridge_inst : forall se ss f n C d, corner_free se ss C = true -> cfd se ss d = true ->
  basic_inst f n C d = basic_inst (with_keep f) n C d.
Proof. exact basic_inst_bridge. Qed.

Theorem C07_mp_exact_current_code : forall se ss n L R res,
  corner_free se ss L = true -> corner_free se ss R = true -> basic_mp flags_current n L R = Some res ->
  forall c', (exists c, res = Some c /\ corner_free se ss c = true /\ expand flags_current c = c') <->
             expand flags_current L = Imp (expand flags_current R) c'.
Proof. exact (fun se ss => mp_exact_cur se ss flags_current eq_refl). Qed.
Theorem C07_gen_exact_current_code : forall se ss n C x res,
  corner_free se ss C = true -> basic_gen flags_current n C x = Some res ->
  forall c', (exists c, res = Some c /\ corner_free se ss c = true /\ expand flags_current c = c') <->
             (exists l r, expand flags_current C = Imp l r /\ e_fresh r x = true /\ c' = Imp (Ex x l) r).
Proof. exact (fun se ss => gen_exact_cur se ss flags_current eq_refl eq_refl). Qed.
Theorem C07_inst_exact_current_code : forall se ss n C d c,
  corner_free se ss C = true -> cfd se ss d = true -> basic_inst flags_current n C d = Some c ->
  expand flags_current c = p_inst flags_current (expand flags_current C) (expand_delta flags_current d).
Proof. exact (fun se ss => inst_exact_cur se ss flags_current eq_refl). Qed.
Print Assumptions C07_gen_exact_current_code.

Example C07_ex_current_unconstrained :
  corner_free [1] [] (PImp (neg_p (pphi 0)) (PESub (pphi 1) 1 (PEVar 2))) = true /\
  basic_mp flags_current 30 (PImp (neg_p (pphi 0)) (PESub (pphi 1) 1 (PEVar 2))) (PImp (pphi 0) bot_p)
    = Some (Some (PESub (pphi 1) 1 (PEVar 2))).
Proof. vm_compute. split; reflexivity. Qed.
Example C07_ex_current_constrained :
  corner_free [1] [] (PImp (pphi 0) (and_p (PMVar 1 [3] [] [] [] []) (PESub (pphi 2) 1 (PEVar 2)))) = true /\
  basic_gen flags_current 30 (PImp (pphi 0) (and_p (PMVar 1 [3] [] [] [] []) (PESub (pphi 2) 1 (PEVar 2)))) 3 = Some None /\
  basic_gen flags_current 30 (PImp (pphi 0) (and_p (PMVar 1 [3] [] [] [] []) (PEVar 2))) 3
    = Some (Some (PImp (PEx 3 (pphi 0)) (and_p (PMVar 1 [3] [] [] [] []) (PEVar 2)))).
Proof. vm_compute. repeat split; reflexivity. Qed.

(** ================================================================================================
    C07_source_*: the theorems stated of the functions GENERATED from the current source
    (coq/Gen/PyPattern.v, rewritten from pattern.py / basic_interpreter.py on every run by translators/pypattern.py;
    agreement with the model: coq/Py/GenPyPatternAgree.v). *)
From Pi2 Require Import Py.GenSupport Gen.PyPattern Py.GenPyPatternAgree Py.SourceFacts.
Theorem C07_source_agreement_mp : forall n L R, src_modus_ponens n L R = flat (basic_mp flags_current n L R).
Proof. exact src_modus_ponens_eq. Qed.
Theorem C07_source_agreement_gen : forall n C x, src_exists_generalization n C x = flat (basic_gen flags_current n C x).
Proof. exact src_exists_generalization_eq. Qed.
Theorem C07_source_agreement_inst : forall n C d, src_instantiate_rule n C d = basic_inst flags_current n C d.
Proof. exact src_instantiate_rule_eq. Qed.
Theorem C07_source_mp_exact : forall se ss n L R, corner_free se ss L = true -> corner_free se ss R = true ->
  (dm L one + dm R one <= n)%nat ->
  forall c', (exists c, src_modus_ponens n L R = Some c /\ corner_free se ss c = true /\ expand flags_current c = c') <->
             expand flags_current L = Imp (expand flags_current R) c'.
Proof. exact source_mp_exact. Qed.
Theorem C07_source_gen_exact : forall se ss n C x, corner_free se ss C = true -> (dm C one <= n)%nat ->
  forall c', (exists c, src_exists_generalization n C x = Some c /\ corner_free se ss c = true /\ expand flags_current c = c') <->
             (exists l r, expand flags_current C = Imp l r /\ e_fresh r x = true /\ c' = Imp (Ex x l) r).
Proof. exact source_gen_exact. Qed.
Theorem C07_source_inst_exact : forall se ss n C d c, corner_free se ss C = true -> cfd se ss d = true ->
  src_instantiate_rule n C d = Some c ->
  expand flags_current c = p_inst flags_current (expand flags_current C) (expand_delta flags_current d).
Proof. exact source_inst_exact. Qed.
Print Assumptions C07_source_gen_exact.
Example C07_source_ex :
  src_modus_ponens 30 (PImp (neg_p (pphi 0)) (PEVar 2)) (PImp (pphi 0) bot_p) = Some (PEVar 2) /\
  src_exists_generalization 30 (PImp (pphi 0) (and_p (PEVar 1) (PEVar 2))) 1 = None.
Proof. vm_compute. split; reflexivity. Qed.

(** C14 -- Binary round trip: deserialising a serialised proof replays it.

    Model: coq/Interp/Calls.v ([ser_run] = StatefulInterpreter + SerializingInterpreter on one sink,
    [deser] = deserialize.py with every D7 defect repaired = [dflags_fixed]).  The fresh interpreter
    the bytes are fed to starts from the serialiser's initial state with its symbols renamed by the
    serialiser's final table ([rn_tracker (numbering tbl)]): the deserialiser names a symbol by the
    byte it reads. *)
From Coq Require Import NArith List Bool.
From Pi2 Require Import ML.Syntax ML.Subst ML.Machine Interp.Calls Interp.Facts Interp.RoundTrip.
From Pi2 Require Import Interp.SerialLib Gen.PySerial Interp.GenPySerialAgree.
Import ListNotations.
Open Scope N_scope.

(** Full statement: for EVERY call sequence the serialiser accepts inside one phase (any phase, any
    starting tracker: stack, memory, claims), the bytes it wrote, fed through the deserialiser into
    the renamed starting tracker, are accepted and end in the serialiser's final tracker up to symbol
    renumbering -- same stack (including the publish residues), memory, claims, journal. *)
Theorem C14_roundtrip : forall cs tbl tr tblF trF bs,
  ser_run tbl tr cs = Some (tblF, trF, bs) ->
  stateful_run tr cs = Some trF /\
  deser dflags_fixed bs (rn_tracker (numbering tblF) tr) = Some (rn_tracker (numbering tblF) trF).
Proof.
  intros cs tbl tr tblF trF bs H. split.
  - exact (ser_run_stateful _ _ _ _ _ _ H).
  - exact (roundtrip _ _ _ _ _ _ H).
Qed.
Print Assumptions C14_roundtrip.

(** the three files of a module, one interpreter, one numbering *)
Theorem C14_roundtrip_module : forall tr0 gcs ccs pcs t1 tr1 gb tr1' t2 tr2 cb tr2' t3 tr3 pb,
  ser_run [] tr0 gcs = Some (t1, tr1, gb) -> stateful_step tr1 CIntoClaim = Some tr1' ->
  ser_run t1 tr1' ccs = Some (t2, tr2, cb) -> stateful_step tr2 CIntoProof = Some tr2' ->
  ser_run t2 tr2' pcs = Some (t3, tr3, pb) ->
  let f := numbering t3 in
  exists d1 d1' d2 d2',
    deser dflags_fixed gb (rn_tracker f tr0) = Some d1 /\ stateful_step d1 CIntoClaim = Some d1' /\
    deser dflags_fixed cb d1' = Some d2 /\ stateful_step d2 CIntoProof = Some d2' /\
    deser dflags_fixed pb d2' = Some (rn_tracker f tr3).
Proof. exact roundtrip_module. Qed.
Print Assumptions C14_roundtrip_module.

(** the tracker step does not depend on how symbols are named (used by both theorems above) *)
Theorem C14_step_renaming : forall f tr c tr',
  stateful_step tr c = Some tr' -> stateful_step (rn_tracker f tr) (rn_call f c) = Some (rn_tracker f tr').
Proof. exact stateful_step_rn. Qed.
Print Assumptions C14_step_renaming.

(** unknown input (byte 0 included) is an error, whatever follows and whatever the state *)
Theorem C14_deser_rejects_unknown : forall op rest tr,
  handled op = false -> deser dflags_fixed (op :: rest) tr = None.
Proof. exact deser_rejects_unknown. Qed.
Print Assumptions C14_deser_rejects_unknown.

Example C14_byte0_is_unknown : handled 0 = false /\ handled 1 = false /\ handled 16 = false /\ handled 255 = false.
Proof. repeat split. Qed.

(** truncated input is an error: a serialised run followed by an instruction of the serialiser cut
    anywhere inside its operands *)
Theorem C14_deser_rejects_truncated : forall cs tbl tr tbl1 tr1 bs c tr2 tbl2 op ops k,
  ser_run tbl tr cs = Some (tbl1, tr1, bs) ->
  ser_step tbl1 tr1 c = Some (tbl2, tr2, op :: ops) -> (k < length ops)%nat ->
  deser dflags_fixed (bs ++ op :: firstn k ops) (rn_tracker (numbering tbl1) tr) = None.
Proof. exact deser_rejects_truncated. Qed.
Print Assumptions C14_deser_rejects_truncated.

(* ---------------------------------------------------------------------------------------------- *)
(** Non-vacuity: a proof-phase run with ESubst, a constrained metavariable, Quantifier, Instantiate,
    Generalization, Save/Load and Publish is accepted by the serialiser. *)
Definition ex_sym_imp := Imp (Sym 7) (Imp (Sym 9) (Sym 7)).
Definition ex_calls : list call :=
  [ CEVar 1; CMetaVar 0 [] [] [] [] []; CESubst 0 (phi 0) (EVar 1); CPop (TPat (ESub (phi 0) 0 (EVar 1)));
    CMetaVar 1 [0;1] [1] [] [] []; CSave (TPat (MVar 1 [0;1] [1] [] [] [])); CPop (TPat (MVar 1 [0;1] [1] [] [] []));
    CQuantifier; CPop (TProved ax_quantifier);
    CSymbol 7; CSymbol 9; CProp1; CInstantiate ax_prop1 [(0, Sym 7); (1, Sym 9)];
    CGeneralization ex_sym_imp 5;
    CLoad (TPat (MVar 1 [0;1] [1] [] [] [])); CPop (TPat (MVar 1 [0;1] [1] [] [] []));
    CPublishProof (Imp (Ex 5 (Sym 7)) (Imp (Sym 9) (Sym 7))) ].
Definition ex_tr0 := fresh_tracker Proof [Imp (Ex 5 (Sym 7)) (Imp (Sym 9) (Sym 7))].

Example C14_roundtrip_nonvacuous :
  exists tblF trF bs, ser_run [] ex_tr0 ex_calls = Some (tblF, trF, bs) /\ tblF = [7; 9] /\ length bs = 36%nat.
Proof. vm_compute. eexists _, _, _. repeat split. Qed.

Example C14_truncated_nonvacuous :
  exists tbl2 tr2 op ops, ser_step [] (fresh_tracker Claim []) (CMetaVar 1 [0;1] [1] [] [] []) = Some (tbl2, tr2, op :: ops)
                          /\ length ops = 9%nat.
Proof. vm_compute. eexists _, _, _, _. split; reflexivity. Qed.

(* ---------------------------------------------------------------------------------------------- *)
(** The seven defects of the pinned deserialize.py (D7a-g), each as a configuration of [dflags];
    every one breaks the round trip (or the error reporting) on a concrete witness.  All seven are
    repaired in /repo (one [fix:] commit each); the witnesses are the seed corpus of the
    failing-input search (harness/corpus/C14). *)
Definition only (i:nat) : dflags :=
  Build_dflags (Nat.eqb i 0) (Nat.eqb i 1) (Nat.eqb i 2) (Nat.eqb i 3) (Nat.eqb i 4) (Nat.eqb i 5) (Nat.eqb i 6).

Definition breaks (df:dflags) (tr0:tracker) (cs:list call) : Prop :=
  exists tblF trF bs, ser_run [] tr0 cs = Some (tblF, trF, bs) /\
    deser df bs (rn_tracker (numbering tblF) tr0) <> Some (rn_tracker (numbering tblF) trF).

Ltac witness := vm_compute; eexists _, _, _; split; [reflexivity | discriminate].

Theorem C14_defect_D7a_esubst_plug :
  breaks (only 0) (fresh_tracker Proof []) [CEVar 1; CMetaVar 0 [] [] [] [] []; CESubst 0 (phi 0) (EVar 1)].
Proof. witness. Qed.
Theorem C14_defect_D7b_ssubst_plug :
  breaks (only 0) (fresh_tracker Proof []) [CSVar 1; CMetaVar 0 [] [] [] [] []; CSSubst 0 (phi 0) (SVar 1)].
Proof. witness. Qed.
Theorem C14_defect_D7c_metavar_constraints :
  breaks (only 1) (fresh_tracker Claim []) [CMetaVar 1 [0;1] [] [] [] []].
Proof. witness. Qed.
Theorem C14_defect_D7d_quantifier : breaks (only 2) (fresh_tracker Proof []) [CQuantifier].
Proof. witness. Qed.
Theorem C14_defect_D7e_generalization :
  breaks (only 3) (fresh_tracker Proof [])
    [CSymbol 1; CSymbol 2; CProp1; CInstantiate ax_prop1 [(0, Sym 1); (1, Sym 2)];
     CGeneralization (Imp (Sym 1) (Imp (Sym 2) (Sym 1))) 5].
Proof. witness. Qed.
Theorem C14_defect_D7f_publish_gamma : breaks (only 4) (fresh_tracker Gamma []) [CEVar 0; CPublishAxiom (EVar 0)].
Proof. witness. Qed.
Theorem C14_defect_D7f_publish_proof :
  breaks (only 5) (fresh_tracker Proof [ax_prop1]) [CProp1; CPublishProof ax_prop1].
Proof. witness. Qed.
(** byte 0 ends the loop silently: an unknown byte is not reported *)
Theorem C14_defect_D7g_zero_stops :
  exists rest tr, handled 0 = false /\ deser (only 6) (0 :: rest) tr = Some tr /\ rest <> [].
Proof. exists [12], (fresh_tracker Proof []). repeat split. discriminate. Qed.

(* ---------------------------------------------------------------------------------------------- *)
(** The same statements about the functions REGENERATED from the current source (translators/py_serial.py ->
    Gen/PySerial.v): [gen_ser_run] writes with the translated methods of SerializingInterpreter (opcodes from
    instruction.py), [gen_deser] is the translated dispatch loop of deserialize_instructions.  Both run the
    hand-written tracker [stateful_step] for the super() / interpreter calls. *)
Theorem C14_source_agreement :
  (forall tbl tr c, gen_emit_tbl tbl tr c = emit tbl tr c) /\
  (forall op bs tr, gen_decode op bs tr = decode dflags_fixed op bs tr) /\
  (forall bs tr, gen_deser bs tr = deser dflags_fixed bs tr).
Proof. split; [exact gen_emit_tbl_agrees | split; [exact gen_decode_agrees | exact gen_deser_agrees]]. Qed.
Print Assumptions C14_source_agreement.

Theorem C14_source_roundtrip : forall cs tbl tr tblF trF bs,
  gen_ser_run tbl tr cs = Some (tblF, trF, bs) ->
  stateful_run tr cs = Some trF /\
  gen_deser bs (rn_tracker (numbering tblF) tr) = Some (rn_tracker (numbering tblF) trF).
Proof.
  intros cs tbl tr tblF trF bs H. rewrite gen_ser_run_agrees in H. rewrite gen_deser_agrees.
  exact (C14_roundtrip _ _ _ _ _ _ H).
Qed.
Print Assumptions C14_source_roundtrip.

Theorem C14_source_rejects_unknown : forall op rest tr,
  handled op = false -> gen_deser (op :: rest) tr = None.
Proof. intros. rewrite gen_deser_agrees. apply deser_rejects_unknown. assumption. Qed.

Theorem C14_source_rejects_truncated : forall cs tbl tr tbl1 tr1 bs c tr2 tbl2 op ops k,
  gen_ser_run tbl tr cs = Some (tbl1, tr1, bs) ->
  gen_ser_step tbl1 tr1 c = Some (tbl2, tr2, op :: ops) -> (k < length ops)%nat ->
  gen_deser (bs ++ op :: firstn k ops) (rn_tracker (numbering tbl1) tr) = None.
Proof.
  intros cs tbl tr tbl1 tr1 bs c tr2 tbl2 op ops k H1 H2 Hk.
  rewrite gen_ser_run_agrees in H1. rewrite gen_ser_step_agrees in H2. rewrite gen_deser_agrees.
  eapply deser_rejects_truncated; eassumption.
Qed.
Print Assumptions C14_source_rejects_truncated.

Example C14_source_nonvacuous :
  exists tblF trF bs, gen_ser_run [] ex_tr0 ex_calls = Some (tblF, trF, bs) /\ length bs = 36%nat.
Proof. vm_compute. eexists _, _, _. split; reflexivity. Qed.

(** C15 — Metamath compressed proofs are decoded as the Metamath specification (Appendix B) says.
    Model: MM15/Codec.v (converter.py [_import_proof] and what it calls; parser.py proof field).
    Only statements here; the proofs are in MM15/CodecProofs.v. *)
From Coq Require Import NArith List Permutation Lia.
From Pi2 Require Import MM15.Codec MM15.CodecProofs MM15.Witness MM15.Replay MM15.ReplayProofs
  MM15.GenPrelude Gen.MMDecode MM15.GenMMDecodeAgree.
Import ListNotations.
Open Scope N_scope.

(** Every number has an encoding that decodes back to itself — for ALL n >= 1, no bound. *)
Theorem C15_decode_encode : forall n, 1 <= n -> decode_word (encode n) = Some n.
Proof. exact decode_encode. Qed.
Print Assumptions C15_decode_encode.

Theorem C15_decode_encode_pos : forall p : positive, decode_word (encode (Npos p)) = Some (Npos p).
Proof. exact decode_encode_pos. Qed.
Print Assumptions C15_decode_encode_pos.

(** Every valid word (high digits U..Y then one of A..T) is the encoding of the number it decodes to. *)
Theorem C15_encode_decode : forall w, valid_word w ->
  exists n, decode_word w = Some n /\ 1 <= n /\ encode n = w.
Proof. exact encode_decode. Qed.
Print Assumptions C15_encode_decode.
Example C15_encode_decode_nonvacuous : valid_word [86; 89; 84].   (* "VYT" *)
Proof. exists [86; 89], 84. repeat split; try (repeat constructor; unfold is_ms; lia); unfold is_ls; lia. Qed.

(** The decoder accepts nothing else, and each number has exactly one encoding. *)
Theorem C15_decode_only_valid : forall w n, decode_word w = Some n -> valid_word w /\ 1 <= n.
Proof. exact decode_only_valid. Qed.
Print Assumptions C15_decode_only_valid.
Theorem C15_encoding_unique : forall w1 w2 n,
  decode_word w1 = Some n -> decode_word w2 = Some n -> w1 = w2.
Proof. exact encoding_unique. Qed.
Print Assumptions C15_encoding_unique.
Example C15_encoding_unique_nonvacuous : decode_word [85; 85; 65] = Some 121.
Proof. reflexivity. Qed.

(** The code's decoder (reverse, explicit powers of 5) is Appendix B's left-to-right decoder — the same
    partial function on EVERY string, valid or not. *)
Theorem C15_decode_is_appendixB : forall w, decode_word w = appendixB_decode w.
Proof. exact decode_word_is_appendixB. Qed.
Print Assumptions C15_decode_is_appendixB.

(** Z handling: for every list of steps (numbers >= 1 and marks, Z anywhere) the letter stream is
    split back into exactly those steps, 0 standing for Z. *)
Theorem C15_split_steps_spec : forall ss, Forall step_ok ss ->
  split_steps (concat (map render ss)) = Some (map step_code ss).
Proof. exact split_steps_spec. Qed.
Print Assumptions C15_split_steps_spec.
Example C15_split_steps_nonvacuous : Forall step_ok [SNum 1; SMark; SNum 621; SMark; SMark; SNum 20].
Proof. repeat constructor; cbn; lia. Qed.

(** ... and whatever the loop accepts over A..Z is such a stream, up to an unfinished trailing word
    of high digits, which the pinned code drops silently. *)
Theorem C15_split_steps_sound : forall s r, Forall is_letter s -> split_steps s = Some r ->
  exists ss tail, s = concat (map render ss) ++ tail /\ Forall step_ok ss /\
                  r = map step_code ss /\ Forall is_ms tail.
Proof. intros s r Hs H. exact (steps_loop_sound s [] r Hs (Forall_nil _) H). Qed.
Print Assumptions C15_split_steps_sound.

(** Whatever Appendix B's one-pass stream decoder accepts, the code decodes to the same steps. *)
Theorem C15_appendixB_stream_agrees : forall s r, appendixB_stream s = Some r -> split_steps s = Some r.
Proof. exact appendixB_stream_agrees. Qed.
Print Assumptions C15_appendixB_stream_agrees.
Example C15_appendixB_stream_nonvacuous : appendixB_stream [65; 90; 85; 85; 65; 90] = Some [1; 0; 121; 0].
Proof. reflexivity. Qed.
(** The converse fails only on malformed streams: an unfinished number at the end is an error for
    Appendix B and silently dropped by the code (recorded in notes/C15.md; no valid proof is affected). *)
Example C15_trailing_partial_word_dropped :
  appendixB_stream [65; 85; 85] = None /\ split_steps [65; 85; 85] = Some [1].
Proof. split; reflexivity. Qed.

(** Numbers index mandatory hypotheses, then listed labels, then marked steps. *)
Theorem C15_numbers_partition : forall (mand ls : list str) (n : N), 1 <= n ->
  match classify (length mand) (length ls) n with
  | RHyp i => lookup (mand ++ ls) n = nth_error mand i /\ (i < length mand)%nat /\ N.of_nat (S i) = n
  | RLabel i => lookup (mand ++ ls) n = nth_error ls i /\ (i < length ls)%nat
                /\ N.of_nat (S (length mand + i)) = n
  | RSaved j => lookup (mand ++ ls) n = None /\ N.of_nat (S (length mand + length ls + j)) = n
  | RMark => False
  end.
Proof. exact numbers_partition. Qed.
Print Assumptions C15_numbers_partition.

(** Resolution of marked steps during replay (translate.py exec_proof; label steps abstracted to the term they
    leave on top): a reference numbered m + k + j + 1 loads the term marked by the (j+1)-th Z — duplicates
    counted, so marking equal expressions twice or putting Z after a back-reference does not shift numbers. *)
Theorem C15_marked_reference_denotes : forall (A : Type) (eqb : A -> A -> bool) m k steps tr i j p,
  replay_marks eqb false m k steps None [] = Some tr ->
  nth_error tr i = Some (ERef j p) -> nth_error (saved (firstn i tr)) j = Some p.
Proof. exact @marked_reference_denotes. Qed.
Print Assumptions C15_marked_reference_denotes.
(** Z marks the preceding step. *)
Theorem C15_z_marks_preceding_step : forall (A : Type) (eqb : A -> A -> bool) m k steps tr i p,
  replay_marks eqb false m k steps None [] = Some tr ->
  nth_error tr i = Some (EZ p) -> exists i', i = S i' /\ option_map term_of (nth_error tr i') = Some p.
Proof. exact @z_marks_preceding_step. Qed.
Print Assumptions C15_z_marks_preceding_step.
Theorem C15_replay_dispatch : forall (A : Type) (eqb : A -> A -> bool) m k steps tr i n t,
  replay_marks eqb false m k steps None [] = Some tr -> nth_error steps i = Some (n, t) ->
  match classify m k n, nth_error tr i with
  | RMark, Some (EZ _) => True
  | RSaved j, Some (ERef j' _) => j = j'
  | (RHyp _ | RLabel _), Some (ELabel t') => t = t'
  | _, _ => False
  end.
Proof. exact @replay_dispatch. Qed.
Print Assumptions C15_replay_dispatch.
(** non-vacuity: equal terms marked twice (10, 10), then 20; number 4 = second mark, number 5 = third mark *)
Example C15_marked_reference_nonvacuous :
  replay_marks_N false 1 1 [(1, 10); (0, 0); (1, 10); (0, 0); (2, 20); (0, 0); (4, 0); (0, 0); (5, 0)]%N None []
  = Some [ELabel 10; EZ 10; ELabel 10; EZ 10; ELabel 20; EZ 20; ERef 1 10; EZ 10; ERef 2 20]%N.
Proof. reflexivity. Qed.
(** A replay that skips a Z whose term is already marked (guard [dedup = true]) shifts every later number:
    number 4 then loads the THIRD mark's term and number 5 is out of range. *)
Theorem C15_refuted_dedup_marks :
  exists steps tr i j p, replay_marks_N true 1 1 steps None [] = Some tr /\
    nth_error tr i = Some (ERef j p) /\ nth_error (saved (firstn i tr)) j <> Some p.
Proof.
  exists [(1, 10); (0, 0); (1, 10); (0, 0); (2, 20); (0, 0); (4, 0)]%N.
  eexists. exists 6%nat, 1%nat, 20%N. split; [vm_compute; reflexivity|]. split; [reflexivity|].
  vm_compute. intros H. discriminate H.
Qed.
Print Assumptions C15_refuted_dedup_marks.
Example C15_refuted_dedup_marks_out_of_range :
  replay_marks_N true 1 1 [(1, 10); (0, 0); (1, 10); (0, 0); (2, 20); (0, 0); (5, 0)]%N None [] = None.
Proof. reflexivity. Qed.

(** Any whitespace layout gives the same tokens. *)
Theorem C15_tokenize_layout : forall pre items, all_lex_space pre ->
  Forall (fun it => tok_ok (fst it) /\ sep_ok (snd it)) items ->
  tokenize (layout pre items) = map fst items.
Proof. exact tokenize_layout. Qed.
Print Assumptions C15_tokenize_layout.

(** Label list (including the empty one): the character-level scanner returns exactly the labels
    and the letters. *)
Theorem C15_labels_parse : forall mand ls ws, Forall label_ok ls -> Forall no_space ws ->
  split_proof mand (compressed_field ls ws) = Some (mand ++ ls, concat ws).
Proof. exact labels_parse. Qed.
Print Assumptions C15_labels_parse.
Example C15_labels_parse_empty : split_proof [] (compressed_field [] [[65; 66]; [67]]) = Some ([], [65; 66; 67]).
Proof. reflexivity. Qed.

(** Mandatory hypotheses: database order of the $f statements, whatever order the set of the
    statement's variables is iterated in. *)
Theorem C15_mandatory_order : forall fs pi pi', Permutation pi pi' ->
  mandatory true fs pi = mandatory true fs pi'.
Proof. exact mandatory_perm. Qed.
Print Assumptions C15_mandatory_order.
Theorem C15_mandatory_db_order : forall fs vars,
  sublist (mand_db_order fs vars) (map fst fs) /\
  (forall l v, In (l, v) fs -> In v vars -> In l (mand_db_order fs vars)) /\
  (forall l, In l (mand_db_order fs vars) -> exists v, In (l, v) fs /\ In v vars).
Proof. exact mandatory_db_order. Qed.
Print Assumptions C15_mandatory_db_order.
Example C15_mandatory_order_nonvacuous :
  Permutation [w_ph0; w_ph1] [w_ph1; w_ph0] /\ mandatory true w_db [w_ph1; w_ph0] = [w_ph0_lbl; w_ph1_lbl].
Proof. split; [apply perm_swap|reflexivity]. Qed.

(** Only the variables of the assertion (and of its $e hypotheses, which the translator does not support) are
    mandatory.  Feeding the numbering also the variables that occur only in a $d of the enclosing block (dummy
    variables) shifts every listed label and marked step: *)
Theorem C15_refuted_dv_only_variables_mandatory :
  exists fs vars dv src, import_statement true fs (vars ++ dv) src <> import_statement true fs vars src.
Proof.
  exists w_db, [w_ph1], [w_ph0], w_src. vm_compute. intros H. discriminate H.
Qed.
Print Assumptions C15_refuted_dv_only_variables_mandatory.

(** The whole of [_import_proof], for every database, variable-set iteration order, whitespace
    layout, label list, chunking of the letters into words and placement of Z. *)
Theorem C15_import_statement_spec :
  forall fs pi pre items ls ws ss,
    all_lex_space pre ->
    Forall (fun it => tok_ok (fst it) /\ sep_ok (snd it)) items ->
    map fst items = [40] :: ls ++ [41] :: ws ->
    Forall label_ok ls -> Forall no_space ws ->
    concat ws = concat (map render ss) -> Forall step_ok ss ->
    import_statement true fs pi (layout pre items) = Some (mand_db_order fs pi ++ ls, map step_code ss).
Proof. exact import_statement_spec. Qed.
Print Assumptions C15_import_statement_spec.
Example C15_import_statement_nonvacuous :
  import_statement true w_db [w_ph1; w_ph0] w_src2
  = Some ([w_ph0_lbl; w_ph1_lbl; [97]; [98]], [1; 1; 2; 0; 21; 0]).
Proof. vm_compute. reflexivity. Qed.

(** The code as pinned (before the D12 repair) iterated the set itself: two iteration orders of the
    same two-variable set give two different decodings of the same proof. *)
Theorem C15_refuted_set_order :
  exists fs pi pi' src, Permutation pi pi' /\
    import_statement false fs pi src <> import_statement false fs pi' src.
Proof.
  exists w_db, [w_ph0; w_ph1], [w_ph1; w_ph0], w_src. split; [apply perm_swap|].
  vm_compute. intros H. discriminate H.
Qed.
Print Assumptions C15_refuted_set_order.

(* ================================================================================================ *)
(** * The same statements about the functions TRANSLATED FROM THE CURRENT SOURCE
      (coq/Gen/MMDecode.v, regenerated by translators/mmdecode.py on every run from converter.py [_import_proof]
      and translate.py [exec_proof]; MM15/GenMMDecodeAgree.v proves them equal to the model above). *)

(** the translated functions are the model's functions *)
Theorem C15_source_convert_to_number_is_model : forall w, gen_convert_to_number w = decode_word w.
Proof. exact gen_convert_to_number_eq. Qed.
Print Assumptions C15_source_convert_to_number_is_model.
Theorem C15_source_import_proof_is_model : forall stmts mv proof,
  gen_import_proof stmts mv proof =
  match import_proof (mand_db_order (floats_of stmts) mv) proof with
  | Some (tbl, st) => Some (numbered 1 tbl, st)
  | None => None
  end.
Proof. exact gen_import_proof_eq. Qed.
Print Assumptions C15_source_import_proof_is_model.
Theorem C15_source_replay_is_model : forall (A : Type) (eqb : A -> A -> bool) (tbl : list str) (m k : nat) steps,
  length tbl = (m + k)%nat ->
  gen_replay A (numbered 1 tbl) steps = option_map (map erase) (replay_marks eqb false m k steps None []).
Proof. exact gen_replay_eq. Qed.
Print Assumptions C15_source_replay_is_model.

(** convert_to_number of the source IS Appendix B's decoder, on every string *)
Theorem C15_source_decode_is_appendixB : forall w, gen_convert_to_number w = appendixB_decode w.
Proof. exact source_decode_is_appendixB. Qed.
Print Assumptions C15_source_decode_is_appendixB.
(** every number decodes back to itself: all n, no bound *)
Theorem C15_source_decode_encode : forall n, 1 <= n -> gen_convert_to_number (encode n) = Some n.
Proof. exact source_decode_encode. Qed.
Print Assumptions C15_source_decode_encode.
Theorem C15_source_encode_decode : forall w, valid_word w ->
  exists n, gen_convert_to_number w = Some n /\ 1 <= n /\ encode n = w.
Proof. exact source_encode_decode. Qed.
Print Assumptions C15_source_encode_decode.
Theorem C15_source_encoding_unique : forall w1 w2 n,
  gen_convert_to_number w1 = Some n -> gen_convert_to_number w2 = Some n -> w1 = w2.
Proof. exact source_encoding_unique. Qed.
Print Assumptions C15_source_encoding_unique.

(** the whole of _import_proof as translated: label table with keys 1, 2, ... = mandatory hypotheses in database order
    then the listed labels; steps with 0 for Z: every database, variable set, layout, label list, chunking, Z placement *)
Theorem C15_source_import_statement_spec : forall stmts mv pre items ls ws ss,
  all_lex_space pre ->
  Forall (fun it => tok_ok (fst it) /\ sep_ok (snd it)) items ->
  map fst items = [40] :: ls ++ [41] :: ws ->
  Forall label_ok ls -> Forall no_space ws ->
  concat ws = concat (map render ss) -> Forall step_ok ss ->
  gen_import_proof stmts mv (proof_field (layout pre items)) =
  Some (numbered 1 (mand_db_order (floats_of stmts) mv ++ ls), map step_code ss).
Proof. exact source_import_spec. Qed.
Print Assumptions C15_source_import_statement_spec.
Theorem C15_source_mandatory_order : forall stmts mv mv' proof, Permutation mv mv' ->
  gen_import_proof stmts mv proof = gen_import_proof stmts mv' proof.
Proof. exact source_mandatory_order. Qed.
Print Assumptions C15_source_mandatory_order.
(** keys of the table are the positions: number n is the n-th entry *)
Theorem C15_source_table_numbering : forall tbl b n,
  dict_get (numbered b tbl) n = if n <? b then None else nth_error tbl (N.to_nat (n - b)).
Proof. exact numbered_lookup. Qed.
Print Assumptions C15_source_table_numbering.

(** exec_proof as translated: a load comes from a step numbered m + k + j + 1 and loads what the (j+1)-th Z saved;
    a Z saves the term the preceding step left on top *)
Theorem C15_source_marked_reference_denotes : forall (A : Type) (tbl : list str) (m k : nat) steps (tr : list (gev A)) i p,
  length tbl = (m + k)%nat ->
  gen_replay A (numbered 1 tbl) steps = Some tr ->
  nth_error tr i = Some (GLoad p) ->
  exists n t j, nth_error steps i = Some (n, t) /\ N.to_nat n = (m + k + j + 1)%nat /\
                nth_error (gsaved (firstn i tr)) j = Some p.
Proof. exact source_marked_reference_denotes. Qed.
Print Assumptions C15_source_marked_reference_denotes.
Theorem C15_source_z_marks_preceding_step : forall (A : Type) (tbl : list str) (m k : nat) steps (tr : list (gev A)) i p,
  length tbl = (m + k)%nat ->
  gen_replay A (numbered 1 tbl) steps = Some tr ->
  nth_error tr i = Some (GSave p) ->
  exists i', i = S i' /\ option_map gterm (nth_error tr i') = Some p.
Proof. exact source_z_marks_preceding_step. Qed.
Print Assumptions C15_source_z_marks_preceding_step.
Example C15_source_replay_nonvacuous :
  gen_replay N (numbered 1 [[97]; [98]]) [(1, 10); (0, 0); (1, 10); (0, 0); (2, 20); (0, 0); (4, 0); (5, 0)]%N
  = Some [GLabel 10; GSave 10; GLabel 10; GSave 10; GLabel 20; GSave 20; GLoad 10; GLoad 20]%N.
Proof. reflexivity. Qed.

(** C18: every unordered-collection site found by translators/setsites.py in the anchored files
    (coq/Gen/SetSites.v, regenerated on every run) is matched by a proved order-independence statement
    about a model of that site.  A new site, an iterable the scanner cannot type, or a call to a source
    of process-level nondeterminism makes this file fail to compile: the check fails closed. *)
From Coq Require Import List String Bool Permutation NArith.
From Pi2 Require Import Gen.SetSites Det.Finalize Det.FinalizeProofs Det.ConverterModel Det.Converter MM15.Codec MM15.CodecProofs.
Import ListNotations.
Open Scope string_scope.

Definition site_eqb (a b : site) : bool :=
  String.eqb (s_file a) (s_file b) && String.eqb (s_func a) (s_func b)
  && String.eqb (s_kind a) (s_kind b) && String.eqb (s_expr a) (s_expr b).

(** a site, the model definition that stands for it, and a PROVED statement of order independence *)
Record matched := { m_site : site; m_model : string; m_statement : Prop; m_proof : m_statement }.

Definition S_finalize : Prop := forall ord ord' slots memo u,
  oracle ord -> oracle ord' -> finalize ord slots memo u = finalize ord' slots memo u.
Definition S_metavars : Prop :=
  (forall floating mv mv', Permutation mv mv' -> metavars_in_order floating mv = metavars_in_order floating mv')
  /\ (forall mv mv' : list str, Permutation mv mv' -> List.length mv = List.length mv')
  /\ (forall (a a' b b' : list str) m, Permutation a a' -> Permutation b b' -> mem_str m (a ++ b)%list = mem_str m (a' ++ b')%list).
Definition S_sorted : Prop := forall l l', Permutation l l' -> sort_str l = sort_str l'.
Definition S_unlink : Prop := forall files files', Permutation files files' ->
  forall fs, unlink_all files fs = unlink_all files' fs.

Lemma P_metavars : S_metavars.
Proof. repeat split; [apply metavars_in_order_perm|apply metavars_len_perm|apply metavars_union_perm]. Qed.

Definition conv := "metamath/converter/converter.py".

(** A site is identified by WHAT is iterated (local names erased; a local is replaced by the expression it is bound to) and HOW
    the elements are consumed (the attributes / functions its loop body mentions), inside which class or top-level function —
    not by local variable names, line numbers or the method it happens to sit in. *)
Definition table : list matched := [
  {| m_site := {| s_file := "counting_interpreter.py"; s_func := "CountingInterpreter"; s_kind := "for:set";
                  s_expr := "{_ for _, _ in self._pattern_usage.items() if _ in _.used_patterns} | body uses: _pattern_usage,_replace,add,complexity,used_patterns" |};
     m_model := "Det.Finalize.round (first oracle call: od) — the dependencies of the memoised pattern"; m_statement := S_finalize;
     m_proof := finalize_perm_invariant |};
  {| m_site := {| s_file := "counting_interpreter.py"; s_func := "CountingInterpreter"; s_kind := "for:set";
                  s_expr := "set() filled by add | body uses: _compute_complexity_score" |};
     m_model := "Det.Finalize.round (second oracle call: orr) — re-scoring of the entries that changed"; m_statement := S_finalize;
     m_proof := finalize_perm_invariant |};
  {| m_site := {| s_file := conv; s_func := "MetamathConverter"; s_kind := "call:tuple:set";
                  s_expr := "set(_.metavars) filled by update" |};
     m_model := "Det.Converter.metavars_in_order / length / mem_str (the consumers of the metavars field)";
     m_statement := S_metavars; m_proof := P_metavars |};
  {| m_site := {| s_file := conv; s_func := "MetamathConverter"; s_kind := "call:sorted:set";
                  s_expr := "{_ for _ in _.args if _.is_metavar(_)}" |};
     m_model := "Det.Converter.sort_str"; m_statement := S_sorted; m_proof := sorted_perm_invariant |};
  {| m_site := {| s_file := "metamath/translate.py"; s_func := "<module>"; s_kind := "for:fs";
                  s_expr := "_.glob('*.mm') | body uses: unlink" |};
     m_model := "Det.Converter.unlink_all"; m_statement := S_unlink; m_proof := unlink_all_perm |};
  (* consumers of the attribute that carries the set-ordered tuple *)
  {| m_site := {| s_file := conv; s_func := "MetamathConverter"; s_kind := "tainted-attr:assign"; s_expr := "_.metavars" |};
     m_model := "metavars = axiom.metavars; return set(metavars): Det.Converter mem_str";
     m_statement := S_metavars; m_proof := P_metavars |};
  {| m_site := {| s_file := conv; s_func := "MetamathConverter"; s_kind := "tainted-attr:call:update"; s_expr := "_.metavars" |};
     m_model := "metavar_names.update(...) on a set: Det.Converter mem_str of the union";
     m_statement := S_metavars; m_proof := P_metavars |}
].

Definition is_matched (s : site) : bool := existsb (fun m => site_eqb s (m_site m)) table.

Theorem all_set_sites_matched : forallb is_matched set_sites = true.
Proof. vm_compute. reflexivity. Qed.

Theorem all_tainted_uses_matched : forallb is_matched tainted_uses = true.
Proof. vm_compute. reflexivity. Qed.

Theorem unclassified_empty : unclassified = [].
Proof. reflexivity. Qed.

Theorem nondet_calls_empty : nondet_calls = [].
Proof. reflexivity. Qed.

(** no cache decorator, no module-level container mutated by a function, no class attribute written through the
    class, no instance attribute written outside __init__ that has not been reviewed: the output of a
    serialisation cannot depend on earlier serialisations through such state *)
Theorem state_sites_empty : state_sites = [].
Proof. reflexivity. Qed.

(** every statement in the table is proved (the record carries the proof) *)
Theorem table_statements_hold : Forall (fun m => m_statement m) table.
Proof. apply Forall_forall. intros m _. exact (m_proof m). Qed.

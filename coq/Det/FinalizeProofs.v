(** Order independence of CountingInterpreter.finalize (model: Det/Finalize.v): whatever order the
    two set iterations of each round take, the result is the same. *)
From Coq Require Import ZArith NArith List Bool Permutation Lia.
From Pi2 Require Import Det.Finalize.
Import ListNotations.

Definition bindo {A B} (x : option A) (f : A -> option B) : option B :=
  match x with Some a => f a | None => None end.

Lemma dget_dupd_other {A} (d : list (N * A)) k k' v : k <> k' -> dget (dupd d k v) k' = dget d k'.
Proof.
  intros Hk. induction d as [|[a x] d IH]; [reflexivity|].
  cbn [dupd map dget fst] in *. destruct (N.eqb a k) eqn:E.
  - apply N.eqb_eq in E. subst a. cbn [dget].
    assert (N.eqb k k' = false) as -> by (apply N.eqb_neq; exact Hk). exact IH.
  - cbn [dget]. destruct (N.eqb a k'); [reflexivity|exact IH].
Qed.

Lemma dupd_comm {A} (d : list (N * A)) a b x y : a <> b ->
  dupd (dupd d a x) b y = dupd (dupd d b y) a x.
Proof.
  intros Hab. unfold dupd. rewrite !map_map. apply map_ext. intros [k v]. cbn [fst].
  assert (Nab : N.eqb a b = false) by (apply N.eqb_neq; exact Hab).
  assert (Nba : N.eqb b a = false) by (apply N.eqb_neq; congruence).
  destruct (N.eqb k a) eqn:Ea; destruct (N.eqb k b) eqn:Eb; cbn [fst].
  - apply N.eqb_eq in Ea. apply N.eqb_eq in Eb. congruence.
  - rewrite Nab, Ea. reflexivity.
  - rewrite Eb, Nba. reflexivity.
  - rewrite Ea, Eb. reflexivity.
Qed.

(** two single-entry updates of different entries commute, failures included *)
Lemma local_update_comm f g a b (u : usage) : a <> b ->
  bindo (local_update f a u) (local_update g b) = bindo (local_update g b u) (local_update f a).
Proof.
  intros Hab. unfold local_update.
  destruct (dget u a) as [sa|] eqn:Ea; destruct (dget u b) as [sb|] eqn:Eb; cbn [bindo].
  - destruct (f sa) as [sa'|] eqn:Fa; destruct (g sb) as [sb'|] eqn:Gb; cbn [bindo].
    + rewrite (dget_dupd_other u a b) by exact Hab. rewrite Eb, Gb.
      rewrite (dget_dupd_other u b a) by congruence. rewrite Ea, Fa.
      f_equal. apply dupd_comm; exact Hab.
    + rewrite (dget_dupd_other u a b) by exact Hab. rewrite Eb, Gb. reflexivity.
    + rewrite (dget_dupd_other u b a) by congruence. rewrite Ea, Fa. reflexivity.
    + reflexivity.
  - destruct (f sa) as [sa'|]; cbn [bindo]; [|reflexivity].
    rewrite (dget_dupd_other u a b) by exact Hab. rewrite Eb. reflexivity.
  - destruct (g sb) as [sb'|]; cbn [bindo]; [|reflexivity].
    rewrite (dget_dupd_other u b a) by congruence. rewrite Ea. reflexivity.
  - reflexivity.
Qed.

(** a fold of pairwise commuting steps does not depend on the order of the list *)
Lemma foldM_perm {S} (step : N -> S -> option S) :
  (forall a b u, bindo (step a u) (step b) = bindo (step b u) (step a)) ->
  forall l l', Permutation l l' -> forall u, foldM step l u = foldM step l' u.
Proof.
  intros Hc l l' P. induction P as [|x l l' P IH|x y l|l l' l'' P1 IH1 P2 IH2]; intros u.
  - reflexivity.
  - cbn [foldM]. destruct (step x u); [apply IH|reflexivity].
  - cbn [foldM]. pose proof (Hc y x u) as H. unfold bindo in H.
    destruct (step y u) as [uy|] eqn:Ey; destruct (step x u) as [ux|] eqn:Ex.
    + rewrite H. reflexivity.
    + rewrite H. reflexivity.
    + rewrite <- H. reflexivity.
    + reflexivity.
  - rewrite IH1. apply IH2.
Qed.

Lemma local_fold_perm f : forall l l', Permutation l l' -> forall u : usage,
  foldM (fun k => local_update f k) l u = foldM (fun k => local_update f k) l' u.
Proof.
  apply foldM_perm. intros a b u. destruct (N.eq_dec a b) as [->|Hab]; [reflexivity|].
  apply local_update_comm; exact Hab.
Qed.

Definition permuter (o : list N -> list N) : Prop := forall l, Permutation (o l) l.
Definition oracle (ord : nat -> list N -> list N) : Prop := forall i, permuter (ord i).

Lemma round_perm od orr od' orr' pattern u :
  permuter od -> permuter orr -> permuter od' -> permuter orr' ->
  round od orr pattern u = round od' orr' pattern u.
Proof.
  intros H1 H2 H3 H4. unfold round.
  destruct (dget u pattern) as [ps|]; [|reflexivity].
  destruct (dget (used ps) pattern); [reflexivity|].
  rewrite (local_fold_perm (dep_stats pattern ps) (od (deps_of pattern u)) (od' (deps_of pattern u))).
  2:{ eapply Permutation_trans; [apply H1|apply Permutation_sym, H3]. }
  destruct (foldM _ (od' (deps_of pattern u)) u) as [u1|]; [|reflexivity].
  destruct (fold_left _ (used ps) (Some u1)) as [u2|]; [|reflexivity].
  destruct (local_update set_atomic pattern u2) as [u3|]; [|reflexivity].
  apply local_fold_perm.
  eapply Permutation_trans; [apply H2|apply Permutation_sym, H4].
Qed.

Lemma loop_perm ord ord' : oracle ord -> oracle ord' ->
  forall counter i memo u sug todo,
    loop counter ord i memo u sug todo = loop counter ord' i memo u sug todo.
Proof.
  intros Ho Ho'. induction counter as [|c IH]; intros i memo u sug todo; [reflexivity|].
  cbn [loop]. destruct todo as [|pattern todo]; [reflexivity|].
  rewrite (round_perm (ord i) (ord (S i)) (ord' i) (ord' (S i))) by (apply Ho || apply Ho').
  destruct (round (ord' i) (ord' (S i)) pattern u); [apply IH|reflexivity].
Qed.

(** ** finalize does not depend on the iteration order of its sets *)
Theorem finalize_perm_invariant : forall ord ord' slots memo u,
  oracle ord -> oracle ord' -> finalize ord slots memo u = finalize ord' slots memo u.
Proof.
  intros ord ord' slots memo u Ho Ho'. unfold finalize.
  destruct (foldM _ (map fst u) u); [|reflexivity].
  apply loop_perm; assumption.
Qed.

Lemma ord_id_oracle : oracle ord_id.
Proof. intros i l. apply Permutation_refl. Qed.
Lemma ord_rev_oracle : oracle ord_rev.
Proof. intros i l. apply Permutation_sym, Permutation_rev. Qed.
Lemma ord_rot_oracle : oracle ord_rot.
Proof.
  intros i l. unfold ord_rot.
  set (n := Nat.modulo i (S (length l))).
  eapply Permutation_trans; [apply Permutation_app_comm|].
  rewrite firstn_skipn. apply Permutation_refl.
Qed.

(** the statement with the permutations explicit, for one round: any two listings of the dependency set
    and of the set of entries to re-score give the same table *)
Corollary finalize_round_perm : forall pi pi' rho rho' pattern u,
  (forall l, Permutation (pi l) l) -> (forall l, Permutation (pi' l) l) ->
  (forall l, Permutation (rho l) l) -> (forall l, Permutation (rho' l) l) ->
  round pi rho pattern u = round pi' rho' pattern u.
Proof. intros. apply round_perm; assumption. Qed.

(* ------------------------------------------------------------------------------------------ *)
(** * The memoiser only tests membership *)

Lemma mem_In k l : mem k l = true <-> In k l.
Proof.
  unfold mem. rewrite existsb_exists. split.
  - intros (x & Hx & E). apply N.eqb_eq in E. subst. exact Hx.
  - intros H. exists k. split; [exact H|apply N.eqb_refl].
Qed.

Lemma mem_perm k l l' : Permutation l l' -> mem k l = mem k l'.
Proof.
  intros P. destruct (mem k l) eqn:E1; destruct (mem k l') eqn:E2; try reflexivity.
  - apply mem_In in E1. apply (Permutation_in _ P) in E1. apply mem_In in E1. congruence.
  - apply mem_In in E2. apply (Permutation_in _ (Permutation_sym P)) in E2. apply mem_In in E2. congruence.
Qed.

Theorem memo_membership_only : forall memory sug sug' p,
  (forall q, In q sug <-> In q sug') -> memo_decision memory sug p = memo_decision memory sug' p.
Proof.
  intros memory sug sug' p H. unfold memo_decision.
  destruct (mem p memory); [reflexivity|].
  assert (mem p sug = mem p sug') as ->; [|reflexivity].
  destruct (mem p sug) eqn:E1; destruct (mem p sug') eqn:E2; try reflexivity.
  - apply mem_In in E1. apply H in E1. apply mem_In in E1. congruence.
  - apply mem_In in E2. apply H in E2. apply mem_In in E2. congruence.
Qed.

Corollary memo_perm : forall memory sug sug' p, Permutation sug sug' ->
  memo_decision memory sug p = memo_decision memory sug' p.
Proof.
  intros. apply memo_membership_only. intros q. split; apply Permutation_in; [|apply Permutation_sym]; assumption.
Qed.

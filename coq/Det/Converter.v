(** C18: models of the remaining unordered-collection sites in converter.py / translate.py and their
    order-independence.  (Strings are [list N] as in MM15/Codec.v.) *)
From Coq Require Import NArith List Bool Permutation Sorted Lia.
From Pi2 Require Import MM15.Codec MM15.CodecProofs Det.ConverterModel.
Import ListNotations.
Open Scope N_scope.

(* ------------------------------------------------------------------------------------------ *)
(** * [tuple(metavar_names)] (converter.py _import_axiom/_import_lemma): the tuple stored in
      [Axiom.metavars] has the set's order; every consumer in the anchored files goes through
      [set(...)], [len(...)], or membership *)

(** [get_metavars_in_order]: [tuple(m for m in self._floating_patterns if m in set(axiom.metavars))] *)

Lemma metavars_in_order_perm : forall floating mv mv', Permutation mv mv' ->
  metavars_in_order floating mv = metavars_in_order floating mv'.
Proof.
  intros floating mv mv' P. unfold metavars_in_order. apply filter_ext.
  intros m. apply mem_str_perm; exact P.
Qed.

Lemma metavars_len_perm : forall (mv mv' : list str), Permutation mv mv' -> length mv = length mv'.
Proof. intros. apply Permutation_length; assumption. Qed.

(** [set(axiom.metavars)] / [metavar_names.update(antecedent.metavars)]: the resulting set (as a
    membership predicate) does not depend on the order of the tuples poured into it *)
Lemma metavars_union_perm : forall (a a' b b' : list str) m, Permutation a a' -> Permutation b b' ->
  mem_str m (a ++ b) = mem_str m (a' ++ b').
Proof. intros. apply mem_str_perm. apply Permutation_app; assumption. Qed.

(* ------------------------------------------------------------------------------------------ *)
(** * [tuple(sorted({...}))] (converter.py _make_axiom_from_notation/_make_lemma_from_notation):
      Python compares [str] by code points, lexicographically *)


Lemma str_leb_total a : forall b, str_leb a b = true \/ str_leb b a = true.
Proof.
  induction a as [|x a IH]; intros [|y b]; cbn [str_leb]; auto.
  destruct (x <? y) eqn:E1; destruct (y <? x) eqn:E2; auto.
Qed.

Lemma str_leb_antisym a : forall b, str_leb a b = true -> str_leb b a = true -> a = b.
Proof.
  induction a as [|x a IH]; intros [|y b]; cbn [str_leb]; try discriminate; auto.
  destruct (x <? y) eqn:E1; destruct (y <? x) eqn:E2; try discriminate.
  - apply N.ltb_lt in E1. apply N.ltb_lt in E2. lia.
  - intros H1 H2. apply N.ltb_ge in E1. apply N.ltb_ge in E2.
    assert (x = y) by lia. subst. f_equal. apply IH; assumption.
Qed.

Lemma str_leb_trans a : forall b c, str_leb a b = true -> str_leb b c = true -> str_leb a c = true.
Proof.
  induction a as [|x a IH]; intros [|y b] [|z c]; cbn [str_leb]; try discriminate; auto.
  intros H1 H2.
  destruct (x <? y) eqn:E1.
  - apply N.ltb_lt in E1. destruct (y <? z) eqn:E3.
    + apply N.ltb_lt in E3. assert (X : (x <? z) = true) by (apply N.ltb_lt; lia). rewrite X. reflexivity.
    + destruct (z <? y) eqn:E4; [discriminate H2|].
      apply N.ltb_ge in E3. apply N.ltb_ge in E4.
      assert (X : (x <? z) = true) by (apply N.ltb_lt; lia). rewrite X. reflexivity.
  - destruct (y <? x) eqn:E2; [discriminate H1|].
    apply N.ltb_ge in E1. apply N.ltb_ge in E2. assert (x = y) by lia. subst y.
    destruct (x <? z) eqn:E3; [reflexivity|].
    destruct (z <? x) eqn:E4; [discriminate H2|].
    apply (IH b c); assumption.
Qed.


Definition sle (a b : str) : Prop := str_leb a b = true.

Lemma insert_perm x l : Permutation (insert_str x l) (x :: l).
Proof.
  induction l as [|y r IH]; [apply Permutation_refl|].
  cbn [insert_str]. destruct (str_leb x y); [apply Permutation_refl|].
  eapply Permutation_trans; [apply perm_skip, IH|apply perm_swap].
Qed.

Lemma sort_perm l : Permutation (sort_str l) l.
Proof.
  induction l as [|x l IH]; [apply Permutation_refl|].
  cbn [sort_str fold_right]. eapply Permutation_trans; [apply insert_perm|apply perm_skip, IH].
Qed.

Lemma insert_sorted x l : StronglySorted sle l -> StronglySorted sle (insert_str x l).
Proof.
  induction 1 as [|y r Hr IH Hy]; [repeat constructor|].
  cbn [insert_str]. destruct (str_leb x y) eqn:E.
  - constructor; [constructor; assumption|]. constructor; [exact E|].
    eapply Forall_impl; [|exact Hy]. intros z Hz. eapply str_leb_trans; eassumption.
  - constructor; [exact IH|].
    assert (Hyx : sle y x) by (destruct (str_leb_total x y) as [H|H]; [congruence|exact H]).
    eapply Permutation_Forall; [apply Permutation_sym, insert_perm|]. constructor; assumption.
Qed.

Lemma sort_sorted l : StronglySorted sle (sort_str l).
Proof. induction l as [|x l IH]; [constructor|apply insert_sorted, IH]. Qed.

Lemma sorted_perm_unique : forall l l', StronglySorted sle l -> StronglySorted sle l' ->
  Permutation l l' -> l = l'.
Proof.
  induction l as [|x l IH]; intros l' S S' P.
  - apply Permutation_nil in P. congruence.
  - destruct l' as [|y l']; [apply Permutation_sym, Permutation_nil in P; discriminate|].
    inversion S as [|? ? Sl Hx]; subst. inversion S' as [|? ? Sl' Hy]; subst.
    assert (x = y).
    { assert (In x (y :: l')) as Ix by (eapply Permutation_in; [exact P|left; reflexivity]).
      assert (In y (x :: l)) as Iy by (eapply Permutation_in; [apply Permutation_sym, P|left; reflexivity]).
      destruct Ix as [->|Ix]; [reflexivity|]. destruct Iy as [->|Iy]; [reflexivity|].
      rewrite Forall_forall in Hx, Hy. apply str_leb_antisym; [apply Hx, Iy|apply Hy, Ix]. }
    subst y. f_equal. apply IH; try assumption. eapply Permutation_cons_inv; exact P.
Qed.

(** sorting makes the iteration order of the set irrelevant *)
Theorem sorted_perm_invariant : forall l l', Permutation l l' -> sort_str l = sort_str l'.
Proof.
  intros l l' P. apply sorted_perm_unique; try apply sort_sorted.
  eapply Permutation_trans; [apply sort_perm|].
  eapply Permutation_trans; [exact P|apply Permutation_sym, sort_perm].
Qed.

(* ------------------------------------------------------------------------------------------ *)
(** * [for file in output_dir.glob('*.mm'): file.unlink()] (translate.py main): deleting a set of files *)


Lemma unlink_comm a b fs : unlink a (unlink b fs) = unlink b (unlink a fs).
Proof.
  unfold unlink. induction fs as [|g fs IH]; [reflexivity|].
  cbn [filter]. destruct (str_eqb b g) eqn:Eb; destruct (str_eqb a g) eqn:Ea; cbn [negb filter];
    rewrite ?Ea, ?Eb; cbn [negb]; rewrite ?IH; reflexivity.
Qed.

Theorem unlink_all_perm : forall files files', Permutation files files' ->
  forall fs, unlink_all files fs = unlink_all files' fs.
Proof.
  unfold unlink_all. induction 1 as [|x l l' P IH|x y l|l l' l'' P1 IH1 P2 IH2]; intros fs; cbn [fold_left].
  - reflexivity.
  - apply IH.
  - rewrite unlink_comm. reflexivity.
  - rewrite IH1. apply IH2.
Qed.

(* ------------------------------------------------------------------------------------------ *)
(** * [GlobalScope.unambiguize]: variable numbers do not depend on the order the names arrive in, because
      the list is sorted first — and would depend on it otherwise *)
Theorem unambiguize_sorted_invariant : forall b l l', Permutation l l' ->
  unambiguize_numbers b l = unambiguize_numbers b l'.
Proof. intros b l l' P. unfold unambiguize_numbers. rewrite (sorted_perm_invariant l l' P). reflexivity. Qed.

Theorem unambiguize_unsorted_refuted : exists b order order', Permutation order order' /\
  unambiguize_numbers_in_order b order <> unambiguize_numbers_in_order b order'.
Proof.
  exists 0%nat, [[120; 88]; [121; 89]], [[121; 89]; [120; 88]].   (* "xX", "yY" *)
  split; [apply perm_swap|]. vm_compute. intros H. discriminate H.
Qed.

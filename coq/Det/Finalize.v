(** C18 model of CountingInterpreter.finalize (counting_interpreter.py:46-117) and of the memoiser's
    decision (optimizing_interpreters.py).  Definitions only; proofs are in FinalizeProofs.v.

    Patterns are abstracted to keys ([N]): finalize uses patterns only through equality/hash.
    [_pattern_usage] is an insertion-ordered dict: [list (N * stats)]; finalize never inserts a key.
    [used_patterns] is an insertion-ordered dict [list (N * Z)].
    A Python [set] is iterated in an order the model does not know: every such loop takes the order from an
    oracle [ord : nat -> list N -> list N] (call number, canonical listing) — the theorems quantify over all
    oracles that return permutations.  KeyError / assertion = [None]. *)
From Coq Require Import ZArith NArith List Bool.
Import ListNotations.
Open Scope Z_scope.

Record stats := mkStats { uses : Z; score : Z; cx : Z; used : list (N * Z) }.
Definition usage := list (N * stats).

Fixpoint dget {A} (d : list (N * A)) (k : N) : option A :=
  match d with
  | [] => None
  | (k', v) :: r => if N.eqb k' k then Some v else dget r k
  end.

(** replace the value of an existing key (all occurrences; keys are unique in a dict) *)
Definition dupd {A} (d : list (N * A)) (k : N) (v : A) : list (N * A) :=
  map (fun e => if N.eqb (fst e) k then (k, v) else e) d.

Definition mem (k : N) (l : list N) : bool := existsb (N.eqb k) l.

(** an update of the single entry [k] by [f] (KeyError if absent, or if [f] raises) *)
Definition local_update (f : stats -> option stats) (k : N) (u : usage) : option usage :=
  match dget u k with
  | None => None
  | Some s => match f s with
              | None => None
              | Some s' => Some (dupd u k s')
              end
  end.

Fixpoint foldM {S} (step : N -> S -> option S) (l : list N) (u : S) : option S :=
  match l with
  | [] => Some u
  | k :: r => match step k u with
              | None => None
              | Some u' => foldM step r u'
              end
  end.

(** [_compute_complexity_score] *)
Definition rescore (s : stats) : option stats := Some (mkStats (uses s) (uses s * cx s) (cx s) (used s)).

(** body of [for dependency in dependencies] for the memoised [pattern] with stats [ps]:
    complexity drops, and the dependency uses fewer of the children of the memoised pattern.
    The inner loop mutates the dependency's own dict and re-reads [old_stats.used_patterns[pattern]]
    from it at every round, as the code does. *)
Definition dep_stats (pattern : N) (ps : stats) (old : stats) : option stats :=
  match dget (used old) pattern with
  | None => None
  | Some cnt =>
      let inner := fix inner (children : list (N * Z)) (ud : list (N * Z)) : option (list (N * Z)) :=
        match children with
        | [] => Some ud
        | (child, n) :: r =>
            match dget ud child, dget ud pattern with
            | Some cur, Some c => inner r (dupd ud child (cur - n * c))
            | _, _ => None
            end
        end in
      match inner (used ps) (used old) with
      | None => None
      | Some ud => Some (mkStats (uses old) (score old) (cx old - cx ps * cnt + 1) ud)
      end
  end.

(** body of [for used in pattern_stats.used_patterns] *)
Definition used_stats (n : Z) (ps : stats) (old : stats) : option stats :=
  Some (mkStats (uses old - n * uses ps) (score old) (cx old) (used old)).

Definition set_atomic (s : stats) : option stats := Some (mkStats (uses s) (score s) 1 (used s)).

(** canonical listing of the set [dependencies] (dict order of the comprehension's source) *)
Definition deps_of (pattern : N) (u : usage) : list N :=
  map fst (filter (fun e => match dget (used (snd e)) pattern with Some _ => true | None => false end) u).

(** [requires_updating] as a canonical list without duplicates: dependencies then used children *)
Fixpoint dedup (l : list N) (seen : list N) : list N :=
  match l with
  | [] => []
  | k :: r => if mem k seen then dedup r seen else k :: dedup r (k :: seen)
  end.

(** stable sort by descending score: [list.sort(key=score, reverse=True)] keeps equal keys in order *)
Fixpoint ins_desc (sc : N -> Z) (x : N) (l : list N) : list N :=
  match l with
  | [] => [x]
  | y :: r => if sc y <? sc x then x :: y :: r else y :: ins_desc sc x r
  end.
Definition sort_desc (sc : N -> Z) (l : list N) : list N := fold_left (fun acc x => ins_desc sc x acc) l [].

Definition get_suitable (u : usage) (sug memo : list N) : list N :=
  let already := filter (fun p => negb (mem p sug) && match dget u p with Some _ => true | None => false end) memo in
  match already with
  | _ :: _ => already
  | [] =>
      let suitable := map fst (filter (fun e => (1 <? uses (snd e)) && negb (mem (fst e) sug)) u) in
      sort_desc (fun k => match dget u k with Some s => score s | None => 0 end) suitable
  end.

(** one round of the while loop for the head of [todo]; [od]/[orr] are the iteration orders taken for
    [dependencies] and [requires_updating] *)
Definition round (od orr : list N -> list N) (pattern : N) (u : usage) : option usage :=
  match dget u pattern with
  | None => None
  | Some ps =>
      match dget (used ps) pattern with
      | Some _ => None          (* a pattern that uses itself: outside the modelled domain (aliasing) *)
      | None =>
          let deps := deps_of pattern u in
          match foldM (fun d => local_update (dep_stats pattern ps) d) (od deps) u with
          | None => None
          | Some u1 =>
              match fold_left (fun acc ch => match acc with
                                             | None => None
                                             | Some w => local_update (used_stats (snd ch) ps) (fst ch) w
                                             end) (used ps) (Some u1) with
              | None => None
              | Some u2 =>
                  match local_update set_atomic pattern u2 with
                  | None => None
                  | Some u3 => foldM (fun p => local_update rescore p) (orr (dedup (deps ++ map fst (used ps)) [])) u3
                  end
              end
          end
      end
  end.

Fixpoint loop (counter : nat) (ord : nat -> list N -> list N) (i : nat) (memo : list N)
         (u : usage) (sug todo : list N) : option (usage * list N) :=
  match counter, todo with
  | S c, pattern :: _ =>
      match round (ord i) (ord (S i)) pattern u with
      | None => None
      | Some u' => let sug' := sug ++ [pattern] in
                   loop c ord (S (S i)) memo u' sug' (get_suitable u' sug' memo)
      end
  | _, _ => Some (u, sug)
  end.

(** [finalize]: [slots] = 256 - len(memory) (the loop does not run when that is not positive),
    [memo] = the memory's patterns.  Result: final usage table and the suggested patterns in the order
    they were chosen (the code returns them as a set). *)
Definition finalize (ord : nat -> list N -> list N) (slots : nat) (memo : list N) (u : usage)
  : option (usage * list N) :=
  match foldM (fun p => local_update rescore p) (map fst u) u with
  | None => None
  | Some u0 => loop slots ord O memo u0 [] (get_suitable u0 [] memo)
  end.

Definition ord_id : nat -> list N -> list N := fun _ l => l.
Definition ord_rev : nat -> list N -> list N := fun _ l => rev l.
(** a third oracle: rotate by the call number *)
Definition ord_rot : nat -> list N -> list N :=
  fun i l => let n := Nat.modulo i (S (length l)) in skipn n l ++ firstn n l.

(* ------------------------------------------------------------------------------------------ *)
(** MemoizingInterpreter.pattern: what is done for pattern [p] given the memory and the suggested set *)
Inductive memo_action := MLoad | MBuildSave | MBuild.
Definition memo_decision (memory sug : list N) (p : N) : memo_action :=
  if mem p memory then MLoad else if mem p sug then MBuildSave else MBuild.

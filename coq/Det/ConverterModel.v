(** C18: models (definitions only) of the unordered-collection sites in converter.py / translate.py other
    than finalize.  Proofs are in Det/Converter.v.  Strings are [list N] as in MM15/Codec.v. *)
From Coq Require Import NArith List Bool.
From Pi2 Require Import MM15.Codec.
Import ListNotations.
Open Scope N_scope.

(** [get_metavars_in_order]: [tuple(m for m in self._floating_patterns if m in set(axiom.metavars))] *)
Definition metavars_in_order (floating : list str) (metavars : list str) : list str :=
  filter (fun m => mem_str m metavars) floating.

(** Python compares [str] by code points, lexicographically; [sorted] = insertion sort on that order *)
Fixpoint str_leb (a b : str) : bool :=
  match a, b with
  | [], _ => true
  | _ :: _, [] => false
  | x :: a', y :: b' => if x <? y then true else if y <? x then false else str_leb a' b'
  end.

Fixpoint insert_str (x : str) (l : list str) : list str :=
  match l with
  | [] => [x]
  | y :: r => if str_leb x y then x :: y :: r else y :: insert_str x r
  end.
Definition sort_str (l : list str) : list str := fold_right insert_str [] l.

(** [for file in output_dir.glob('*.mm'): file.unlink()] *)
Definition unlink (f : str) (fs : list str) : list str := filter (fun g => negb (str_eqb f g)) fs.
Definition unlink_all (files fs : list str) : list str := fold_left (fun acc f => unlink f acc) files fs.

(** [GlobalScope.unambiguize] (metamath/converter/scope.py): the selected ambiguous [#Variable] names are
    resolved one by one, [variables = sorted(selected); ... var = variables.pop()] (largest first); the i-th
    resolved variable gets the number [b + i] in the scope that makes every choice the same way ([b] = number of
    variables of that kind the scope starts with).  [unambiguize_numbers_in_order] is the same with the
    resolution order left open (what a [set.pop()] would give). *)
Fixpoint number_from (b : nat) (l : list str) : list (str * nat) :=
  match l with
  | [] => []
  | v :: r => (v, b) :: number_from (S b) r
  end.
Definition unambiguize_numbers_in_order (b : nat) (order : list str) : list (str * nat) := number_from b order.
Definition unambiguize_numbers (b : nat) (selected : list str) : list (str * nat) :=
  unambiguize_numbers_in_order b (rev (sort_str selected)).

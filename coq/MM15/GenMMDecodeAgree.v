(** The decoder GENERATED from the current Python source (coq/Gen/MMDecode.v, translators/mmdecode.py) equals the
    hand-written model (MM15/Codec.v, MM15/Replay.v) the C15 theorems are about. *)
From Coq Require Import NArith List Bool Arith Lia.
From Pi2 Require Import MM15.Codec MM15.CodecProofs MM15.Replay MM15.ReplayProofs MM15.GenPrelude Gen.MMDecode.
Import ListNotations.
Open Scope N_scope.

(* ------------------------------------------------------------------------------------------ *)
(** * the digit tables *)

Ltac table_walk c :=
  repeat match goal with
         | |- context [?k =? c] =>
             let E := fresh "E" in destruct (k =? c) eqn:E;
             [apply N.eqb_eq in E; subst c; reflexivity | apply N.eqb_neq in E]
         end.

Lemma gen_lsdigit_eq c : dict_get gen_lsdigit c = lsdigit c.
Proof.
  unfold gen_lsdigit. cbn [dict_get]. table_walk c.
  unfold lsdigit. destruct (65 <=? c) eqn:A; destruct (c <=? 84) eqn:B; try reflexivity.
  apply N.leb_le in A. apply N.leb_le in B. exfalso. lia.
Qed.

Lemma gen_msdigit_eq c : dict_get gen_msdigit c = msdigit c.
Proof.
  unfold gen_msdigit. cbn [dict_get]. table_walk c.
  unfold msdigit. destruct (85 <=? c) eqn:A; destruct (c <=? 89) eqn:B; try reflexivity.
  apply N.leb_le in A. apply N.leb_le in B. exfalso. lia.
Qed.

Lemma gen_lsdigit_has c : dict_has gen_lsdigit c = match lsdigit c with Some _ => true | None => false end.
Proof. unfold dict_has. rewrite gen_lsdigit_eq. reflexivity. Qed.

(* ------------------------------------------------------------------------------------------ *)
(** * convert_to_number *)

Theorem gen_convert_to_number_eq : forall w, gen_convert_to_number w = decode_word w.
Proof.
  intros w. unfold gen_convert_to_number, decode_word.
  destruct (rev w) as [|f enc]; [reflexivity|].
  rewrite gen_lsdigit_eq. destruct (lsdigit f) as [a|]; [|reflexivity].
  match goal with |- context [py_for ?b enc _] => set (body := b) end.
  assert (L : forall l n e, py_for body l (n, e) =
                            match ms_loop l (5 ^ e) n with Some n' => Some (n', e + py_len l) | None => None end).
  { induction l as [|c l IH]; intros n e.
    - cbn. unfold py_len. cbn. rewrite N.add_0_r. reflexivity.
    - cbn [py_for ms_loop]. unfold body at 1. rewrite gen_msdigit_eq.
      destruct (msdigit c) as [d|]; [|reflexivity].
      fold body. rewrite IH. rewrite N.pow_add_r, N.pow_1_r.
      replace (5 ^ e * 5) with (5 * 5 ^ e) by lia.
      destruct (ms_loop l (5 * 5 ^ e) (n + d * 5 ^ e * 20)); [|reflexivity].
      f_equal. f_equal. unfold py_len. cbn [length]. lia. }
  rewrite L. change (5 ^ 0) with 1. destruct (ms_loop enc 1 a); reflexivity.
Qed.

(* ------------------------------------------------------------------------------------------ *)
(** * the tail of _import_proof: word splitter and Z handling *)

Section WithCtx.
  Variable stmts : list gstmt.
  Variable mv : list str.

  Lemma gen_steps_loop body :
    body = (fun (v_letter : N) (st : list N * list N) =>
      let '(out, buf) := st in
      if v_letter =? 90 then
        if is_nil buf then Some (CNext, (out ++ [0], buf)) else None
      else
        let buf := buf ++ [v_letter] in
        if dict_has gen_lsdigit v_letter then
          match gen_convert_to_number buf with
          | None => None
          | Some t => Some (CNext, (out ++ [t], []))
          end
        else Some (CNext, (out, buf))) ->
    forall s out buf,
      match steps_loop s buf, py_for body s (out, buf) with
      | Some r, Some (o, _) => o = out ++ r
      | None, None => True
      | _, _ => False
      end.
  Proof.
    intros Hb. induction s as [|c s IH]; intros out buf.
    - cbn. rewrite app_nil_r. reflexivity.
    - cbn [steps_loop py_for]. rewrite Hb at 1. cbn beta iota. destruct (c =? 90) eqn:EZ.
      + destruct buf as [|b buf]; cbn [is_nil]; [|exact I].
        rewrite <- Hb. specialize (IH (out ++ [0]) []).
        destruct (steps_loop s []) as [r|]; destruct (py_for body s (out ++ [0], [])) as [[o b']|]; cbn [option_map]; try exact IH.
        rewrite IH, <- app_assoc. reflexivity.
      + rewrite gen_lsdigit_has. destruct (lsdigit c) as [a|].
        * rewrite gen_convert_to_number_eq. destruct (decode_word (buf ++ [c])) as [n|]; [|exact I].
          rewrite <- Hb. specialize (IH (out ++ [n]) []).
          destruct (steps_loop s []) as [r|]; destruct (py_for body s (out ++ [n], [])) as [[o b']|]; cbn [option_map]; try exact IH.
          rewrite IH, <- app_assoc. reflexivity.
        * rewrite <- Hb. apply IH.
  Qed.
End WithCtx.

(** The decoder GENERATED from the current Python source (coq/Gen/MMDecode.v, translators/mmdecode.py) equals the
    hand-written model (MM15/Codec.v, MM15/Replay.v) the C15 theorems are about. *)
From Coq Require Import NArith List Bool Arith Lia.
From Pi2 Require Import MM15.Codec MM15.CodecProofs MM15.Replay MM15.ReplayProofs MM15.GenPrelude Gen.MMDecode.
Import ListNotations.
Open Scope N_scope.

(* ------------------------------------------------------------------------------------------ *)
(** * the digit tables *)

Ltac table_walk c :=
  repeat match goal with
         | |- context [?k =? c] =>
             let E := fresh "E" in destruct (k =? c) eqn:E;
             [apply N.eqb_eq in E; subst c; reflexivity | apply N.eqb_neq in E]
         end.

Lemma gen_lsdigit_eq c : dict_get gen_lsdigit c = lsdigit c.
Proof.
  unfold gen_lsdigit. cbn [dict_get]. table_walk c.
  unfold lsdigit. destruct (65 <=? c) eqn:A; destruct (c <=? 84) eqn:B; try reflexivity.
  apply N.leb_le in A. apply N.leb_le in B. exfalso. lia.
Qed.

Lemma gen_msdigit_eq c : dict_get gen_msdigit c = msdigit c.
Proof.
  unfold gen_msdigit. cbn [dict_get]. table_walk c.
  unfold msdigit. destruct (85 <=? c) eqn:A; destruct (c <=? 89) eqn:B; try reflexivity.
  apply N.leb_le in A. apply N.leb_le in B. exfalso. lia.
Qed.

Lemma gen_lsdigit_has c : dict_has gen_lsdigit c = match lsdigit c with Some _ => true | None => false end.
Proof. unfold dict_has. rewrite gen_lsdigit_eq. reflexivity. Qed.

(* ------------------------------------------------------------------------------------------ *)
(** * convert_to_number *)

(** the digit loop is accepted in two shapes: explicit exponent ([n += d * pow(5, exp) * 20; exp += 1]) or a running weight
    ([n += d * weight; weight *= 5], weight starting at 20) *)
Ltac conv_loop_exp body enc a :=
  assert (L : forall l n e, py_for body l (n, e) =
                            match ms_loop l (5 ^ e) n with Some n' => Some (n', e + py_len l) | None => None end);
  [ let l := fresh "l" in let c := fresh "c" in let IH := fresh "IH" in
    induction l as [|c l IH]; intros n e;
    [ cbn; unfold py_len; cbn; rewrite N.add_0_r; reflexivity
    | cbn [py_for ms_loop]; unfold body at 1; rewrite gen_msdigit_eq;
      destruct (msdigit c) as [d|]; [|reflexivity];
      fold body; rewrite IH; rewrite N.pow_add_r, N.pow_1_r;
      replace (5 ^ e * 5) with (5 * 5 ^ e) by lia;
      destruct (ms_loop l (5 * 5 ^ e) (n + d * 5 ^ e * 20)); [|reflexivity];
      f_equal; f_equal; unfold py_len; cbn [length]; lia ]
  | rewrite L; change (5 ^ 0) with 1; destruct (ms_loop enc 1 a); reflexivity ].

Ltac conv_loop_weight body enc a :=
  assert (L : forall l n pw, py_for body l (n, 20 * pw) =
                             match ms_loop l pw n with Some n' => Some (n', 20 * pw * 5 ^ py_len l) | None => None end);
  [ let l := fresh "l" in let c := fresh "c" in let IH := fresh "IH" in
    induction l as [|c l IH]; intros n pw;
    [ cbn; unfold py_len; cbn; rewrite N.mul_1_r; reflexivity
    | cbn [py_for ms_loop]; unfold body at 1; rewrite gen_msdigit_eq;
      destruct (msdigit c) as [d|]; [|reflexivity];
      fold body;
      replace (n + d * (20 * pw)) with (n + d * pw * 20) by lia;
      replace (20 * pw * 5) with (20 * (5 * pw)) by lia;
      rewrite IH;
      destruct (ms_loop l (5 * pw) (n + d * pw * 20)); [|reflexivity];
      f_equal; f_equal; unfold py_len; cbn [length]; rewrite Nat2N.inj_succ, N.pow_succ_r'; lia ]
  | change 20 with (20 * 1) at 1; rewrite L; destruct (ms_loop enc 1 a); reflexivity ].

(** third shape: [lsdigit[last] + sum(msdigit[l] * pow(5, exp) * 20 for exp, l in enumerate(reversed(init)))] *)
Ltac conv_loop_sum body enc a :=
  assert (L : forall l e acc a0, option_map (N.add a0) (py_for_enum body e l acc) = ms_loop l (5 ^ e) (a0 + acc));
  [ let l := fresh "l" in let c := fresh "c" in let IH := fresh "IH" in
    induction l as [|c l IH]; intros e acc a0;
    [ reflexivity
    | cbn [py_for_enum ms_loop]; unfold body at 1; rewrite gen_msdigit_eq;
      destruct (msdigit c) as [d|]; [|reflexivity];
      fold body; rewrite IH; rewrite N.pow_add_r, N.pow_1_r;
      replace (5 ^ e * 5) with (5 * 5 ^ e) by lia;
      replace (a0 + (acc + d * 5 ^ e * 20)) with (a0 + acc + d * 5 ^ e * 20) by lia; reflexivity ]
  | specialize (L enc 0 0 a); rewrite N.add_0_r in L; change (5 ^ 0) with 1 in L; rewrite <- L;
    destruct (py_for_enum body 0 enc 0); reflexivity ].

Theorem gen_convert_to_number_eq : forall w, gen_convert_to_number w = decode_word w.
Proof.
  intros w. unfold gen_convert_to_number, decode_word. cbv zeta.
  destruct (rev w) as [|f enc]; [reflexivity|].
  rewrite gen_lsdigit_eq. destruct (lsdigit f) as [a|]; [|reflexivity].
  rewrite ?rev_involutive.
  first [ match goal with |- context [py_for ?b enc _] => set (body := b) end;
          first [ conv_loop_exp body enc a | conv_loop_weight body enc a ]
        | match goal with |- context [py_for_enum ?b 0 enc 0] => set (body := b) end; conv_loop_sum body enc a ].
Qed.

(* ------------------------------------------------------------------------------------------ *)
(** * dictionaries with consecutive keys *)

Fixpoint numbered (b : N) (l : list str) : list (N * str) :=
  match l with
  | [] => []
  | x :: r => (b, x) :: numbered (b + 1) r
  end.

Lemma numbered_get_none l : forall b k, (k < b \/ b + py_len l <= k) -> dict_get (numbered b l) k = None.
Proof.
  induction l as [|x l IH]; intros b k H; [reflexivity|].
  cbn [numbered dict_get]. unfold py_len in *. cbn [length] in H.
  destruct (b =? k) eqn:E; [apply N.eqb_eq in E; lia|].
  apply IH. unfold py_len. lia.
Qed.

Lemma numbered_set_new l : forall b x, dict_set (numbered b l) (b + py_len l) x = numbered b (l ++ [x]).
Proof.
  induction l as [|y l IH]; intros b x.
  - cbn. unfold py_len. cbn. rewrite N.add_0_r. reflexivity.
  - cbn [numbered dict_set app]. unfold py_len. cbn [length].
    destruct (b =? b + N.of_nat (S (length l))) eqn:E; [apply N.eqb_eq in E; lia|].
    f_equal. specialize (IH (b + 1) x). unfold py_len in IH.
    replace (b + N.of_nat (S (length l))) with (b + 1 + N.of_nat (length l)) by lia. exact IH.
Qed.

Lemma numbered_len b l : py_len (numbered b l) = py_len l.
Proof. unfold py_len. f_equal. revert b. induction l as [|x l IH]; intros b; [reflexivity|]. cbn [numbered length]. rewrite IH. reflexivity. Qed.

Lemma numbered_has l : forall b k, dict_has (numbered b l) k = (b <=? k) && (k <? b + py_len l).
Proof.
  induction l as [|x l IH]; intros b k; unfold dict_has in *; cbn [numbered dict_get].
  - unfold py_len. cbn. rewrite N.add_0_r.
    destruct (b <=? k) eqn:A; destruct (k <? b) eqn:B; try reflexivity.
    apply N.leb_le in A. apply N.ltb_lt in B. lia.
  - destruct (b =? k) eqn:E.
    + apply N.eqb_eq in E. subst k. unfold py_len. cbn [length].
      rewrite N.leb_refl. symmetry. apply N.ltb_lt. lia.
    + apply N.eqb_neq in E. rewrite IH. unfold py_len. cbn [length].
      destruct (b + 1 <=? k) eqn:A; destruct (b <=? k) eqn:B; destruct (k <? b + 1 + N.of_nat (length l)) eqn:C;
        destruct (k <? b + N.of_nat (S (length l))) eqn:D; try reflexivity;
        rewrite ?N.leb_le, ?N.leb_gt, ?N.ltb_lt, ?N.ltb_ge in *; lia.
Qed.

Definition floats_of (stmts : list gstmt) : list (str * str) :=
  flat_map (fun s => match s with GFloating l v => [(l, v)] | GOther => [] end) stmts.

(* ------------------------------------------------------------------------------------------ *)
(** * parse_lemmas *)

Lemma for_break_nonempty p c r : exists j, for_break p (c :: r) = Some j.
Proof.
  revert c. induction r as [|d r IH]; intros c.
  - cbn [for_break]. destruct (p c); eauto.
  - destruct (IH d) as [j Hj].
    change (for_break p (c :: d :: r)) with (if p c then Some O else option_map S (for_break p (d :: r))).
    rewrite Hj. destruct (p c); cbn; eauto.
Qed.

(** [for i, x in enumerate(xs): if p x: break] *)
Lemma enum_break_loop (body : N -> N -> option N -> option (ctrl * option N)) (p : N -> bool) :
  (forall i x st, body i x st = if p x then Some (CBreak, Some i) else Some (CNext, Some i)) ->
  forall xs i0 st0,
    py_for_enum body i0 xs st0 =
    Some (match for_break p xs with Some j => Some (i0 + N.of_nat j) | None => st0 end).
Proof.
  intros Hb. induction xs as [|c r IH]; intros i0 st0; [reflexivity|].
  cbn [py_for_enum]. rewrite Hb.
  assert (FB : for_break p (c :: r) = if p c then Some O else match r with [] => Some O | _ :: _ => option_map S (for_break p r) end)
    by (destruct r; reflexivity).
  rewrite FB. destruct (p c).
  - rewrite N.add_0_r. reflexivity.
  - destruct r as [|d r].
    + cbn. rewrite N.add_0_r. reflexivity.
    + rewrite IH. destruct (for_break_nonempty p d r) as [j Hj]. rewrite Hj. cbn [option_map].
      do 2 f_equal. lia.
Qed.

(** the label-registering loop *)
Lemma label_loop (body : N -> N -> option N * list (N * str) * str * N -> option (ctrl * (option N * list (N * str) * str * N))) :
  (forall i c io d n buf, body i c (io, d, buf, n) =
     if is_space c then Some (CNext, (Some i, dict_set d n buf, [], n + 1))
     else if c =? 41 then Some (CBreak, (Some i, d, buf, n))
     else Some (CNext, (Some i, d, buf ++ [c], n))) ->
  forall s i io tbl buf, exists n' b',
    py_for_enum body i s (io, numbered 1 tbl, buf, py_len tbl + 1) =
    Some (match s with [] => io | _ :: _ => Some (N.of_nat (snd (lab_loop s buf (N.to_nat i)))) end,
          numbered 1 (tbl ++ fst (lab_loop s buf (N.to_nat i))), b', n').
Proof.
  intros Hb. induction s as [|c r IH]; intros i io tbl buf.
  - cbn. rewrite app_nil_r. eauto.
  - cbn [py_for_enum lab_loop]. rewrite Hb. destruct (is_space c); [|destruct (c =? 41)]; cbv iota beta.
    + replace (py_len tbl + 1) with (1 + py_len tbl) by lia. rewrite numbered_set_new.
      replace (1 + py_len tbl + 1) with (py_len (tbl ++ [buf]) + 1) by (unfold py_len; rewrite app_length; cbn [length]; lia).
      destruct (IH (i + 1) (Some i) (tbl ++ [buf]) []) as (n' & b' & E). exists n', b'. etransitivity; [exact E|].
      replace (N.to_nat (i + 1)) with (S (N.to_nat i)) by lia.
      destruct (lab_loop r [] (S (N.to_nat i))) as [ls l] eqn:EL. cbn [fst snd].
      rewrite <- app_assoc. cbn [app].
      assert (X : match r with [] => Some i | _ :: _ => Some (N.of_nat l) end = Some (N.of_nat l)).
      { destruct r; [|reflexivity]. cbn in EL. inversion EL. f_equal. lia. }
      rewrite X. reflexivity.
    + cbn [fst snd]. rewrite app_nil_r, N2Nat.id. exists (py_len tbl + 1), buf. reflexivity.
    + destruct (IH (i + 1) (Some i) tbl (buf ++ [c])) as (n' & b' & E). exists n', b'. etransitivity; [exact E|].
        replace (N.to_nat (i + 1)) with (S (N.to_nat i)) by lia.
        assert (X : match r with [] => Some i | _ :: _ => Some (N.of_nat (snd (lab_loop r (buf ++ [c]) (S (N.to_nat i))))) end
                    = Some (N.of_nat (snd (lab_loop r (buf ++ [c]) (S (N.to_nat i)))))).
        { destruct r; [|reflexivity]. cbn. f_equal. lia. }
        rewrite X. reflexivity.
Qed.

Lemma skipn_py {A} (l : list A) (n : nat) : py_slice_from l (N.of_nat n) = skipn n l.
Proof. unfold py_slice_from. rewrite Nat2N.id. reflexivity. Qed.

(** [s.find('(')] with the fallback to the last index is the enumerate-and-break loop *)
Lemma py_find_from_spec c : forall s i,
  match py_find_from c s i with
  | Some j => exists k, j = i + N.of_nat k /\ for_break (fun x => x =? c) s = Some k
  | None => for_break (fun x => x =? c) s = match s with [] => None | _ :: _ => Some (length s - 1)%nat end
  end.
Proof.
  induction s as [|x r IH]; intros i; cbn [py_find_from]; [reflexivity|].
  assert (FB : for_break (fun y => y =? c) (x :: r) =
               if x =? c then Some O else match r with [] => Some O | _ :: _ => option_map S (for_break (fun y => y =? c) r) end)
    by (destruct r; reflexivity).
  rewrite FB. destruct (x =? c).
  - exists O. split; [lia|reflexivity].
  - specialize (IH (i + 1)). destruct (py_find_from c r (i + 1)) as [j|].
    + destruct IH as (k & -> & Hk). exists (S k). split; [lia|]. destruct r; [discriminate|]. rewrite Hk. reflexivity.
    + destruct r as [|y r']; [reflexivity|]. rewrite IH. cbn [option_map length]. f_equal. lia.
Qed.

Ltac parse_rest proof mand i :=
  replace (N.of_nat i + 1) with (N.of_nat (i + 1)) by lia; rewrite skipn_py;
  rewrite (enum_break_loop _ (fun c => negb (is_space c))) by (intros; cbv beta; first [reflexivity | destruct (is_space _); reflexivity]);
  let j := fresh "j" in
  destruct (for_break (fun c => negb (is_space c)) (skipn (i + 1) proof)) as [j|]; [|reflexivity];
  cbv beta iota zeta; rewrite N.add_0_l;
  replace (N.of_nat i + N.of_nat j + 1) with (N.of_nat (i + j + 1)) by lia; rewrite skipn_py;
  rewrite numbered_len;
  match goal with |- context [py_for_enum ?b 0 _ _] =>
    let n' := fresh "n'" in let b' := fresh "b'" in let E := fresh "E" in
    destruct (label_loop b ltac:(intros; reflexivity) (skipn (i + j + 1) proof) 0 None mand []) as (n' & b' & E);
    unfold str in *; rewrite E; clear E end;
  change (N.to_nat 0) with O;
  let c := fresh "c" in let s := fresh "s" in
  destruct (skipn (i + j + 1) proof) as [|c s]; [reflexivity|];
  let ls := fresh "ls" in let l := fresh "l" in
  destruct (lab_loop (c :: s) [] 0) as [ls l]; cbn [fst snd];
  do 2 f_equal; lia.

Theorem gen_parse_lemmas_eq : forall proof mand,
  gen_parse_lemmas proof (numbered 1 mand) =
  match parse_lemmas proof with
  | Some (ls, off) => Some (numbered 1 (mand ++ ls), N.of_nat off)
  | None => None
  end.
Proof.
  intros proof mand. unfold gen_parse_lemmas, parse_lemmas.
  first
  [ (* the opening parenthesis is searched by an enumerate loop with break *)
    rewrite (enum_break_loop _ (fun c => c =? 40)) by (intros; cbv beta; first [reflexivity | destruct (_ =? 40); reflexivity]);
    destruct (for_break (fun c => c =? 40) proof) as [i|]; [|reflexivity];
    cbv beta iota; rewrite N.add_0_l; parse_rest proof mand i
  | (* ... or by str.find with a fallback to the last index *)
    destruct proof as [|c0 p0]; [reflexivity|];
    pose proof (py_find_from_spec 40 (c0 :: p0) 0) as F; unfold py_find;
    destruct (py_find_from 40 (c0 :: p0) 0) as [j|]; cbn [is_none]; cbv beta iota;
    [ let k := fresh "k" in let Hk := fresh "Hk" in
      destruct F as (k & -> & Hk); rewrite Hk; cbv beta iota; rewrite N.add_0_l; parse_rest (c0 :: p0) mand k
    | rewrite F; cbv beta iota;
      replace (py_len (c0 :: p0) - 1) with (N.of_nat (length (c0 :: p0) - 1)) by (unfold py_len; cbn [length]; lia);
      parse_rest (c0 :: p0) mand (length (c0 :: p0) - 1)%nat ] ].
Qed.

(* ------------------------------------------------------------------------------------------ *)
(** * split_proof and the whole of _import_proof *)

Section WithCtx.
  Variable stmts : list gstmt.
  Variable mv : list str.

  (** the mandatory-hypothesis numbering is accepted in two shapes: the loop that stores under a running key, or
      [dict(enumerate(<generator of the labels>, start=1))]; likewise the white-space stripping: loop or [''.join(<generator>)] *)
  Lemma mand_loop (body : gstmt -> list (N * str) * N -> option (ctrl * (list (N * str) * N))) :
    (forall f d n, body f (d, n) =
       if andb (gs_is_floating f) (mem_str (gs_metavariable f) mv)
       then Some (CNext, (dict_set d n (gs_label f), n + 1)) else Some (CNext, (d, n))) ->
    forall ss tbl, py_for body ss (numbered 1 tbl, py_len tbl + 1) =
                   Some (numbered 1 (tbl ++ mand_db_order (floats_of ss) mv),
                         py_len (tbl ++ mand_db_order (floats_of ss) mv) + 1).
  Proof.
    intros Hb. induction ss as [|s ss IH]; intros tbl.
    - cbn. rewrite app_nil_r. reflexivity.
    - cbn [py_for]. rewrite Hb. destruct s as [l v|]; cbn [gs_is_floating gs_metavariable gs_label andb].
      + unfold mand_db_order. cbn [floats_of flat_map app filter snd]. destruct (mem_str v mv).
        * replace (py_len tbl + 1) with (1 + py_len tbl) by lia. rewrite numbered_set_new.
          replace (1 + py_len tbl + 1) with (py_len (tbl ++ [l]) + 1)
            by (unfold py_len; rewrite app_length; cbn [length]; lia).
          rewrite IH. unfold mand_db_order. cbn [map fst]. rewrite <- app_assoc. reflexivity.
        * rewrite IH. reflexivity.
      + rewrite IH. reflexivity.
  Qed.

  Lemma genexp_mand :
    py_genexp (fun f => if andb (gs_is_floating f) (mem_str (gs_metavariable f) mv) then Some (gs_label f) else None) stmts
    = mand_db_order (floats_of stmts) mv.
  Proof.
    unfold py_genexp, mand_db_order. induction stmts as [|s ss IH]; [reflexivity|].
    cbn [flat_map floats_of]. destruct s as [l v|]; cbn [gs_is_floating gs_metavariable gs_label andb app].
    - cbn [filter snd]. destruct (mem_str v mv); cbn [map fst app]; rewrite IH; reflexivity.
    - exact IH.
  Qed.

  Lemma py_dict_enum_numbered : forall l b, @py_dict_enum str b l = numbered b l.
  Proof. induction l as [|x l IH]; intros b; [reflexivity|]. cbn [py_dict_enum numbered]. rewrite IH. reflexivity. Qed.

  Lemma ws_loop (body : N -> list N -> option (ctrl * list N)) :
    (forall c acc, body c acc = if is_space c then Some (CNext, acc) else Some (CNext, acc ++ [c])) ->
    forall xs acc, py_for body xs acc = Some (acc ++ filter (fun c => negb (is_space c)) xs).
  Proof.
    intros Hb. induction xs as [|c xs IH]; intros acc.
    - cbn. rewrite app_nil_r. reflexivity.
    - cbn [py_for filter]. rewrite Hb. destruct (is_space c); cbn [negb]; rewrite IH.
      + reflexivity.
      + rewrite <- app_assoc. reflexivity.
  Qed.

  Lemma py_genexp_filter {X} (p : X -> bool) xs : py_genexp (fun c => if p c then Some c else None) xs = filter p xs.
  Proof.
    unfold py_genexp. induction xs as [|c xs IH]; [reflexivity|].
    cbn [flat_map filter]. destruct (p c); cbn [app]; rewrite IH; reflexivity.
  Qed.

  Theorem gen_split_proof_eq : forall proof,
    gen_split_proof stmts mv proof =
    match split_proof (mand_db_order (floats_of stmts) mv) proof with
    | Some (tbl, applied) => Some (numbered 1 tbl, applied)
    | None => None
    end.
  Proof.
    intros proof. unfold gen_split_proof, split_proof. cbv zeta.
    destruct proof as [|c0 proof0]; [reflexivity|]. cbn [is_nil negb].
    set (proof := c0 :: proof0).
    (* numbering of the mandatory hypotheses *)
    first [ rewrite genexp_mand, py_dict_enum_numbered; unfold str in *
          | unfold str in *; change (@nil (N * list N), 1) with (numbered 1 (@nil (list N)), py_len (@nil (list N)) + 1);
            match goal with |- context [py_for ?b stmts _] => rewrite (mand_loop b) by (intros; reflexivity) end;
            cbn [app]; cbv beta iota ].
    rewrite gen_parse_lemmas_eq.
    destruct (parse_lemmas proof) as [[ls off]|]; [|reflexivity].
    cbv beta iota. rewrite skipn_py.
    (* white space removed from the letter block *)
    first [ rewrite py_genexp_filter; reflexivity
          | match goal with |- context [py_for ?b (skipn off proof) _] =>
              rewrite (ws_loop b) by (intros; cbv beta; first [reflexivity | destruct (is_space _); reflexivity]) end;
            reflexivity ].
  Qed.

  Theorem gen_import_proof_eq : forall proof,
    gen_import_proof stmts mv proof =
    match import_proof (mand_db_order (floats_of stmts) mv) proof with
    | Some (tbl, st) => Some (numbered 1 tbl, st)
    | None => None
    end.
  Proof.
    intros proof. unfold gen_import_proof, import_proof. rewrite gen_split_proof_eq.
    destruct (split_proof (mand_db_order (floats_of stmts) mv) proof) as [[tbl applied]|]; [|reflexivity].
    match goal with |- context [py_for ?b applied _] => set (body := b) end.
    assert (L : forall s out buf,
               match steps_loop s buf, py_for body s (out, buf) with
               | Some r, Some (o, _) => o = out ++ r
               | None, None => True
               | _, _ => False
               end).
    { induction s as [|c s IH]; intros out buf; unfold str in *.
      - cbn. rewrite app_nil_r. reflexivity.
      - cbn [steps_loop py_for]. remember (body c (out, buf)) as bc eqn:Hbc.
        unfold body in Hbc. cbv beta iota in Hbc. subst bc. destruct (c =? 90) eqn:EZ.
        + destruct buf as [|b buf]; cbn [is_nil]; [|exact I].
          specialize (IH (out ++ [0]) []). revert IH.
          destruct (steps_loop s []) as [r|]; destruct (py_for body s (out ++ [0], [])) as [[o b']|];
            cbn [option_map]; intros IH; try exact IH.
          rewrite IH, <- app_assoc. reflexivity.
        + rewrite gen_lsdigit_has. destruct (lsdigit c) as [a|].
          * rewrite gen_convert_to_number_eq. destruct (decode_word (buf ++ [c])) as [n|]; [|exact I].
            specialize (IH (out ++ [n]) []). revert IH.
            destruct (steps_loop s []) as [r|]; destruct (py_for body s (out ++ [n], [])) as [[o b']|];
              cbn [option_map]; intros IH; try exact IH.
            rewrite IH, <- app_assoc. reflexivity.
          * apply IH. }
    specialize (L applied [] []). unfold split_steps, str in *. revert L.
    destruct (steps_loop applied []) as [r|]; destruct (py_for body applied ([], [])) as [[o b']|]; intros L; try contradiction.
    - subst o. reflexivity.
    - reflexivity.
  Qed.
End WithCtx.

(* ------------------------------------------------------------------------------------------ *)
(** * exec_proof: what a number denotes during replay *)

Definition erase {A} (e : ev A) : gev A :=
  match e with EZ p => GSave p | ELabel t => GLabel t | ERef _ p => GLoad p end.

Section ReplayAgree.
  Variable A : Type.
  Variable eqb : A -> A -> bool.

  Theorem gen_replay_eq : forall (tbl : list str) (m k : nat) steps,
    length tbl = (m + k)%nat ->
    gen_replay A (numbered 1 tbl) steps =
    option_map (map erase) (replay_marks eqb false m k steps None []).
  Proof.
    intros tbl m k steps Hlen. unfold gen_replay. rewrite numbered_len.
    match goal with |- context [py_for ?b steps _] => set (body := b) end.
    assert (L : forall ss mem tr top,
               match replay_marks eqb false m k ss top mem, py_for body ss (tr, top, mem) with
               | Some evs, Some (tr', _, _) => tr' = tr ++ map erase evs
               | None, None => True
               | _, _ => False
               end).
    { induction ss as [|[n t] ss IH]; intros mem tr top.
      - cbn. rewrite app_nil_r. reflexivity.
      - cbn [replay_marks py_for]. remember (body (n, t) (tr, top, mem)) as bc eqn:Hbc.
        unfold body in Hbc. cbv beta iota zeta in Hbc. cbn [fst snd] in Hbc. subst bc.
        rewrite numbered_has. unfold classify, py_len. rewrite Hlen.
        destruct (n =? 0) eqn:E0.
        + apply N.eqb_eq in E0. subst n. cbn [N.leb N.compare andb negb].
          destruct top as [p|]; [|exact I]. cbn [andb].
          specialize (IH (mem ++ [p]) (tr ++ [GSave p]) (Some p)). revert IH.
          destruct (replay_marks eqb false m k ss (Some p) (mem ++ [p])) as [evs|];
            destruct (py_for body ss (tr ++ [GSave p], Some p, mem ++ [p])) as [[[tr' top'] m']|];
            cbn [option_map]; intros IH; try exact IH.
          rewrite IH, <- app_assoc. reflexivity.
        + apply N.eqb_neq in E0.
          destruct (Nat.leb (N.to_nat n) m) eqn:L1; [|destruct (Nat.leb (N.to_nat n) (m + k)) eqn:L2].
          * apply Nat.leb_le in L1.
            assert (X : (1 <=? n) && (n <? 1 + N.of_nat (m + k)) = true).
            { apply andb_true_iff. split; [apply N.leb_le|apply N.ltb_lt]; lia. }
            rewrite X. cbn [negb].
            specialize (IH mem (tr ++ [GLabel t]) (Some t)). revert IH.
            destruct (replay_marks eqb false m k ss (Some t) mem) as [evs|];
              destruct (py_for body ss (tr ++ [GLabel t], Some t, mem)) as [[[tr' top'] m']|];
              cbn [option_map]; intros IH; try exact IH.
            rewrite IH, <- app_assoc. reflexivity.
          * apply Nat.leb_le in L2.
            assert (X : (1 <=? n) && (n <? 1 + N.of_nat (m + k)) = true).
            { apply andb_true_iff. split; [apply N.leb_le|apply N.ltb_lt]; lia. }
            rewrite X. cbn [negb].
            specialize (IH mem (tr ++ [GLabel t]) (Some t)). revert IH.
            destruct (replay_marks eqb false m k ss (Some t) mem) as [evs|];
              destruct (py_for body ss (tr ++ [GLabel t], Some t, mem)) as [[[tr' top'] m']|];
              cbn [option_map]; intros IH; try exact IH.
            rewrite IH, <- app_assoc. reflexivity.
          * apply Nat.leb_gt in L1. apply Nat.leb_gt in L2.
            assert (X : (1 <=? n) && (n <? 1 + N.of_nat (m + k)) = false).
            { apply andb_false_iff. right. apply N.ltb_ge. lia. }
            rewrite X. cbn [negb]. unfold py_index.
            replace (N.to_nat (n - N.of_nat (m + k) - 1)) with (N.to_nat n - m - k - 1)%nat by lia.
            destruct (nth_error mem (N.to_nat n - m - k - 1)) as [p|]; [|exact I].
            specialize (IH mem (tr ++ [GLoad p]) (Some p)). revert IH.
            destruct (replay_marks eqb false m k ss (Some p) mem) as [evs|];
              destruct (py_for body ss (tr ++ [GLoad p], Some p, mem)) as [[[tr' top'] m']|];
              cbn [option_map]; intros IH; try exact IH.
            rewrite IH, <- app_assoc. reflexivity. }
    specialize (L steps [] [] None). revert L.
    destruct (replay_marks eqb false m k steps None []) as [evs|];
      destruct (py_for body steps ([], None, [])) as [[[tr' top'] m']|]; cbn [option_map]; intros L; try contradiction.
    - subst tr'. reflexivity.
    - reflexivity.
  Qed.
End ReplayAgree.

(* ------------------------------------------------------------------------------------------ *)
(** * The C15 statements, of the functions generated from the source *)

Lemma source_decode_is_appendixB : forall w, gen_convert_to_number w = appendixB_decode w.
Proof. intros w. rewrite gen_convert_to_number_eq. apply decode_word_is_appendixB. Qed.

Lemma source_decode_encode : forall n, 1 <= n -> gen_convert_to_number (encode n) = Some n.
Proof. intros n H. rewrite gen_convert_to_number_eq. apply decode_encode; exact H. Qed.

Lemma source_encode_decode : forall w, valid_word w ->
  exists n, gen_convert_to_number w = Some n /\ 1 <= n /\ encode n = w.
Proof. intros w H. rewrite gen_convert_to_number_eq. apply encode_decode; exact H. Qed.

Lemma source_encoding_unique : forall w1 w2 n,
  gen_convert_to_number w1 = Some n -> gen_convert_to_number w2 = Some n -> w1 = w2.
Proof. intros w1 w2 n. rewrite !gen_convert_to_number_eq. apply encoding_unique. Qed.

Lemma source_import_spec : forall stmts mv pre items ls ws ss,
  all_lex_space pre ->
  Forall (fun it => tok_ok (fst it) /\ sep_ok (snd it)) items ->
  map fst items = [40] :: ls ++ [41] :: ws ->
  Forall label_ok ls -> Forall no_space ws ->
  concat ws = concat (map render ss) -> Forall step_ok ss ->
  gen_import_proof stmts mv (proof_field (layout pre items)) =
  Some (numbered 1 (mand_db_order (floats_of stmts) mv ++ ls), map step_code ss).
Proof.
  intros stmts mv pre items ls ws ss H1 H2 H3 H4 H5 H6 H7. rewrite gen_import_proof_eq.
  pose proof (import_statement_spec (floats_of stmts) mv pre items ls ws ss H1 H2 H3 H4 H5 H6 H7) as S.
  unfold import_statement, mandatory in S. rewrite S. reflexivity.
Qed.

Lemma source_mandatory_order : forall stmts mv mv' proof, Permutation.Permutation mv mv' ->
  gen_import_proof stmts mv proof = gen_import_proof stmts mv' proof.
Proof. intros stmts mv mv' proof P. rewrite !gen_import_proof_eq, (mandatory_perm _ mv mv' P). reflexivity. Qed.

(** keys of the generated table are consecutive from 1: [numbered 1 tbl] maps [n] to the n-th entry *)
Lemma numbered_lookup : forall tbl b n, dict_get (numbered b tbl) n = if n <? b then None else nth_error tbl (N.to_nat (n - b)).
Proof.
  induction tbl as [|x tbl IH]; intros b n; cbn [numbered dict_get].
  - destruct (n <? b); [reflexivity|]. destruct (N.to_nat (n - b)); reflexivity.
  - destruct (b =? n) eqn:E.
    + apply N.eqb_eq in E. subst n. rewrite N.ltb_irrefl, N.sub_diag. reflexivity.
    + apply N.eqb_neq in E. rewrite IH. destruct (n <? b) eqn:A.
      * apply N.ltb_lt in A. assert (X : (n <? b + 1) = true) by (apply N.ltb_lt; lia). rewrite X. reflexivity.
      * apply N.ltb_ge in A. assert (X : (n <? b + 1) = false) by (apply N.ltb_ge; lia). rewrite X.
        replace (N.to_nat (n - b)) with (S (N.to_nat (n - (b + 1)))) by lia. reflexivity.
Qed.

Fixpoint gsaved {A} (tr : list (gev A)) : list A :=
  match tr with
  | [] => []
  | GSave p :: r => p :: gsaved r
  | _ :: r => gsaved r
  end.

Lemma gsaved_erase {A} (tr : list (ev A)) : gsaved (map erase tr) = saved tr.
Proof. induction tr as [|[p|t|j p] tr IH]; cbn [map erase gsaved saved]; rewrite ?IH; reflexivity. Qed.

(** a load during replay comes from a step numbered m + k + j + 1 and loads what the (j+1)-th save stored *)
Lemma source_marked_reference_denotes : forall (A : Type) (tbl : list str) (m k : nat) steps (tr : list (gev A)) i p,
  length tbl = (m + k)%nat ->
  gen_replay A (numbered 1 tbl) steps = Some tr ->
  nth_error tr i = Some (GLoad p) ->
  exists n t j, nth_error steps i = Some (n, t) /\ N.to_nat n = (m + k + j + 1)%nat /\
                nth_error (gsaved (firstn i tr)) j = Some p.
Proof.
  intros A tbl m k steps tr i p Hlen H Hn.
  rewrite (gen_replay_eq A (fun _ _ => false) tbl m k steps Hlen) in H.
  destruct (replay_marks (fun _ _ => false) false m k steps None []) as [tr0|] eqn:E; [|discriminate].
  cbn [option_map] in H. inversion H; subst tr. clear H.
  destruct (replay_marks_inv _ _ _ _ _ _ _ E) as (L & R1 & _ & R3).
  rewrite nth_error_map in Hn. destruct (nth_error tr0 i) as [e|] eqn:Ee; [|discriminate].
  cbn [option_map] in Hn. destruct e as [q|t|j q]; cbn [erase] in Hn; try discriminate. inversion Hn; subst q.
  assert (Hi : (i < length steps)%nat) by (rewrite <- L; apply nth_error_Some; congruence).
  destruct (nth_error steps i) as [[n t]|] eqn:Es; [|apply nth_error_None in Es; lia].
  specialize (R3 i n t Es). rewrite Ee in R3.
  unfold classify in R3. destruct (n =? 0); [contradiction|].
  destruct (Nat.leb (N.to_nat n) m) eqn:L1; [contradiction|].
  destruct (Nat.leb (N.to_nat n) (m + k)) eqn:L2; [contradiction|].
  apply Nat.leb_gt in L2. exists n, t, j. split; [reflexivity|]. split; [lia|].
  rewrite firstn_map, gsaved_erase. specialize (R1 i j p Ee). cbn [app] in R1. exact R1.
Qed.

(** a save stores the term the preceding step left on top (Z marks the preceding step) *)
Definition gterm {A} (e : gev A) : A := match e with GSave p => p | GLoad p => p | GLabel t => t end.
Lemma source_z_marks_preceding_step : forall (A : Type) (tbl : list str) (m k : nat) steps (tr : list (gev A)) i p,
  length tbl = (m + k)%nat ->
  gen_replay A (numbered 1 tbl) steps = Some tr ->
  nth_error tr i = Some (GSave p) ->
  exists i', i = S i' /\ option_map gterm (nth_error tr i') = Some p.
Proof.
  intros A tbl m k steps tr i p Hlen H Hn.
  rewrite (gen_replay_eq A (fun _ _ => false) tbl m k steps Hlen) in H.
  destruct (replay_marks (fun _ _ => false) false m k steps None []) as [tr0|] eqn:E; [|discriminate].
  cbn [option_map] in H. inversion H; subst tr. clear H.
  rewrite nth_error_map in Hn. destruct (nth_error tr0 i) as [e|] eqn:Ee; [|discriminate].
  cbn [option_map] in Hn. destruct e as [q|t|j q]; cbn [erase] in Hn; try discriminate. inversion Hn; subst q.
  destruct (z_marks_preceding_step _ _ _ _ _ _ _ E Ee) as (i' & -> & Hp).
  exists i'. split; [reflexivity|]. rewrite nth_error_map.
  destruct (nth_error tr0 i') as [e'|]; [|discriminate]. cbn [option_map] in *. inversion Hp.
  destruct e'; reflexivity.
Qed.

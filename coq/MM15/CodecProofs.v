(** Proofs about the C15 model (MM15/Codec.v).  All statements are for arbitrary numbers / lists:
    no size bound anywhere. *)
From Coq Require Import Arith NArith List Bool Lia Permutation.
From Pi2 Require Import MM15.Codec.
Import ListNotations.
Open Scope N_scope.

(** [lia] does not see through [N.div]/[N.modulo]: abstract them first (the needed facts are posed
    explicitly from [N.div_mod]/[N.mod_lt]) *)
Ltac gen_dm :=
  repeat match goal with
         | H : context [N.modulo ?a ?b] |- _ => let m := fresh "m" in set (m := N.modulo a b) in *; clearbody m
         | |- context [N.modulo ?a ?b] => let m := fresh "m" in set (m := N.modulo a b) in *; clearbody m
         | H : context [N.div ?a ?b] |- _ => let m := fresh "d" in set (m := N.div a b) in *; clearbody m
         | |- context [N.div ?a ?b] => let m := fresh "d" in set (m := N.div a b) in *; clearbody m
         end.
Ltac dlia := gen_dm; lia.

(* ------------------------------------------------------------------------------------------ *)
(** * Letters *)

Definition is_ls (c : N) : Prop := 65 <= c <= 84.   (* 'A'..'T' *)
Definition is_ms (c : N) : Prop := 85 <= c <= 89.   (* 'U'..'Y' *)

Lemma lsdigit_some c : is_ls c -> lsdigit c = Some (c - 64).
Proof.
  intros [H1 H2]. unfold lsdigit.
  destruct (65 <=? c) eqn:E1; destruct (c <=? 84) eqn:E2; try reflexivity;
    rewrite ?N.leb_gt in *; lia.
Qed.

Lemma lsdigit_inv c a : lsdigit c = Some a -> is_ls c /\ a = c - 64.
Proof.
  unfold lsdigit, is_ls.
  destruct (65 <=? c) eqn:E1; destruct (c <=? 84) eqn:E2; cbn; intros H; inversion H.
  apply N.leb_le in E1. apply N.leb_le in E2. lia.
Qed.

Lemma lsdigit_none c : ~ is_ls c -> lsdigit c = None.
Proof.
  intros H. destruct (lsdigit c) eqn:E; [|reflexivity].
  apply lsdigit_inv in E. tauto.
Qed.

Lemma msdigit_some c : is_ms c -> msdigit c = Some (c - 84).
Proof.
  intros [H1 H2]. unfold msdigit.
  destruct (85 <=? c) eqn:E1; destruct (c <=? 89) eqn:E2; try reflexivity;
    rewrite ?N.leb_gt in *; lia.
Qed.

Lemma msdigit_inv c a : msdigit c = Some a -> is_ms c /\ a = c - 84.
Proof.
  unfold msdigit, is_ms.
  destruct (85 <=? c) eqn:E1; destruct (c <=? 89) eqn:E2; cbn; intros H; inversion H.
  apply N.leb_le in E1. apply N.leb_le in E2. lia.
Qed.

(** value of a list of high digits, least significant first (bijective base 5) *)
Fixpoint lo_val (l : str) : N :=
  match l with
  | [] => 0
  | c :: r => (c - 84) + 5 * lo_val r
  end.

Lemma ms_loop_val l : Forall is_ms l -> forall pw acc, ms_loop l pw acc = Some (acc + 20 * pw * lo_val l).
Proof.
  induction 1 as [|c r Hc Hr IH]; intros pw acc; cbn [ms_loop lo_val].
  - f_equal. lia.
  - rewrite (msdigit_some c Hc). rewrite IH. f_equal. lia.
Qed.

Lemma ms_loop_some l : forall pw acc n, ms_loop l pw acc = Some n -> Forall is_ms l.
Proof.
  induction l as [|c r IH]; intros pw acc n H; [constructor|].
  cbn [ms_loop] in H. destruct (msdigit c) eqn:E; [|discriminate].
  apply msdigit_inv in E. constructor; [tauto|]. eapply IH; eauto.
Qed.

(* ------------------------------------------------------------------------------------------ *)
(** * Encoder: digits, value, inverse *)

Lemma digit_split q : 0 < q -> q = ((q - 1) mod 5 + 1) + 5 * ((q - 1) / 5) /\ (q - 1) mod 5 < 5.
Proof.
  intros H. pose proof (N.div_mod (q - 1) 5 ltac:(lia)) as D.
  pose proof (N.mod_lt (q - 1) 5 ltac:(lia)) as L. dlia.
Qed.

Lemma enc_hi_ms f : forall q, Forall is_ms (enc_hi f q).
Proof.
  induction f as [|f IH]; intros q; cbn [enc_hi]; [constructor|].
  destruct (q =? 0) eqn:E; [constructor|].
  apply N.eqb_neq in E. destruct (digit_split q ltac:(lia)) as [_ L].
  constructor; [unfold is_ms; dlia | apply IH].
Qed.

Lemma pow2_succ f : 2 ^ N.of_nat (S f) = 2 * 2 ^ N.of_nat f.
Proof. rewrite Nat2N.inj_succ. apply N.pow_succ_r'. Qed.

Lemma enc_hi_val f : forall q, q < 2 ^ N.of_nat f -> lo_val (enc_hi f q) = q.
Proof.
  induction f as [|f IH]; intros q H.
  - cbn in H. cbn. lia.
  - cbn [enc_hi]. destruct (q =? 0) eqn:E.
    + apply N.eqb_eq in E. subst. reflexivity.
    + apply N.eqb_neq in E. destruct (digit_split q ltac:(lia)) as [D L].
      cbn [lo_val]. rewrite IH.
      * dlia.
      * rewrite pow2_succ in H. dlia.
Qed.

Lemma enc_hi_inv l : Forall is_ms l -> forall f, lo_val l < 2 ^ N.of_nat f -> enc_hi f (lo_val l) = l.
Proof.
  induction 1 as [|c r Hc Hr IH]; intros f H.
  - destruct f; reflexivity.
  - cbn [lo_val] in *. unfold is_ms in Hc.
    destruct f as [|f]; [cbn in H; lia|].
    cbn [enc_hi].
    assert (E : (c - 84 + 5 * lo_val r =? 0) = false) by (apply N.eqb_neq; lia).
    rewrite E.
    assert (Hq : (c - 84 + 5 * lo_val r - 1) / 5 = lo_val r).
    { symmetry. apply (N.div_unique _ 5 (lo_val r) (c - 85)); lia. }
    assert (Hm : (c - 84 + 5 * lo_val r - 1) mod 5 = c - 85).
    { symmetry. apply (N.mod_unique _ 5 (lo_val r) (c - 85)); lia. }
    rewrite Hq, Hm. f_equal; [lia|].
    apply IH. rewrite pow2_succ in H. lia.
Qed.

(** the fuel never matters once it is large enough *)
Lemma enc_hi_fuel f1 f2 q : q < 2 ^ N.of_nat f1 -> q < 2 ^ N.of_nat f2 -> enc_hi f1 q = enc_hi f2 q.
Proof.
  intros H1 H2.
  rewrite <- (enc_hi_val f1 q H1) at 2.
  rewrite (enc_hi_inv (enc_hi f1 q) (enc_hi_ms f1 q) f2); [reflexivity|].
  rewrite enc_hi_val; assumption.
Qed.

Lemma size_fuel n : n < 2 ^ N.of_nat (N.to_nat (N.size n)).
Proof. rewrite N2Nat.id. apply N.size_gt. Qed.

(** ** every number decodes back to itself *)
Lemma decode_encode : forall n, 1 <= n -> decode_word (encode n) = Some n.
Proof.
  intros n Hn. unfold decode_word, encode.
  rewrite rev_app_distr, rev_involutive. cbn [rev app].
  pose proof (N.div_mod (n - 1) 20 ltac:(lia)) as D.
  pose proof (N.mod_lt (n - 1) 20 ltac:(lia)) as L.
  rewrite lsdigit_some by (unfold is_ls; dlia).
  rewrite ms_loop_val by apply enc_hi_ms.
  rewrite enc_hi_val.
  - f_equal. dlia.
  - pose proof (size_fuel n). dlia.
Qed.

(** ** every valid word is the encoding of the number it decodes to (hence encodings are unique) *)
Definition valid_word (w : str) : Prop := exists hs l, w = hs ++ [l] /\ Forall is_ms hs /\ is_ls l.

Lemma decode_valid_word hs l : Forall is_ms hs -> is_ls l ->
  decode_word (hs ++ [l]) = Some (l - 64 + 20 * lo_val (rev hs)).
Proof.
  intros Hh Hl. unfold decode_word. rewrite rev_app_distr. cbn [rev app].
  rewrite lsdigit_some by assumption.
  rewrite ms_loop_val by (apply Forall_rev; assumption).
  f_equal; lia.
Qed.

Lemma encode_decode : forall w, valid_word w ->
  exists n, decode_word w = Some n /\ 1 <= n /\ encode n = w.
Proof.
  intros w (hs & l & -> & Hh & Hl).
  exists (l - 64 + 20 * lo_val (rev hs)). split; [apply decode_valid_word; assumption|].
  unfold is_ls in Hl. split; [lia|].
  unfold encode.
  set (v := lo_val (rev hs)). set (n := l - 64 + 20 * v).
  assert (Hq : (n - 1) / 20 = v).
  { symmetry. apply (N.div_unique _ 20 v (l - 65)); unfold n; lia. }
  assert (Hm : (n - 1) mod 20 = l - 65).
  { symmetry. apply (N.mod_unique _ 20 v (l - 65)); unfold n; lia. }
  rewrite Hq, Hm. unfold v.
  rewrite enc_hi_inv.
  - rewrite rev_involutive. f_equal. f_equal. lia.
  - apply Forall_rev; assumption.
  - fold v. pose proof (size_fuel n). unfold n in *. lia.
Qed.

(** the decoder accepts nothing but valid words *)
Lemma decode_only_valid : forall w n, decode_word w = Some n -> valid_word w /\ 1 <= n.
Proof.
  intros w n H. unfold decode_word in H.
  destruct (rev w) as [|f r] eqn:E; [discriminate|].
  destruct (lsdigit f) as [a|] eqn:Ef; [|discriminate].
  apply lsdigit_inv in Ef. destruct Ef as [Hf ->].
  pose proof (ms_loop_some _ _ _ _ H) as Hr.
  assert (w = rev r ++ [f]) as Hw.
  { rewrite <- (rev_involutive w), E. reflexivity. }
  split.
  - exists (rev r), f. repeat split; try assumption; try apply Hf. apply Forall_rev; assumption.
  - rewrite ms_loop_val in H by assumption. inversion H. unfold is_ls in Hf. lia.
Qed.

Corollary encoding_unique : forall w1 w2 n,
  decode_word w1 = Some n -> decode_word w2 = Some n -> w1 = w2.
Proof.
  intros w1 w2 n H1 H2.
  destruct (encode_decode w1 (proj1 (decode_only_valid _ _ H1))) as (n1 & D1 & _ & E1).
  destruct (encode_decode w2 (proj1 (decode_only_valid _ _ H2))) as (n2 & D2 & _ & E2).
  congruence.
Qed.

Lemma encode_valid n : valid_word (encode n).
Proof.
  unfold encode. eexists _, _. split; [reflexivity|]. split.
  - apply Forall_rev, enc_hi_ms.
  - pose proof (N.mod_lt (n - 1) 20 ltac:(lia)). unfold is_ls. dlia.
Qed.

(* ------------------------------------------------------------------------------------------ *)
(** * The step loop: Z handling *)

Inductive step := SNum (n : N) | SMark.
Definition step_ok (s : step) : Prop := match s with SNum n => 1 <= n | SMark => True end.
Definition render (s : step) : str := match s with SNum n => encode n | SMark => [90] end.
Definition step_code (s : step) : N := match s with SNum n => n | SMark => 0 end.

Lemma steps_word hs l rest : Forall is_ms hs -> is_ls l -> forall buf,
  steps_loop (hs ++ l :: rest) buf =
  match decode_word (buf ++ hs ++ [l]) with
  | Some n => option_map (cons n) (steps_loop rest [])
  | None => None
  end.
Proof.
  intros Hh Hl. induction Hh as [|c hs Hc Hh IH]; intros buf.
  - cbn [app steps_loop]. unfold is_ls in Hl.
    assert (E : (l =? 90) = false) by (apply N.eqb_neq; lia). rewrite E.
    rewrite lsdigit_some by assumption. reflexivity.
  - cbn [app steps_loop]. unfold is_ms in Hc.
    assert (E : (c =? 90) = false) by (apply N.eqb_neq; lia). rewrite E.
    rewrite lsdigit_none by (unfold is_ls; lia).
    rewrite IH. rewrite <- app_assoc. reflexivity.
Qed.

Lemma steps_render s rest : step_ok s ->
  steps_loop (render s ++ rest) [] = option_map (cons (step_code s)) (steps_loop rest []).
Proof.
  destruct s as [n|]; intros Hs; cbn [render step_code].
  - destruct (encode_valid n) as (hs & l & E & Hh & Hl). rewrite E.
    rewrite <- app_assoc. cbn [app].
    rewrite steps_word by assumption. cbn [app]. rewrite <- E.
    rewrite decode_encode by exact Hs. reflexivity.
  - reflexivity.
Qed.

(** Z marks the preceding step: the loop turns the concatenated encodings back into exactly the
    steps, with 0 at exactly the positions of the Z letters, for every placement of Z *)
Lemma split_steps_spec : forall ss, Forall step_ok ss ->
  split_steps (concat (map render ss)) = Some (map step_code ss).
Proof.
  unfold split_steps. induction 1 as [|s ss Hs Hss IH]; [reflexivity|].
  cbn [map concat]. rewrite steps_render by assumption. rewrite IH. reflexivity.
Qed.

(** conversely, whatever the loop accepts over the alphabet A..Z is a concatenation of encodings and
    Z's followed by an unfinished word of high digits (which the pinned code drops silently) *)
Definition is_letter (c : N) : Prop := 65 <= c <= 90.

Lemma steps_loop_sound : forall s buf r, Forall is_letter s -> Forall is_ms buf ->
  steps_loop s buf = Some r ->
  exists ss tail, buf ++ s = concat (map render ss) ++ tail /\ Forall step_ok ss /\
                  r = map step_code ss /\ Forall is_ms tail.
Proof.
  induction s as [|c s IH]; intros buf r Hs Hb H.
  - cbn in H. inversion H. exists [], buf. rewrite app_nil_r. cbn. auto.
  - inversion Hs as [|? ? Hc Hs']; subst. cbn [steps_loop] in H.
    destruct (c =? 90) eqn:EZ.
    + apply N.eqb_eq in EZ. subst c. destruct buf as [|b buf]; [|discriminate].
      destruct (steps_loop s []) as [r'|] eqn:E; [|discriminate]. inversion H; subst.
      destruct (IH [] r' Hs' (Forall_nil _) E) as (ss & tail & E1 & O1 & R1 & T1).
      exists (SMark :: ss), tail. cbn [app] in *. cbn [map concat render app]. rewrite E1.
      split; [reflexivity|]. split; [constructor; [exact I|assumption]|].
      split; [subst; reflexivity|assumption].
    + apply N.eqb_neq in EZ. destruct (lsdigit c) as [a|] eqn:EL.
      * destruct (decode_word (buf ++ [c])) as [n|] eqn:ED; [|discriminate].
        destruct (steps_loop s []) as [r'|] eqn:E; [|discriminate]. inversion H; subst.
        destruct (IH [] r' Hs' (Forall_nil _) E) as (ss & tail & E1 & O1 & R1 & T1).
        destruct (decode_only_valid _ _ ED) as [V Hn].
        destruct (encode_decode _ V) as (n' & D' & _ & E').
        assert (n' = n) by congruence. subst n'.
        exists (SNum n :: ss), tail. cbn [map concat render]. rewrite E'.
        rewrite <- !app_assoc. cbn [app] in *. rewrite E1.
        split; [reflexivity|]. split; [constructor; [exact Hn|assumption]|].
        split; [subst; reflexivity|assumption].
      * assert (Hm : is_ms c).
        { unfold is_letter in Hc. unfold is_ms.
          assert (~ is_ls c) by (intros X; rewrite (lsdigit_some _ X) in EL; discriminate).
          unfold is_ls in *. lia. }
        destruct (IH (buf ++ [c]) r Hs') as (ss & tail & E1 & O1 & R1 & T1); auto.
        { apply Forall_app; split; auto. }
        exists ss, tail. rewrite <- app_assoc in E1. cbn [app] in E1. auto.
Qed.

(* ------------------------------------------------------------------------------------------ *)
(** * Numbers partition into mandatory hypotheses, listed labels, marked steps *)

Lemma numbers_partition : forall (mand ls : list str) (n : N), 1 <= n ->
  match classify (length mand) (length ls) n with
  | RHyp i => lookup (mand ++ ls) n = nth_error mand i /\ (i < length mand)%nat /\ N.of_nat (S i) = n
  | RLabel i => lookup (mand ++ ls) n = nth_error ls i /\ (i < length ls)%nat
                /\ N.of_nat (S (length mand + i)) = n
  | RSaved j => lookup (mand ++ ls) n = None /\ N.of_nat (S (length mand + length ls + j)) = n
  | RMark => False
  end.
Proof.
  intros mand ls n Hn. unfold classify, lookup.
  assert (E : (n =? 0) = false) by (apply N.eqb_neq; lia). rewrite E.
  set (i := N.to_nat n). assert (Hi : (1 <= i)%nat) by (unfold i; lia).
  assert (Hni : N.of_nat i = n) by (unfold i; lia).
  destruct (Nat.leb i (length mand)) eqn:E1.
  - apply Nat.leb_le in E1. rewrite nth_error_app1 by lia. repeat split; lia.
  - apply Nat.leb_gt in E1. destruct (Nat.leb i (length mand + length ls)) eqn:E2.
    + apply Nat.leb_le in E2. rewrite nth_error_app2 by lia.
      replace (i - 1 - length mand)%nat with (i - length mand - 1)%nat by lia.
      repeat split; lia.
    + apply Nat.leb_gt in E2. split; [|lia].
      apply nth_error_None. rewrite app_length. lia.
Qed.

Lemma classify_zero m k : classify m k 0 = RMark.
Proof. reflexivity. Qed.

(* ------------------------------------------------------------------------------------------ *)
(** * Lexer: any whitespace layout yields the same tokens *)

Definition no_lex_space (t : str) : Prop := Forall (fun c => lex_space c = false) t.
Definition all_lex_space (t : str) : Prop := Forall (fun c => lex_space c = true) t.
Definition tok_ok (t : str) : Prop := t <> [] /\ no_lex_space t.
Definition sep_ok (t : str) : Prop := t <> [] /\ all_lex_space t.

(** [pre] then every token followed by its separator *)
Definition layout (pre : str) (items : list (str * str)) : str :=
  pre ++ concat (map (fun it => fst it ++ snd it) items).

Lemma tok_skip sp rest : all_lex_space sp -> tok_loop (sp ++ rest) [] = tok_loop rest [].
Proof.
  induction 1 as [|c sp Hc Hsp IH]; [reflexivity|].
  cbn [app tok_loop]. rewrite Hc. exact IH.
Qed.

Lemma tok_token t : no_lex_space t -> forall cur sp rest, sep_ok sp -> cur ++ t <> [] ->
  tok_loop (t ++ sp ++ rest) cur = (cur ++ t) :: tok_loop rest [].
Proof.
  induction 1 as [|c t Hc Ht IH]; intros cur sp rest [Hne Hsp] Hcur.
  - rewrite app_nil_r in *. cbn [app].
    destruct sp as [|s sp]; [congruence|]. inversion Hsp as [|? ? Hs Hsp']; subst.
    cbn [app tok_loop]. rewrite Hs.
    destruct cur as [|x cur]; [congruence|]. f_equal. apply tok_skip; assumption.
  - cbn [app tok_loop]. rewrite Hc.
    rewrite IH; [|split; assumption|].
    + rewrite <- app_assoc. reflexivity.
    + destruct cur; discriminate.
Qed.

Lemma tokenize_layout : forall pre items, all_lex_space pre ->
  Forall (fun it => tok_ok (fst it) /\ sep_ok (snd it)) items ->
  tokenize (layout pre items) = map fst items.
Proof.
  intros pre items Hpre H. unfold tokenize, layout. rewrite tok_skip by assumption.
  induction H as [|[t sp] items [[Hne Ht] Hs] Hi IH]; [reflexivity|].
  cbn [map concat fst snd]. rewrite <- app_assoc.
  rewrite tok_token; auto. cbn [app]. f_equal. exact IH.
Qed.

(* ------------------------------------------------------------------------------------------ *)
(** * Label list: character-level [parse_lemmas]/[split_proof] on the re-joined tokens *)

Definition no_space (t : str) : Prop := Forall (fun c => is_space c = false) t.
(** a label as the Metamath grammar allows it, weakened to what the code needs: non-empty, no
    whitespace, no parenthesis *)
Definition label_ok (t : str) : Prop := t <> [] /\ no_space t /\ Forall (fun c => c <> 41) t.

Lemma lex_space_is_space c : lex_space c = true -> is_space c = true.
Proof.
  unfold lex_space. rewrite !orb_true_iff, !N.eqb_eq.
  intros [[[[->| ->]| ->]| ->]| ->]; reflexivity.
Qed.

Lemma no_space_no_lex t : no_space t -> no_lex_space t.
Proof.
  intros H. eapply Forall_impl; [|exact H]. intros c Hc. cbn in Hc.
  destruct (lex_space c) eqn:E; [|reflexivity].
  apply lex_space_is_space in E. congruence.
Qed.

(** total length of labels each followed by one blank *)
Fixpoint jl (ls : list str) : nat :=
  match ls with [] => O | t :: r => (length t + 1 + jl r)%nat end.

Definition spaced (ls : list str) : str := concat (map (fun t => t ++ [32]) ls).

Lemma spaced_length ls : length (spaced ls) = jl ls.
Proof.
  induction ls as [|t r IH]; [reflexivity|].
  unfold spaced in *. cbn [map concat jl]. rewrite !app_length, IH. cbn. lia.
Qed.

Lemma lab_loop_label t : no_space t -> Forall (fun c => c <> 41) t -> forall buf rest k,
  lab_loop (t ++ 32 :: rest) buf k =
  let (ls, l) := lab_loop rest [] (k + length t + 1)%nat in ((buf ++ t) :: ls, l).
Proof.
  induction 1 as [|c t Hc Ht IH]; intros Hp buf rest k.
  - cbn [app lab_loop length]. replace (is_space 32) with true by reflexivity.
    rewrite app_nil_r. replace (k + 0 + 1)%nat with (S k) by lia. reflexivity.
  - inversion Hp as [|? ? Hc41 Hp']; subst. cbn [app lab_loop length]. rewrite Hc.
    assert (E : (c =? 41) = false) by (apply N.eqb_neq; assumption). rewrite E.
    rewrite IH by assumption. replace (S k + length t + 1)%nat with (k + S (length t) + 1)%nat by lia.
    rewrite <- app_assoc. reflexivity.
Qed.

Lemma lab_loop_labels ls : Forall label_ok ls -> forall rest k,
  lab_loop (spaced ls ++ 41 :: rest) [] k = (ls, (k + jl ls)%nat).
Proof.
  induction 1 as [|t ls (Hne & Hs & Hp) Hls IH]; intros rest k.
  - cbn. f_equal. lia.
  - unfold spaced in *. cbn [map concat]. rewrite <- !app_assoc. cbn [app].
    rewrite lab_loop_label by assumption. rewrite IH. cbn [app jl]. f_equal. lia.
Qed.

Lemma join_sp_cons t r : r <> [] -> join_sp (t :: r) = t ++ 32 :: join_sp r.
Proof. destruct r; [congruence|reflexivity]. Qed.

Lemma join_sp_labels ls rest : rest <> [] -> join_sp (ls ++ rest) = spaced ls ++ join_sp rest.
Proof.
  intros Hr. induction ls as [|t ls IH]; [reflexivity|].
  cbn [app]. rewrite join_sp_cons by (destruct ls; [assumption|discriminate]).
  unfold spaced in *. cbn [map concat]. rewrite IH. rewrite <- !app_assoc. reflexivity.
Qed.

Lemma filter_join_sp ws : Forall no_space ws ->
  filter (fun c => negb (is_space c)) (join_sp ws) = concat ws.
Proof.
  assert (F : forall t, no_space t -> filter (fun c => negb (is_space c)) t = t).
  { induction 1 as [|c t Hc Ht IH]; [reflexivity|]. cbn [filter]. rewrite Hc. cbn. f_equal. exact IH. }
  induction 1 as [|t ws Ht Hws IH]; [reflexivity|].
  destruct ws as [|u ws].
  - cbn [join_sp concat]. rewrite app_nil_r. apply F; assumption.
  - rewrite join_sp_cons by discriminate. rewrite filter_app. cbn [filter].
    replace (is_space 32) with true by reflexivity. cbn [negb].
    rewrite IH. cbn [concat]. f_equal. apply F; assumption.
Qed.

Lemma skipn_succ_app {A} (a : list A) x b : skipn (S (length a)) (a ++ x :: b) = b.
Proof. induction a as [|y a IH]; [reflexivity|exact IH]. Qed.

(** the text the parser hands to the converter for tokens "(" labels ")" words *)
Definition compressed_field (ls ws : list str) : str := join_sp ([40] :: ls ++ [41] :: ws).

Lemma labels_parse : forall mand ls ws, Forall label_ok ls -> Forall no_space ws ->
  split_proof mand (compressed_field ls ws) = Some (mand ++ ls, concat ws).
Proof.
  intros mand ls ws Hls Hws. unfold compressed_field.
  rewrite join_sp_cons by (destruct ls; discriminate).
  rewrite join_sp_labels by discriminate.
  set (tailw := match ws with [] => [] | _ :: _ => 32 :: join_sp ws end).
  assert (Hj : join_sp ([41] :: ws) = 41 :: tailw).
  { destruct ws; reflexivity. }
  rewrite Hj. unfold split_proof. cbn [app].
  unfold parse_lemmas. cbn [for_break]. replace (40 =? 40) with true by reflexivity.
  cbn [Nat.add skipn].
  (* the first character after the blank is not whitespace *)
  assert (Hfirst : for_break (fun c => negb (is_space c)) (32 :: spaced ls ++ 41 :: tailw) = Some 1%nat).
  { cbn [for_break]. replace (is_space 32) with true by reflexivity. cbn [negb].
    destruct ls as [|t ls'].
    - cbn. reflexivity.
    - inversion Hls as [|? ? (Hne & Hs & _) _]; subst.
      destruct t as [|c t]; [congruence|]. inversion Hs as [|? ? Hc _]; subst.
      unfold spaced. cbn [map concat app for_break]. rewrite Hc. reflexivity. }
  rewrite Hfirst. cbn [Nat.add skipn].
  destruct (spaced ls ++ 41 :: tailw) as [|x xs] eqn:Ex.
  { destruct (spaced ls); discriminate. }
  rewrite <- Ex. rewrite lab_loop_labels by assumption. cbn [Nat.add].
  f_equal. f_equal.
  replace (S (jl ls + 2)) with (S (S (S (jl ls)))) by lia.
  change (skipn (S (S (S (jl ls)))) (40 :: 32 :: spaced ls ++ 41 :: tailw))
    with (skipn (S (jl ls)) (spaced ls ++ 41 :: tailw)).
  rewrite <- spaced_length, skipn_succ_app.
  unfold tailw. destruct ws as [|u ws']; [reflexivity|].
  cbn [filter]. replace (is_space 32) with true by reflexivity. cbn [negb].
  apply filter_join_sp; assumption.
Qed.

(* ------------------------------------------------------------------------------------------ *)
(** * Mandatory hypotheses: database order, independent of the iteration order of the set *)

Lemma str_eqb_eq a : forall b, str_eqb a b = true <-> a = b.
Proof.
  induction a as [|x a IH]; intros [|y b]; cbn [str_eqb]; try (split; [discriminate|congruence]).
  - tauto.
  - rewrite andb_true_iff, N.eqb_eq, IH. split; [intros [-> ->]; reflexivity|].
    intros H; inversion H; auto.
Qed.

Lemma mem_str_In v l : mem_str v l = true <-> In v l.
Proof.
  unfold mem_str. rewrite existsb_exists. split.
  - intros (x & Hx & E). apply str_eqb_eq in E. subst. assumption.
  - intros H. exists v. split; [assumption|]. apply str_eqb_eq. reflexivity.
Qed.

Lemma mem_str_perm v l l' : Permutation l l' -> mem_str v l = mem_str v l'.
Proof.
  intros P. destruct (mem_str v l) eqn:E1; destruct (mem_str v l') eqn:E2; try reflexivity.
  - apply mem_str_In in E1. apply (Permutation_in _ P) in E1. apply mem_str_In in E1. congruence.
  - apply mem_str_In in E2. apply (Permutation_in _ (Permutation_sym P)) in E2.
    apply mem_str_In in E2. congruence.
Qed.

Lemma mandatory_perm : forall fs pi pi', Permutation pi pi' ->
  mand_db_order fs pi = mand_db_order fs pi'.
Proof.
  intros fs pi pi' P. unfold mand_db_order. f_equal.
  apply filter_ext. intros f. apply mem_str_perm; assumption.
Qed.

(** database order: the result is the sub-list (in database order) of the [$f] labels whose variable
    occurs in the statement *)
Inductive sublist {A} : list A -> list A -> Prop :=
| sub_nil : sublist [] []
| sub_skip x l l' : sublist l l' -> sublist l (x :: l')
| sub_keep x l l' : sublist l l' -> sublist (x :: l) (x :: l').

Lemma mandatory_db_order : forall fs vars,
  sublist (mand_db_order fs vars) (map fst fs) /\
  (forall l v, In (l, v) fs -> In v vars -> In l (mand_db_order fs vars)) /\
  (forall l, In l (mand_db_order fs vars) -> exists v, In (l, v) fs /\ In v vars).
Proof.
  intros fs vars. unfold mand_db_order. repeat split.
  - induction fs as [|f fs IH]; [constructor|]. cbn [filter map].
    destruct (mem_str (snd f) vars); cbn [map]; constructor; assumption.
  - intros l v Hin Hv. apply in_map_iff. exists (l, v). split; [reflexivity|].
    apply filter_In. split; [assumption|]. apply mem_str_In. assumption.
  - intros l H. apply in_map_iff in H. destruct H as ([l' v] & <- & H).
    apply filter_In in H. destruct H as [Hin Hm]. apply mem_str_In in Hm.
    exists v. auto.
Qed.

(* ------------------------------------------------------------------------------------------ *)
(** * Composite: the whole of [_import_proof] *)

(** the letters may be cut into words anywhere: [ws] is any chunking of the concatenated encodings *)
Theorem import_statement_spec :
  forall fs pi pre items ls ws ss,
    all_lex_space pre ->
    Forall (fun it => tok_ok (fst it) /\ sep_ok (snd it)) items ->
    map fst items = [40] :: ls ++ [41] :: ws ->
    Forall label_ok ls -> Forall no_space ws ->
    concat ws = concat (map render ss) -> Forall step_ok ss ->
    import_statement true fs pi (layout pre items) = Some (mand_db_order fs pi ++ ls, map step_code ss).
Proof.
  intros fs pi pre items ls ws ss Hpre Hit Htok Hls Hws Hcat Hss.
  unfold import_statement, proof_field, import_proof, mandatory.
  rewrite tokenize_layout by assumption. rewrite Htok.
  change (join_sp ([40] :: ls ++ [41] :: ws)) with (compressed_field ls ws).
  rewrite labels_parse by assumption.
  rewrite Hcat, split_steps_spec by assumption. reflexivity.
Qed.

Corollary decode_encode_pos : forall p : positive, decode_word (encode (Npos p)) = Some (Npos p).
Proof. intros p. apply decode_encode. lia. Qed.

(* ------------------------------------------------------------------------------------------ *)
(** * The code's decoder (least significant first, explicit powers of 5) computes the same partial
      function as Appendix B's left-to-right decoder — on every string *)

Lemma horner_valid hs l : Forall is_ms hs -> is_ls l -> forall cur,
  horner (hs ++ [l]) cur = Some (20 * (cur * 5 ^ N.of_nat (length hs) + lo_val (rev hs)) + (l - 64)).
Proof.
  intros Hh Hl. induction Hh as [|c hs Hc Hh IH]; intros cur.
  - cbn [app horner length rev lo_val]. rewrite lsdigit_some by assumption. f_equal.
    change (N.of_nat 0) with 0. rewrite N.pow_0_r. lia.
  - cbn [app horner]. unfold is_ms in Hc.
    rewrite lsdigit_none by (unfold is_ls; lia).
    rewrite msdigit_some by exact Hc. rewrite IH. f_equal.
    cbn [length rev]. rewrite Nat2N.inj_succ, N.pow_succ_r'.
    assert (L : forall a x, Forall is_ms a -> lo_val (a ++ [x]) = lo_val a + (x - 84) * 5 ^ N.of_nat (length a)).
    { clear. induction a as [|y a IHa]; intros x Ha.
      - cbn [app lo_val length]. change (N.of_nat 0) with 0. rewrite N.pow_0_r. lia.
      - inversion Ha; subst. cbn [app lo_val length]. rewrite IHa by assumption.
        rewrite Nat2N.inj_succ, N.pow_succ_r'. lia. }
    rewrite L by (apply Forall_rev; assumption). rewrite rev_length. lia.
Qed.

Lemma horner_some_valid : forall w cur n, horner w cur = Some n -> valid_word w.
Proof.
  induction w as [|c r IH]; intros cur n H; [discriminate|].
  cbn [horner] in H. destruct (lsdigit c) as [a|] eqn:El.
  - destruct r; [|discriminate]. apply lsdigit_inv in El. exists [], c. repeat split; try constructor; apply El.
  - destruct (msdigit c) as [d|] eqn:Em; [|discriminate].
    apply msdigit_inv in Em. destruct (IH _ _ H) as (hs & l & -> & Hh & Hl).
    exists (c :: hs), l. repeat split; try assumption; try apply Hl. constructor; [apply Em|assumption].
Qed.

Theorem decode_word_is_appendixB : forall w, decode_word w = appendixB_decode w.
Proof.
  intros w. unfold appendixB_decode.
  destruct (decode_word w) as [n|] eqn:D.
  - destruct (decode_only_valid _ _ D) as [(hs & l & -> & Hh & Hl) _].
    rewrite decode_valid_word in D by assumption. rewrite horner_valid by assumption.
    rewrite <- D. f_equal. lia.
  - destruct (horner w 0) as [n|] eqn:H; [|reflexivity].
    destruct (horner_some_valid _ _ _ H) as (hs & l & -> & Hh & Hl).
    rewrite decode_valid_word in D by assumption. discriminate.
Qed.

(** whatever Appendix B's stream decoder accepts, the code's loop decodes to the same steps *)
Definition is_nil {A} (l : list A) : bool := match l with [] => true | _ => false end.

Lemma spec_stream_steps : forall s buf r, Forall is_ms buf ->
  spec_stream s (lo_val (rev buf)) (negb (is_nil buf)) = Some r -> steps_loop s buf = Some r.
Proof.
  induction s as [|c s IH]; intros buf r Hb H.
  - cbn [spec_stream] in H. destruct buf; cbn in H; [inversion H; reflexivity|discriminate].
  - cbn [spec_stream steps_loop] in *. destruct (c =? 90) eqn:EZ.
    + destruct buf as [|b buf]; cbn [is_nil negb] in H; [|discriminate].
      destruct (spec_stream s 0 false) as [r'|] eqn:E; [|discriminate].
      rewrite (IH [] r' (Forall_nil _) E). exact H.
    + destruct (lsdigit c) as [a|] eqn:EL.
      * apply lsdigit_inv in EL. destruct EL as [Hc ->].
        rewrite decode_valid_word by assumption.
        destruct (spec_stream s 0 false) as [r'|] eqn:E; [|discriminate].
        rewrite (IH [] r' (Forall_nil _) E). cbn [option_map] in *.
        rewrite <- H. f_equal. f_equal. lia.
      * destruct (msdigit c) as [d|] eqn:EM; [|discriminate].
        apply msdigit_inv in EM. destruct EM as [Hc ->].
        apply IH; [apply Forall_app; split; auto|].
        rewrite rev_app_distr. cbn [rev app lo_val].
        replace (negb (is_nil (buf ++ [c]))) with true by (destruct buf; reflexivity).
        rewrite <- H. f_equal. lia.
Qed.

Theorem appendixB_stream_agrees : forall s r, appendixB_stream s = Some r -> split_steps s = Some r.
Proof. intros s r H. apply (spec_stream_steps s [] r (Forall_nil _)). exact H. Qed.

(** Marked steps during replay: the j-th Z is number m + k + j, it denotes the term of the step that
    precedes it, duplicates included. *)
From Coq Require Import NArith List Bool Arith Lia.
From Pi2 Require Import MM15.Codec MM15.Replay.
Import ListNotations.

Section Proofs.
  Context {A : Type} (eqb : A -> A -> bool).

  Definition prev_term (top : option A) (tr : list (ev A)) (i : nat) : option A :=
    match i with O => top | S i' => option_map term_of (nth_error tr i') end.

  Lemma replay_marks_inv : forall m k steps top memory tr,
    replay_marks eqb false m k steps top memory = Some tr ->
    length tr = length steps /\
    (forall i j p, nth_error tr i = Some (ERef j p) -> nth_error (memory ++ saved (firstn i tr)) j = Some p) /\
    (forall i p, nth_error tr i = Some (EZ p) -> prev_term top tr i = Some p) /\
    (forall i n t, nth_error steps i = Some (n, t) ->
       match classify m k n, nth_error tr i with
       | RMark, Some (EZ _) => True
       | RSaved j, Some (ERef j' _) => j = j'
       | (RHyp _ | RLabel _), Some (ELabel t') => t = t'
       | _, _ => False
       end).
  Proof.
    intros m k steps. induction steps as [|[n t] r IH]; intros top memory tr H.
    - cbn in H. inversion H; subst. repeat split; intros; try (destruct i; discriminate).
    - cbn [replay_marks] in H. destruct (classify m k n) as [|h|l|j] eqn:C.
      + destruct top as [p|]; [|discriminate]. cbn [andb] in H.
        destruct (replay_marks eqb false m k r (Some p) (memory ++ [p])) as [tr'|] eqn:E; [|discriminate].
        inversion H; subst. destruct (IH _ _ _ E) as (L & R1 & R2 & R3).
        split; [cbn; lia|]. split; [|split].
        * intros [|i] j q Hn; [discriminate|]. cbn [nth_error firstn saved] in *.
          specialize (R1 i j q Hn). rewrite <- app_assoc in R1. exact R1.
        * intros [|i] q Hn; cbn [nth_error prev_term] in *; [inversion Hn; reflexivity|].
          specialize (R2 i q Hn). destruct i; cbn [prev_term nth_error option_map term_of] in *; exact R2.
        * intros [|i] n' t' Hn; cbn [nth_error] in *; [inversion Hn; subst; rewrite C; exact I|apply R3; exact Hn].
      + destruct (replay_marks eqb false m k r (Some t) memory) as [tr'|] eqn:E; [|discriminate].
        inversion H; subst. destruct (IH _ _ _ E) as (L & R1 & R2 & R3).
        split; [cbn; lia|]. split; [|split].
        * intros [|i] j q Hn; [discriminate|]. cbn [nth_error firstn saved] in *. apply R1; exact Hn.
        * intros [|i] q Hn; cbn [nth_error prev_term] in *; [discriminate|].
          specialize (R2 i q Hn). destruct i; cbn [prev_term nth_error option_map term_of] in *; exact R2.
        * intros [|i] n' t' Hn; cbn [nth_error] in *; [inversion Hn; subst; rewrite C; reflexivity|apply R3; exact Hn].
      + destruct (replay_marks eqb false m k r (Some t) memory) as [tr'|] eqn:E; [|discriminate].
        inversion H; subst. destruct (IH _ _ _ E) as (L & R1 & R2 & R3).
        split; [cbn; lia|]. split; [|split].
        * intros [|i] j q Hn; [discriminate|]. cbn [nth_error firstn saved] in *. apply R1; exact Hn.
        * intros [|i] q Hn; cbn [nth_error prev_term] in *; [discriminate|].
          specialize (R2 i q Hn). destruct i; cbn [prev_term nth_error option_map term_of] in *; exact R2.
        * intros [|i] n' t' Hn; cbn [nth_error] in *; [inversion Hn; subst; rewrite C; reflexivity|apply R3; exact Hn].
      + destruct (nth_error memory j) as [p|] eqn:M; [|discriminate].
        destruct (replay_marks eqb false m k r (Some p) memory) as [tr'|] eqn:E; [|discriminate].
        inversion H; subst. destruct (IH _ _ _ E) as (L & R1 & R2 & R3).
        split; [cbn; lia|]. split; [|split].
        * intros [|i] j' q Hn; cbn [nth_error firstn saved] in *.
          -- inversion Hn; subst. rewrite app_nil_r. exact M.
          -- apply R1; exact Hn.
        * intros [|i] q Hn; cbn [nth_error prev_term] in *; [discriminate|].
          specialize (R2 i q Hn). destruct i; cbn [prev_term nth_error option_map term_of] in *; exact R2.
        * intros [|i] n' t' Hn; cbn [nth_error] in *; [inversion Hn; subst; rewrite C; reflexivity|apply R3; exact Hn].
  Qed.

  (** a reference with number m + k + j + 1 loads the term marked by the (j+1)-th Z (duplicates counted) *)
  Theorem marked_reference_denotes : forall m k steps tr i j p,
    replay_marks eqb false m k steps None [] = Some tr ->
    nth_error tr i = Some (ERef j p) -> nth_error (saved (firstn i tr)) j = Some p.
  Proof. intros m k steps tr i j p H Hn. destruct (replay_marks_inv _ _ _ _ _ _ H) as (_ & R1 & _). exact (R1 i j p Hn). Qed.

  (** Z marks the preceding step: what is saved is the term the previous step left on top *)
  Theorem z_marks_preceding_step : forall m k steps tr i p,
    replay_marks eqb false m k steps None [] = Some tr ->
    nth_error tr i = Some (EZ p) -> exists i', i = S i' /\ option_map term_of (nth_error tr i') = Some p.
  Proof.
    intros m k steps tr i p H Hn. destruct (replay_marks_inv _ _ _ _ _ _ H) as (_ & _ & R2 & _).
    specialize (R2 i p Hn). destruct i as [|i']; [discriminate|]. exists i'. split; [reflexivity|exact R2].
  Qed.

  (** each step is dispatched by [classify]: numbers 1..m+k are hypothesis/label steps, 0 is Z, m+k+j+1 is
      marked step j *)
  Theorem replay_dispatch : forall m k steps tr i n t,
    replay_marks eqb false m k steps None [] = Some tr -> nth_error steps i = Some (n, t) ->
    match classify m k n, nth_error tr i with
    | RMark, Some (EZ _) => True
    | RSaved j, Some (ERef j' _) => j = j'
    | (RHyp _ | RLabel _), Some (ELabel t') => t = t'
    | _, _ => False
    end.
  Proof. intros m k steps tr i n t H Hn. destruct (replay_marks_inv _ _ _ _ _ _ H) as (_ & _ & _ & R3). exact (R3 i n t Hn). Qed.
End Proofs.

(** Concrete witnesses for C15 (strings are lists of code points; the comment gives the text). *)
From Coq Require Import NArith List.
From Pi2 Require Import MM15.Codec.
Import ListNotations.
Open Scope N_scope.

Definition w_ph0 : str := [112; 104; 48].                      (* "ph0" *)
Definition w_ph1 : str := [112; 104; 49].                      (* "ph1" *)
Definition w_ph0_lbl : str := [112; 104; 48; 45; 105; 115; 45; 112; 97; 116; 116; 101; 114; 110].       (* "ph0-is-pattern" *)
Definition w_ph1_lbl : str := [112; 104; 49; 45; 105; 115; 45; 112; 97; 116; 116; 101; 114; 110].       (* "ph1-is-pattern" *)
Definition w_ax : str := [112; 114; 111; 111; 102; 45; 114; 117; 108; 101; 45; 112; 114; 111; 112; 45; 49].         (* "proof-rule-prop-1" *)
(** database: ph0-is-pattern $f #Pattern ph0 $.  ph1-is-pattern $f #Pattern ph1 $. *)
Definition w_db : list (str * str) := [(w_ph0_lbl, w_ph0); (w_ph1_lbl, w_ph1)].
(** proof text of  goal $p |- ( \imp ph1 ( \imp ph0 ph1 ) ) $= ( proof-rule-prop-1 ) BAC $. *)
Definition w_src : str := [32; 40; 32; 112; 114; 111; 111; 102; 45; 114; 117; 108; 101; 45; 112; 114; 111; 112; 45; 49; 32; 41; 32; 32; 66; 65; 67; 32].
(** a layout with a line break inside the letters and Z marks: "(\n a b )\tAAB\nZUA Z" *)
Definition w_src2 : str := [40; 10; 32; 97; 32; 98; 32; 41; 9; 65; 65; 66; 10; 90; 85; 65; 32; 90; 32].

(** C15 model (definitions only; proofs are in CodecProofs.v so that extraction survives a broken proof).

    Code modelled: generation/src/proof_generation/metamath/converter/converter.py
      [_import_proof] with its local functions [parse_lemmas], [split_proof], [convert_to_number]
      and the main loop (Z handling); metamath/parser.py [provable_stmt] (the proof tokens are
      re-joined with single blanks) and the lexer's notion of a token (lark: TOKEN = maximal run of
      characters other than blank, \n, \t, \f, \r and dollar; whitespace ignored).

    Characters are code points ([N]); a string is a [list N].  A Python exception (KeyError,
    AssertionError, ValueError, UnboundLocalError) is [None]. *)
From Coq Require Import NArith List Bool.
Import ListNotations.
Open Scope N_scope.

Definition str := list N.

(** Python [str.isspace] on one code point (the whole Unicode range). *)
Definition is_space (c : N) : bool :=
  ((9 <=? c) && (c <=? 13)) || ((28 <=? c) && (c <=? 32)) || (c =? 133) || (c =? 160)
  || (c =? 5760) || ((8192 <=? c) && (c <=? 8202)) || (c =? 8232) || (c =? 8233)
  || (c =? 8239) || (c =? 8287) || (c =? 12288).

(** whitespace of the lark grammar: [ \n\t\f\r] *)
Definition lex_space (c : N) : bool :=
  (c =? 32) || (c =? 10) || (c =? 9) || (c =? 12) || (c =? 13).

(* ------------------------------------------------------------------------------------------ *)
(** * Letter codec (Metamath book, Appendix B) *)

(** [lsdigit] dictionary: 'A'..'T' -> 1..20 ; [msdigit]: 'U'..'Y' -> 1..5 *)
Definition lsdigit (c : N) : option N := if (65 <=? c) && (c <=? 84) then Some (c - 64) else None.
Definition msdigit (c : N) : option N := if (85 <=? c) && (c <=? 89) then Some (c - 84) else None.

(** the loop [for letter in encoding: n += msdigit[letter] * pow(5, exp) * 20; exp += 1]
    ([pw] is [5^exp], [acc] is [n]) *)
Fixpoint ms_loop (l : str) (pw acc : N) : option N :=
  match l with
  | [] => Some acc
  | c :: r => match msdigit c with
              | Some d => ms_loop r (5 * pw) (acc + d * pw * 20)
              | None => None
              end
  end.

(** [convert_to_number] as written: reverse, first letter through [lsdigit], the rest through
    [msdigit] with growing powers of 5 *)
Definition decode_word (w : str) : option N :=
  match rev w with
  | [] => None
  | f :: r => match lsdigit f with
              | Some a => ms_loop r 1 a
              | None => None
              end
  end.

(** Appendix B encoder.  High digits are bijective base 5 (U..Y = 1..5), produced least
    significant first by [enc_hi]; the fuel is the binary size of the number, proved sufficient
    (CodecProofs.decode_encode holds for every n, which an exhausted fuel would contradict). *)
Fixpoint enc_hi (fuel : nat) (q : N) : str :=
  match fuel with
  | O => []
  | S f => if q =? 0 then [] else (85 + (q - 1) mod 5) :: enc_hi f ((q - 1) / 5)
  end.

Definition encode (n : N) : str :=
  rev (enc_hi (N.to_nat (N.size n)) ((n - 1) / 20)) ++ [65 + (n - 1) mod 20].

(* ------------------------------------------------------------------------------------------ *)
(** * Main loop of [_import_proof]: letters -> step numbers, Z -> 0 *)

Fixpoint steps_loop (s buf : str) : option (list N) :=
  match s with
  | [] => Some []                                  (* a trailing partial word is silently dropped *)
  | c :: r =>
      if c =? 90 then
        match buf with
        | [] => option_map (cons 0) (steps_loop r [])
        | _ :: _ => None                            (* assert buffer == '' *)
        end
      else
        let buf' := buf ++ [c] in
        match lsdigit c with
        | Some _ => match decode_word buf' with
                    | Some n => option_map (cons n) (steps_loop r [])
                    | None => None
                    end
        | None => steps_loop r buf'
        end
  end.

Definition split_steps (s : str) : option (list N) := steps_loop s [].

(* ------------------------------------------------------------------------------------------ *)
(** * [parse_lemmas] / [split_proof] at character level *)

(** Python [for i, c in enumerate(s): if p c: break] : the value of [i] afterwards.
    [None] = loop variable never bound (empty [s]); otherwise the break position or the last index. *)
Fixpoint for_break (p : N -> bool) (s : str) : option nat :=
  match s with
  | [] => None
  | c :: r => if p c then Some O
              else match r with
                   | [] => Some O
                   | _ :: _ => option_map S (for_break p r)
                   end
  end.

(** third loop of [parse_lemmas]: labels registered at every whitespace character, stop at ')' .
    Returns the registered labels and the final value of [_l] ([k] = current index). *)
Fixpoint lab_loop (s buf : str) (k : nat) : list str * nat :=
  match s with
  | [] => ([], pred k)
  | c :: r =>
      if is_space c then
        let (ls, l) := lab_loop r [] (S k) in (buf :: ls, l)
      else if c =? 41 then ([], k)
      else lab_loop r (buf ++ [c]) (S k)
  end.

Definition parse_lemmas (proof : str) : option (list str * nat) :=
  match for_break (fun c => c =? 40) proof with
  | None => None
  | Some i =>
      match for_break (fun c => negb (is_space c)) (skipn (i + 1) proof) with
      | None => None
      | Some j =>
          match skipn (i + j + 1) proof with
          | [] => None                                       (* _l unbound *)
          | s => let (ls, l) := lab_loop s [] O in Some (ls, (i + j + l + 2)%nat)
          end
      end
  end.

(** [split_proof]: [mand] are the labels already in the table (mandatory hypotheses); result is the
    complete label table (key = position + 1) and the letters with all whitespace removed *)
Definition split_proof (mand : list str) (proof : str) : option (list str * str) :=
  match proof with
  | [] => None                                               (* assert proof *)
  | _ :: _ =>
      match parse_lemmas proof with
      | None => None
      | Some (ls, off) => Some (mand ++ ls, filter (fun c => negb (is_space c)) (skipn off proof))
      end
  end.

Definition import_proof (mand : list str) (proof : str) : option (list str * list N) :=
  match split_proof mand proof with
  | None => None
  | Some (tbl, applied) =>
      match split_steps applied with
      | None => None
      | Some st => Some (tbl, st)
      end
  end.

(* ------------------------------------------------------------------------------------------ *)
(** * Lexer and the parser's re-joining of the proof tokens *)

Fixpoint tok_loop (s cur : str) : list str :=
  match s with
  | [] => match cur with [] => [] | _ :: _ => [cur] end
  | c :: r =>
      if lex_space c then
        match cur with
        | [] => tok_loop r []
        | _ :: _ => cur :: tok_loop r []
        end
      else tok_loop r (cur ++ [c])
  end.

Definition tokenize (s : str) : list str := tok_loop s [].

(** [' '.join(tokens)] *)
Fixpoint join_sp (ts : list str) : str :=
  match ts with
  | [] => []
  | [t] => t
  | t :: r => t ++ 32 :: join_sp r
  end.

(** what [ProvableStatement.proof] holds for the source text between [$=] and [$.] *)
Definition proof_field (src : str) : str := join_sp (tokenize src).

(* ------------------------------------------------------------------------------------------ *)
(** * Mandatory hypotheses *)

Fixpoint str_eqb (a b : str) : bool :=
  match a, b with
  | [], [] => true
  | x :: a', y :: b' => (x =? y) && str_eqb a' b'
  | _, _ => false
  end.

Definition mem_str (v : str) (l : list str) : bool := existsb (str_eqb v) l.

(** repaired code: walk the database's [$f] statements [(label, variable)] in order, keep those whose
    variable is in the statement's variable set [vars] (only membership of [vars] is used) *)
Definition mand_db_order (fs : list (str * str)) (vars : list str) : list str :=
  map fst (filter (fun f => mem_str (snd f) vars) fs).

(** pinned code before the repair: iterate the set itself (iteration order [pi] is whatever the
    hash seed makes it) and guess the label as [<var>-is-pattern] *)
Definition suffix_is_pattern : str := [45; 105; 115; 45; 112; 97; 116; 116; 101; 114; 110].
Definition mand_set_order (pi : list str) : list str := map (fun v => v ++ suffix_is_pattern) pi.

(** guard: [true] = database order (sound configuration), [false] = pinned behaviour *)
Definition mandatory (g_db_order : bool) (fs : list (str * str)) (pi : list str) : list str :=
  if g_db_order then mand_db_order fs pi else mand_set_order pi.

(** the whole of [_import_proof] for a statement with variable set iterated as [pi] *)
Definition import_statement (g_db_order : bool) (fs : list (str * str)) (pi : list str) (src : str)
  : option (list str * list N) :=
  import_proof (mandatory g_db_order fs pi) (proof_field src).

(* ------------------------------------------------------------------------------------------ *)
(** * What a decoded number refers to (Appendix B): mandatory hypothesis, listed label, or the
      j-th marked step.  [m] = number of mandatory hypotheses, [k] = number of listed labels.
      This is also the dispatch at the head of translate.py [exec_proof]
      ([lemma not in labels] / [lemma == 0] / [mm_memory[lemma - len(labels) - 1]]). *)
Inductive ref := RMark | RHyp (i : nat) | RLabel (i : nat) | RSaved (j : nat).

Definition classify (m k : nat) (n : N) : ref :=
  if n =? 0 then RMark
  else let i := N.to_nat n in
       if Nat.leb i m then RHyp (i - 1)
       else if Nat.leb i (m + k) then RLabel (i - m - 1)
       else RSaved (i - m - k - 1).

(** table lookup [labels[n]] (keys start at 1) *)
Definition lookup (tbl : list str) (n : N) : option str :=
  if n =? 0 then None else nth_error tbl (N.to_nat n - 1).

(* ------------------------------------------------------------------------------------------ *)
(** * Appendix B's own decoder (as in reference verifiers): scan left to right, high digits
      accumulate in base 5 ([cur := 5*cur + d]), the final A..T letter closes the number
      ([20*cur + a]).  Specification side only; the code under test does not run this. *)
Fixpoint horner (w : str) (cur : N) : option N :=
  match w with
  | [] => None
  | c :: r =>
      match lsdigit c with
      | Some a => match r with [] => Some (20 * cur + a) | _ :: _ => None end
      | None => match msdigit c with
                | Some d => horner r (5 * cur + d)
                | None => None
                end
      end
  end.
Definition appendixB_decode (w : str) : option N := horner w 0.

(** Appendix B's decoder for the whole letter stream (one pass, as reference verifiers do it):
    Z is only legal between numbers, an unfinished number at the end is an error.  0 stands for Z. *)
Fixpoint spec_stream (s : str) (cur : N) (mid : bool) : option (list N) :=
  match s with
  | [] => if mid then None else Some []
  | c :: r =>
      if c =? 90 then (if mid then None else option_map (cons 0) (spec_stream r 0 false))
      else match lsdigit c with
           | Some a => option_map (cons (20 * cur + a)) (spec_stream r 0 false)
           | None => match msdigit c with
                     | Some d => spec_stream r (5 * cur + d) true
                     | None => None
                     end
           end
  end.
Definition appendixB_stream (s : str) : option (list N) := spec_stream s 0 false.

(** C15 model of how translate.py [exec_proof] resolves marked-step numbers during replay
    (translate.py: the head of the loop over [applied_lemmas]: [lemma not in labels] / [lemma == 0] /
    [mm_memory[lemma - len(labels) - 1]]).  Definitions only; proofs in ReplayProofs.v.

    Only the bookkeeping of marks is modelled.  What a hypothesis/label step does to the stack is C16's
    subject and is abstracted: each such step carries the term [t] it leaves on top of the stack.
    [m] mandatory hypotheses, [k] listed labels; [top] is the term on top of the stack ([None] = empty
    stack: [stack()[-1]] raises), [memory] is [mm_memory].
    Guard [dedup]: [false] = the code as pinned ([mm_memory.append(pat)] at every Z);
                   [true]  = the variant that skips a Z whose term is already in [mm_memory]. *)
From Coq Require Import NArith List Bool Arith.
From Pi2 Require Import MM15.Codec.
Import ListNotations.

Inductive ev (A : Type) :=
| EZ (p : A)                  (* a Z step: [p] is saved as the next marked step *)
| ELabel (t : A)              (* a hypothesis / label step leaving [t] on top *)
| ERef (j : nat) (p : A).     (* reference to the (j+1)-th marked step: [p] is loaded *)
Arguments EZ {A}. Arguments ELabel {A}. Arguments ERef {A}.

Definition term_of {A} (e : ev A) : A := match e with EZ p => p | ELabel t => t | ERef _ p => p end.

Section Replay.
  Context {A : Type} (eqb : A -> A -> bool).

  Fixpoint replay_marks (dedup : bool) (m k : nat) (steps : list (N * A)) (top : option A) (memory : list A)
    : option (list (ev A)) :=
    match steps with
    | [] => Some []
    | (n, t) :: r =>
        match classify m k n with
        | RMark =>
            match top with
            | None => None
            | Some p =>
                let memory' := if dedup && existsb (eqb p) memory then memory else memory ++ [p] in
                option_map (cons (EZ p)) (replay_marks dedup m k r top memory')
            end
        | RHyp _ | RLabel _ => option_map (cons (ELabel t)) (replay_marks dedup m k r (Some t) memory)
        | RSaved j =>
            match nth_error memory j with
            | None => None                                                (* IndexError *)
            | Some p => option_map (cons (ERef j p)) (replay_marks dedup m k r (Some p) memory)
            end
        end
    end.
End Replay.

(** the terms marked so far, in order, duplicates kept: the j-th Z is marked step j *)
Fixpoint saved {A} (tr : list (ev A)) : list A :=
  match tr with
  | [] => []
  | EZ p :: r => p :: saved r
  | _ :: r => saved r
  end.

Definition replay_marks_N := @replay_marks N N.eqb.

(** Fixed vocabulary used by the GENERATED file coq/Gen/MMDecode.v (translators/mmdecode.py): Python statement
    forms -> Gallina.  Integers are [N]; a string is [list N] (code points); raising = [None]. *)
From Coq Require Import NArith List Bool.
From Pi2 Require Import MM15.Codec.
Import ListNotations.
Open Scope N_scope.

Inductive ctrl := CNext | CBreak.

Definition bind {A B} (x : option A) (f : A -> option B) : option B :=
  match x with Some a => f a | None => None end.

(** [for x in xs: body]; the body returns [None] (an exception), or how the iteration ended and the new
    values of the variables it assigns *)
Fixpoint py_for {X S} (body : X -> S -> option (ctrl * S)) (xs : list X) (s : S) : option S :=
  match xs with
  | [] => Some s
  | x :: r => match body x s with
              | None => None
              | Some (CBreak, s') => Some s'
              | Some (CNext, s') => py_for body r s'
              end
  end.

(** [for i, x in enumerate(xs): body] *)
Fixpoint py_for_enum {X S} (body : N -> X -> S -> option (ctrl * S)) (i : N) (xs : list X) (s : S) : option S :=
  match xs with
  | [] => Some s
  | x :: r => match body i x s with
              | None => None
              | Some (CBreak, s') => Some s'
              | Some (CNext, s') => py_for_enum body (i + 1) r s'
              end
  end.

(** insertion-ordered dict with integer keys *)
Fixpoint dict_get {V} (d : list (N * V)) (k : N) : option V :=
  match d with
  | [] => None
  | (k', v) :: r => if k' =? k then Some v else dict_get r k
  end.
Definition dict_has {V} (d : list (N * V)) (k : N) : bool :=
  match dict_get d k with Some _ => true | None => false end.
Fixpoint dict_set {V} (d : list (N * V)) (k : N) (v : V) : list (N * V) :=
  match d with
  | [] => [(k, v)]
  | (k', v') :: r => if k' =? k then (k, v) :: r else (k', v') :: dict_set r k v
  end.

Definition is_nil {A} (l : list A) : bool := match l with [] => true | _ :: _ => false end.
Definition py_len {A} (l : list A) : N := N.of_nat (length l).
Definition py_slice_from {A} (l : list A) (i : N) : list A := skipn (N.to_nat i) l.
Definition py_index {A} (l : list A) (i : N) : option A := nth_error l (N.to_nat i).
Definition py_last {A} (l : list A) : option A := match rev l with [] => None | x :: _ => Some x end.
Definition list_has {A} (eqb : A -> A -> bool) (l : list A) (x : A) : bool := existsb (eqb x) l.

(** statements of the parsed database as far as [split_proof] looks at them *)
Inductive gstmt := GFloating (label var : str) | GOther.
Definition gs_is_floating (s : gstmt) : bool := match s with GFloating _ _ => true | GOther => false end.
Definition gs_label (s : gstmt) : str := match s with GFloating l _ => l | GOther => [] end.
Definition gs_metavariable (s : gstmt) : str := match s with GFloating _ v => v | GOther => [] end.

(** [(elt for x in xs if cond)] / [[elt for x in xs if cond]]: the loop that appends; [f x = None] when the condition fails *)
Definition py_genexp {X Y} (f : X -> option Y) (xs : list X) : list Y :=
  flat_map (fun x => match f x with Some y => [y] | None => [] end) xs.

(** [dict(enumerate(xs, start=b))] *)
Fixpoint py_dict_enum {V} (b : N) (l : list V) : list (N * V) :=
  match l with
  | [] => []
  | x :: r => (b, x) :: py_dict_enum (b + 1) r
  end.

(** [s.find(c)]: index of the first occurrence; [None] stands for Python's -1 *)
Fixpoint py_find_from (c : N) (s : list N) (i : N) : option N :=
  match s with
  | [] => None
  | x :: r => if x =? c then Some i else py_find_from c r (i + 1)
  end.
Definition py_find (c : N) (s : list N) : option N := py_find_from c s 0.
Definition is_none {A} (o : option A) : bool := match o with None => true | Some _ => false end.

(** Proofs about the conversion scope and [_convert_pattern] (model: Kore.v). *)
From Coq Require Import String Ascii NArith List Bool Lia Arith.
From Pi2 Require Import K.Kore.
Import ListNotations.
Open Scope string_scope.
Open Scope list_scope.
Arguments N.add : simpl never.
Arguments N.of_nat : simpl never.

(** * Induction principle for the nested type [kore] *)
Section KoreInd.
  Variable P : kore -> Prop.
  Hypothesis HE : forall x s, P (KEVar x s).
  Hypothesis HN : forall op ss args, Forall P args -> P (KNode op ss args).
  Fixpoint kore_ind' (k:kore) : P k :=
    match k with
    | KEVar x s => HE x s
    | KNode op ss args =>
        HN op ss args ((fix go (l:list kore) : Forall P l :=
                          match l with
                          | [] => Forall_nil P
                          | a :: t => Forall_cons a (kore_ind' a) (go t)
                          end) args)
    end.
End KoreInd.

(** * [index_of] / [resolve] *)
Lemma index_of_app_some : forall x l m i, index_of x l = Some i -> index_of x (l ++ m) = Some i.
Proof.
  induction l as [|y l IH]; intros m i H; simpl in *; [discriminate|].
  destruct (String.eqb x y); [exact H|].
  destruct (index_of x l) as [j|] eqn:E; simpl in H; [|discriminate].
  rewrite (IH m j eq_refl). exact H.
Qed.

Lemma index_of_nth : forall x l i, index_of x l = Some i -> nth_error l i = Some x.
Proof.
  induction l as [|y l IH]; intros i H; simpl in *; [discriminate|].
  destruct (String.eqb x y) eqn:E.
  - inversion H; subst. apply String.eqb_eq in E. subst. reflexivity.
  - destruct (index_of x l) as [j|]; simpl in H; [|discriminate]. inversion H; subst. simpl. auto.
Qed.

Lemma index_of_lt : forall x l i, index_of x l = Some i -> i < List.length l.
Proof.
  intros x l i H. apply index_of_nth in H. apply nth_error_Some. congruence.
Qed.

(** the assignment name -> position is injective *)
Lemma index_of_inj : forall x y l i, index_of x l = Some i -> index_of y l = Some i -> x = y.
Proof.
  intros x y l i H1 H2. apply index_of_nth in H1. apply index_of_nth in H2. congruence.
Qed.

Lemma index_of_new : forall x l, index_of x l = None -> index_of x (l ++ [x]) = Some (List.length l).
Proof.
  induction l as [|y l IH]; intros H; simpl in *.
  - rewrite String.eqb_refl. reflexivity.
  - destruct (String.eqb x y); [discriminate|].
    destruct (index_of x l); simpl in H; [discriminate|]. rewrite IH; auto.
Qed.

Lemma index_of_In : forall x l i, index_of x l = Some i -> In x l.
Proof. intros x l i H. apply index_of_nth in H. eapply nth_error_In; eauto. Qed.

Lemma In_index_of : forall x l, In x l -> exists i, index_of x l = Some i.
Proof.
  induction l as [|y l IH]; intros H; simpl in *; [contradiction|].
  destruct (String.eqb x y) eqn:E; [eauto|].
  destruct H as [H|H]; [subst; rewrite String.eqb_refl in E; discriminate|].
  destruct (IH H) as [i Hi]. rewrite Hi. simpl. eauto.
Qed.

Lemma resolve_spec : forall x l l' i,
  resolve x l = (l', i) -> (exists m, l' = l ++ m) /\ index_of x l' = Some i.
Proof.
  unfold resolve. intros x l l' i H. destruct (index_of x l) as [j|] eqn:E; inversion H; subst.
  - split; [exists []; rewrite app_nil_r; reflexivity | exact E].
  - split; [eauto | apply index_of_new; exact E].
Qed.

Lemma resolve_known : forall x l i, index_of x l = Some i -> resolve x l = (l, i).
Proof. unfold resolve. intros x l i H. rewrite H. reflexivity. Qed.

(** * Scopes grow *)
Definition extends (sc sc':scope) : Prop :=
  (exists m, sc_meta sc' = sc_meta sc ++ m) /\ (exists s, sc_sort sc' = sc_sort sc ++ s).

Lemma extends_refl : forall sc, extends sc sc.
Proof. intros sc. split; exists []; rewrite app_nil_r; reflexivity. Qed.

Lemma extends_trans : forall a b c, extends a b -> extends b c -> extends a c.
Proof.
  intros a b c [[m1 H1] [s1 H2]] [[m2 H3] [s2 H4]]. split.
  - exists (m1 ++ m2). rewrite H3, H1, app_assoc. reflexivity.
  - exists (s1 ++ s2). rewrite H4, H2, app_assoc. reflexivity.
Qed.

Lemma meta_id_extends : forall sc sc' x i, extends sc sc' -> meta_id sc x = Some i -> meta_id sc' x = Some i.
Proof.
  unfold meta_id. intros sc sc' x i [[m Hm] _] H. rewrite Hm.
  destruct (index_of x (sc_meta sc)) as [j|] eqn:E; simpl in H; [|discriminate].
  rewrite (index_of_app_some _ _ m _ E). exact H.
Qed.

Lemma sortvar_id_extends : forall sc sc' a i, extends sc sc' -> sortvar_id sc a = Some i -> sortvar_id sc' a = Some i.
Proof.
  unfold sortvar_id. intros sc sc' x i [_ [m Hm]] H. rewrite Hm.
  destruct (index_of x (sc_sort sc)) as [j|] eqn:E; simpl in H; [|discriminate].
  rewrite (index_of_app_some _ _ m _ E). exact H.
Qed.

Lemma meta_id_inj : forall sc x y i, meta_id sc x = Some i -> meta_id sc y = Some i -> x = y.
Proof.
  unfold meta_id. intros sc x y i H1 H2.
  destruct (index_of x (sc_meta sc)) as [a|] eqn:E1; simpl in H1; [|discriminate].
  destruct (index_of y (sc_meta sc)) as [b|] eqn:E2; simpl in H2; [|discriminate].
  inversion H1; inversion H2; subst. apply Nat2N.inj in H3. subst. eapply index_of_inj; eauto.
Qed.

Lemma sortvar_id_inj : forall sc x y i, sortvar_id sc x = Some i -> sortvar_id sc y = Some i -> x = y.
Proof.
  unfold sortvar_id, SORT_PARAM_METAVAR. intros sc x y i H1 H2.
  destruct (index_of x (sc_sort sc)) as [a|] eqn:E1; simpl in H1; [|discriminate].
  destruct (index_of y (sc_sort sc)) as [b|] eqn:E2; simpl in H2; [|discriminate].
  inversion H1; inversion H2; subst. assert (a = b) by lia. subst. eapply index_of_inj; eauto.
Qed.

Lemma meta_id_lt : forall sc x i, meta_id sc x = Some i -> (i < N.of_nat (List.length (sc_meta sc)))%N.
Proof.
  unfold meta_id. intros sc x i H.
  destruct (index_of x (sc_meta sc)) as [a|] eqn:E; simpl in H; [|discriminate].
  inversion H; subst. apply index_of_lt in E. lia.
Qed.

(** element-variable ids and sort-variable ids are disjoint as long as a scope holds at most
    100 element variables (SORT_PARAM_METAVAR) *)
Lemma meta_sort_disjoint : forall sc x a i j,
  List.length (sc_meta sc) <= 100 -> meta_id sc x = Some i -> sortvar_id sc a = Some j -> i <> j.
Proof.
  intros sc x a i j Hlen H1 H2. apply meta_id_lt in H1.
  unfold sortvar_id, SORT_PARAM_METAVAR in H2.
  destruct (index_of a (sc_sort sc)); simpl in H2; [|discriminate]. inversion H2; subst. lia.
Qed.

(** * The inner fixpoints are the list functions *)
Lemma convert_list_fix : forall S l sc,
  (fix go (sc:scope) (l:list kore) {struct l} : option (scope * list kpat) :=
     match l with
     | [] => Some (sc, [])
     | a :: t => do (sc', pa) <- convert S sc a; do (sc'', pt) <- go sc' t; Some (sc'', pa :: pt)
     end) sc l = convert_list S sc l.
Proof.
  induction l as [|a t IH]; intros sc0; [reflexivity|].
  cbn [convert_list]. destruct (convert S sc0 a) as [[sc' pa]|]; [|reflexivity]. rewrite IH. reflexivity.
Qed.

Lemma convert_node : forall S sc op ss args,
  convert S sc (KNode op ss args) =
  (do (sc1, pss) <- convert_sorts S sc ss;
   do (sc2, pas) <- convert_list S sc1 args;
   do p <- build S op pss pas; Some (sc2, p)).
Proof.
  intros S sc op ss args. cbn [convert]. destruct (convert_sorts S sc ss) as [[sc1 pss]|]; [|reflexivity].
  rewrite convert_list_fix. reflexivity.
Qed.

Lemma pconvert_list_fix : forall S sc l,
  (fix go (l:list kore) : option (list kpat) :=
     match l with
     | [] => Some []
     | a :: t => do pa <- pconvert S sc a; do pt <- go t; Some (pa :: pt)
     end) l = map_opt (pconvert S sc) l.
Proof.
  induction l as [|a t IH]; [reflexivity|].
  cbn [map_opt]. destruct (pconvert S sc a); [|reflexivity]. rewrite IH. reflexivity.
Qed.

Lemma pconvert_node : forall S sc op ss args,
  pconvert S sc (KNode op ss args) =
  (do pss <- map_opt (pconvert_sort S sc) ss;
   do pas <- map_opt (pconvert S sc) args; build S op pss pas).
Proof.
  intros S sc op ss args. cbn [pconvert]. destruct (map_opt (pconvert_sort S sc) ss) as [pss|]; [|reflexivity].
  rewrite pconvert_list_fix. reflexivity.
Qed.

Lemma scope_eta : forall sc, mkScope (sc_meta sc) (sc_sort sc) = sc.
Proof. destruct sc; reflexivity. Qed.

(** * S: the pure conversion is stable when the scope grows *)
Lemma pconvert_sort_extends : forall S sc sc' s p,
  extends sc sc' -> pconvert_sort S sc s = Some p -> pconvert_sort S sc' s = Some p.
Proof.
  intros S sc sc' [a|n] p He H; simpl in *; [|exact H].
  destruct (sortvar_id sc a) as [i|] eqn:E; simpl in H; [|discriminate].
  rewrite (sortvar_id_extends _ _ _ _ He E). exact H.
Qed.

Lemma map_opt_impl : forall {A B} (f g:A -> option B) l r,
  Forall (fun a => forall b, f a = Some b -> g a = Some b) l -> map_opt f l = Some r -> map_opt g l = Some r.
Proof.
  induction l as [|a t IH]; intros r HF H; simpl in *; [exact H|].
  inversion HF as [|? ? Ha Ht]; subst.
  destruct (f a) as [b|] eqn:E; [|discriminate]. rewrite (Ha _ eq_refl).
  destruct (map_opt f t) as [bs|] eqn:E2; [|discriminate]. rewrite (IH _ Ht eq_refl). exact H.
Qed.

Lemma pconvert_extends : forall S sc sc' k p,
  extends sc sc' -> pconvert S sc k = Some p -> pconvert S sc' k = Some p.
Proof.
  intros S sc sc' k. induction k as [x s|op ss args IH] using kore_ind'; intros p He H.
  - simpl in *. destruct (meta_id sc x) as [i|] eqn:E; simpl in H; [|discriminate].
    rewrite (meta_id_extends _ _ _ _ He E). exact H.
  - rewrite pconvert_node in *.
    destruct (map_opt (pconvert_sort S sc) ss) as [pss|] eqn:E1; [|discriminate].
    rewrite (map_opt_impl (pconvert_sort S sc) (pconvert_sort S sc') ss pss); auto.
    2:{ apply Forall_forall. intros s _ b Hb. eapply pconvert_sort_extends; eauto. }
    destruct (map_opt (pconvert S sc) args) as [pas|] eqn:E2; [|discriminate].
    rewrite (map_opt_impl (pconvert S sc) (pconvert S sc') args pas); auto.
    eapply Forall_impl; [|exact IH]. intros a Ha b Hb. apply Ha; auto.
Qed.

(** * A: the stateful conversion is the pure conversion under the FINAL scope *)
Lemma convert_sort_spec : forall S sc s sc' p,
  convert_sort S sc s = Some (sc', p) -> extends sc sc' /\ pconvert_sort S sc' s = Some p.
Proof.
  intros S sc [a|n] sc' p H; simpl in *.
  - destruct (resolve a (sc_sort sc)) as [l j] eqn:E. inversion H; subst.
    apply resolve_spec in E. destruct E as [[m Hm] Hi]. split.
    + split; simpl; [exists []; rewrite app_nil_r; reflexivity | exists m; exact Hm].
    + unfold sortvar_id. simpl. rewrite Hi. reflexivity.
  - destruct (has_sort S n); inversion H; subst. split; [apply extends_refl | reflexivity].
Qed.

Lemma convert_sorts_spec : forall S ss sc sc' ps,
  convert_sorts S sc ss = Some (sc', ps) -> extends sc sc' /\ map_opt (pconvert_sort S sc') ss = Some ps.
Proof.
  induction ss as [|s t IH]; intros sc sc' ps H; simpl in *.
  - inversion H; subst. split; [apply extends_refl | reflexivity].
  - destruct (convert_sort S sc s) as [[sc1 p]|] eqn:E1; [|discriminate].
    destruct (convert_sorts S sc1 t) as [[sc2 ps']|] eqn:E2; [|discriminate]. inversion H; subst.
    apply convert_sort_spec in E1. destruct E1 as [X1 Y1].
    apply IH in E2. destruct E2 as [X2 Y2]. split; [eapply extends_trans; eauto|].
    rewrite (pconvert_sort_extends _ _ _ _ _ X2 Y1), Y2. reflexivity.
Qed.

Definition convert_ok (S:sig) (k:kore) : Prop :=
  forall sc sc' p, convert S sc k = Some (sc', p) -> extends sc sc' /\ pconvert S sc' k = Some p.

Lemma convert_list_spec : forall S l, Forall (convert_ok S) l -> forall sc sc' ps,
  convert_list S sc l = Some (sc', ps) -> extends sc sc' /\ map_opt (pconvert S sc') l = Some ps.
Proof.
  induction l as [|a t IH]; intros HF sc sc' ps H; simpl in *.
  - inversion H; subst. split; [apply extends_refl | reflexivity].
  - inversion HF as [|? ? Ha Ht]; subst.
    destruct (convert S sc a) as [[sc1 pa]|] eqn:E1; [|discriminate].
    destruct (convert_list S sc1 t) as [[sc2 pt]|] eqn:E2; [|discriminate]. inversion H; subst.
    apply Ha in E1. destruct E1 as [X1 Y1]. destruct (IH Ht _ _ _ E2) as [X2 Y2].
    split; [eapply extends_trans; eauto|].
    rewrite (pconvert_extends _ _ _ _ _ X2 Y1), Y2. reflexivity.
Qed.

Lemma convert_spec : forall S k, convert_ok S k.
Proof.
  intros S k. induction k as [x s|op ss args IH] using kore_ind'; intros sc sc' p H.
  - simpl in H. destruct (resolve x (sc_meta sc)) as [l i] eqn:E. inversion H; subst.
    apply resolve_spec in E. destruct E as [[m Hm] Hi]. split.
    + split; simpl; [exists m; exact Hm | exists []; rewrite app_nil_r; reflexivity].
    + simpl. unfold meta_id. simpl. rewrite Hi. reflexivity.
  - rewrite convert_node in H. rewrite pconvert_node.
    destruct (convert_sorts S sc ss) as [[sc1 pss]|] eqn:E1; [|discriminate].
    destruct (convert_list S sc1 args) as [[sc2 pas]|] eqn:E2; [|discriminate].
    destruct (build S op pss pas) as [q|] eqn:E3; [|discriminate]. inversion H; subst.
    apply convert_sorts_spec in E1. destruct E1 as [X1 Y1].
    destruct (convert_list_spec S args IH _ _ _ E2) as [X2 Y2].
    split; [eapply extends_trans; eauto|].
    rewrite (map_opt_impl (pconvert_sort S sc1) (pconvert_sort S sc') ss pss); auto.
    2:{ apply Forall_forall. intros s _ b Hb. eapply pconvert_sort_extends; eauto. }
    rewrite Y2. exact E3.
Qed.

(** * C: when every name is already known, the stateful conversion leaves the scope alone *)
Lemma pconvert_sort_convert : forall S sc s p, pconvert_sort S sc s = Some p -> convert_sort S sc s = Some (sc, p).
Proof.
  intros S sc [a|n] p H; simpl in *.
  - unfold sortvar_id in H. destruct (index_of a (sc_sort sc)) as [j|] eqn:E; simpl in H; [|discriminate].
    rewrite (resolve_known _ _ _ E). inversion H; subst. rewrite scope_eta. reflexivity.
  - destruct (has_sort S n); inversion H; subst. reflexivity.
Qed.

Lemma pconvert_sorts_convert : forall S sc ss ps,
  map_opt (pconvert_sort S sc) ss = Some ps -> convert_sorts S sc ss = Some (sc, ps).
Proof.
  induction ss as [|s t IH]; intros ps H; simpl in *; [inversion H; reflexivity|].
  destruct (pconvert_sort S sc s) as [p|] eqn:E; [|discriminate].
  rewrite (pconvert_sort_convert _ _ _ _ E).
  destruct (map_opt (pconvert_sort S sc) t) as [ps'|] eqn:E2; [|discriminate].
  rewrite (IH _ eq_refl). inversion H; reflexivity.
Qed.

Lemma pconvert_convert : forall S sc k p, pconvert S sc k = Some p -> convert S sc k = Some (sc, p).
Proof.
  intros S sc k. induction k as [x s|op ss args IH] using kore_ind'; intros p H.
  - simpl in *. unfold meta_id in H. destruct (index_of x (sc_meta sc)) as [i|] eqn:E; simpl in H; [|discriminate].
    rewrite (resolve_known _ _ _ E). inversion H; subst. rewrite scope_eta. reflexivity.
  - rewrite pconvert_node in H. rewrite convert_node.
    destruct (map_opt (pconvert_sort S sc) ss) as [pss|] eqn:E1; [|discriminate].
    rewrite (pconvert_sorts_convert _ _ _ _ E1).
    destruct (map_opt (pconvert S sc) args) as [pas|] eqn:E2; [|discriminate].
    assert (EL : convert_list S sc args = Some (sc, pas)).
    { clear H E1. revert pas E2. induction args as [|a t IHt]; intros pas E2; simpl in *; [inversion E2; reflexivity|].
      inversion IH as [|? ? Ha Ht]; subst.
      destruct (pconvert S sc a) as [pa|] eqn:Ea; [|discriminate]. rewrite (Ha _ eq_refl).
      destruct (map_opt (pconvert S sc) t) as [pt|] eqn:Et; [|discriminate].
      rewrite (IHt Ht _ eq_refl). inversion E2; reflexivity. }
    rewrite EL, H. reflexivity.
Qed.

(** * Variables of a term *)
Fixpoint kevars (k:kore) : list (string * ksort) :=
  match k with
  | KEVar x s => [(x, s)]
  | KNode _ _ args => flat_map kevars args
  end.

Lemma map_opt_In : forall {A B} (f:A -> option B) l r a, map_opt f l = Some r -> In a l -> exists b, f a = Some b.
Proof.
  induction l as [|x t IH]; intros r a H Hin; simpl in *; [contradiction|].
  destruct (f x) as [b|] eqn:E; [|discriminate].
  destruct (map_opt f t) as [bs|] eqn:E2; [|discriminate].
  destruct Hin as [->|Hin]; eauto.
Qed.

Lemma pconvert_vars_known : forall S sc k p x s,
  pconvert S sc k = Some p -> In (x, s) (kevars k) -> In x (sc_meta sc).
Proof.
  intros S sc k. induction k as [y t|op ss args IH] using kore_ind'; intros p x s H Hin.
  - simpl in *. destruct Hin as [E|[]]. inversion E; subst. unfold meta_id in H.
    destruct (index_of x (sc_meta sc)) as [i|] eqn:Ei; simpl in H; [|discriminate]. eapply index_of_In; eauto.
  - rewrite pconvert_node in H. simpl in Hin. apply in_flat_map in Hin. destruct Hin as [a [Ha Hx]].
    destruct (map_opt (pconvert_sort S sc) ss); [|discriminate].
    destruct (map_opt (pconvert S sc) args) as [pas|] eqn:E2; [|discriminate].
    destruct (map_opt_In _ _ _ _ E2 Ha) as [b Hb].
    rewrite Forall_forall in IH. eapply IH; eauto.
Qed.

(** * B: instantiation commutes with the (pure) conversion *)
Definition subst_rel (S:sig) (sc:scope) (t:list (string * kore)) (d:list (N * kpat)) : Prop :=
  Forall2 (fun xv ip => meta_id sc (fst xv) = Some (fst ip) /\ pconvert S sc (snd xv) = Some (snd ip)) t d.

Lemma lookup_rel : forall S sc t d x i,
  subst_rel S sc t d -> meta_id sc x = Some i ->
  match assoc x t with
  | Some v => exists pv, pconvert S sc v = Some pv /\ lookup i d = Some pv
  | None => lookup i d = None
  end.
Proof.
  intros S sc t d x i H Hx. induction H as [|[y v] [j q] t d [H1 H2] _ IH]; simpl in *; [reflexivity|].
  destruct (String.eqb x y) eqn:E.
  - apply String.eqb_eq in E. subst. assert (i = j) by congruence. subst.
    rewrite N.eqb_refl. eauto.
  - destruct (N.eqb i j) eqn:E2.
    + apply N.eqb_eq in E2. subst. rewrite (meta_id_inj _ _ _ _ Hx H1) in E.
      rewrite String.eqb_refl in E. discriminate.
    + exact IH.
Qed.

Lemma subst_rel_keys : forall S sc t d i p, subst_rel S sc t d -> In (i, p) d ->
  (i < N.of_nat (List.length (sc_meta sc)))%N.
Proof.
  intros S sc t d i p H. induction H as [|[y v] [j q] t d [H1 H2] _ IH]; simpl; intros Hin; [contradiction|].
  destruct Hin as [E|Hin]; [inversion E; subst; eapply meta_id_lt; eauto | auto].
Qed.

Lemma lookup_none_big : forall d n, (forall i p, In (i, p) d -> i <> n) -> lookup n d = None.
Proof.
  induction d as [|[j q] d IH]; intros n H; simpl; [reflexivity|].
  destruct (N.eqb n j) eqn:E.
  - apply N.eqb_eq in E. subst. exfalso. eapply H; [left; reflexivity | reflexivity].
  - apply IH. intros i p Hin. apply (H i p). right. exact Hin.
Qed.

Lemma inst_nary_app : forall d args h, inst d (nary_app h args) = nary_app (inst d h) (map (inst d) args).
Proof.
  unfold nary_app. induction args as [|a t IH]; intros h; simpl; [reflexivity|]. rewrite IH. reflexivity.
Qed.

Lemma map_fixed : forall (d:list (N * kpat)) l, Forall (fun q => inst d q = q) l -> map (inst d) l = l.
Proof. induction l as [|a t IH]; intros H; simpl; [reflexivity|]. inversion H; subst. f_equal; auto. Qed.

(** the notation applied by [build] commutes with instantiation, provided the converted sorts are
    not touched and (for [Exists]) the binder is not instantiated *)
Lemma build_inst : forall S op pss pas p d,
  build S op pss pas = Some p ->
  Forall (fun q => inst d q = q) pss ->
  (op = OpExists -> forall n rest, pas = PMeta n :: rest -> lookup n d = None) ->
  build S op pss (map (inst d) pas) = Some (inst d p).
Proof.
  intros S op pss pas p d H HF HEx.
  destruct op;
    try (destruct pss as [|s1 [|s2 [|s3 pss]]]; destruct pas as [|a1 [|a2 [|a3 pas]]]; simpl in H; try discriminate;
         inversion H; subst; repeat match goal with HH : Forall _ (_ :: _) |- _ => inversion HH; clear HH; subst end;
         simpl; repeat match goal with HH : inst d ?q = ?q |- _ => rewrite HH; clear HH end; reflexivity).
  - (* OpApp *)
    simpl in *. destruct (find_symbol S f) as [y|]; [|discriminate].
    assert (EM : pss ++ map (inst d) pas = map (inst d) (pss ++ pas)).
    { rewrite map_app, (map_fixed d pss HF). reflexivity. }
    rewrite EM. destruct (String.eqb f "kseq").
    + destruct (pss ++ pas) as [|a [|b [|c l]]]; try discriminate. inversion H; subst. reflexivity.
    + rewrite map_length. destruct (Nat.eqb (List.length (pss ++ pas)) (ks_nparams y + ks_nargs y)); [|discriminate].
      inversion H; subst. rewrite inst_nary_app. reflexivity.
  - (* OpExists *)
    destruct pss as [|s1 [|s2 [|s3 pss]]]; simpl in H; try discriminate;
      destruct pas as [|a1 [|a2 [|a3 pas]]]; try discriminate; try (destruct a1; discriminate).
    destruct a1; try discriminate. inversion H; subst.
    inversion HF as [|? ? F1 HF']; subst. inversion HF' as [|? ? F2 _]; subst.
    simpl. rewrite (HEx eq_refl n [a2] eq_refl). simpl. rewrite F1, F2. reflexivity.
Qed.

Lemma pconvert_sort_fixed : forall S sc s p (d:list (N * kpat)),
  (forall i q, In (i, q) d -> (i < 100)%N) ->
  pconvert_sort S sc s = Some p -> inst d p = p.
Proof.
  intros S sc [a|n] p d Hk H; simpl in *.
  - unfold sortvar_id, SORT_PARAM_METAVAR in H. destruct (index_of a (sc_sort sc)); simpl in H; [|discriminate].
    inversion H; subst. simpl. rewrite lookup_none_big; [reflexivity|].
    intros i q Hin E. apply Hk in Hin. lia.
  - destruct (has_sort S n); inversion H; subst. reflexivity.
Qed.

Lemma map_opt_Forall : forall {A B} (f:A -> option B) (Q:B -> Prop) l r,
  (forall a b, f a = Some b -> Q b) -> map_opt f l = Some r -> Forall Q r.
Proof.
  induction l as [|a t IH]; intros r HQ H; simpl in *; [inversion H; constructor|].
  destruct (f a) as [b|] eqn:E; [|discriminate].
  destruct (map_opt f t) as [bs|] eqn:E2; [|discriminate]. inversion H; subst.
  constructor; eauto.
Qed.

Lemma existsb_eqb_false : forall x l, existsb (String.eqb x) l = false -> ~ In x l.
Proof.
  intros x l H Hin. assert (existsb (String.eqb x) l = true).
  { apply existsb_exists. exists x. split; [exact Hin | apply String.eqb_refl]. }
  congruence.
Qed.

Lemma assoc_none : forall {A} x (t:list (string * A)), ~ In x (map fst t) -> assoc x t = None.
Proof.
  induction t as [|[y v] t IH]; intros H; simpl in *; [reflexivity|].
  destruct (String.eqb x y) eqn:E.
  - apply String.eqb_eq in E. subst. exfalso. apply H. left. reflexivity.
  - apply IH. intros Hin. apply H. right. exact Hin.
Qed.

Lemma pconvert_subst : forall S sc t d,
  subst_rel S sc t d -> List.length (sc_meta sc) <= 100 ->
  forall k p, bound_ok (map fst t) k = true -> pconvert S sc k = Some p ->
  pconvert S sc (ksubst t k) = Some (inst d p).
Proof.
  intros S sc t d HR Hlen k. induction k as [x s|op ss args IH] using kore_ind'; intros p Hb H.
  - simpl in *. destruct (meta_id sc x) as [i|] eqn:E; simpl in H; [|discriminate]. inversion H; subst.
    pose proof (lookup_rel S sc t d x i HR E) as L. simpl.
    destruct (assoc x t) as [v|].
    + destruct L as [pv [L1 L2]]. rewrite L2. exact L1.
    + rewrite L. simpl. rewrite E. reflexivity.
  - simpl ksubst. rewrite pconvert_node in *.
    destruct (map_opt (pconvert_sort S sc) ss) as [pss|] eqn:E1; [|discriminate].
    destruct (map_opt (pconvert S sc) args) as [pas|] eqn:E2; [|discriminate].
    simpl in Hb. apply andb_true_iff in Hb. destruct Hb as [Hb1 Hb2].
    assert (Hkeys : forall i q, In (i, q) d -> (i < 100)%N).
    { intros i q Hin. pose proof (subst_rel_keys _ _ _ _ _ _ HR Hin). lia. }
    assert (EA : map_opt (pconvert S sc) (map (ksubst t) args) = Some (map (inst d) pas)).
    { clear H Hb1 E1. revert pas E2. induction args as [|a r IHr]; intros pas E2; simpl in *; [inversion E2; reflexivity|].
      inversion IH as [|? ? Ha Hr]; subst. apply andb_true_iff in Hb2. destruct Hb2 as [B1 B2].
      destruct (pconvert S sc a) as [pa|] eqn:Ea; [|discriminate]. rewrite (Ha _ B1 eq_refl).
      destruct (map_opt (pconvert S sc) r) as [pr|] eqn:Er; [|discriminate].
      rewrite (IHr Hr B2 _ eq_refl). inversion E2; reflexivity. }
    rewrite EA. apply build_inst; auto.
    + eapply map_opt_Forall; [|exact E1]. intros a b Hab. eapply pconvert_sort_fixed; eauto.
    + intros -> n rest Hp. destruct args as [|a0 args']; [discriminate|]. destruct a0 as [x0 s0|]; [|discriminate].
      apply negb_true_iff in Hb1. apply existsb_eqb_false in Hb1.
      simpl in E2. destruct (meta_id sc x0) as [i0|] eqn:E0; simpl in E2; [|discriminate].
      destruct (map_opt (pconvert S sc) args'); [|discriminate]. rewrite Hp in E2. inversion E2; subst.
      pose proof (lookup_rel S sc t d x0 n HR E0) as L. rewrite (assoc_none _ _ Hb1) in L. exact L.
Qed.

(** [convert_substitutions] relates the Kore substitution to the instantiation it returns *)
Lemma convert_substs_spec : forall S t sc sc' d,
  convert_substs S sc t = Some (sc', d) -> extends sc sc' /\ subst_rel S sc' t d.
Proof.
  induction t as [|[x v] r IH]; intros sc sc' d H; simpl in *.
  - inversion H; subst. split; [apply extends_refl | constructor].
  - destruct (meta_id sc x) as [i|] eqn:E; [|discriminate].
    destruct (convert S sc v) as [[sc1 p]|] eqn:E1; [|discriminate].
    destruct (convert_substs S sc1 r) as [[sc2 d']|] eqn:E2; [|discriminate]. inversion H; subst.
    apply convert_spec in E1. destruct E1 as [X1 Y1]. apply IH in E2. destruct E2 as [X2 Y2].
    split; [eapply extends_trans; eauto|]. constructor; [|exact Y2]. simpl. split.
    + eapply meta_id_extends; [|exact E]. eapply extends_trans; eauto.
    + eapply pconvert_extends; eauto.
Qed.

(** * Main statements *)

(** the converter is a homomorphism under an injective assignment of names *)
Theorem scope_injective_thm : forall S sc k sc' p,
  convert S sc k = Some (sc', p) ->
  extends sc sc'
  /\ pconvert S sc' k = Some p
  /\ (forall x s, In (x, s) (kevars k) -> exists i, meta_id sc' x = Some i)
  /\ (forall x y i, meta_id sc' x = Some i -> meta_id sc' y = Some i -> x = y)
  /\ (forall a b j, sortvar_id sc' a = Some j -> sortvar_id sc' b = Some j -> a = b)
  /\ (List.length (sc_meta sc') <= 100 ->
      forall x a i j, meta_id sc' x = Some i -> sortvar_id sc' a = Some j -> i <> j).
Proof.
  intros S sc k sc' p H. apply convert_spec in H. destruct H as [X Y].
  split; [exact X|]. split; [exact Y|]. split; [|split; [|split]].
  - intros x s Hin. pose proof (pconvert_vars_known _ _ _ _ _ _ Y Hin) as Hk.
    destruct (In_index_of _ _ Hk) as [i Hi]. exists (N.of_nat i). unfold meta_id. rewrite Hi. reflexivity.
  - apply meta_id_inj.
  - apply sortvar_id_inj.
  - intros Hl x a i j. apply meta_sort_disjoint. exact Hl.
Qed.

Theorem convert_subst_commutes_thm : forall S sc0 k sc1 p t sc2 d,
  convert S sc0 k = Some (sc1, p) ->
  convert_substs S sc1 t = Some (sc2, d) ->
  List.length (sc_meta sc2) <= 100 ->
  bound_ok (map fst t) k = true ->
  convert S sc2 (ksubst t k) = Some (sc2, inst d p).
Proof.
  intros S sc0 k sc1 p t sc2 d H1 H2 Hlen Hb.
  apply convert_spec in H1. destruct H1 as [_ Y1].
  apply convert_substs_spec in H2. destruct H2 as [X2 R].
  apply pconvert_convert. eapply pconvert_subst; eauto. eapply pconvert_extends; eauto.
Qed.

(** ground values do not touch the scope *)
Lemma convert_sorts_ground : forall S ss sc sc' ps,
  forallb sort_ground ss = true -> convert_sorts S sc ss = Some (sc', ps) -> sc' = sc.
Proof.
  induction ss as [|s t IH]; intros sc sc' ps Hg H; simpl in *; [inversion H; reflexivity|].
  apply andb_true_iff in Hg. destruct Hg as [G1 G2].
  destruct s as [a|n]; [discriminate|]. simpl in H.
  destruct (has_sort S n); [|discriminate].
  destruct (convert_sorts S sc t) as [[sc2 ps']|] eqn:E; [|discriminate]. inversion H; subst. eapply IH; eauto.
Qed.

Lemma convert_ground : forall S k sc sc' p, ground k = true -> convert S sc k = Some (sc', p) -> sc' = sc.
Proof.
  intros S k. induction k as [x s|op ss args IH] using kore_ind'; intros sc sc' p Hg H; [discriminate|].
  rewrite convert_node in H. simpl in Hg. apply andb_true_iff in Hg. destruct Hg as [G1 G2].
  destruct (convert_sorts S sc ss) as [[sc1 pss]|] eqn:E1; [|discriminate].
  apply convert_sorts_ground in E1; auto. subst sc1.
  destruct (convert_list S sc args) as [[sc2 pas]|] eqn:E2; [|discriminate].
  destruct (build S op pss pas); [|discriminate]. inversion H; subst.
  clear H. revert sc sc' pas E2. induction args as [|a r IHr]; intros sc sc' pas E2; simpl in *; [inversion E2; reflexivity|].
  inversion IH as [|? ? Ha Hr]; subst. apply andb_true_iff in G2. destruct G2 as [B1 B2].
  destruct (convert S sc a) as [[sca pa]|] eqn:Ea; [|discriminate]. apply Ha in Ea; auto. subst sca.
  destruct (convert_list S sc r) as [[scr pr]|] eqn:Er; [|discriminate]. inversion E2; subst. eapply IHr; eauto.
Qed.

Lemma convert_substs_ground : forall S t sc sc' d,
  forallb (fun xv => ground (snd xv)) t = true -> convert_substs S sc t = Some (sc', d) -> sc' = sc.
Proof.
  induction t as [|[x v] r IH]; intros sc sc' d Hg H; simpl in *; [inversion H; reflexivity|].
  apply andb_true_iff in Hg. destruct Hg as [G1 G2].
  destruct (meta_id sc x); [|discriminate].
  destruct (convert S sc v) as [[sc1 p]|] eqn:E1; [|discriminate]. apply convert_ground in E1; auto. subst sc1.
  destruct (convert_substs S sc r) as [[sc2 d']|] eqn:E2; [|discriminate]. inversion H; subst. eapply IH; eauto.
Qed.

Theorem convert_subst_commutes_ground_thm : forall S sc0 k sc1 p t sc2 d,
  convert S sc0 k = Some (sc1, p) ->
  forallb (fun xv => ground (snd xv)) t = true ->
  convert_substs S sc1 t = Some (sc2, d) ->
  List.length (sc_meta sc1) <= 100 ->
  bound_ok (map fst t) k = true ->
  sc2 = sc1 /\ convert S sc1 (ksubst t k) = Some (sc1, inst d p).
Proof.
  intros S sc0 k sc1 p t sc2 d H1 Hg H2 Hlen Hb.
  pose proof (convert_substs_ground _ _ _ _ _ Hg H2). subst sc2. split; [reflexivity|].
  eapply convert_subst_commutes_thm; eauto.
Qed.

(** * The literal reading: the substituted rule converted in a FRESH scope.
    For a substitution that is ground and total on the rule's variables (what an execution trace
    provides) and a rule without binders, [convert scope0 (ksubst t k)] is [inst d (convert k)];
    the only thing left of the scope is the numbering of sort variables, which is the same because
    [ksubst] does not move sort-variable occurrences. *)
Definition set_meta (M:list string) (sc:scope) : scope := mkScope M (sc_sort sc).

Fixpoint no_exists (k:kore) : bool :=
  match k with
  | KEVar _ _ => true
  | KNode op _ args => match op with OpExists => false | _ => true end && forallb no_exists args
  end.

Lemma convert_sort_set_meta : forall S sc s sc' p M, convert_sort S sc s = Some (sc', p) ->
  sc_meta sc' = sc_meta sc /\ convert_sort S (set_meta M sc) s = Some (set_meta M sc', p).
Proof.
  intros S sc [a|n] sc' p M H; simpl in *.
  - destruct (resolve a (sc_sort sc)) as [l j]. inversion H; subst. split; reflexivity.
  - destruct (has_sort S n); inversion H; subst. split; reflexivity.
Qed.

Lemma convert_sorts_set_meta : forall S ss sc sc' ps M, convert_sorts S sc ss = Some (sc', ps) ->
  sc_meta sc' = sc_meta sc /\ convert_sorts S (set_meta M sc) ss = Some (set_meta M sc', ps).
Proof.
  induction ss as [|s t IH]; intros sc sc' ps M H; simpl in *.
  - inversion H; subst. split; reflexivity.
  - destruct (convert_sort S sc s) as [[sc1 p]|] eqn:E1; [|discriminate].
    destruct (convert_sorts S sc1 t) as [[sc2 ps']|] eqn:E2; [|discriminate]. inversion H; subst.
    destruct (convert_sort_set_meta _ _ _ _ _ M E1) as [X1 Y1]. destruct (IH _ _ _ M E2) as [X2 Y2].
    rewrite Y1, Y2. split; [congruence | reflexivity].
Qed.

Lemma convert_sorts_ground_any : forall S ss sc sc' ps,
  forallb sort_ground ss = true -> convert_sorts S sc ss = Some (sc', ps) ->
  forall sc2, convert_sorts S sc2 ss = Some (sc2, ps).
Proof.
  induction ss as [|s t IH]; intros sc sc' ps Hg H sc2; simpl in *; [inversion H; reflexivity|].
  apply andb_true_iff in Hg. destruct Hg as [G1 G2]. destruct s as [a|n]; [discriminate|]. simpl in *.
  destruct (has_sort S n); [|discriminate].
  destruct (convert_sorts S sc t) as [[sc3 ps']|] eqn:E; [|discriminate]. inversion H; subst.
  rewrite (IH _ _ _ G2 E sc2). reflexivity.
Qed.

Lemma convert_ground_any : forall S k, ground k = true -> forall sc sc' p,
  convert S sc k = Some (sc', p) -> forall sc2, convert S sc2 k = Some (sc2, p).
Proof.
  intros S k. induction k as [x s|op ss args IH] using kore_ind'; intros Hg sc sc' p H sc2; [discriminate|].
  rewrite convert_node in *. simpl in Hg. apply andb_true_iff in Hg. destruct Hg as [G1 G2].
  destruct (convert_sorts S sc ss) as [[sc1 pss]|] eqn:E1; [|discriminate].
  pose proof (convert_sorts_ground _ _ _ _ _ G1 E1). subst sc1.
  rewrite (convert_sorts_ground_any _ _ _ _ _ G1 E1 sc2).
  destruct (convert_list S sc args) as [[sc3 pas]|] eqn:E2; [|discriminate].
  assert (EL : convert_list S sc2 args = Some (sc2, pas)).
  { clear H E1. revert sc sc3 pas E2. induction args as [|a r IHr]; intros sc sc3 pas E2; simpl in *; [inversion E2; reflexivity|].
    inversion IH as [|? ? Ha Hr]; subst. apply andb_true_iff in G2. destruct G2 as [B1 B2].
    destruct (convert S sc a) as [[sca pa]|] eqn:Ea; [|discriminate].
    pose proof (convert_ground _ _ _ _ _ B1 Ea). subst sca. rewrite (Ha B1 _ _ _ Ea sc2).
    destruct (convert_list S sc r) as [[scr pr]|] eqn:Er; [|discriminate]. inversion E2; subst.
    rewrite (IHr Hr B2 _ _ _ Er). reflexivity. }
  rewrite EL. destruct (build S op pss pas); [|discriminate]. inversion H; subst. reflexivity.
Qed.

Definition subst_covers (S:sig) (scF:scope) (t:list (string * kore)) (d:list (N * kpat)) (k:kore) : Prop :=
  forall x s, In (x, s) (kevars k) ->
    exists v pv i, assoc x t = Some v /\ meta_id scF x = Some i /\ lookup i d = Some pv
                   /\ (forall sc, convert S sc v = Some (sc, pv)).

Lemma convert_subst_sim : forall S scF t d,
  (forall i q, In (i, q) d -> (i < 100)%N) ->
  forall k sc sc' p M,
    convert S sc k = Some (sc', p) -> extends sc' scF -> subst_covers S scF t d k -> no_exists k = true ->
    convert S (set_meta M sc) (ksubst t k) = Some (set_meta M sc', inst d p).
Proof.
  intros S scF t d Hkeys k. induction k as [x s|op ss args IH] using kore_ind'; intros sc sc' p M H He Hc Hn.
  - simpl in H. destruct (resolve x (sc_meta sc)) as [l i] eqn:E. inversion H; subst.
    apply resolve_spec in E. destruct E as [_ Hi].
    destruct (Hc x s (or_introl eq_refl)) as [v [pv [i0 [A1 [A2 [A3 A4]]]]]].
    assert (Hm : meta_id scF x = Some (N.of_nat i)).
    { eapply meta_id_extends; [exact He|]. unfold meta_id. simpl. rewrite Hi. reflexivity. }
    assert (i0 = N.of_nat i) by congruence. subst i0.
    simpl. rewrite A1, A3. rewrite A4. reflexivity.
  - simpl ksubst. rewrite convert_node in *.
    destruct (convert_sorts S sc ss) as [[sc1 pss]|] eqn:E1; [|discriminate].
    destruct (convert_list S sc1 args) as [[sc2 pas]|] eqn:E2; [|discriminate].
    destruct (build S op pss pas) as [q|] eqn:E3; [|discriminate]. inversion H; subst.
    destruct (convert_sorts_set_meta _ _ _ _ _ M E1) as [_ Y1]. rewrite Y1.
    simpl in Hn. apply andb_true_iff in Hn. destruct Hn as [Hop Hargs].
    assert (EL : convert_list S (set_meta M sc1) (map (ksubst t) args) = Some (set_meta M sc', map (inst d) pas)).
    { assert (Hc' : forall a, In a args -> subst_covers S scF t d a).
      { intros a Ha x s Hin. apply (Hc x s). simpl. apply in_flat_map. exists a. split; assumption. }
      clear H E1 E3 Y1 Hc Hop. revert sc1 pas E2 Hc'.
      induction args as [|a r IHr]; intros sc1 pas E2 Hc'; simpl in *; [inversion E2; subst; reflexivity|].
      inversion IH as [|? ? Ha Hr]; subst. apply andb_true_iff in Hargs. destruct Hargs as [B1 B2].
      destruct (convert S sc1 a) as [[sca pa]|] eqn:Ea; [|discriminate].
      destruct (convert_list S sca r) as [[scr pr]|] eqn:Er; [|discriminate]. inversion E2; subst.
      assert (Hex : extends sca scF).
      { eapply extends_trans; [|exact He].
        assert (Forall (convert_ok S) r) by (apply Forall_forall; intros; apply convert_spec).
        eapply convert_list_spec; eauto. }
      rewrite (Ha _ _ _ M Ea Hex (Hc' a (or_introl eq_refl)) B1).
      rewrite (IHr Hr B2 _ _ Er (fun a0 H0 => Hc' a0 (or_intror H0))). reflexivity. }
    rewrite EL.
    rewrite (build_inst S op pss pas p d E3); [reflexivity | |].
    + apply convert_sorts_spec in E1. destruct E1 as [_ PS].
      eapply map_opt_Forall; [|exact PS]. intros a b Hab. eapply pconvert_sort_fixed; eauto.
    + intros ->. discriminate.
Qed.

Lemma assoc_In : forall {A} x (t:list (string * A)) v, assoc x t = Some v -> In (x, v) t.
Proof.
  induction t as [|[y w] t IH]; intros v H; simpl in *; [discriminate|].
  destruct (String.eqb x y) eqn:E.
  - apply String.eqb_eq in E. subst. inversion H; subst. left. reflexivity.
  - right. apply IH. exact H.
Qed.

Theorem convert_subst_commutes_fresh_thm : forall S k sc1 p t sc2 d,
  convert S scope0 k = Some (sc1, p) ->
  forallb (fun xv => ground (snd xv)) t = true ->
  convert_substs S sc1 t = Some (sc2, d) ->
  List.length (sc_meta sc1) <= 100 ->
  no_exists k = true ->
  (forall x s, In (x, s) (kevars k) -> assoc x t <> None) ->
  convert S scope0 (ksubst t k) = Some (mkScope [] (sc_sort sc1), inst d p).
Proof.
  intros S k sc1 p t sc2 d H1 Hg H2 Hlen Hn Htot.
  pose proof (convert_substs_ground _ _ _ _ _ Hg H2). subst sc2.
  apply convert_substs_spec in H2. destruct H2 as [_ R].
  assert (Hkeys : forall i q, In (i, q) d -> (i < 100)%N).
  { intros i q Hin. pose proof (subst_rel_keys _ _ _ _ _ _ R Hin). lia. }
  change scope0 with (set_meta [] scope0).
  change (mkScope [] (sc_sort sc1)) with (set_meta [] sc1).
  eapply convert_subst_sim; eauto using extends_refl.
  intros x s Hin. destruct (assoc x t) as [v|] eqn:Ea; [|exfalso; eapply Htot; eauto].
  destruct (proj1 (scope_injective_thm _ _ _ _ _ H1)) as [_ _].
  destruct (scope_injective_thm _ _ _ _ _ H1) as [_ [_ [Hv _]]]. destruct (Hv x s Hin) as [i Hi].
  pose proof (lookup_rel S sc1 t d x i R Hi) as L. rewrite Ea in L. destruct L as [pv [L1 L2]].
  exists v, pv, i. repeat split; auto.
  intros sc. apply pconvert_convert in L1. eapply convert_ground_any; [|exact L1].
  apply assoc_In in Ea. rewrite forallb_forall in Hg. apply (Hg (x, v) Ea).
Qed.

(** The functions GENERATED from the current Python source (coq/Gen/KoreConv.v, translators/kore_conv.py)
    are equal to the hand-written model (K/Kore.v, K/Exec.v with [guards_sound]) on which the C20
    theorems are proved.  Scopes: the generated code manipulates the two Python dicts (name -> MetaVar);
    [absg] maps a model scope (names in insertion order) to those dicts. *)
From Coq Require Import String Ascii NArith PeanoNat List Bool Lia.
From Pi2 Require Import K.Kore K.Exec K.KoreProofs K.ExecProofs K.GenPrims Gen.KoreConv.
Import ListNotations.
Open Scope string_scope.
Open Scope list_scope.
Arguments N.add : simpl never.
Arguments N.of_nat : simpl never.

(** * dicts of a scope *)
Fixpoint imap (f:nat -> kpat) (k:nat) (l:list string) : list (string * kpat) :=
  match l with [] => [] | x :: t => (x, f k) :: imap f (S k) t end.
Definition fmeta (i:nat) := PMeta (N.of_nat i).
Definition fsort (j:nat) := PMeta (SORT_PARAM_METAVAR + N.of_nat j).
Definition absg (sc:scope) : gscope := mkG (imap fmeta 0 (sc_meta sc)) (imap fsort 0 (sc_sort sc)).

Lemma imap_get : forall f l k x, sd_get x (imap f k l) = option_map (fun i => f (k + i)) (index_of x l).
Proof.
  induction l as [|y t IH]; intros k x; simpl; [reflexivity|].
  destruct (String.eqb x y); simpl; [rewrite Nat.add_0_r; reflexivity|].
  rewrite IH. destruct (index_of x t); simpl; [rewrite Nat.add_succ_r; reflexivity | reflexivity].
Qed.

Lemma imap_len : forall f l k, nat_len (imap f k l) = N.of_nat (List.length l).
Proof. unfold nat_len. induction l as [|y t IH]; intros k; simpl; [reflexivity|]. specialize (IH (S k)). lia. Qed.

Lemma imap_app : forall f l k m, imap f k (l ++ m) = imap f k l ++ imap f (k + List.length l) m.
Proof.
  induction l as [|y t IH]; intros k m; simpl; [rewrite Nat.add_0_r; reflexivity|].
  rewrite IH, Nat.add_succ_r. reflexivity.
Qed.

Lemma imap_set_new : forall f l k x v, index_of x l = None -> sd_set (imap f k l) x v = imap f k l ++ [(x, v)].
Proof.
  induction l as [|y t IH]; intros k x v H; simpl in *; [reflexivity|].
  destruct (String.eqb x y); [discriminate|]. destruct (index_of x t) eqn:E; [discriminate|].
  rewrite (IH (S k) x v E). reflexivity.
Qed.

(** [resolve] through the dict operations *)
Lemma imap_resolve : forall f l x l' i, resolve x l = (l', i) ->
  match sd_get x (imap f 0 l) with
  | Some q => l' = l /\ q = f i
  | None => imap f 0 l' = sd_set (imap f 0 l) x (f (List.length l)) /\ sd_get x (imap f 0 l') = Some (f i)
  end.
Proof.
  intros f l x l' i H. unfold resolve in H. rewrite imap_get.
  destruct (index_of x l) as [j|] eqn:E; inversion H; subst; simpl.
  - split; reflexivity.
  - rewrite (imap_set_new f l 0 x _ E). split.
    + rewrite imap_app. simpl. reflexivity.
    + rewrite imap_get, (index_of_new _ _ E). reflexivity.
Qed.

Definition lift {A} (r:option (scope * A)) : option (gscope * A) :=
  match r with Some (sc, a) => Some (absg sc, a) | None => None end.

(** generic: after unfolding a generated scope method on [absg sc], decide the dict lookup and finish *)
Ltac scope_method E H :=
  cbv zeta; cbn [g_metavars g_sortparams set_metavars set_sortparams absg];
  rewrite ?imap_len;
  match type of H with
  | match ?g with _ => _ end => destruct g as [q|] eqn:E
  end.

Lemma agree_resolve_metavar : forall sc x,
  gen_resolve_metavar (absg sc) x =
  (let '(l, i) := resolve x (sc_meta sc) in Some (absg (mkScope l (sc_sort sc)), PMeta (N.of_nat i))).
Proof.
  intros sc x. destruct (resolve x (sc_meta sc)) as [l i] eqn:E.
  pose proof (imap_resolve fmeta _ _ _ _ E) as H.
  unfold gen_resolve_metavar. cbv zeta. cbn [g_metavars g_sortparams set_metavars set_sortparams absg]. rewrite ?imap_len.
  change (PMeta (N.of_nat (List.length (sc_meta sc)))) with (fmeta (List.length (sc_meta sc))).
  destruct (sd_get x (imap fmeta 0 (sc_meta sc))) as [q|].
  - destruct H as [-> ->]. reflexivity.
  - destruct H as [H1 H2]. rewrite <- H1. cbn [g_metavars]. rewrite H2. reflexivity.
Qed.

Lemma agree_resolve_sort : forall sc a,
  gen_resolve_sort_param_metavar (absg sc) a =
  (let '(l, j) := resolve a (sc_sort sc) in Some (absg (mkScope (sc_meta sc) l), PMeta (SORT_PARAM_METAVAR + N.of_nat j))).
Proof.
  intros sc x. destruct (resolve x (sc_sort sc)) as [l i] eqn:E.
  pose proof (imap_resolve fsort _ _ _ _ E) as H.
  unfold gen_resolve_sort_param_metavar, gen_SORT_PARAM_METAVAR. cbv zeta.
  cbn [g_metavars g_sortparams set_metavars set_sortparams absg]. rewrite ?imap_len.
  change (PMeta (100 + N.of_nat (List.length (sc_sort sc)))) with (fsort (List.length (sc_sort sc))).
  destruct (sd_get x (imap fsort 0 (sc_sort sc))) as [q|].
  - destruct H as [-> ->]. reflexivity.
  - destruct H as [H1 H2]. rewrite <- H1. cbn [g_sortparams]. rewrite H2. reflexivity.
Qed.

Lemma agree_lookup_metavar : forall sc x,
  gen_lookup_metavar (absg sc) x = option_map (fun i => (absg sc, PMeta i)) (meta_id sc x).
Proof.
  intros sc x. unfold gen_lookup_metavar, meta_id, absg. cbv [d_mem]. cbn [g_metavars]. rewrite ?imap_get.
  destruct (index_of x (sc_meta sc)); reflexivity.
Qed.

Lemma agree_convert_sort : forall S sc s,
  gen__convert_sort S (absg sc) s = lift (convert_sort (gs_sig S) sc s).
Proof.
  intros S sc [a|n]; unfold gen__convert_sort; simpl.
  - rewrite agree_resolve_sort. destruct (resolve a (sc_sort sc)). reflexivity.
  - unfold sem_get_sort. destruct (has_sort (gs_sig S) n); reflexivity.
Qed.

Lemma agree_convert_sorts : forall S ss sc,
  st_map (fun sc0 s => gen__convert_sort S sc0 s) (absg sc) ss = lift (convert_sorts (gs_sig S) sc ss).
Proof.
  induction ss as [|s t IH]; intros sc; simpl; [reflexivity|].
  rewrite agree_convert_sort. destruct (convert_sort (gs_sig S) sc s) as [[sc1 p]|]; simpl; [|reflexivity].
  rewrite IH. destruct (convert_sorts (gs_sig S) sc1 t) as [[sc2 ps]|]; reflexivity.
Qed.

(** * [_convert_pattern] *)
Lemma convert_list_length : forall S l sc sc' ps, convert_list S sc l = Some (sc', ps) -> List.length ps = List.length l.
Proof.
  induction l as [|a t IH]; intros sc sc' ps H; simpl in *; [inversion H; reflexivity|].
  destruct (convert S sc a) as [[sc1 pa]|]; [|discriminate].
  destruct (convert_list S sc1 t) as [[sc2 pt]|] eqn:E; [|discriminate]. inversion H; subst. simpl. f_equal. eauto.
Qed.

Lemma convert_and_or_len : forall S sc op s args, (op = OpAnd \/ op = OpOr) -> List.length args <> 2 ->
  convert S sc (KNode op [s] args) = None.
Proof.
  intros S sc op s args Hop Hl. rewrite convert_node.
  destruct (convert_sorts S sc [s]) as [[sc1 pss]|] eqn:E1; [|reflexivity].
  destruct (convert_list S sc1 args) as [[sc2 pas]|] eqn:E2; [|reflexivity].
  apply convert_list_length in E2.
  simpl in E1. destruct (convert_sort S sc s) as [[? ?]|]; [|discriminate]. inversion E1; subst.
  destruct Hop; subst; destruct pas as [|a [|b [|c t]]]; simpl in *; try reflexivity; exfalso; apply Hl; lia.
Qed.

Lemma find_symbol_name : forall S f y, find_symbol S f = Some y -> ks_name y = f.
Proof.
  unfold find_symbol. intros S f y H. apply find_some in H. destruct H as [_ H].
  apply String.eqb_eq in H. auto.
Qed.

Lemma agree_app_notation : forall S f y pss pas,
  find_symbol S f = Some y ->
  call_notation (gen_KSymbol_app y) (pss ++ pas) = build S (OpApp f) pss pas.
Proof.
  intros S f y pss pas H. simpl. rewrite H. pose proof (find_symbol_name _ _ _ H) as Hn.
  unfold gen_KSymbol_app, gen_KSymbol_aml_symbol. rewrite Hn.
  destruct (String.eqb f "kseq"); simpl; [reflexivity|].
  replace (N.to_nat (N.of_nat (ks_nparams y) + N.of_nat (ks_nargs y))) with (ks_nparams y + ks_nargs y) by lia.
  reflexivity.
Qed.

Definition agree_at (S:gsem) (fuel:nat) (k:gkore) : Prop :=
  forall sc, gen__convert_pattern fuel S (absg sc) k = lift (convert (gs_sig S) sc (to_kore k)).

Lemma agree_st_map : forall S fuel args, Forall (agree_at S fuel) args -> forall sc,
  st_map (fun sc0 a => gen__convert_pattern fuel S sc0 a) (absg sc) args
  = lift (convert_list (gs_sig S) sc (map to_kore args)).
Proof.
  induction args as [|a t IH]; intros HF sc; simpl; [reflexivity|].
  inversion HF as [|? ? Ha Ht]; subst. rewrite (Ha sc).
  destruct (convert (gs_sig S) sc (to_kore a)) as [[sc1 pa]|]; simpl; [|reflexivity].
  rewrite (IH Ht). destruct (convert_list (gs_sig S) sc1 (map to_kore t)) as [[sc2 pt]|]; reflexivity.
Qed.

Lemma fold_max_le : forall (l:list gkore) a, In a l -> gheight a <= fold_right (fun a m => Nat.max (gheight a) m) O l.
Proof.
  induction l as [|b t IH]; intros a H; simpl in *; [contradiction|].
  destruct H as [->|H]; [lia|]. specialize (IH a H). lia.
Qed.

(** one step of the model on a node whose sorts are converted one by one *)
Ltac model_sort :=
  match goal with
  | |- context [convert_sort ?S ?sc ?s] => destruct (convert_sort S sc s) as [[? ?]|]; cbn [lift convert_sorts convert_list]; try reflexivity
  end.
Ltac model_pat :=
  match goal with
  | |- context [convert ?S ?sc (to_kore ?k)] => destruct (convert S sc (to_kore k)) as [[? ?]|]; cbn [lift convert_sorts convert_list]; try reflexivity
  end.

Theorem agree_convert_pattern : forall S fuel k,
  gheight k <= fuel -> gk_typed k = true -> agree_at S fuel k.
Proof.
  intros S. induction fuel as [|fuel IH]; intros k Hh Ht sc; [destruct k; simpl in Hh; lia|].
  assert (IH' : forall a, gheight a <= fuel -> gk_typed a = true -> forall sc0,
             gen__convert_pattern fuel S (absg sc0) a = lift (convert (gs_sig S) sc0 (to_kore a))).
  { intros a H1 H2 sc0. apply IH; assumption. }
  destruct k; cbn [gen__convert_pattern to_kore]; cbn [gheight] in Hh; simpl in Ht;
    repeat match goal with H : _ && _ = true |- _ => apply andb_true_iff in H; destruct H end;
    try (try rewrite convert_node; cbn [convert_sorts convert_list map];
         repeat (first [ rewrite agree_convert_sort; model_sort
                       | match goal with |- context [gen__convert_pattern fuel S (absg ?sc0) ?a] =>
                           rewrite (IH' a ltac:(lia) ltac:(assumption) sc0) end; model_pat ]);
         reflexivity).
  - (* And *)
    destruct ops as [|a [|b [|c t]]];
      try (rewrite convert_and_or_len; [| left; reflexivity | simpl; lia];
           match goal with |- (if ?c then _ else _) = _ => replace c with false
             by (symmetry; apply N.eqb_neq; unfold nat_len; simpl List.length; lia) end; reflexivity).
    cbn [nat_len List.length nth_error].
    simpl in Ht. repeat match goal with H : _ && _ = true |- _ => apply andb_true_iff in H; destruct H end.
    cbn [fold_right] in Hh. change (N.of_nat 2 =? 2)%N with true. cbv iota.
    rewrite convert_node. cbn [convert_sorts convert_list map].
    rewrite agree_convert_sort; model_sort.
    rewrite (IH' a ltac:(lia) ltac:(assumption)); model_pat.
    rewrite (IH' b ltac:(lia) ltac:(assumption)); model_pat.
  - (* Or *)
    destruct ops as [|a [|b [|c t]]];
      try (rewrite convert_and_or_len; [| right; reflexivity | simpl; lia];
           match goal with |- (if ?c then _ else _) = _ => replace c with false
             by (symmetry; apply N.eqb_neq; unfold nat_len; simpl List.length; lia) end; reflexivity).
    cbn [nat_len List.length nth_error].
    simpl in Ht. repeat match goal with H : _ && _ = true |- _ => apply andb_true_iff in H; destruct H end.
    cbn [fold_right] in Hh. change (N.of_nat 2 =? 2)%N with true. cbv iota.
    rewrite convert_node. cbn [convert_sorts convert_list map].
    rewrite agree_convert_sort; model_sort.
    rewrite (IH' a ltac:(lia) ltac:(assumption)); model_pat.
    rewrite (IH' b ltac:(lia) ltac:(assumption)); model_pat.
  - (* App *)
    unfold sem_get_symbol. rewrite convert_node.
    rewrite agree_convert_sorts.
    assert (HF : Forall (agree_at S fuel) args).
    { apply Forall_forall. intros a Ha sc0. apply IH'.
      - pose proof (fold_max_le args a Ha). lia.
      - rewrite forallb_forall in Ht. apply Ht. exact Ha. }
    destruct (find_symbol (gs_sig S) symbol) as [y|] eqn:EF.
    + destruct (convert_sorts (gs_sig S) sc sorts) as [[sc1 pss]|]; cbn [lift]; [|reflexivity].
      rewrite (agree_st_map S fuel args HF sc1).
      destruct (convert_list (gs_sig S) sc1 (map to_kore args)) as [[sc2 pas]|]; cbn [lift]; [|reflexivity].
      rewrite (agree_app_notation _ _ _ pss pas EF). destruct (build (gs_sig S) (OpApp symbol) pss pas); reflexivity.
    + destruct (convert_sorts (gs_sig S) sc sorts) as [[sc1 pss]|]; [|reflexivity].
      destruct (convert_list (gs_sig S) sc1 (map to_kore args)) as [[sc2 pas]|]; [|reflexivity].
      simpl. rewrite EF. reflexivity.
  - (* EVar *)
    rewrite agree_resolve_metavar. simpl. destruct (resolve name (sc_meta sc)). reflexivity.
  - (* Exists *)
    destruct k1; try discriminate. cbn [gvar_sort to_kore]. rewrite convert_node. cbn [convert_sorts convert_list map].
    rewrite agree_convert_sort; model_sort. rewrite agree_convert_sort; model_sort.
    rewrite (IH' (GEVar name sort0) ltac:(cbn [gheight] in *; lia) ltac:(reflexivity)). cbn [to_kore].
    destruct (convert (gs_sig S) s0 (KEVar name sort0)) as [[sc3 pv]|] eqn:EV; cbn [lift]; [|reflexivity].
    rewrite (IH' k2 ltac:(cbn [gheight] in *; lia) ltac:(assumption)); model_pat.
    simpl in EV. destruct (resolve name (sc_meta s0)). inversion EV; subst. reflexivity.
Qed.

(** * [convert_substitutions] *)
Definition tk_subst (t:list (string * gkore)) : list (string * kore) := map (fun xk => (fst xk, to_kore (snd xk))) t.
(** what [substitutions[name] = ...] builds from the pairs the model lists *)
Definition dict_of (d:list (N * kpat)) : list (N * kpat) := fold_left (fun acc ip => nd_set acc (fst ip) (snd ip)) d [].

(** generic facts about loops: pointwise-equal bodies, and simulation of a generated loop by a model loop *)
Lemma st_fold_ext : forall {St A} (f g:St -> A -> option St), (forall s a, f s a = g s a) ->
  forall l s, st_fold f s l = st_fold g s l.
Proof.
  intros St A f g H. induction l as [|a t IH]; intros s; simpl; [reflexivity|].
  rewrite H. destruct (g s a); [apply IH | reflexivity].
Qed.

Definition sim_opt {X Y} (R:X -> Y -> Prop) (a:option X) (b:option Y) : Prop :=
  match a with Some x => exists y, b = Some y /\ R x y | None => b = None end.

Lemma st_fold_sim : forall {St St' A} (R:St -> St' -> Prop) (P:A -> Prop) (f:St -> A -> option St) (g:St' -> A -> option St'),
  (forall s s' a, P a -> R s s' -> sim_opt R (f s a) (g s' a)) ->
  forall l s s', Forall P l -> R s s' -> sim_opt R (st_fold f s l) (st_fold g s' l).
Proof.
  intros St St' A R P f g H. induction l as [|a t IH]; intros s s' HF HR; simpl.
  - exists s'. split; [reflexivity | exact HR].
  - inversion HF as [|? ? Ha Ht]; subst. specialize (H s s' a Ha HR). unfold sim_opt in H.
    destruct (f s a) as [x|].
    + destruct H as [y [E Rxy]]. rewrite E. apply IH; assumption.
    + rewrite H. reflexivity.
Qed.

(** the loop of [convert_substitutions] on the model side *)
Definition model_subst_step (S:sig) (st:scope * list (N * kpat)) (xk:string * gkore) : option (scope * list (N * kpat)) :=
  match meta_id (fst st) (fst xk) with
  | None => None
  | Some i => match convert S (fst st) (to_kore (snd xk)) with
              | None => None
              | Some (sc1, p) => Some (sc1, nd_set (snd st) i p)
              end
  end.

Lemma model_subst_fold : forall S t sc acc,
  st_fold (model_subst_step S) (sc, acc) t
  = match convert_substs S sc (tk_subst t) with
    | Some (sc', d) => Some (sc', fold_left (fun acc ip => nd_set acc (fst ip) (snd ip)) d acc)
    | None => None
    end.
Proof.
  intros S. induction t as [|[x k] r IH]; intros sc acc; simpl; [reflexivity|].
  unfold model_subst_step at 1. simpl. destruct (meta_id sc x) as [i|]; [|reflexivity].
  destruct (convert S sc (to_kore k)) as [[sc1 p]|]; [|reflexivity].
  rewrite IH. fold (tk_subst r). destruct (convert_substs S sc1 (tk_subst r)) as [[sc2 d]|]; reflexivity.
Qed.

Theorem agree_convert_substitutions : forall S fuel t o sc,
  sem_cached_scope S o = Some (absg sc) ->
  Forall (fun xk => gheight (snd xk) <= fuel /\ gk_typed (snd xk) = true) t ->
  gen_convert_substitutions fuel S t o
  = match convert_substs (gs_sig S) sc (tk_subst t) with
    | Some (sc', d) => Some (absg sc', dict_of d)
    | None => None
    end.
Proof.
  intros S fuel t o sc Hc HF. unfold gen_convert_substitutions. cbv zeta. rewrite Hc.
  match goal with |- context [st_fold ?f ?s0 t] =>
    pose proof (st_fold_sim (fun (a:gscope * list (N * kpat)) (b:scope * list (N * kpat)) => fst a = absg (fst b) /\ snd a = snd b)
                  (fun xk => gheight (snd xk) <= fuel /\ gk_typed (snd xk) = true) f (model_subst_step (gs_sig S))) as SIM;
    specialize (fun H => SIM H t s0 (sc, []) HF (conj eq_refl eq_refl))
  end.
  match type of SIM with ?A -> _ => assert (STEP : A) end.
  { intros [gs acc] [sc0 acc0] [x k] [Hh Ht] [E1 E2]. simpl in E1, E2, Hh, Ht. subst gs acc.
    unfold model_subst_step. cbn [fst snd]. cbv beta iota zeta.
    rewrite agree_lookup_metavar. destruct (meta_id sc0 x) as [i|]; cbn [option_map sim_opt]; [|reflexivity].
    cbv beta iota. rewrite (agree_convert_pattern S fuel k Hh Ht sc0).
    destruct (convert (gs_sig S) sc0 (to_kore k)) as [[sc1 p]|]; cbn [lift sim_opt metavar_name]; [|reflexivity].
    eexists. split; [reflexivity|]. split; reflexivity. }
  specialize (SIM STEP). rewrite model_subst_fold in SIM. unfold sim_opt in SIM.
  match goal with |- context [st_fold ?f ?s0 t] => destruct (st_fold f s0 t) as [[g2 d2]|] end.
  - destruct SIM as [[sc2 dm] [E [R1 R2]]]. simpl in R1, R2. subst.
    destruct (convert_substs (gs_sig S) sc (tk_subst t)) as [[sc' d]|]; [|discriminate]. inversion E; subst. reflexivity.
  - destruct (convert_substs (gs_sig S) sc (tk_subst t)) as [[sc' d]|]; [discriminate | reflexivity].
Qed.

(** a Python dict never holds a key twice: with distinct keys [dict_of] is the identity *)
Lemma nd_set_new : forall (d:list (N * kpat)) k v, ~ In k (map fst d) -> nd_set d k v = d ++ [(k, v)].
Proof.
  induction d as [|[k' w] d IH]; intros k v H; simpl in *; [reflexivity|].
  destruct (N.eqb k k') eqn:E; [apply N.eqb_eq in E; subst; exfalso; apply H; left; reflexivity|].
  rewrite IH; [reflexivity|]. intros Hin. apply H. right. exact Hin.
Qed.

Lemma dict_of_nodup : forall d, NoDup (map fst d) -> dict_of d = d.
Proof.
  unfold dict_of. intros d ND.
  assert (G : forall acc, NoDup (map fst (acc ++ d)) ->
              fold_left (fun acc ip => nd_set acc (fst ip) (snd ip)) d acc = acc ++ d).
  { clear ND. induction d as [|[k v] d IH]; intros acc ND; simpl; [rewrite app_nil_r; reflexivity|].
    rewrite nd_set_new.
    - rewrite IH; rewrite <- app_assoc; [reflexivity | exact ND].
    - rewrite map_app in ND. simpl in ND. apply NoDup_remove_2 in ND. intros Hin. apply ND. apply in_or_app. left. exact Hin. }
  apply (G []). exact ND.
Qed.

(** * The trace step: [add_axiom] ... [rewrite_event], [from_proof_hints] (repaired code = [guards_sound]) *)
Definition absx (st:estate) : gexec := mkX (e_cur st) (m_axioms (e_mod st)) (m_claims (e_mod st)) (m_proofs (e_mod st)).

Lemma agree_add_axiom : forall x a, gen_add_axiom x a = Some (set_axioms x (add_axiom (x_axioms x) a)).
Proof.
  intros x a. unfold gen_add_axiom, add_axiom, pat_in. destruct (pmem a (x_axioms x)); simpl; [|reflexivity].
  destruct x; reflexivity.
Qed.

Lemma agree_add_axioms : forall l x, gen_add_axioms x l = Some (set_axioms x (add_axioms (x_axioms x) l)).
Proof.
  unfold gen_add_axioms, add_axioms.
  assert (G : forall l x, st_fold (fun v_self v_axiom => match gen_add_axiom v_self v_axiom with None => None | Some v_self => Some v_self end) x l
              = Some (set_axioms x (fold_left add_axiom l (x_axioms x)))).
  { induction l as [|a t IH]; intros x; cbn [st_fold fold_left]; [destruct x; reflexivity|].
    rewrite agree_add_axiom. rewrite IH. destruct x; reflexivity. }
  intros l x. rewrite G. reflexivity.
Qed.

Lemma agree_collect_functional : forall S d,
  gen_collect_functional_axioms S d
  = option_map (map (fun p => ("FunctionalSymbol", p))) (functional_axioms S d).
Proof.
  intros S d. unfold gen_collect_functional_axioms, functional_axioms.
  assert (G : forall (l:list (N * kpat)) acc,
    st_fold (fun v_subst_axioms v_pattern =>
               let v_sym := nary_head v_pattern in
               if is_symbol v_sym then
                 let v_k_sym := sem_resolve_to_ksymbol S v_sym in
                 match v_k_sym with
                 | None => None
                 | Some v_k_sym => if ks_functional v_k_sym
                                   then let v_converted_pattern := p_functional v_pattern in
                                        let v_subst_axioms := v_subst_axioms ++ [("FunctionalSymbol", v_converted_pattern)] in Some v_subst_axioms
                                   else None
                 end
               else None) acc (map snd l)
    = option_map (fun r => acc ++ map (fun p => ("FunctionalSymbol", p)) r) (map_opt (fun kv => functional_axiom S (snd kv)) l)).
  { induction l as [|[k v] l IH]; intros acc; cbn [st_fold map map_opt snd option_map]; [rewrite app_nil_r; reflexivity|].
    unfold functional_axiom at 1, nary_head, sem_resolve_to_ksymbol. cbv zeta.
    destruct (app_head v); cbn [is_symbol]; try reflexivity.
    destruct (strip_prefix "ksym_" s); [|reflexivity]. destruct (find_symbol S s0); [|reflexivity].
    destruct (ks_functional k0); [|reflexivity]. rewrite IH.
    destruct (map_opt (fun kv => functional_axiom S (snd kv)) l); cbn [option_map map]; [rewrite <- app_assoc; reflexivity | reflexivity]. }
  rewrite G. destruct (map_opt _ d); reflexivity.
Qed.

Lemma pmem_add_axiom : forall l a, pmem a (add_axiom l a) = true.
Proof. intros l a. apply pmem_In. apply add_axiom_incl. Qed.

Theorem agree_rewrite_event : forall S st rule d,
  gen_rewrite_event S (absx st) rule d
  = option_map (fun st' => (absx st', (r_pat rule, d))) (rewrite_event guards_sound S st (r_pat rule) d).
Proof.
  intros S st rule d. unfold gen_rewrite_event, rewrite_event, gen_add_assumptions_for_rewrite_step, gen_add_assumptions,
    gen_current_configuration.
  destruct (match_rewrites (inst d (r_pat rule))) as [[[s l] r]|]; [|reflexivity]. cbn [fst snd absx x_cur].
  destruct (kpat_eqb l (e_cur st)); [|reflexivity].
  rewrite agree_collect_functional. destruct (functional_axioms S d) as [fas|]; cbn [option_map]; [|reflexivity].
  cbv beta iota zeta. rewrite agree_add_axioms. cbv beta iota zeta. rewrite agree_add_axiom. cbv beta iota zeta.
  rewrite map_map. cbn [snd]. rewrite map_id.
  unfold prim_load_axiom, set_claims, set_axioms, set_proofs, set_cur, prim_dynamic_inst. cbn [x_axioms x_claims x_proofs x_cur absx].
  rewrite pmem_add_axiom. cbn [g_unique_claims guards_sound andb]. reflexivity.
Qed.

Theorem agree_from_proof_hints : forall S hs,
  gen_from_proof_hints hs S = from_hints guards_sound S hs.
Proof.
  intros S hs. unfold gen_from_proof_hints, from_hints.
  set (F := fun (v_proof_expr:option gexec) (v_hint:hint) => _).
  assert (G : forall hs st, st_fold F (Some (absx st)) hs = option_map (fun st' => Some (absx st')) (run guards_sound S st hs)).
  { induction hs0 as [|h t IH]; intros st; simpl; [reflexivity|].
    unfold F at 1. unfold step, is_rewriting. destruct (r_kind (h_rule h)); [|reflexivity].
    cbv iota beta. rewrite agree_rewrite_event.
    destruct (rewrite_event guards_sound S st (r_pat (h_rule h)) (h_subst h)) as [st1|]; simpl; [apply IH | reflexivity]. }
  destruct hs as [|h0 t]; [reflexivity|].
  change (st_fold F None (h0 :: t)) with
    (match F None h0 with None => None | Some s1 => st_fold F s1 t end).
  assert (E : F None h0 = F (Some (absx (mkSt (h_before h0) empty_module))) h0) by reflexivity.
  rewrite E. change (match F (Some (absx (mkSt (h_before h0) empty_module))) h0 with None => None | Some s1 => st_fold F s1 t end)
    with (st_fold F (Some (absx (mkSt (h_before h0) empty_module))) (h0 :: t)).
  rewrite G. destruct (run guards_sound S (mkSt (h_before h0) empty_module) (h0 :: t)) as [st'|]; simpl; [|reflexivity].
  destruct st' as [c [a cl pr]]. reflexivity.
Qed.

(** * The property theorems transported to the generated functions *)
Lemma lift_some : forall {A} (r:option (scope * A)) g a, lift r = Some (g, a) -> exists sc, r = Some (sc, a) /\ g = absg sc.
Proof. intros A [[sc b]|] g a H; simpl in H; [inversion H; subst; eauto | discriminate]. Qed.

(** Kore-level substitution on pyk terms (binders are not substituted) *)
Fixpoint gsubst (t:list (string * gkore)) (k:gkore) : gkore :=
  match k with
  | GEVar x s => match assoc x t with Some v => v | None => k end
  | GRewrites s l r => GRewrites s (gsubst t l) (gsubst t r)
  | GAnd s ops => GAnd s (map (gsubst t) ops)
  | GOr s ops => GOr s (map (gsubst t) ops)
  | GIn s1 s2 l r => GIn s1 s2 (gsubst t l) (gsubst t r)
  | GNot s p => GNot s (gsubst t p)
  | GNext s p => GNext s (gsubst t p)
  | GImplies s l r => GImplies s (gsubst t l) (gsubst t r)
  | GCeil s1 s2 p => GCeil s1 s2 (gsubst t p)
  | GFloor s1 s2 p => GFloor s1 s2 (gsubst t p)
  | GIff s l r => GIff s (gsubst t l) (gsubst t r)
  | GEquals s1 s2 l r => GEquals s1 s2 (gsubst t l) (gsubst t r)
  | GApp f ss args => GApp f ss (map (gsubst t) args)
  | GExists s v p => GExists s v (gsubst t p)
  | GForall s v p => GForall s v (gsubst t p)
  | GMu v p => GMu v (gsubst t p)
  | GNu v p => GNu v (gsubst t p)
  | GSVar _ _ | GTop _ | GBottom _ | GDV _ _ => k
  end.

Section GkoreInd.
  Variable P : gkore -> Prop.
  Hypothesis H2 : forall k, (forall a, gheight a < gheight k -> P a) -> P k.
  Lemma gkore_height_ind : forall k, P k.
  Proof.
    assert (G : forall n k, gheight k < n -> P k).
    { induction n as [|n IH]; intros k Hk; [lia|]. apply H2. intros a Ha. apply IH. lia. }
    intros k. apply (G (S (gheight k))). lia.
  Qed.
End GkoreInd.

Lemma assoc_tk : forall x t, assoc x (tk_subst t) = option_map to_kore (assoc x t).
Proof.
  induction t as [|[y v] t IH]; simpl; [reflexivity|]. destruct (String.eqb x y); [reflexivity | exact IH].
Qed.

Lemma map_ext_height : forall (f g:gkore -> kore) (l:list gkore) n,
  fold_right (fun a m => Nat.max (gheight a) m) O l < n ->
  (forall a, gheight a < n -> f a = g a) -> map f l = map g l.
Proof.
  induction l as [|a t IH]; intros n Hn H; simpl in *; [reflexivity|].
  rewrite (H a) by lia. erewrite IH; [reflexivity | | exact H]. lia.
Qed.

Lemma to_kore_gsubst : forall t k,
  gk_typed k = true -> bound_ok (map fst t) (to_kore k) = true ->
  to_kore (gsubst t k) = ksubst (tk_subst t) (to_kore k).
Proof.
  intros t k. induction k as [k IH] using gkore_height_ind. intros Ht Hb.
  assert (ML : forall l, fold_right (fun a m => Nat.max (gheight a) m) O l < gheight k ->
               forallb gk_typed l = true -> forallb (bound_ok (map fst t)) (map to_kore l) = true ->
               map to_kore (map (gsubst t) l) = map (ksubst (tk_subst t)) (map to_kore l)).
  { induction l as [|a r IHr]; intros Hl T B; simpl in *; [reflexivity|].
    apply andb_true_iff in T. destruct T. apply andb_true_iff in B. destruct B.
    rewrite IH by (auto; lia). rewrite IHr by (auto; lia). reflexivity. }
  destruct k; cbn [gsubst to_kore ksubst map]; simpl in Ht, Hb; cbn [gheight] in IH, ML;
    repeat match goal with H : _ && _ = true |- _ => apply andb_true_iff in H; destruct H end;
    try reflexivity;
    try (repeat rewrite IH by (auto; lia); reflexivity);
    try (rewrite ML by (auto; lia); reflexivity).
  - (* EVar *) rewrite assoc_tk. destruct (assoc name t); reflexivity.
  - (* Exists *)
    destruct k1; try discriminate. cbn [gvar_sort to_kore ksubst map].
    rewrite assoc_tk.
    cbn [to_kore] in H. apply negb_true_iff in H. apply existsb_eqb_false in H. rewrite (assoc_none _ _ H).
    cbn [option_map]. rewrite IH by (auto; cbn [gheight]; lia). reflexivity.
Qed.

Lemma gsubst_typed : forall t k,
  gk_typed k = true -> Forall (fun xk => gk_typed (snd xk) = true) t -> gk_typed (gsubst t k) = true.
Proof.
  intros t k. induction k as [k IH] using gkore_height_ind. intros Ht HF.
  assert (ML : forall l, fold_right (fun a m => Nat.max (gheight a) m) O l < gheight k ->
               forallb gk_typed l = true -> forallb gk_typed (map (gsubst t) l) = true).
  { induction l as [|a r IHr]; intros Hl T; simpl in *; [reflexivity|].
    apply andb_true_iff in T. destruct T. rewrite IH by (auto; lia). rewrite IHr by (auto; lia). reflexivity. }
  destruct k; cbn [gsubst gk_typed]; simpl in Ht; cbn [gheight] in IH, ML;
    repeat match goal with H : _ && _ = true |- _ => apply andb_true_iff in H; destruct H end;
    try reflexivity;
    try (repeat rewrite IH by (auto; lia); reflexivity);
    try (apply ML; auto; lia).
  - (* EVar *)
    destruct (assoc name t) as [v|] eqn:E; [|reflexivity]. apply assoc_In in E.
    rewrite Forall_forall in HF. apply (HF (name, v) E).
  - destruct k1; try discriminate. apply IH; auto. lia.
Qed.

Lemma subst_rel_nodup : forall S sc t d, subst_rel S sc t d -> NoDup (map fst t) -> NoDup (map fst d).
Proof.
  intros S sc t d H. induction H as [|[x v] [i q] t d [H1 H2] HR IH]; intros ND; simpl in *; [constructor|].
  inversion ND as [|? ? Hn ND']; subst. constructor; [|apply IH; exact ND'].
  intros Hin. apply Hn. clear -HR Hin H1.
  induction HR as [|[y w] [j r] t d [G1 G2] _ IHr]; simpl in *; [contradiction|].
  destruct Hin as [E|Hin]; [left; subst; eapply meta_id_inj; eauto | right; auto].
Qed.

Lemma tk_subst_fst : forall t, map fst (tk_subst t) = map fst t.
Proof. intros t. unfold tk_subst. rewrite map_map. reflexivity. Qed.

(** instantiating the converted rule = converting the substituted rule, for the GENERATED converter *)
Theorem source_conv_commutes_subst : forall S fuel fuel2 k g1 p o t g2 d,
  gheight k <= fuel -> gk_typed k = true ->
  Forall (fun xk => gheight (snd xk) <= fuel /\ gk_typed (snd xk) = true) t ->
  NoDup (map fst t) ->
  gen__convert_pattern fuel S gscope0 k = Some (g1, p) ->
  sem_cached_scope S o = Some g1 ->
  gen_convert_substitutions fuel S t o = Some (g2, d) ->
  (nat_len (g_metavars g2) <= 100)%N ->
  bound_ok (map fst t) (to_kore k) = true ->
  gheight (gsubst t k) <= fuel2 ->
  gen__convert_pattern fuel2 S g2 (gsubst t k) = Some (g2, inst d p).
Proof.
  intros S fuel fuel2 k g1 p o t g2 d Hh Ht HF ND H1 Hc H2 Hlen Hb Hh2.
  change gscope0 with (absg scope0) in H1.
  rewrite (agree_convert_pattern S fuel k Hh Ht scope0) in H1.
  apply lift_some in H1. destruct H1 as [sc1 [C1 ->]].
  rewrite (agree_convert_substitutions S fuel t o sc1 Hc HF) in H2.
  destruct (convert_substs (gs_sig S) sc1 (tk_subst t)) as [[sc2 dm]|] eqn:C2; [|discriminate].
  inversion H2; subst g2 d. clear H2.
  pose proof (convert_substs_spec _ _ _ _ _ C2) as [_ R].
  assert (NDk : NoDup (map fst dm)).
  { eapply subst_rel_nodup; [exact R|]. rewrite tk_subst_fst. exact ND. }
  rewrite (dict_of_nodup dm NDk).
  assert (TY : gk_typed (gsubst t k) = true).
  { apply gsubst_typed; [exact Ht|]. eapply Forall_impl; [|exact HF]. intros a [_ Ha]. exact Ha. }
  rewrite (agree_convert_pattern S fuel2 (gsubst t k) Hh2 TY sc2).
  rewrite (to_kore_gsubst t k Ht Hb).
  rewrite (convert_subst_commutes_thm (gs_sig S) scope0 (to_kore k) sc1 p (tk_subst t) sc2 dm C1 C2).
  - reflexivity.
  - unfold absg in Hlen. cbn [g_metavars] in Hlen. rewrite imap_len in Hlen. lia.
  - rewrite tk_subst_fst. exact Hb.
Qed.

(** the scope built by the GENERATED converter: every variable of the term has an entry, and the two
    dicts are injective (distinct names, distinct metavariables) *)
Theorem source_scope_injective : forall S fuel k g p,
  gheight k <= fuel -> gk_typed k = true ->
  gen__convert_pattern fuel S gscope0 k = Some (g, p) ->
  (forall x s, In (x, s) (kevars (to_kore k)) -> exists i, sd_get x (g_metavars g) = Some (PMeta i))
  /\ (forall x y q, sd_get x (g_metavars g) = Some q -> sd_get y (g_metavars g) = Some q -> x = y)
  /\ (forall a b q, sd_get a (g_sortparams g) = Some q -> sd_get b (g_sortparams g) = Some q -> a = b)
  /\ ((nat_len (g_metavars g) <= 100)%N ->
      forall x a q, sd_get x (g_metavars g) = Some q -> sd_get a (g_sortparams g) = Some q -> False).
Proof.
  intros S fuel k g p Hh Ht H. change gscope0 with (absg scope0) in H.
  rewrite (agree_convert_pattern S fuel k Hh Ht scope0) in H. apply lift_some in H. destruct H as [sc [C ->]].
  destruct (scope_injective_thm _ _ _ _ _ C) as [_ [_ [V [I1 [I2 D]]]]].
  unfold absg. cbn [g_metavars g_sortparams]. repeat split.
  - intros x s Hin. destruct (V x s Hin) as [i Hi]. unfold meta_id in Hi. rewrite imap_get.
    destruct (index_of x (sc_meta sc)) as [j|]; [|discriminate]. exists (N.of_nat j). reflexivity.
  - intros x y q Hx Hy. rewrite imap_get in Hx, Hy.
    destruct (index_of x (sc_meta sc)) as [i|] eqn:Ex; [|discriminate].
    destruct (index_of y (sc_meta sc)) as [j|] eqn:Ey; [|discriminate].
    simpl in Hx, Hy. inversion Hx; subst q. inversion Hy as [E]. apply Nat2N.inj in E. subst j.
    eapply index_of_inj; eauto.
  - intros a b q Ha Hb. rewrite imap_get in Ha, Hb.
    destruct (index_of a (sc_sort sc)) as [i|] eqn:Ea; [|discriminate].
    destruct (index_of b (sc_sort sc)) as [j|] eqn:Eb; [|discriminate].
    simpl in Ha, Hb. inversion Ha; subst q. inversion Hb as [E]. unfold SORT_PARAM_METAVAR in E.
    assert (i = j) by lia. subst j. eapply index_of_inj; eauto.
  - intros Hl x a q Hx Ha. rewrite imap_len in Hl. rewrite imap_get in Hx, Ha.
    destruct (index_of x (sc_meta sc)) as [i|] eqn:Ex; [|discriminate].
    destruct (index_of a (sc_sort sc)) as [j|] eqn:Ea; [|discriminate].
    simpl in Hx, Ha. inversion Hx; subst q. inversion Ha as [E]. unfold SORT_PARAM_METAVAR in E.
    apply index_of_lt in Ex. lia.
Qed.

(** no duplicate axiom ([add_axiom]'s membership test) *)
Lemma add_axiom_nodup : forall l a, NoDup l -> NoDup (add_axiom l a).
Proof.
  intros l a ND. unfold add_axiom. destruct (pmem a l) eqn:E; [exact ND|].
  assert (Hn : ~ In a l). { intros Hin. apply pmem_In in Hin. congruence. }
  clear E. induction l as [|b t IH]; simpl; [constructor; [intros []|constructor]|].
  inversion ND as [|? ? Hb ND']; subst. constructor.
  - intros Hin. apply in_app_or in Hin. destruct Hin as [Hin|[->|[]]]; [contradiction|]. apply Hn. left. reflexivity.
  - apply IH; [exact ND'|]. intros Hin. apply Hn. right. exact Hin.
Qed.

Lemma add_axioms_nodup : forall az l, NoDup l -> NoDup (add_axioms l az).
Proof.
  unfold add_axioms. induction az as [|a t IH]; intros l ND; simpl; [exact ND|]. apply IH. apply add_axiom_nodup. exact ND.
Qed.

Theorem source_axioms_nodup : forall S x rule d x' pf,
  NoDup (x_axioms x) -> gen_rewrite_event S x rule d = Some (x', pf) -> NoDup (x_axioms x').
Proof.
  intros S [c a cl pr] rule d x' pf ND H.
  change (mkX c a cl pr) with (absx (mkSt c (mkMod a cl pr))) in H. rewrite agree_rewrite_event in H.
  destruct (rewrite_event guards_sound S (mkSt c (mkMod a cl pr)) (r_pat rule) d) as [st'|] eqn:E; [|discriminate].
  simpl in H. inversion H; subst. unfold rewrite_event in E.
  destruct (match_rewrites _) as [[[s l] r]|]; [|discriminate]. destruct (kpat_eqb _ _); [|discriminate].
  destruct (functional_axioms S d) as [fas|]; [|discriminate]. simpl in E. inversion E; subst. simpl.
  apply add_axiom_nodup. apply add_axioms_nodup. exact ND.
Qed.

(** M6 [K/]: [ExecutionProofExp] (k/execution_proof_generation.py:20-112), the part of
    [LanguageSemantics.from_kore_definition] that turns axioms into rules (language_semantics.py:463-487)
    and [get_proof_hints] (k/kore_convertion/rewrite_steps.py:69-94).  A Python exception is [None].
    Definitions only; proofs are in ExecProofs.v. *)
From Coq Require Import String Ascii NArith List Bool.
From Pi2 Require Import K.Kore.
Import ListNotations.
Open Scope string_scope.
Open Scope list_scope.

(** * Rules and hints ([KRewritingRule]/[KEquationalRule], [RewriteStepExpression]) *)
Inductive rule_kind := RRewrite | REquational.
Record krule := mkRule { r_kind : rule_kind; r_ordinal : N; r_pat : kpat }.
Record hint := mkHint { h_before : kpat; h_after : kpat; h_rule : krule; h_subst : list (N * kpat) }.

(** what [ProofExp] holds for the module: own axioms, claims, proof expressions.  A proof
    expression is always [dynamic_inst(load_axiom(rule.pattern), substitution)], recorded as
    (axiom, delta). *)
Record pmodule := mkMod { m_axioms : list kpat; m_claims : list kpat; m_proofs : list (kpat * list (N * kpat)) }.
Definition empty_module := mkMod [] [] [].
Record estate := mkSt { e_cur : kpat; e_mod : pmodule }.

(** [kore_rewrites.assert_matches(p)]: [match_single(kore_rewrites.definition, p)] on the expansion.
    The definition is linear in phi0, phi1, phi2, so matching is purely structural. *)
Definition is_bot (p:kpat) : bool := kpat_eqb p p_bot.
Definition match_rewrites (p:kpat) : option (kpat * kpat * kpat) :=
  match p with
  | PImp (PImp (PImp (PImp (PImp l b1) (PImp (PApp (PSym i) s) b2)) b3) b4) (PApp (PSym n) r) =>
      if is_bot b1 && is_bot b2 && is_bot b3 && is_bot b4
         && String.eqb i sym_inhabitant && String.eqb n sym_kore_next
      then Some (s, l, r) else None
  | _ => None
  end.

(** [kl.deconstruct_nary_application(p)[0]] *)
Fixpoint app_head (p:kpat) : kpat := match p with PApp l _ => app_head l | _ => p end.

(** [KSymbol.unwrap_kore_name]: strip the prefix "ksym_" *)
Fixpoint strip_prefix (pre s:string) : option string :=
  match pre with
  | EmptyString => Some s
  | String c pre' => match s with
                     | String d s' => if Ascii.eqb c d then strip_prefix pre' s' else None
                     | EmptyString => None
                     end
  end.

(** [collect_functional_axioms]: every substituted value must be an application of a symbol
    "ksym_<n>" with <n> declared functional, else AssertionError *)
Definition functional_axiom (S:sig) (v:kpat) : option kpat :=
  match app_head v with
  | PSym s => match strip_prefix "ksym_" s with
              | Some n => match find_symbol S n with
                          | Some y => if ks_functional y then Some (p_functional v) else None
                          | None => None
                          end
              | None => None
              end
  | _ => None
  end.
Definition functional_axioms (S:sig) (d:list (N * kpat)) : option (list kpat) :=
  map_opt (fun kv => functional_axiom S (snd kv)) d.

Definition pmem (p:kpat) (l:list kpat) : bool := existsb (kpat_eqb p) l.
(** [ProofExp.add_axiom]: append unless already present *)
Definition add_axiom (l:list kpat) (a:kpat) : list kpat := if pmem a l then l else l ++ [a].
Definition add_axioms (l:list kpat) (az:list kpat) : list kpat := fold_left add_axiom az l.

(** Guards (DESIGN 2.1): [g_unique_claims = true] is the behaviour of the tree as first pinned --
    [rewrite_event] registered the claim through [ProofExp.add_claim], whose
    [assert claim not in self._claims] refuses a trace that repeats a step (a cycle a => b => a => b).
    [guards_sound] is what the property needs and what the repaired code does. *)
Record guards := mkGuards { g_unique_claims : bool }.
Definition guards_sound := mkGuards false.
Definition guards_pinned := mkGuards true.

(** [ExecutionProofExp.rewrite_event(rule, substitution)] *)
Definition rewrite_event (G:guards) (S:sig) (st:estate) (r:kpat) (d:list (N * kpat)) : option estate :=
  let ia := inst d r in
  match match_rewrites ia with
  | None => None
  | Some (_, lhs, rhs) =>
      if kpat_eqb lhs (e_cur st) then
        match functional_axioms S d with
        | None => None
        | Some fas =>
            let m := e_mod st in
            let axs := add_axiom (add_axioms (m_axioms m) fas) r in
            if g_unique_claims G && pmem ia (m_claims m) then None   (* add_claim's assertion *)
            else Some (mkSt rhs (mkMod axs (m_claims m ++ [ia]) (m_proofs m ++ [(r, d)])))
        end
      else None
  end.

Definition step (G:guards) (S:sig) (st:estate) (h:hint) : option estate :=
  match r_kind (h_rule h) with
  | RRewrite => rewrite_event G S st (r_pat (h_rule h)) (h_subst h)
  | REquational => None      (* NotImplementedError *)
  end.

Fixpoint run (G:guards) (S:sig) (st:estate) (hs:list hint) : option estate :=
  match hs with
  | [] => Some st
  | h :: t => do st' <- step G S st h; run G S st' t
  end.

(** [ExecutionProofExp.from_proof_hints(hints, language_semantics)] *)
Definition from_hints (G:guards) (S:sig) (hs:list hint) : option pmodule :=
  match hs with
  | [] => Some empty_module
  | h0 :: _ => option_map e_mod (run G S (mkSt (h_before h0) empty_module) hs)
  end.

(** * The property's vocabulary *)
Definition inst_rule (h:hint) : kpat := inst (h_subst h) (r_pat (h_rule h)).

Fixpoint chained_from (cur:kpat) (hs:list hint) : Prop :=
  match hs with
  | [] => True
  | h :: t => exists s r, match_rewrites (inst_rule h) = Some (s, cur, r) /\ chained_from r t
  end.
(** every step starts from the configuration the previous one reached (the first one from the
    initial configuration) *)
Definition chained (hs:list hint) : Prop :=
  match hs with [] => True | h0 :: _ => chained_from (h_before h0) hs end.

(** * Loading a definition: axioms -> rules with their cached scopes *)
Definition is_node (op:kop) (k:kore) : bool :=
  match k, op with
  | KNode OpAnd _ _, OpAnd | KNode OpEquals _ _, OpEquals | KNode OpRewrites _ _, OpRewrites
  | KNode OpImplies _ _, OpImplies => true
  | _, _ => false
  end.

(** [is_rewrite_rule] + "remove side conditions": Rewrites(sort, And(_, l::_), And(_, r::_)) -> Rewrites(sort, l, r).
    (Python takes [ops[0]]; an empty [And] would raise IndexError = [None] below.) *)
Inductive axiom_class := AxRewrite (k:kore) | AxEquational (k:kore) | AxOther | AxError.
Definition classify (k:kore) : axiom_class :=
  match k with
  | KNode OpRewrites ss [KNode OpAnd _ lops; KNode OpAnd _ rops] =>
      match lops, rops with
      | l :: _, r :: _ => AxRewrite (KNode OpRewrites ss [l; r])
      | _, _ => AxError
      end
  | KNode OpImplies _ [_; r] =>
      if is_node OpEquals r then AxEquational k
      else match r with
           | KNode OpAnd _ ops => if existsb (is_node OpEquals) ops then AxEquational k else AxOther
           | _ => AxOther
           end
  | _ => AxOther
  end.

Record lrule := mkLRule { lr_rule : krule; lr_scope : scope }.

(** ordinals are positions in the axiom list (one shared counter over all modules) *)
Fixpoint load_axioms (S:sig) (n:N) (axs:list kore) : option (list lrule) :=
  match axs with
  | [] => Some []
  | a :: t =>
      match classify a with
      | AxRewrite k => do (sc, p) <- convert S scope0 k;
                       do rs <- load_axioms S (N.succ n) t; Some (mkLRule (mkRule RRewrite n p) sc :: rs)
      | AxEquational k => do (sc, p) <- convert S scope0 k;
                          do rs <- load_axioms S (N.succ n) t; Some (mkLRule (mkRule REquational n p) sc :: rs)
      | AxOther => load_axioms S (N.succ n) t
      | AxError => None
      end
  end.

Definition get_axiom (rs:list lrule) (o:N) : option lrule :=
  find (fun r => N.eqb o (r_ordinal (lr_rule r))) rs.

(** * [get_proof_hints]: the LLVM trace as hint objects *)
Inductive titem :=
| TRule (ord:N) (sub:list (string * kore))    (* LLVMRuleEvent *)
| TConfig (k:kore)                            (* kore.Pattern *)
| TOther.                                     (* side-condition / function / hook events *)

(** the loop over [zip(trace, trace[1:])]; [post] is [post_config] *)
Fixpoint hints_of_items (S:sig) (rs:list lrule) (post:kpat) (items:list titem) : option (list hint) :=
  match items with
  | TRule o sub :: ((TConfig c :: _) as rest) =>
      do post' <- convert_pattern S c;
      do lr <- get_axiom rs o;
      do (_, d) <- convert_substs S (lr_scope lr) (py_dict sub);
      do hs <- hints_of_items S rs post' rest;
      Some (mkHint post post' (lr_rule lr) d :: hs)
  | _ :: rest => hints_of_items S rs post rest
  | [] => Some []
  end.

Definition hints_of_trace (S:sig) (rs:list lrule) (init:kore) (items:list titem) : option (list hint) :=
  do pre <- convert_pattern S init; hints_of_items S rs pre items.

(** the whole pipeline of k/proof_gen.py from parsed objects on *)
Definition gen_module (G:guards) (S:sig) (axs:list kore) (init:kore) (items:list titem) : option pmodule :=
  do rs <- load_axioms S 0 axs;
  do hs <- hints_of_trace S rs init items;
  from_hints G S hs.

(** Link from the K model to the checker model (lead's [ML/Subst.v], rust/src/lib.rs:529-676):
    the checker's [Instantiate] rule applied to a published rule axiom with the plugs recorded in a
    proof expression computes exactly the claim registered for that step.  Patterns are mapped into
    the checker's [pat] by any symbol table [sym : string -> N] (the serialiser's first-occurrence
    numbering is one); metavariables of the K model carry no constraints. *)
From Coq Require Import String NArith List Bool Lia.
From Pi2 Require Import ML.Syntax ML.Subst.
From Pi2 Require Import K.Kore K.Exec K.ExecProofs.
Import ListNotations.
Open Scope list_scope.

Section Enc.
Variable sym : string -> N.

Fixpoint enc (p:kpat) : pat :=
  match p with
  | PEVar n => EVar n
  | PSVar n => SVar n
  | PSym s => Sym (sym s)
  | PImp l r => Imp (enc l) (enc r)
  | PApp l r => App (enc l) (enc r)
  | PEx x q => Ex x (enc q)
  | PMu X q => Mu X (enc q)
  | PMeta n => MVar n [] [] [] [] []
  end.

Definition ids_of (d:list (N * kpat)) : list N := map fst d.
Definition plugs_of (d:list (N * kpat)) : list pat := map (fun kv => enc (snd kv)) d.

Lemma lookup_agree : forall d n,
  Pi2.ML.Subst.lookup n (ids_of d) (plugs_of d) =
  match Pi2.K.Kore.lookup n d with Some q => Some (Some (enc q)) | None => None end.
Proof.
  induction d as [|[k v] d IH]; intros n; simpl; [reflexivity|].
  rewrite N.eqb_sym. destruct (N.eqb n k); [reflexivity | apply IH].
Qed.

Theorem checker_inst_agrees : forall g d p,
  Pi2.ML.Subst.inst g (enc p) (ids_of d) (plugs_of d) = Some (enc (Pi2.K.Kore.inst d p)).
Proof.
  intros g d. induction p as [n|n|s|l IHl r IHr|l IHl r IHr|x q IH|x q IH|n]; simpl; try reflexivity.
  - rewrite IHl, IHr. reflexivity.
  - rewrite IHl, IHr. reflexivity.
  - rewrite IH. reflexivity.
  - rewrite IH. reflexivity.
  - rewrite lookup_agree. destruct (Pi2.K.Kore.lookup n d) as [q|]; [|reflexivity].
    unfold chk, check_constraints. simpl. destruct (g_inst_constraints g); reflexivity.
Qed.

(** the machine pairs the ids of the instruction ([reversed(delta.keys())]) with the plugs popped
    from the stack (last pushed first): both lists reversed.  A Python dict has no duplicate key. *)
Lemma klookup_app : forall d1 d2 n,
  Pi2.K.Kore.lookup n (d1 ++ d2) = match Pi2.K.Kore.lookup n d1 with Some q => Some q | None => Pi2.K.Kore.lookup n d2 end.
Proof.
  induction d1 as [|[k v] d1 IH]; intros d2 n; simpl; [reflexivity|].
  destruct (N.eqb n k); [reflexivity | apply IH].
Qed.

Lemma klookup_none : forall d n, ~ In n (map fst d) -> Pi2.K.Kore.lookup n d = None.
Proof.
  induction d as [|[k v] d IH]; intros n H; simpl in *; [reflexivity|].
  destruct (N.eqb n k) eqn:E.
  - apply N.eqb_eq in E. subst. exfalso. apply H. left. reflexivity.
  - apply IH. intros Hin. apply H. right. exact Hin.
Qed.

Lemma klookup_rev : forall d n, NoDup (map fst d) -> Pi2.K.Kore.lookup n (rev d) = Pi2.K.Kore.lookup n d.
Proof.
  induction d as [|[k v] d IH]; intros n ND; simpl in *; [reflexivity|].
  inversion ND as [|? ? Hnin ND']; subst. rewrite klookup_app, (IH n ND'). simpl.
  destruct (N.eqb n k) eqn:E.
  - apply N.eqb_eq in E. subst. rewrite (klookup_none d k Hnin). reflexivity.
  - destruct (Pi2.K.Kore.lookup n d); reflexivity.
Qed.

Lemma kinst_rev : forall d p, NoDup (map fst d) -> Pi2.K.Kore.inst (rev d) p = Pi2.K.Kore.inst d p.
Proof.
  intros d p ND. induction p as [n|n|s|l IHl r IHr|l IHl r IHr|x q IH|x q IH|n]; simpl; try reflexivity;
    try (rewrite IHl, IHr; reflexivity); try (rewrite IH; reflexivity).
  rewrite (klookup_rev d n ND). reflexivity.
Qed.

Theorem checker_inst_agrees_machine_order : forall g d p,
  NoDup (map fst d) ->
  Pi2.ML.Subst.inst g (enc p) (rev (ids_of d)) (rev (plugs_of d)) = Some (enc (Pi2.K.Kore.inst d p)).
Proof.
  intros g d p ND. unfold ids_of, plugs_of. rewrite <- !map_rev.
  change (Pi2.ML.Subst.inst g (enc p) (ids_of (rev d)) (plugs_of (rev d)) = Some (enc (Pi2.K.Kore.inst d p))).
  rewrite checker_inst_agrees, (kinst_rev d p ND). reflexivity.
Qed.

(** for every step of a produced module: the checker's Instantiate of the (published) rule axiom
    with the recorded plugs is exactly the step's claim *)
Theorem steps_check_thm : forall g G S hs m,
  from_hints G S hs = Some m ->
  Forall (fun h => NoDup (map fst (h_subst h))) hs ->
  Forall2 (fun c ad =>
             In (fst ad) (Pi2.K.Exec.m_axioms m)
             /\ Pi2.ML.Subst.inst g (enc (fst ad)) (rev (ids_of (snd ad))) (rev (plugs_of (snd ad))) = Some (enc c))
          (Pi2.K.Exec.m_claims m) (Pi2.K.Exec.m_proofs m).
Proof.
  intros g G S hs m H ND. destruct (claims_derivable_thm _ _ _ _ H) as [D1 [D2 [D3 _]]].
  rewrite D2. clear D2. rewrite D1 in *. clear D1 H.
  induction hs as [|h t IH]; simpl in *; [constructor|].
  inversion ND as [|? ? N1 N2]; subst. inversion D3 as [|? ? A1 A2]; subst.
  constructor; [|apply IH; assumption].
  split; [exact A1|]. simpl. apply checker_inst_agrees_machine_order. exact N1.
Qed.
End Enc.

(** M6 [K/]: Kore terms, the conversion scope and [_convert_pattern]
    (generation/src/proof_generation/k/kore_convertion/language_semantics.py:306-344, 539-551, 584-703)
    together with the kore notations of proofs/kore.py / proofs/definedness.py / pattern.py,
    FULLY EXPANDED (the target type [kpat] is the generator's [Pattern] without [Instantiate]:
    Python's [==] on patterns is equality of full expansions, so structural equality on [kpat]
    is the model of [==]).  Definitions only; proofs are in KoreProofs.v. *)
From Coq Require Import String Ascii NArith List Bool.
Import ListNotations.
Open Scope string_scope.
Open Scope list_scope.

(** * Option monad *)
Notation "'do' x <- e ; f" := (match e with Some x => f | None => None end)
  (at level 200, x pattern, e at level 100, f at level 200, right associativity).

Fixpoint map_opt {A B} (f:A -> option B) (l:list A) : option (list B) :=
  match l with
  | [] => Some []
  | a :: t => do b <- f a; do bs <- map_opt f t; Some (b :: bs)
  end.

(** * Kore syntax (pyk.kore.syntax, the part the converter looks at) *)

(** [kore.SortVar(name)] / [kore.SortApp(name, sorts)]: the converter ignores the sort arguments
    of a [SortApp] ([get_sort(sort.name)]), so they are not represented. *)
Inductive ksort := SortVar (n:string) | SortApp (n:string).

(** One uniform node for every connective: [_convert_pattern] treats all of them alike --
    first the sort fields left to right, then the pattern fields left to right, then a notation
    is applied.  [OpExists] has sorts [[var.sort; sort]] and arguments [[var; body]] (the order
    of evaluation at language_semantics.py:685-689).  [OpUnsupported] stands for
    [SVar], [Forall], [Mu], [Nu], [String] ([NotImplementedError]). *)
Inductive kop :=
| OpRewrites | OpAnd | OpOr | OpIn | OpNot | OpNext | OpImplies | OpCeil | OpFloor | OpIff
| OpEquals | OpApp (f:string) | OpTop | OpBottom | OpDV (v:string) | OpExists | OpUnsupported.

Inductive kore :=
| KEVar (x:string) (s:ksort)
| KNode (op:kop) (ss:list ksort) (args:list kore).

(** readable constructors *)
Definition KRewrites s l r := KNode OpRewrites [s] [l; r].
Definition KAnd s ops := KNode OpAnd [s] ops.
Definition KApp f ss args := KNode (OpApp f) ss args.
Definition KExists s x xs body := KNode OpExists [xs; s] [KEVar x xs; body].

(** * Target patterns: pattern.py without [Instantiate]; metavariables produced by the
    converter carry no constraints, so only the id is kept. *)
Inductive kpat :=
| PEVar (n:N) | PSVar (n:N) | PSym (s:string)
| PImp (l r:kpat) | PApp (l r:kpat) | PEx (x:N) (p:kpat) | PMu (X:N) (p:kpat)
| PMeta (n:N).

Fixpoint kpat_eqb (a b:kpat) : bool :=
  match a, b with
  | PEVar n, PEVar m | PSVar n, PSVar m | PMeta n, PMeta m => N.eqb n m
  | PSym s, PSym t => String.eqb s t
  | PImp l r, PImp l' r' | PApp l r, PApp l' r' => kpat_eqb l l' && kpat_eqb r r'
  | PEx x p, PEx y q | PMu x p, PMu y q => N.eqb x y && kpat_eqb p q
  | _, _ => false
  end.

(** [Pattern.instantiate(delta)] on expanded patterns; [delta] is a Python dict, modelled as an
    association list looked up by first match. *)
Fixpoint lookup (n:N) (d:list (N * kpat)) : option kpat :=
  match d with
  | [] => None
  | (k, v) :: t => if N.eqb n k then Some v else lookup n t
  end.

Fixpoint inst (d:list (N * kpat)) (p:kpat) : kpat :=
  match p with
  | PMeta n => match lookup n d with Some q => q | None => PMeta n end
  | PImp l r => PImp (inst d l) (inst d r)
  | PApp l r => PApp (inst d l) (inst d r)
  | PEx x q => PEx x (inst d q)
  | PMu X q => PMu X (inst d q)
  | PEVar _ | PSVar _ | PSym _ => p
  end.

(** * Notations, expanded (pattern.py:585-590, definedness.py:7-13, kore.py:20-113) *)
Definition p_bot := PMu 0 (PSVar 0).
Definition p_neg p := PImp p p_bot.
Definition p_and a b := p_neg (PImp a (p_neg b)).
Definition p_or a b := PImp (p_neg a) b.
Definition p_equiv a b := p_and (PImp a b) (PImp b a).
Definition sym_defined := "⌈_⌉".
Definition p_ceil p := PApp (PSym sym_defined) p.
Definition p_floor p := p_neg (p_ceil (p_neg p)).
Definition p_subset a b := p_floor (PImp a b).
Definition p_equals a b := p_floor (p_equiv a b).
(** [functional = Exists(0, equals(EVar(0), MetaVar(0, e_fresh=(EVar(0),))))] applied to [p] *)
Definition p_functional p := PEx 0 (p_equals (PEVar 0) p).

Definition sym_inhabitant := "inhabitant".
Definition sym_kore_next := "kore_next".
Definition sym_kore_dv := "kore_dv".
Definition sym_kore_kseq := "kore_kseq".
Definition p_inh s := PApp (PSym sym_inhabitant) s.
Definition p_in_sort e s := p_subset e (p_inh s).
Definition p_sorted_exists (v:N) s p := PEx v (p_and (p_in_sort (PEVar v) s) p).
Definition kore_top s := p_inh s.
Definition kore_not s p := p_and (p_neg p) (kore_top s).
Definition kore_and (s a b:kpat) := p_and a b.
Definition kore_or (s a b:kpat) := p_or a b.
Definition kore_next (s p:kpat) := PApp (PSym sym_kore_next) p.
Definition kore_implies s a b := kore_or s (kore_not s a) b.
Definition kore_rewrites s a b := kore_implies s a (kore_next s b).
Definition kore_dv s v := PApp (PApp (PSym sym_kore_dv) s) v.
Definition kore_ceil (s1 s2 p:kpat) := p_and (p_ceil p) (kore_top s2).
Definition kore_floor s1 s2 p := kore_not s2 (kore_ceil s1 s2 (kore_not s1 p)).
Definition kore_iff s a b := kore_and s (kore_implies s a b) (kore_implies s b a).
Definition kore_equals s1 s2 a b := kore_floor s1 s2 (kore_iff s1 a b).
Definition kore_kseq a b := PApp (PApp (PSym sym_kore_kseq) a) b.
Definition kore_in s1 s2 a b := kore_floor s1 s2 (kore_implies s1 a b).
Definition kore_bottom (s:kpat) := p_bot.
Definition kore_exists (v:N) s1 s2 p := p_and (p_sorted_exists v s1 p) (p_inh s2).
(** [nary_app(symbol, n)] applied to [args] = [App(...App(symbol, a0)..., a_{n-1})] *)
Definition nary_app (head:kpat) (args:list kpat) := fold_left PApp args head.

(** * Signature: what [LanguageSemantics.get_sort/get_symbol] can answer.  Flat (one table);
    the module/import structure only matters for lookup order of duplicate names. *)
Record ksymbol := mkSym { ks_name : string; ks_nparams : nat; ks_nargs : nat; ks_functional : bool }.
Record sig := mkSig { sg_sorts : list string; sg_symbols : list ksymbol }.

Definition has_sort (S:sig) (n:string) : bool := existsb (String.eqb n) (sg_sorts S).
Definition find_symbol (S:sig) (n:string) : option ksymbol :=
  find (fun y => String.eqb n (ks_name y)) (sg_symbols S).

(** * ConvertionScope: name -> id by first occurrence.  [sc_meta] are the keys of [_metavars]
    in insertion order (id = position), [sc_sort] those of [_sort_param_metavars]
    (id = SORT_PARAM_METAVAR + position).  [_evars]/[_svars] are never used by the converter. *)
Record scope := mkScope { sc_meta : list string; sc_sort : list string }.
Definition scope0 := mkScope [] [].
Definition SORT_PARAM_METAVAR : N := 100.

Fixpoint index_of (x:string) (l:list string) : option nat :=
  match l with
  | [] => None
  | y :: t => if String.eqb x y then Some O else option_map S (index_of x t)
  end.

(** [resolve_metavar]/[resolve_sort_param_metavar]: position of [x], appended when absent *)
Definition resolve (x:string) (l:list string) : list string * nat :=
  match index_of x l with
  | Some i => (l, i)
  | None => (l ++ [x], List.length l)
  end.

Definition meta_id (sc:scope) (x:string) : option N := option_map N.of_nat (index_of x (sc_meta sc)).
Definition sortvar_id (sc:scope) (a:string) : option N :=
  option_map (fun j => (SORT_PARAM_METAVAR + N.of_nat j)%N) (index_of a (sc_sort sc)).

Definition ksym_name (f:string) := ("ksym_" ++ f)%string.
Definition ksort_name (n:string) := ("ksort_" ++ n)%string.

(** [_convert_sort] *)
Definition convert_sort (S:sig) (sc:scope) (s:ksort) : option (scope * kpat) :=
  match s with
  | SortVar a => let '(l, j) := resolve a (sc_sort sc) in
                 Some (mkScope (sc_meta sc) l, PMeta (SORT_PARAM_METAVAR + N.of_nat j))
  | SortApp n => if has_sort S n then Some (sc, PSym (ksort_name n)) else None
  end.

Fixpoint convert_sorts (S:sig) (sc:scope) (ss:list ksort) : option (scope * list kpat) :=
  match ss with
  | [] => Some (sc, [])
  | s :: t => do (sc1, p) <- convert_sort S sc s;
              do (sc2, ps) <- convert_sorts S sc1 t; Some (sc2, p :: ps)
  end.

(** the notation applied once sorts and arguments are converted; [None] = Python exception
    (unknown symbol: ValueError; arity: AssertionError in [Notation.__call__]; And/Or with other
    than two operands: AssertionError; unsupported constructor: NotImplementedError). *)
Definition build (S:sig) (op:kop) (pss pas:list kpat) : option kpat :=
  match op, pss, pas with
  | OpRewrites, [s], [l; r] => Some (kore_rewrites s l r)
  | OpAnd, [s], [a; b] => Some (kore_and s a b)
  | OpOr, [s], [a; b] => Some (kore_or s a b)
  | OpIn, [s1; s2], [a; b] => Some (kore_in s1 s2 a b)
  | OpNot, [s], [a] => Some (kore_not s a)
  | OpNext, [s], [a] => Some (kore_next s a)
  | OpImplies, [s], [a; b] => Some (kore_implies s a b)
  | OpCeil, [s1; s2], [a] => Some (kore_ceil s1 s2 a)
  | OpFloor, [s1; s2], [a] => Some (kore_floor s1 s2 a)
  | OpIff, [s], [a; b] => Some (kore_iff s a b)
  | OpEquals, [s1; s2], [a; b] => Some (kore_equals s1 s2 a b)
  | OpApp f, _, _ =>
      match find_symbol S f with
      | None => None
      | Some y =>
          if String.eqb f "kseq" then
            match pss ++ pas with [a; b] => Some (kore_kseq a b) | _ => None end
          else if Nat.eqb (List.length (pss ++ pas)) (ks_nparams y + ks_nargs y)
               then Some (nary_app (PSym (ksym_name f)) (pss ++ pas)) else None
      end
  | OpTop, [s], [] => Some (kore_top s)
  | OpBottom, [s], [] => Some (kore_bottom s)
  | OpDV v, [s], [] => Some (kore_dv s (PSym v))
  | OpExists, [xs; s], [PMeta n; body] => Some (kore_exists n xs s body)
  | _, _, _ => None
  end.

(** [LanguageSemantics._convert_pattern(scope, pattern)]: the scope is threaded (it is mutated in
    place in Python) *)
Fixpoint convert (S:sig) (sc:scope) (k:kore) {struct k} : option (scope * kpat) :=
  match k with
  | KEVar x _ => let '(l, i) := resolve x (sc_meta sc) in
                 Some (mkScope l (sc_sort sc), PMeta (N.of_nat i))
  | KNode op ss args =>
      do (sc1, pss) <- convert_sorts S sc ss;
      do (sc2, pas) <-
         (fix go (sc:scope) (l:list kore) {struct l} : option (scope * list kpat) :=
            match l with
            | [] => Some (sc, [])
            | a :: t => do (sc', pa) <- convert S sc a;
                        do (sc'', pt) <- go sc' t; Some (sc'', pa :: pt)
            end) sc1 args;
      do p <- build S op pss pas; Some (sc2, p)
  end.

Fixpoint convert_list (S:sig) (sc:scope) (l:list kore) : option (scope * list kpat) :=
  match l with
  | [] => Some (sc, [])
  | a :: t => do (sc', pa) <- convert S sc a;
              do (sc'', pt) <- convert_list S sc' t; Some (sc'', pa :: pt)
  end.

(** [LanguageSemantics.convert_pattern]: fresh scope *)
Definition convert_pattern (S:sig) (k:kore) : option kpat := option_map snd (convert S scope0 k).

(** * The specification side: conversion with a FIXED assignment of names (no state) *)
Definition pconvert_sort (S:sig) (sc:scope) (s:ksort) : option kpat :=
  match s with
  | SortVar a => option_map PMeta (sortvar_id sc a)
  | SortApp n => if has_sort S n then Some (PSym (ksort_name n)) else None
  end.

Fixpoint pconvert (S:sig) (sc:scope) (k:kore) {struct k} : option kpat :=
  match k with
  | KEVar x _ => option_map PMeta (meta_id sc x)
  | KNode op ss args =>
      do pss <- map_opt (pconvert_sort S sc) ss;
      do pas <- (fix go (l:list kore) : option (list kpat) :=
                   match l with
                   | [] => Some []
                   | a :: t => do pa <- pconvert S sc a; do pt <- go t; Some (pa :: pt)
                   end) args;
      build S op pss pas
  end.

(** * Kore-level substitution of element variables (by NAME, as the LLVM hints give them) *)
Fixpoint assoc {A} (x:string) (t:list (string * A)) : option A :=
  match t with
  | [] => None
  | (y, v) :: r => if String.eqb x y then Some v else assoc x r
  end.

Fixpoint ksubst (t:list (string * kore)) (k:kore) : kore :=
  match k with
  | KEVar x s => match assoc x t with Some v => v | None => k end
  | KNode op ss args => KNode op ss (map (ksubst t) args)
  end.

(** ground = no element variables, no sort variables *)
Definition sort_ground (s:ksort) : bool := match s with SortVar _ => false | SortApp _ => true end.
Fixpoint ground (k:kore) : bool :=
  match k with
  | KEVar _ _ => false
  | KNode _ ss args => forallb sort_ground ss && forallb ground args
  end.

(** no variable bound by an [Exists] of [k] is in the domain of the substitution (then [ksubst]
    is the textbook capture-avoiding substitution; the values are ground) *)
Fixpoint bound_ok (dom:list string) (k:kore) : bool :=
  match k with
  | KEVar _ _ => true
  | KNode op ss args =>
      match op with
      | OpExists => match args with
                    | KEVar x _ :: _ => negb (existsb (String.eqb x) dom)
                    | _ => false
                    end
      | _ => true
      end && forallb (bound_ok dom) args
  end.

(** [LanguageSemantics.convert_substitutions(subst, ordinal)] with the rule's cached scope:
    [scope.lookup_metavar(name)] raises KeyError for an unknown name; the value is converted in
    the SAME scope (which it may extend when it is not ground). *)
Fixpoint convert_substs (S:sig) (sc:scope) (t:list (string * kore)) : option (scope * list (N * kpat)) :=
  match t with
  | [] => Some (sc, [])
  | (x, v) :: r =>
      match meta_id sc x with
      | None => None
      | Some i => do (sc1, p) <- convert S sc v;
                  do (sc2, d) <- convert_substs S sc1 r; Some (sc2, (i, p) :: d)
      end
  end.

(** [dict(pairs)]: first position, last value *)
Fixpoint dict_set {A} (x:string) (v:A) (d:list (string * A)) : list (string * A) :=
  match d with
  | [] => [(x, v)]
  | (y, w) :: r => if String.eqb x y then (y, v) :: r else (y, w) :: dict_set x v r
  end.
Definition py_dict {A} (l:list (string * A)) : list (string * A) :=
  fold_left (fun d '(x, v) => dict_set x v d) l [].

(** Proofs about [ExecutionProofExp.rewrite_event] / [from_proof_hints] (model: Exec.v). *)
From Coq Require Import String Ascii NArith List Bool Lia.
From Pi2 Require Import K.Kore K.Exec K.KoreProofs.
Import ListNotations.
Open Scope string_scope.
Open Scope list_scope.

(** * Equality test *)
Lemma kpat_eqb_eq : forall a b, kpat_eqb a b = true <-> a = b.
Proof.
  induction a as [n|n|s|l IHl r IHr|l IHl r IHr|x p IH|x p IH|n]; destruct b; simpl;
    try (split; [discriminate | intros E; inversion E]).
  - rewrite N.eqb_eq. split; [intros ->; reflexivity | intros E; inversion E; reflexivity].
  - rewrite N.eqb_eq. split; [intros ->; reflexivity | intros E; inversion E; reflexivity].
  - rewrite String.eqb_eq. split; [intros ->; reflexivity | intros E; inversion E; reflexivity].
  - rewrite andb_true_iff, IHl, IHr. split; [intros [-> ->]; reflexivity | intros E; inversion E; auto].
  - rewrite andb_true_iff, IHl, IHr. split; [intros [-> ->]; reflexivity | intros E; inversion E; auto].
  - rewrite andb_true_iff, N.eqb_eq, IH. split; [intros [-> ->]; reflexivity | intros E; inversion E; auto].
  - rewrite andb_true_iff, N.eqb_eq, IH. split; [intros [-> ->]; reflexivity | intros E; inversion E; auto].
  - rewrite N.eqb_eq. split; [intros ->; reflexivity | intros E; inversion E; reflexivity].
Qed.

Lemma kpat_eqb_refl : forall a, kpat_eqb a a = true.
Proof. intros a. apply kpat_eqb_eq. reflexivity. Qed.

Lemma pmem_In : forall p l, pmem p l = true <-> In p l.
Proof.
  intros p l. unfold pmem. rewrite existsb_exists. split.
  - intros [x [H1 H2]]. apply kpat_eqb_eq in H2. subst. exact H1.
  - intros H. exists p. split; [exact H | apply kpat_eqb_refl].
Qed.

(** * [kore_rewrites.assert_matches] *)
Lemma match_rewrites_intro : forall s l r, match_rewrites (kore_rewrites s l r) = Some (s, l, r).
Proof. intros. reflexivity. Qed.

Lemma is_bot_eq : forall p, is_bot p = true -> p = p_bot.
Proof. intros p H. apply kpat_eqb_eq. exact H. Qed.

Lemma match_rewrites_inv : forall p s l r, match_rewrites p = Some (s, l, r) -> p = kore_rewrites s l r.
Proof.
  intros p s l r H. unfold match_rewrites in H.
  repeat match type of H with
         | context [match ?x with _ => _ end] => is_var x; destruct x; try discriminate
         end.
  match type of H with (if ?c then _ else _) = _ => destruct c eqn:E; [|discriminate] end.
  inversion H; subst.
  repeat (apply andb_true_iff in E; destruct E as [E ?]).
  repeat match goal with HH : is_bot _ = true |- _ => apply is_bot_eq in HH end.
  repeat match goal with HH : String.eqb _ _ = true |- _ => apply String.eqb_eq in HH end.
  subst. reflexivity.
Qed.

(** * Axiom bookkeeping *)
Lemma add_axiom_incl : forall l a, incl l (add_axiom l a) /\ In a (add_axiom l a).
Proof.
  intros l a. unfold add_axiom. destruct (pmem a l) eqn:E.
  - split; [apply incl_refl | apply pmem_In; exact E].
  - split; [apply incl_appl, incl_refl | apply in_or_app; right; left; reflexivity].
Qed.

Lemma add_axioms_incl : forall az l, incl l (add_axioms l az).
Proof.
  unfold add_axioms. induction az as [|a t IH]; intros l; simpl; [apply incl_refl|].
  eapply incl_tran; [apply (proj1 (add_axiom_incl l a)) | apply IH].
Qed.

(** * One step *)
Lemma rewrite_event_spec : forall G S st r d st',
  rewrite_event G S st r d = Some st' ->
  exists s rhs,
    match_rewrites (inst d r) = Some (s, e_cur st, rhs)
    /\ e_cur st' = rhs
    /\ m_claims (e_mod st') = m_claims (e_mod st) ++ [inst d r]
    /\ m_proofs (e_mod st') = m_proofs (e_mod st) ++ [(r, d)]
    /\ incl (m_axioms (e_mod st)) (m_axioms (e_mod st'))
    /\ In r (m_axioms (e_mod st'))
    /\ functional_axioms S d <> None.
Proof.
  intros G S st r d st' H. unfold rewrite_event in H.
  destruct (match_rewrites (inst d r)) as [[[s lhs] rhs]|] eqn:EM; [|discriminate].
  destruct (kpat_eqb lhs (e_cur st)) eqn:EQ; [|discriminate]. apply kpat_eqb_eq in EQ. subst lhs.
  destruct (functional_axioms S d) as [fas|] eqn:EF; [|discriminate].
  destruct (g_unique_claims G && pmem (inst d r) (m_claims (e_mod st))); [discriminate|].
  inversion H; subst. simpl. exists s, rhs. repeat split; auto; try discriminate.
  - eapply incl_tran; [apply add_axioms_incl | apply add_axiom_incl].
  - apply add_axiom_incl.
Qed.

Definition hint_proof (h:hint) : kpat * list (N * kpat) := (r_pat (h_rule h), h_subst h).

(** * The whole trace: invariant of [run], by induction on the trace (any length) *)
Lemma run_spec : forall G S hs st st',
  run G S st hs = Some st' ->
  m_claims (e_mod st') = m_claims (e_mod st) ++ map inst_rule hs
  /\ m_proofs (e_mod st') = m_proofs (e_mod st) ++ map hint_proof hs
  /\ chained_from (e_cur st) hs
  /\ incl (m_axioms (e_mod st)) (m_axioms (e_mod st'))
  /\ Forall (fun h => In (r_pat (h_rule h)) (m_axioms (e_mod st'))) hs
  /\ Forall (fun h => r_kind (h_rule h) = RRewrite /\ functional_axioms S (h_subst h) <> None) hs.
Proof.
  induction hs as [|h t IH]; intros st st' H; simpl in *.
  - inversion H; subst. rewrite !app_nil_r. repeat split; auto using incl_refl.
  - destruct (step G S st h) as [st1|] eqn:E; [|discriminate].
    unfold step in E. destruct (r_kind (h_rule h)) eqn:EK; [|discriminate].
    apply rewrite_event_spec in E. destruct E as [s [rhs [M [C1 [C2 [C3 [C4 [C5 C6]]]]]]]].
    destruct (IH _ _ H) as [I1 [I2 [I3 [I4 [I5 I6]]]]].
    split; [rewrite I1, C2, <- app_assoc; reflexivity|].
    split; [rewrite I2, C3, <- app_assoc; reflexivity|].
    split; [exists s, rhs; split; [exact M | rewrite <- C1; exact I3]|].
    split; [eapply incl_tran; eauto|].
    split; constructor; auto.
Qed.

Theorem trace_claims_thm : forall G S hs m,
  from_hints G S hs = Some m ->
  m_claims m = map inst_rule hs /\ chained hs.
Proof.
  intros G S [|h0 t] m H; simpl in H.
  - inversion H; subst. split; [reflexivity | exact I].
  - match type of H with option_map _ ?x = _ => destruct x as [st'|] eqn:E; [|discriminate] end.
    simpl in H. inversion H; subst.
    change (run G S (mkSt (h_before h0) empty_module) (h0 :: t) = Some st') in E.
    apply run_spec in E. destruct E as [I1 [_ [I3 _]]]. split; [exact I1 | exact I3].
Qed.

Theorem mismatch_refused_thm : forall G S hs, ~ chained hs -> from_hints G S hs = None.
Proof.
  intros G S hs Hn. destruct (from_hints G S hs) as [m|] eqn:E; [|reflexivity].
  exfalso. apply Hn. eapply trace_claims_thm; eauto.
Qed.

(** every claim is an instance of an axiom of the module, by the recorded proof expression:
    the logical content of "the checker accepts" (Instantiate of a loaded axiom, then Publish) *)
Theorem claims_derivable_thm : forall G S hs m,
  from_hints G S hs = Some m ->
  m_proofs m = map hint_proof hs
  /\ m_claims m = map (fun ad => inst (snd ad) (fst ad)) (m_proofs m)
  /\ Forall (fun ad => In (fst ad) (m_axioms m)) (m_proofs m)
  /\ Forall (fun h => r_kind (h_rule h) = RRewrite /\ functional_axioms S (h_subst h) <> None) hs.
Proof.
  intros G S [|h0 t] m H; simpl in H.
  - inversion H; subst. simpl. repeat split; constructor.
  - match type of H with option_map _ ?x = _ => destruct x as [st'|] eqn:E; [|discriminate] end.
    simpl in H. inversion H; subst.
    change (run G S (mkSt (h_before h0) empty_module) (h0 :: t) = Some st') in E.
    apply run_spec in E. destruct E as [I1 [I2 [_ [_ [I5 I6]]]]].
    change (m_claims (e_mod st') = map inst_rule (h0 :: t)) in I1.
    change (m_proofs (e_mod st') = map hint_proof (h0 :: t)) in I2.
    split; [exact I2|]. split; [rewrite I1, I2, map_map; reflexivity|]. split; [|exact I6].
    rewrite I2. apply Forall_map. exact I5.
Qed.

(** * Completeness for the sound guards: a chained trace of rewrite rules whose substituted values
    are applications of functional symbols is never refused *)
Lemma run_complete : forall S hs st,
  chained_from (e_cur st) hs ->
  Forall (fun h => r_kind (h_rule h) = RRewrite /\ functional_axioms S (h_subst h) <> None) hs ->
  exists st', run guards_sound S st hs = Some st'.
Proof.
  induction hs as [|h t IH]; intros st HC HF; simpl in *; [eauto|].
  destruct HC as [s [r [M HC]]]. inversion HF as [|? ? [K FA] HF']; subst.
  unfold step. rewrite K. unfold rewrite_event. unfold inst_rule in M. rewrite M, kpat_eqb_refl.
  destruct (functional_axioms S (h_subst h)) as [fas|]; [|contradiction]. simpl.
  apply IH; simpl; auto.
Qed.

Theorem chained_accepted_thm : forall S hs,
  chained hs ->
  Forall (fun h => r_kind (h_rule h) = RRewrite /\ functional_axioms S (h_subst h) <> None) hs ->
  exists m, from_hints guards_sound S hs = Some m.
Proof.
  intros S [|h0 t] HC HF; simpl; [eauto|].
  destruct (run_complete S (h0 :: t) (mkSt (h_before h0) empty_module) HC HF) as [st' E].
  simpl in E. rewrite E. simpl. eauto.
Qed.

(** * End to end: hints produced from an LLVM-style trace *)
Lemma load_axioms_get : forall S axs n rs lr o,
  load_axioms S n axs = Some rs -> get_axiom rs o = Some lr ->
  exists k kind, convert S scope0 k = Some (lr_scope lr, r_pat (lr_rule lr)) /\ r_kind (lr_rule lr) = kind
                 /\ (kind = RRewrite -> exists a, In a axs /\ classify a = AxRewrite k).
Proof.
  induction axs as [|a t IH]; intros n rs lr o H G; simpl in H.
  - inversion H; subst. discriminate.
  - destruct (classify a) as [k|k| |] eqn:EC; try discriminate.
    + destruct (convert S scope0 k) as [[sc p]|] eqn:E; [|discriminate].
      destruct (load_axioms S (N.succ n) t) as [rs'|] eqn:EL; [|discriminate]. inversion H; subst.
      unfold get_axiom in G. simpl in G. destruct (N.eqb o n).
      * inversion G; subst. simpl. exists k, RRewrite. repeat split; auto. intros _. exists a. split; [left; reflexivity | exact EC].
      * destruct (IH _ _ _ _ EL G) as [k' [kd [A1 [A2 A3]]]]. exists k', kd. repeat split; auto.
        intros Hk. destruct (A3 Hk) as [a' [Ha Hc]]. exists a'. split; [right; exact Ha | exact Hc].
    + destruct (convert S scope0 k) as [[sc p]|] eqn:E; [|discriminate].
      destruct (load_axioms S (N.succ n) t) as [rs'|] eqn:EL; [|discriminate]. inversion H; subst.
      unfold get_axiom in G. simpl in G. destruct (N.eqb o n).
      * inversion G; subst. simpl. exists k, REquational. repeat split; auto. discriminate.
      * destruct (IH _ _ _ _ EL G) as [k' [kd [A1 [A2 A3]]]]. exists k', kd. repeat split; auto.
        intros Hk. destruct (A3 Hk) as [a' [Ha Hc]]. exists a'. split; [right; exact Ha | exact Hc].
    + destruct (IH _ _ _ _ H G) as [k' [kd [A1 [A2 A3]]]]. exists k', kd. repeat split; auto.
      intros Hk. destruct (A3 Hk) as [a' [Ha Hc]]. exists a'. split; [right; exact Ha | exact Hc].
Qed.

(** what each hint of [get_proof_hints] is made of: a loaded rule (the conversion of a rewrite axiom
    without its side conditions, in a fresh scope) and the conversion of the event's substitution in
    that rule's scope *)
Definition hint_from (S:sig) (axs:list kore) (h:hint) : Prop :=
  exists k sc1 sub sc2,
    convert S scope0 k = Some (sc1, r_pat (h_rule h))
    /\ convert_substs S sc1 (py_dict sub) = Some (sc2, h_subst h)
    /\ (r_kind (h_rule h) = RRewrite -> exists a, In a axs /\ classify a = AxRewrite k).

Lemma hints_of_items_rc : forall S rs post o sub c rest,
  hints_of_items S rs post (TRule o sub :: TConfig c :: rest) =
  (do post' <- convert_pattern S c;
   do lr <- get_axiom rs o;
   do (_, d) <- convert_substs S (lr_scope lr) (py_dict sub);
   do hs <- hints_of_items S rs post' (TConfig c :: rest);
   Some (mkHint post post' (lr_rule lr) d :: hs)).
Proof. reflexivity. Qed.

Lemma hints_of_items_from : forall S axs n rs, load_axioms S n axs = Some rs ->
  forall items post hs, hints_of_items S rs post items = Some hs -> Forall (hint_from S axs) hs.
Proof.
  intros S axs n rs HL. induction items as [|it rest IH]; intros post hs H.
  - simpl in H. inversion H; constructor.
  - destruct it as [o sub|c|].
    + destruct rest as [|[o2 sub2|c|] rest'].
      * simpl in H. inversion H; constructor.
      * simpl in H. eapply IH; eauto.
      * rewrite hints_of_items_rc in H.
        destruct (convert_pattern S c) as [post'|]; [|discriminate].
        destruct (get_axiom rs o) as [lr|] eqn:EG; [|discriminate].
        destruct (convert_substs S (lr_scope lr) (py_dict sub)) as [[sc2 d]|] eqn:ES; [|discriminate].
        destruct (hints_of_items S rs post' (TConfig c :: rest')) as [hs'|] eqn:EH; [|discriminate].
        inversion H; subst. constructor; [|eapply IH; eauto].
        destruct (load_axioms_get _ _ _ _ _ _ HL EG) as [k [kd [A1 [A2 A3]]]].
        exists k, (lr_scope lr), sub, sc2. simpl. repeat split; auto. intros Hk. apply A3. congruence.
      * simpl in H. eapply IH; eauto.
    + simpl in H. eapply IH; eauto.
    + simpl in H. eapply IH; eauto.
Qed.

(** the claims of a generated module are the conversions of the Kore-level instantiated rules *)
Theorem gen_claims_thm : forall G S axs init items m,
  gen_module G S axs init items = Some m ->
  exists hs, m_claims m = map inst_rule hs /\ chained hs
    /\ Forall (fun h => exists k sc1 sub sc2 a,
                 In a axs /\ classify a = AxRewrite k
                 /\ convert S scope0 k = Some (sc1, r_pat (h_rule h))
                 /\ convert_substs S sc1 (py_dict sub) = Some (sc2, h_subst h)
                 /\ (List.length (sc_meta sc2) <= 100 -> bound_ok (map fst (py_dict sub)) k = true ->
                     convert S sc2 (ksubst (py_dict sub) k) = Some (sc2, inst_rule h))) hs.
Proof.
  intros G S axs init items m H. unfold gen_module in H.
  destruct (load_axioms S 0 axs) as [rs|] eqn:EL; [|discriminate].
  destruct (hints_of_trace S rs init items) as [hs|] eqn:EH; [|discriminate].
  exists hs. destruct (trace_claims_thm _ _ _ _ H) as [T1 T2]. split; [exact T1|]. split; [exact T2|].
  destruct (claims_derivable_thm _ _ _ _ H) as [_ [_ [_ D]]].
  unfold hints_of_trace in EH. destruct (convert_pattern S init) as [pre|]; [|discriminate].
  pose proof (hints_of_items_from _ _ _ _ EL _ _ _ EH) as HF.
  rewrite Forall_forall in *. intros h Hin. destruct (HF h Hin) as [k [sc1 [sub [sc2 [A1 [A2 A3]]]]]].
  destruct (D h Hin) as [K _]. destruct (A3 K) as [a [Ha Hc]].
  exists k, sc1, sub, sc2, a. repeat split; auto.
  intros Hlen Hb. unfold inst_rule. eapply convert_subst_commutes_thm; eauto.
Qed.

(** Bridge from the K execution-proof module (Exec.v) to the proof-term modules of PTerm/Model.v, so
    that C02's [module_accepted] (PTerm/Compile.v) applies: the serialisation of the module generated
    from a trace is accepted by the checker model [ML.Machine.verify guards_sound].

    [to_pterm sym pre m]: patterns are encoded by [K.Accept.enc sym] (any symbol table), the axioms are
    [pre] (the axioms of the imported sub-modules Substitution / KoreLemmas / Definedness, published
    first in the gamma phase) followed by the module's own axioms, the claims are the module's claims,
    and every proof is [PDynInst (PLoadAxiom rule) delta] = [dynamic_inst(load_axiom(rule), delta)]. *)
From Coq Require Import String NArith PeanoNat List Bool Lia.
From Pi2 Require Import ML.Syntax ML.Subst ML.Machine ML.Facts PTerm.Model PTerm.Facts PTerm.Compile.
From Pi2 Require Import K.Kore K.Exec K.KoreProofs K.ExecProofs K.Accept.
Import ListNotations.
Open Scope list_scope.

(** the only [Mu] is the notation bottom = [Mu 0 (SVar 0)] -- true of everything the converter emits *)
Fixpoint only_bot (p:kpat) : bool :=
  match p with
  | PImp l r | PApp l r => only_bot l && only_bot r
  | PEx _ q => only_bot q
  | PMu X q => kpat_eqb p p_bot
  | _ => true
  end.

Section Bridge.
Variable sym : string -> N.
Notation enc := (K.Accept.enc sym).

Definition enc_delta (d:list (N * kpat)) : delta := map (fun kv => (fst kv, enc (snd kv))) d.
Definition enc_proof (ad:kpat * list (N * kpat)) : pterm := PDynInst (PLoadAxiom (enc (fst ad))) (enc_delta (snd ad)).
Definition to_pterm (pre:list pat) (m:Pi2.K.Exec.pmodule) : Pi2.PTerm.Model.pmodule :=
  mkmod (pre ++ map enc (Pi2.K.Exec.m_axioms m)) (map enc (Pi2.K.Exec.m_claims m)) (map enc_proof (Pi2.K.Exec.m_proofs m)).

(** * well-formedness for the checker *)
Lemma only_bot_wf : forall p, only_bot p = true -> pat_wf (enc p) = true.
Proof.
  induction p as [n|n|s|l IHl r IHr|l IHl r IHr|x q IH|x q IH|n]; simpl; intros H; auto.
  - apply andb_true_iff in H. destruct H. rewrite IHl, IHr; auto.
  - apply andb_true_iff in H. destruct H. rewrite IHl, IHr; auto.
  - change (kpat_eqb (PMu x q) p_bot = true) in H. apply kpat_eqb_eq in H. inversion H; subst. reflexivity.
Qed.

Lemma only_bot_inst : forall d p, forallb only_bot (map snd d) = true -> only_bot p = true ->
  only_bot (Pi2.K.Kore.inst d p) = true.
Proof.
  intros d p Hd. induction p as [n|n|s|l IHl r IHr|l IHl r IHr|x q IH|x q IH|n]; simpl; intros H; auto.
  - apply andb_true_iff in H. destruct H. rewrite IHl, IHr; auto.
  - apply andb_true_iff in H. destruct H. rewrite IHl, IHr; auto.
  - change (kpat_eqb (PMu x q) p_bot = true) in H. apply kpat_eqb_eq in H. inversion H; subst. reflexivity.
  - destruct (Pi2.K.Kore.lookup n d) as [q|] eqn:E; [|reflexivity].
    clear H. induction d as [|[k v] d IHd]; simpl in *; [discriminate|].
    apply andb_true_iff in Hd. destruct Hd as [H1 H2].
    destruct (N.eqb n k); [inversion E; subst; exact H1 | apply IHd; assumption].
Qed.

Lemma only_bot_functional : forall v, only_bot v = true -> only_bot (p_functional v) = true.
Proof. intros v H. simpl. rewrite H. reflexivity. Qed.

(** * the generator's instantiate on encodings *)
Lemma dlookup_enc : forall d n,
  dlookup n (enc_delta d) = option_map enc (Pi2.K.Kore.lookup n d).
Proof.
  induction d as [|[k v] d IH]; intros n; simpl; [reflexivity|].
  destruct (N.eqb n k); [reflexivity | apply IH].
Qed.

Lemma py_inst'_enc : forall d p, py_inst' (enc_delta d) (enc p) = enc (Pi2.K.Kore.inst d p).
Proof.
  intros d. induction p as [n|n|s|l IHl r IHr|l IHl r IHr|x q IH|x q IH|n]; simpl; try reflexivity;
    try (rewrite IHl, IHr; reflexivity); try (rewrite IH; reflexivity).
  rewrite dlookup_enc. destruct (Pi2.K.Kore.lookup n d); reflexivity.
Qed.

Lemma py_inst_enc : forall d p, py_inst (enc_delta d) (enc p) = enc (Pi2.K.Kore.inst d p).
Proof.
  intros d p. destruct d as [|kv d]; [|apply py_inst'_enc].
  simpl. clear. induction p; simpl; congruence.
Qed.

Lemma dkeys_enc : forall d, dkeys (enc_delta d) = ids_of d.
Proof. intros d. unfold dkeys, enc_delta, ids_of. rewrite map_map. reflexivity. Qed.
Lemma dvals_enc : forall d, dvals (enc_delta d) = plugs_of sym d.
Proof. intros d. unfold dvals, enc_delta, plugs_of. rewrite map_map. reflexivity. Qed.

Lemma inst_agree_enc : forall a d, NoDup (map fst d) -> inst_agree (enc a) (enc_delta d) = true.
Proof.
  intros a d ND. unfold inst_agree. rewrite dkeys_enc, dvals_enc.
  rewrite (checker_inst_agrees_machine_order sym Pi2.ML.Subst.guards_sound d a ND).
  rewrite py_inst_enc. apply pat_eqb_refl.
Qed.

Lemma pmem_In : forall p l, In p l -> Pi2.PTerm.Model.pmem p l = true.
Proof.
  intros p l H. unfold Pi2.PTerm.Model.pmem. apply existsb_exists. exists p. split; [exact H | apply pat_eqb_refl].
Qed.

Lemma forallb_wf_vals : forall d, forallb only_bot (map snd d) = true -> forallb pat_wf (dvals (enc_delta d)) = true.
Proof.
  intros d H. rewrite dvals_enc. unfold plugs_of. rewrite forallb_forall in *. intros x Hx.
  apply in_map_iff in Hx. destruct Hx as [[k v] [E Hin]]. subst. apply only_bot_wf. apply H.
  apply in_map_iff. exists (k, v). split; [reflexivity | exact Hin].
Qed.

Lemma proof_ok_enc : forall axs a d,
  In (enc a) axs -> NoDup (map fst d) -> forallb only_bot (map snd d) = true ->
  proof_ok axs (enc_proof (a, d)) = true.
Proof.
  intros axs a d Hin ND Hv. unfold proof_ok, enc_proof. simpl.
  rewrite (pmem_In _ _ Hin). simpl. rewrite andb_true_r.
  destruct (enc_delta d) eqn:E; [reflexivity|]. rewrite <- E.
  rewrite (forallb_wf_vals d Hv), (inst_agree_enc a d ND). reflexivity.
Qed.

(** hints whose patterns are checker-well-formed and whose substitutions are dicts *)
Definition hint_wf (h:hint) : Prop :=
  NoDup (map fst (h_subst h)) /\ only_bot (r_pat (h_rule h)) = true /\ forallb only_bot (map snd (h_subst h)) = true.

Lemma functional_axioms_only_bot : forall S d fas,
  forallb only_bot (map snd d) = true -> functional_axioms S d = Some fas -> forallb only_bot fas = true.
Proof.
  unfold functional_axioms. induction d as [|[k v] d IH]; intros fas Hv H; simpl in *.
  - inversion H; reflexivity.
  - apply andb_true_iff in Hv. destruct Hv as [V1 V2].
    destruct (functional_axiom S v) as [fa|] eqn:E; [|discriminate].
    destruct (map_opt (fun kv => functional_axiom S (snd kv)) d) as [r|] eqn:E2; [|discriminate]. inversion H; subst.
    simpl. rewrite (IH _ V2 eq_refl), andb_true_r.
    unfold functional_axiom in E. destruct (app_head v); try discriminate.
    destruct (strip_prefix "ksym_" s); [|discriminate]. destruct (find_symbol S s0); [|discriminate].
    destruct (ks_functional k0); inversion E; subst. apply only_bot_functional. exact V1.
Qed.

Lemma add_axiom_only_bot : forall l a, forallb only_bot l = true -> only_bot a = true -> forallb only_bot (add_axiom l a) = true.
Proof.
  intros l a Hl Ha. unfold add_axiom. destruct (Pi2.K.Exec.pmem a l); [exact Hl|].
  rewrite forallb_app, Hl. simpl. rewrite Ha. reflexivity.
Qed.

Lemma add_axioms_only_bot : forall az l, forallb only_bot l = true -> forallb only_bot az = true -> forallb only_bot (add_axioms l az) = true.
Proof.
  unfold add_axioms. induction az as [|a t IH]; intros l Hl Ha; simpl in *; [exact Hl|].
  apply andb_true_iff in Ha. destruct Ha. apply IH; [apply add_axiom_only_bot|]; assumption.
Qed.

Lemma run_axioms_only_bot : forall G S hs st st',
  run G S st hs = Some st' -> Forall hint_wf hs ->
  forallb only_bot (Pi2.K.Exec.m_axioms (e_mod st)) = true ->
  forallb only_bot (Pi2.K.Exec.m_axioms (e_mod st')) = true.
Proof.
  induction hs as [|h t IH]; intros st st' H HW Hst; simpl in H; [inversion H; subst; exact Hst|].
  inversion HW as [|? ? [W1 [W2 W3]] HW']; subst.
  destruct (step G S st h) as [st1|] eqn:E; [|discriminate].
  eapply IH; [exact H | exact HW' |].
  unfold step in E. destruct (r_kind (h_rule h)); [|discriminate]. unfold rewrite_event in E.
  destruct (match_rewrites (Pi2.K.Kore.inst (h_subst h) (r_pat (h_rule h)))) as [[[s l] r]|]; [|discriminate].
  destruct (kpat_eqb l (e_cur st)); [|discriminate].
  destruct (functional_axioms S (h_subst h)) as [fas|] eqn:EF; [|discriminate].
  destruct (g_unique_claims G && _); [discriminate|]. inversion E; subst. simpl.
  apply add_axiom_only_bot; [|exact W2]. apply add_axioms_only_bot; [exact Hst|].
  eapply functional_axioms_only_bot; eauto.
Qed.

Theorem to_pterm_module_ok : forall pre G S hs m,
  from_hints G S hs = Some m -> Forall hint_wf hs -> forallb pat_wf pre = true ->
  module_ok (to_pterm pre m) = true.
Proof.
  intros pre G S hs m H HW Hpre.
  destruct (claims_derivable_thm _ _ _ _ H) as [D1 [D2 [D3 _]]].
  destruct (trace_claims_thm _ _ _ _ H) as [T1 _].
  assert (AX : forallb only_bot (Pi2.K.Exec.m_axioms m) = true).
  { destruct hs as [|h0 t]; simpl in H; [inversion H; reflexivity|].
    match type of H with option_map _ ?x = _ => destruct x as [st'|] eqn:E; [|discriminate] end.
    simpl in H. inversion H; subst.
    change (run G S (mkSt (h_before h0) empty_module) (h0 :: t) = Some st') in E.
    eapply run_axioms_only_bot; eauto. }
  unfold module_ok, to_pterm. simpl.
  repeat (apply andb_true_iff; split).
  - rewrite forallb_app, Hpre. simpl. rewrite forallb_forall in *. intros x Hx.
    apply in_map_iff in Hx. destruct Hx as [a [E Ha]]. subst. apply only_bot_wf. apply AX. exact Ha.
  - rewrite T1. rewrite forallb_forall. intros x Hx. apply in_map_iff in Hx. destruct Hx as [c [E Hc]]. subst.
    apply in_map_iff in Hc. destruct Hc as [h [E Hh]]. subst. apply only_bot_wf.
    rewrite Forall_forall in HW. destruct (HW h Hh) as [_ [W2 W3]]. unfold inst_rule. apply only_bot_inst; assumption.
  - rewrite D1. rewrite forallb_forall. intros x Hx. apply in_map_iff in Hx. destruct Hx as [ad [E Had]]. subst.
    apply in_map_iff in Had. destruct Had as [h [E Hh]]. subst.
    rewrite Forall_forall in HW. destruct (HW h Hh) as [W1 [W2 W3]]. unfold hint_proof.
    apply proof_ok_enc; auto. apply in_or_app. right. apply in_map.
    rewrite Forall_forall in D3. apply (D3 (hint_proof h)). rewrite D1. apply in_map. exact Hh.
  - rewrite !map_length. rewrite D2, map_length. apply Nat.eqb_refl.
Qed.

(** the serialised module is accepted by the checker, both optimise settings *)
Theorem module_accepted_thm : forall pre G S hs m memo g c p,
  from_hints G S hs = Some m -> Forall hint_wf hs -> forallb pat_wf pre = true ->
  serialize memo (to_pterm pre m) = Some (g, c, p) ->
  exists st, verify Pi2.ML.Subst.guards_sound g c p = Some st.
Proof.
  intros pre G S hs m memo g c p H HW Hpre HS.
  eapply module_accepted; [|exact HS]. eapply to_pterm_module_ok; eauto.
Qed.
End Bridge.

(** * Discharging [hint_wf] for everything the pipeline produces from Kore objects *)
Lemma only_bot_nary_app : forall args h, only_bot h = true -> forallb only_bot args = true ->
  only_bot (nary_app h args) = true.
Proof.
  unfold nary_app. induction args as [|a t IH]; intros h Hh Ha; simpl in *; [exact Hh|].
  apply andb_true_iff in Ha. destruct Ha as [A1 A2]. apply IH; [simpl; rewrite Hh, A1; reflexivity | exact A2].
Qed.

Lemma build_only_bot : forall S op pss pas p,
  build S op pss pas = Some p -> forallb only_bot pss = true -> forallb only_bot pas = true -> only_bot p = true.
Proof.
  intros S op pss pas p H Hs Ha.
  destruct op;
    try (destruct pss as [|s1 [|s2 [|s3 pss]]]; destruct pas as [|a1 [|a2 [|a3 pas]]]; simpl in H; try discriminate;
         inversion H; subst; simpl in *;
         repeat match goal with HH : _ && _ = true |- _ => apply andb_true_iff in HH; destruct HH end;
         repeat match goal with HH : only_bot ?q = true |- _ => rewrite HH; clear HH end; reflexivity).
  - (* OpApp *)
    simpl in H. destruct (find_symbol S f) as [y|]; [|discriminate].
    assert (HA : forallb only_bot (pss ++ pas) = true) by (rewrite forallb_app, Hs, Ha; reflexivity).
    destruct (String.eqb f "kseq").
    + destruct (pss ++ pas) as [|a [|b [|c l]]]; try discriminate. inversion H; subst. simpl in *.
      apply andb_true_iff in HA. destruct HA as [A1 A2]. apply andb_true_iff in A2. destruct A2 as [A2 _].
      rewrite A1, A2. reflexivity.
    + destruct (Nat.eqb _ _); [|discriminate]. inversion H; subst. apply only_bot_nary_app; [reflexivity | exact HA].
  - (* OpExists *)
    destruct pss as [|s1 [|s2 [|s3 pss]]]; simpl in H; try discriminate;
      destruct pas as [|a1 [|a2 [|a3 pas]]]; try discriminate; try (destruct a1; discriminate).
    destruct a1; try discriminate. inversion H; subst. simpl in *.
    repeat match goal with HH : _ && _ = true |- _ => apply andb_true_iff in HH; destruct HH end.
    repeat match goal with HH : only_bot ?q = true |- _ => rewrite HH; clear HH end. reflexivity.
Qed.

Lemma map_opt_forallb : forall {A} (f:A -> option kpat) l r,
  (forall a b, f a = Some b -> only_bot b = true) -> map_opt f l = Some r -> forallb only_bot r = true.
Proof.
  induction l as [|a t IH]; intros r HQ H; simpl in *; [inversion H; reflexivity|].
  destruct (f a) as [b|] eqn:E; [|discriminate].
  destruct (map_opt f t) as [bs|] eqn:E2; [|discriminate]. inversion H; subst.
  simpl. rewrite (HQ _ _ E), (IH _ HQ eq_refl). reflexivity.
Qed.

Lemma pconvert_only_bot : forall S sc k p, pconvert S sc k = Some p -> only_bot p = true.
Proof.
  intros S sc k. induction k as [x s|op ss args IH] using kore_ind'; intros p H.
  - simpl in H. destruct (meta_id sc x); inversion H; reflexivity.
  - rewrite pconvert_node in H.
    destruct (map_opt (pconvert_sort S sc) ss) as [pss|] eqn:E1; [|discriminate].
    destruct (map_opt (pconvert S sc) args) as [pas|] eqn:E2; [|discriminate].
    eapply build_only_bot; [exact H | |].
    + eapply map_opt_forallb; [|exact E1]. intros [a|n] b Hb; simpl in Hb.
      * destruct (sortvar_id sc a); inversion Hb; reflexivity.
      * destruct (has_sort S n); inversion Hb; reflexivity.
    + clear H E1. revert pas E2. induction args as [|a t IHt]; intros pas E2; simpl in *; [inversion E2; reflexivity|].
      inversion IH as [|? ? Ha Ht]; subst.
      destruct (pconvert S sc a) as [pa|] eqn:Ea; [|discriminate].
      destruct (map_opt (pconvert S sc) t) as [pt|] eqn:Et; [|discriminate]. inversion E2; subst.
      simpl. rewrite (Ha _ eq_refl), (IHt Ht _ eq_refl). reflexivity.
Qed.

Lemma convert_only_bot : forall S sc k sc' p, convert S sc k = Some (sc', p) -> only_bot p = true.
Proof. intros S sc k sc' p H. apply convert_spec in H. destruct H as [_ H]. eapply pconvert_only_bot; eauto. Qed.

Lemma In_dict_set : forall {A} x (v:A) d z, In z (map fst (dict_set x v d)) -> z = x \/ In z (map fst d).
Proof.
  induction d as [|[y w] r IH]; intros z H; simpl in *.
  - destruct H as [H|[]]; auto.
  - destruct (String.eqb x y); simpl in H; [right; exact H|].
    destruct H as [H|H]; [right; left; exact H|]. destruct (IH _ H); auto.
Qed.

Lemma dict_set_nodup : forall {A} x (v:A) d, NoDup (map fst d) -> NoDup (map fst (dict_set x v d)).
Proof.
  induction d as [|[y w] r IH]; intros ND; simpl in *.
  - constructor; [intros [] | constructor].
  - inversion ND as [|? ? Hn ND']; subst. destruct (String.eqb x y) eqn:E; simpl; [constructor; assumption|].
    constructor; [|apply IH; exact ND'].
    intros Hin. apply In_dict_set in Hin. destruct Hin as [->|Hin]; [rewrite String.eqb_refl in E; discriminate | contradiction].
Qed.

Lemma py_dict_nodup : forall {A} (l:list (string * A)), NoDup (map fst (py_dict l)).
Proof.
  intros A l. unfold py_dict.
  assert (G : forall d, NoDup (map fst d) -> NoDup (map fst (fold_left (fun d '(x, v) => dict_set x v d) l d))).
  { induction l as [|[x v] t IH]; intros d ND; simpl; [exact ND|]. apply IH. apply dict_set_nodup. exact ND. }
  apply G. constructor.
Qed.

Lemma subst_rel_wf : forall S sc t d,
  subst_rel S sc t d -> NoDup (map fst t) -> NoDup (map fst d) /\ forallb only_bot (map snd d) = true.
Proof.
  intros S sc t d H. induction H as [|[x v] [i q] t d [H1 H2] HR IH]; intros ND; simpl in *.
  - split; [constructor | reflexivity].
  - inversion ND as [|? ? Hn ND']; subst. destruct (IH ND') as [I1 I2]. split.
    + constructor; [|exact I1]. intros Hin. apply Hn.
      clear -HR Hin H1. induction HR as [|[y w] [j r] t d [G1 G2] _ IHr]; simpl in *; [contradiction|].
      destruct Hin as [E|Hin]; [left; subst; eapply meta_id_inj; eauto | right; auto].
    + rewrite (pconvert_only_bot _ _ _ _ H2), I2. reflexivity.
Qed.

Lemma hint_from_wf : forall S axs h, hint_from S axs h -> hint_wf h.
Proof.
  intros S axs h [k [sc1 [sub [sc2 [A1 [A2 _]]]]]].
  apply convert_substs_spec in A2. destruct A2 as [_ R].
  destruct (subst_rel_wf _ _ _ _ R (py_dict_nodup sub)) as [W1 W3].
  split; [exact W1|]. split; [eapply convert_only_bot; eauto | exact W3].
Qed.

(** end to end: the module generated from parsed Kore objects and LLVM-style events -- no
    well-formedness hypothesis is left *)
Theorem generated_module_accepted_thm : forall (sym:string -> N) pre G S axs init items m memo g c p,
  gen_module G S axs init items = Some m ->
  forallb pat_wf pre = true ->
  serialize memo (to_pterm sym pre m) = Some (g, c, p) ->
  exists st, verify Pi2.ML.Subst.guards_sound g c p = Some st.
Proof.
  intros sym pre G S axs init items m memo g c p H Hpre HS. unfold gen_module in H.
  destruct (load_axioms S 0 axs) as [rs|] eqn:EL; [|discriminate].
  destruct (hints_of_trace S rs init items) as [hs|] eqn:EH; [|discriminate].
  eapply module_accepted_thm; [exact H | | exact Hpre | exact HS].
  unfold hints_of_trace in EH. destruct (convert_pattern S init) as [pre0|]; [|discriminate].
  pose proof (hints_of_items_from _ _ _ _ EL _ _ _ EH) as HF.
  eapply Forall_impl; [|exact HF]. intros h. apply hint_from_wf.
Qed.

(** Vocabulary used by the GENERATED file coq/Gen/KoreConv.v (translators/kore_conv.py): the data the
    translated Python manipulates and the operations the translator maps Python builtins / library calls
    to.  Hand-written, no proofs.  What is NOT translated and therefore lives here as a primitive is
    listed in notes/C20.md ("tied differentially only"). *)
From Coq Require Import String Ascii NArith List Bool.
From Pi2 Require Import K.Kore K.Exec.
Import ListNotations.
Open Scope string_scope.
Open Scope list_scope.

(** * pyk.kore.syntax patterns, one constructor per class, fields in [__match_args__] order *)
Inductive gkore :=
| GRewrites (sort:ksort) (left right:gkore)
| GAnd (sort:ksort) (ops:list gkore)
| GOr (sort:ksort) (ops:list gkore)
| GIn (op_sort sort:ksort) (left right:gkore)
| GNot (sort:ksort) (pattern:gkore)
| GNext (sort:ksort) (pattern:gkore)
| GImplies (sort:ksort) (left right:gkore)
| GCeil (op_sort sort:ksort) (pattern:gkore)
| GFloor (op_sort sort:ksort) (pattern:gkore)
| GIff (sort:ksort) (left right:gkore)
| GEquals (op_sort sort:ksort) (left right:gkore)
| GApp (symbol:string) (sorts:list ksort) (args:list gkore)
| GEVar (name:string) (sort:ksort)
| GSVar (name:string) (sort:ksort)
| GTop (sort:ksort)
| GBottom (sort:ksort)
| GDV (sort:ksort) (value:string)
| GExists (sort:ksort) (var:gkore) (pattern:gkore)
| GForall (sort:ksort) (var:gkore) (pattern:gkore)
| GMu (var:gkore) (pattern:gkore)
| GNu (var:gkore) (pattern:gkore).

(** [var.sort] of an [EVar]/[SVar] (pyk types [Exists.var : EVar]; anything else: AttributeError) *)
Definition gvar_sort (v:gkore) : option ksort :=
  match v with GEVar _ s | GSVar _ s => Some s | _ => None end.

(** the model's uniform node *)
Fixpoint to_kore (k:gkore) : kore :=
  match k with
  | GRewrites s l r => KNode OpRewrites [s] [to_kore l; to_kore r]
  | GAnd s ops => KNode OpAnd [s] (map to_kore ops)
  | GOr s ops => KNode OpOr [s] (map to_kore ops)
  | GIn s1 s2 l r => KNode OpIn [s1; s2] [to_kore l; to_kore r]
  | GNot s p => KNode OpNot [s] [to_kore p]
  | GNext s p => KNode OpNext [s] [to_kore p]
  | GImplies s l r => KNode OpImplies [s] [to_kore l; to_kore r]
  | GCeil s1 s2 p => KNode OpCeil [s1; s2] [to_kore p]
  | GFloor s1 s2 p => KNode OpFloor [s1; s2] [to_kore p]
  | GIff s l r => KNode OpIff [s] [to_kore l; to_kore r]
  | GEquals s1 s2 l r => KNode OpEquals [s1; s2] [to_kore l; to_kore r]
  | GApp f ss args => KNode (OpApp f) ss (map to_kore args)
  | GEVar x s => KEVar x s
  | GSVar _ _ => KNode OpUnsupported [] []
  | GTop s => KNode OpTop [s] []
  | GBottom s => KNode OpBottom [s] []
  | GDV s v => KNode (OpDV v) [s] []
  | GExists s v p => KNode OpExists [match gvar_sort v with Some xs => xs | None => s end; s] [to_kore v; to_kore p]
  | GForall _ _ _ | GMu _ _ | GNu _ _ => KNode OpUnsupported [] []
  end.

(** pyk's typing of binders: [Exists.var] is an [EVar] *)
Fixpoint gk_typed (k:gkore) : bool :=
  match k with
  | GRewrites _ l r | GIn _ _ l r | GImplies _ l r | GIff _ l r | GEquals _ _ l r => gk_typed l && gk_typed r
  | GAnd _ ops | GOr _ ops | GApp _ _ ops => forallb gk_typed ops
  | GNot _ p | GNext _ p | GCeil _ _ p | GFloor _ _ p => gk_typed p
  | GExists _ v p => match v with GEVar _ _ => gk_typed p | _ => false end
  | _ => true
  end.

Fixpoint gheight (k:gkore) : nat :=
  match k with
  | GRewrites _ l r | GIn _ _ l r | GImplies _ l r | GIff _ l r | GEquals _ _ l r => S (Nat.max (gheight l) (gheight r))
  | GAnd _ ops | GOr _ ops | GApp _ _ ops => S (fold_right (fun a m => Nat.max (gheight a) m) O ops)
  | GNot _ p | GNext _ p | GCeil _ _ p | GFloor _ _ p => S (gheight p)
  | GExists _ v p | GForall _ v p | GMu v p | GNu v p => S (Nat.max (gheight v) (gheight p))
  | _ => 1
  end.

(** * Python dicts keyed by str / int: insertion-ordered association lists *)
Section Dict.
Context {K V:Type} (eqb:K -> K -> bool).
Fixpoint d_get (k:K) (d:list (K * V)) : option V :=
  match d with [] => None | (k', v) :: r => if eqb k k' then Some v else d_get k r end.
Definition d_mem (k:K) (d:list (K * V)) : bool := match d_get k d with Some _ => true | None => false end.
(** [d[k] = v] *)
Fixpoint d_set (d:list (K * V)) (k:K) (v:V) : list (K * V) :=
  match d with
  | [] => [(k, v)]
  | (k', w) :: r => if eqb k k' then (k', v) :: r else (k', w) :: d_set r k v
  end.
End Dict.
Notation sd_get := (d_get String.eqb).
Notation sd_mem := (d_mem String.eqb).
Notation sd_set := (d_set String.eqb).
Notation nd_set := (d_set N.eqb).

(** [ConvertionScope]: the two dicts the converter uses *)
Record gscope := mkG { g_metavars : list (string * kpat); g_sortparams : list (string * kpat) }.
Definition set_metavars (s:gscope) (d:list (string * kpat)) := mkG d (g_sortparams s).
Definition set_sortparams (s:gscope) (d:list (string * kpat)) := mkG (g_metavars s) d.
Definition gscope0 := mkG [] [].

(** [LanguageSemantics]: the signature (modules are not translated) and [_cached_axiom_scopes] *)
Record gsem := mkSem { gs_sig : sig; gs_scopes : list (N * gscope) }.
Definition sem_get_symbol (s:gsem) (n:string) : option ksymbol := find_symbol (gs_sig s) n.
(** [get_sort(name)] returns the [KSort]; only its name is used *)
Definition sem_get_sort (s:gsem) (n:string) : option string := if has_sort (gs_sig s) n then Some n else None.
Definition sem_cached_scope (s:gsem) (o:N) : option gscope := d_get N.eqb o (gs_scopes s).

Definition is_sortvar (s:ksort) : bool := match s with SortVar _ => true | SortApp _ => false end.
Definition sort_name (s:ksort) : string := match s with SortVar n | SortApp n => n end.
Definition is_metavar (p:kpat) : bool := match p with PMeta _ => true | _ => false end.
Definition metavar_name (p:kpat) : N := match p with PMeta n => n | _ => 0%N end.
Definition nat_len {A} (l:list A) : N := N.of_nat (List.length l).

(** [Notation] objects the converter builds itself ([KSymbol.app]) and their call ([Notation.__call__]
    asserts the arity) *)
Inductive gnotation := NotKseq | NotNary (head:kpat) (arity:nat).
Definition call_notation (n:gnotation) (args:list kpat) : option kpat :=
  match n with
  | NotKseq => match args with [a; b] => Some (kore_kseq a b) | _ => None end
  | NotNary h k => if Nat.eqb (List.length args) k then Some (nary_app h args) else None
  end.

(** statefully mapping a partial function over a list, left to right (list comprehension whose element
    expression mutates the scope) *)
Fixpoint st_map {St A B} (f:St -> A -> option (St * B)) (s:St) (l:list A) : option (St * list B) :=
  match l with
  | [] => Some (s, [])
  | a :: t => match f s a with
              | None => None
              | Some (s1, b) => match st_map f s1 t with None => None | Some (s2, bs) => Some (s2, b :: bs) end
              end
  end.
(** [for x in l: body] threading a state *)
Fixpoint st_fold {St A} (f:St -> A -> option St) (s:St) (l:list A) : option St :=
  match l with [] => Some s | a :: t => match f s a with None => None | Some s1 => st_fold f s1 t end end.

(** * [ExecutionProofExp] state: [_curr_config], [_axioms], [_claims], [_proof_expressions] *)
Record gexec := mkX { x_cur : kpat; x_axioms : list kpat; x_claims : list kpat; x_proofs : list (kpat * list (N * kpat)) }.
Definition set_cur (s:gexec) v := mkX v (x_axioms s) (x_claims s) (x_proofs s).
Definition set_axioms (s:gexec) v := mkX (x_cur s) v (x_claims s) (x_proofs s).
Definition set_claims (s:gexec) v := mkX (x_cur s) (x_axioms s) v (x_proofs s).
Definition set_proofs (s:gexec) v := mkX (x_cur s) (x_axioms s) (x_claims s) v.
(** [ExecutionProofExp(language_semantics, init_config)] *)
Definition new_exec (c:kpat) := mkX c [] [] [].
(** [self.load_axiom(p)]: asserts membership; [self.dynamic_inst(pf, delta)]: records (axiom, delta) *)
Definition prim_load_axiom (s:gexec) (p:kpat) : option kpat := if pmem p (x_axioms s) then Some p else None.
Definition prim_dynamic_inst (pf:kpat) (d:list (N * kpat)) : kpat * list (N * kpat) := (pf, d).
(** [x in l] on patterns ([==] = equality of expansions) *)
Definition pat_in (p:kpat) (l:list kpat) : bool := pmem p l.
(** [kl.deconstruct_nary_application(p)[0]] *)
Definition nary_head (p:kpat) : kpat := app_head p.
Definition is_symbol (p:kpat) : bool := match p with PSym _ => true | _ => false end.
(** [language_semantics.resolve_to_ksymbol(sym)] (try/except around get_symbol: not translated) *)
Definition sem_resolve_to_ksymbol (S:sig) (p:kpat) : option ksymbol :=
  match p with
  | PSym s => match strip_prefix "ksym_" s with Some n => find_symbol S n | None => None end
  | _ => None
  end.
Definition to_module (s:gexec) : pmodule := mkMod (x_axioms s) (x_claims s) (x_proofs s).
Definition is_rewriting (r:krule) : bool := match r_kind r with RRewrite => true | REquational => false end.

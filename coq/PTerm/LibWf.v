(** [wf_for_checker] is discharged generically on the propositional fragment: proof terms without
    the Quantifier axiom whose plugs and loaded axioms contain no substitution nodes and only
    unconstrained metavariables (all of [Propositional] over such argument patterns). *)
From Coq Require Import NArith PeanoNat List Bool Lia.
From Pi2 Require Import ML.Syntax ML.Subst ML.Machine ML.Facts PTerm.Model PTerm.Facts PTerm.MapSym PTerm.Compile.
Import ListNotations.
Open Scope N_scope.

Fixpoint simple (p:pat) : bool :=
  match p with
  | EVar _ | SVar _ | Sym _ => true
  | MVar _ ef sf pos neg holes => is_nil ef && is_nil sf && is_nil pos && is_nil neg && is_nil holes
  | Imp l r | App l r => simple l && simple r
  | Ex _ q | Mu _ q => simple q
  | ESub _ _ _ | SSub _ _ _ => false
  end.

Section Lookup.
Variable id : N.

Lemma lookup_app_l a : forall pa b pb, length a = length pa -> mem id a = true ->
  lookup id (a ++ b) (pa ++ pb) = lookup id a pa.
Proof.
  induction a as [|v a IH]; intros pa b pb L H; [discriminate|].
  destruct pa as [|p pa]; [discriminate|]. simpl in *.
  destruct (N.eqb v id) eqn:E; [reflexivity|].
  apply IH; [lia|]. unfold mem in *. simpl in H. rewrite N.eqb_sym, E in H. exact H.
Qed.

Lemma lookup_app_r a : forall pa b pb, length a = length pa -> mem id a = false ->
  lookup id (a ++ b) (pa ++ pb) = lookup id b pb.
Proof.
  induction a as [|v a IH]; intros pa b pb L H; destruct pa as [|p pa]; try discriminate; [reflexivity|].
  simpl in *. unfold mem in H. simpl in H. apply orb_false_iff in H as [H1 H2].
  rewrite N.eqb_sym, H1. apply IH; [lia | exact H2].
Qed.
End Lookup.

Lemma mem_rev x l : mem x (rev l) = mem x l.
Proof.
  destruct (mem x l) eqn:E.
  - apply mem_In. apply -> in_rev. apply mem_In. exact E.
  - destruct (mem x (rev l)) eqn:E'; [|reflexivity]. apply mem_In in E'. apply in_rev in E'. apply mem_In in E'. congruence.
Qed.

Lemma dlookup_none id d : mem id (dkeys d) = false -> dlookup id d = None.
Proof.
  induction d as [|[k q] d IH]; simpl; [reflexivity|]. unfold mem. simpl. intros H.
  apply orb_false_iff in H as [H1 H2]. rewrite H1. apply IH. exact H2.
Qed.

(** the checker's lookup in the REVERSED key/plug lists (what the serialiser writes and the stack
    yields) is the dict lookup, for a dict (keys unique) *)
Lemma lookup_rev_dlookup id d : delta_ok d = true ->
  lookup id (rev (dkeys d)) (rev (dvals d)) =
  match dlookup id d with Some q => Some (Some q) | None => None end.
Proof.
  unfold delta_ok. induction d as [|[k q] d IH]; simpl; intros H; [reflexivity|].
  apply andb_true_iff in H as [H1 H2]. apply negb_true_iff in H1.
  assert (L : length (rev (dkeys d)) = length (rev (dvals d)))
    by (unfold dkeys, dvals; rewrite !rev_length, !map_length; reflexivity).
  destruct (mem id (dkeys d)) eqn:EM.
  - rewrite lookup_app_l; [|exact L | rewrite mem_rev; exact EM]. rewrite (IH H2).
    destruct (N.eqb id k) eqn:E; [apply N.eqb_eq in E; subst; congruence | reflexivity].
  - rewrite lookup_app_r; [|exact L | rewrite mem_rev; exact EM]. simpl.
    rewrite (dlookup_none id d EM), (N.eqb_sym k id). destruct (N.eqb id k); reflexivity.
Qed.

Lemma inst_simple g c d : simple c = true -> delta_ok d = true ->
  inst g c (rev (dkeys d)) (rev (dvals d)) = Some (py_inst' d c).
Proof.
  intros S D. revert S. induction c as [n|n|n|l IHl r IHr|l IHl r IHr|y q IHq|Y q IHq|id ef sf pos neg holes|q IHq y plug IHplug|q IHq Y plug IHplug];
    intros S; simpl in *; try reflexivity; try discriminate.
  - apply andb_true_iff in S as [S1 S2]. rewrite (IHl S1), (IHr S2). reflexivity.
  - apply andb_true_iff in S as [S1 S2]. rewrite (IHl S1), (IHr S2). reflexivity.
  - rewrite (IHq S). reflexivity.
  - rewrite (IHq S). reflexivity.
  - rewrite (lookup_rev_dlookup id d D).
    repeat (apply andb_true_iff in S as [S ?]).
    repeat match goal with Hn : is_nil _ = true |- _ => apply is_nil_true in Hn; subst end.
    try (apply is_nil_true in S; subst).
    destruct (dlookup id d); [|reflexivity]. unfold check_constraints. simpl. destruct (g_inst_constraints g); reflexivity.
Qed.

Lemma py_inst_simple d c : simple c = true -> py_inst d c = py_inst' d c.
Proof.
  destruct d; [|reflexivity]. simpl. induction c; simpl; intros S; try reflexivity; try discriminate;
    try (apply andb_true_iff in S as [S1 S2]); rewrite <- ?IHc, <- ?IHc1, <- ?IHc2; auto.
Qed.

Lemma inst_agree_simple c d : simple c = true -> delta_ok d = true -> inst_agree c d = true.
Proof.
  intros S D. unfold inst_agree. rewrite (inst_simple _ c d S D), (py_inst_simple d c S). apply pat_eqb_refl.
Qed.

Lemma dlookup_simple id d q : forallb simple (dvals d) = true -> dlookup id d = Some q -> simple q = true.
Proof.
  induction d as [|[k p] d IH]; simpl; [discriminate|]. intros H. apply andb_true_iff in H as [H1 H2].
  destruct (N.eqb id k); [intros E; inversion E; subst; exact H1 | apply IH; exact H2].
Qed.

Lemma py_inst'_simple d c : simple c = true -> forallb simple (dvals d) = true -> simple (py_inst' d c) = true.
Proof.
  intros S D. induction c; simpl in *; try reflexivity; try discriminate;
    try (apply andb_true_iff in S as [S1 S2]; rewrite IHc1, IHc2; auto); auto.
  destruct (dlookup id d) eqn:E; [eapply dlookup_simple; eassumption | exact S].
Qed.

(** proof terms of the propositional fragment *)
Definition plug_ok (p:pat) : bool := simple p && pat_wf p.
Fixpoint simple_term (t:pterm) : bool :=
  match t with
  | PProp1 | PProp2 | PProp3 => true
  | PQuant => false
  | PMP a b => simple_term a && simple_term b
  | PGen a _ => simple_term a
  | PDynInst a d => simple_term a && delta_ok d && forallb plug_ok (dvals d)
  | PInst _ _ => false
  | PLoadAxiom p => simple p
  end.

Lemma forallb_plug_ok l : forallb plug_ok l = true -> forallb simple l = true /\ forallb pat_wf l = true.
Proof.
  induction l as [|x l IH]; simpl; [auto|]. intros H. apply andb_true_iff in H as [H1 H2].
  apply andb_true_iff in H1 as [A B]. destruct (IH H2) as [C D]. rewrite A, B, C, D. auto.
Qed.

Lemma static_simple axs t : simple_term t = true -> forall c, static_conc axs t = Some c -> simple c = true.
Proof.
  induction t as [| | | |a IHa b IHb|a IHa x|a IHa d|a IHa d|p]; simpl; intros S c H; try discriminate.
  1-3: inversion H; reflexivity.
  - apply andb_true_iff in S as [S1 S2].
    destruct (static_conc axs a) as [[| | |l r| | | | | |]|] eqn:EA; try discriminate.
    destruct (static_conc axs b) as [cb|]; [|discriminate].
    destruct (pat_eqb l cb); [|discriminate]. inversion H; subst.
    specialize (IHa S1 _ eq_refl). simpl in IHa. apply andb_true_iff in IHa as [_ R]. exact R.
  - destruct (static_conc axs a) as [[| | |l r| | | | | |]|] eqn:EA; try discriminate. inversion H; subst.
    specialize (IHa S _ eq_refl). simpl in *. exact IHa.
  - apply andb_true_iff in S as [S S3]. apply andb_true_iff in S as [S1 S2].
    destruct (forallb_plug_ok _ S3) as [P1 P2].
    destruct d as [|kp d]; [apply IHa; assumption|].
    destruct (static_conc axs a) as [ca|] eqn:EA; [|discriminate]. simpl in H. inversion H; subst.
    apply py_inst'_simple; [apply IHa; [exact S1 | reflexivity] | exact P1].
  - destruct (pmem p axs); [|discriminate]. inversion H; subst. exact S.
Qed.

(** the premise [wf_for_checker] of [compile_correct] / [module_ok] holds for the whole fragment *)
Theorem lib_wf axs t c : simple_term t = true -> static_conc axs t = Some c ->
  wf_for_checker axs t = true /\ dynamic t = true.
Proof.
  revert c. induction t as [| | | |a IHa b IHb|a IHa x|a IHa d|a IHa d|p]; simpl; intros c S H; try discriminate; auto.
  - apply andb_true_iff in S as [S1 S2].
    destruct (static_conc axs a) as [ca|] eqn:EA; [|discriminate].
    destruct (static_conc axs b) as [cb|] eqn:EB; [|destruct ca; discriminate].
    destruct (IHa _ S1 eq_refl) as [A1 A2]. destruct (IHb _ S2 eq_refl) as [B1 B2].
    rewrite A1, A2, B1, B2. auto.
  - destruct (static_conc axs a) as [ca|] eqn:EA; [|discriminate]. apply (IHa _ S eq_refl).
  - apply andb_true_iff in S as [S S3]. apply andb_true_iff in S as [S1 S2].
    destruct (forallb_plug_ok _ S3) as [P1 P2].
    destruct (static_conc axs a) as [ca|] eqn:EA; [|destruct d; discriminate].
    destruct (IHa _ S1 eq_refl) as [A1 A2]. rewrite A1, A2. split; [|reflexivity].
    destruct d as [|kp d]; [reflexivity|]. rewrite P2. simpl.
    apply inst_agree_simple; [eapply static_simple; eassumption | exact S2].
Qed.

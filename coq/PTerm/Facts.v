(** Proofs for C08: every interpreter stack computes the Basic result on the dynamic DSL. *)
From Coq Require Import NArith PeanoNat List Bool Lia.
From Pi2 Require Import ML.Syntax ML.Subst ML.Machine ML.Facts PTerm.Model.
Import ListNotations.
Open Scope N_scope.

(** * Equality tests *)
Lemma term_eqb_refl t : term_eqb t t = true.
Proof. destruct t; simpl; apply pat_eqb_refl. Qed.

Lemma term_eqb_eq a b : term_eqb a b = true <-> a = b.
Proof.
  destruct a, b; simpl; split; intros H; try discriminate; try (apply pat_eqb_eq in H; congruence);
    inversion H; subst; apply pat_eqb_refl.
Qed.

Lemma terms_eqb_refl l : terms_eqb l l = true.
Proof. induction l as [|x l IH]; simpl; [reflexivity|]. rewrite term_eqb_refl, IH. reflexivity. Qed.

Lemma tmem_In t l : tmem t l = true <-> In t l.
Proof.
  unfold tmem. rewrite existsb_exists. split.
  - intros (y & Hy & E). apply term_eqb_eq in E. subst. exact Hy.
  - intros H. exists t. split; [exact H | apply term_eqb_refl].
Qed.

Lemma tmem_app t a b : tmem t a = true -> tmem t (a ++ b) = true.
Proof. rewrite !tmem_In. intros H. apply in_or_app. left. exact H. Qed.

Lemma pmem_In p l : pmem p l = true <-> In p l.
Proof.
  unfold pmem. rewrite existsb_exists. split.
  - intros (y & Hy & E). apply pat_eqb_eq in E. subst. exact Hy.
  - intros H. exists p. split; [exact H | apply pat_eqb_refl].
Qed.

(** * Folding a call list *)
Lemma st_run_app a : forall b s, st_run (a ++ b) s = match st_run a s with Some s' => st_run b s' | None => None end.
Proof.
  induction a as [|c a IH]; intros b s; simpl; [reflexivity|].
  destruct (st_step c s) as [s'|]; [apply IH | reflexivity].
Qed.

Lemma st_run_one c s : st_run [c] s = st_step c s.
Proof. simpl. destruct (st_step c s); reflexivity. Qed.

(** * The pure Basic semantics of a proof term (no calls, no state) *)
Fixpoint bconc (axs:list pat) (t:pterm) : option pat :=
  match static_conc axs t with
  | None => None
  | Some sc =>
    match
      match t with
      | PProp1 => Some py_prop1
      | PProp2 => Some py_prop2
      | PProp3 => Some py_prop3
      | PQuant => Some py_quant
      | PMP a b =>
          match bconc axs a, bconc axs b with
          | Some (Imp l r), Some pb => if pat_eqb l pb then Some r else None
          | _, _ => None
          end
      | PGen a x =>
          match bconc axs a with
          | Some (Imp l r) => if e_fresh r x then Some (Imp (Ex x l) r) else None
          | _ => None
          end
      | PDynInst a d =>
          match d with
          | [] => bconc axs a
          | _ => if forallb shape_ok (dvals d) then option_map (py_inst d) (bconc axs a) else None
          end
      | PInst a d => option_map (py_inst d) (bconc axs a)
      | PLoadAxiom p => Some p
      end
    with
    | Some r => if pat_eqb r sc then Some r else None
    | None => None
    end
  end.

(** memory of a stateful interpreter reachable through the DSL: every stored pattern went through
    [Interpreter.pattern], hence passed its shape asserts *)
Definition mem_shape_ok (mem:list term) : Prop := forall p, In (TPat p) mem -> shape_ok p = true.

Lemma mem_shape_ok_app mem p : mem_shape_ok mem -> shape_ok p = true -> mem_shape_ok (mem ++ [TPat p]).
Proof.
  intros H Hp q Hq. apply in_app_or in Hq as [Hq|[Hq|[]]]; [apply H; exact Hq|]. inversion Hq; subst. exact Hp.
Qed.
Lemma mem_shape_ok_nil : mem_shape_ok [].
Proof. intros p []. Qed.

Section Cfg.
Variable inS : pat -> bool.
Variable loads : bool.
Variable instopt : bool.
Variable axs : list pat.

(** ** Patterns *)

(** [pcalls] succeeds exactly on well-shaped patterns, keeps the memory invariant, only appends *)
Lemma pcalls_ok p : forall mem, mem_shape_ok mem -> shape_ok p = true ->
  exists cs m', pcalls inS loads p mem = Some (cs, m') /\ mem_shape_ok m' /\ (exists ext, m' = mem ++ ext).
Proof.
  induction p as [n|n|n|l IHl r IHr|l IHl r IHr|y q IHq|Y q IHq|id ef sf pos neg holes|q IHq y plug IHplug|q IHq Y plug IHplug];
    intros mem Hm Hs; simpl in Hs.
  all: simpl pcalls; destruct (loads && tmem _ mem) eqn:EL;
    [ eexists _, mem; split; [reflexivity|]; split; [exact Hm | exists []; rewrite app_nil_r; reflexivity] |].
  all: try solve [
    match goal with |- context [inS ?p] =>
      destruct (inS p) eqn:ES;
      [ eexists _, _; split; [reflexivity|]; split;
        [ apply mem_shape_ok_app; [exact Hm | reflexivity] | eexists; reflexivity ]
      | eexists _, _; split; [reflexivity|]; split; [exact Hm | exists []; rewrite app_nil_r; reflexivity] ] end ].
  - (* Imp *)
    apply andb_true_iff in Hs as [H1 H2].
    destruct (IHl mem Hm H1) as (c1 & m1 & E1 & M1 & (x1 & X1)). rewrite E1.
    destruct (IHr m1 M1 H2) as (c2 & m2 & E2 & M2 & (x2 & X2)). rewrite E2.
    destruct (inS (Imp l r)).
    + eexists _, _; split; [reflexivity|]. split.
      * apply mem_shape_ok_app; [exact M2 | simpl; rewrite H1, H2; reflexivity].
      * subst. eexists. rewrite <- !app_assoc. reflexivity.
    + eexists _, _; split; [reflexivity|]. split; [exact M2|]. subst. eexists. rewrite <- app_assoc. reflexivity.
  - (* App *)
    apply andb_true_iff in Hs as [H1 H2].
    destruct (IHl mem Hm H1) as (c1 & m1 & E1 & M1 & (x1 & X1)). rewrite E1.
    destruct (IHr m1 M1 H2) as (c2 & m2 & E2 & M2 & (x2 & X2)). rewrite E2.
    destruct (inS (App l r)).
    + eexists _, _; split; [reflexivity|]. split.
      * apply mem_shape_ok_app; [exact M2 | simpl; rewrite H1, H2; reflexivity].
      * subst. eexists. rewrite <- !app_assoc. reflexivity.
    + eexists _, _; split; [reflexivity|]. split; [exact M2|]. subst. eexists. rewrite <- app_assoc. reflexivity.
  - (* Ex *)
    destruct (IHq mem Hm Hs) as (c1 & m1 & E1 & M1 & (x1 & X1)). rewrite E1.
    destruct (inS (Ex y q)).
    + eexists _, _; split; [reflexivity|]. split.
      * apply mem_shape_ok_app; [exact M1 | exact Hs].
      * subst. eexists. rewrite <- !app_assoc. reflexivity.
    + eexists _, _; split; [reflexivity|]. split; [exact M1|]. subst. eexists. reflexivity.
  - (* Mu *)
    destruct (IHq mem Hm Hs) as (c1 & m1 & E1 & M1 & (x1 & X1)). rewrite E1.
    destruct (inS (Mu Y q)).
    + eexists _, _; split; [reflexivity|]. split.
      * apply mem_shape_ok_app; [exact M1 | exact Hs].
      * subst. eexists. rewrite <- !app_assoc. reflexivity.
    + eexists _, _; split; [reflexivity|]. split; [exact M1|]. subst. eexists. reflexivity.
  - (* ESub *)
    apply andb_true_iff in Hs as [Hs H3]. apply andb_true_iff in Hs as [H1 H2].
    destruct (IHplug mem Hm H1) as (c1 & m1 & E1 & M1 & (x1 & X1)). rewrite E1.
    destruct (IHq m1 M1 H2) as (c2 & m2 & E2 & M2 & (x2 & X2)). rewrite E2, H3.
    destruct (inS (ESub q y plug)).
    + eexists _, _; split; [reflexivity|]. split.
      * apply mem_shape_ok_app; [exact M2 | simpl; rewrite H1, H2, H3; reflexivity].
      * subst. eexists. rewrite <- !app_assoc. reflexivity.
    + eexists _, _; split; [reflexivity|]. split; [exact M2|]. subst. eexists. rewrite <- app_assoc. reflexivity.
  - (* SSub *)
    apply andb_true_iff in Hs as [Hs H3]. apply andb_true_iff in Hs as [H1 H2].
    destruct (IHplug mem Hm H1) as (c1 & m1 & E1 & M1 & (x1 & X1)). rewrite E1.
    destruct (IHq m1 M1 H2) as (c2 & m2 & E2 & M2 & (x2 & X2)). rewrite E2, H3.
    destruct (inS (SSub q Y plug)).
    + eexists _, _; split; [reflexivity|]. split.
      * apply mem_shape_ok_app; [exact M2 | simpl; rewrite H1, H2, H3; reflexivity].
      * subst. eexists. rewrite <- !app_assoc. reflexivity.
    + eexists _, _; split; [reflexivity|]. split; [exact M2|]. subst. eexists. rewrite <- app_assoc. reflexivity.
Qed.

Lemma pcalls_shape p : forall mem cs m', mem_shape_ok mem -> pcalls inS loads p mem = Some (cs, m') -> shape_ok p = true.
Proof.
  induction p as [n|n|n|l IHl r IHr|l IHl r IHr|y q IHq|Y q IHq|id ef sf pos neg holes|q IHq y plug IHplug|q IHq Y plug IHplug];
    intros mem cs m' Hm H; try reflexivity; simpl pcalls in H.
  all: destruct (loads && tmem _ mem) eqn:EL;
    [ apply andb_true_iff in EL as [_ EL]; apply tmem_In in EL; apply Hm; exact EL |].
  - destruct (pcalls inS loads l mem) as [[c1 m1]|] eqn:E1; [|discriminate].
    assert (M1 : mem_shape_ok m1) by (destruct (pcalls_ok l mem Hm (IHl _ _ _ Hm E1)) as (a & b & E' & M & _); rewrite E1 in E'; inversion E'; subst; exact M).
    destruct (pcalls inS loads r m1) as [[c2 m2]|] eqn:E2; [|discriminate].
    simpl. rewrite (IHl _ _ _ Hm E1), (IHr _ _ _ M1 E2). reflexivity.
  - destruct (pcalls inS loads l mem) as [[c1 m1]|] eqn:E1; [|discriminate].
    assert (M1 : mem_shape_ok m1) by (destruct (pcalls_ok l mem Hm (IHl _ _ _ Hm E1)) as (a & b & E' & M & _); rewrite E1 in E'; inversion E'; subst; exact M).
    destruct (pcalls inS loads r m1) as [[c2 m2]|] eqn:E2; [|discriminate].
    simpl. rewrite (IHl _ _ _ Hm E1), (IHr _ _ _ M1 E2). reflexivity.
  - destruct (pcalls inS loads q mem) as [[c1 m1]|] eqn:E1; [|discriminate]. simpl. eapply IHq; eassumption.
  - destruct (pcalls inS loads q mem) as [[c1 m1]|] eqn:E1; [|discriminate]. simpl. eapply IHq; eassumption.
  - destruct (pcalls inS loads plug mem) as [[c1 m1]|] eqn:E1; [|discriminate].
    assert (M1 : mem_shape_ok m1) by (destruct (pcalls_ok plug mem Hm (IHplug _ _ _ Hm E1)) as (a & b & E' & M & _); rewrite E1 in E'; inversion E'; subst; exact M).
    destruct (pcalls inS loads q m1) as [[c2 m2]|] eqn:E2; [|discriminate].
    destruct (is_meta_head q) eqn:EH; [|discriminate].
    simpl. rewrite (IHplug _ _ _ Hm E1), (IHq _ _ _ M1 E2), EH. reflexivity.
  - destruct (pcalls inS loads plug mem) as [[c1 m1]|] eqn:E1; [|discriminate].
    assert (M1 : mem_shape_ok m1) by (destruct (pcalls_ok plug mem Hm (IHplug _ _ _ Hm E1)) as (a & b & E' & M & _); rewrite E1 in E'; inversion E'; subst; exact M).
    destruct (pcalls inS loads q m1) as [[c2 m2]|] eqn:E2; [|discriminate].
    destruct (is_meta_head q) eqn:EH; [|discriminate].
    simpl. rewrite (IHplug _ _ _ Hm E1), (IHq _ _ _ M1 E2), EH. reflexivity.
Qed.

Local Opaque term_eqb.

(** the stateful interpreter accepts the calls of [pattern(p)] and ends with [p] on top *)
Lemma pcalls_st p : forall s cs m',
  pcalls inS loads p (s_mem s) = Some (cs, m') ->
  st_run cs s = Some (mksst (TPat p :: s_stack s) m' (s_claims s) (s_phase s)).
Proof.
  induction p as [n|n|n|l IHl r IHr|l IHl r IHr|y q IHq|Y q IHq|id ef sf pos neg holes|q IHq y plug IHplug|q IHq Y plug IHplug];
    intros s cs m' H; simpl pcalls in H.
  all: destruct (loads && tmem _ (s_mem s)) eqn:EL;
    [ apply andb_true_iff in EL as [_ EL]; inversion H; subst; simpl; rewrite EL; destruct s; reflexivity |].
  all: try solve [
    match type of H with context [inS ?p] => destruct (inS p) end; inversion H; subst; simpl;
    rewrite ?term_eqb_refl; destruct s; reflexivity ].
  - destruct (pcalls inS loads l (s_mem s)) as [[c1 m1]|] eqn:E1; [|discriminate].
    pose proof (IHl s c1 m1 E1) as R1.
    destruct (pcalls inS loads r m1) as [[c2 m2]|] eqn:E2; [|discriminate].
    pose proof (IHr (mksst (TPat l :: s_stack s) m1 (s_claims s) (s_phase s)) c2 m2 E2) as R2. simpl in R2.
    destruct (inS (Imp l r)); inversion H; subst; clear H;
      rewrite <- ?app_assoc; rewrite st_run_app, R1, st_run_app, R2; simpl; rewrite ?term_eqb_refl; simpl; rewrite ?term_eqb_refl; reflexivity.
  - destruct (pcalls inS loads l (s_mem s)) as [[c1 m1]|] eqn:E1; [|discriminate].
    pose proof (IHl s c1 m1 E1) as R1.
    destruct (pcalls inS loads r m1) as [[c2 m2]|] eqn:E2; [|discriminate].
    pose proof (IHr (mksst (TPat l :: s_stack s) m1 (s_claims s) (s_phase s)) c2 m2 E2) as R2. simpl in R2.
    destruct (inS (App l r)); inversion H; subst; clear H;
      rewrite <- ?app_assoc; rewrite st_run_app, R1, st_run_app, R2; simpl; rewrite ?term_eqb_refl; simpl; rewrite ?term_eqb_refl; reflexivity.
  - destruct (pcalls inS loads q (s_mem s)) as [[c1 m1]|] eqn:E1; [|discriminate].
    pose proof (IHq s c1 m1 E1) as R1.
    destruct (inS (Ex y q)); inversion H; subst; clear H;
      rewrite <- ?app_assoc; rewrite st_run_app, R1; simpl; rewrite ?term_eqb_refl; simpl; rewrite ?term_eqb_refl; reflexivity.
  - destruct (pcalls inS loads q (s_mem s)) as [[c1 m1]|] eqn:E1; [|discriminate].
    pose proof (IHq s c1 m1 E1) as R1.
    destruct (inS (Mu Y q)); inversion H; subst; clear H;
      rewrite <- ?app_assoc; rewrite st_run_app, R1; simpl; rewrite ?term_eqb_refl; simpl; rewrite ?term_eqb_refl; reflexivity.
  - destruct (pcalls inS loads plug (s_mem s)) as [[c1 m1]|] eqn:E1; [|discriminate].
    pose proof (IHplug s c1 m1 E1) as R1.
    destruct (pcalls inS loads q m1) as [[c2 m2]|] eqn:E2; [|discriminate].
    pose proof (IHq (mksst (TPat plug :: s_stack s) m1 (s_claims s) (s_phase s)) c2 m2 E2) as R2. simpl in R2.
    destruct (is_meta_head q); [|discriminate].
    destruct (inS (ESub q y plug)); inversion H; subst; clear H;
      rewrite <- ?app_assoc; rewrite st_run_app, R1, st_run_app, R2; simpl; rewrite ?term_eqb_refl; simpl; rewrite ?term_eqb_refl; reflexivity.
  - destruct (pcalls inS loads plug (s_mem s)) as [[c1 m1]|] eqn:E1; [|discriminate].
    pose proof (IHplug s c1 m1 E1) as R1.
    destruct (pcalls inS loads q m1) as [[c2 m2]|] eqn:E2; [|discriminate].
    pose proof (IHq (mksst (TPat plug :: s_stack s) m1 (s_claims s) (s_phase s)) c2 m2 E2) as R2. simpl in R2.
    destruct (is_meta_head q); [|discriminate].
    destruct (inS (SSub q Y plug)); inversion H; subst; clear H;
      rewrite <- ?app_assoc; rewrite st_run_app, R1, st_run_app, R2; simpl; rewrite ?term_eqb_refl; simpl; rewrite ?term_eqb_refl; reflexivity.
Qed.

End Cfg.

(** * Thunks *)
(** the DSL without a static [ProofExp.instantiate] that carries plugs (D10); the static instantiate
    with an EMPTY delta is harmless since the fix of D11 *)
Fixpoint no_plug_inst (t:pterm) : bool :=
  match t with
  | PMP a b => no_plug_inst a && no_plug_inst b
  | PGen a _ | PDynInst a _ => no_plug_inst a
  | PInst a d => no_plug_inst a && is_nil d
  | _ => true
  end.

Lemma dynamic_no_plug_inst t : dynamic t = true -> no_plug_inst t = true.
Proof.
  induction t as [| | | |a IHa b IHb|a IHa x|a IHa d|a IHa d|p]; simpl; intros H; auto; try discriminate.
  apply andb_true_iff in H as [H1 H2]. rewrite IHa, IHb; auto.
Qed.

(** the term's [load_axiom]s are resolvable in memory [mem] *)
Fixpoint loads_ok (t:pterm) (mem:list term) : bool :=
  match t with
  | PMP a b => loads_ok a mem && loads_ok b mem
  | PGen a _ | PDynInst a _ | PInst a _ => loads_ok a mem
  | PLoadAxiom p => tmem (TProved p) mem
  | _ => true
  end.

Lemma loads_ok_app t mem ext : loads_ok t mem = true -> loads_ok t (mem ++ ext) = true.
Proof.
  induction t as [| | | |a IHa b IHb|a IHa x|a IHa d|a IHa d|p]; simpl; intros H; auto.
  - apply andb_true_iff in H as [H1 H2]. rewrite IHa, IHb; auto.
  - apply tmem_app. exact H.
Qed.

Section Cfg2.
Variable inS : pat -> bool.
Variable loads : bool.
Variable instopt : bool.
Variable axs : list pat.

Notation pcalls' := (pcalls inS loads).
Notation plug_calls' := (plug_calls inS loads).
Notation tcalls' := (tcalls inS loads instopt axs).

Lemma plug_calls_ok d : forall mem, mem_shape_ok mem -> forallb shape_ok (dvals d) = true ->
  exists cs m', plug_calls' d mem = Some (cs, m') /\ mem_shape_ok m' /\ (exists ext, m' = mem ++ ext).
Proof.
  induction d as [|[k p] d IH]; intros mem Hm Hs; simpl in *.
  - eexists _, _; split; [reflexivity|]. split; [exact Hm | exists []; rewrite app_nil_r; reflexivity].
  - apply andb_true_iff in Hs as [H1 H2].
    destruct (pcalls_ok inS loads p mem Hm H1) as (c1 & m1 & E1 & M1 & (x1 & X1)). rewrite E1.
    destruct (IH m1 M1 H2) as (c2 & m2 & E2 & M2 & (x2 & X2)). rewrite E2.
    eexists _, _; split; [reflexivity|]. split; [exact M2|]. subst. eexists. rewrite <- app_assoc. reflexivity.
Qed.

Lemma plug_calls_shape d : forall mem cs m', mem_shape_ok mem -> plug_calls' d mem = Some (cs, m') ->
  forallb shape_ok (dvals d) = true.
Proof.
  induction d as [|[k p] d IH]; intros mem cs m' Hm H; simpl in *; [reflexivity|].
  destruct (pcalls' p mem) as [[c1 m1]|] eqn:E1; [|discriminate].
  pose proof (pcalls_shape inS loads p mem c1 m1 Hm E1) as S1.
  assert (M1 : mem_shape_ok m1) by (destruct (pcalls_ok inS loads p mem Hm S1) as (a & b & E' & M & _); rewrite E1 in E'; inversion E'; subst; exact M).
  destruct (plug_calls' d m1) as [[c2 m2]|] eqn:E2; [|discriminate].
  rewrite S1, (IH _ _ _ M1 E2). reflexivity.
Qed.

Local Opaque term_eqb.

Lemma plug_calls_st d : forall s cs m', plug_calls' d (s_mem s) = Some (cs, m') ->
  st_run cs s = Some (mksst (rev (map TPat (dvals d)) ++ s_stack s) m' (s_claims s) (s_phase s)).
Proof.
  induction d as [|[k p] d IH]; intros s cs m' H; simpl in H.
  - inversion H; subst. destruct s; reflexivity.
  - destruct (pcalls' p (s_mem s)) as [[c1 m1]|] eqn:E1; [|discriminate].
    destruct (plug_calls' d m1) as [[c2 m2]|] eqn:E2; [|discriminate].
    inversion H; subst; clear H.
    rewrite st_run_app, (pcalls_st inS loads p s c1 m1 E1).
    rewrite (IH (mksst (TPat p :: s_stack s) m1 (s_claims s) (s_phase s)) c2 m' E2).
    simpl. rewrite <- app_assoc. reflexivity.
Qed.

(** ** one-step unfoldings of [tcalls] and [bconc] *)
Definition tbody (t:pterm) (mem:list term) : option (list call * pat * list term) :=
  match t with
  | PProp1 => Some ([CProp1], py_prop1, mem)
  | PProp2 => Some ([CProp2], py_prop2, mem)
  | PProp3 => Some ([CProp3], py_prop3, mem)
  | PQuant => Some ([CQuant], py_quant, mem)
  | PMP a b =>
      match tcalls' a mem with
      | Some (ca, pa, m1) =>
          match tcalls' b m1 with
          | Some (cb, pb, m2) =>
              match pa with
              | Imp l r => if pat_eqb l pb then Some (ca ++ cb ++ [CMP pa pb], r, m2) else None
              | _ => None end
          | None => None end
      | None => None end
  | PGen a x =>
      match tcalls' a mem with
      | Some (ca, pa, m1) =>
          match pa with
          | Imp l r => if e_fresh r x then Some (ca ++ [CGen pa x], Imp (Ex x l) r, m1) else None
          | _ => None end
      | None => None end
  | PDynInst a d =>
      match d with
      | [] => tcalls' a mem
      | _ =>
        match plug_calls' d mem with
        | Some (cp, m1) =>
            match tcalls' a m1 with
            | Some (ca, pa, m2) => Some (cp ++ ca ++ [CInst pa d], py_inst d pa, m2)
            | None => None end
        | None => None end
      end
  | PInst a d =>
      match tcalls' a mem with
      | Some (ca, pa, m1) =>
          Some (ca ++ (if instopt && is_nil d then [] else [CInst pa d]), py_inst d pa, m1)
      | None => None end
  | PLoadAxiom p => Some ([CLoad (TProved p)], p, mem)
  end.

Lemma tcalls_unfold t mem :
  tcalls' t mem = match static_conc axs t with
                  | None => None
                  | Some sc => match tbody t mem with
                               | Some (cs, r, m) => if pat_eqb r sc then Some (cs, r, m) else None
                               | None => None end
                  end.
Proof. destruct t; reflexivity. Qed.

Lemma tcalls_inv t mem cs c m' : tcalls' t mem = Some (cs, c, m') ->
  static_conc axs t = Some c /\ tbody t mem = Some (cs, c, m').
Proof.
  rewrite tcalls_unfold. destruct (static_conc axs t) as [sc|]; [|discriminate].
  destruct (tbody t mem) as [[[cs0 r] m0]|]; [|discriminate].
  destruct (pat_eqb r sc) eqn:E; [|discriminate]. apply pat_eqb_eq in E. intros H; inversion H; subst. auto.
Qed.

Lemma tcalls_intro t mem cs c m' : static_conc axs t = Some c -> tbody t mem = Some (cs, c, m') ->
  tcalls' t mem = Some (cs, c, m').
Proof. intros H1 H2. rewrite tcalls_unfold, H1, H2, pat_eqb_refl. reflexivity. Qed.

Definition bbody (t:pterm) : option pat :=
  match t with
  | PProp1 => Some py_prop1
  | PProp2 => Some py_prop2
  | PProp3 => Some py_prop3
  | PQuant => Some py_quant
  | PMP a b =>
      match bconc axs a, bconc axs b with
      | Some (Imp l r), Some pb => if pat_eqb l pb then Some r else None
      | _, _ => None
      end
  | PGen a x =>
      match bconc axs a with
      | Some (Imp l r) => if e_fresh r x then Some (Imp (Ex x l) r) else None
      | _ => None
      end
  | PDynInst a d =>
      match d with
      | [] => bconc axs a
      | _ => if forallb shape_ok (dvals d) then option_map (py_inst d) (bconc axs a) else None
      end
  | PInst a d => option_map (py_inst d) (bconc axs a)
  | PLoadAxiom p => Some p
  end.

Lemma bconc_unfold t :
  bconc axs t = match static_conc axs t with
                | None => None
                | Some sc => match bbody t with
                             | Some r => if pat_eqb r sc then Some r else None
                             | None => None end
                end.
Proof. destruct t; reflexivity. Qed.

Lemma bconc_inv t c : bconc axs t = Some c -> static_conc axs t = Some c /\ bbody t = Some c.
Proof.
  rewrite bconc_unfold. destruct (static_conc axs t) as [sc|]; [|discriminate].
  destruct (bbody t) as [r|]; [|discriminate].
  destruct (pat_eqb r sc) eqn:E; [|discriminate]. apply pat_eqb_eq in E. intros H; inversion H; subst. auto.
Qed.

Lemma bconc_intro t c : static_conc axs t = Some c -> bbody t = Some c -> bconc axs t = Some c.
Proof. intros H1 H2. rewrite bconc_unfold, H1, H2, pat_eqb_refl. reflexivity. Qed.

(** ** the result of a thunk does not depend on the interpreter stack *)
Lemma tcalls_sound t : forall mem cs c m', mem_shape_ok mem -> tcalls' t mem = Some (cs, c, m') ->
  bconc axs t = Some c /\ mem_shape_ok m' /\ (exists ext, m' = mem ++ ext).
Proof.
  induction t as [| | | |a IHa b IHb|a IHa x|a IHa d|a IHa d|p]; intros mem cs c m' Hm H;
    apply tcalls_inv in H as [HS HB]; simpl in HB.
  1-4: inversion HB; subst; (split; [apply bconc_intro; [exact HS | reflexivity] |]);
       (split; [exact Hm | exists []; rewrite app_nil_r; reflexivity]).
  - destruct (tcalls' a mem) as [[[ca pa] m1]|] eqn:E1; [|discriminate].
    destruct (IHa _ _ _ _ Hm E1) as (B1 & M1 & (x1 & X1)).
    destruct (tcalls' b m1) as [[[cb pb] m2]|] eqn:E2; [|discriminate].
    destruct (IHb _ _ _ _ M1 E2) as (B2 & M2 & (x2 & X2)).
    destruct pa as [| | |l r| | | | | |]; try discriminate.
    destruct (pat_eqb l pb) eqn:EQ; [|discriminate]. inversion HB; subst; clear HB.
    split; [|split; [exact M2 | eexists; rewrite <- app_assoc; reflexivity]].
    apply bconc_intro; [exact HS|]. simpl. rewrite B1, B2, EQ. reflexivity.
  - destruct (tcalls' a mem) as [[[ca pa] m1]|] eqn:E1; [|discriminate].
    destruct (IHa _ _ _ _ Hm E1) as (B1 & M1 & (x1 & X1)).
    destruct pa as [| | |l r| | | | | |]; try discriminate.
    destruct (e_fresh r x) eqn:EF; [|discriminate]. inversion HB; subst; clear HB.
    split; [|split; [exact M1 | eexists; reflexivity]].
    apply bconc_intro; [exact HS|]. simpl. rewrite B1, EF. reflexivity.
  - destruct d as [|kp d].
    + destruct (IHa _ _ _ _ Hm HB) as (B1 & M1 & X1).
      split; [|split; assumption]. apply bconc_intro; [exact HS | exact B1].
    + destruct (plug_calls' (kp :: d) mem) as [[cp m1]|] eqn:EP; [|discriminate].
      pose proof (plug_calls_shape _ _ _ _ Hm EP) as SP.
      assert (MX : mem_shape_ok m1 /\ exists ext, m1 = mem ++ ext)
        by (destruct (plug_calls_ok (kp :: d) mem Hm SP) as (a' & b' & E' & M & X); rewrite EP in E'; inversion E'; subst; auto).
      destruct MX as (M1 & (x1 & X1)).
      destruct (tcalls' a m1) as [[[ca pa] m2]|] eqn:E1; [|discriminate].
      destruct (IHa _ _ _ _ M1 E1) as (B1 & M2 & (x2 & X2)). inversion HB; subst; clear HB.
      split; [|split; [exact M2 | eexists; rewrite <- app_assoc; reflexivity]].
      apply bconc_intro; [exact HS|]. unfold bbody. rewrite SP, B1. reflexivity.
  - destruct (tcalls' a mem) as [[[ca pa] m1]|] eqn:E1; [|discriminate].
    destruct (IHa _ _ _ _ Hm E1) as (B1 & M1 & X1). inversion HB; subst; clear HB.
    split; [|split; assumption]. apply bconc_intro; [exact HS|]. simpl. rewrite B1. reflexivity.
  - inversion HB; subst. split; [apply bconc_intro; [exact HS | reflexivity]|].
    split; [exact Hm | exists []; rewrite app_nil_r; reflexivity].
Qed.

Lemma tcalls_complete t : forall mem c, mem_shape_ok mem -> bconc axs t = Some c ->
  exists cs m', tcalls' t mem = Some (cs, c, m').
Proof.
  induction t as [| | | |a IHa b IHb|a IHa x|a IHa d|a IHa d|p]; intros mem c Hm H;
    apply bconc_inv in H as [HS HB]; simpl in HB.
  1-4: inversion HB; subst; eexists _, _; apply tcalls_intro; [exact HS | reflexivity].
  - destruct (bconc axs a) as [pa|] eqn:B1; [|discriminate].
    destruct pa as [| | |l r| | | | | |]; try discriminate.
    destruct (bconc axs b) as [pb|] eqn:B2; [|discriminate].
    destruct (pat_eqb l pb) eqn:EQ; [|discriminate]. inversion HB; subst; clear HB.
    destruct (IHa mem _ Hm eq_refl) as (ca & m1 & E1).
    destruct (tcalls_sound a _ _ _ _ Hm E1) as (_ & M1 & _).
    destruct (IHb m1 _ M1 eq_refl) as (cb & m2 & E2).
    eexists _, _. apply tcalls_intro; [exact HS|]. simpl. rewrite E1, E2, EQ. reflexivity.
  - destruct (bconc axs a) as [pa|] eqn:B1; [|discriminate].
    destruct pa as [| | |l r| | | | | |]; try discriminate.
    destruct (e_fresh r x) eqn:EF; [|discriminate]. inversion HB; subst; clear HB.
    destruct (IHa mem _ Hm eq_refl) as (ca & m1 & E1).
    eexists _, _. apply tcalls_intro; [exact HS|]. simpl. rewrite E1, EF. reflexivity.
  - destruct d as [|kp d].
    + destruct (IHa mem _ Hm HB) as (ca & m1 & E1).
      eexists _, _. apply tcalls_intro; [exact HS | exact E1].
    + destruct (forallb shape_ok (dvals (kp :: d))) eqn:SP; [|discriminate].
      destruct (bconc axs a) as [pa|] eqn:B1; [|discriminate]. simpl in HB. inversion HB; subst; clear HB.
      destruct (plug_calls_ok (kp :: d) mem Hm SP) as (cp & m1 & EP & M1 & _).
      destruct (IHa m1 _ M1 eq_refl) as (ca & m2 & E1).
      eexists _, _. apply tcalls_intro; [exact HS|]. unfold tbody. rewrite EP, E1. reflexivity.
  - destruct (bconc axs a) as [pa|] eqn:B1; [|discriminate]. simpl in HB. inversion HB; subst; clear HB.
    destruct (IHa mem _ Hm eq_refl) as (ca & m1 & E1).
    eexists _, _. apply tcalls_intro; [exact HS|]. simpl. rewrite E1. reflexivity.
  - inversion HB; subst. eexists _, _. apply tcalls_intro; [exact HS | reflexivity].
Qed.

(** ** the stateful interpreter accepts every dynamic thunk that Basic accepts *)
Lemma firstn_app_exact {A} (a b:list A) : firstn (length a) (a ++ b) = a.
Proof. induction a; simpl; [destruct b; reflexivity | f_equal; assumption]. Qed.
Lemma skipn_app_exact {A} (a b:list A) : skipn (length a) (a ++ b) = b.
Proof. induction a; simpl; [reflexivity | assumption]. Qed.

Lemma is_nil_true' {A} (l:list A) : is_nil l = true -> l = [].
Proof. destruct l; [reflexivity | discriminate]. Qed.

Lemma st_inst_dynamic c d stk mem cl ph : d <> [] ->
  st_step (CInst c d) (mksst (TProved c :: rev (map TPat (dvals d)) ++ stk) mem cl ph)
  = Some (mksst (TProved (py_inst d c) :: stk) mem cl ph).
Proof.
  intros Hd. unfold st_step, st_inst. cbn [s_stack].
  assert (L : length d = length (rev (map TPat (dvals d)))) by (rewrite rev_length, map_length; unfold dvals; rewrite map_length; reflexivity).
  assert (E : inst_split false (length d) (rev (map TPat (dvals d)) ++ stk) = (rev (map TPat (dvals d)), stk)).
  { unfold inst_split. destruct (length d) eqn:EL; [destruct d; [contradiction | discriminate]|].
    rewrite L, firstn_app_exact, skipn_app_exact. reflexivity. }
  rewrite E. rewrite rev_involutive, term_eqb_refl, terms_eqb_refl. reflexivity.
Qed.

Lemma tcalls_st t : forall s cs c m', no_plug_inst t = true -> mem_shape_ok (s_mem s) -> loads_ok t (s_mem s) = true ->
  tcalls' t (s_mem s) = Some (cs, c, m') ->
  st_run cs s = Some (mksst (TProved c :: s_stack s) m' (s_claims s) (s_phase s)).
Proof.
  induction t as [| | | |a IHa b IHb|a IHa x|a IHa d|a IHa d|p]; intros s cs c m' Hd Hm Hl H;
    pose proof H as H0; apply tcalls_inv in H as [HS HB]; simpl in HB, Hd, Hl.
  1-4: inversion HB; subst; destruct s; reflexivity.
  - apply andb_true_iff in Hd as [Hd1 Hd2]. apply andb_true_iff in Hl as [Hl1 Hl2].
    destruct (tcalls' a (s_mem s)) as [[[ca pa] m1]|] eqn:E1; [|discriminate].
    destruct (tcalls_sound a _ _ _ _ Hm E1) as (_ & M1 & (x1 & X1)).
    destruct (tcalls' b m1) as [[[cb pb] m2]|] eqn:E2; [|discriminate].
    destruct pa as [| | |l r| | | | | |]; try discriminate.
    destruct (pat_eqb l pb) eqn:EQ; [|discriminate]. inversion HB; subst; clear HB.
    rewrite st_run_app, (IHa s _ _ _ Hd1 Hm Hl1 E1).
    rewrite st_run_app.
    rewrite (IHb (mksst (TProved (Imp l c) :: s_stack s) (s_mem s ++ x1) (s_claims s) (s_phase s)) _ _ _ Hd2 M1
               (loads_ok_app _ _ _ Hl2) E2).
    simpl. rewrite !term_eqb_refl. reflexivity.
  - destruct (tcalls' a (s_mem s)) as [[[ca pa] m1]|] eqn:E1; [|discriminate].
    destruct pa as [| | |l r| | | | | |]; try discriminate.
    destruct (e_fresh r x) eqn:EF; [|discriminate]. inversion HB; subst; clear HB.
    rewrite st_run_app, (IHa s _ _ _ Hd Hm Hl E1). simpl. rewrite term_eqb_refl. reflexivity.
  - destruct d as [|kp d].
    + eapply IHa; eassumption.
    + destruct (plug_calls' (kp :: d) (s_mem s)) as [[cp m1]|] eqn:EP; [|discriminate].
      pose proof (plug_calls_shape _ _ _ _ Hm EP) as SP.
      assert (MX : mem_shape_ok m1 /\ exists ext, m1 = s_mem s ++ ext)
        by (destruct (plug_calls_ok (kp :: d) _ Hm SP) as (a' & b' & E' & M & X); rewrite EP in E'; inversion E'; subst; auto).
      destruct MX as (M1 & (x1 & X1)).
      destruct (tcalls' a m1) as [[[ca pa] m2]|] eqn:E1; [|discriminate]. inversion HB; subst; clear HB.
      rewrite st_run_app, (plug_calls_st _ s _ _ EP), st_run_app.
      rewrite (IHa (mksst (rev (map TPat (dvals (kp :: d))) ++ s_stack s) (s_mem s ++ x1) (s_claims s) (s_phase s))
                 _ _ _ Hd M1 (loads_ok_app _ _ _ Hl) E1).
      rewrite st_run_one. cbn [s_stack s_mem s_claims s_phase]. apply st_inst_dynamic. discriminate.
  - (* static instantiate with an empty delta *)
    apply andb_true_iff in Hd as [Hd Hn]. apply is_nil_true' in Hn. subst d.
    destruct (tcalls' a (s_mem s)) as [[[ca pa] m1]|] eqn:E1; [|discriminate]. inversion HB; subst; clear HB.
    destruct instopt; simpl.
    + rewrite app_nil_r. eapply IHa; eassumption.
    + rewrite st_run_app, (IHa s _ _ _ Hd Hm Hl E1). simpl. unfold st_inst. simpl. rewrite term_eqb_refl. reflexivity.
  - inversion HB; subst. simpl. rewrite Hl. destruct s; reflexivity.
Qed.

End Cfg2.

(** * The other stateful-family bases fail exactly when the stateful one does *)
Definition is_some {A} (o:option A) : bool := match o with Some _ => true | None => false end.

Lemma count_run_some cs : forall s u, is_some (count_run cs s u) = is_some (st_run cs s).
Proof.
  induction cs as [|c cs IH]; intros s u; simpl; [reflexivity|].
  destruct (st_step c s) as [s'|]; [apply IH | reflexivity].
Qed.

Lemma tindex_some t l : tmem t l = true -> exists i, tindex t l = Some i.
Proof.
  induction l as [|x l IH]; simpl; [discriminate|].
  destruct (term_eqb t x) eqn:E.
  - apply term_eqb_eq in E. subst. rewrite term_eqb_refl. eexists; reflexivity.
  - simpl. intros H. destruct (IH H) as (i & Hi). rewrite Hi.
    destruct (term_eqb x t); eexists; reflexivity.
Qed.

(** how one call changes the tracked memory *)
Definition mem_after (c:call) (mem:list term) : list term :=
  match c with
  | CSave t => mem ++ [t]
  | CPubAxiom p => mem ++ [TProved p]
  | _ => mem
  end.

Lemma st_step_mem c s s' : st_step c s = Some s' -> s_mem s' = mem_after c (s_mem s).
Proof.
  destruct c; simpl; unfold st_inst; intros H;
    repeat match type of H with
    | Some _ = Some _ => inversion H; subst; clear H
    | option_map _ ?x = Some _ => destruct x eqn:?; simpl in H; [|discriminate]
    | match ?x with _ => _ end = Some _ => destruct x eqn:?; try discriminate
    | (let '(_, _) := ?x in _) = Some _ => destruct x eqn:?
    end; try reflexivity.
Qed.

Lemma st_step_load_mem t s s' : st_step (CLoad t) s = Some s' -> tmem t (s_mem s) = true.
Proof. simpl. destruct (tmem t (s_mem s)); [reflexivity | discriminate]. Qed.

Lemma pretty_run_some cs : forall s, is_some (pretty_run cs s) = is_some (st_run cs s).
Proof.
  induction cs as [|c cs IH]; intros s; simpl; [reflexivity|].
  destruct (st_step c s) as [s'|] eqn:E; [|reflexivity].
  assert (T : exists tk, ptoken (s_mem s') c = Some tk).
  { destruct c; simpl; try (eexists; reflexivity).
    pose proof (st_step_load_mem _ _ _ E) as Hm. rewrite (st_step_mem _ _ _ E). simpl.
    destruct (tindex_some _ _ Hm) as (i & Hi). rewrite Hi. eexists; reflexivity. }
  destruct T as (tk & Ht). rewrite Ht. specialize (IH s').
  destruct (pretty_run cs s') as [[s'' tks]|]; simpl in *; exact IH.
Qed.

(** the bytes written along a call list all fit a byte ([bytes()] does not raise) and every [Load]
    finds its index: a function of the calls, the symbol table and the tracked memory only *)
Fixpoint calls_fit (cs:list call) (tbl:symtab) (mem:list term) : bool :=
  match cs with
  | [] => true
  | c :: cs' =>
      let mem' := mem_after c mem in
      match emit tbl mem' c with
      | Some (tbl', bs) => fits bs && calls_fit cs' tbl' mem'
      | None => false
      end
  end.

Lemma ser_run_some cs : forall tbl s,
  is_some (ser_run cs tbl s) = is_some (st_run cs s) && calls_fit cs tbl (s_mem s).
Proof.
  induction cs as [|c cs IH]; intros tbl s; simpl; [reflexivity|].
  destruct (st_step c s) as [s'|] eqn:E; [|reflexivity].
  rewrite (st_step_mem _ _ _ E).
  destruct (emit tbl (mem_after c (s_mem s)) c) as [[tbl' bs]|]; [|rewrite andb_false_r; reflexivity].
  destruct (fits bs); simpl; [|rewrite andb_false_r; reflexivity].
  specialize (IH tbl' s'). rewrite (st_step_mem _ _ _ E) in IH.
  destruct (ser_run cs tbl' s') as [[[t'' s''] bs']|]; simpl in *; exact IH.
Qed.

(** * C08: all interpreter stacks agree with Basic on the dynamic DSL *)
Lemma run_basic_bconc axs t : run_basic axs t = bconc axs t.
Proof.
  unfold run_basic. destruct (bconc axs t) as [c|] eqn:B.
  - destruct (tcalls_complete (fun _ => false) false false axs t [] c mem_shape_ok_nil B) as (cs & m' & E).
    rewrite E. reflexivity.
  - destruct (tcalls (fun _ => false) false false axs t []) as [[[cs c] m']|] eqn:E; [|reflexivity].
    apply tcalls_sound in E as (B' & _); [|exact mem_shape_ok_nil]. congruence.
Qed.

(** serialising base: the emitted values must fit the byte format; other bases: no condition *)
Definition out_fits (b:base) (ls:list layer) (axs:list pat) (t:pterm) (tbl:symtab) (s:sstate) : bool :=
  match b with
  | BSerializing =>
      match stack_calls b ls axs t (s_mem s) with
      | Some (cs, _, _) => calls_fit cs tbl (s_mem s)
      | None => true
      end
  | _ => true
  end.

Theorem interp_agree_eq b ls axs t tbl s :
  no_plug_inst t = true -> mem_shape_ok (s_mem s) -> loads_ok t (s_mem s) = true ->
  run b ls axs t tbl s = if out_fits b ls axs t tbl s then run_basic axs t else None.
Proof.
  intros Hd Hm Hl. rewrite run_basic_bconc. unfold run, out_fits, stack_calls.
  destruct (tcalls (cfg_inS ls) (cfg_loads b ls) (cfg_instopt ls) axs t (s_mem s)) as [[[cs c] m']|] eqn:E.
  - pose proof (tcalls_sound _ _ _ _ _ _ _ _ _ Hm E) as (B & _). rewrite B.
    pose proof (tcalls_st _ _ _ _ _ _ _ _ _ Hd Hm Hl E) as R.
    destruct b.
    + reflexivity.
    + rewrite R. reflexivity.
    + pose proof (count_run_some cs s []) as C. rewrite R in C.
      destruct (count_run cs s []); [reflexivity | discriminate].
    + pose proof (ser_run_some cs tbl s) as C. rewrite R in C. simpl in C.
      destruct (ser_run cs tbl s) as [[[? ?] ?]|]; simpl in C; rewrite <- C; reflexivity.
    + pose proof (pretty_run_some cs s) as C. rewrite R in C.
      destruct (pretty_run cs s); [reflexivity | discriminate].
  - destruct (bconc axs t) as [c|] eqn:B.
    + destruct (tcalls_complete (cfg_inS ls) (cfg_loads b ls) (cfg_instopt ls) axs t _ c Hm B) as (cs & m' & E').
      congruence.
    + destruct b; reflexivity.
Qed.

Theorem interp_agree b ls axs t tbl s c :
  no_plug_inst t = true -> mem_shape_ok (s_mem s) -> loads_ok t (s_mem s) = true ->
  (run b ls axs t tbl s = Some c <-> run_basic axs t = Some c /\ out_fits b ls axs t tbl s = true).
Proof.
  intros Hd Hm Hl. rewrite (interp_agree_eq b ls axs t tbl s Hd Hm Hl).
  destruct (out_fits b ls axs t tbl s); split; intros H; try discriminate; try tauto.
  destruct H; discriminate.
Qed.

Theorem run_advertised axs t c : run_basic axs t = Some c -> static_conc axs t = Some c.
Proof. rewrite run_basic_bconc. intros H. apply bconc_inv in H. tauto. Qed.

(** the side conditions the DSL constructors do NOT check but the interpreters do *)
Fixpoint side_ok (axs:list pat) (t:pterm) : bool :=
  match t with
  | PMP a b => side_ok axs a && side_ok axs b
  | PGen a x => side_ok axs a && match static_conc axs a with Some (Imp _ r) => e_fresh r x | _ => false end
  | PDynInst a d => side_ok axs a && (is_nil d || forallb shape_ok (dvals d))
  | PInst a _ => side_ok axs a
  | _ => true
  end.

Lemma bconc_static axs t : side_ok axs t = true -> bconc axs t = static_conc axs t.
Proof.
  induction t as [| | | |a IHa b IHb|a IHa x|a IHa d|a IHa d|p]; intros H; try reflexivity; simpl in H.
  - apply andb_true_iff in H as [H1 H2]. rewrite bconc_unfold. simpl. rewrite (IHa H1), (IHb H2).
    destruct (static_conc axs a) as [[| | |l r| | | | | |]|]; try reflexivity.
    destruct (static_conc axs b) as [cb|]; try reflexivity.
    destruct (pat_eqb l cb); [|reflexivity]. rewrite pat_eqb_refl. reflexivity.
  - apply andb_true_iff in H as [H1 H2]. rewrite bconc_unfold. simpl. rewrite (IHa H1).
    destruct (static_conc axs a) as [[| | |l r| | | | | |]|]; try reflexivity; try discriminate.
    rewrite H2, pat_eqb_refl. reflexivity.
  - apply andb_true_iff in H as [H1 H2]. rewrite bconc_unfold. simpl. rewrite (IHa H1).
    destruct d as [|kp d].
    + destruct (static_conc axs a) as [c|]; [rewrite pat_eqb_refl|]; reflexivity.
    + simpl in H2. unfold dvals in *. simpl. rewrite H2.
      destruct (static_conc axs a) as [c|]; simpl; [rewrite pat_eqb_refl|]; reflexivity.
  - rewrite bconc_unfold. simpl. rewrite (IHa H).
    destruct (static_conc axs a) as [c|]; simpl; [rewrite pat_eqb_refl|]; reflexivity.
  - rewrite bconc_unfold. simpl. destruct (pmem p axs); [rewrite pat_eqb_refl|]; reflexivity.
Qed.

Theorem advertised_run axs t c : side_ok axs t = true -> static_conc axs t = Some c -> run_basic axs t = Some c.
Proof. intros H1 H2. rewrite run_basic_bconc, (bconc_static axs t H1). exact H2. Qed.

(** transparency of the two transformers on top of any stack (same verdict, same conclusion) *)
Corollary memo_transparent b ms ls axs t tbl s :
  no_plug_inst t = true -> mem_shape_ok (s_mem s) -> loads_ok t (s_mem s) = true ->
  out_fits b (LMemo ms :: ls) axs t tbl s = true -> out_fits b ls axs t tbl s = true ->
  run b (LMemo ms :: ls) axs t tbl s = run b ls axs t tbl s.
Proof.
  intros Hd Hm Hl F1 F2. rewrite !interp_agree_eq by assumption. rewrite F1, F2. reflexivity.
Qed.

Corollary instopt_transparent b ls axs t tbl s :
  no_plug_inst t = true -> mem_shape_ok (s_mem s) -> loads_ok t (s_mem s) = true ->
  out_fits b (LInstOpt :: ls) axs t tbl s = true -> out_fits b ls axs t tbl s = true ->
  run b (LInstOpt :: ls) axs t tbl s = run b ls axs t tbl s.
Proof.
  intros Hd Hm Hl F1 F2. rewrite !interp_agree_eq by assumption. rewrite F1, F2. reflexivity.
Qed.

(** stronger, and for the WHOLE DSL: the optimiser does not change a single call unless the term
    contains a static instantiate with an empty delta *)
Fixpoint no_empty_inst (t:pterm) : bool :=
  match t with
  | PMP a b => no_empty_inst a && no_empty_inst b
  | PGen a _ | PDynInst a _ => no_empty_inst a
  | PInst a d => no_empty_inst a && negb (is_nil d)
  | _ => true
  end.

Lemma instopt_calls_same inS loads axs t : no_empty_inst t = true ->
  forall mem, tcalls inS loads true axs t mem = tcalls inS loads false axs t mem.
Proof.
  induction t as [| | | |a IHa b IHb|a IHa x|a IHa d|a IHa d|p]; intros H mem; try reflexivity; simpl in H;
    rewrite !tcalls_unfold; destruct (static_conc axs _) as [sc|]; try reflexivity; simpl.
  - apply andb_true_iff in H as [H1 H2]. rewrite (IHa H1).
    destruct (tcalls inS loads false axs a mem) as [[[ca pa] m1]|]; [|reflexivity]. rewrite (IHb H2). reflexivity.
  - rewrite (IHa H). reflexivity.
  - destruct d; [rewrite (IHa H); reflexivity|].
    destruct (plug_calls inS loads (p :: d) mem) as [[cp m1]|]; [|reflexivity]. rewrite (IHa H). reflexivity.
  - apply andb_true_iff in H as [H1 H2]. rewrite (IHa H1).
    destruct d; [discriminate|]. reflexivity.
Qed.

(** M4 (PTerm): proof terms of the DSL in generation/src/proof_generation/proof.py, the
    interpreters that run them and the serialiser, over EXPANDED patterns ([pat], notation fully
    unfolded; symbols are [N] names, numbered by first occurrence only by the serialiser).
    Model only -- proofs live in PTerm/Facts.v (C08) and PTerm/Compile.v (C02).

    Architecture of the model (mirrors the code):
      * every interpreter derives from [BasicInterpreter] and RETURNS what Basic returns, so the
        control flow of a [ProofThunk] does not depend on the interpreter.  [tcalls] computes the
        list of calls a thunk issues to the innermost (base) interpreter through a stack of
        transformers, together with the Basic-level result (asserts of basic_interpreter.py and of
        [ProofThunk.__call__] included; a Python exception is [None]);
      * a base interpreter is a fold of a step function over that call list:
        [st_step] (stateful_interpreter.py), [emit] (serializing_interpreter.py),
        [ptoken] (pretty_printing_interpreter.py), [collect] (counting_interpreter.py);
      * transformers (interpreter_transformer.py, optimizing_interpreters.py): only the OUTERMOST
        layer's [pattern] method is ever used (inner layers receive constructor calls only), a
        [MemoizingInterpreter] consults [sub_interpreter.memory] only when its direct
        sub-interpreter is a [StatefulInterpreter]; an [InstantiationOptimizer] anywhere in the
        stack drops [instantiate] calls whose delta is empty. *)
From Coq Require Import NArith List Bool.
From Pi2 Require Import ML.Syntax ML.Subst ML.Machine.
Import ListNotations.
Open Scope N_scope.

(** * Generator-side pattern operations (pattern.py) on expanded patterns *)

(** [Pattern.apply_esubst]: no capture check ([Exists]/[Mu] arms, D9c); [MetaVar] drops the
    substitution when the variable is declared fresh (D9d) *)
Fixpoint py_esubst (p:pat) (x:N) (plug:pat) : pat :=
  match p with
  | EVar n => if N.eqb x n then plug else p
  | SVar _ | Sym _ => p
  | Imp l r => Imp (py_esubst l x plug) (py_esubst r x plug)
  | App l r => App (py_esubst l x plug) (py_esubst r x plug)
  | Ex y q => if N.eqb x y then p else Ex y (py_esubst q x plug)
  | Mu Y q => Mu Y (py_esubst q x plug)
  | MVar _ ef _ _ _ _ => if mem x ef then p else ESub p x plug
  | ESub _ _ _ | SSub _ _ _ => ESub p x plug
  end.

Fixpoint py_ssubst (p:pat) (X:N) (plug:pat) : pat :=
  match p with
  | SVar n => if N.eqb X n then plug else p
  | EVar _ | Sym _ => p
  | Imp l r => Imp (py_ssubst l X plug) (py_ssubst r X plug)
  | App l r => App (py_ssubst l X plug) (py_ssubst r X plug)
  | Ex y q => Ex y (py_ssubst q X plug)
  | Mu Y q => if N.eqb X Y then p else Mu Y (py_ssubst q X plug)
  | MVar _ _ sf _ _ _ => if mem X sf then p else SSub p X plug
  | ESub _ _ _ | SSub _ _ _ => SSub p X plug
  end.

(** a Python [dict[int, Pattern]]: insertion-ordered, keys unique ([delta_ok]) *)
Definition delta := list (N * pat).
Fixpoint dlookup (k:N) (d:delta) : option pat :=
  match d with
  | [] => None
  | (k', p) :: d' => if N.eqb k k' then Some p else dlookup k d'
  end.
Definition dkeys (d:delta) : list N := map fst d.
Definition dvals (d:delta) : list pat := map snd d.
Fixpoint nodupb (l:list N) : bool :=
  match l with [] => true | x :: r => negb (mem x r) && nodupb r end.
Definition delta_ok (d:delta) : bool := nodupb (dkeys d).

(** [Pattern.instantiate] with a non-empty delta ([can_be_replaced_by] is constantly [True]) *)
Fixpoint py_inst' (d:delta) (p:pat) : pat :=
  match p with
  | EVar _ | SVar _ | Sym _ => p
  | Imp l r => Imp (py_inst' d l) (py_inst' d r)
  | App l r => App (py_inst' d l) (py_inst' d r)
  | Ex y q => Ex y (py_inst' d q)
  | Mu Y q => Mu Y (py_inst' d q)
  | MVar id _ _ _ _ _ => match dlookup id d with Some q => q | None => p end
  | ESub q x plug => py_esubst (py_inst' d q) x (py_inst' d plug)
  | SSub q X plug => py_ssubst (py_inst' d q) X (py_inst' d plug)
  end.
(** [if not delta: return self] (every composite constructor; atoms return self anyway) *)
Definition py_inst (d:delta) (p:pat) : pat := match d with [] => p | _ => py_inst' d p end.

(** [Interpreter.pattern] asserts [isinstance(subpattern, MetaVar | ESubst | SSubst)] *)
Fixpoint shape_ok (p:pat) : bool :=
  match p with
  | EVar _ | SVar _ | Sym _ | MVar _ _ _ _ _ _ => true
  | Imp l r | App l r => shape_ok l && shape_ok r
  | Ex _ q | Mu _ q => shape_ok q
  | ESub q _ plug | SSub q _ plug => shape_ok plug && shape_ok q && is_meta_head q
  end.

(** * Proof terms: exactly the rule constructors of [ProofExp] (proof.py:128-198) *)
Inductive pterm :=
| PProp1 | PProp2 | PProp3 | PQuant
| PMP (a b:pterm)
| PGen (a:pterm) (x:N)
| PDynInst (a:pterm) (d:delta)     (* dynamic_inst: plugs are pushed, then the proof, then Instantiate *)
| PInst (a:pterm) (d:delta)        (* ProofExp.instantiate: the plugs are NOT pushed (D10) *)
| PLoadAxiom (p:pat).

(** generator-side axiom schemas (basic_interpreter.py:72-106 and proof.py:141-166), expanded *)
Definition py_prop1 := Imp (phi 0) (Imp (phi 1) (phi 0)).
Definition py_prop2 := Imp (Imp (phi 0) (Imp (phi 1) (phi 2))) (Imp (Imp (phi 0) (phi 1)) (Imp (phi 0) (phi 2))).
Definition py_prop3 := Imp (Imp (Imp (phi 0) (Mu 0 (SVar 0))) (Mu 0 (SVar 0))) (phi 0).
Definition py_quant := Imp (ESub (phi 0) 0 (EVar 1)) (Ex 0 (phi 0)).

Definition pmem (p:pat) (l:list pat) : bool := existsb (pat_eqb p) l.

(** what [ProofThunk.conc] advertises before the thunk runs; [None] = the DSL constructor raises *)
Fixpoint static_conc (axs:list pat) (t:pterm) : option pat :=
  match t with
  | PProp1 => Some py_prop1
  | PProp2 => Some py_prop2
  | PProp3 => Some py_prop3
  | PQuant => Some py_quant
  | PMP a b =>
      match static_conc axs a, static_conc axs b with
      | Some (Imp p q), Some cb => if pat_eqb p cb then Some q else None
      | _, _ => None
      end
  | PGen a x =>
      match static_conc axs a with
      | Some (Imp l r) => Some (Imp (Ex x l) r)     (* no freshness check here *)
      | _ => None
      end
  | PDynInst a d =>
      match d with
      | [] => static_conc axs a                      (* [if not delta: return pf] *)
      | _ => option_map (py_inst d) (static_conc axs a)
      end
  | PInst a d => option_map (py_inst d) (static_conc axs a)
  | PLoadAxiom p => if pmem p axs then Some p else None
  end.

(** * Calls received by the innermost interpreter (one constructor per abstract method) *)
Inductive call :=
| CEVar (n:N) | CSVar (n:N) | CSym (n:N)
| CMeta (id:N) (ef sf pos neg holes:list N)
| CImp (l r:pat) | CApp (l r:pat) | CEx (x:N) (q:pat) | CMu (X:N) (q:pat)
| CESub (x:N) (q plug:pat) | CSSub (X:N) (q plug:pat)
| CProp1 | CProp2 | CProp3 | CQuant
| CMP (l r:pat)                    (* conclusions of the two Proved arguments *)
| CGen (c:pat) (x:N)
| CInst (c:pat) (d:delta)
| CPop (t:term) | CSave (t:term) | CLoad (t:term)
| CPubProof (c:pat) | CPubAxiom (p:pat) | CPubClaim (p:pat).

Definition term_eqb (a b:term) : bool :=
  match a, b with
  | TPat p, TPat q | TProved p, TProved q => pat_eqb p q
  | _, _ => false
  end.
Definition tmem (t:term) (l:list term) : bool := existsb (term_eqb t) l.

Section Calls.
(** transformer configuration: memoisation set of the OUTERMOST layer (if it is a memoiser),
    whether that memoiser sees a stateful memory, whether an InstantiationOptimizer is present *)
Variable inS : pat -> bool.
Variable loads : bool.
Variable instopt : bool.
Variable axs : list pat.

(** [MemoizingInterpreter.pattern] over [Interpreter.pattern]; [mem] = memory of the stateful
    sub-interpreter as it will be when the call is made.  Plain [Interpreter.pattern] is the
    instance [inS = fun _ => false], [loads = false]. *)
Fixpoint pcalls (p:pat) (mem:list term) : option (list call * list term) :=
  if loads && tmem (TPat p) mem then Some ([CLoad (TPat p)], mem) else
  match
    match p with
    | EVar n => Some ([CEVar n], mem)
    | SVar n => Some ([CSVar n], mem)
    | Sym n => Some ([CSym n], mem)
    | MVar id ef sf pos neg holes => Some ([CMeta id ef sf pos neg holes], mem)
    | Imp l r =>
        match pcalls l mem with
        | Some (c1, m1) =>
            match pcalls r m1 with
            | Some (c2, m2) => Some (c1 ++ c2 ++ [CImp l r], m2)
            | None => None end
        | None => None end
    | App l r =>
        match pcalls l mem with
        | Some (c1, m1) =>
            match pcalls r m1 with
            | Some (c2, m2) => Some (c1 ++ c2 ++ [CApp l r], m2)
            | None => None end
        | None => None end
    | Ex x q =>
        match pcalls q mem with
        | Some (c1, m1) => Some (c1 ++ [CEx x q], m1)
        | None => None end
    | Mu X q =>
        match pcalls q mem with
        | Some (c1, m1) => Some (c1 ++ [CMu X q], m1)
        | None => None end
    | ESub q x plug =>       (* plug first, then the sub-pattern, then the shape assert *)
        match pcalls plug mem with
        | Some (c1, m1) =>
            match pcalls q m1 with
            | Some (c2, m2) => if is_meta_head q then Some (c1 ++ c2 ++ [CESub x q plug], m2) else None
            | None => None end
        | None => None end
    | SSub q X plug =>
        match pcalls plug mem with
        | Some (c1, m1) =>
            match pcalls q m1 with
            | Some (c2, m2) => if is_meta_head q then Some (c1 ++ c2 ++ [CSSub X q plug], m2) else None
            | None => None end
        | None => None end
    end
  with
  | Some (cs, m') => if inS p then Some (cs ++ [CSave (TPat p)], m' ++ [TPat p]) else Some (cs, m')
  | None => None
  end.

(** [for idn, p in delta.items(): delta[idn] = interpreter.pattern(p)] *)
Fixpoint plug_calls (d:delta) (mem:list term) : option (list call * list term) :=
  match d with
  | [] => Some ([], mem)
  | (_, p) :: d' =>
      match pcalls p mem with
      | Some (c1, m1) =>
          match plug_calls d' m1 with
          | Some (c2, m2) => Some (c1 ++ c2, m2)
          | None => None end
      | None => None end
  end.

Definition is_nil {A} (l:list A) : bool := match l with [] => true | _ => false end.

(** running a thunk: calls issued to the base interpreter, Basic-level result, memory afterwards.
    Every node ends with the assert of [ProofThunk.__call__]: result == advertised conclusion. *)
Fixpoint tcalls (t:pterm) (mem:list term) : option (list call * pat * list term) :=
  match static_conc axs t with
  | None => None                                     (* the thunk could not even be built *)
  | Some sc =>
    match
      match t with
      | PProp1 => Some ([CProp1], py_prop1, mem)
      | PProp2 => Some ([CProp2], py_prop2, mem)
      | PProp3 => Some ([CProp3], py_prop3, mem)
      | PQuant => Some ([CQuant], py_quant, mem)
      | PMP a b =>
          match tcalls a mem with
          | Some (ca, pa, m1) =>
              match tcalls b m1 with
              | Some (cb, pb, m2) =>
                  match pa with
                  | Imp l r => if pat_eqb l pb then Some (ca ++ cb ++ [CMP pa pb], r, m2) else None
                  | _ => None end
              | None => None end
          | None => None end
      | PGen a x =>
          match tcalls a mem with
          | Some (ca, pa, m1) =>
              match pa with
              | Imp l r => if e_fresh r x then Some (ca ++ [CGen pa x], Imp (Ex x l) r, m1) else None
              | _ => None end
          | None => None end
      | PDynInst a d =>
          match d with
          | [] => tcalls a mem
          | _ =>
            match plug_calls d mem with
            | Some (cp, m1) =>
                match tcalls a m1 with
                | Some (ca, pa, m2) => Some (cp ++ ca ++ [CInst pa d], py_inst d pa, m2)
                | None => None end
            | None => None end
          end
      | PInst a d =>
          match tcalls a mem with
          | Some (ca, pa, m1) =>
              Some (ca ++ (if instopt && is_nil d then [] else [CInst pa d]), py_inst d pa, m1)
          | None => None end
      | PLoadAxiom p => Some ([CLoad (TProved p)], p, mem)
      end
    with
    | Some (cs, r, m) => if pat_eqb r sc then Some (cs, r, m) else None
    | None => None
    end
  end.
End Calls.

(** * Interpreter stacks *)
Inductive layer := LMemo (ms:list pat) | LInstOpt.
Inductive base := BBasic | BStateful | BCounting | BSerializing | BPretty.
Definition stateful_base (b:base) : bool := match b with BBasic => false | _ => true end.
Definition is_instopt (l:layer) : bool := match l with LInstOpt => true | _ => false end.

(** layers are listed outermost first *)
Definition cfg_inS (ls:list layer) : pat -> bool :=
  match ls with LMemo ms :: _ => fun p => pmem p ms | _ => fun _ => false end.
Definition cfg_loads (b:base) (ls:list layer) : bool :=
  match ls with [LMemo _] => stateful_base b | _ => false end.
Definition cfg_instopt (ls:list layer) : bool := existsb is_instopt ls.

Definition stack_calls (b:base) (ls:list layer) (axs:list pat) (t:pterm) (mem:list term) :=
  tcalls (cfg_inS ls) (cfg_loads b ls) (cfg_instopt ls) axs t mem.

(** * BasicInterpreter: the conclusion only *)
Definition run_basic (axs:list pat) (t:pterm) : option pat :=
  match tcalls (fun _ => false) false false axs t [] with
  | Some (_, c, _) => Some c
  | None => None
  end.

(** * StatefulInterpreter (stateful_interpreter.py) *)
Record sstate := mksst {
  s_stack : list term;      (* head = top of the Python list's end *)
  s_mem : list term;
  s_claims : list pat;      (* head = next claim expected by publish_proof *)
  s_phase : phase
}.
Definition spush (t:term) (s:sstate) : sstate := mksst (t :: s_stack s) (s_mem s) (s_claims s) (s_phase s).
Definition sset (stk:list term) (s:sstate) : sstate := mksst stk (s_mem s) (s_claims s) (s_phase s).

Definition phase_eqb (a b:phase) : bool :=
  match a, b with Gamma, Gamma | Claim, Claim | Proof, Proof => true | _, _ => false end.

(** [*self.stack, a, b = self.stack; assert a == x; assert b == y] *)
Definition pop2 (x y:term) (stk:list term) : option (list term) :=
  match stk with
  | b :: a :: rest => if term_eqb a x && term_eqb b y then Some rest else None
  | _ => None
  end.
Definition pop1 (x:term) (stk:list term) : option (list term) :=
  match stk with
  | a :: rest => if term_eqb a x then Some rest else None
  | _ => None
  end.
Fixpoint terms_eqb (a b:list term) : bool :=
  match a, b with
  | [], [] => true
  | x :: a', y :: b' => term_eqb x y && terms_eqb a' b'
  | _, _ => false
  end.

(** [BasicInterpreter.instantiate]: [if not delta: return proved] *)
Definition basic_inst (c:pat) (d:delta) : pat := py_inst d c.

(** [StatefulInterpreter.instantiate]:
      [*self.stack, expected_proved = self.stack]
      [expected_plugs = []; if len(delta): expected_plugs = self.stack[-len(delta):]; self.stack = self.stack[:-len(delta)]]
    [slice0_bug = true] is the code BEFORE the fix of D11 (commit 9b6b5b9), which sliced unconditionally: with
    [len(delta) = 0] the slices are [stack[-0:]] = everything and [stack[:-0]] = nothing. *)
Definition inst_split (slice0_bug:bool) (n:nat) (rest:list term) : list term * list term :=
  match n with
  | O => if slice0_bug then (rest, []) else ([], rest)
  | _ => (firstn n rest, skipn n rest)
  end.
Definition st_inst (slice0_bug:bool) (c:pat) (d:delta) (s:sstate) : option sstate :=
  match s_stack s with
  | top :: rest =>
      let '(plugs, rest') := inst_split slice0_bug (length d) rest in
      if term_eqb top (TProved c) && terms_eqb (rev plugs) (map TPat (dvals d))
      then Some (sset (TProved (basic_inst c d) :: rest') s) else None
  | [] => None
  end.

Definition st_step (c:call) (s:sstate) : option sstate :=
  let stk := s_stack s in
  match c with
  | CEVar n => Some (spush (TPat (EVar n)) s)
  | CSVar n => Some (spush (TPat (SVar n)) s)
  | CSym n => Some (spush (TPat (Sym n)) s)
  | CMeta id ef sf pos neg holes => Some (spush (TPat (MVar id ef sf pos neg holes)) s)
  | CImp l r => option_map (fun rest => sset (TPat (Imp l r) :: rest) s) (pop2 (TPat l) (TPat r) stk)
  | CApp l r => option_map (fun rest => sset (TPat (App l r) :: rest) s) (pop2 (TPat l) (TPat r) stk)
  | CEx x q => option_map (fun rest => sset (TPat (Ex x q) :: rest) s) (pop1 (TPat q) stk)
  | CMu X q => option_map (fun rest => sset (TPat (Mu X q) :: rest) s) (pop1 (TPat q) stk)
  | CESub x q plug => option_map (fun rest => sset (TPat (ESub q x plug) :: rest) s) (pop2 (TPat plug) (TPat q) stk)
  | CSSub X q plug => option_map (fun rest => sset (TPat (SSub q X plug) :: rest) s) (pop2 (TPat plug) (TPat q) stk)
  | CProp1 => Some (spush (TProved py_prop1) s)
  | CProp2 => Some (spush (TProved py_prop2) s)
  | CProp3 => Some (spush (TProved py_prop3) s)
  | CQuant => Some (spush (TProved py_quant) s)
  | CMP l r =>
      match pop2 (TProved l) (TProved r) stk, l with
      | Some rest, Imp _ q => Some (sset (TProved q :: rest) s)
      | _, _ => None
      end
  | CGen c x =>
      match pop1 (TProved c) stk, c with
      | Some rest, Imp l r => Some (sset (TProved (Imp (Ex x l) r) :: rest) s)
      | _, _ => None
      end
  | CInst c d => st_inst false c d s
  | CPop t => option_map (fun rest => sset rest s) (pop1 t stk)
  | CSave t =>
      match stk with
      | top :: _ => if term_eqb top t then Some (mksst stk (s_mem s ++ [t]) (s_claims s) (s_phase s)) else None
      | [] => None
      end
  | CLoad t => if tmem t (s_mem s) then Some (spush t s) else None
  | CPubProof c =>
      match s_phase s, s_claims s, stk with
      | Proof, cl :: cls, top :: _ =>
          if pat_eqb c cl && term_eqb top (TProved c) then Some (mksst stk (s_mem s) cls Proof) else None
      | _, _, _ => None
      end
  | CPubAxiom p =>
      match s_phase s, stk with
      | Gamma, top :: _ =>
          if term_eqb top (TPat p) then Some (mksst stk (s_mem s ++ [TProved p]) (s_claims s) Gamma) else None
      | _, _ => None
      end
  | CPubClaim p =>
      match s_phase s, stk with
      | Claim, top :: _ => if term_eqb top (TPat p) then Some s else None
      | _, _ => None
      end
  end.

Fixpoint st_run (cs:list call) (s:sstate) : option sstate :=
  match cs with
  | [] => Some s
  | c :: cs' => match st_step c s with Some s' => st_run cs' s' | None => None end
  end.

(** * SerializingInterpreter (serializing_interpreter.py): bytes written per call *)
Definition symtab := list N.          (* symbol names in order of first occurrence *)
Fixpoint index_of (n:N) (l:list N) : option N :=
  match l with
  | [] => None
  | x :: r => if N.eqb n x then Some 0 else option_map N.succ (index_of n r)
  end.
Fixpoint tindex (t:term) (l:list term) : option N :=
  match l with
  | [] => None
  | x :: r => if term_eqb x t then Some 0 else option_map N.succ (tindex t r)
  end.
Definition nlen {A} (l:list A) : N := N.of_nat (length l).
Definition vec (l:list N) : list N := nlen l :: l.

(** [mem] is the interpreter's memory after the stateful step of the same call *)
Definition emit (tbl:symtab) (mem:list term) (c:call) : option (symtab * list N) :=
  match c with
  | CEVar n => Some (tbl, [2; n])
  | CSVar n => Some (tbl, [3; n])
  | CSym n =>
      match index_of n tbl with
      | Some i => Some (tbl, [4; i])
      | None => Some (tbl ++ [n], [4; nlen tbl])
      end
  | CMeta id ef sf pos neg holes =>
      if is_nil ef && is_nil sf && is_nil pos && is_nil neg && is_nil holes
      then Some (tbl, [137; id])
      else Some (tbl, [9; id] ++ vec ef ++ vec sf ++ vec pos ++ vec neg ++ vec holes)
  | CImp _ _ => Some (tbl, [5])
  | CApp _ _ => Some (tbl, [6])
  | CEx x _ => Some (tbl, [8; x])
  | CMu X _ => Some (tbl, [7; X])
  | CESub x _ _ => Some (tbl, [10; x])
  | CSSub X _ _ => Some (tbl, [11; X])
  | CProp1 => Some (tbl, [12])
  | CProp2 => Some (tbl, [13])
  | CProp3 => Some (tbl, [14])
  | CQuant => Some (tbl, [15])
  | CMP _ _ => Some (tbl, [21])
  | CGen _ x => Some (tbl, [22; x])
  | CInst _ d => Some (tbl, [26; nlen d] ++ rev (dkeys d))
  | CPop _ => Some (tbl, [27])
  | CSave _ => Some (tbl, [28])
  | CLoad t => match tindex t mem with Some i => Some (tbl, [29; i]) | None => None end
  | CPubProof _ | CPubAxiom _ | CPubClaim _ => Some (tbl, [30])
  end.

(** [bytes([...])] raises [ValueError] unless every value is in range(256) *)
Definition fits (bs:list N) : bool := forallb (fun b => b <? 256) bs.

Fixpoint ser_run (cs:list call) (tbl:symtab) (s:sstate) : option (symtab * sstate * list N) :=
  match cs with
  | [] => Some (tbl, s, [])
  | c :: cs' =>
      match st_step c s with
      | Some s' =>
          match emit tbl (s_mem s') c with
          | Some (tbl', bs) =>
              if fits bs then
                match ser_run cs' tbl' s' with
                | Some (tbl'', s'', bs') => Some (tbl'', s'', bs ++ bs')
                | None => None end
              else None
          | None => None end
      | None => None end
  end.

(** * PrettyPrintingInterpreter: one token list per call (first line written for the call;
    the stack dump that follows is C19's subject).  Token = opcode and the operands printed. *)
Definition ptoken (mem:list term) (c:call) : option (list N) :=
  match c with
  | CEVar n => Some [2; n]
  | CSVar n => Some [3; n]
  | CSym n => Some [4; n]                       (* prints the NAME, not the index *)
  | CMeta id ef sf pos neg holes => Some ([9; id] ++ vec ef ++ vec sf ++ vec pos ++ vec neg ++ vec holes)
  | CImp _ _ => Some [5]
  | CApp _ _ => Some [6]
  | CEx x _ => Some [8; x]
  | CMu X _ => Some [7; X]
  | CESub x _ _ => Some [10; x]
  | CSSub X _ _ => Some [11; X]
  | CProp1 => Some [12]
  | CProp2 => Some [13]
  | CProp3 => Some [14]
  | CQuant => Some [15]
  | CMP _ _ => Some [21]
  | CGen _ x => Some [22; x]
  | CInst _ d => Some (26 :: dkeys d)           (* keys in insertion order, NOT reversed *)
  | CPop _ => Some [27]
  | CSave _ => Some [28]
  | CLoad t => match tindex t mem with Some i => Some [29; i] | None => None end
  | CPubProof _ | CPubAxiom _ | CPubClaim _ => Some [30]
  end.

Fixpoint pretty_run (cs:list call) (s:sstate) : option (sstate * list (list N)) :=
  match cs with
  | [] => Some (s, [])
  | c :: cs' =>
      match st_step c s with
      | Some s' =>
          match ptoken (s_mem s') c with
          | Some tk =>
              match pretty_run cs' s' with
              | Some (s'', tks) => Some (s'', tk :: tks)
              | None => None end
          | None => None end
      | None => None end
  end.

(** * CountingInterpreter: [_pattern_usage[p].uses] (the other statistics feed only the
    heuristic choice of the memoisation set, over which the theorems quantify) *)
Definition usage := list (pat * N).     (* insertion-ordered dict *)
Fixpoint bump (p:pat) (u:usage) : option usage :=
  match u with
  | [] => None
  | (q, n) :: r => if pat_eqb q p then Some ((q, N.succ n) :: r)
                   else option_map (cons (q, n)) (bump p r)
  end.
(** [_collect_patterns]: first sight registers [p] with one use, then its children;
    later sights only bump [p] *)
Fixpoint collect (p:pat) (u:usage) : usage :=
  match bump p u with
  | Some u' => u'
  | None =>
      let u1 := u ++ [(p, 1)] in
      match p with
      | Imp l r | App l r => collect r (collect l u1)
      | Ex _ q | Mu _ q => collect q u1
      | _ => u1
      end
  end.
(** which value is handed to [_collect_patterns] after the stateful step *)
Definition collected (c:call) : option pat :=
  match c with
  | CEVar n => Some (EVar n) | CSVar n => Some (SVar n) | CSym n => Some (Sym n)
  | CMeta id ef sf pos neg holes => Some (MVar id ef sf pos neg holes)
  | CImp l r => Some (Imp l r) | CApp l r => Some (App l r)
  | CEx x q => Some (Ex x q) | CMu X q => Some (Mu X q)
  | CESub x q plug => Some (ESub q x plug) | CSSub X q plug => Some (SSub q X plug)
  | CProp1 => Some py_prop1 | CProp2 => Some py_prop2 | CProp3 => Some py_prop3
  | CMP (Imp _ q) _ => Some q
  | CInst c d => Some (basic_inst c d)
  | _ => None                       (* exists_quantifier / exists_generalization are not counted *)
  end.
Fixpoint count_run (cs:list call) (s:sstate) (u:usage) : option (sstate * usage) :=
  match cs with
  | [] => Some (s, u)
  | c :: cs' =>
      match st_step c s with
      | Some s' => count_run cs' s' (match collected c with Some p => collect p u | None => u end)
      | None => None end
  end.

(** * Running a thunk under an interpreter stack: the returned conclusion *)
Definition run (b:base) (ls:list layer) (axs:list pat) (t:pterm) (tbl:symtab) (s:sstate) : option pat :=
  match stack_calls b ls axs t (s_mem s) with
  | None => None
  | Some (cs, c, _) =>
      match b with
      | BBasic => Some c
      | BStateful => match st_run cs s with Some _ => Some c | None => None end
      | BCounting => match count_run cs s [] with Some _ => Some c | None => None end
      | BSerializing => match ser_run cs tbl s with Some _ => Some c | None => None end
      | BPretty => match pretty_run cs s with Some _ => Some c | None => None end
      end
  end.

(** what [SerializingInterpreter] writes while the thunk runs (C02's [compile]) *)
Definition compile (ls:list layer) (axs:list pat) (t:pterm) (tbl:symtab) (s:sstate)
  : option (symtab * sstate * list N * pat) :=
  match stack_calls BSerializing ls axs t (s_mem s) with
  | None => None
  | Some (cs, c, _) =>
      match ser_run cs tbl s with
      | Some (tbl', s', bs) => Some (tbl', s', bs, c)
      | None => None end
  end.

(** * Modules and the three phases (proof.py:200-228, 269-277) *)
Record pmodule := mkmod {
  m_axioms : list pat;      (* in gamma-phase order (sub-modules first) *)
  m_claims : list pat;      (* as declared *)
  m_proofs : list pterm
}.

Section ModCalls.
Variable inS : pat -> bool.
Variable loads : bool.
Variable instopt : bool.

Fixpoint gamma_calls (axs:list pat) (mem:list term) : option (list call * list term) :=
  match axs with
  | [] => Some ([], mem)
  | a :: r =>
      match pcalls inS loads a mem with
      | Some (c1, m1) =>
          match gamma_calls r (m1 ++ [TProved a]) with
          | Some (c2, m2) => Some (c1 ++ [CPubAxiom a] ++ c2, m2)
          | None => None end
      | None => None end
  end.
(** the caller passes the claims already reversed *)
Fixpoint claim_calls (cls:list pat) (mem:list term) : option (list call * list term) :=
  match cls with
  | [] => Some ([], mem)
  | a :: r =>
      match pcalls inS loads a mem with
      | Some (c1, m1) =>
          match claim_calls r m1 with
          | Some (c2, m2) => Some (c1 ++ [CPubClaim a] ++ c2, m2)
          | None => None end
      | None => None end
  end.
Fixpoint proof_calls (axs:list pat) (ts:list pterm) (mem:list term) : option (list call * list term) :=
  match ts with
  | [] => Some ([], mem)
  | t :: r =>
      match tcalls inS loads instopt axs t mem with
      | Some (c1, c, m1) =>
          match proof_calls axs r m1 with
          | Some (c2, m2) => Some (c1 ++ [CPubProof c] ++ c2, m2)
          | None => None end
      | None => None end
  end.
End ModCalls.

(** one [execute_full] on a stateful-family interpreter; [stepper] folds the calls of a phase *)
Definition sinit (m:pmodule) : sstate := mksst [] [] (m_claims m) Gamma.
Definition next_phase (ph:phase) (s:sstate) : sstate := mksst [] (s_mem s) (s_claims s) ph.

(** the counting pre-pass: plain stateful run of the whole module (its statistics only choose S) *)
Definition count_module (m:pmodule) : option usage :=
  let nf := fun _:pat => false in
  match gamma_calls nf false (m_axioms m) [] with
  | Some (cg, mg) =>
      match count_run cg (sinit m) [] with
      | Some (s1, u1) =>
          match claim_calls nf false (rev (m_claims m)) mg with
          | Some (cc, mc) =>
              match count_run cc (next_phase Claim s1) u1 with
              | Some (s2, u2) =>
                  match proof_calls nf false false (m_axioms m) (m_proofs m) mc with
                  | Some (cp, _) =>
                      match count_run cp (next_phase Proof s2) u2 with
                      | Some (_, u3) => Some u3
                      | None => None end
                  | None => None end
              | None => None end
          | None => None end
      | None => None end
  | None => None end.

(** [ProofExp.serialize]: [memo = None] is [optimize=False]; [Some S] is [optimize=True] where
    [S] is whatever [CountingInterpreter.finalize] suggested (the counting pass must succeed) *)
Definition serialize_with (inS:pat -> bool) (loads:bool) (m:pmodule) : option (list N * list N * list N) :=
  match gamma_calls inS loads (m_axioms m) [] with
  | Some (cg, mg) =>
      match ser_run cg [] (sinit m) with
      | Some (t1, s1, bg) =>
          match claim_calls inS loads (rev (m_claims m)) mg with
          | Some (cc, mc) =>
              match ser_run cc t1 (next_phase Claim s1) with
              | Some (t2, s2, bc) =>
                  match proof_calls inS loads false (m_axioms m) (m_proofs m) mc with
                  | Some (cp, _) =>
                      match ser_run cp t2 (next_phase Proof s2) with
                      | Some (_, _, bp) => Some (bg, bc, bp)
                      | None => None end
                  | None => None end
              | None => None end
          | None => None end
      | None => None end
  | None => None end.

Definition serialize (memo:option (list pat)) (m:pmodule) : option (list N * list N * list N) :=
  match memo with
  | None => serialize_with (fun _ => false) false m
  | Some ms => match count_module m with
              | Some _ => serialize_with (fun p => pmem p ms) true m
              | None => None end
  end.

(** * Checker-side well-formedness that the generator does not check (C02; theorems in PTerm/Compile.v) *)
(** no static [ProofExp.instantiate] *)
Fixpoint dynamic (t:pterm) : bool :=
  match t with
  | PMP a b => dynamic a && dynamic b
  | PGen a _ | PDynInst a _ => dynamic a
  | PInst _ _ => false
  | _ => true
  end.


(** what the checker demands of a pattern under construction *)
Fixpoint pat_wf (p:pat) : bool :=
  match p with
  | EVar _ | SVar _ | Sym _ => true
  | MVar _ ef _ _ _ holes => negb (existsb (fun h => mem h ef) holes)        (* MetaVar well-formedness *)
  | Imp l r | App l r => pat_wf l && pat_wf r
  | Ex _ q => pat_wf q
  | Mu X q => pat_wf q && pat_positive q X                                   (* D9a *)
  | ESub q x plug => pat_wf q && pat_wf plug && (negb (is_redundant_subst p) && is_meta_head q)   (* D9b *)
  | SSub q X plug => pat_wf q && pat_wf plug && (negb (is_redundant_subst p) && is_meta_head q)
  end.

(** the checker's [Instantiate] computes what the generator's [instantiate] advertised
    (fails on: metavariable constraints violated by a plug -- D9d; a substitution the generator
    dropped or applied without the checker's capture check -- D9c/D9d) *)
Definition inst_agree (c:pat) (d:delta) : bool :=
  match inst guards_sound c (rev (dkeys d)) (rev (dvals d)) with
  | Some r => pat_eqb r (py_inst d c)
  | None => false
  end.

(** exactly the places where the generator is laxer than the checker *)
Fixpoint wf_for_checker (axs:list pat) (t:pterm) : bool :=
  match t with
  | PMP a b => wf_for_checker axs a && wf_for_checker axs b
  | PGen a _ => wf_for_checker axs a
  | PDynInst a d =>
      wf_for_checker axs a &&
      match d with
      | [] => true
      | _ => forallb pat_wf (dvals d) &&
             match static_conc axs a with Some c => inst_agree c d | None => false end
      end
  | PInst a _ => wf_for_checker axs a
  | _ => true
  end.

Fixpoint loads_in_axioms (t:pterm) (axs:list pat) : bool :=
  match t with
  | PMP a b => loads_in_axioms a axs && loads_in_axioms b axs
  | PGen a _ | PDynInst a _ | PInst a _ => loads_in_axioms a axs
  | PLoadAxiom p => pmem p axs
  | _ => true
  end.

Definition proof_ok (axs:list pat) (t:pterm) : bool := dynamic t && wf_for_checker axs t && loads_in_axioms t axs.

Definition module_ok (m:pmodule) : bool :=
  forallb pat_wf (m_axioms m) && forallb pat_wf (m_claims m) &&
  forallb (proof_ok (m_axioms m)) (m_proofs m) &&
  Nat.eqb (length (m_claims m)) (length (m_proofs m)).      (* every declared claim is discharged *)


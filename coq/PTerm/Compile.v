(** Proofs for C02: the bytes the serialising interpreter writes for a proof term / module drive the
    checker model ([ML/Machine.v], [guards_sound]) to push exactly the advertised conclusion, and a
    whole module is accepted by [verify]. *)
From Coq Require Import NArith PeanoNat List Bool Lia.
From Pi2 Require Import ML.Syntax ML.Subst ML.Machine ML.Facts PTerm.Model PTerm.Facts PTerm.MapSym.
Import ListNotations.
Open Scope N_scope.

Notation G := guards_sound.

(** * Running a block of whole instructions on the checker *)
Definition runs (ph:phase) (bs:list N) (st st':state) : Prop :=
  forall rest, exec G ph (bs ++ rest) st = exec G ph rest st'.

Lemma runs_nil ph st : runs ph [] st st.
Proof. intros rest. reflexivity. Qed.

Lemma runs_app ph b1 b2 st st1 st2 : runs ph b1 st st1 -> runs ph b2 st1 st2 -> runs ph (b1 ++ b2) st st2.
Proof. intros H1 H2 rest. rewrite <- app_assoc, H1, H2. reflexivity. Qed.

Lemma runs_exec ph bs st st' : runs ph bs st st' -> exec G ph bs st = Some st'.
Proof. intros H. specialize (H []). rewrite app_nil_r in H. rewrite H. reflexivity. Qed.

Ltac one_step := intros rest; simpl app; rewrite exec_cons; reflexivity.

Section Instr.
Variable ph : phase.
Variables (K:list term) (M:list term) (C:list pat).

Lemma run_evar n : runs ph [2; n] (mkst K M C) (mkst (TPat (EVar n) :: K) M C).
Proof. one_step. Qed.
Lemma run_svar n : runs ph [3; n] (mkst K M C) (mkst (TPat (SVar n) :: K) M C).
Proof. one_step. Qed.
Lemma run_sym n : runs ph [4; n] (mkst K M C) (mkst (TPat (Sym n) :: K) M C).
Proof. one_step. Qed.
Lemma run_imp l r : runs ph [5] (mkst (TPat r :: TPat l :: K) M C) (mkst (TPat (Imp l r) :: K) M C).
Proof. one_step. Qed.
Lemma run_app l r : runs ph [6] (mkst (TPat r :: TPat l :: K) M C) (mkst (TPat (App l r) :: K) M C).
Proof. one_step. Qed.
Lemma run_ex x q : runs ph [8; x] (mkst (TPat q :: K) M C) (mkst (TPat (Ex x q) :: K) M C).
Proof. one_step. Qed.
Lemma run_mu X q : pat_positive q X = true ->
  runs ph [7; X] (mkst (TPat q :: K) M C) (mkst (TPat (Mu X q) :: K) M C).
Proof. intros H rest. simpl app. rewrite exec_cons. unfold step. simpl. rewrite H. reflexivity. Qed.
Lemma run_cleanmeta id : runs ph [137; id] (mkst K M C) (mkst (TPat (phi id) :: K) M C).
Proof. one_step. Qed.
Lemma run_prop1 : runs ph [12] (mkst K M C) (mkst (TProved py_prop1 :: K) M C).
Proof. one_step. Qed.
Lemma run_prop2 : runs ph [13] (mkst K M C) (mkst (TProved py_prop2 :: K) M C).
Proof. one_step. Qed.
Lemma run_prop3 : runs ph [14] (mkst K M C) (mkst (TProved py_prop3 :: K) M C).
Proof. one_step. Qed.
Lemma run_quant : runs ph [15] (mkst K M C) (mkst (TProved py_quant :: K) M C).
Proof. one_step. Qed.
Lemma run_mp l r : runs ph [21] (mkst (TProved l :: TProved (Imp l r) :: K) M C) (mkst (TProved r :: K) M C).
Proof. intros rest. simpl app. rewrite exec_cons. unfold step. simpl. rewrite pat_eqb_refl. reflexivity. Qed.
Lemma run_gen l r x : e_fresh r x = true ->
  runs ph [22; x] (mkst (TProved (Imp l r) :: K) M C) (mkst (TProved (Imp (Ex x l) r) :: K) M C).
Proof. intros H rest. simpl app. rewrite exec_cons. unfold step. simpl. rewrite H. reflexivity. Qed.
Lemma run_pop t : runs ph [27] (mkst (t :: K) M C) (mkst K M C).
Proof. one_step. Qed.
Lemma run_save t : runs ph [28] (mkst (t :: K) M C) (mkst (t :: K) (M ++ [t]) C).
Proof. one_step. Qed.
Lemma run_load i t : nth_error M (N.to_nat i) = Some t -> runs ph [29; i] (mkst K M C) (mkst (t :: K) M C).
Proof. intros H rest. simpl app. rewrite exec_cons. unfold step. simpl. rewrite H. reflexivity. Qed.

Lemma run_esub q x plug : negb (is_redundant_subst (ESub q x plug)) && is_meta_head q = true ->
  runs ph [10; x] (mkst (TPat q :: TPat plug :: K) M C) (mkst (TPat (ESub q x plug) :: K) M C).
Proof.
  intros H rest. simpl app. rewrite exec_cons. unfold step. cbn [decode_op step_i stack pop_pat].
  unfold well_formed. rewrite H. reflexivity.
Qed.
Lemma run_ssub q X plug : negb (is_redundant_subst (SSub q X plug)) && is_meta_head q = true ->
  runs ph [11; X] (mkst (TPat q :: TPat plug :: K) M C) (mkst (TPat (SSub q X plug) :: K) M C).
Proof.
  intros H rest. simpl app. rewrite exec_cons. unfold step. cbn [decode_op step_i stack pop_pat].
  unfold well_formed. rewrite H. reflexivity.
Qed.
End Instr.

(** length-prefixed id vectors *)
Lemma to_nat_nlen {A} (l:list A) : N.to_nat (nlen l) = length l.
Proof. unfold nlen. apply Nat2N.id. Qed.

Lemma take_n_exact l : forall rest, take_n (length l) (l ++ rest) = Some (l, rest).
Proof. induction l as [|x l IH]; intros rest; simpl; [reflexivity|]. rewrite IH. reflexivity. Qed.

Lemma read_vec_exact l rest : read_vec (vec l ++ rest) = Some (l, rest).
Proof. unfold vec. simpl. rewrite to_nat_nlen. apply take_n_exact. Qed.

Lemma run_meta ph K M C id ef sf pos neg holes :
  negb (existsb (fun h => mem h ef) holes) = true ->
  runs ph ([9; id] ++ vec ef ++ vec sf ++ vec pos ++ vec neg ++ vec holes) (mkst K M C)
       (mkst (TPat (MVar id ef sf pos neg holes) :: K) M C).
Proof.
  intros H rest. rewrite <- app_assoc. cbn [app]. rewrite exec_cons. unfold step. cbn [decode_op step_i].
  rewrite <- !app_assoc. rewrite !read_vec_exact. unfold well_formed. rewrite H. reflexivity.
Qed.

Lemma take_ids_exact ids : forall plugs rest K, length plugs = length ids ->
  take_ids true (length ids) (ids ++ rest) (map TPat plugs ++ K) = Some (ids, plugs, rest, K).
Proof.
  induction ids as [|i ids IH]; intros plugs rest K L; destruct plugs as [|p plugs]; try discriminate; simpl.
  - reflexivity.
  - simpl in L. rewrite (IH plugs rest K) by lia. reflexivity.
Qed.

Lemma run_inst ph K M C c ids plugs r : length plugs = length ids ->
  inst G c ids plugs = Some r ->
  runs ph ([26; nlen ids] ++ ids) (mkst (TProved c :: map TPat plugs ++ K) M C) (mkst (TProved r :: K) M C).
Proof.
  intros L H rest. rewrite <- app_assoc. cbn [app]. rewrite exec_cons. unfold step. cbn [decode_op step_i stack].
  rewrite to_nat_nlen. cbn [g_instantiate_arity G]. rewrite (take_ids_exact ids plugs rest K L). rewrite H. reflexivity.
Qed.

(** * Decomposing a serialising run *)
Lemma ser_run_app a : forall b tbl s,
  ser_run (a ++ b) tbl s =
  match ser_run a tbl s with
  | Some (t1, s1, b1) => match ser_run b t1 s1 with
                         | Some (t2, s2, b2) => Some (t2, s2, b1 ++ b2)
                         | None => None end
  | None => None
  end.
Proof.
  induction a as [|c a IH]; intros b tbl s; simpl.
  - destruct (ser_run b tbl s) as [[[? ?] ?]|]; reflexivity.
  - destruct (st_step c s) as [s'|]; [|reflexivity].
    destruct (emit tbl (s_mem s') c) as [[tbl' bs]|]; [|reflexivity].
    destruct (fits bs); [|reflexivity]. rewrite IH.
    destruct (ser_run a tbl' s') as [[[t1 s1] b1]|]; [|reflexivity].
    destruct (ser_run b t1 s1) as [[[t2 s2] b2]|]; [|reflexivity]. rewrite app_assoc. reflexivity.
Qed.

Lemma ser_run_one c tbl s t' s' bs : ser_run [c] tbl s = Some (t', s', bs) ->
  st_step c s = Some s' /\ emit tbl (s_mem s') c = Some (t', bs).
Proof.
  simpl. destruct (st_step c s) as [s1|] eqn:E1; [|discriminate].
  destruct (emit tbl (s_mem s1) c) as [[t1 b1]|] eqn:E2; [|discriminate].
  destruct (fits b1); [|discriminate]. intros H; inversion H; subst. rewrite app_nil_r. split; [reflexivity | exact E2].
Qed.

Lemma ser_run_st cs : forall tbl s t' s' bs, ser_run cs tbl s = Some (t', s', bs) -> st_run cs s = Some s'.
Proof.
  induction cs as [|c cs IH]; intros tbl s t' s' bs; simpl.
  - intros H; inversion H; reflexivity.
  - destruct (st_step c s) as [s1|]; [|discriminate].
    destruct (emit tbl (s_mem s1) c) as [[t1 b1]|]; [|discriminate].
    destruct (fits b1); [|discriminate].
    destruct (ser_run cs t1 s1) as [[[t2 s2] b2]|] eqn:E; [|discriminate].
    intros H; inversion H; subst. eapply IH; eassumption.
Qed.

Definition ext (T tbl:symtab) : Prop := exists r, T = tbl ++ r.
Lemma ext_refl T : ext T T.
Proof. exists []. rewrite app_nil_r. reflexivity. Qed.
Lemma ext_trans T a b : ext T b -> ext b a -> ext T a.
Proof. intros (r1 & H1) (r2 & H2). subst. exists (r2 ++ r1). rewrite app_assoc. reflexivity. Qed.

Lemma emit_ext tbl mem c t' bs : emit tbl mem c = Some (t', bs) -> ext t' tbl.
Proof.
  destruct c; simpl; intros H;
    repeat match type of H with
    | Some _ = Some _ => inversion H; subst; clear H
    | match ?x with _ => _ end = Some _ => destruct x eqn:?; try discriminate
    | (if ?x then _ else _) = Some _ => destruct x eqn:?
    end; try apply ext_refl.
  eexists; reflexivity.
Qed.

Lemma ser_run_ext cs : forall tbl s t' s' bs, ser_run cs tbl s = Some (t', s', bs) -> ext t' tbl.
Proof.
  induction cs as [|c cs IH]; intros tbl s t' s' bs; simpl.
  - intros H; inversion H; apply ext_refl.
  - destruct (st_step c s) as [s1|]; [|discriminate].
    destruct (emit tbl (s_mem s1) c) as [[t1 b1]|] eqn:EE; [|discriminate].
    destruct (fits b1); [|discriminate].
    destruct (ser_run cs t1 s1) as [[[t2 s2] b2]|] eqn:E; [|discriminate].
    intros H; inversion H; subst. eapply ext_trans; [eapply IH; eassumption | eapply emit_ext; eassumption].
Qed.

Lemma sidx_ext T tbl n i : ext T tbl -> index_of n tbl = Some i -> sidx T n = i.
Proof. intros (r & ->) H. unfold sidx. rewrite (index_of_app _ _ r _ H). reflexivity. Qed.

Lemma ser_run_app_inv a b tbl s t' s' bs : ser_run (a ++ b) tbl s = Some (t', s', bs) ->
  exists t1 s1 b1 b2, ser_run a tbl s = Some (t1, s1, b1) /\ ser_run b t1 s1 = Some (t', s', b2) /\ bs = b1 ++ b2.
Proof.
  rewrite ser_run_app. destruct (ser_run a tbl s) as [[[t1 s1] b1]|]; [|discriminate].
  destruct (ser_run b t1 s1) as [[[t2 s2] b2]|] eqn:E; [|discriminate].
  intros H; inversion H; subst. eexists _, _, _, _. repeat split; eassumption.
Qed.

(** * What the checker demands of a pattern under construction and the generator does not check *)
Fixpoint pat_wf (p:pat) : bool :=
  match p with
  | EVar _ | SVar _ | Sym _ => true
  | MVar _ ef _ _ _ holes => negb (existsb (fun h => mem h ef) holes)        (* MetaVar well-formedness *)
  | Imp l r | App l r => pat_wf l && pat_wf r
  | Ex _ q => pat_wf q
  | Mu X q => pat_wf q && pat_positive q X                                   (* D9a *)
  | ESub q x plug => pat_wf q && pat_wf plug && (negb (is_redundant_subst p) && is_meta_head q)   (* D9b *)
  | SSub q X plug => pat_wf q && pat_wf plug && (negb (is_redundant_subst p) && is_meta_head q)
  end.

Lemma tindex_nth {A} (f:term -> A) t l i : tindex t l = Some i -> nth_error (map f l) (N.to_nat i) = Some (f t).
Proof.
  revert i. induction l as [|x l IH]; simpl; intros i H; [discriminate|].
  destruct (term_eqb x t) eqn:E.
  - inversion H; subst. apply term_eqb_eq in E. subst. reflexivity.
  - destruct (tindex t l) as [j|]; [|discriminate]. simpl in H. inversion H; subst.
    rewrite N2Nat.inj_succ. simpl. apply IH. reflexivity.
Qed.

Section PE.
Variable inS : pat -> bool.
Variable loads : bool.
Notation pcalls' := (pcalls inS loads).

Definition pcore (p:pat) (mem:list term) : option (list call * list term) :=
  match p with
  | EVar n => Some ([CEVar n], mem)
  | SVar n => Some ([CSVar n], mem)
  | Sym n => Some ([CSym n], mem)
  | MVar id ef sf pos neg holes => Some ([CMeta id ef sf pos neg holes], mem)
  | Imp l r =>
      match pcalls' l mem with
      | Some (c1, m1) => match pcalls' r m1 with
                         | Some (c2, m2) => Some (c1 ++ c2 ++ [CImp l r], m2) | None => None end
      | None => None end
  | App l r =>
      match pcalls' l mem with
      | Some (c1, m1) => match pcalls' r m1 with
                         | Some (c2, m2) => Some (c1 ++ c2 ++ [CApp l r], m2) | None => None end
      | None => None end
  | Ex x q => match pcalls' q mem with Some (c1, m1) => Some (c1 ++ [CEx x q], m1) | None => None end
  | Mu X q => match pcalls' q mem with Some (c1, m1) => Some (c1 ++ [CMu X q], m1) | None => None end
  | ESub q x plug =>
      match pcalls' plug mem with
      | Some (c1, m1) => match pcalls' q m1 with
                         | Some (c2, m2) => if is_meta_head q then Some (c1 ++ c2 ++ [CESub x q plug], m2) else None
                         | None => None end
      | None => None end
  | SSub q X plug =>
      match pcalls' plug mem with
      | Some (c1, m1) => match pcalls' q m1 with
                         | Some (c2, m2) => if is_meta_head q then Some (c1 ++ c2 ++ [CSSub X q plug], m2) else None
                         | None => None end
      | None => None end
  end.

Lemma pcalls_unfold p mem :
  pcalls' p mem =
  if loads && tmem (TPat p) mem then Some ([CLoad (TPat p)], mem) else
  match pcore p mem with
  | Some (cs, m') => if inS p then Some (cs ++ [CSave (TPat p)], m' ++ [TPat p]) else Some (cs, m')
  | None => None
  end.
Proof. destruct p; reflexivity. Qed.

Lemma pcalls_ser_mem p mem cs m' tbl s t1 s1 b1 :
  pcalls' p mem = Some (cs, m') -> s_mem s = mem -> ser_run cs tbl s = Some (t1, s1, b1) ->
  s1 = mksst (TPat p :: s_stack s) m' (s_claims s) (s_phase s).
Proof.
  intros H E R. subst mem. apply ser_run_st in R. rewrite (pcalls_st inS loads p s cs m' H) in R. congruence.
Qed.

Section Spec.
Variable T : symtab.
Notation ms := (map_sym T).
Notation mt := (map_term T).

Definition pexec_spec (p:pat) : Prop :=
  forall ph mem cs m' tbl s tbl' s' bs K C,
    pcalls' p mem = Some (cs, m') -> s_mem s = mem -> ser_run cs tbl s = Some (tbl', s', bs) ->
    pat_wf p = true -> ext T tbl' ->
    runs ph bs (mkst K (map mt mem) C) (mkst (TPat (ms p) :: K) (map mt m') C).

Definition pcore_spec (p:pat) : Prop :=
  forall ph mem cs m' tbl s tbl' s' bs K C,
    pcore p mem = Some (cs, m') -> s_mem s = mem -> ser_run cs tbl s = Some (tbl', s', bs) ->
    pat_wf p = true -> ext T tbl' ->
    runs ph bs (mkst K (map mt mem) C) (mkst (TPat (ms p) :: K) (map mt m') C).

Lemma pcalls_wrap p : pcore_spec p -> pexec_spec p.
Proof.
  intros HC ph mem cs m' tbl s tbl' s' bs K C H EM R W X.
  rewrite pcalls_unfold in H. destruct (loads && tmem (TPat p) mem) eqn:EL.
  - inversion H; subst cs m'; clear H. apply ser_run_one in R as [R1 R2].
    rewrite (st_step_mem _ _ _ R1) in R2. simpl in R2. rewrite EM in R2.
    destruct (tindex (TPat p) mem) as [i|] eqn:EI; [|discriminate]. inversion R2; subst.
    apply (run_load ph K (map mt mem) C i (mt (TPat p))). apply tindex_nth. exact EI.
  - destruct (pcore p mem) as [[cs0 m0]|] eqn:EC; [|discriminate].
    destruct (inS p).
    + inversion H; subst cs m'; clear H.
      apply ser_run_app_inv in R as (t1 & s1 & b1 & b2 & R1 & R2 & ->).
      apply ser_run_one in R2 as [_ R2]. simpl in R2. inversion R2; subst.
      eapply runs_app; [eapply HC; eassumption|].
      rewrite map_app. simpl map. apply (run_save ph K (map mt m0) C (TPat (ms p))).
    + inversion H; subst cs m'; clear H. eapply HC; eassumption.
Qed.

Lemma is_nil_true {A} (l:list A) : is_nil l = true -> l = [].
Proof. destruct l; [reflexivity | discriminate]. Qed.

Lemma pcalls_exec p : pexec_spec p.
Proof.
  induction p as [n|n|n|l IHl r IHr|l IHl r IHr|y q IHq|Y q IHq|id ef sf pos neg holes|q IHq y plug IHplug|q IHq Y plug IHplug];
    apply pcalls_wrap; intros ph mem cs m' tbl s tbl' s' bs K C H EM R W X; simpl in H.
  - inversion H; subst. apply ser_run_one in R as [_ R]. simpl in R. inversion R; subst. apply run_evar.
  - inversion H; subst. apply ser_run_one in R as [_ R]. simpl in R. inversion R; subst. apply run_svar.
  - inversion H; subst. apply ser_run_one in R as [_ R]. simpl in R.
    destruct (index_of n tbl) as [i|] eqn:EI; inversion R; subst; simpl.
    + rewrite (sidx_ext T tbl' n i X EI). apply run_sym.
    + rewrite (sidx_ext T (tbl ++ [n]) n (nlen tbl) X (index_of_fresh n tbl EI)). apply run_sym.
  - (* Imp *)
    destruct (pcalls' l mem) as [[c1 m1]|] eqn:E1; [|discriminate].
    destruct (pcalls' r m1) as [[c2 m2]|] eqn:E2; [|discriminate]. inversion H; subst cs m'; clear H.
    apply ser_run_app_inv in R as (t1 & s1 & b1 & b' & R1 & R & ->).
    apply ser_run_app_inv in R as (t2 & s2 & b2 & b3 & R2 & R3 & ->).
    pose proof (pcalls_ser_mem _ _ _ _ _ _ _ _ _ E1 EM R1) as S1.
    apply ser_run_one in R3 as [_ R3]. simpl in R3. inversion R3; subst tbl' b3; clear R3.
    simpl in W. apply andb_true_iff in W as [W1 W2].
    eapply runs_app; [eapply (IHl ph mem); try eassumption; eapply ext_trans; [exact X | eapply ser_run_ext; exact R2]|].
    eapply runs_app; [eapply (IHr ph m1); try eassumption; subst s1; reflexivity|].
    simpl. apply run_imp.
  - (* App *)
    destruct (pcalls' l mem) as [[c1 m1]|] eqn:E1; [|discriminate].
    destruct (pcalls' r m1) as [[c2 m2]|] eqn:E2; [|discriminate]. inversion H; subst cs m'; clear H.
    apply ser_run_app_inv in R as (t1 & s1 & b1 & b' & R1 & R & ->).
    apply ser_run_app_inv in R as (t2 & s2 & b2 & b3 & R2 & R3 & ->).
    pose proof (pcalls_ser_mem _ _ _ _ _ _ _ _ _ E1 EM R1) as S1.
    apply ser_run_one in R3 as [_ R3]. simpl in R3. inversion R3; subst tbl' b3; clear R3.
    simpl in W. apply andb_true_iff in W as [W1 W2].
    eapply runs_app; [eapply (IHl ph mem); try eassumption; eapply ext_trans; [exact X | eapply ser_run_ext; exact R2]|].
    eapply runs_app; [eapply (IHr ph m1); try eassumption; subst s1; reflexivity|].
    simpl. apply run_app.
  - (* Ex *)
    destruct (pcalls' q mem) as [[c1 m1]|] eqn:E1; [|discriminate]. inversion H; subst cs m'; clear H.
    apply ser_run_app_inv in R as (t1 & s1 & b1 & b3 & R1 & R3 & ->).
    apply ser_run_one in R3 as [_ R3]. simpl in R3. inversion R3; subst tbl' b3; clear R3.
    simpl in W.
    eapply runs_app; [eapply (IHq ph mem); eassumption|]. simpl. apply run_ex.
  - (* Mu *)
    destruct (pcalls' q mem) as [[c1 m1]|] eqn:E1; [|discriminate]. inversion H; subst cs m'; clear H.
    apply ser_run_app_inv in R as (t1 & s1 & b1 & b3 & R1 & R3 & ->).
    apply ser_run_one in R3 as [_ R3]. simpl in R3. inversion R3; subst tbl' b3; clear R3.
    simpl in W. apply andb_true_iff in W as [W1 W2].
    eapply runs_app; [eapply (IHq ph mem); eassumption|]. simpl. apply run_mu.
    unfold pat_positive. rewrite ms_polar. exact W2.
  - (* MVar *)
    inversion H; subst. apply ser_run_one in R as [_ R]. simpl in R. simpl in W.
    destruct (is_nil ef && is_nil sf && is_nil pos && is_nil neg && is_nil holes) eqn:EN; inversion R; subst; simpl.
    + repeat (apply andb_true_iff in EN as [EN ?]).
      repeat match goal with Hn : is_nil _ = true |- _ => apply is_nil_true in Hn; subst end.
      apply run_cleanmeta.
    + apply run_meta. exact W.
  - (* ESub *)
    destruct (pcalls' plug mem) as [[c1 m1]|] eqn:E1; [|discriminate].
    destruct (pcalls' q m1) as [[c2 m2]|] eqn:E2; [|discriminate].
    destruct (is_meta_head q) eqn:EH; [|discriminate]. inversion H; subst cs m'; clear H.
    apply ser_run_app_inv in R as (t1 & s1 & b1 & b' & R1 & R & ->).
    apply ser_run_app_inv in R as (t2 & s2 & b2 & b3 & R2 & R3 & ->).
    pose proof (pcalls_ser_mem _ _ _ _ _ _ _ _ _ E1 EM R1) as S1.
    apply ser_run_one in R3 as [_ R3]. simpl in R3. inversion R3; subst tbl' b3; clear R3.
    cbn [pat_wf] in W. apply andb_true_iff in W as [W W3]. apply andb_true_iff in W as [W1 W2].
    eapply runs_app; [eapply (IHplug ph mem); try eassumption; eapply ext_trans; [exact X | eapply ser_run_ext; exact R2]|].
    eapply runs_app; [eapply (IHq ph m1); try eassumption; subst s1; reflexivity|].
    cbn [map_sym]. apply run_esub. rewrite ms_redundant_e, ms_is_meta_head. exact W3.
  - (* SSub *)
    destruct (pcalls' plug mem) as [[c1 m1]|] eqn:E1; [|discriminate].
    destruct (pcalls' q m1) as [[c2 m2]|] eqn:E2; [|discriminate].
    destruct (is_meta_head q) eqn:EH; [|discriminate]. inversion H; subst cs m'; clear H.
    apply ser_run_app_inv in R as (t1 & s1 & b1 & b' & R1 & R & ->).
    apply ser_run_app_inv in R as (t2 & s2 & b2 & b3 & R2 & R3 & ->).
    pose proof (pcalls_ser_mem _ _ _ _ _ _ _ _ _ E1 EM R1) as S1.
    apply ser_run_one in R3 as [_ R3]. simpl in R3. inversion R3; subst tbl' b3; clear R3.
    cbn [pat_wf] in W. apply andb_true_iff in W as [W W3]. apply andb_true_iff in W as [W1 W2].
    eapply runs_app; [eapply (IHplug ph mem); try eassumption; eapply ext_trans; [exact X | eapply ser_run_ext; exact R2]|].
    eapply runs_app; [eapply (IHq ph m1); try eassumption; subst s1; reflexivity|].
    cbn [map_sym]. apply run_ssub. rewrite ms_redundant_s, ms_is_meta_head. exact W3.
Qed.

End Spec.
End PE.

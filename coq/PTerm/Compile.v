(** Proofs for C02: the bytes the serialising interpreter writes for a proof term / module drive the
    checker model ([ML/Machine.v], [guards_sound]) to push exactly the advertised conclusion, and a
    whole module is accepted by [verify]. *)
From Coq Require Import NArith PeanoNat List Bool Lia.
From Pi2 Require Import ML.Syntax ML.Subst ML.Machine ML.Facts PTerm.Model PTerm.Facts PTerm.MapSym.
Import ListNotations.
Open Scope N_scope.

Notation G := guards_sound.

(** * Running a block of whole instructions on the checker *)
Definition runs (ph:phase) (bs:list N) (st st':state) : Prop :=
  forall rest, exec G ph (bs ++ rest) st = exec G ph rest st'.

Lemma runs_nil ph st : runs ph [] st st.
Proof. intros rest. reflexivity. Qed.

Lemma runs_app ph b1 b2 st st1 st2 : runs ph b1 st st1 -> runs ph b2 st1 st2 -> runs ph (b1 ++ b2) st st2.
Proof. intros H1 H2 rest. rewrite <- app_assoc, H1, H2. reflexivity. Qed.

Lemma runs_exec ph bs st st' : runs ph bs st st' -> exec G ph bs st = Some st'.
Proof. intros H. specialize (H []). rewrite app_nil_r in H. rewrite H. reflexivity. Qed.

Ltac one_step := intros rest; simpl app; rewrite exec_cons; reflexivity.

Section Instr.
Variable ph : phase.
Variables (K:list term) (M:list term) (C:list pat).

Lemma run_evar n : runs ph [2; n] (mkst K M C) (mkst (TPat (EVar n) :: K) M C).
Proof. one_step. Qed.
Lemma run_svar n : runs ph [3; n] (mkst K M C) (mkst (TPat (SVar n) :: K) M C).
Proof. one_step. Qed.
Lemma run_sym n : runs ph [4; n] (mkst K M C) (mkst (TPat (Sym n) :: K) M C).
Proof. one_step. Qed.
Lemma run_imp l r : runs ph [5] (mkst (TPat r :: TPat l :: K) M C) (mkst (TPat (Imp l r) :: K) M C).
Proof. one_step. Qed.
Lemma run_app l r : runs ph [6] (mkst (TPat r :: TPat l :: K) M C) (mkst (TPat (App l r) :: K) M C).
Proof. one_step. Qed.
Lemma run_ex x q : runs ph [8; x] (mkst (TPat q :: K) M C) (mkst (TPat (Ex x q) :: K) M C).
Proof. one_step. Qed.
Lemma run_mu X q : pat_positive q X = true ->
  runs ph [7; X] (mkst (TPat q :: K) M C) (mkst (TPat (Mu X q) :: K) M C).
Proof. intros H rest. simpl app. rewrite exec_cons. unfold step. simpl. rewrite H. reflexivity. Qed.
Lemma run_cleanmeta id : runs ph [137; id] (mkst K M C) (mkst (TPat (phi id) :: K) M C).
Proof. one_step. Qed.
Lemma run_prop1 : runs ph [12] (mkst K M C) (mkst (TProved py_prop1 :: K) M C).
Proof. one_step. Qed.
Lemma run_prop2 : runs ph [13] (mkst K M C) (mkst (TProved py_prop2 :: K) M C).
Proof. one_step. Qed.
Lemma run_prop3 : runs ph [14] (mkst K M C) (mkst (TProved py_prop3 :: K) M C).
Proof. one_step. Qed.
Lemma run_quant : runs ph [15] (mkst K M C) (mkst (TProved py_quant :: K) M C).
Proof. one_step. Qed.
Lemma run_mp l r : runs ph [21] (mkst (TProved l :: TProved (Imp l r) :: K) M C) (mkst (TProved r :: K) M C).
Proof. intros rest. simpl app. rewrite exec_cons. unfold step. simpl. rewrite pat_eqb_refl. reflexivity. Qed.
Lemma run_gen l r x : e_fresh r x = true ->
  runs ph [22; x] (mkst (TProved (Imp l r) :: K) M C) (mkst (TProved (Imp (Ex x l) r) :: K) M C).
Proof. intros H rest. simpl app. rewrite exec_cons. unfold step. simpl. rewrite H. reflexivity. Qed.
Lemma run_pop t : runs ph [27] (mkst (t :: K) M C) (mkst K M C).
Proof. one_step. Qed.
Lemma run_save t : runs ph [28] (mkst (t :: K) M C) (mkst (t :: K) (M ++ [t]) C).
Proof. one_step. Qed.
Lemma run_load i t : nth_error M (N.to_nat i) = Some t -> runs ph [29; i] (mkst K M C) (mkst (t :: K) M C).
Proof. intros H rest. simpl app. rewrite exec_cons. unfold step. simpl. rewrite H. reflexivity. Qed.

Lemma run_esub q x plug : negb (is_redundant_subst (ESub q x plug)) && is_meta_head q = true ->
  runs ph [10; x] (mkst (TPat q :: TPat plug :: K) M C) (mkst (TPat (ESub q x plug) :: K) M C).
Proof.
  intros H rest. simpl app. rewrite exec_cons. unfold step. cbn [decode_op step_i stack pop_pat].
  unfold well_formed. rewrite H. reflexivity.
Qed.
Lemma run_ssub q X plug : negb (is_redundant_subst (SSub q X plug)) && is_meta_head q = true ->
  runs ph [11; X] (mkst (TPat q :: TPat plug :: K) M C) (mkst (TPat (SSub q X plug) :: K) M C).
Proof.
  intros H rest. simpl app. rewrite exec_cons. unfold step. cbn [decode_op step_i stack pop_pat].
  unfold well_formed. rewrite H. reflexivity.
Qed.
End Instr.

(** length-prefixed id vectors *)
Lemma to_nat_nlen {A} (l:list A) : N.to_nat (nlen l) = length l.
Proof. unfold nlen. apply Nat2N.id. Qed.

Lemma take_n_exact l : forall rest, take_n (length l) (l ++ rest) = Some (l, rest).
Proof. induction l as [|x l IH]; intros rest; simpl; [reflexivity|]. rewrite IH. reflexivity. Qed.

Lemma read_vec_exact l rest : read_vec (vec l ++ rest) = Some (l, rest).
Proof. unfold vec. simpl. rewrite to_nat_nlen. apply take_n_exact. Qed.

Lemma run_meta ph K M C id ef sf pos neg holes :
  negb (existsb (fun h => mem h ef) holes) = true ->
  runs ph ([9; id] ++ vec ef ++ vec sf ++ vec pos ++ vec neg ++ vec holes) (mkst K M C)
       (mkst (TPat (MVar id ef sf pos neg holes) :: K) M C).
Proof.
  intros H rest. rewrite <- app_assoc. cbn [app]. rewrite exec_cons. unfold step. cbn [decode_op step_i].
  rewrite <- !app_assoc. rewrite !read_vec_exact. unfold well_formed. rewrite H. reflexivity.
Qed.

Lemma take_ids_exact ids : forall plugs rest K, length plugs = length ids ->
  take_ids true (length ids) (ids ++ rest) (map TPat plugs ++ K) = Some (ids, plugs, rest, K).
Proof.
  induction ids as [|i ids IH]; intros plugs rest K L; destruct plugs as [|p plugs]; try discriminate; simpl.
  - reflexivity.
  - simpl in L. rewrite (IH plugs rest K) by lia. reflexivity.
Qed.

Lemma run_inst ph K M C c ids plugs r : length plugs = length ids ->
  inst G c ids plugs = Some r ->
  runs ph ([26; nlen ids] ++ ids) (mkst (TProved c :: map TPat plugs ++ K) M C) (mkst (TProved r :: K) M C).
Proof.
  intros L H rest. rewrite <- app_assoc. cbn [app]. rewrite exec_cons. unfold step. cbn [decode_op step_i stack].
  rewrite to_nat_nlen. cbn [g_instantiate_arity G]. rewrite (take_ids_exact ids plugs rest K L). rewrite H. reflexivity.
Qed.

(** * Decomposing a serialising run *)
Lemma ser_run_app a : forall b tbl s,
  ser_run (a ++ b) tbl s =
  match ser_run a tbl s with
  | Some (t1, s1, b1) => match ser_run b t1 s1 with
                         | Some (t2, s2, b2) => Some (t2, s2, b1 ++ b2)
                         | None => None end
  | None => None
  end.
Proof.
  induction a as [|c a IH]; intros b tbl s; simpl.
  - destruct (ser_run b tbl s) as [[[? ?] ?]|]; reflexivity.
  - destruct (st_step c s) as [s'|]; [|reflexivity].
    destruct (emit tbl (s_mem s') c) as [[tbl' bs]|]; [|reflexivity].
    destruct (fits bs); [|reflexivity]. rewrite IH.
    destruct (ser_run a tbl' s') as [[[t1 s1] b1]|]; [|reflexivity].
    destruct (ser_run b t1 s1) as [[[t2 s2] b2]|]; [|reflexivity]. rewrite app_assoc. reflexivity.
Qed.

Lemma ser_run_one c tbl s t' s' bs : ser_run [c] tbl s = Some (t', s', bs) ->
  st_step c s = Some s' /\ emit tbl (s_mem s') c = Some (t', bs).
Proof.
  simpl. destruct (st_step c s) as [s1|] eqn:E1; [|discriminate].
  destruct (emit tbl (s_mem s1) c) as [[t1 b1]|] eqn:E2; [|discriminate].
  destruct (fits b1); [|discriminate]. intros H; inversion H; subst. rewrite app_nil_r. split; [reflexivity | exact E2].
Qed.

Lemma ser_run_st cs : forall tbl s t' s' bs, ser_run cs tbl s = Some (t', s', bs) -> st_run cs s = Some s'.
Proof.
  induction cs as [|c cs IH]; intros tbl s t' s' bs; simpl.
  - intros H; inversion H; reflexivity.
  - destruct (st_step c s) as [s1|]; [|discriminate].
    destruct (emit tbl (s_mem s1) c) as [[t1 b1]|]; [|discriminate].
    destruct (fits b1); [|discriminate].
    destruct (ser_run cs t1 s1) as [[[t2 s2] b2]|] eqn:E; [|discriminate].
    intros H; inversion H; subst. eapply IH; eassumption.
Qed.

Definition ext (T tbl:symtab) : Prop := exists r, T = tbl ++ r.
Lemma ext_refl T : ext T T.
Proof. exists []. rewrite app_nil_r. reflexivity. Qed.
Lemma ext_trans T a b : ext T b -> ext b a -> ext T a.
Proof. intros (r1 & H1) (r2 & H2). subst. exists (r2 ++ r1). rewrite app_assoc. reflexivity. Qed.

Lemma emit_ext tbl mem c t' bs : emit tbl mem c = Some (t', bs) -> ext t' tbl.
Proof.
  destruct c; simpl; intros H;
    repeat match type of H with
    | Some _ = Some _ => inversion H; subst; clear H
    | match ?x with _ => _ end = Some _ => destruct x eqn:?; try discriminate
    | (if ?x then _ else _) = Some _ => destruct x eqn:?
    end; try apply ext_refl.
  eexists; reflexivity.
Qed.

Lemma ser_run_ext cs : forall tbl s t' s' bs, ser_run cs tbl s = Some (t', s', bs) -> ext t' tbl.
Proof.
  induction cs as [|c cs IH]; intros tbl s t' s' bs; simpl.
  - intros H; inversion H; apply ext_refl.
  - destruct (st_step c s) as [s1|]; [|discriminate].
    destruct (emit tbl (s_mem s1) c) as [[t1 b1]|] eqn:EE; [|discriminate].
    destruct (fits b1); [|discriminate].
    destruct (ser_run cs t1 s1) as [[[t2 s2] b2]|] eqn:E; [|discriminate].
    intros H; inversion H; subst. eapply ext_trans; [eapply IH; eassumption | eapply emit_ext; eassumption].
Qed.

Lemma sidx_ext T tbl n i : ext T tbl -> index_of n tbl = Some i -> sidx T n = i.
Proof. intros (r & ->) H. unfold sidx. rewrite (index_of_app _ _ r _ H). reflexivity. Qed.

Lemma ser_run_app_inv a b tbl s t' s' bs : ser_run (a ++ b) tbl s = Some (t', s', bs) ->
  exists t1 s1 b1 b2, ser_run a tbl s = Some (t1, s1, b1) /\ ser_run b t1 s1 = Some (t', s', b2) /\ bs = b1 ++ b2.
Proof.
  rewrite ser_run_app. destruct (ser_run a tbl s) as [[[t1 s1] b1]|]; [|discriminate].
  destruct (ser_run b t1 s1) as [[[t2 s2] b2]|] eqn:E; [|discriminate].
  intros H; inversion H; subst. eexists _, _, _, _. repeat split; eassumption.
Qed.

Lemma tindex_nth {A} (f:term -> A) t l i : tindex t l = Some i -> nth_error (map f l) (N.to_nat i) = Some (f t).
Proof.
  revert i. induction l as [|x l IH]; simpl; intros i H; [discriminate|].
  destruct (term_eqb x t) eqn:E.
  - inversion H; subst. apply term_eqb_eq in E. subst. reflexivity.
  - destruct (tindex t l) as [j|]; [|discriminate]. simpl in H. inversion H; subst.
    rewrite N2Nat.inj_succ. simpl. apply IH. reflexivity.
Qed.

Section PE.
Variable inS : pat -> bool.
Variable loads : bool.
Notation pcalls' := (pcalls inS loads).

Definition pcore (p:pat) (mem:list term) : option (list call * list term) :=
  match p with
  | EVar n => Some ([CEVar n], mem)
  | SVar n => Some ([CSVar n], mem)
  | Sym n => Some ([CSym n], mem)
  | MVar id ef sf pos neg holes => Some ([CMeta id ef sf pos neg holes], mem)
  | Imp l r =>
      match pcalls' l mem with
      | Some (c1, m1) => match pcalls' r m1 with
                         | Some (c2, m2) => Some (c1 ++ c2 ++ [CImp l r], m2) | None => None end
      | None => None end
  | App l r =>
      match pcalls' l mem with
      | Some (c1, m1) => match pcalls' r m1 with
                         | Some (c2, m2) => Some (c1 ++ c2 ++ [CApp l r], m2) | None => None end
      | None => None end
  | Ex x q => match pcalls' q mem with Some (c1, m1) => Some (c1 ++ [CEx x q], m1) | None => None end
  | Mu X q => match pcalls' q mem with Some (c1, m1) => Some (c1 ++ [CMu X q], m1) | None => None end
  | ESub q x plug =>
      match pcalls' plug mem with
      | Some (c1, m1) => match pcalls' q m1 with
                         | Some (c2, m2) => if is_meta_head q then Some (c1 ++ c2 ++ [CESub x q plug], m2) else None
                         | None => None end
      | None => None end
  | SSub q X plug =>
      match pcalls' plug mem with
      | Some (c1, m1) => match pcalls' q m1 with
                         | Some (c2, m2) => if is_meta_head q then Some (c1 ++ c2 ++ [CSSub X q plug], m2) else None
                         | None => None end
      | None => None end
  end.

Lemma pcalls_unfold p mem :
  pcalls' p mem =
  if loads && tmem (TPat p) mem then Some ([CLoad (TPat p)], mem) else
  match pcore p mem with
  | Some (cs, m') => if inS p then Some (cs ++ [CSave (TPat p)], m' ++ [TPat p]) else Some (cs, m')
  | None => None
  end.
Proof. destruct p; reflexivity. Qed.

Lemma pcalls_ser_mem p mem cs m' tbl s t1 s1 b1 :
  pcalls' p mem = Some (cs, m') -> s_mem s = mem -> ser_run cs tbl s = Some (t1, s1, b1) ->
  s1 = mksst (TPat p :: s_stack s) m' (s_claims s) (s_phase s).
Proof.
  intros H E R. subst mem. apply ser_run_st in R. rewrite (pcalls_st inS loads p s cs m' H) in R. congruence.
Qed.

Section Spec.
Variable T : symtab.
Notation ms := (map_sym T).
Notation mt := (map_term T).

Definition pexec_spec (p:pat) : Prop :=
  forall ph mem cs m' tbl s tbl' s' bs K C,
    pcalls' p mem = Some (cs, m') -> s_mem s = mem -> ser_run cs tbl s = Some (tbl', s', bs) ->
    pat_wf p = true -> ext T tbl' ->
    runs ph bs (mkst K (map mt mem) C) (mkst (TPat (ms p) :: K) (map mt m') C).

Definition pcore_spec (p:pat) : Prop :=
  forall ph mem cs m' tbl s tbl' s' bs K C,
    pcore p mem = Some (cs, m') -> s_mem s = mem -> ser_run cs tbl s = Some (tbl', s', bs) ->
    pat_wf p = true -> ext T tbl' ->
    runs ph bs (mkst K (map mt mem) C) (mkst (TPat (ms p) :: K) (map mt m') C).

Lemma pcalls_wrap p : pcore_spec p -> pexec_spec p.
Proof.
  intros HC ph mem cs m' tbl s tbl' s' bs K C H EM R W X.
  rewrite pcalls_unfold in H. destruct (loads && tmem (TPat p) mem) eqn:EL.
  - inversion H; subst cs m'; clear H. apply ser_run_one in R as [R1 R2].
    rewrite (st_step_mem _ _ _ R1) in R2. simpl in R2. rewrite EM in R2.
    destruct (tindex (TPat p) mem) as [i|] eqn:EI; [|discriminate]. inversion R2; subst.
    apply (run_load ph K _ C i (mt (TPat p))). apply tindex_nth. exact EI.
  - destruct (pcore p mem) as [[cs0 m0]|] eqn:EC; [|discriminate].
    destruct (inS p).
    + inversion H; subst cs m'; clear H.
      apply ser_run_app_inv in R as (t1 & s1 & b1 & b2 & R1 & R2 & ->).
      apply ser_run_one in R2 as [_ R2]. simpl in R2. inversion R2; subst.
      eapply runs_app; [eapply HC; first [eassumption | reflexivity]|].
      rewrite map_app. simpl map. apply (run_save ph K (map mt m0) C (TPat (ms p))).
    + inversion H; subst cs m'; clear H. eapply HC; first [eassumption | reflexivity].
Qed.

Lemma is_nil_true {A} (l:list A) : is_nil l = true -> l = [].
Proof. destruct l; [reflexivity | discriminate]. Qed.

Lemma pcalls_exec p : pexec_spec p.
Proof.
  induction p as [n|n|n|l IHl r IHr|l IHl r IHr|y q IHq|Y q IHq|id ef sf pos neg holes|q IHq y plug IHplug|q IHq Y plug IHplug];
    apply pcalls_wrap; intros ph mem cs m' tbl s tbl' s' bs K C H EM R W X; simpl in H.
  - inversion H; subst. apply ser_run_one in R as [_ R]. simpl in R. inversion R; subst. apply run_evar.
  - inversion H; subst. apply ser_run_one in R as [_ R]. simpl in R. inversion R; subst. apply run_svar.
  - inversion H; subst. apply ser_run_one in R as [_ R]. simpl in R.
    destruct (index_of n tbl) as [i|] eqn:EI; inversion R; subst; simpl.
    + rewrite (sidx_ext T tbl' n i X EI). apply run_sym.
    + rewrite (sidx_ext T (tbl ++ [n]) n (nlen tbl) X (index_of_fresh n tbl EI)). apply run_sym.
  - (* Imp *)
    destruct (pcalls' l mem) as [[c1 m1]|] eqn:E1; [|discriminate].
    destruct (pcalls' r m1) as [[c2 m2]|] eqn:E2; [|discriminate]. inversion H; subst cs m'; clear H.
    apply ser_run_app_inv in R as (t1 & s1 & b1 & b' & R1 & R & ->).
    apply ser_run_app_inv in R as (t2 & s2 & b2 & b3 & R2 & R3 & ->).
    pose proof (pcalls_ser_mem _ _ _ _ _ _ _ _ _ E1 EM R1) as S1.
    apply ser_run_one in R3 as [_ R3]. simpl in R3. inversion R3; subst tbl' b3; clear R3.
    simpl in W. apply andb_true_iff in W as [W1 W2].
    eapply runs_app; [eapply (IHl ph mem); try eassumption; eapply ext_trans; [exact X | eapply ser_run_ext; exact R2]|].
    eapply runs_app; [eapply (IHr ph m1); try eassumption; subst s1; reflexivity|].
    simpl. apply run_imp.
  - (* App *)
    destruct (pcalls' l mem) as [[c1 m1]|] eqn:E1; [|discriminate].
    destruct (pcalls' r m1) as [[c2 m2]|] eqn:E2; [|discriminate]. inversion H; subst cs m'; clear H.
    apply ser_run_app_inv in R as (t1 & s1 & b1 & b' & R1 & R & ->).
    apply ser_run_app_inv in R as (t2 & s2 & b2 & b3 & R2 & R3 & ->).
    pose proof (pcalls_ser_mem _ _ _ _ _ _ _ _ _ E1 EM R1) as S1.
    apply ser_run_one in R3 as [_ R3]. simpl in R3. inversion R3; subst tbl' b3; clear R3.
    simpl in W. apply andb_true_iff in W as [W1 W2].
    eapply runs_app; [eapply (IHl ph mem); try eassumption; eapply ext_trans; [exact X | eapply ser_run_ext; exact R2]|].
    eapply runs_app; [eapply (IHr ph m1); try eassumption; subst s1; reflexivity|].
    simpl. apply run_app.
  - (* Ex *)
    destruct (pcalls' q mem) as [[c1 m1]|] eqn:E1; [|discriminate]. inversion H; subst cs m'; clear H.
    apply ser_run_app_inv in R as (t1 & s1 & b1 & b3 & R1 & R3 & ->).
    apply ser_run_one in R3 as [_ R3]. simpl in R3. inversion R3; subst tbl' b3; clear R3.
    simpl in W.
    eapply runs_app; [eapply (IHq ph mem); eassumption|]. simpl. apply run_ex.
  - (* Mu *)
    destruct (pcalls' q mem) as [[c1 m1]|] eqn:E1; [|discriminate]. inversion H; subst cs m'; clear H.
    apply ser_run_app_inv in R as (t1 & s1 & b1 & b3 & R1 & R3 & ->).
    apply ser_run_one in R3 as [_ R3]. simpl in R3. inversion R3; subst tbl' b3; clear R3.
    simpl in W. apply andb_true_iff in W as [W1 W2].
    eapply runs_app; [eapply (IHq ph mem); eassumption|]. simpl. apply run_mu.
    unfold pat_positive. rewrite ms_polar. exact W2.
  - (* MVar *)
    inversion H; subst. apply ser_run_one in R as [_ R]. simpl in R. simpl in W.
    destruct (is_nil ef && is_nil sf && is_nil pos && is_nil neg && is_nil holes) eqn:EN; inversion R; subst; simpl.
    + repeat (apply andb_true_iff in EN as [EN ?]).
      repeat match goal with Hn : is_nil _ = true |- _ => apply is_nil_true in Hn; subst end.
      apply run_cleanmeta.
    + apply run_meta. exact W.
  - (* ESub *)
    destruct (pcalls' plug mem) as [[c1 m1]|] eqn:E1; [|discriminate].
    destruct (pcalls' q m1) as [[c2 m2]|] eqn:E2; [|discriminate].
    destruct (is_meta_head q) eqn:EH; [|discriminate]. inversion H; subst cs m'; clear H.
    apply ser_run_app_inv in R as (t1 & s1 & b1 & b' & R1 & R & ->).
    apply ser_run_app_inv in R as (t2 & s2 & b2 & b3 & R2 & R3 & ->).
    pose proof (pcalls_ser_mem _ _ _ _ _ _ _ _ _ E1 EM R1) as S1.
    apply ser_run_one in R3 as [_ R3]. simpl in R3. inversion R3; subst tbl' b3; clear R3.
    cbn [pat_wf] in W. apply andb_true_iff in W as [W W3]. apply andb_true_iff in W as [W1 W2].
    eapply runs_app; [eapply (IHplug ph mem); try eassumption; eapply ext_trans; [exact X | eapply ser_run_ext; exact R2]|].
    eapply runs_app; [eapply (IHq ph m1); try eassumption; subst s1; reflexivity|].
    cbn [map_sym]. apply run_esub. rewrite ms_redundant_e, ms_is_meta_head. exact W3.
  - (* SSub *)
    destruct (pcalls' plug mem) as [[c1 m1]|] eqn:E1; [|discriminate].
    destruct (pcalls' q m1) as [[c2 m2]|] eqn:E2; [|discriminate].
    destruct (is_meta_head q) eqn:EH; [|discriminate]. inversion H; subst cs m'; clear H.
    apply ser_run_app_inv in R as (t1 & s1 & b1 & b' & R1 & R & ->).
    apply ser_run_app_inv in R as (t2 & s2 & b2 & b3 & R2 & R3 & ->).
    pose proof (pcalls_ser_mem _ _ _ _ _ _ _ _ _ E1 EM R1) as S1.
    apply ser_run_one in R3 as [_ R3]. simpl in R3. inversion R3; subst tbl' b3; clear R3.
    cbn [pat_wf] in W. apply andb_true_iff in W as [W W3]. apply andb_true_iff in W as [W1 W2].
    eapply runs_app; [eapply (IHplug ph mem); try eassumption; eapply ext_trans; [exact X | eapply ser_run_ext; exact R2]|].
    eapply runs_app; [eapply (IHq ph m1); try eassumption; subst s1; reflexivity|].
    cbn [map_sym]. apply run_ssub. rewrite ms_redundant_s, ms_is_meta_head. exact W3.
Qed.

End Spec.
End PE.

(** * Proof terms *)
Lemma nlen_rev_keys (d:delta) : nlen d = nlen (rev (dkeys d)).
Proof. unfold nlen, dkeys. rewrite rev_length, map_length. reflexivity. Qed.
Lemma len_plugs_ids {A} (f:pat -> A) (d:delta) : length (map f (rev (dvals d))) = length (rev (dkeys d)).
Proof. unfold dkeys, dvals. rewrite map_length, !rev_length, !map_length. reflexivity. Qed.
Lemma rev_map_tpat (f:pat -> pat) (l:list pat) : rev (map (fun p => TPat (f p)) l) = map TPat (map f (rev l)).
Proof. rewrite map_map, map_rev. reflexivity. Qed.

Section TE.
Variable inS : pat -> bool.
Variable loads : bool.
Variable instopt : bool.
Variable axs : list pat.
Variable T : symtab.
Notation ms := (map_sym T).
Notation mt := (map_term T).
Notation tcalls' := (tcalls inS loads instopt axs).

Lemma plug_calls_exec d : forall ph mem cs m' tbl s tbl' s' bs K C,
  plug_calls inS loads d mem = Some (cs, m') -> s_mem s = mem -> ser_run cs tbl s = Some (tbl', s', bs) ->
  forallb pat_wf (dvals d) = true -> ext T tbl' ->
  runs ph bs (mkst K (map mt mem) C) (mkst (rev (map (fun p => TPat (ms p)) (dvals d)) ++ K) (map mt m') C).
Proof.
  induction d as [|[k p] d IH]; intros ph mem cs m' tbl s tbl' s' bs K C H EM R W X; simpl in H.
  - inversion H; subst. simpl in R. inversion R; subst. apply runs_nil.
  - destruct (pcalls inS loads p mem) as [[c1 m1]|] eqn:E1; [|discriminate].
    destruct (plug_calls inS loads d m1) as [[c2 m2]|] eqn:E2; [|discriminate]. inversion H; subst cs m'; clear H.
    apply ser_run_app_inv in R as (t1 & s1 & b1 & b2 & R1 & R2 & ->).
    pose proof (pcalls_ser_mem _ _ _ _ _ _ _ _ _ _ _ E1 EM R1) as S1.
    simpl in W. apply andb_true_iff in W as [W1 W2].
    eapply runs_app.
    + eapply (pcalls_exec inS loads T p ph mem); try eassumption.
      eapply ext_trans; [exact X | eapply ser_run_ext; exact R2].
    + simpl. rewrite <- app_assoc. simpl.
      eapply (IH ph m1); try eassumption. subst s1; reflexivity.
Qed.

Lemma ms_prop1 : ms py_prop1 = py_prop1. Proof. reflexivity. Qed.
Lemma ms_prop2 : ms py_prop2 = py_prop2. Proof. reflexivity. Qed.
Lemma ms_prop3 : ms py_prop3 = py_prop3. Proof. reflexivity. Qed.
Lemma ms_quant : ms py_quant = py_quant. Proof. reflexivity. Qed.

Lemma tcalls_ser_state t mem cs c m' tbl s t1 s1 b1 :
  dynamic t = true -> mem_shape_ok mem -> loads_ok t mem = true ->
  tcalls' t mem = Some (cs, c, m') -> s_mem s = mem -> ser_run cs tbl s = Some (t1, s1, b1) ->
  s1 = mksst (TProved c :: s_stack s) m' (s_claims s) (s_phase s).
Proof.
  intros Hd Hm Hl H E R. subst mem. apply ser_run_st in R.
  rewrite (tcalls_st inS loads instopt axs t s cs c m' (dynamic_no_plug_inst t Hd) Hm Hl H) in R. congruence.
Qed.

Lemma tcalls_exec t : forall ph mem cs c m' tbl s tbl' s' bs K C,
  dynamic t = true -> wf_for_checker axs t = true -> mem_shape_ok mem -> loads_ok t mem = true ->
  tcalls' t mem = Some (cs, c, m') -> s_mem s = mem -> ser_run cs tbl s = Some (tbl', s', bs) -> ext T tbl' ->
  runs ph bs (mkst K (map mt mem) C) (mkst (TProved (ms c) :: K) (map mt m') C).
Proof.
  induction t as [| | | |a IHa b IHb|a IHa x|a IHa d|a IHa d|p];
    intros ph mem cs c m' tbl s tbl' s' bs K C Hd W Hm Hl H EM R X;
    pose proof H as H0; apply tcalls_inv in H as [HS HB]; simpl in HB, Hd, Hl, W.
  - inversion HB; subst. apply ser_run_one in R as [_ R]. simpl in R. inversion R; subst. apply run_prop1.
  - inversion HB; subst. apply ser_run_one in R as [_ R]. simpl in R. inversion R; subst. apply run_prop2.
  - inversion HB; subst. apply ser_run_one in R as [_ R]. simpl in R. inversion R; subst. apply run_prop3.
  - inversion HB; subst. apply ser_run_one in R as [_ R]. simpl in R. inversion R; subst. apply run_quant.
  - (* MP *)
    apply andb_true_iff in Hd as [Hd1 Hd2]. apply andb_true_iff in Hl as [Hl1 Hl2]. apply andb_true_iff in W as [W1 W2].
    destruct (tcalls' a mem) as [[[ca pa] m1]|] eqn:E1; [|discriminate].
    destruct (tcalls_sound _ _ _ _ a _ _ _ _ Hm E1) as (_ & M1 & (x1 & X1)).
    destruct (tcalls' b m1) as [[[cb pb] m2]|] eqn:E2; [|discriminate].
    destruct pa as [| | |l r| | | | | |]; try discriminate.
    destruct (pat_eqb l pb) eqn:EQ; [|discriminate]. apply pat_eqb_eq in EQ. subst pb.
    inversion HB; subst cs c m'; clear HB.
    apply ser_run_app_inv in R as (t1 & s1 & b1 & b' & R1 & R & ->).
    apply ser_run_app_inv in R as (t2 & s2 & b2 & b3 & R2 & R3 & ->).
    pose proof (tcalls_ser_state _ _ _ _ _ _ _ _ _ _ Hd1 Hm Hl1 E1 EM R1) as S1.
    apply ser_run_one in R3 as [_ R3]. simpl in R3. inversion R3; subst tbl' b3; clear R3.
    eapply runs_app; [eapply (IHa ph mem); try eassumption; eapply ext_trans; [exact X | eapply ser_run_ext; exact R2]|].
    eapply runs_app.
    + eapply (IHb ph m1); try eassumption; [subst m1; apply loads_ok_app; exact Hl2 | subst s1; reflexivity].
    + simpl. apply run_mp.
  - (* Gen *)
    destruct (tcalls' a mem) as [[[ca pa] m1]|] eqn:E1; [|discriminate].
    destruct pa as [| | |l r| | | | | |]; try discriminate.
    destruct (e_fresh r x) eqn:EF; [|discriminate]. inversion HB; subst cs c m'; clear HB.
    apply ser_run_app_inv in R as (t1 & s1 & b1 & b3 & R1 & R3 & ->).
    apply ser_run_one in R3 as [_ R3]. simpl in R3. inversion R3; subst tbl' b3; clear R3.
    eapply runs_app; [eapply (IHa ph mem); eassumption|].
    simpl. apply run_gen. rewrite ms_e_fresh. exact EF.
  - (* DynInst *)
    apply andb_true_iff in W as [W1 W2].
    destruct d as [|kp d].
    + eapply IHa; eassumption.
    + apply andb_true_iff in W2 as [W2 W3].
      destruct (plug_calls inS loads (kp :: d) mem) as [[cp m1]|] eqn:EP; [|discriminate].
      pose proof (plug_calls_shape _ _ _ _ _ _ Hm EP) as SP.
      assert (MX : mem_shape_ok m1 /\ exists e, m1 = mem ++ e)
        by (destruct (plug_calls_ok inS loads (kp :: d) mem Hm SP) as (a' & b' & E' & M & Y); rewrite EP in E'; inversion E'; subst; auto).
      destruct MX as (M1 & (x1 & X1)).
      destruct (tcalls' a m1) as [[[ca pa] m2]|] eqn:E1; [|discriminate]. inversion HB; subst cs c m'; clear HB.
      apply ser_run_app_inv in R as (t1 & s1 & b1 & b' & R1 & R & ->).
      apply ser_run_app_inv in R as (t2 & s2 & b2 & b3 & R2 & R3 & ->).
      assert (S1 : s_mem s1 = m1).
      { subst mem. apply ser_run_st in R1. rewrite (plug_calls_st inS loads _ s _ _ EP) in R1. inversion R1. reflexivity. }
      apply ser_run_one in R3 as [_ R3]. simpl in R3. inversion R3; subst tbl' b3; clear R3.
      destruct (tcalls_inv _ _ _ _ _ _ _ _ _ E1) as [HSa _]. rewrite HSa in W3.
      unfold inst_agree in W3.
      destruct (inst G pa (rev (dkeys (kp :: d))) (rev (dvals (kp :: d)))) as [r|] eqn:EI; [|discriminate].
      apply pat_eqb_eq in W3. subst r.
      eapply runs_app; [eapply (plug_calls_exec (kp :: d) ph mem); try eassumption;
                        eapply ext_trans; [exact X | eapply ser_run_ext; exact R2]|].
      eapply runs_app.
      * eapply (IHa ph m1); try eassumption. subst m1; apply loads_ok_app; exact Hl.
      * change (rev (dkeys d) ++ [fst kp]) with (rev (dkeys (kp :: d))).
        rewrite (nlen_rev_keys (kp :: d)), (rev_map_tpat ms (dvals (kp :: d))).
        apply run_inst; [apply len_plugs_ids | rewrite ms_inst, EI; reflexivity].
  - discriminate.
  - (* LoadAxiom *)
    inversion HB; subst cs c m'; clear HB. apply ser_run_one in R as [R1 R2].
    rewrite (st_step_mem _ _ _ R1) in R2. simpl in R2. rewrite EM in R2.
    destruct (tindex (TProved p) mem) as [i|] eqn:EI; [|discriminate]. inversion R2; subst.
    apply (run_load ph K _ C i (mt (TProved p))). apply tindex_nth. exact EI.
Qed.

End TE.

(** * C02, part 1: stack-compiler correctness for one proof term *)
Theorem compile_correct ls axs t tbl s tbl' s' bs c :
  dynamic t = true -> wf_for_checker axs t = true ->
  mem_shape_ok (s_mem s) -> loads_ok t (s_mem s) = true ->
  compile ls axs t tbl s = Some (tbl', s', bs, c) ->
  static_conc axs t = Some c /\
  forall T, ext T tbl' -> forall ph K C,
    exec G ph bs (mkst K (map (map_term T) (s_mem s)) C)
    = Some (mkst (TProved (map_sym T c) :: K) (map (map_term T) (s_mem s')) C).
Proof.
  intros Hd W Hm Hl H. unfold compile, stack_calls in H.
  destruct (tcalls (cfg_inS ls) (cfg_loads BSerializing ls) (cfg_instopt ls) axs t (s_mem s)) as [[[cs c0] m']|] eqn:E; [|discriminate].
  destruct (ser_run cs tbl s) as [[[t1 s1] b1]|] eqn:R; [|discriminate]. inversion H; subst; clear H.
  split; [apply (tcalls_inv _ _ _ _ _ _ _ _ _ E)|].
  intros T X ph K C. apply runs_exec.
  pose proof (tcalls_ser_state _ _ _ _ _ _ _ _ _ _ _ _ _ _ Hd Hm Hl E eq_refl R) as S1.
  replace (s_mem s') with m' by (subst s'; reflexivity).
  eapply tcalls_exec; try eassumption. reflexivity.
Qed.

(** * C02, part 2: whole modules *)
Lemma run_pub_gamma K M C p : runs Gamma [30] (mkst (TPat p :: K) M C) (mkst K (M ++ [TProved p]) C).
Proof. one_step. Qed.
Lemma run_pub_claim K M C p : runs Claim [30] (mkst (TPat p :: K) M C) (mkst K M (p :: C)).
Proof. one_step. Qed.
Lemma run_pub_proof K M C p : runs Proof [30] (mkst (TProved p :: K) M (p :: C)) (mkst K M C).
Proof. intros rest. simpl app. rewrite exec_cons. unfold step. simpl. rewrite pat_eqb_refl. reflexivity. Qed.

Lemma loads_in_axioms_ok t axs mem : (forall a, In a axs -> In (TProved a) mem) ->
  loads_in_axioms t axs = true -> loads_ok t mem = true.
Proof.
  intros HA. induction t as [| | | |a IHa b IHb|a IHa x|a IHa d|a IHa d|p]; simpl; intros H; auto.
  - apply andb_true_iff in H as [H1 H2]. rewrite IHa, IHb; auto.
  - apply tmem_In. apply HA. apply pmem_In. exact H.
Qed.

Local Opaque term_eqb.

Section ME.
Variable inS : pat -> bool.
Variable loads : bool.
Variable T : symtab.
Notation ms := (map_sym T).
Notation mt := (map_term T).

Lemma mem_shape_ok_proved mem a : mem_shape_ok mem -> mem_shape_ok (mem ++ [TProved a]).
Proof. intros H q Hq. apply in_app_or in Hq as [Hq|[Hq|[]]]; [apply H; exact Hq | discriminate]. Qed.

Lemma pcalls_mem_ok p mem cs m' : mem_shape_ok mem -> pcalls inS loads p mem = Some (cs, m') ->
  mem_shape_ok m' /\ exists e, m' = mem ++ e.
Proof.
  intros Hm H. pose proof (pcalls_shape inS loads p mem cs m' Hm H) as S.
  destruct (pcalls_ok inS loads p mem Hm S) as (a & b & E & M & X). rewrite H in E. inversion E; subst. auto.
Qed.

Lemma gamma_exec axs : forall mem cs m' tbl s tbl' s' bs K C,
  gamma_calls inS loads axs mem = Some (cs, m') -> s_mem s = mem -> s_phase s = Gamma ->
  ser_run cs tbl s = Some (tbl', s', bs) -> forallb pat_wf axs = true -> mem_shape_ok mem -> ext T tbl' ->
  runs Gamma bs (mkst K (map mt mem) C) (mkst K (map mt m') C)
  /\ s_mem s' = m' /\ s_claims s' = s_claims s /\ mem_shape_ok m'
  /\ (forall a, In a axs \/ In (TProved a) mem -> In (TProved a) m').
Proof.
  induction axs as [|a axs IH]; intros mem cs m' tbl s tbl' s' bs K C H EM EP R W Hm X; simpl in H.
  - inversion H; subst. simpl in R. inversion R; subst. split; [apply runs_nil|].
    repeat split; auto. intros a [[]|Ha]; exact Ha.
  - destruct (pcalls inS loads a mem) as [[c1 m1]|] eqn:E1; [|discriminate].
    destruct (gamma_calls inS loads axs (m1 ++ [TProved a])) as [[c2 m2]|] eqn:E2; [|discriminate].
    inversion H; subst cs m'; clear H.
    apply ser_run_app_inv in R as (t1 & s1 & b1 & b' & R1 & R & ->).
    change (CPubAxiom a :: c2) with ([CPubAxiom a] ++ c2) in R.
    apply ser_run_app_inv in R as (t2 & s2 & b2 & b3 & R2 & R3 & ->).
    pose proof (pcalls_ser_mem _ _ _ _ _ _ _ _ _ _ _ E1 EM R1) as S1.
    destruct (pcalls_mem_ok _ _ _ _ Hm E1) as (M1 & (e1 & X1)).
    apply ser_run_one in R2 as [R2s R2e]. simpl in R2e. inversion R2e; subst t2 b2; clear R2e.
    assert (S2 : s2 = mksst (TPat a :: s_stack s) (m1 ++ [TProved a]) (s_claims s) Gamma).
    { subst s1. simpl in R2s. rewrite EP in R2s. rewrite term_eqb_refl in R2s. inversion R2s. reflexivity. }
    simpl in W. apply andb_true_iff in W as [W1 W2].
    destruct (IH (m1 ++ [TProved a]) c2 m2 t1 s2 tbl' s' b3 K C E2) as (Q1 & Q2 & Q3 & Q4 & Q5);
      try assumption; try (subst s2; reflexivity); [apply mem_shape_ok_proved; exact M1|].
    split.
    + eapply runs_app; [eapply (pcalls_exec inS loads T a Gamma mem); try eassumption;
                        eapply ext_trans; [exact X | eapply ser_run_ext; exact R3]|].
      eapply runs_app; [apply run_pub_gamma|].
      replace (map mt m1 ++ [TProved (ms a)]) with (map mt (m1 ++ [TProved a])) by (rewrite map_app; reflexivity).
      exact Q1.
    + split; [exact Q2|]. split; [rewrite Q3; subst s2; reflexivity|]. split; [exact Q4|].
      intros a0 [[->|Ha]|Ha]; apply Q5.
      * right. apply in_or_app. right. left. reflexivity.
      * left. exact Ha.
      * right. subst m1. apply in_or_app. left. apply in_or_app. left. exact Ha.
Qed.

Lemma claim_exec cls : forall mem cs m' tbl s tbl' s' bs K C,
  claim_calls inS loads cls mem = Some (cs, m') -> s_mem s = mem -> s_phase s = Claim ->
  ser_run cs tbl s = Some (tbl', s', bs) -> forallb pat_wf cls = true -> mem_shape_ok mem -> ext T tbl' ->
  runs Claim bs (mkst K (map mt mem) C) (mkst K (map mt m') (rev (map ms cls) ++ C))
  /\ s_mem s' = m' /\ s_claims s' = s_claims s /\ mem_shape_ok m' /\ (exists e, m' = mem ++ e).
Proof.
  induction cls as [|a cls IH]; intros mem cs m' tbl s tbl' s' bs K C H EM EP R W Hm X; simpl in H.
  - inversion H; subst. simpl in R. inversion R; subst. split; [apply runs_nil|].
    repeat split; auto. exists []. rewrite app_nil_r. reflexivity.
  - destruct (pcalls inS loads a mem) as [[c1 m1]|] eqn:E1; [|discriminate].
    destruct (claim_calls inS loads cls m1) as [[c2 m2]|] eqn:E2; [|discriminate].
    inversion H; subst cs m'; clear H.
    apply ser_run_app_inv in R as (t1 & s1 & b1 & b' & R1 & R & ->).
    change (CPubClaim a :: c2) with ([CPubClaim a] ++ c2) in R.
    apply ser_run_app_inv in R as (t2 & s2 & b2 & b3 & R2 & R3 & ->).
    pose proof (pcalls_ser_mem _ _ _ _ _ _ _ _ _ _ _ E1 EM R1) as S1.
    destruct (pcalls_mem_ok _ _ _ _ Hm E1) as (M1 & (e1 & X1)).
    apply ser_run_one in R2 as [R2s R2e]. simpl in R2e. inversion R2e; subst t2 b2; clear R2e.
    assert (S2 : s2 = s1).
    { subst s1. simpl in R2s. rewrite EP in R2s. rewrite term_eqb_refl in R2s. inversion R2s. rewrite EP. reflexivity. }
    simpl in W. apply andb_true_iff in W as [W1 W2].
    destruct (IH m1 c2 m2 t1 s2 tbl' s' b3 K (ms a :: C) E2) as (Q1 & Q2 & Q3 & Q4 & (e2 & Q5));
      try assumption; try (subst s2 s1; simpl; first [reflexivity | exact EP]).
    split.
    + eapply runs_app; [eapply (pcalls_exec inS loads T a Claim mem); try eassumption;
                        eapply ext_trans; [exact X | eapply ser_run_ext; exact R3]|].
      eapply runs_app; [apply run_pub_claim|].
      simpl. rewrite <- app_assoc. exact Q1.
    + split; [exact Q2|]. split; [rewrite Q3; subst s2 s1; reflexivity|]. split; [exact Q4|].
      exists (e1 ++ e2). rewrite Q5, X1, app_assoc. reflexivity.
Qed.

Variable axs : list pat.


Lemma proof_exec ts : forall mem cs m' tbl s tbl' s' bs K,
  proof_calls inS loads false axs ts mem = Some (cs, m') -> s_mem s = mem -> s_phase s = Proof ->
  ser_run cs tbl s = Some (tbl', s', bs) -> forallb (proof_ok axs) ts = true -> mem_shape_ok mem ->
  (forall a, In a axs -> In (TProved a) mem) -> ext T tbl' ->
  runs Proof bs (mkst K (map mt mem) (map ms (s_claims s))) (mkst K (map mt m') (map ms (s_claims s')))
  /\ s_claims s' = skipn (length ts) (s_claims s).
Proof.
  induction ts as [|t ts IH]; intros mem cs m' tbl s tbl' s' bs K H EM EP R W Hm HA X; simpl in H.
  - inversion H; subst. simpl in R. inversion R; subst. split; [apply runs_nil | reflexivity].
  - destruct (tcalls inS loads false axs t mem) as [[[c1 c] m1]|] eqn:E1; [|discriminate].
    destruct (proof_calls inS loads false axs ts m1) as [[c2 m2]|] eqn:E2; [|discriminate].
    inversion H; subst cs m'; clear H.
    simpl in W. apply andb_true_iff in W as [W1 W2]. unfold proof_ok in W1.
    apply andb_true_iff in W1 as [W1 W1c]. apply andb_true_iff in W1 as [W1a W1b].
    pose proof (loads_in_axioms_ok t axs mem HA W1c) as Hl.
    apply ser_run_app_inv in R as (t1 & s1 & b1 & b' & R1 & R & ->).
    change (CPubProof c :: c2) with ([CPubProof c] ++ c2) in R.
    apply ser_run_app_inv in R as (t2 & s2 & b2 & b3 & R2 & R3 & ->).
    pose proof (tcalls_ser_state _ _ _ _ _ _ _ _ _ _ _ _ _ _ W1a Hm Hl E1 EM R1) as S1.
    destruct (tcalls_sound _ _ _ _ t _ _ _ _ Hm E1) as (_ & M1 & (e1 & X1)).
    apply ser_run_one in R2 as [R2s R2e]. simpl in R2e. inversion R2e; subst t2 b2; clear R2e.
    assert (S2 : exists cls, s_claims s = c :: cls /\ s2 = mksst (TProved c :: s_stack s) m1 cls Proof).
    { subst s1. simpl in R2s. rewrite EP in R2s. destruct (s_claims s) as [|cl cls]; [discriminate|].
      destruct (pat_eqb c cl && term_eqb (TProved c) (TProved c)) eqn:EQ; [|discriminate].
      apply andb_true_iff in EQ as [EQ _]. apply pat_eqb_eq in EQ. subst cl. inversion R2s. eexists; split; reflexivity. }
    destruct S2 as (cls & SC & S2).
    destruct (IH m1 c2 m2 t1 s2 tbl' s' b3 K E2) as (Q1 & Q2); try assumption; try (subst s2; reflexivity).
    { intros a Ha. subst m1. apply in_or_app. left. apply HA. exact Ha. }
    split.
    + eapply runs_app; [eapply (tcalls_exec inS loads false axs T t Proof mem); try eassumption;
                        eapply ext_trans; [exact X | eapply ser_run_ext; exact R3]|].
      rewrite SC. simpl map. eapply runs_app; [apply run_pub_proof|].
      replace cls with (s_claims s2) by (subst s2; reflexivity). exact Q1.
    + rewrite Q2, SC. subst s2. reflexivity.
Qed.

End ME.

Lemma serialize_with_accepted inS loads m g c p :
  module_ok m = true -> serialize_with inS loads m = Some (g, c, p) ->
  exists st, verify G g c p = Some st.
Proof.
  intros OK H. unfold module_ok in OK.
  apply andb_true_iff in OK as [OK O4]. apply andb_true_iff in OK as [OK O3]. apply andb_true_iff in OK as [O1 O2].
  apply Nat.eqb_eq in O4.
  unfold serialize_with in H.
  destruct (gamma_calls inS loads (m_axioms m) []) as [[cg mg]|] eqn:EG; [|discriminate].
  destruct (ser_run cg [] (sinit m)) as [[[t1 s1] bg]|] eqn:RG; [|discriminate].
  destruct (claim_calls inS loads (rev (m_claims m)) mg) as [[cc mc]|] eqn:EC; [|discriminate].
  destruct (ser_run cc t1 (next_phase Claim s1)) as [[[t2 s2] bc]|] eqn:RC; [|discriminate].
  destruct (proof_calls inS loads false (m_axioms m) (m_proofs m) mc) as [[cp mp]|] eqn:EP; [|discriminate].
  destruct (ser_run cp t2 (next_phase Proof s2)) as [[[t3 s3] bp]|] eqn:RP; [|discriminate].
  inversion H; subst g c p; clear H.
  assert (X3 : ext t3 t3) by apply ext_refl.
  assert (X2 : ext t3 t2) by (eapply ser_run_ext; exact RP).
  assert (X1 : ext t3 t1) by (eapply ext_trans; [exact X2 | eapply ser_run_ext; exact RC]).
  destruct (gamma_exec inS loads t3 (m_axioms m) [] cg mg [] (sinit m) t1 s1 bg [] [] EG eq_refl eq_refl RG O1 mem_shape_ok_nil X1)
    as (G1 & G2 & G3 & G4 & G5).
  assert (W2 : forallb pat_wf (rev (m_claims m)) = true).
  { rewrite forallb_forall in *. intros x Hx. apply O2. apply in_rev. exact Hx. }
  destruct (claim_exec inS loads t3 (rev (m_claims m)) mg cc mc t1 (next_phase Claim s1) t2 s2 bc [] []
              EC G2 eq_refl RC W2 G4 X2) as (C1 & C2 & C3 & C4 & (e & C5)).
  destruct (proof_exec inS loads t3 (m_axioms m) (m_proofs m) mc cp mp t2 (next_phase Proof s2) t3 s3 bp []
              EP C2 eq_refl RP O3 C4) as (P1 & P2); [|exact X3|].
  { intros a Ha. rewrite C5. apply in_or_app. left. apply G5. left. exact Ha. }
  unfold verify.
  change st0 with (mkst [] (map (map_term t3) []) []).
  rewrite (runs_exec _ _ _ _ G1). unfold set_stack. cbn [stack memory claims].
  rewrite (runs_exec _ _ _ _ C1). cbn [stack memory claims].
  assert (CL : rev (map (map_sym t3) (rev (m_claims m))) ++ [] = map (map_sym t3) (s_claims (next_phase Proof s2))).
  { rewrite app_nil_r, map_rev, rev_involutive. simpl. rewrite C3. simpl. rewrite G3. reflexivity. }
  rewrite CL. rewrite (runs_exec _ _ _ _ P1). cbn [claims].
  rewrite P2. simpl s_claims. rewrite C3. simpl s_claims. rewrite G3. simpl s_claims.
  rewrite <- O4, skipn_all. simpl. eexists; reflexivity.
Qed.

Theorem module_accepted memo m g c p :
  module_ok m = true -> serialize memo m = Some (g, c, p) -> exists st, verify G g c p = Some st.
Proof.
  intros OK H. destruct memo as [ms|]; simpl in H.
  - destruct (count_module m); [|discriminate]. eapply serialize_with_accepted; eassumption.
  - eapply serialize_with_accepted; eassumption.
Qed.

(** Symbol renumbering: the serialiser writes the index of a symbol's first occurrence; the
    checker's patterns are the generator's patterns with every symbol name replaced by its index in
    the final symbol table.  The checker's judgements and substitutions do not look at symbols. *)
From Coq Require Import NArith PeanoNat List Bool Lia.
From Pi2 Require Import ML.Syntax ML.Subst ML.Machine ML.Facts PTerm.Model.
Import ListNotations.
Open Scope N_scope.

Definition sidx (T:symtab) (n:N) : N := match index_of n T with Some i => i | None => nlen T end.

Fixpoint map_sym (T:symtab) (p:pat) : pat :=
  match p with
  | Sym n => Sym (sidx T n)
  | EVar _ | SVar _ | MVar _ _ _ _ _ _ => p
  | Imp l r => Imp (map_sym T l) (map_sym T r)
  | App l r => App (map_sym T l) (map_sym T r)
  | Ex x q => Ex x (map_sym T q)
  | Mu X q => Mu X (map_sym T q)
  | ESub q x plug => ESub (map_sym T q) x (map_sym T plug)
  | SSub q X plug => SSub (map_sym T q) X (map_sym T plug)
  end.
Definition map_term (T:symtab) (t:term) : term :=
  match t with TPat p => TPat (map_sym T p) | TProved p => TProved (map_sym T p) end.

Lemma index_of_app n l r i : index_of n l = Some i -> index_of n (l ++ r) = Some i.
Proof.
  revert i. induction l as [|x l IH]; simpl; intros i H; [discriminate|].
  destruct (N.eqb n x); [exact H|].
  destruct (index_of n l) as [j|]; [|discriminate]. rewrite (IH j eq_refl). exact H.
Qed.

Lemma index_of_fresh n l : index_of n l = None -> index_of n (l ++ [n]) = Some (nlen l).
Proof.
  induction l as [|x l IH]; simpl; intros H.
  - rewrite N.eqb_refl. reflexivity.
  - destruct (N.eqb n x); [discriminate|].
    destruct (index_of n l); [discriminate|]. rewrite (IH eq_refl). simpl. unfold nlen. simpl length.
    rewrite Nat2N.inj_succ. reflexivity.
Qed.

Section MS.
Variable T : symtab.
Notation ms := (map_sym T).

Lemma ms_e_fresh p x : e_fresh (ms p) x = e_fresh p x.
Proof. induction p; simpl; rewrite ?IHp, ?IHp1, ?IHp2; reflexivity. Qed.
Lemma ms_s_fresh p V : s_fresh (ms p) V = s_fresh p V.
Proof. induction p; simpl; rewrite ?IHp, ?IHp1, ?IHp2; reflexivity. Qed.
Lemma ms_polar p : forall b V, polar b (ms p) V = polar b p V.
Proof.
  induction p; intros b V; simpl; rewrite ?IHp, ?IHp1, ?IHp2, ?ms_s_fresh; reflexivity.
Qed.
Lemma ms_is_meta_head p : is_meta_head (ms p) = is_meta_head p.
Proof. destruct p; reflexivity. Qed.
Lemma ms_eq_evar x p : pat_eqb (EVar x) (ms p) = pat_eqb (EVar x) p.
Proof. destruct p; reflexivity. Qed.
Lemma ms_eq_svar x p : pat_eqb (SVar x) (ms p) = pat_eqb (SVar x) p.
Proof. destruct p; reflexivity. Qed.
Lemma ms_touches p vars : touches (ms p) vars = touches p vars.
Proof. induction p; simpl; rewrite ?IHp, ?IHp1, ?IHp2; reflexivity. Qed.

Lemma ms_redundant_e q x plug :
  is_redundant_subst (ESub (ms q) x (ms plug)) = is_redundant_subst (ESub q x plug).
Proof. unfold is_redundant_subst. rewrite ms_eq_evar, ms_e_fresh. reflexivity. Qed.
Lemma ms_redundant_s q x plug :
  is_redundant_subst (SSub (ms q) x (ms plug)) = is_redundant_subst (SSub q x plug).
Proof. unfold is_redundant_subst. rewrite ms_eq_svar, ms_s_fresh. reflexivity. Qed.

Variable g : guards.

Lemma ms_apply_esubst p x plug :
  apply_esubst g (ms p) x (ms plug) = option_map ms (apply_esubst g p x plug).
Proof.
  induction p as [n|n|n|l IHl r IHr|l IHl r IHr|y q IHq|Y q IHq|id ef sf pos neg holes|q IHq y pl IHpl|q IHq Y pl IHpl];
    simpl; try reflexivity.
  - destruct (N.eqb n x); reflexivity.
  - rewrite IHl, IHr. destruct (apply_esubst g l x plug), (apply_esubst g r x plug); reflexivity.
  - rewrite IHl, IHr. destruct (apply_esubst g l x plug), (apply_esubst g r x plug); reflexivity.
  - destruct (N.eqb y x); [reflexivity|]. rewrite ms_e_fresh, IHq.
    destruct (chk _ _); [|reflexivity]. destruct (apply_esubst g q x plug); reflexivity.
  - rewrite ms_s_fresh, IHq. destruct (chk _ _); [|reflexivity]. destruct (apply_esubst g q x plug); reflexivity.
Qed.

Lemma ms_apply_ssubst p X plug :
  apply_ssubst g (ms p) X (ms plug) = option_map ms (apply_ssubst g p X plug).
Proof.
  induction p as [n|n|n|l IHl r IHr|l IHl r IHr|y q IHq|Y q IHq|id ef sf pos neg holes|q IHq y pl IHpl|q IHq Y pl IHpl];
    simpl; try reflexivity.
  - destruct (N.eqb n X); reflexivity.
  - rewrite IHl, IHr. destruct (apply_ssubst g l X plug), (apply_ssubst g r X plug); reflexivity.
  - rewrite IHl, IHr. destruct (apply_ssubst g l X plug), (apply_ssubst g r X plug); reflexivity.
  - rewrite ms_e_fresh, IHq. destruct (chk _ _); [|reflexivity]. destruct (apply_ssubst g q X plug); reflexivity.
  - destruct (N.eqb Y X); [reflexivity|]. rewrite ms_s_fresh, IHq.
    destruct (chk _ _); [|reflexivity]. destruct (apply_ssubst g q X plug); reflexivity.
Qed.

Lemma ms_lookup id vars : forall plugs,
  lookup id vars (map ms plugs) = option_map (option_map ms) (lookup id vars plugs).
Proof.
  induction vars as [|v vs IH]; intros plugs; simpl; [reflexivity|].
  destruct (N.eqb v id).
  - destruct plugs; reflexivity.
  - destruct plugs as [|p ps]; simpl; [apply (IH [])| apply IH].
Qed.

Lemma forallb_ext' {A} (f h:A -> bool) l : (forall a, f a = h a) -> forallb f l = forallb h l.
Proof. intros E. induction l as [|a l IH]; simpl; [reflexivity|]. rewrite E, IH. reflexivity. Qed.

Lemma ms_check_constraints ef sf pos neg plug :
  check_constraints ef sf pos neg (ms plug) = check_constraints ef sf pos neg plug.
Proof.
  unfold check_constraints, pat_positive, pat_negative.
  f_equal; [f_equal; [f_equal|]|]; apply forallb_ext'; intros a;
    [apply ms_e_fresh | apply ms_s_fresh | apply ms_polar | apply ms_polar].
Qed.

Lemma ms_inst p vars plugs :
  inst g (ms p) vars (map ms plugs) = option_map ms (inst g p vars plugs).
Proof.
  induction p as [n|n|n|l IHl r IHr|l IHl r IHr|y q IHq|Y q IHq|id ef sf pos neg holes|q IHq y pl IHpl|q IHq Y pl IHpl];
    simpl; try reflexivity.
  - rewrite IHl, IHr. destruct (inst g l vars plugs), (inst g r vars plugs); reflexivity.
  - rewrite IHl, IHr. destruct (inst g l vars plugs), (inst g r vars plugs); reflexivity.
  - rewrite IHq. destruct (inst g q vars plugs); reflexivity.
  - rewrite IHq. destruct (inst g q vars plugs); reflexivity.
  - rewrite ms_lookup. destruct (lookup id vars plugs) as [[plug|]|]; simpl; try reflexivity.
    rewrite ms_check_constraints. destruct (chk _ _); reflexivity.
  - rewrite !ms_touches. destruct (touches q vars || touches pl vars); [|reflexivity].
    rewrite IHq, IHpl. destruct (inst g q vars plugs) as [a|]; [|reflexivity].
    destruct (inst g pl vars plugs) as [b|]; [|reflexivity]. simpl. apply ms_apply_esubst.
  - rewrite !ms_touches. destruct (touches q vars || touches pl vars); [|reflexivity].
    rewrite IHq, IHpl. destruct (inst g q vars plugs) as [a|]; [|reflexivity].
    destruct (inst g pl vars plugs) as [b|]; [|reflexivity]. simpl. apply ms_apply_ssubst.
Qed.

End MS.

(** The statement-level translation of the Python proof DSL and interpreter stack (Gen/PyProofDSL.v,
    regenerated from /repo on every run) IS the hand-written model of PTerm/Model.v:
      - the translated [BasicInterpreter] computes the model's conclusions;
      - ANY stack of the translated transformer classes over the innermost interpreter sends to it,
        for [Interpreter.pattern], exactly [pcalls (cfg_inS ls) (cfg_loads b ls)], and for a thunk built by
        the translated DSL exactly [tcalls (cfg_inS ls) (cfg_loads b ls) (cfg_instopt ls)]: the three
        stacking facts the model assumes (only the outermost [pattern] override acts; a memoiser reads
        memory only directly above a stateful interpreter; an instantiation optimiser anywhere drops
        empty instantiations) are PROVED here of the translated classes;
      - the translated phases send [gamma_calls] / [claim_calls] / [proof_calls]. *)
From Coq Require Import NArith PeanoNat List Bool Lia.
From Pi2 Require Import ML.Syntax ML.Subst ML.Machine ML.Facts PTerm.Model PTerm.Facts PTerm.PyRt Gen.PyProofDSL.
Import ListNotations.
Open Scope N_scope.

(** * BasicInterpreter *)
Lemma gen_basic_axioms : gen_basic_prop1 = py_prop1 /\ gen_basic_prop2 = py_prop2 /\ gen_basic_prop3 = py_prop3
  /\ gen_basic_exists_quantifier = py_quant.
Proof. repeat split; reflexivity. Qed.

Lemma gen_basic_modus_ponens_eq l r :
  gen_basic_modus_ponens l r = match l with Imp a q => if pat_eqb a r then Some q else None | _ => None end.
Proof. reflexivity. Qed.

Lemma gen_basic_exists_generalization_eq c x :
  gen_basic_exists_generalization c x = match c with Imp l r => if e_fresh r x then Some (Imp (Ex x l) r) else None | _ => None end.
Proof. reflexivity. Qed.

Lemma gen_basic_instantiate_eq c d : gen_basic_instantiate c d = Some (basic_inst c d).
Proof. destruct d; reflexivity. Qed.

(** * Stacks of the translated classes *)
Notation B0 := (base_ops gen_basic).

Fixpoint stack_obj (b:base) (ls:list layer) : obj :=
  match ls with
  | [] => gen_base (stateful_base b)
  | LMemo ms :: r => gen_MemoizingInterpreter (fun p => pmem p ms) (stack_obj b r)
  | LInstOpt :: r => gen_InstantiationOptimizer (stack_obj b r)
  end.

(** every layer's abstract methods are the innermost interpreter's, except [instantiate] *)
Definition with_inst (fi:pat -> delta -> M pat) : ops := mkops
  (o_evar B0) (o_svar B0) (o_symbol B0) (o_metavar B0) (o_implies B0) (o_app B0) (o_exists B0) (o_esubst B0) (o_ssubst B0)
  (o_mu B0) (o_prop1 B0) (o_prop2 B0) (o_prop3 B0) (o_modus_ponens B0) (o_exists_quantifier B0) (o_exists_generalization B0)
  fi (o_pop B0) (o_save B0) (o_load B0) (o_publish_proof B0) (o_publish_axiom B0) (o_publish_claim B0).

Definition inst_spec (io:bool) (fi:pat -> delta -> M pat) : Prop :=
  forall c d mem ph, fi c d (mkrst mem ph)
    = Some (basic_inst c d, (if io && is_nil d then [] else [CInst c d]), mkrst mem ph).

Lemma stack_ops b ls : exists fi, o_ops (stack_obj b ls) = with_inst fi /\ inst_spec (cfg_instopt ls) fi.
Proof.
  induction ls as [|[ms|] ls IH].
  - exists (o_instantiate B0). split; [reflexivity|]. intros c d mem ph. destruct d; reflexivity.
  - destruct IH as (fi & E & H). exists fi. split; [|exact H].
    cbn [stack_obj gen_MemoizingInterpreter o_ops]. rewrite E. reflexivity.
  - destruct IH as (fi & E & H). exists (gen_instopt_instantiate (with_inst fi)). split.
    + cbn [stack_obj gen_InstantiationOptimizer o_ops]. rewrite E. reflexivity.
    + intros c d mem ph. unfold gen_instopt_instantiate. cbn [o_instantiate with_inst].
      unfold bind, lift_opt. rewrite gen_basic_instantiate_eq. cbn [ret].
      destruct d as [|kv d].
      * reflexivity.
      * cbn [is_nil negb]. rewrite H. cbn [is_nil]. rewrite andb_false_r. reflexivity.
Qed.

Lemma stack_stateful b ls : o_stateful (stack_obj b ls) = match ls with [] => stateful_base b | _ => false end.
Proof. destruct ls as [|[ms|] ls]; reflexivity. Qed.

(** what an override of [Interpreter.pattern] does, in terms of the model's memoisation parameters *)
Definition ovr_spec (inS:pat -> bool) (loads:bool) (ovr:pat -> M pat -> M pat) : Prop :=
  forall p sup mem ph,
    ovr p sup (mkrst mem ph) =
    if loads && tmem (TPat p) mem then Some (p, [CLoad (TPat p)], mkrst mem ph) else
    match sup (mkrst mem ph) with
    | Some (r, cs, s') => if inS p then Some (r, cs ++ [CSave (TPat p)], mkrst (r_mem s' ++ [TPat p]) (r_phase s'))
                          else Some (r, cs, s')
    | None => None
    end.

Lemma no_override_spec fi : ovr_spec (fun _ => false) false (no_override (with_inst fi)).
Proof. intros p sup mem ph. unfold no_override. cbn. destruct (sup _) as [[[r cs] s']|]; reflexivity. Qed.

Lemma memo_override_spec fi st inS : ovr_spec inS st (gen_memo_pattern st inS (with_inst fi)).
Proof.
  (* shape-independent: whichever way the source arranges the load / build / save decisions *)
  intros p sup mem ph. unfold gen_memo_pattern, bind, get_mem. cbn [r_mem]. cbv zeta.
  destruct (st && tmem (TPat p) mem); [reflexivity|].
  destruct (inS p); destruct (sup (mkrst mem ph)) as [[[r cs] [m' ph']]|]; cbn; rewrite ?app_nil_r; reflexivity.
Qed.

Lemma stack_override b ls fi : o_ops (stack_obj b ls) = with_inst fi ->
  ovr_spec (cfg_inS ls) (cfg_loads b ls) (o_override (stack_obj b ls) (o_ops (stack_obj b ls))).
Proof.
  intros E. rewrite E. destruct ls as [|[ms|] ls].
  - apply no_override_spec.
  - cbn [stack_obj gen_MemoizingInterpreter o_override]. rewrite stack_stateful.
    replace (cfg_loads b (LMemo ms :: ls)) with (match ls with [] => stateful_base b | _ => false end) by (destruct ls; reflexivity).
    apply memo_override_spec.
  - apply no_override_spec.
Qed.

(** * Interpreter.pattern through any stack *)
Definition lift_p (p:pat) (ph:phase) (o:option (list call * list term)) : option (pat * list call * rst) :=
  match o with Some (cs, m') => Some (p, cs, mkrst m' ph) | None => None end.

Lemma pattern_agree inS loads ovr fi : ovr_spec inS loads ovr ->
  forall p mem ph, obj_pattern_rec ovr (with_inst fi) p (mkrst mem ph) = lift_p p ph (pcalls inS loads p mem).
Proof.
  intros H. induction p as [n|n|n|l IHl r IHr|l IHl r IHr|y q IHq|Y q IHq|id ef sf pos neg holes|q IHq y plug IHplug|q IHq Y plug IHplug];
    intros mem ph; cbn [obj_pattern_rec pcalls]; rewrite H; destruct (loads && tmem _ mem); try reflexivity.
  1-3,8: cbn; destruct (inS _); reflexivity.
  - unfold bind. rewrite IHl. destruct (pcalls inS loads l mem) as [[c1 m1]|]; [|reflexivity]. cbn [lift_p].
    rewrite IHr. destruct (pcalls inS loads r m1) as [[c2 m2]|]; [|reflexivity]. cbn.
    rewrite ?app_nil_r. destruct (inS _); cbn; rewrite ?app_nil_r, <- ?app_assoc; reflexivity.
  - unfold bind. rewrite IHl. destruct (pcalls inS loads l mem) as [[c1 m1]|]; [|reflexivity]. cbn [lift_p].
    rewrite IHr. destruct (pcalls inS loads r m1) as [[c2 m2]|]; [|reflexivity]. cbn.
    rewrite ?app_nil_r. destruct (inS _); cbn; rewrite ?app_nil_r, <- ?app_assoc; reflexivity.
  - unfold bind. rewrite IHq. destruct (pcalls inS loads q mem) as [[c1 m1]|]; [|reflexivity]. cbn.
    rewrite ?app_nil_r. destruct (inS _); cbn; rewrite ?app_nil_r, <- ?app_assoc; reflexivity.
  - unfold bind. rewrite IHq. destruct (pcalls inS loads q mem) as [[c1 m1]|]; [|reflexivity]. cbn.
    rewrite ?app_nil_r. destruct (inS _); cbn; rewrite ?app_nil_r, <- ?app_assoc; reflexivity.
  - unfold bind. rewrite IHplug. destruct (pcalls inS loads plug mem) as [[c1 m1]|]; [|reflexivity]. cbn [lift_p].
    rewrite IHq. destruct (pcalls inS loads q m1) as [[c2 m2]|]; [|reflexivity]. cbn [lift_p].
    destruct (is_meta_head q); [|reflexivity]. cbn. rewrite ?app_nil_r. destruct (inS _); cbn; rewrite ?app_nil_r, <- ?app_assoc; reflexivity.
  - unfold bind. rewrite IHplug. destruct (pcalls inS loads plug mem) as [[c1 m1]|]; [|reflexivity]. cbn [lift_p].
    rewrite IHq. destruct (pcalls inS loads q m1) as [[c2 m2]|]; [|reflexivity]. cbn [lift_p].
    destruct (is_meta_head q); [|reflexivity]. cbn. rewrite ?app_nil_r. destruct (inS _); cbn; rewrite ?app_nil_r, <- ?app_assoc; reflexivity.
Qed.

Theorem stack_pattern_agree b ls p mem ph :
  obj_pattern (stack_obj b ls) p (mkrst mem ph) = lift_p p ph (pcalls (cfg_inS ls) (cfg_loads b ls) p mem).
Proof.
  destruct (stack_ops b ls) as (fi & E & _). unfold obj_pattern.
  pose proof (stack_override b ls fi E) as H. rewrite E in *. apply pattern_agree. exact H.
Qed.

(** * Thunks built by the translated DSL, run through any stack *)
Fixpoint build (axs:list pat) (t:pterm) : option thunk :=
  match t with
  | PProp1 => gen_dsl_prop1
  | PProp2 => gen_dsl_prop2
  | PProp3 => gen_dsl_prop3
  | PQuant => gen_dsl_exists_quantifier
  | PMP a b => match build axs a, build axs b with
               | Some ta, Some tb => gen_dsl_modus_ponens ta tb
               | _, _ => None end
  | PGen a x => match build axs a with Some ta => gen_dsl_exists_generalization ta x | None => None end
  | PDynInst a d => match build axs a with Some ta => gen_dsl_dynamic_inst ta d | None => None end
  | PInst a d => match build axs a with Some ta => gen_dsl_instantiate ta d | None => None end
  | PLoadAxiom p => gen_dsl_load_axiom axs p
  end.

(** the conclusion a thunk advertises is [static_conc]; the constructor raises exactly when it is [None] *)
Lemma build_static axs t :
  match build axs t with
  | Some th => static_conc axs t = Some (th_conc th)
  | None => static_conc axs t = None
  end.
Proof.
  induction t as [| | | |a IHa b IHb|a IHa x|a IHa d|a IHa d|p]; cbn [build static_conc]; try reflexivity.
  - destruct (build axs a) as [ta|]; rewrite IHa; [|reflexivity].
    destruct (build axs b) as [tb|]; rewrite IHb; [|destruct (th_conc ta); reflexivity].
    unfold gen_dsl_modus_ponens. destruct (th_conc ta); try reflexivity.
    destruct (pat_eqb _ _); reflexivity.
  - destruct (build axs a) as [ta|]; rewrite IHa; [|reflexivity].
    unfold gen_dsl_exists_generalization. destruct (th_conc ta); reflexivity.
  - destruct (build axs a) as [ta|]; rewrite IHa; [|destruct d; reflexivity].
    unfold gen_dsl_dynamic_inst. destruct d; reflexivity.
  - destruct (build axs a) as [ta|]; rewrite IHa; reflexivity.
  - unfold gen_dsl_load_axiom. destruct (pmem p axs); reflexivity.
Qed.

Theorem gen_static_conc_agree axs t : option_map th_conc (build axs t) = static_conc axs t.
Proof. pose proof (build_static axs t) as H. destruct (build axs t); rewrite H; reflexivity. Qed.

Definition lift_t (ph:phase) (o:option (list call * pat * list term)) : option (pat * list call * rst) :=
  match o with Some (cs, c, m') => Some (c, cs, mkrst m' ph) | None => None end.

Section Stack.
Variable b : base.
Variable ls : list layer.
Variable axs : list pat.
Notation I := (stack_obj b ls).
Notation inS := (cfg_inS ls).
Notation loads := (cfg_loads b ls).
Notation io := (cfg_instopt ls).
Notation tcalls' := (tcalls inS loads io axs).

Lemma map_items_agree d : forall mem ph,
  map_itemsM (fun _ p => obj_pattern I p) d (mkrst mem ph)
  = match plug_calls inS loads d mem with Some (cs, m') => Some (d, cs, mkrst m' ph) | None => None end.
Proof.
  induction d as [|[k p] d IH]; intros mem ph; cbn [map_itemsM plug_calls]; [reflexivity|].
  unfold bind. rewrite stack_pattern_agree. destruct (pcalls inS loads p mem) as [[c1 m1]|]; [|reflexivity]. cbn [lift_p].
  rewrite IH. destruct (plug_calls inS loads d m1) as [[c2 m2]|]; [|reflexivity]. cbn. rewrite app_nil_r. reflexivity.
Qed.

Lemma tcalls_result t mem cs c m' : tcalls' t mem = Some (cs, c, m') -> static_conc axs t = Some c.
Proof. intros H. apply tcalls_inv in H. tauto. Qed.

Ltac norm_lists := cbn -[pat_eqb]; rewrite ?app_nil_r, <- ?app_assoc; cbn -[pat_eqb].

Theorem thunk_agree t : forall th, build axs t = Some th -> forall mem ph,
  gen_thunk_call th I (mkrst mem ph) = lift_t ph (tcalls' t mem).
Proof.
  destruct (stack_ops b ls) as (fi & EO & Hfi).
  induction t as [| | | |a IHa c IHc|a IHa x|a IHa d|a IHa d|p]; intros th Hb mem ph;
    match type of Hb with build axs ?t0 = _ => pose proof (build_static axs t0) as HS end; rewrite Hb in HS; cbn [build] in Hb;
    rewrite tcalls_unfold, HS; unfold gen_thunk_call.
  1-4: inversion Hb; subst th; cbn [th_expr th_conc tbody]; rewrite EO; cbn; reflexivity.
  - (* modus_ponens *)
    destruct (build axs a) as [ta|] eqn:Ba; [|discriminate]. destruct (build axs c) as [tc|] eqn:Bc; [|discriminate].
    unfold gen_dsl_modus_ponens in Hb. destruct (th_conc ta) as [| | |p q| | | | | |] eqn:Ca; try discriminate.
    destruct (pat_eqb p (th_conc tc)); [|discriminate]. inversion Hb; subst th; clear Hb.
    cbn [th_expr th_conc tbody]. unfold bind at 1 2. rewrite (IHa ta eq_refl).
    destruct (tcalls' a mem) as [[[ca pa] m1]|]; [|reflexivity]. cbn [lift_t]. unfold bind at 1.
    rewrite (IHc tc eq_refl). destruct (tcalls' c m1) as [[[cb pb] m2]|]; [|reflexivity]. cbn [lift_t].
    rewrite EO. cbn [o_modus_ponens with_inst base_ops gen_basic b_modus_ponens]. unfold emit_opt, bind, lift_opt.
    rewrite gen_basic_modus_ponens_eq. destruct pa as [| | |l r| | | | | |]; try reflexivity.
    destruct (pat_eqb l pb); [|reflexivity]. norm_lists. destruct (pat_eqb r q); norm_lists; reflexivity.
  - (* exists_generalization *)
    destruct (build axs a) as [ta|] eqn:Ba; [|discriminate].
    unfold gen_dsl_exists_generalization in Hb. destruct (th_conc ta) as [| | |l0 r0| | | | | |] eqn:Ca; try discriminate.
    inversion Hb; subst th; clear Hb.
    cbn [th_expr th_conc tbody]. unfold bind at 1 2. rewrite (IHa ta eq_refl).
    destruct (tcalls' a mem) as [[[ca pa] m1]|]; [|reflexivity]. cbn [lift_t].
    rewrite EO. cbn [o_exists_generalization with_inst base_ops gen_basic b_exists_generalization]. unfold emit_opt, bind, lift_opt.
    rewrite gen_basic_exists_generalization_eq. destruct pa as [| | |l r| | | | | |]; try reflexivity.
    destruct (e_fresh r x); [|reflexivity]. norm_lists. destruct (pat_eqb _ _); norm_lists; reflexivity.
  - (* dynamic_inst *)
    destruct (build axs a) as [ta|] eqn:Ba; [|discriminate].
    unfold gen_dsl_dynamic_inst in Hb. destruct d as [|kv d].
    + cbn [is_nil] in Hb. inversion Hb; subst th; clear Hb. cbn [tbody].
      fold (gen_thunk_call ta I). rewrite (IHa ta eq_refl).
      destruct (tcalls' a mem) as [[[ca pa] m1]|] eqn:Ea; [|reflexivity].
      pose proof (tcalls_result _ _ _ _ _ Ea) as R. cbn [static_conc] in HS. rewrite HS in R. inversion R; subst pa. rewrite pat_eqb_refl. reflexivity.
    + cbn [is_nil] in Hb. remember (kv :: d) as d0 eqn:Ed.
      assert (N0 : is_nil d0 = false) by (subst d0; reflexivity).
      assert (TB : tbody inS loads io axs (PDynInst a d0) mem =
                   match plug_calls inS loads d0 mem with
                   | Some (cp, m1) => match tcalls' a m1 with
                                      | Some (ca, pa, m2) => Some (cp ++ ca ++ [CInst pa d0], py_inst d0 pa, m2)
                                      | None => None end
                   | None => None end) by (subst d0; reflexivity).
      inversion Hb; subst th; clear Hb. rewrite TB.
      cbn [th_expr th_conc]. unfold bind at 1 2. rewrite map_items_agree.
      destruct (plug_calls inS loads d0 mem) as [[cp m1]|]; [|reflexivity]. unfold bind at 1.
      rewrite (IHa ta eq_refl). destruct (tcalls' a m1) as [[[ca pa] m2]|]; [|reflexivity]. cbn [lift_t].
      rewrite EO. cbn [o_instantiate with_inst]. rewrite Hfi. rewrite N0, andb_false_r.
      norm_lists. unfold basic_inst. destruct (pat_eqb _ _); norm_lists; reflexivity.
  - (* static instantiate *)
    destruct (build axs a) as [ta|] eqn:Ba; [|discriminate].
    unfold gen_dsl_instantiate in Hb. inversion Hb; subst th; clear Hb.
    cbn [th_expr th_conc tbody]. unfold bind at 1 2. rewrite (IHa ta eq_refl).
    destruct (tcalls' a mem) as [[[ca pa] m1]|]; [|reflexivity]. cbn [lift_t].
    rewrite EO. cbn [o_instantiate with_inst]. rewrite Hfi. unfold basic_inst.
    destruct (io && is_nil d); norm_lists; destruct (pat_eqb _ _); norm_lists; reflexivity.
  - (* load_axiom *)
    unfold gen_dsl_load_axiom in Hb. destruct (pmem p axs); [|discriminate]. inversion Hb; subst th; clear Hb.
    cbn [th_expr th_conc tbody]. rewrite EO. cbn. rewrite pat_eqb_refl. reflexivity.
Qed.

(** the calls a thunk sends through the stack, as a function of the proof term: the translated counterpart of [stack_calls] *)
Definition gen_stack_calls (t:pterm) (mem:list term) : option (list call * pat * list term) :=
  match build axs t with
  | Some th => match gen_thunk_call th I (mkrst mem Proof) with
               | Some (c, cs, s') => Some (cs, c, r_mem s')
               | None => None end
  | None => None
  end.

Theorem gen_stack_calls_agree t mem : gen_stack_calls t mem = stack_calls b ls axs t mem.
Proof.
  unfold gen_stack_calls, stack_calls. pose proof (build_static axs t) as HS.
  destruct (build axs t) as [th|] eqn:Bt.
  - rewrite (thunk_agree t th Bt). destruct (tcalls' t mem) as [[[cs c] m']|]; reflexivity.
  - rewrite tcalls_unfold, HS. reflexivity.
Qed.
End Stack.

(** shape-independent stepping through a computation applied to a state: expose one [bind], compute what is closed *)
Lemma bind_run {A B} (m:M A) (f:A -> M B) s :
  bind m f s = match m s with
               | Some (a, c1, s1) => match f a s1 with
                                     | Some (b, c2, s2) => Some (b, c1 ++ c2, s2)
                                     | None => None end
               | None => None end.
Proof. reflexivity. Qed.
Lemma bind_discard {A B} (m:M A) (g:A -> M B) s :
  bind m (fun a => bind (g a) (fun _ => ret tt)) s
  = match bind m g s with Some (_, cs, s') => Some (tt, cs, s') | None => None end.
Proof.
  unfold bind, ret. destruct (m s) as [[[a c1] s1]|]; [|reflexivity].
  destruct (g a s1) as [[[x c2] s2]|]; cbn; rewrite ?app_nil_r; reflexivity.
Qed.
Ltac mrun := repeat first [rewrite bind_run
                          | progress unfold into_claim_phase, into_proof_phase
                          | progress cbn [assert_phase set_phase r_phase r_mem phase_eqb ret lift_opt fail iterM map app]].

(** * The three phases (proof.py execute_gamma_phase / execute_claims_phase / execute_proofs_phase / execute_full) *)
Definition lift_u (ph:phase) (o:option (list call * list term)) : option (unit * list call * rst) :=
  match o with Some (cs, m') => Some (tt, cs, mkrst m' ph) | None => None end.

Section Phases.
Variable b : base.
Variable ls : list layer.
Notation I := (stack_obj b ls).
Notation inS := (cfg_inS ls).
Notation loads := (cfg_loads b ls).
Notation io := (cfg_instopt ls).

Lemma gamma_axioms_agree axs : forall mem,
  iterM (fun ax => bind (obj_pattern I ax) (fun a => o_publish_axiom (o_ops I) a)) axs (mkrst mem Gamma)
  = lift_u Gamma (gamma_calls inS loads axs mem).
Proof.
  destruct (stack_ops b ls) as (fi & EO & _).
  induction axs as [|a axs IH]; intros mem; cbn [iterM gamma_calls]; [reflexivity|].
  unfold bind at 1 2. rewrite stack_pattern_agree. destruct (pcalls inS loads a mem) as [[c1 m1]|]; [|reflexivity]. cbn [lift_p].
  rewrite EO. cbn -[iterM gamma_calls]. rewrite EO in IH. rewrite IH.
  destruct (gamma_calls inS loads axs (m1 ++ [TProved a])) as [[c2 m2]|]; cbn; rewrite <- ?app_assoc; reflexivity.
Qed.

Lemma claims_agree cls : forall mem,
  iterM (fun cl => bind (obj_pattern I cl) (fun a => o_publish_claim (o_ops I) a)) cls (mkrst mem Claim)
  = lift_u Claim (claim_calls inS loads cls mem).
Proof.
  destruct (stack_ops b ls) as (fi & EO & _).
  induction cls as [|a cls IH]; intros mem; cbn [iterM claim_calls]; [reflexivity|].
  unfold bind at 1 2. rewrite stack_pattern_agree. destruct (pcalls inS loads a mem) as [[c1 m1]|]; [|reflexivity]. cbn [lift_p].
  rewrite EO. cbn -[iterM claim_calls]. rewrite EO in IH. rewrite IH.
  destruct (claim_calls inS loads cls m1) as [[c2 m2]|]; cbn; rewrite <- ?app_assoc; reflexivity.
Qed.

(** a module without sub-modules (the model's [pmodule] lists the axioms in gamma-phase order) *)
Theorem gamma_phase_agree axs cls prs mem :
  gen_execute_gamma_phase [] axs cls prs I false (mkrst mem Gamma) = lift_u Gamma (gamma_calls inS loads axs mem).
Proof.
  unfold gen_execute_gamma_phase. mrun. rewrite gamma_axioms_agree.
  destruct (gamma_calls inS loads axs mem) as [[cs m']|]; cbn; rewrite ?app_nil_r; reflexivity.
Qed.

Theorem claims_phase_agree subs axs cls prs mem :
  gen_execute_claims_phase subs axs cls prs I false (mkrst mem Claim) = lift_u Claim (claim_calls inS loads (rev cls) mem).
Proof.
  unfold gen_execute_claims_phase. mrun. rewrite claims_agree.
  destruct (claim_calls inS loads (rev cls) mem) as [[cs m']|]; cbn; rewrite ?app_nil_r; reflexivity.
Qed.

(** one proof expression: [self.publish_proof(proof_expr)(interpreter)] *)
Lemma publish_one_agree axs t th : build axs t = Some th -> forall mem,
  bind (lift_opt (gen_dsl_publish_proof th)) (fun pe => gen_thunk_call pe I) (mkrst mem Proof)
  = match tcalls inS loads io axs t mem with
    | Some (c1, c, m1) => Some (th_conc th, c1 ++ [CPubProof c], mkrst m1 Proof)
    | None => None end.
Proof.
  destruct (stack_ops b ls) as (fi & EO & _). intros Hb mem.
  unfold gen_dsl_publish_proof. mrun. unfold gen_thunk_call at 1. cbn [th_expr th_conc]. mrun.
  rewrite (thunk_agree b ls axs t th Hb).
  destruct (tcalls inS loads io axs t mem) as [[[c1 c] m1]|]; [|reflexivity]. cbn [lift_t].
  rewrite EO. cbn -[pat_eqb]. rewrite pat_eqb_refl. cbn. rewrite ?app_nil_r. reflexivity.
Qed.

Theorem proofs_phase_agree subs axs cls ts : forall ths, Forall2 (fun t th => build axs t = Some th) ts ths -> forall mem,
  gen_execute_proofs_phase subs axs cls ths I (mkrst mem Proof) = lift_u Proof (proof_calls inS loads io axs ts mem).
Proof.
  intros ths F mem. unfold gen_execute_proofs_phase.
  match goal with |- context [iterM ?f ths] => set (STEP := f) end.
  assert (HS : forall t th, build axs t = Some th -> forall mem,
            STEP th (mkrst mem Proof) = match tcalls inS loads io axs t mem with
                                        | Some (c1, c, m1) => Some (tt, c1 ++ [CPubProof c], mkrst m1 Proof)
                                        | None => None end).
  { intros t th Hb m. subst STEP. cbv beta. rewrite bind_discard, (publish_one_agree axs t th Hb m).
    destruct (tcalls inS loads io axs t m) as [[[c1 c0] m1]|]; reflexivity. }
  assert (L : forall mem, iterM STEP ths (mkrst mem Proof) = lift_u Proof (proof_calls inS loads io axs ts mem)).
  { clear mem. induction F as [|t th ts ths Hb F IH]; intros mem; cbn [iterM proof_calls]; [reflexivity|].
    rewrite bind_run, (HS t th Hb).
    destruct (tcalls inS loads io axs t mem) as [[[c1 c] m1]|]; [|reflexivity]. rewrite IH.
    destruct (proof_calls inS loads io axs ts m1) as [[c2 m2]|]; cbn; rewrite ?app_nil_r, <- ?app_assoc; reflexivity. }
  mrun. rewrite L. destruct (proof_calls inS loads io axs ts mem) as [[cs m']|]; cbn; rewrite ?app_nil_r; reflexivity.
Qed.
End Phases.

(** * Import trees: sub-modules publish their axioms first, in import order (the model's flat axiom list) *)
Inductive mtree := MNode (axs:list pat) (subs:list mtree).
Fixpoint flat_axioms (t:mtree) : list pat :=
  match t with MNode axs subs => flat_map flat_axioms subs ++ axs end.
Fixpoint tree_gamma (t:mtree) : obj -> bool -> M unit :=
  match t with MNode axs subs => gen_execute_gamma_phase (map tree_gamma subs) axs [] [] end.

Lemma mtree_ind' (P:mtree -> Prop) :
  (forall axs subs, Forall P subs -> P (MNode axs subs)) -> forall t, P t.
Proof.
  intros H. fix IH 1. intros [axs subs]. apply H.
  induction subs as [|s subs IHs]; constructor; [apply IH | exact IHs].
Qed.

Lemma gamma_calls_app inS loads a : forall b mem,
  gamma_calls inS loads (a ++ b) mem =
  match gamma_calls inS loads a mem with
  | Some (c1, m1) => match gamma_calls inS loads b m1 with
                     | Some (c2, m2) => Some (c1 ++ c2, m2) | None => None end
  | None => None end.
Proof.
  induction a as [|x a IH]; intros b mem; cbn [app gamma_calls].
  - destruct (gamma_calls inS loads b mem) as [[c2 m2]|]; reflexivity.
  - destruct (pcalls inS loads x mem) as [[c1 m1]|]; [|reflexivity]. rewrite IH.
    destruct (gamma_calls inS loads a _) as [[c2 m2]|]; [|reflexivity].
    destruct (gamma_calls inS loads b m2) as [[c3 m3]|]; [|reflexivity]. cbn. rewrite <- !app_assoc. reflexivity.
Qed.

Theorem tree_gamma_agree b ls t : forall mem,
  tree_gamma t (stack_obj b ls) false (mkrst mem Gamma)
  = lift_u Gamma (gamma_calls (cfg_inS ls) (cfg_loads b ls) (flat_axioms t) mem).
Proof.
  induction t as [axs subs IH] using mtree_ind'. intros mem. cbn [tree_gamma flat_axioms].
  unfold gen_execute_gamma_phase.
  match goal with |- context [bind (iterM ?f axs) ?k] => set (TAIL := bind (iterM f axs) k) end.
  assert (HT : forall m, TAIL (mkrst m Gamma) = lift_u Gamma (gamma_calls (cfg_inS ls) (cfg_loads b ls) axs m)).
  { intros m. pose proof (gamma_phase_agree b ls axs [] [] m) as T. unfold gen_execute_gamma_phase in T. fold TAIL in T.
    repeat first [rewrite bind_run in T | progress cbn [assert_phase r_phase phase_eqb iterM ret] in T].
    destruct (TAIL (mkrst m Gamma)) as [[[u c] s']|]; cbn in T; exact T. }
  assert (L : forall mem, iterM (fun v_submodule => v_submodule (stack_obj b ls) false) (map tree_gamma subs) (mkrst mem Gamma)
              = lift_u Gamma (gamma_calls (cfg_inS ls) (cfg_loads b ls) (flat_map flat_axioms subs) mem)).
  { clear mem. induction IH as [|s subs Hs _ IHs]; intros mem; cbn [map iterM flat_map]; [reflexivity|].
    unfold bind. rewrite Hs, gamma_calls_app.
    destruct (gamma_calls _ _ (flat_axioms s) mem) as [[c1 m1]|]; [|reflexivity]. cbn [lift_u]. rewrite IHs.
    destruct (gamma_calls _ _ (flat_map flat_axioms subs) m1) as [[c2 m2]|]; reflexivity. }
  repeat first [rewrite bind_run | progress cbn [assert_phase r_phase phase_eqb ret]].
  rewrite L, gamma_calls_app.
  destruct (gamma_calls _ _ (flat_map flat_axioms subs) mem) as [[c1 m1]|]; [|reflexivity]. cbn [lift_u].
  rewrite HT. destruct (gamma_calls _ _ axs m1) as [[c2 m2]|]; reflexivity.
Qed.

(** [execute_full]: the three phases in order, the phase switched in between *)
Theorem execute_full_agree b ls axs cls ts ths : Forall2 (fun t th => build axs t = Some th) ts ths ->
  gen_execute_full [] axs cls ths (stack_obj b ls) (mkrst [] Gamma) =
  match gamma_calls (cfg_inS ls) (cfg_loads b ls) axs [] with
  | Some (cg, mg) =>
      match claim_calls (cfg_inS ls) (cfg_loads b ls) (rev cls) mg with
      | Some (cc, mc) =>
          match proof_calls (cfg_inS ls) (cfg_loads b ls) (cfg_instopt ls) axs ts mc with
          | Some (cp, mp) => Some (tt, cg ++ cc ++ cp, mkrst mp Proof)
          | None => None end
      | None => None end
  | None => None end.
Proof.
  intros F. unfold gen_execute_full, gen_execute_gamma_phase, gen_execute_claims_phase. mrun.
  rewrite gamma_axioms_agree. destruct (gamma_calls _ _ axs []) as [[cg mg]|]; [|reflexivity]. cbn [lift_u]. mrun.
  rewrite claims_agree. destruct (claim_calls _ _ (rev cls) mg) as [[cc mc]|]; [|reflexivity]. cbn [lift_u]. mrun.
  rewrite (proofs_phase_agree b ls [] axs cls ts ths F).
  destruct (proof_calls _ _ _ axs ts mc) as [[cp mp]|]; cbn; rewrite ?app_nil_r, <- ?app_assoc; reflexivity.
Qed.

(** * The model's entry points restated on the translated source *)
Definition gen_run_basic (axs:list pat) (t:pterm) : option pat :=
  match gen_stack_calls BBasic [] axs t [] with Some (_, c, _) => Some c | None => None end.

Definition gen_run (b:base) (ls:list layer) (axs:list pat) (t:pterm) (tbl:symtab) (s:sstate) : option pat :=
  match gen_stack_calls b ls axs t (s_mem s) with
  | None => None
  | Some (cs, c, _) =>
      match b with
      | BBasic => Some c
      | BStateful => match st_run cs s with Some _ => Some c | None => None end
      | BCounting => match count_run cs s [] with Some _ => Some c | None => None end
      | BSerializing => match ser_run cs tbl s with Some _ => Some c | None => None end
      | BPretty => match pretty_run cs s with Some _ => Some c | None => None end
      end
  end.

Definition gen_compile (ls:list layer) (axs:list pat) (t:pterm) (tbl:symtab) (s:sstate)
  : option (symtab * sstate * list N * pat) :=
  match gen_stack_calls BSerializing ls axs t (s_mem s) with
  | None => None
  | Some (cs, c, _) => match ser_run cs tbl s with
                       | Some (tbl', s', bs) => Some (tbl', s', bs, c)
                       | None => None end
  end.

Lemma gen_run_basic_eq axs t : gen_run_basic axs t = run_basic axs t.
Proof. unfold gen_run_basic, run_basic. rewrite gen_stack_calls_agree. reflexivity. Qed.
Lemma gen_run_eq b ls axs t tbl s : gen_run b ls axs t tbl s = run b ls axs t tbl s.
Proof. unfold gen_run, run. rewrite gen_stack_calls_agree. reflexivity. Qed.
Lemma gen_compile_eq ls axs t tbl s : gen_compile ls axs t tbl s = compile ls axs t tbl s.
Proof. unfold gen_compile, compile. rewrite gen_stack_calls_agree. reflexivity. Qed.

(** [ProofExp.serialize] with the phases of the translated [execute_*_phase] methods *)
Fixpoint build_all (axs:list pat) (ts:list pterm) : option (list thunk) :=
  match ts with
  | [] => Some []
  | t :: r => match build axs t, build_all axs r with
              | Some th, Some ths => Some (th :: ths)
              | _, _ => None end
  end.
Definition run_u (m:M unit) (mem:list term) (ph:phase) : option (list call * list term) :=
  match m (mkrst mem ph) with Some (_, cs, s') => Some (cs, r_mem s') | None => None end.

Definition gen_serialize_with (ls:list layer) (m:pmodule) : option (list N * list N * list N) :=
  let it := stack_obj BSerializing ls in
  match build_all (m_axioms m) (m_proofs m) with
  | None => None
  | Some ths =>
    match run_u (gen_execute_gamma_phase [] (m_axioms m) (m_claims m) ths it false) [] Gamma with
    | Some (cg, mg) =>
      match ser_run cg [] (sinit m) with
      | Some (t1, s1, bg) =>
        match run_u (gen_execute_claims_phase [] (m_axioms m) (m_claims m) ths it false) mg Claim with
        | Some (cc, mc) =>
          match ser_run cc t1 (next_phase Claim s1) with
          | Some (t2, s2, bc) =>
            match run_u (gen_execute_proofs_phase [] (m_axioms m) (m_claims m) ths it) mc Proof with
            | Some (cp, _) =>
              match ser_run cp t2 (next_phase Proof s2) with
              | Some (_, _, bp) => Some (bg, bc, bp)
              | None => None end
            | None => None end
          | None => None end
        | None => None end
      | None => None end
    | None => None end
  end.
Definition gen_serialize (memo:option (list pat)) (m:pmodule) : option (list N * list N * list N) :=
  match memo with
  | None => gen_serialize_with [] m
  | Some ms => match count_module m with Some _ => gen_serialize_with [LMemo ms] m | None => None end
  end.

Lemma build_all_forall2 axs ts ths : build_all axs ts = Some ths -> Forall2 (fun t th => build axs t = Some th) ts ths.
Proof.
  revert ths. induction ts as [|t ts IH]; intros ths H; cbn in H.
  - inversion H. constructor.
  - destruct (build axs t) as [th|] eqn:B; [|discriminate]. destruct (build_all axs ts) as [r|]; [|discriminate].
    inversion H; subst. constructor; [exact B | apply IH; reflexivity].
Qed.

Lemma build_all_none inS loads io axs ts : build_all axs ts = None -> forall mem, proof_calls inS loads io axs ts mem = None.
Proof.
  induction ts as [|t ts IH]; intros H mem; cbn in H; [discriminate|]. cbn [proof_calls].
  destruct (build axs t) as [th|] eqn:B.
  - destruct (build_all axs ts); [discriminate|].
    destruct (tcalls inS loads io axs t mem) as [[[c1 c] m1]|]; [|reflexivity]. rewrite (IH eq_refl). reflexivity.
  - pose proof (build_static axs t) as HS. rewrite B in HS. rewrite tcalls_unfold, HS. reflexivity.
Qed.

Lemma gen_serialize_with_eq ls m : cfg_instopt ls = false ->
  gen_serialize_with ls m = serialize_with (cfg_inS ls) (cfg_loads BSerializing ls) m.
Proof.
  intros Hio. unfold gen_serialize_with, serialize_with, run_u.
  destruct (build_all (m_axioms m) (m_proofs m)) as [ths|] eqn:BA.
  - rewrite gamma_phase_agree. destruct (gamma_calls _ _ (m_axioms m) []) as [[cg mg]|]; [|reflexivity]. cbn [lift_u r_mem].
    destruct (ser_run cg [] (sinit m)) as [[[t1 s1] bg]|]; [|reflexivity].
    rewrite claims_phase_agree. destruct (claim_calls _ _ (rev (m_claims m)) mg) as [[cc mc]|]; [|reflexivity]. cbn [lift_u r_mem].
    destruct (ser_run cc t1 _) as [[[t2 s2] bc]|]; [|reflexivity].
    rewrite (proofs_phase_agree BSerializing ls [] (m_axioms m) (m_claims m) (m_proofs m) ths (build_all_forall2 _ _ _ BA)).
    rewrite Hio. destruct (proof_calls _ _ false (m_axioms m) (m_proofs m) mc) as [[cp mp]|]; reflexivity.
  - destruct (gamma_calls _ _ (m_axioms m) []) as [[cg mg]|]; [|reflexivity].
    destruct (ser_run cg [] (sinit m)) as [[[t1 s1] bg]|]; [|reflexivity].
    destruct (claim_calls _ _ (rev (m_claims m)) mg) as [[cc mc]|]; [|reflexivity].
    destruct (ser_run cc t1 _) as [[[t2 s2] bc]|]; [|reflexivity].
    rewrite (build_all_none _ _ false _ _ BA). reflexivity.
Qed.

Theorem gen_serialize_eq memo m : gen_serialize memo m = serialize memo m.
Proof.
  destruct memo as [ms|]; cbn [gen_serialize serialize].
  - destruct (count_module m); [|reflexivity]. rewrite gen_serialize_with_eq by reflexivity. reflexivity.
  - rewrite gen_serialize_with_eq by reflexivity. reflexivity.
Qed.

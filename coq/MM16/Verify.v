(** M6 / C16: a reference Metamath verifier over s-expression terms.

    Abstractions (stated in notes/C16.md):
    - expressions are the parsed trees of [metamath/parser.py] ([Application]/[Metavariable]), not
      token strings; a statement is a typecode plus a list of terms ([terms[0]] is the typecode);
    - [$c]/[$v] declarations are not represented (all symbols are declared);
    - [$d] is not represented (the supported fragment has none);
    - compressed proofs are already decoded to a label list and a list of numbers
      ([0] = Z, [1..m+n] = mandatory hypotheses then labels, above = back-references), as
      [converter._import_proof] produces them.
    Names (constants, variables) are interned as [N]; labels carry the few names that
    [translate.exec_proof] recognises by spelling.  Definitions only; proofs are in other files. *)
From Coq Require Import NArith List Bool.
Import ListNotations.
Open Scope N_scope.

Inductive mmterm := TVar (v:N) | TApp (c:N) (args:list mmterm).

(** typecodes *)
Definition tc_pattern : N := 0.   (* #Pattern *)
Definition tc_proved  : N := 1.   (* |- *)
Definition tc_notation : N := 2.  (* #Notation *)
Definition stmt := (N * list mmterm)%type.

Inductive label :=
| LImpIsPattern | LAppIsPattern       (* 'imp-is-pattern', 'app-is-pattern' *)
| LProp1 | LProp2 | LMp               (* 'proof-rule-prop-1', 'proof-rule-prop-2', 'proof-rule-mp' *)
| LRuleOther (n:N)                    (* any other label starting with 'proof-rule-' *)
| LOther (n:N).

Definition label_eqb (a b:label) : bool :=
  match a, b with
  | LImpIsPattern, LImpIsPattern | LAppIsPattern, LAppIsPattern
  | LProp1, LProp1 | LProp2, LProp2 | LMp, LMp => true
  | LRuleOther n, LRuleOther m | LOther n, LOther m => N.eqb n m
  | _, _ => false
  end.

Record assertion := mkA {
  a_label : label;
  a_ess   : list (label * stmt);   (* the [$e] statements of the enclosing block, in order *)
  a_stmt  : stmt }.

Inductive item :=
| IFloat (l:label) (tc v:N)                                   (* l $f tc v $. *)
| IAx (a:assertion)                                           (* $a, possibly in a block with $e *)
| IProv (a:assertion) (plabels:list label) (steps:list N).    (* $p with a decoded compressed proof *)
Definition db := list item.

(** ---- terms *)
Definition forallb2 {A} (f:A->A->bool) : list A -> list A -> bool :=
  fix go (xs ys:list A) : bool :=
    match xs, ys with
    | [], [] => true
    | x::xs', y::ys' => f x y && go xs' ys'
    | _, _ => false
    end.

Fixpoint term_eqb (a b:mmterm) : bool :=
  match a, b with
  | TVar x, TVar y => N.eqb x y
  | TApp c xs, TApp d ys => N.eqb c d && forallb2 term_eqb xs ys
  | _, _ => false
  end.
Definition stmt_eqb (a b:stmt) : bool := N.eqb (fst a) (fst b) && forallb2 term_eqb (snd a) (snd b).

Fixpoint assoc {B} (v:N) (l:list (N*B)) : option B :=
  match l with
  | [] => None
  | (k,x)::r => if N.eqb k v then Some x else assoc v r
  end.

Fixpoint tsubst (s:list (N*mmterm)) (t:mmterm) : mmterm :=
  match t with
  | TVar v => match assoc v s with Some u => u | None => TVar v end
  | TApp c args => TApp c (map (tsubst s) args)
  end.
Definition ssubst (s:list (N*mmterm)) (st:stmt) : stmt := (fst st, map (tsubst s) (snd st)).

Fixpoint tvars (t:mmterm) : list N :=
  match t with
  | TVar v => [v]
  | TApp _ args => flat_map tvars args
  end.
Definition svars (st:stmt) : list N := flat_map tvars (snd st).
Definition memN (x:N) (l:list N) : bool := existsb (N.eqb x) l.

(** ---- frames *)
Definition floats (ctx:db) : list (label * N * N) :=
  flat_map (fun it => match it with IFloat l tc v => [(l, tc, v)] | _ => [] end) ctx.

Definition mand_vars (a:assertion) : list N := flat_map (fun e => svars (snd e)) (a_ess a) ++ svars (a_stmt a).

(** the mandatory floating hypotheses of [a], in database order, among the [$f] active in [ctx] *)
Definition mand_floats (ctx:db) (a:assertion) : list (label * N * N) :=
  filter (fun f => memN (snd f) (mand_vars a)) (floats ctx).

Definition has_float (ctx:db) (v:N) : bool := existsb (fun f => N.eqb (snd f) v) (floats ctx).

(** pop [n] entries; returns them bottom-first (hypothesis order) and the rest (head = top) *)
Fixpoint pop_n {A} (n:nat) (stk:list A) (acc:list A) : option (list A * list A) :=
  match n with
  | O => Some (acc, stk)
  | S n' => match stk with
            | [] => None
            | x::r => pop_n n' r (x::acc)
            end
  end.

(** unify the floating hypotheses with the entries: typecodes equal, one term each *)
Fixpoint bind_floats (fl:list (label*N*N)) (es:list stmt) : option (list (N*mmterm)) :=
  match fl, es with
  | [], [] => Some []
  | (_, tc, v)::fl', (tc', [t])::es' =>
      if N.eqb tc tc' then
        match bind_floats fl' es' with Some s => Some ((v,t)::s) | None => None end
      else None
  | _, _ => None
  end.

Definition apply_assertion (ctx:db) (a:assertion) (stk:list stmt) : option (list stmt) :=
  let fl := mand_floats ctx a in
  if negb (forallb (has_float ctx) (mand_vars a)) then None else
  match pop_n (length fl + length (a_ess a)) stk [] with
  | None => None
  | Some (args, rest) =>
      let fargs := firstn (length fl) args in
      let eargs := skipn (length fl) args in
      match bind_floats fl fargs with
      | None => None
      | Some s =>
          if forallb2 stmt_eqb eargs (map (fun e => ssubst s (snd e)) (a_ess a))
          then Some (ssubst s (a_stmt a) :: rest) else None
      end
  end.

(** ---- label lookup: hypotheses active for the target, then earlier statements with their own context *)
Definition item_label (it:item) : label :=
  match it with IFloat l _ _ => l | IAx a | IProv a _ _ => a_label a end.

(** first item carrying the label, with its position *)
Fixpoint find_item (d:db) (l:label) : option (nat * item) :=
  match d with
  | [] => None
  | it::r => if label_eqb l (item_label it) then Some (O, it)
             else match find_item r l with Some (i, x) => Some (S i, x) | None => None end
  end.

Inductive ref := RHyp (s:stmt) | RAssert (ctx:db) (a:assertion).

Definition lookup_ref (pre:db) (tgt:assertion) (l:label) : option ref :=
  match find (fun e => label_eqb l (fst e)) (a_ess tgt) with
  | Some e => Some (RHyp (snd e))
  | None =>
      match find_item pre l with
      | Some (_, IFloat _ tc v) => Some (RHyp (tc, [TVar v]))
      | Some (i, IAx a) | Some (i, IProv a _ _) => Some (RAssert (firstn i pre) a)
      | None => None
      end
  end.

Definition mm_step (pre:db) (tgt:assertion) (labels:list label) (n:N) (sh:list stmt * list stmt)
  : option (list stmt * list stmt) :=
  let '(stk, heap) := sh in
  if N.eqb n 0 then
    match stk with x::_ => Some (stk, heap ++ [x]) | [] => None end
  else
    let k := N.to_nat n in
    if Nat.leb k (length labels) then
      match nth_error labels (k - 1) with
      | None => None
      | Some l =>
          match lookup_ref pre tgt l with
          | Some (RHyp s) => Some (s::stk, heap)
          | Some (RAssert ctx a) =>
              match apply_assertion ctx a stk with Some stk' => Some (stk', heap) | None => None end
          | None => None
          end
      end
    else
      match nth_error heap (k - length labels - 1) with
      | Some s => Some (s::stk, heap)
      | None => None
      end.

Fixpoint mm_run (pre:db) (tgt:assertion) (labels:list label) (steps:list N) (sh:list stmt * list stmt)
  : option (list stmt * list stmt) :=
  match steps with
  | [] => Some sh
  | n::r => match mm_step pre tgt labels n sh with
            | Some sh' => mm_run pre tgt labels r sh'
            | None => None
            end
  end.

(** split the database at the [$p] statement labelled [target] *)
Fixpoint find_target (d:db) (seen:db) (target:label) : option (db * assertion * list label * list N) :=
  match d with
  | [] => None
  | it::r =>
      match it with
      | IProv a pl steps => if label_eqb target (a_label a) then Some (seen, a, pl, steps)
                            else find_target r (seen ++ [it]) target
      | _ => find_target r (seen ++ [it]) target
      end
  end.

(** the label table of a compressed proof: mandatory hypotheses (floating in database order, then
    essential), then the parenthesised labels *)
Definition proof_labels (pre:db) (a:assertion) (pl:list label) : list label :=
  map (fun f => fst (fst f)) (mand_floats pre a) ++ map fst (a_ess a) ++ pl.

Definition mm_verify (d:db) (target:label) : bool :=
  match find_target d [] target with
  | None => false
  | Some (pre, a, pl, steps) =>
      match mm_run pre a (proof_labels pre a pl) steps ([], []) with
      | Some ([s], _) => stmt_eqb s (a_stmt a)
      | _ => false
      end
  end.

(** C16, tie by translation: the definitions GENERATED from the Python source ([Gen/MMTranslate.v]) agree
    with the hand-written model ([MM16/Translate.v]).

    Direction proved (and the one [C16_source_translate] needs): whenever the model's function succeeds,
    the generated one succeeds with the same result (same emitted instructions, same tracked state, same
    Z-memory).  Where the model fails the generated code may fail earlier or later (the Python asserts are
    not all mirrored by the model); nothing is claimed there.
    Hypotheses, stated once: [proofexp._axioms] contains the exported axioms' patterns, and the metavariable
    ids of one assertion are pairwise distinct (Python's [delta] is a dict: equal keys would collapse). *)
From Coq Require Import ZArith NArith PeanoNat List Bool Lia ZifyN ZifyNat.
From Pi2 Require Import ML.Syntax ML.Subst ML.Machine ML.Facts
  MM16.Verify MM16.Convert MM16.Instr MM16.Translate MM16.Fragment
  MM16.InstrFacts MM16.ConvertFacts MM16.SimFacts MM16.VerifyFacts MM16.Sim MM16.Step MM16.GenPrims MM16.GenRun Gen.MMTranslate.
Import ListNotations.
Open Scope N_scope.

(** ---- the label table as the Python dict {1: l1, 2: l2, ...} *)
Fixpoint zenum (k:Z) (ls:list label) : zdict :=
  match ls with [] => [] | l::r => (k, l) :: zenum (k + 1) r end.

Lemma zdict_get_zenum ls : forall k z, (k <= z)%Z ->
  zdict_get (zenum k ls) z = nth_error ls (Z.to_nat (z - k)).
Proof.
  induction ls as [|l ls IH]; intros k z H; simpl.
  - destruct (Z.to_nat (z - k)); reflexivity.
  - destruct (Z.eqb k z) eqn:E.
    + apply Z.eqb_eq in E. subst. rewrite Z.sub_diag. reflexivity.
    + apply Z.eqb_neq in E. rewrite IH by lia.
      replace (Z.to_nat (z - k)) with (S (Z.to_nat (z - (k + 1)))) by lia. reflexivity.
Qed.

Lemma zdict_get_zenum_lt ls : forall k z, (z < k)%Z -> zdict_get (zenum k ls) z = None.
Proof.
  induction ls as [|l ls IH]; intros k z H; simpl; [reflexivity|].
  destruct (Z.eqb k z) eqn:E; [apply Z.eqb_eq in E; lia|]. apply IH. lia.
Qed.

Lemma zenum_length ls : forall k, length (zenum k ls) = length ls.
Proof. induction ls; intros; simpl; [reflexivity|]. rewrite IHls. reflexivity. Qed.

(** a key of the table: [1 <= n <= len] *)
Lemma labels_lookup ls (n:N) :
  zdict_get (zenum 1 ls) (Z.of_N n) =
  if N.eqb n 0 then None else nth_error ls (N.to_nat n - 1).
Proof.
  destruct (N.eqb n 0) eqn:E.
  - apply N.eqb_eq in E. subst. apply zdict_get_zenum_lt. lia.
  - apply N.eqb_neq in E. rewrite zdict_get_zenum by lia. f_equal.
    rewrite Z2Nat.inj_sub by lia. rewrite <- Z_N_nat, N2Z.id. reflexivity.
Qed.

Lemma zdict_set_fresh k v d : zdict_get d k = None -> zdict_set k v d = d ++ [(k, v)].
Proof.
  induction d as [|[k' v'] d IH]; simpl; intros H; [reflexivity|].
  destruct (Z.eqb k' k); [discriminate|]. rewrite IH by exact H. reflexivity.
Qed.

Lemma zenum_app ls1 ls2 : forall k, zenum k (ls1 ++ ls2) = zenum k ls1 ++ zenum (k + Z.of_nat (length ls1)) ls2.
Proof.
  induction ls1 as [|l ls1 IH]; intros k; [simpl; rewrite Z.add_0_r; reflexivity|].
  cbn [app zenum length]. rewrite IH, Nat2Z.inj_succ.
  replace (k + Z.succ (Z.of_nat (length ls1)))%Z with (k + 1 + Z.of_nat (length ls1))%Z by lia. reflexivity.
Qed.

Lemma zdict_get_app_none d1 d2 k : zdict_get d1 k = None -> zdict_get (d1 ++ d2) k = zdict_get d2 k.
Proof.
  induction d1 as [|[k' v'] d1 IH]; simpl; intros H; [reflexivity|].
  destruct (Z.eqb k' k); [discriminate | apply IH; exact H].
Qed.

Lemma zenum_snoc ls l : zdict_set (py_len (zenum 1 ls) + 1)%Z l (zenum 1 ls) = zenum 1 (ls ++ [l]).
Proof.
  unfold py_len. rewrite zenum_length. rewrite zdict_set_fresh.
  - rewrite zenum_app. cbn [zenum]. rewrite (Z.add_comm 1). reflexivity.
  - rewrite zdict_get_zenum by lia.
    replace (Z.to_nat (Z.of_nat (length ls) + 1 - 1)) with (length ls) by lia.
    apply nth_error_None. lia.
Qed.

Lemma zdict_extend_zenum pl : forall ls, zdict_extend (zenum 1 ls) pl = zenum 1 (ls ++ pl).
Proof.
  induction pl as [|l pl IH]; intros ls; simpl; [rewrite app_nil_r; reflexivity|].
  rewrite zenum_snoc, IH, <- app_assoc. reflexivity.
Qed.

Ltac Rsimp := repeat (rewrite ?R_bind, ?R_ret, ?R_assert, ?R_lift, ?R_raise; cbv beta iota zeta).

(** ---- converter.split_proof: mandatory floating hypotheses in database order *)
Definition float_labels_for (d:db) (vs:list N) : list label :=
  map (fun f => fst (fst f)) (filter (fun f => memN (snd f) vs) (floats d)).

Lemma float_labels_cons it d vs :
  float_labels_for (it :: d) vs =
  (match it with IFloat l _ v => if memN v vs then [l] else [] | _ => [] end) ++ float_labels_for d vs.
Proof.
  unfold float_labels_for, floats. simpl. destruct it as [l tc v|a|a pl st]; simpl; try reflexivity.
  destruct (memN v vs); reflexivity.
Qed.

Lemma gen_split_proof_labels_agree cv a t :
  R (gen_split_proof_labels cv a) t = Some (zenum 1 (float_labels_for (cv_d cv) (svars (a_stmt a))), t).
Proof.
  unfold gen_split_proof_labels. cbv zeta.
  match goal with |- context [foldM ?f _ _] => set (body := f) end.
  assert (G: forall its ls t0,
    R (foldM body its (zenum 1 ls, (Z.of_nat (length ls) + 1)%Z)) t0
    = Some ((zenum 1 (ls ++ float_labels_for its (stmt_metavariables a)),
             (Z.of_nat (length (ls ++ float_labels_for its (stmt_metavariables a))) + 1)%Z), t0)).
  { induction its as [|it its IH]; intros ls t0.
    - rewrite R_foldM_nil. unfold float_labels_for. simpl. rewrite app_nil_r. reflexivity.
    - rewrite R_foldM_cons. unfold body at 1. cbv beta iota.
      rewrite float_labels_cons. destruct it as [l tc v|b|b pl st]; cbn [is_floating fl_metavariable fl_label item_label]; Rsimp.
      + destruct (memN v (stmt_metavariables a)); Rsimp.
        * replace (Z.of_nat (length ls) + 1)%Z with (py_len (zenum 1 ls) + 1)%Z by (unfold py_len; rewrite zenum_length; reflexivity).
          rewrite zenum_snoc.
          replace (py_len (zenum 1 ls) + 1 + 1)%Z with (Z.of_nat (length (ls ++ [l])) + 1)%Z
            by (unfold py_len; rewrite zenum_length, app_length; simpl; lia).
          rewrite IH. rewrite <- app_assoc. reflexivity.
        * rewrite IH. reflexivity.
      + rewrite IH. reflexivity.
      + rewrite IH. reflexivity. }
  rewrite R_bind. specialize (G (cv_d cv) [] t). simpl in G. rewrite G. Rsimp. reflexivity.
Qed.

(** ---- convert_to_implication: written as a structural recursion on the antecedents, or as a right fold
    ([functools.reduce] over the reversed initial segment, starting from the innermost implication) *)
Lemma chain_imp_snoc l x c : chain_imp (l ++ [x]) c = chain_imp l (Imp x c).
Proof. induction l as [|a l IH]; simpl; [reflexivity|]. rewrite IH. reflexivity. Qed.

Lemma chain_imp_fold rinit : forall acc,
  fold_left (fun consequent ant => Imp ant consequent) rinit acc = chain_imp (rev rinit) acc.
Proof.
  induction rinit as [|y r IH]; intros acc; simpl; [reflexivity|]. rewrite IH, chain_imp_snoc. reflexivity.
Qed.

Lemma gen_convert_to_implication_agree cv ants c t :
  ants <> [] -> R (gen_convert_to_implication cv ants c) t = Some (chain_imp ants c, t).
Proof.
  first
  [ (* recursive form *)
    revert t; induction ants as [|a ants IH]; intros t H; [contradiction|];
    cbn [gen_convert_to_implication]; destruct ants as [|b ants]; cbn [py_nonempty]; cbv iota;
    [ Rsimp; reflexivity | Rsimp; rewrite IH by discriminate; Rsimp; reflexivity ]
  | (* fold form *)
    intros H; unfold gen_convert_to_implication;
    destruct (rev ants) as [|lastp rinit] eqn:ER;
    [ exfalso; apply H; rewrite <- (rev_involutive ants), ER; reflexivity |];
    Rsimp; rewrite ?rev_involutive, chain_imp_fold, <- chain_imp_snoc;
    rewrite <- (rev_involutive ants), ER; reflexivity ].
Qed.

(** ---- literal stack reads *)
Lemma R_stack_m1 t : R (p_stack_at (- (1))%Z) t = match nth_error (stack (mst t)) 0 with Some x => Some (x, t) | None => None end.
Proof. exact (R_stack_neg 0 t). Qed.
Lemma R_stack_m2 t : R (p_stack_at (- (2))%Z) t = match nth_error (stack (mst t)) 1 with Some x => Some (x, t) | None => None end.
Proof. exact (R_stack_neg 1 t). Qed.
Lemma R_stack_m3 t : R (p_stack_at (- (3))%Z) t = match nth_error (stack (mst t)) 2 with Some x => Some (x, t) | None => None end.
Proof. exact (R_stack_neg 2 t). Qed.
Lemma R_stack_m4 t : R (p_stack_at (- (4))%Z) t = match nth_error (stack (mst t)) 3 with Some x => Some (x, t) | None => None end.
Proof. exact (R_stack_neg 3 t). Qed.

Lemma R_p_index {A} (l:list A) z t : R (p_index l z) t = match py_index l z with Some x => Some (x, t) | None => None end.
Proof. apply R_lift. Qed.
Lemma py_index_0' {A} (x:A) l : py_index (x :: l) 0 = Some x.
Proof. reflexivity. Qed.

Ltac Rstep :=
  repeat (rewrite ?R_bind, ?R_ret, ?R_assert, ?R_lift, ?R_raise, ?R_stack_m1, ?R_stack_m2, ?R_stack_m3, ?R_stack_m4,
                  ?R_top_is, ?R_top2_are, ?R_gdo, ?R_i_load, ?R_p_index, ?py_index_0';
          cbn [mst stack nth_error is_proved is_pattern is_metavar phi mv_name]; cbv beta iota zeta).

Lemma do_one i t t' : do [i] t = Some t' -> exists s', irun Proof i (mst t) = Some s' /\ t' = mkT s' (heap t) (out t ++ [i]).
Proof.
  unfold do. simpl. destruct (irun Proof i (mst t)) as [s'|]; [|discriminate]. intros H. inversion H. eauto.
Qed.

(** generic normaliser for straight-line generated code on a state whose stack shape is known:
    every read / assert / interpreter call is evaluated; [do] on a concrete state is computed *)
Ltac Rnorm :=
  repeat (Rstep; rewrite ?term_eqb_refl'; cbn [andb];
          unfold i_save, i_pop, i_app, i_implies, i_modus_ponens, i_metavar, i_pattern, i_publish_proof;
          cbv beta iota zeta).

(** the save/pop loop over the antecedents, for ANY loop body that, run on a state with a top [x] where
    [Save; Pop] succeeds, appends [(tt, x)] and reaches the state after [Save; Pop] *)
Lemma save_loop_agree (body : list (unit * term) -> pat -> M (list (unit * term))) :
  (forall acc p t x t1, top t = Some x -> do [OSave; OPop] t = Some t1 -> R (body acc p) t = Some (acc ++ [(tt, x)], t1)) ->
  forall ants t acc saved t1 gacc,
  save_pops (length ants) t acc = Some (saved, t1) ->
  exists new, saved = acc ++ new /\ R (foldM body ants gacc) t = Some (gacc ++ map (fun x => (tt, x)) new, t1).
Proof.
  intros HB. induction ants as [|p ants IH]; intros t acc saved t1 gacc H; simpl in H.
  - inversion H; subst. exists []. rewrite !app_nil_r. split; [reflexivity | apply R_foldM_nil].
  - destruct (top t) as [x|] eqn:T; [|discriminate]. destruct (do [OSave; OPop] t) as [t0|] eqn:D; [|discriminate].
    destruct (IH _ _ _ _ (gacc ++ [(tt, x)]) H) as [new [E1 E2]]. exists (x :: new). split.
    + rewrite E1, <- app_assoc. reflexivity.
    + rewrite R_foldM_cons, (HB _ _ _ _ _ T D), E2. rewrite <- app_assoc. reflexivity.
Qed.

(** proves the premise of [save_loop_agree] for whatever straight-line body was generated *)
Ltac solve_save_body :=
  let acc := fresh "acc" in let p := fresh "p" in let t0 := fresh "t0" in let x := fresh "x" in let t4 := fresh "t4" in
  let T0 := fresh "T0" in let D0 := fresh "D0" in
  intros acc p t0 x t4 T0 D0;
  destruct t0 as [[stk0 mem0 cl0] h0 o0]; unfold top in T0; cbn [mst stack hd_error] in T0;
  destruct stk0 as [|y0 s0]; [discriminate|]; inversion T0; subst y0;
  unfold do in D0; cbn [iruns irun mst stack memory claims set_stack] in D0; inversion D0; subst t4;
  cbv beta iota zeta;
  repeat (Rnorm; unfold do; cbn [iruns irun mst stack memory claims heap out set_stack app]; cbv beta iota zeta);
  rewrite <- ?app_assoc; reflexivity.

(** the load / modus-ponens loop, for ANY loop body that performs [load x; MP] *)
Lemma mp_loop_agree (body : unit -> unit * term -> M unit) :
  (forall u x t t1 t2, load_of x t = Some t1 -> do [OMP] t1 = Some t2 -> R (body tt (u, x)) t = Some (tt, t2)) ->
  forall xs t t', mp_all xs t = Some t' ->
  R (foldM body (map (fun x => (tt, x)) xs) tt) t = Some (tt, t').
Proof.
  intros HB. induction xs as [|x xs IH]; intros t t' H; simpl in H.
  - inversion H; subst. apply R_foldM_nil.
  - destruct (load_of x t) as [t1|] eqn:L; [|discriminate]. destruct (do [OMP] t1) as [t2|] eqn:D; [|discriminate].
    cbn [map]. rewrite R_foldM_cons, (HB tt x t t1 t2 L D). apply IH. exact H.
Qed.

Lemma do_mp_shape t t' : do [OMP] t = Some t' ->
  exists p2 l r s, stack (mst t) = TProved p2 :: TProved (Imp l r) :: s /\ pat_eqb l p2 = true.
Proof.
  intros H. apply do_one in H as [s' [HI _]]. cbn [irun] in HI.
  destruct (stack (mst t)) as [|[p2|p2] [|[q|q] s]]; try discriminate. destruct q; try discriminate.
  destruct (pat_eqb q1 p2) eqn:E; [|discriminate]. eauto 8.
Qed.

(** ---- get_delta and the instantiation *)
Lemma pop_pats_inv n : forall s plugs s2, pop_pats n s = Some (plugs, s2) -> s = map TPat plugs ++ s2 /\ length plugs = n.
Proof.
  induction n as [|n IH]; intros s plugs s2 H; simpl in H.
  - inversion H; subst. split; reflexivity.
  - destruct s as [|[p|p] s]; try discriminate. destruct (pop_pats n s) as [[ps r]|] eqn:E; [|discriminate].
    inversion H; subst. destruct (IH _ _ _ E) as [E1 E2]. subst s. simpl. split; [reflexivity | lia].
Qed.

Lemma dict_set_fresh k v (d:dict) : ~ In k (map fst d) -> dict_set k v d = d ++ [(k, v)].
Proof.
  induction d as [|[k' v'] d IH]; simpl; intros H; [reflexivity|].
  destruct (N.eqb k' k) eqn:E; [apply N.eqb_eq in E; subst; exfalso; apply H; left; reflexivity|].
  rewrite IH; [reflexivity|]. intros HI. apply H. right. exact HI.
Qed.

Lemma firstn_S_nth {A} (l:list A) : forall m x, nth_error l m = Some x -> firstn (S m) l = firstn m l ++ [x].
Proof.
  induction l as [|y l IH]; intros [|m] x H; simpl in *; try discriminate.
  - inversion H; reflexivity.
  - rewrite (IH m x H). reflexivity.
Qed.

Lemma gen_get_delta_agree cv mvs plugs x s2 t :
  stack (mst t) = x :: map TPat plugs ++ s2 -> length plugs = length mvs ->
  (forall v, In v mvs -> memN v (pattern_floats (cv_d cv)) = true) ->
  NoDup (map (mvid (cv_d cv)) mvs) ->
  R (gen_get_delta cv mvs) t = Some (combine (map (mvid (cv_d cv)) mvs) (map TPat (rev plugs)), t).
Proof.
  intros HS HL HM HN. unfold gen_get_delta. cbv zeta.
  match goal with |- context [foldM ?f _ _] => set (body := f) end.
  set (P := map TPat plugs) in *.
  assert (LP: length P = length mvs) by (unfold P; rewrite map_length; exact HL).
  assert (G: forall rem (dacc:dict) (j:nat),
            (j + length rem = length mvs)%nat ->
            (forall v, In v rem -> memN v (pattern_floats (cv_d cv)) = true) ->
            NoDup (map (mvid (cv_d cv)) rem) ->
            (forall k, In k (map fst dacc) -> ~ In k (map (mvid (cv_d cv)) rem)) ->
            exists j', R (foldM body rem (dacc, Z.of_nat j)) t
                       = Some ((dacc ++ combine (map (mvid (cv_d cv)) rem) (rev (firstn (length rem) P)), j'), t)).
  { induction rem as [|v rem IH]; intros dacc j Hj Hm Hn Hd.
    - eexists. rewrite R_foldM_nil. simpl. rewrite app_nil_r. reflexivity.
    - rewrite R_foldM_cons. unfold body at 1. cbv beta iota.
      unfold cv_resolve_metavar. rewrite (Hm v (or_introl eq_refl)). Rsimp.
      cbn [length] in Hj.
      replace (- (py_len mvs + 1) + Z.of_nat j)%Z with (- Z.of_nat (S (S (length rem))))%Z by (unfold py_len; lia).
      rewrite R_stack_neg, HS. cbn [nth_error].
      assert (LT: (length rem < length P)%nat) by lia.
      destruct (nth_error P (length rem)) as [pm|] eqn:EN; [|apply nth_error_None in EN; lia].
      rewrite nth_error_app1 by exact LT. rewrite EN.
      assert (EPm: exists q, pm = TPat q).
      { unfold P in EN. rewrite nth_error_map in EN. destruct (nth_error plugs (length rem)); inversion EN. eauto. }
      destruct EPm as [q ->]. Rsimp. cbn [mv_name phi].
      inversion Hn as [|? ? Hnv Hn']; subst.
      rewrite dict_set_fresh by (intros HI; apply (Hd _ HI); left; reflexivity).
      replace (Z.of_nat j + 1)%Z with (Z.of_nat (S j)) by lia.
      destruct (IH (dacc ++ [(mvid (cv_d cv) v, TPat q)]) (S j)) as [j' E].
      + lia.
      + intros w Hw. apply Hm. right. exact Hw.
      + exact Hn'.
      + intros k Hk. rewrite map_app in Hk. apply in_app_or in Hk as [Hk|Hk].
        * intros HI. apply (Hd _ Hk). right. exact HI.
        * simpl in Hk. destruct Hk as [<-|[]]. exact Hnv.
      + exists j'. cbn [is_pattern]. Rsimp. rewrite E. rewrite <- app_assoc. cbn [length map combine].
        rewrite (firstn_S_nth P _ _ EN), rev_app_distr. reflexivity. }
  rewrite R_bind. destruct (G mvs dict_empty O) as [j' E]; [reflexivity | exact HM | exact HN | intros k []|].
  change (Z.of_nat 0) with 0%Z in E. rewrite E. Rsimp.
  rewrite <- LP, firstn_all. unfold P. rewrite map_rev. reflexivity.
Qed.

Lemma combine_keys {A B} (a:list A) : forall (b:list B), length a = length b -> map fst (combine a b) = a.
Proof. induction a; intros [|y b] L; simpl in *; try discriminate; [reflexivity|]. rewrite IHa by lia. reflexivity. Qed.
Lemma combine_vals {A B} (a:list A) : forall (b:list B), length a = length b -> map snd (combine a b) = b.
Proof. induction a; intros [|y b] L; simpl in *; try discriminate; [reflexivity|]. rewrite IHa by lia. reflexivity. Qed.

Lemma terms_eqb_refl l : terms_eqb l l = true.
Proof. induction l; simpl; [reflexivity|]. rewrite term_eqb_refl', IHl. reflexivity. Qed.

Lemma i_instantiate_agree x ids plugs s2 t t' :
  stack (mst t) = x :: map TPat plugs ++ s2 -> length plugs = length ids ->
  do [OInst (rev ids)] t = Some t' ->
  R (i_instantiate x (combine ids (map TPat (rev plugs)))) t = Some (tt, t').
Proof.
  intros HS HL D. unfold R, i_instantiate. cbn [g_of g_mst]. rewrite HS.
  assert (L2: length ids = length (map TPat (rev plugs))) by (rewrite map_length, rev_length; lia).
  rewrite term_eqb_refl'. rewrite combine_length, <- L2, Nat.min_id.
  unfold dict_values, dict_keys. rewrite (combine_vals _ _ L2), (combine_keys _ _ L2).
  assert (E1: Nat.leb (length ids) (length (map TPat plugs ++ s2)) = true)
    by (apply Nat.leb_le; rewrite app_length, map_length; lia).
  rewrite E1. rewrite <- HL at 1. rewrite <- (map_length TPat plugs) at 1. rewrite firstn_app, firstn_all, Nat.sub_diag.
  simpl firstn. rewrite app_nil_r, <- map_rev, terms_eqb_refl. cbn [andb].
  change (match gdo [OInst (rev ids)] (g_of t) with Some (x0, g) => Some (x0, mkT (g_mst g) (heap t) (g_out g)) | None => None end)
    with (R (gdo [OInst (rev ids)]) t).
  rewrite R_gdo, D. reflexivity.
Qed.

Lemma concl_pat_simple d sid a : simple (concl_pat d sid a) = true.
Proof. unfold concl_pat. destruct (a_stmt a) as [tc [|t r]]; [reflexivity|]. unfold img. apply img0_simple. Qed.

Lemma do_emit_pat p t t1 : simple p = true -> do (emit_pat p) t = Some t1 -> stack (mst t1) = TPat p :: stack (mst t).
Proof.
  intros S D. unfold do in D. rewrite (emit_pat_run Proof p S) in D. inversion D. reflexivity.
Qed.

Lemma mio_memN d a v : In v (metavars_in_order d a) -> memN v (pattern_floats d) = true.
Proof. unfold metavars_in_order. intros H. apply filter_In in H as [H _]. apply memN_In. exact H. Qed.

Lemma do_heap_load x t t' : load_of x t = Some t' -> heap t' = heap t.
Proof. unfold load_of. destruct (find_idx x (memory (mst t))); [apply do_heap | discriminate]. Qed.

Lemma py_index_0 {A} (x:A) l : py_index (x :: l) 0 = Some x.
Proof. reflexivity. Qed.

Lemma find_idx_some x l : forall i, find_idx x l = Some i -> nth_error l i = Some x.
Proof.
  induction l as [|y l IH]; intros i H; simpl in H; [discriminate|].
  destruct (Instr.term_eqb y x) eqn:E.
  - inversion H; subst. apply term_eqb_eq in E. subst. reflexivity.
  - destruct (find_idx x l) as [j|]; [|discriminate]. inversion H; subst. simpl. apply IH. reflexivity.
Qed.

Lemma load_of_stack x t t' : load_of x t = Some t' -> stack (mst t') = x :: stack (mst t).
Proof.
  unfold load_of. destruct (find_idx x (memory (mst t))) as [i|] eqn:F; [|discriminate]. intros D.
  apply do_one in D as [s' [HI ->]]. cbn [irun] in HI. rewrite Nat2N.id, (find_idx_some _ _ _ F) in HI.
  inversion HI. reflexivity.
Qed.

Lemma do_inst_heap d a t t' : do_inst d a t = Some t' -> heap t' = heap t.
Proof. unfold do_inst. destruct (inst_ids d a); [intros H; inversion H; reflexivity | apply do_heap]. Qed.

Lemma mp_all_heap xs : forall t t', mp_all xs t = Some t' -> heap t' = heap t.
Proof.
  induction xs as [|x xs IH]; intros t t' H; simpl in H; [inversion H; reflexivity|].
  destruct (load_of x t) as [t1|] eqn:L; [|discriminate]. destruct (do [OMP] t1) as [t2|] eqn:D; [|discriminate].
  rewrite (IH _ _ H), (do_heap _ _ _ D), (do_heap_load _ _ _ L). reflexivity.
Qed.

Lemma save_pops_heap k : forall t acc saved t1, save_pops k t acc = Some (saved, t1) -> heap t1 = heap t.
Proof.
  induction k as [|k IH]; intros t acc saved t1 H; simpl in H; [inversion H; reflexivity|].
  destruct (top t); [|discriminate]. destruct (do [OSave; OPop] t) as [tq|] eqn:D; [|discriminate].
  rewrite (IH _ _ _ _ H), (do_heap _ _ _ D). reflexivity.
Qed.

Ltac Rstep_in X :=
  repeat (rewrite ?R_bind, ?R_ret, ?R_assert, ?R_lift, ?R_raise, ?R_stack_m1, ?R_stack_m2, ?R_stack_m3, ?R_stack_m4,
                  ?R_top_is, ?R_top2_are, ?R_gdo, ?R_i_load, ?R_p_index, ?py_index_0' in X;
          cbn [mst stack nth_error is_proved is_pattern is_metavar phi mv_name] in X; cbv beta iota zeta in X).

Ltac finish_heap E :=
  let EHp := fresh "EHp" in
  pose proof E as EHp;
  match goal with |- Some (_, ?tt') = Some (_, _) => idtac | _ => idtac end;
  match goal with
  | |- context [heap ?t'] => idtac
  | _ => idtac
  end.

Ltac Rstep2 := repeat (Rstep; cbn [mst stack memory claims push set_stack nth_error]; cbv beta iota zeta).

Section Agree.
Variable cv : conv.
Variable axioms : list pat.
Notation d := (cv_d cv).
Notation sid := (cv_sid cv).
Hypothesis HAX : forall a, In a (exported d) -> existsb (pat_eqb (axiom_pat d sid a)) axioms = true.
Hypothesis HND : forall a, NoDup (map (mvid d) (metavars_in_order d a)).

(** the instantiation shared by the constructor and the axiom branch, as two facts about the two calls *)
Lemma inst_facts l i a x s t t' :
  find_item d l = Some (i, IAx a) -> stack (mst t) = x :: s -> metavars_in_order d a <> [] ->
  do_inst d a t = Some t' ->
  exists delta, R (gen_get_delta cv (metavars_in_order d a)) t = Some (delta, t) /\ R (i_instantiate x delta) t = Some (tt, t').
Proof.
  intros F HS NE D. unfold do_inst, inst_ids in D.
  destruct (map (mvid d) (metavars_in_order d a)) as [|id ids] eqn:EI.
  { destruct (metavars_in_order d a); [contradiction | discriminate]. }
  rewrite <- EI in D. pose proof D as D0. apply do_one in D0 as [s' [HI _]].
  cbn [irun] in HI. rewrite HS in HI.
  destruct (pop_pats (length (rev (map (mvid d) (metavars_in_order d a)))) s) as [[plugs s2]|] eqn:PP; [|discriminate].
  apply pop_pats_inv in PP as [Es Lp]. rewrite rev_length, map_length in Lp.
  eexists. split.
  - apply (gen_get_delta_agree cv _ plugs x s2 t); [rewrite HS, Es; reflexivity | exact Lp | intros v Hv; eapply mio_memN; exact Hv | apply HND].
  - apply (i_instantiate_agree x _ plugs s2 t t'); [rewrite HS, Es; reflexivity | rewrite map_length; exact Lp | exact D].
Qed.

Lemma do_inst_nil a t t' : metavars_in_order d a = [] -> do_inst d a t = Some t' -> t' = t.
Proof. intros E H. unfold do_inst, inst_ids in H. rewrite E in H. simpl in H. inversion H. reflexivity. Qed.

Lemma nonempty_cases {A} (l:list A) : (py_nonempty l = false /\ l = []) \/ (py_nonempty l = true /\ l <> []).
Proof. destruct l; [left; split; reflexivity | right; split; [reflexivity | discriminate]]. Qed.

Lemma find_item_axiom_in l i a : find_item d l = Some (i, IAx a) -> In (IAx a) d /\ a_label a = l.
Proof.
  intros F. destruct (find_item_spec _ _ _ _ F) as [Nn EL]. split; [eapply nth_error_In; exact Nn | exact EL].
Qed.

Ltac kind_facts F C :=
  unfold cv_pattern_constructors_has, cv_exported_axioms_has, cv_proof_rules_has, cv_fp_has, cv_kind;
  rewrite ?F, ?C; cbv beta iota.


Ltac solve_mp_body :=
  let u := fresh "u" in let x := fresh "x" in let ta := fresh "ta" in let tb := fresh "tb" in let tc := fresh "tc" in
  let L := fresh "L" in let D := fresh "D" in
  intros u x ta tb tc L D;
  destruct (do_mp_shape _ _ D) as [p2 [l0 [r0 [s0 [ES0 EQ0]]]]];
  cbv beta iota zeta; repeat (progress (Rnorm; rewrite ?L, ?ES0, ?D)); destruct u; reflexivity.


Ltac bin_case H :=
  match type of H with do _ ?t = Some ?t' =>
    let H0 := fresh "H0" in let HI := fresh "HI" in let EHp := fresh "EHp" in
    pose proof H as H0; apply do_one in H0 as [? [HI _]];
    destruct t as [[stk mem cl] h o]; cbn [irun mst stack] in HI;
    destruct stk as [|[r|r] [|[l0|l0] s]]; try discriminate;
    Rnorm; rewrite H; Rnorm;
    pose proof (do_heap _ _ _ H) as EHp; destruct t' as [m1 h1 o1]; cbn in EHp |- *; subst h1; reflexivity
  end.

Ltac gen_case F H :=
  match type of F with find_item _ ?l = Some (?i, IAx ?a) =>
  match type of H with match do ?E ?t with _ => _ end = Some ?t' =>
    let t1 := fresh "t1" in let D1 := fresh "D1" in let ES := fresh "ES" in let EH1 := fresh "EH1" in let EH2 := fresh "EH2" in
    let E1 := fresh "E1" in let E2 := fresh "E2" in let delta := fresh "delta" in let G1 := fresh "G1" in let G2 := fresh "G2" in
    destruct (do E t) as [t1|] eqn:D1; [|discriminate];
    pose proof (do_emit_pat _ _ _ (concl_pat_simple _ _ a) D1) as ES;
    pose proof (do_heap _ _ _ D1) as EH1; pose proof (do_inst_heap _ _ _ _ H) as EH2;
    unfold cv_get_axiom_by_name; rewrite F; Rnorm; unfold ax_pattern; rewrite D1; Rnorm; unfold ax_metavars;
    destruct (nonempty_cases (metavars_in_order (cv_d cv) a)) as [[E1 E2]|[E1 E2]]; rewrite E1; cbv iota;
    [ rewrite (do_inst_nil a t1 t' E2 H); Rnorm; destruct t1 as [m1 h1 o1]; cbn in EH1 |- *; subst h1; reflexivity
    | destruct (inst_facts l i a _ _ t1 t' F ES E2 H) as [delta [G1 G2]];
      Rnorm; rewrite ES; Rnorm; unfold cv_get_metavars_in_order; rewrite F; Rnorm; rewrite G1; Rnorm; rewrite G2; Rnorm;
      destruct t' as [m1 h1 o1]; cbn in EH1, EH2 |- *; subst h1; rewrite EH1; reflexivity ]
  end end.

(* the floating-hypothesis test may be a separate short-circuit value ([t <- ret false ;; if t ..]) or already resolved *)
Ltac skip_float_test :=
  match goal with
  | |- context [bind (ret false) _] => rewrite R_bind, R_ret; cbv beta iota
  | _ => idtac
  end.

(** one iteration of the main loop *)
Theorem gen_exec_proof_step_agree labels applied t n t' :
  tstep d sid labels n t = Some t' ->
  R (gen_exec_proof_step cv axioms (mkPf (zenum 1 labels) applied) (py_len (zenum 1 labels)) (heap t) (Z.of_N n)) t
  = Some (heap t', mkT (mst t') (heap t) (out t')).
Proof.
  intros H. unfold tstep in H. unfold gen_exec_proof_step. cbn [pf_labels]. unfold zdict_has.
  rewrite labels_lookup.
  destruct (N.eqb n 0) eqn:E0.
  { (* Z *)
    apply N.eqb_eq in E0. subst n. cbn [negb Z.of_N Z.eqb]. cbv iota.
    destruct (top t) as [x|] eqn:T; [|discriminate]. destruct (do [OSave] t) as [t1|] eqn:D; [|discriminate].
    inversion H; subst t'. clear H. cbn [mst heap out].
    unfold top in T. destruct t as [[stk mem cl] h o]. cbn [mst stack hd_error] in T. destruct stk as [|y stk]; [discriminate|].
    inversion T; subst y. unfold i_save. Rstep. rewrite term_eqb_refl'. Rstep. rewrite D. Rstep.
    pose proof (do_heap _ _ _ D) as EHp. destruct t1 as [m1 h1 o1]. cbn in EHp |- *. subst h1. reflexivity. }
  destruct (Nat.leb (N.to_nat n) (length labels)) eqn:EL.
  2:{ (* back-reference *)
    assert (EN: nth_error labels (N.to_nat n - 1) = None).
    { apply nth_error_None. apply Nat.leb_gt in EL. lia. }
    rewrite EN. cbn [negb]. cbv iota.
    assert (EZ: Z.eqb (Z.of_N n) 0 = false) by (apply Z.eqb_neq; apply N.eqb_neq in E0; lia). rewrite EZ. cbv iota.
    destruct (nth_error (heap t) (N.to_nat n - length labels - 1)) as [x|] eqn:EH; [|discriminate].
    assert (EP: py_index (heap t) (Z.of_N n - py_len (zenum 1 labels) - 1) = Some x).
    { unfold py_index, py_len. rewrite zenum_length. apply Nat.leb_gt in EL.
      assert (E1: (Z.of_N n - Z.of_nat (length labels) - 1 <? 0)%Z = false) by (apply Z.ltb_ge; lia). rewrite E1.
      rewrite <- EH. f_equal. lia. }
    unfold p_index. rewrite EP. Rstep. rewrite H. Rstep.
    pose proof (do_heap_load _ _ _ H) as EHp. destruct t' as [m1 h1 o1]. cbn in EHp |- *. subst h1. reflexivity. }
  destruct (nth_error labels (N.to_nat n - 1)) as [l|] eqn:ENl; [|discriminate].
  cbn [negb]. cbv iota. Rsimp.
  unfold label_step in H.
  destruct (find_item d l) as [[i [l' tc v|a|a pl st]]|] eqn:F; try discriminate.
  - (* floating hypothesis *)
    destruct (N.eqb tc tc_pattern) eqn:ET; [|discriminate].
    kind_facts F F. unfold cv_get_floating_pattern_by_name. rewrite F, ET. Rsimp.
    unfold i_metavar. Rstep. rewrite H. Rstep.
    pose proof (do_heap _ _ _ H) as EHp. destruct t' as [m1 h1 o1]. cbn in EHp |- *. subst h1. reflexivity.
  - destruct (find_item_axiom_in _ _ _ F) as [HIn EA].
    destruct (classify a) eqn:C; try discriminate.
    + kind_facts F C. unfold ctor_step in H. rewrite EA in H.
      destruct l; cbn [label_eqb]; cbv iota; first [ solve [bin_case H] | solve [gen_case F H] ].
    + kind_facts F C. unfold ctor_step in H. rewrite EA in H.
      destruct l; cbn [label_eqb]; cbv iota; first [ solve [bin_case H] | solve [gen_case F H] ].
    + (* axiom or rule of Gamma *)
      kind_facts F C. skip_float_test.
      unfold ax_step in H.
      destruct (save_pops (length (a_ess a)) t []) as [[saved t1]|] eqn:SP; [|discriminate].
      destruct (load_of (TProved (axiom_pat d sid a)) t1) as [t2|] eqn:LD; [|discriminate].
      destruct (do_inst d a t2) as [t3|] eqn:DI; [|discriminate].
      pose proof (save_pops_heap _ _ _ _ _ SP) as EH1. pose proof (do_heap_load _ _ _ LD) as EH2.
      pose proof (do_inst_heap _ _ _ _ DI) as EH3. pose proof (mp_all_heap _ _ _ H) as EH4.
      pose proof (load_of_stack _ _ _ LD) as ES.
      assert (HEX: existsb (pat_eqb (axiom_pat d sid a)) axioms = true) by (apply HAX; apply exported_in; assumption).
      (* what the instantiation part does on t2, whatever surrounds it *)
      assert (INST: (py_nonempty (metavars_in_order d a) = false /\ t3 = t2) \/
                    (py_nonempty (metavars_in_order d a) = true /\
                     exists delta, R (gen_get_delta cv (metavars_in_order d a)) t2 = Some (delta, t2) /\
                                   R (i_instantiate (TProved (axiom_pat d sid a)) delta) t2 = Some (tt, t3))).
      { destruct (nonempty_cases (metavars_in_order d a)) as [[E1 E2]|[E1 E2]].
        - left. split; [exact E1 | eapply do_inst_nil; eassumption].
        - right. split; [exact E1|]. eapply inst_facts; eassumption. }
      rewrite R_bind. unfold cv_get_axiom_by_name at 1. rewrite F, R_lift. cbv beta iota zeta.
      rewrite R_bind. unfold ax_has_antecedents, ax_antecedents, ax_pattern, ax_metavars.
      unfold axiom_pat in LD, HEX, ES, INST.
      destruct (a_ess a) as [|e es] eqn:EE.
      * (* no essential hypotheses *)
        simpl in SP. inversion SP; subst saved t1. clear SP.
        unfold ants_pat in LD, HEX, ES, INST. rewrite EE in LD, HEX, ES, INST. simpl in LD, HEX, ES, INST.
        unfold p_load_axiom. Rnorm. rewrite HEX. Rnorm. rewrite LD. Rnorm.
        simpl in H. inversion H; subst t'.
        destruct INST as [[E1 ->]|[E1 [delta [G1 G2]]]]; rewrite E1; cbv iota.
        -- Rnorm. destruct t2 as [m1 h1 o1]. cbn in EH2 |- *. subst h1. reflexivity.
        -- Rnorm. rewrite ES. Rnorm. unfold cv_get_metavars_in_order. rewrite F. Rnorm. rewrite G1. Rnorm. rewrite G2. Rnorm.
           destruct t3 as [m1 h1 o1]. cbn in EH2, EH3 |- *. subst h1. rewrite EH2. reflexivity.
      * (* essential hypotheses: save/pop each, load the implication chain, instantiate, load + mp each *)
        assert (LA: length (ants_pat d sid a) = length (e :: es)) by (unfold ants_pat; rewrite EE; apply map_length).
        rewrite <- LA in SP. cbv iota. rewrite R_bind.
        match goal with |- context [foldM ?f (ants_pat d sid a) []] => set (body := f) end.
        assert (HB: forall acc p t0 x t4, top t0 = Some x -> do [OSave; OPop] t0 = Some t4 -> R (body acc p) t0 = Some (acc ++ [(tt, x)], t4)).
        { unfold body. solve_save_body. }
        destruct (save_loop_agree body HB (ants_pat d sid a) t [] saved t1 [] SP) as [new [E1 E2]].
        rewrite E2. cbv beta iota. simpl app in E1. subst saved. simpl app.
        assert (NE: ants_pat d sid a <> []) by (unfold ants_pat; rewrite EE; discriminate).
        rewrite R_bind, (gen_convert_to_implication_agree cv _ _ t1 NE). cbv beta iota.
        unfold p_load_axiom. Rnorm. rewrite HEX. Rnorm. rewrite LD. Rnorm.
        assert (MPL: forall (body2 : unit -> unit * term -> M unit),
                  (forall u x ta tb tc, load_of x ta = Some tb -> do [OMP] tb = Some tc -> R (body2 tt (u, x)) ta = Some (tt, tc)) ->
                  R (foldM body2 (rev (map (fun x => (tt, x)) new)) tt) t3 = Some (tt, t')).
        { intros body2 HB2. rewrite <- map_rev. exact (mp_loop_agree body2 HB2 (rev new) t3 t' H). }
        destruct INST as [[E1 ->]|[E1 [delta [G1 G2]]]]; rewrite E1; cbv iota.
        -- Rnorm. match goal with |- context [foldM ?f (rev _) tt] => rewrite (MPL f) end.
           ++ Rnorm. destruct t' as [m1 h1' o1']. cbn in EH4 |- *. subst h1'. rewrite EH2, EH1. reflexivity.
           ++ solve_mp_body.
        -- Rnorm. rewrite ES. Rnorm. unfold cv_get_metavars_in_order. rewrite F. Rnorm. rewrite G1. Rnorm. rewrite G2. Rnorm.
           match goal with |- context [foldM ?f (rev _) tt] => rewrite (MPL f) end.
           ++ Rnorm. destruct t' as [m1 h1' o1']. cbn in EH4 |- *. subst h1'. rewrite EH3, EH2, EH1. reflexivity.
           ++ solve_mp_body.
    + (* the three fixed proof rules *)
      kind_facts F C. skip_float_test.
      destruct l; cbn [label_eqb rule_step] in H |- *; cbv iota;
        try (inversion H; subst t'; Rsimp; destruct t as [m1 h1 o1]; reflexivity).
      * (* prop-1 *)
        change [OProp1; OInst [1; 0]] with ([OProp1] ++ [OInst [1; 0]]) in H. rewrite do_app in H.
        destruct (do [OProp1] t) as [t1|] eqn:D1; [|discriminate].
        pose proof D1 as D1'. apply do_one in D1' as [s1 [HI1 Et1]]. cbn [irun] in HI1. inversion HI1; subst s1. clear HI1.
        pose proof H as H'. apply do_one in H' as [s2' [HI2 _]]. subst t1.
        destruct t as [[stk mem cl] h o]. cbn [irun mst stack push length] in HI2.
        destruct stk as [|[pa|pa] [|[pb|pb] s2]]; try discriminate.
        unfold i_prop1. Rstep. rewrite D1. Rstep2.
        match goal with |- context [i_instantiate ?x ?dl] => change dl with (combine [0; 1] (map TPat (rev [pa; pb]))) end.
        cbn [mst heap out stack memory claims push set_stack] in H |- *.
        match type of H with do _ ?tt = _ => rewrite (i_instantiate_agree (TProved ax_prop1) [0; 1] [pa; pb] s2 tt t' eq_refl eq_refl H) end. Rsimp.
        pose proof (do_heap _ _ _ H) as EHp. destruct t' as [m1 h1 o1]. cbn in EHp |- *. subst h1. reflexivity.
      * (* prop-2 *)
        change [OProp2; OInst [2; 1; 0]] with ([OProp2] ++ [OInst [2; 1; 0]]) in H. rewrite do_app in H.
        destruct (do [OProp2] t) as [t1|] eqn:D1; [|discriminate].
        pose proof D1 as D1'. apply do_one in D1' as [s1 [HI1 Et1]]. cbn [irun] in HI1. inversion HI1; subst s1. clear HI1.
        pose proof H as H'. apply do_one in H' as [s2' [HI2 _]]. subst t1.
        destruct t as [[stk mem cl] h o]. cbn [irun mst stack push length] in HI2.
        destruct stk as [|[pa|pa] [|[pb|pb] [|[pc|pc] s2]]]; try discriminate.
        unfold i_prop2. Rstep. rewrite D1. Rstep2.
        match goal with |- context [i_instantiate ?x ?dl] => change dl with (combine [0; 1; 2] (map TPat (rev [pa; pb; pc]))) end.
        cbn [mst heap out stack memory claims push set_stack] in H |- *.
        match type of H with do _ ?tt = _ => rewrite (i_instantiate_agree (TProved ax_prop2) [0; 1; 2] [pa; pb; pc] s2 tt t' eq_refl eq_refl H) end. Rsimp.
        pose proof (do_heap _ _ _ H) as EHp. destruct t' as [m1 h1 o1]. cbn in EHp |- *. subst h1. reflexivity.
      * (* modus ponens and its cleanup *)
        unfold mp_step in H. destruct (do [OMP] t) as [t1|] eqn:D1; [|discriminate].
        destruct (top t1) as [c|] eqn:T1; [|discriminate].
        destruct (do [OSave; OPop; OPop; OPop] t1) as [t2|] eqn:D2; [|discriminate].
        pose proof (do_heap _ _ _ D1) as EH1. pose proof (do_heap_load _ _ _ H) as EH3.
        destruct t as [[stk mem cl] h o].
        pose proof D1 as D1'. apply do_one in D1' as [s1 [HI1 Et1]]. cbn [irun mst stack] in HI1.
        destruct stk as [|[p2|p2] [|[q|q] stk]]; try discriminate. destruct q; try discriminate.
        destruct (pat_eqb q1 p2) eqn:EQ; [|discriminate]. inversion HI1; subst s1. clear HI1. subst t1.
        unfold top in T1. cbn [mst stack hd_error set_stack] in T1. inversion T1; subst c. clear T1.
        unfold do in D2. cbn [iruns irun mst stack memory claims set_stack] in D2.
        destruct stk as [|a0 [|b0 s0]]; try discriminate.
        cbn [iruns irun mst stack memory claims set_stack] in D2. inversion D2; subst t2. clear D2.
        repeat (Rnorm; rewrite ?EQ; unfold do; cbn [iruns irun mst stack memory claims heap out push set_stack app]; rewrite ?EQ; cbv beta iota zeta).
        match type of H with load_of ?c ?st = _ => match goal with |- context [load_of c ?st2] =>
          replace st2 with st by (cbn [set_stack stack memory claims mst heap out]; rewrite <- ?app_assoc; reflexivity) end end.
        rewrite H. Rsimp.
        destruct t' as [m1 h1' o1']. cbn in EH3 |- *. subst h1'. reflexivity.
Qed.

End Agree.

(** ---- the whole loop, exec_proof, main's assembly *)
Lemma R_heap_irrelevant {A} (m:M A) s h h0 o :
  R m (mkT s h0 o) = match R m (mkT s h o) with Some (x, t) => Some (x, mkT (mst t) h0 (out t)) | None => None end.
Proof. unfold R, g_of. cbn [mst out heap]. destruct (m (mkG s o)) as [[x g]|]; reflexivity. Qed.

Section Whole.
Variable cv : conv.
Notation d := (cv_d cv).
Notation sid := (cv_sid cv).
Hypothesis HND : forall a, NoDup (map (mvid d) (metavars_in_order d a)).
Hypothesis HFI : forall a, In a (exported d) -> exists i, find_item d (a_label a) = Some (i, IAx a).

Definition axs := map (axiom_pat d sid) (exported d).

Lemma HAX_axs : forall a, In a (exported d) -> existsb (pat_eqb (axiom_pat d sid a)) axs = true.
Proof.
  intros a Ha. apply existsb_exists. exists (axiom_pat d sid a). split; [apply in_map; exact Ha | apply pat_eqb_refl].
Qed.

Lemma gen_loop_agree labels applied steps : forall t t' h0,
  trun d sid labels steps t = Some t' ->
  R (foldM (gen_exec_proof_step cv axs (mkPf (zenum 1 labels) applied) (py_len (zenum 1 labels))) (map Z.of_N steps) (heap t))
    (mkT (mst t) h0 (out t))
  = Some (heap t', mkT (mst t') h0 (out t')).
Proof.
  induction steps as [|n steps IH]; intros t t' h0 H; simpl in H.
  - inversion H; subst. apply R_foldM_nil.
  - destruct (tstep d sid labels n t) as [t1|] eqn:S; [|discriminate].
    cbn [map]. rewrite R_foldM_cons.
    rewrite (R_heap_irrelevant _ (mst t) (heap t) h0 (out t)).
    replace (mkT (mst t) (heap t) (out t)) with t by (destruct t; reflexivity).
    rewrite (gen_exec_proof_step_agree cv axs HAX_axs HND labels applied t n t1 S). cbn [mst out].
    apply IH. exact H.
Qed.

Lemma gen_get_lemma_by_name_agree target a pl steps t :
  find_proof d target = Some (a, pl, steps) ->
  R (gen_get_lemma_by_name cv target) t
  = Some (mkLm a (mkPf (zenum 1 (conv_labels d a pl)) (map Z.of_N steps)), t).
Proof.
  intros F. unfold gen_get_lemma_by_name. rewrite F. rewrite R_bind, gen_split_proof_labels_agree. cbv beta iota.
  rewrite R_ret. rewrite zdict_extend_zenum. reflexivity.
Qed.

(** exec_proof: label table, loop, final comparison with the claim, publish *)
Theorem gen_exec_proof_agree target a pl steps t0 t t'' :
  find_proof d target = Some (a, pl, steps) -> heap t0 = [] ->
  trun d sid (conv_labels d a pl) steps t0 = Some t ->
  match top t with
  | Some (TProved p) => if pat_eqb p (lemma_pat d sid a) then do [OPublish] t else None
  | _ => None end = Some t'' ->
  exists h, R (gen_exec_proof cv target axs) t0 = Some (tt, mkT (mst t'') h (out t'')).
Proof.
  intros F H0 TR FIN. unfold gen_exec_proof.
  rewrite R_bind, (gen_get_lemma_by_name_agree _ _ _ _ _ F). cbv beta iota zeta. cbn [lm_proof pf_labels pf_applied].
  rewrite R_bind.
  pose proof (gen_loop_agree (conv_labels d a pl) (map Z.of_N steps) steps t0 t (heap t0) TR) as GL.
  replace (mkT (mst t0) (heap t0) (out t0)) with t0 in GL by (destruct t0; reflexivity). rewrite H0 in GL.
  rewrite GL. cbv beta iota.
  destruct (top t) as [[p|p]|] eqn:T; try discriminate. destruct (pat_eqb p (lemma_pat d sid a)) eqn:E; [|discriminate].
  unfold top in T. destruct t as [[stk mem cl] h o]. cbn [mst stack hd_error] in T. destruct stk as [|y stk]; [discriminate|].
  inversion T; subst y.
  (* the target lemma may be looked up again here, or the first lookup re-used *)
  repeat (Rstep; rewrite ?(gen_get_lemma_by_name_agree _ _ _ _ _ F)).
  unfold lm_pattern, mk_proved. cbn [lm_a Instr.term_eqb]. rewrite E. Rstep.
  unfold i_publish_proof. Rstep. rewrite term_eqb_refl'. Rstep.
  match goal with |- context [do [OPublish] ?st] => assert (DP: do [OPublish] st = Some (mkT (mst t'') (heap st) (out t''))) end.
  { unfold do in FIN |- *. cbn [mst out heap] in FIN |- *. destruct (iruns Proof [OPublish] _); [|discriminate]. inversion FIN. reflexivity. }
  rewrite DP. Rstep. eexists. reflexivity.
Qed.

(** main: the axioms handed to the skeleton are the exported axioms' patterns, the claims the target's *)
Theorem gen_extracted_agree target a pl steps t :
  find_proof d target = Some (a, pl, steps) ->
  R (gen_extracted cv target) t = Some ((axs, [lemma_pat d sid a]), t).
Proof.
  intros F. unfold gen_extracted. cbv zeta. rewrite R_bind.
  match goal with |- context [foldM ?f _ _] => set (body := f) end.
  assert (G: forall l acc, incl l (exported d) ->
             R (foldM body (map a_label l) acc) t = Some (acc ++ map (axiom_pat d sid) l, t)).
  { induction l as [|b l IH]; intros acc HI.
    - cbn [map]. rewrite R_foldM_nil, app_nil_r. reflexivity.
    - cbn [map]. rewrite R_foldM_cons. unfold body at 1. cbv beta iota.
      destruct (HFI b (HI b (or_introl eq_refl))) as [i Fi].
      rewrite R_bind. unfold cv_get_axiom_by_name. rewrite Fi, R_lift. cbv beta iota zeta.
      assert (EP: R (if ax_has_antecedents b
                     then (t4 <- gen_convert_to_implication cv (ax_antecedents cv b) (ax_pattern cv b) ;; ret (acc ++ [t4]))
                     else ret (acc ++ [ax_pattern cv b]))%gen t = Some (acc ++ [axiom_pat d sid b], t)).
      { unfold ax_has_antecedents, ax_antecedents, ax_pattern, axiom_pat, ants_pat. destruct (a_ess b) as [|e es] eqn:EE.
        - simpl. apply R_ret.
        - rewrite R_bind, gen_convert_to_implication_agree by discriminate. cbv beta iota. apply R_ret. }
      rewrite EP. rewrite IH by (intros x Hx; apply HI; right; exact Hx). rewrite <- app_assoc. reflexivity. }
  unfold cv_exported_axioms. rewrite (G (exported d) [] (incl_refl _)). cbv beta iota. simpl app.
  rewrite R_bind, (gen_get_lemma_by_name_agree _ _ _ _ _ F). cbv beta iota zeta. rewrite R_ret. reflexivity.
Qed.

End Whole.

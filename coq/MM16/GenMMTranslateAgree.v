(** C16, tie by translation: the definitions GENERATED from the Python source ([Gen/MMTranslate.v]) agree
    with the hand-written model ([MM16/Translate.v]).

    Direction proved (and the one [C16_source_translate] needs): whenever the model's function succeeds,
    the generated one succeeds with the same result (same emitted instructions, same tracked state, same
    Z-memory).  Where the model fails the generated code may fail earlier or later (the Python asserts are
    not all mirrored by the model); nothing is claimed there.
    Hypotheses, stated once: [proofexp._axioms] contains the exported axioms' patterns, and the metavariable
    ids of one assertion are pairwise distinct (Python's [delta] is a dict: equal keys would collapse). *)
From Coq Require Import ZArith NArith PeanoNat List Bool Lia ZifyN ZifyNat.
From Pi2 Require Import ML.Syntax ML.Subst ML.Machine ML.Facts
  MM16.Verify MM16.Convert MM16.Instr MM16.Translate MM16.Fragment
  MM16.InstrFacts MM16.ConvertFacts MM16.SimFacts MM16.VerifyFacts MM16.GenPrims MM16.GenRun Gen.MMTranslate.
Import ListNotations.
Open Scope N_scope.

(** ---- the label table as the Python dict {1: l1, 2: l2, ...} *)
Fixpoint zenum (k:Z) (ls:list label) : zdict :=
  match ls with [] => [] | l::r => (k, l) :: zenum (k + 1) r end.

Lemma zdict_get_zenum ls : forall k z, (k <= z)%Z ->
  zdict_get (zenum k ls) z = nth_error ls (Z.to_nat (z - k)).
Proof.
  induction ls as [|l ls IH]; intros k z H; simpl.
  - destruct (Z.to_nat (z - k)); reflexivity.
  - destruct (Z.eqb k z) eqn:E.
    + apply Z.eqb_eq in E. subst. rewrite Z.sub_diag. reflexivity.
    + apply Z.eqb_neq in E. rewrite IH by lia.
      replace (Z.to_nat (z - k)) with (S (Z.to_nat (z - (k + 1)))) by lia. reflexivity.
Qed.

Lemma zdict_get_zenum_lt ls : forall k z, (z < k)%Z -> zdict_get (zenum k ls) z = None.
Proof.
  induction ls as [|l ls IH]; intros k z H; simpl; [reflexivity|].
  destruct (Z.eqb k z) eqn:E; [apply Z.eqb_eq in E; lia|]. apply IH. lia.
Qed.

Lemma zenum_length ls : forall k, length (zenum k ls) = length ls.
Proof. induction ls; intros; simpl; [reflexivity|]. rewrite IHls. reflexivity. Qed.

(** a key of the table: [1 <= n <= len] *)
Lemma labels_lookup ls (n:N) :
  zdict_get (zenum 1 ls) (Z.of_N n) =
  if N.eqb n 0 then None else nth_error ls (N.to_nat n - 1).
Proof.
  destruct (N.eqb n 0) eqn:E.
  - apply N.eqb_eq in E. subst. apply zdict_get_zenum_lt. lia.
  - apply N.eqb_neq in E. rewrite zdict_get_zenum by lia. f_equal.
    rewrite Z2Nat.inj_sub by lia. rewrite <- Z_N_nat, N2Z.id. reflexivity.
Qed.

Lemma zdict_set_fresh k v d : zdict_get d k = None -> zdict_set k v d = d ++ [(k, v)].
Proof.
  induction d as [|[k' v'] d IH]; simpl; intros H; [reflexivity|].
  destruct (Z.eqb k' k); [discriminate|]. rewrite IH by exact H. reflexivity.
Qed.

Lemma zenum_app ls1 ls2 : forall k, zenum k (ls1 ++ ls2) = zenum k ls1 ++ zenum (k + Z.of_nat (length ls1)) ls2.
Proof.
  induction ls1 as [|l ls1 IH]; intros k; [simpl; rewrite Z.add_0_r; reflexivity|].
  cbn [app zenum length]. rewrite IH, Nat2Z.inj_succ.
  replace (k + Z.succ (Z.of_nat (length ls1)))%Z with (k + 1 + Z.of_nat (length ls1))%Z by lia. reflexivity.
Qed.

Lemma zdict_get_app_none d1 d2 k : zdict_get d1 k = None -> zdict_get (d1 ++ d2) k = zdict_get d2 k.
Proof.
  induction d1 as [|[k' v'] d1 IH]; simpl; intros H; [reflexivity|].
  destruct (Z.eqb k' k); [discriminate | apply IH; exact H].
Qed.

Lemma zenum_snoc ls l : zdict_set (py_len (zenum 1 ls) + 1)%Z l (zenum 1 ls) = zenum 1 (ls ++ [l]).
Proof.
  unfold py_len. rewrite zenum_length. rewrite zdict_set_fresh.
  - rewrite zenum_app. cbn [zenum]. rewrite (Z.add_comm 1). reflexivity.
  - rewrite zdict_get_zenum by lia.
    replace (Z.to_nat (Z.of_nat (length ls) + 1 - 1)) with (length ls) by lia.
    apply nth_error_None. lia.
Qed.

Lemma zdict_extend_zenum pl : forall ls, zdict_extend (zenum 1 ls) pl = zenum 1 (ls ++ pl).
Proof.
  induction pl as [|l pl IH]; intros ls; simpl; [rewrite app_nil_r; reflexivity|].
  rewrite zenum_snoc, IH, <- app_assoc. reflexivity.
Qed.

Ltac Rsimp := repeat (rewrite ?R_bind, ?R_ret, ?R_assert, ?R_lift, ?R_raise; cbv beta iota).

(** ---- converter.split_proof: mandatory floating hypotheses in database order *)
Definition float_labels_for (d:db) (vs:list N) : list label :=
  map (fun f => fst (fst f)) (filter (fun f => memN (snd f) vs) (floats d)).

Lemma float_labels_cons it d vs :
  float_labels_for (it :: d) vs =
  (match it with IFloat l _ v => if memN v vs then [l] else [] | _ => [] end) ++ float_labels_for d vs.
Proof.
  unfold float_labels_for, floats. simpl. destruct it as [l tc v|a|a pl st]; simpl; try reflexivity.
  destruct (memN v vs); reflexivity.
Qed.

Lemma gen_split_proof_labels_agree cv a t :
  R (gen_split_proof_labels cv a) t = Some (zenum 1 (float_labels_for (cv_d cv) (svars (a_stmt a))), t).
Proof.
  unfold gen_split_proof_labels. cbv zeta.
  match goal with |- context [foldM ?f _ _] => set (body := f) end.
  assert (G: forall its ls t0,
    R (foldM body its (zenum 1 ls, (Z.of_nat (length ls) + 1)%Z)) t0
    = Some ((zenum 1 (ls ++ float_labels_for its (stmt_metavariables a)),
             (Z.of_nat (length (ls ++ float_labels_for its (stmt_metavariables a))) + 1)%Z), t0)).
  { induction its as [|it its IH]; intros ls t0.
    - rewrite R_foldM_nil. unfold float_labels_for. simpl. rewrite app_nil_r. reflexivity.
    - rewrite R_foldM_cons. unfold body at 1. cbv beta iota.
      rewrite float_labels_cons. destruct it as [l tc v|b|b pl st]; cbn [is_floating fl_metavariable fl_label item_label]; Rsimp.
      + destruct (memN v (stmt_metavariables a)); Rsimp.
        * replace (Z.of_nat (length ls) + 1)%Z with (py_len (zenum 1 ls) + 1)%Z by (unfold py_len; rewrite zenum_length; reflexivity).
          rewrite zenum_snoc.
          replace (py_len (zenum 1 ls) + 1 + 1)%Z with (Z.of_nat (length (ls ++ [l])) + 1)%Z
            by (unfold py_len; rewrite zenum_length, app_length; simpl; lia).
          rewrite IH. rewrite <- app_assoc. reflexivity.
        * rewrite IH. reflexivity.
      + rewrite IH. reflexivity.
      + rewrite IH. reflexivity. }
  rewrite R_bind. specialize (G (cv_d cv) [] t). simpl in G. rewrite G. Rsimp. reflexivity.
Qed.

(** ---- convert_to_implication *)
Lemma gen_convert_to_implication_agree cv ants c t :
  ants <> [] -> R (gen_convert_to_implication cv ants c) t = Some (chain_imp ants c, t).
Proof.
  revert t. induction ants as [|a ants IH]; intros t H; [contradiction|].
  cbn [gen_convert_to_implication]. destruct ants as [|b ants].
  - Rsimp. reflexivity.
  - Rsimp. rewrite IH by discriminate. Rsimp. reflexivity.
Qed.

(** M6 / C16: [translate.exec_proof] and the module skeleton of [translate.main] for the supported
    fragment, as a function from a database and a target label to the three byte strings.

    The translator tracks the checker state while it emits ([StatefulInterpreter] under the
    serializer); the model tracks it with [Instr.irun], the direct semantics of the emitted
    instructions.  [do is t] = "emit [is]"; it fails where the tracked state makes the
    corresponding Python call fail (assertion / IndexError).  Definitions only. *)
From Coq Require Import NArith List Bool.
From Pi2 Require Import ML.Syntax ML.Subst ML.Machine MM16.Verify MM16.Convert MM16.Instr.
Import ListNotations.
Open Scope N_scope.

Record tst := mkT { mst : state; heap : list term; out : list oinstr }.

Definition do (is:list oinstr) (t:tst) : option tst :=
  match iruns Proof is (mst t) with
  | Some s => Some (mkT s (heap t) (out t ++ is))
  | None => None
  end.

Definition top (t:tst) : option term := hd_error (stack (mst t)).

(** [interpreter.load(name, x)]: [Load memory.index(x)] *)
Definition load_of (x:term) (t:tst) : option tst :=
  match find_idx x (memory (mst t)) with
  | Some i => do [OLoad (N.of_nat i)] t
  | None => None
  end.

(** ---- the converter's view of the database *)
Inductive akind := KNotation | KCtor | KAxiom | KRule | KIgnored.

Definition is_rule_label (l:label) : bool :=
  match l with LProp1 | LProp2 | LMp | LRuleOther _ => true | _ => false end.

Definition classify (a:assertion) : akind :=
  match notation_decl (IAx a) with
  | Some _ => KNotation
  | None =>
      if N.eqb (fst (a_stmt a)) tc_proved then (if is_rule_label (a_label a) then KRule else KAxiom)
      else if N.eqb (fst (a_stmt a)) tc_pattern then KCtor
      else KIgnored
  end.

(** [converter.exported_axioms]: [|-] axioms that are neither constructors nor proof rules, in order *)
Definition exported (d:db) : list assertion :=
  flat_map (fun it => match it with
                      | IAx a => match classify a with KAxiom => [a] | _ => [] end
                      | _ => [] end) d.

(** [converter.lemmas]: the [$p |- ...] statements, in order *)
Definition lemmas (d:db) : list assertion :=
  flat_map (fun it => match it with
                      | IProv a _ _ => if N.eqb (fst (a_stmt a)) tc_proved then [a] else []
                      | _ => [] end) d.

(** [get_metavars_in_order]: the assertion's metavariables in the order of their [$f] statements *)
Definition metavars_in_order (d:db) (a:assertion) : list N :=
  filter (fun v => memN v (mand_vars a)) (pattern_floats d).

(** ---- one proof step *)
Section Conv.
Variable d : db.
Variable sid : N -> N.

Definition inst_ids (a:assertion) : list N := map (mvid d) (metavars_in_order d a).

Definition do_inst (a:assertion) (t:tst) : option tst :=
  match inst_ids a with
  | [] => Some t
  | ids => do [OInst (rev ids)] t
  end.

(** [for _ in antecedents: save; pop] — returns the saved terms in saving order *)
Fixpoint save_pops (k:nat) (t:tst) (saved:list term) : option (list term * tst) :=
  match k with
  | O => Some (saved, t)
  | S k' => match top t with
            | Some x => match do [OSave; OPop] t with
                        | Some t' => save_pops k' t' (saved ++ [x])
                        | None => None end
            | None => None end
  end.

(** [for eh in reversed(saved): load eh; do_mp()] *)
Fixpoint mp_all (xs:list term) (t:tst) : option tst :=
  match xs with
  | [] => Some t
  | x::r => match load_of x t with
            | Some t1 => match do [OMP] t1 with
                         | Some t2 => mp_all r t2
                         | None => None end
            | None => None end
  end.

Definition ax_step (a:assertion) (t:tst) : option tst :=
  match save_pops (length (a_ess a)) t [] with
  | Some (saved, t1) =>
      match load_of (TProved (axiom_pat d sid a)) t1 with
      | Some t2 => match do_inst a t2 with
                   | Some t3 => mp_all (rev saved) t3
                   | None => None end
      | None => None end
  | None => None
  end.

Definition ctor_step (a:assertion) (t:tst) : option tst :=
  match a_label a with
  | LAppIsPattern => do [OApp] t
  | LImpIsPattern => do [OImp] t
  | _ => match do (emit_pat (concl_pat d sid a)) t with
         | Some t1 => do_inst a t1
         | None => None end
  end.

Definition mp_step (t:tst) : option tst :=
  match do [OMP] t with
  | Some t1 =>
      match top t1 with
      | Some c => match do [OSave; OPop; OPop; OPop] t1 with
                  | Some t2 => load_of c t2
                  | None => None end
      | None => None end
  | None => None
  end.

Definition rule_step (l:label) (t:tst) : option tst :=
  match l with
  | LProp1 => do [OProp1; OInst [1; 0]] t
  | LProp2 => do [OProp2; OInst [2; 1; 0]] t
  | LMp => mp_step t
  | _ => Some t      (* any other 'proof-rule-*' label: nothing is emitted *)
  end.

Definition label_step (l:label) (t:tst) : option tst :=
  match find_item d l with
  | Some (_, IAx a) =>
      match classify a with
      | KNotation | KCtor => ctor_step a t
      | KAxiom => ax_step a t
      | KRule => rule_step l t
      | KIgnored => None
      end
  | Some (_, IFloat _ tc v) => if N.eqb tc tc_pattern then do [OMeta (mvid d v)] t else None
  | Some (_, IProv _ _ _) | None => None
  end.

Definition tstep (labels:list label) (n:N) (t:tst) : option tst :=
  if N.eqb n 0 then
    match top t with
    | Some x => match do [OSave] t with
                | Some t' => Some (mkT (mst t') (heap t' ++ [x]) (out t'))
                | None => None end
    | None => None end
  else
    let k := N.to_nat n in
    if Nat.leb k (length labels) then
      match nth_error labels (k - 1) with
      | Some l => label_step l t
      | None => None end
    else
      match nth_error (heap t) (k - length labels - 1) with
      | Some x => load_of x t
      | None => None end.

Fixpoint trun (labels:list label) (steps:list N) (t:tst) : option tst :=
  match steps with
  | [] => Some t
  | n::r => match tstep labels n t with Some t' => trun labels r t' | None => None end
  end.

(** [split_proof] after the D12 repair: the floating statements of the database, in order, whose
    variable occurs in the target statement; then the parenthesised labels *)
Definition conv_labels (a:assertion) (pl:list label) : list label :=
  map (fun f => fst (fst f)) (filter (fun f => memN (snd f) (svars (a_stmt a))) (floats d)) ++ pl.

Fixpoint find_proof (dd:db) (target:label) : option (assertion * list label * list N) :=
  match dd with
  | [] => None
  | IProv a pl steps :: r => if label_eqb target (a_label a) then Some (a, pl, steps) else find_proof r target
  | _ :: r => find_proof r target
  end.

Definition gamma_instrs : list oinstr :=
  flat_map (fun a => emit_pat (axiom_pat d sid a) ++ [OPublish]) (exported d).

(** [claims_of]: which lemmas are published as claims.  [translate.main] publishes the claim of the
    target only (after the repair recorded as D16a; before it, every [$p] of the database). *)
Definition lemma_pat (a:assertion) : pat := img d sid (stmt_term (a_stmt a)).
Definition claim_instrs (cl:list assertion) : list oinstr :=
  flat_map (fun a => emit_pat (lemma_pat a) ++ [OPublish]) (rev cl).

End Conv.

(** ---- the symbol table: first-emission order over the three phases *)
Definition step_ctor_pats (d:db) (labels:list label) (steps:list N) : list pat :=
  flat_map (fun n =>
    let k := N.to_nat n in
    if N.eqb n 0 then [] else
    if Nat.leb k (length labels) then
      match nth_error labels (k - 1) with
      | Some l =>
          match find_item d l with
          | Some (_, IAx a) =>
              match classify a, a_label a with
              | (KNotation | KCtor), (LAppIsPattern | LImpIsPattern) => []
              | (KNotation | KCtor), _ => [concl_pat d (fun c => c) a]
              | _, _ => [] end
          | _ => [] end
      | None => [] end
    else []) steps.

Definition sym_table (d:db) (claims:list assertion) (labels:list label) (steps:list N) : list N :=
  nodupN (flat_map psyms
    (map (axiom_pat d (fun c => c)) (exported d)
     ++ map (lemma_pat d (fun c => c)) (rev claims)
     ++ step_ctor_pats d labels steps)) [].

Definition small (bs:list N) : bool := forallb (fun b => N.ltb b 256) bs.

(** [all_claims = true] models the pinned [translate.main] (every [$p] is published as a claim);
    [false] the repaired one (only the target). *)
Definition translate_raw (all_claims:bool) (d:db) (target:label) : option (list N * list N * list N) :=
  match find_proof d target with
  | None => None
  | Some (a, pl, steps) =>
      if negb (N.eqb (fst (a_stmt a)) tc_proved) then None else
      let cl := if all_claims then lemmas d else [a] in
      let labels := conv_labels d a pl in
      let tbl := sym_table d cl labels steps in
      let sid := fun c => idx_or0 c tbl in
      let gi := gamma_instrs d sid in
      let ci := claim_instrs d sid cl in
      match iruns Gamma gi st0 with
      | None => None
      | Some s1 =>
          match iruns Claim ci (set_stack [] s1) with
          | None => None
          | Some s2 =>
              match trun d sid labels steps (mkT (set_stack [] s2) [] []) with
              | None => None
              | Some t =>
                  match top t with
                  | Some (TProved p) =>
                      if pat_eqb p (lemma_pat d sid a) then
                        match do [OPublish] t with
                        | Some t' =>
                            Some (encode gi, encode ci, encode (out t'))
                        | None => None end
                      else None
                  | _ => None end
              end
          end
      end
  end.

(** Python's [bytes([...])] raises for a value above 255 *)
Definition translate_gen (all_claims:bool) (d:db) (target:label) : option (list N * list N * list N) :=
  match translate_raw all_claims d target with
  | Some (g, c, p) => if small g && small c && small p then Some (g, c, p) else None
  | None => None
  end.

Definition translate := translate_gen false.

(** what the property says must be published: the images of the exported axioms (rules with their
    antecedents as an implication chain) and the image of the target statement, under the symbol
    numbering the translation uses *)
Definition sid_of (all_claims:bool) (d:db) (target:label) : option (N -> N) :=
  match find_proof d target with
  | None => None
  | Some (a, pl, steps) =>
      let cl := if all_claims then lemmas d else [a] in
      let tbl := sym_table d cl (conv_labels d a pl) steps in
      Some (fun c => idx_or0 c tbl)
  end.

Definition spec_images (all_claims:bool) (d:db) (target:label) : option (list pat * pat) :=
  match find_proof d target, sid_of all_claims d target with
  | Some (a, _, _), Some sid => Some (map (axiom_pat d sid) (exported d), lemma_pat d sid a)
  | _, _ => None
  end.

(** C16: the main theorem.  For a database in the fragment whose target proof verifies under the
    reference Metamath verifier, the translation exists, the checker model accepts its three byte
    strings, the Gamma phase publishes exactly the images of the exported axioms/rules and the Claim
    phase exactly the image of the target statement. *)
From Coq Require Import NArith PeanoNat List Bool Lia.
From Pi2 Require Import ML.Syntax ML.Subst ML.Machine ML.Facts
  MM16.Verify MM16.Convert MM16.Instr MM16.Translate MM16.Fragment
  MM16.InstrFacts MM16.ConvertFacts MM16.SimFacts MM16.VerifyFacts MM16.Sim MM16.Step MM16.Rules MM16.Compose.
Import ListNotations.
Open Scope N_scope.

Lemma in_fragment_parts d target : in_fragment d target = true ->
  floats_first d = true /\
  forallb (fun f => N.eqb (snd (fst f)) tc_pattern) (floats d) = true /\
  nodupb (float_vars d) = true /\
  nodup_labels (map item_label d) = true /\
  env_ok (env_of d) = true /\
  forallb (fun it => match it with IAx a => axiom_ok d a | _ => true end) d = true /\
  target_ok d target = true.
Proof.
  unfold in_fragment. intros H.
  repeat (apply andb_true_iff in H as [H ?]). repeat split; assumption.
Qed.

(** the result of a successful run, as a record of facts *)
Definition accepted_with (d:db) (sid:N->N) (a:assertion) (g c p:list N) : Prop :=
  exists s1 s2 s3,
    exec g0 Gamma g st0 = Some s1 /\
    stack s1 = [] /\ memory s1 = map (fun x => TProved (axiom_pat d sid x)) (exported d) /\ claims s1 = [] /\
    exec g0 Claim c (set_stack [] s1) = Some s2 /\
    stack s2 = [] /\ memory s2 = memory s1 /\ claims s2 = [img d sid (stmt_term (a_stmt a))] /\
    exec g0 Proof p (set_stack [] s2) = Some s3 /\ claims s3 = [] /\
    verify g0 g c p = Some s3.

Theorem translate_correct d target :
  mm_verify d target = true -> in_fragment d target = true ->
  exists g c p a pl steps sid,
    translate_raw false d target = Some (g, c, p) /\
    find_proof d target = Some (a, pl, steps) /\ sid_of false d target = Some sid /\
    accepted_with d sid a g c p.
Proof.
  intros MV FR.
  destruct (in_fragment_parts _ _ FR) as (FF & HPF & HND & NL & HENV & AX & TG).
  unfold mm_verify in MV.
  destruct (find_target d [] target) as [[[[pre a] pl] steps]|] eqn:FT; [|discriminate].
  destruct (find_target_spec _ _ _ _ _ _ _ FT) as [pre' [post [EP [ED FP]]]]. simpl in EP. subst pre'.
  unfold target_ok in TG. rewrite FP in TG.
  repeat (apply andb_true_iff in TG as [TG ?]).
  assert (EE: a_ess a = []) by (destruct (a_ess a); [reflexivity | discriminate]).
  apply N.eqb_eq in H2. rename H2 into ETC. rename H1 into H1T. rename H0 into TO. rename H into LO.
  pose proof (stmt_one _ H1T) as ES. rewrite ETC in ES. set (tm := stmt_term (a_stmt a)) in *.
  (* label tables agree *)
  assert (EFL: floats pre = floats d).
  { rewrite ED. apply floats_prefix; [rewrite <- ED; exact FF | reflexivity]. }
  assert (ELB: proof_labels pre a pl = conv_labels d a pl).
  { unfold proof_labels, conv_labels, mand_floats, mand_vars. rewrite EE, EFL. reflexivity. }
  rewrite ELB in MV.
  destruct (mm_run pre a (conv_labels d a pl) steps ([], [])) as [[ms mh]|] eqn:MR; [|discriminate].
  destruct ms as [|s [|? ?]]; try discriminate. apply stmt_eqb_eq in MV. subst s.
  (* unfold the translation *)
  unfold translate_raw, sid_of. rewrite FP. rewrite ETC. rewrite N.eqb_refl. simpl negb. cbv iota.
  set (labels := conv_labels d a pl) in *.
  set (tbl := sym_table d [a] labels steps).
  set (sid := fun c => idx_or0 c tbl).
  rewrite (gamma_ok d sid).
  set (s1 := mkst [] (map (fun x => TProved (axiom_pat d sid x)) (exported d)) []).
  rewrite (claim_ok d sid a s1).
  set (s2 := mkst [] (memory s1) (lemma_pat d sid a :: claims s1)).
  set (t0 := mkT (set_stack [] s2) [] []).
  assert (I0: inv d sid [lemma_pat d sid a] [] [] t0).
  { constructor; simpl; try constructor.
    - intros x [].
    - intros b Hb. apply in_map_iff. exists b. split; [reflexivity | exact Hb]. }
  assert (LOK: forall l, In l labels -> label_ok d l = true).
  { intros l Hl. rewrite forallb_forall in LO. apply LO. exact Hl. }
  destruct (trun_sim d sid FF HPF HND HENV AX [lemma_pat d sid a] pre post a pl steps labels ED EE LOK
              steps [] [] _ _ t0 I0 MR) as [t [TR [I P]]].
  rewrite TR.
  pose proof (inv_stack _ _ _ _ _ _ I) as HS. rewrite ES in HS.
  destruct (stack (mst t)) as [|x stk] eqn:EST; [inversion HS|].
  assert (Hx: rel d sid (tc_proved, [tm]) x) by (inversion HS; assumption).
  assert (ESK: stk = []) by (inversion HS as [|? ? ? ? ? Hr]; inversion Hr; reflexivity). subst stk.
  apply rel_proved in Hx. subst x.
  unfold top. rewrite EST. simpl hd_error. cbv iota.
  unfold lemma_pat at 1. fold tm. rewrite pat_eqb_refl.
  assert (RP: iruns Proof [OPublish] (mst t) = Some (mkst [] (memory (mst t)) [])).
  { simpl. rewrite (inv_claims _ _ _ _ _ _ I). rewrite EST. unfold lemma_pat. fold tm. rewrite pat_eqb_refl. reflexivity. }
  rewrite (do_ok _ _ _ RP). simpl out.
  do 7 eexists. split; [reflexivity|]. split; [reflexivity|]. split; [reflexivity|].
  (* acceptance *)
  destruct P as [is [OI RI]]. simpl in OI. rewrite OI.
  assert (G: exec g0 Gamma (encode (gamma_instrs d sid)) st0 = Some s1) by (apply exec_encode; apply gamma_ok).
  assert (C: exec g0 Claim (encode (claim_instrs d sid [a])) (set_stack [] s1) = Some s2) by (apply exec_encode; apply claim_ok).
  assert (PR: exec g0 Proof (encode (is ++ [OPublish])) (set_stack [] s2) = Some (mkst [] (memory (mst t)) [])).
  { apply exec_encode. rewrite iruns_app. simpl mst in RI. rewrite RI. exact RP. }
  exists s1, s2, (mkst [] (memory (mst t)) []).
  repeat split; try assumption; try reflexivity.
  unfold verify. rewrite G, C, PR. reflexivity.
Qed.

(** the byte-size side condition of the real serializer ([bytes([...])] raises above 255) *)
Corollary translate_correct_small d target g c p :
  translate_raw false d target = Some (g, c, p) ->
  small g && small c && small p = true -> translate d target = Some (g, c, p).
Proof. intros H S. unfold translate, translate_gen. rewrite H, S. reflexivity. Qed.

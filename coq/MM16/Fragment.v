(** C16: the supported fragment, as a decidable predicate on (database, target).

    A database is in the fragment when
    - every [$f] is [#Pattern]-typed, all [$f] precede every [$a]/[$p], no variable has two [$f];
    - statement labels are pairwise distinct;
    - every [$a] is one of
        * a notation declaration [#Notation ( c params ) body];
        * a constructor axiom [#Pattern t] without [$e]; when it is labelled 'imp-is-pattern'
          ('app-is-pattern') it is literally [( \imp x y )] ([( \app x y )]) with [x] before [y] in [$f] order;
        * a logical axiom or rule [|- t] whose [$e] are all [|- e_i];
        * one of the three proof rules under its fixed label, in its canonical statement;
      and no other label starts with 'proof-rule-';
    - in the converted notation table: heads are neither [\imp] nor [\app], are declared once, and
      bodies mention only their parameters (no free metavariable in a body);
    - terms of constructor/logical statements use only variables with a [$f], [\imp]/[\app] with two
      arguments and declared notations with as many arguments as parameters;
    - the target is a [$p |- t] without [$e]; every label its proof can name denotes a [$f], a
      constructor axiom, a logical axiom/rule or a proof rule (not a notation declaration, not a [$p]).
    Definitions only. *)
From Coq Require Import NArith List Bool.
From Pi2 Require Import ML.Syntax ML.Subst ML.Machine MM16.Verify MM16.Convert MM16.Instr MM16.Translate.
Import ListNotations.
Open Scope N_scope.

Definition is_float (it:item) : bool := match it with IFloat _ _ _ => true | _ => false end.

Fixpoint floats_first (d:db) : bool :=
  match d with
  | [] => true
  | IFloat _ _ _ :: r => floats_first r
  | _ :: r => forallb (fun it => negb (is_float it)) r
  end.

Fixpoint nodupb (l:list N) : bool :=
  match l with [] => true | x::r => negb (memN x r) && nodupb r end.

Fixpoint nodup_labels (l:list label) : bool :=
  match l with [] => true | x::r => negb (existsb (label_eqb x) r) && nodup_labels r end.

Definition float_vars (d:db) : list N := map (fun f => snd f) (floats d).

Fixpoint wf_term (env:nenv) (pv:list N) (t:mmterm) : bool :=
  match t with
  | TVar v => memN v pv
  | TApp c args =>
      forallb (wf_term env pv) args &&
      (if N.eqb c c_imp || N.eqb c c_app then Nat.eqb (length args) 2
       else match assoc c env with
            | Some (ps, _) => Nat.eqb (length ps) (length args)
            | None => true
            end)
  end.

(** well-formed, and the notation-free form mentions only variables with a [$f] (implied by the other
    conditions; kept explicit because the proof uses it directly) *)
Definition term_ok (env:nenv) (pv:list N) (t:mmterm) : bool :=
  wf_term env pv t && forallb (fun v => memN v pv) (tvars (expand env t)).

Definition env_ok (env:nenv) : bool :=
  forallb (fun e => negb (N.eqb (fst e) c_imp) && negb (N.eqb (fst e) c_app)
                    && forallb (fun v => memN v (fst (snd e))) (tvars (snd (snd e)))) env
  && nodupb (map fst env).

Definition mand_float_vars (d:db) (a:assertion) : list N := map (fun f => snd f) (mand_floats d a).

Fixpoint listN_eqb (a b:list N) : bool :=
  match a, b with
  | [], [] => true
  | x::a', y::b' => N.eqb x y && listN_eqb a' b'
  | _, _ => false
  end.

Definition timp (a b:mmterm) : mmterm := TApp c_imp [a; b].

(** the canonical statements are compared as wholes; [x], [y], [z] are the statement's mandatory
    variables in [$f] order *)
Definition binary_ctor_ok (d:db) (c:N) (a:assertion) : bool :=
  match mand_float_vars d a with
  | [x; y] => forallb2 Verify.term_eqb (snd (a_stmt a)) [TApp c [TVar x; TVar y]]
  | _ => false
  end.

Definition prop1_ok (d:db) (a:assertion) : bool :=
  match a_ess a, mand_float_vars d a with
  | [], [x; y] => stmt_eqb (a_stmt a) (tc_proved, [timp (TVar x) (timp (TVar y) (TVar x))])
  | _, _ => false
  end.

Definition prop2_ok (d:db) (a:assertion) : bool :=
  match a_ess a, mand_float_vars d a with
  | [], [x; y; z] =>
      stmt_eqb (a_stmt a)
        (tc_proved, [timp (timp (TVar x) (timp (TVar y) (TVar z)))
                          (timp (timp (TVar x) (TVar y)) (timp (TVar x) (TVar z)))])
  | _, _ => false
  end.

Definition mp_ok (d:db) (a:assertion) : bool :=
  match mand_float_vars d a with
  | [x; y] =>
      stmt_eqb (a_stmt a) (tc_proved, [TVar y])
      && forallb2 stmt_eqb (map (fun e => snd e) (a_ess a))
                  [(tc_proved, [timp (TVar x) (TVar y)]); (tc_proved, [TVar x])]
  | _ => false
  end.

Definition single_term (s:stmt) : bool := match snd s with [_] => true | _ => false end.

Definition axiom_ok (d:db) (a:assertion) : bool :=
  let env := env_of d in let pv := float_vars d in
  match classify a with
  | KNotation => true
  | KCtor =>
      match a_ess a with [] => true | _ => false end
      && single_term (a_stmt a) && term_ok env pv (stmt_term (a_stmt a))
      && match a_label a with
         | LImpIsPattern => binary_ctor_ok d c_imp a
         | LAppIsPattern => binary_ctor_ok d c_app a
         | _ => true
         end
  | KAxiom =>
      single_term (a_stmt a) && term_ok env pv (stmt_term (a_stmt a))
      && forallb (fun e => N.eqb (fst (snd e)) tc_proved && single_term (snd e)
                           && term_ok env pv (stmt_term (snd e))) (a_ess a)
  | KRule =>
      match a_label a with
      | LProp1 => prop1_ok d a
      | LProp2 => prop2_ok d a
      | LMp => mp_ok d a
      | _ => false
      end
  | KIgnored => false
  end.

(** what a label of the proof's label table may denote *)
Definition label_ok (d:db) (l:label) : bool :=
  match find_item d l with
  | Some (_, IFloat _ _ _) => true
  | Some (_, IAx a) => match classify a with KCtor | KAxiom | KRule => true | _ => false end
  | _ => false
  end.

Definition target_ok (d:db) (target:label) : bool :=
  match find_proof d target with
  | Some (a, pl, _) =>
      match a_ess a with [] => true | _ => false end
      && N.eqb (fst (a_stmt a)) tc_proved && single_term (a_stmt a)
      && term_ok (env_of d) (float_vars d) (stmt_term (a_stmt a))
      && forallb (label_ok d) (conv_labels d a pl)
  | None => false
  end.

Definition in_fragment (d:db) (target:label) : bool :=
  floats_first d
  && forallb (fun f => N.eqb (snd (fst f)) tc_pattern) (floats d)
  && nodupb (float_vars d)
  && nodup_labels (map item_label d)
  && env_ok (env_of d)
  && forallb (fun it => match it with IAx a => axiom_ok d a | _ => true end) d
  && target_ok d target.

(** C16: inversion facts about the reference verifier and about databases in the fragment. *)
From Coq Require Import NArith PeanoNat List Bool Lia.
From Pi2 Require Import ML.Syntax ML.Subst ML.Machine ML.Facts
  MM16.Verify MM16.Convert MM16.Instr MM16.Translate MM16.Fragment MM16.InstrFacts MM16.ConvertFacts.
Import ListNotations.
Open Scope N_scope.

Lemma pop_n_spec {A} n : forall (stk acc args rest:list A),
  pop_n n stk acc = Some (args, rest) ->
  exists popped, length popped = n /\ stk = popped ++ rest /\ args = rev popped ++ acc.
Proof.
  induction n as [|n IH]; intros stk acc args rest H; simpl in H.
  - inversion H; subst. exists []. repeat split.
  - destruct stk as [|x r]; [discriminate|]. apply IH in H as [popped [L [E1 E2]]].
    exists (x :: popped). simpl. repeat split; [lia | rewrite E1; reflexivity |].
    rewrite E2, <- app_assoc. reflexivity.
Qed.

Definition float_entry (f:label*N*N) (t:mmterm) : stmt := (snd (fst f), [t]).

Lemma bind_floats_spec fl : forall es s, bind_floats fl es = Some s ->
  exists ts, length ts = length fl /\ es = map (fun ft => float_entry (fst ft) (snd ft)) (combine fl ts)
             /\ s = combine (map (fun f => snd f) fl) ts.
Proof.
  induction fl as [|[[l tc] v] fl IH]; intros es s H; simpl in H.
  - destruct es; [|discriminate]. inversion H; subst. exists []. repeat split.
  - destruct es as [|[tc' [|t [|? ?]]] es]; try discriminate.
    destruct (N.eqb tc tc') eqn:E; [|discriminate]. apply N.eqb_eq in E. subst.
    destruct (bind_floats fl es) as [s'|] eqn:B; [|discriminate]. inversion H; subst.
    destruct (IH _ _ B) as [ts [L [E1 E2]]]. exists (t :: ts). simpl. repeat split; [lia | | ].
    + rewrite E1. reflexivity.
    + rewrite E2. reflexivity.
Qed.

Lemma label_eqb_eq a b : label_eqb a b = true -> a = b.
Proof. destruct a, b; simpl; try discriminate; try reflexivity; intros H; apply N.eqb_eq in H; subst; reflexivity. Qed.

Lemma label_eqb_refl a : label_eqb a a = true.
Proof. destruct a; simpl; try reflexivity; apply N.eqb_refl. Qed.

Lemma find_item_spec d : forall l i it, find_item d l = Some (i, it) ->
  nth_error d i = Some it /\ item_label it = l.
Proof.
  induction d as [|x d IH]; intros l i it H; simpl in H; [discriminate|].
  destruct (label_eqb l (item_label x)) eqn:E.
  - inversion H; subst. split; [reflexivity | symmetry; apply label_eqb_eq; exact E].
  - destruct (find_item d l) as [[j y]|] eqn:F; [|discriminate]. inversion H; subst.
    destruct (IH _ _ _ F) as [N1 N2]. split; assumption.
Qed.

Lemma find_item_app d1 d2 l r : find_item d1 l = Some r -> find_item (d1 ++ d2) l = Some r.
Proof.
  revert r. induction d1 as [|x d1 IH]; intros r H; simpl in *; [discriminate|].
  destruct (label_eqb l (item_label x)); [exact H|].
  destruct (find_item d1 l) as [[j y]|] eqn:F; [|discriminate]. rewrite (IH _ eq_refl). exact H.
Qed.

(** ---- floats first *)
Lemma floats_nofloat d : forallb (fun it => negb (is_float it)) d = true -> floats d = [].
Proof.
  induction d as [|x d IH]; simpl; intros H; [reflexivity|]. apply andb_true_iff in H as [H1 H2].
  unfold floats in *. simpl. destruct x; simpl in *; try discriminate; apply IH; exact H2.
Qed.

Lemma forallb_firstn {A} (f:A->bool) n l : forallb f l = true -> forallb f (firstn n l) = true.
Proof.
  revert n. induction l as [|x l IH]; intros [|n] H; simpl in *; try reflexivity.
  apply andb_true_iff in H as [H1 H2]. rewrite H1. simpl. apply IH. exact H2.
Qed.

Lemma floats_firstn d : forall i it, floats_first d = true -> nth_error d i = Some it -> is_float it = false ->
  floats (firstn i d) = floats d.
Proof.
  induction d as [|x d IH]; intros i it FF Nn NF.
  - destruct i; discriminate.
  - destruct x as [l tc v|a|a pl st].
    + destruct i as [|i]; simpl in Nn.
      * inversion Nn; subst. discriminate.
      * simpl in FF. unfold floats. simpl. f_equal. apply (IH i it FF Nn NF).
    + simpl in FF. rewrite (floats_nofloat (IAx a :: d)) by (simpl; exact FF).
      apply floats_nofloat. apply forallb_firstn. simpl. exact FF.
    + simpl in FF. rewrite (floats_nofloat (IProv a pl st :: d)) by (simpl; exact FF).
      apply floats_nofloat. apply forallb_firstn. simpl. exact FF.
Qed.

Lemma firstn_app_lt {A} (l1 l2:list A) i : (i <= length l1)%nat -> firstn i (l1 ++ l2) = firstn i l1.
Proof. intros H. rewrite firstn_app. replace (i - length l1)%nat with O by lia. simpl. apply app_nil_r. Qed.

Lemma nth_error_app_lt {A} (l1 l2:list A) i x : nth_error l1 i = Some x -> nth_error (l1 ++ l2) i = Some x.
Proof. intros H. rewrite nth_error_app1; [exact H|]. apply nth_error_Some. congruence. Qed.

(** context of an assertion found in a prefix of the database sees the same floats *)
Lemma ctx_floats pre post i it :
  floats_first (pre ++ post) = true -> nth_error pre i = Some it -> is_float it = false ->
  floats (firstn i pre) = floats (pre ++ post).
Proof.
  intros FF Nn NF. rewrite <- (floats_firstn (pre ++ post) i it FF (nth_error_app_lt _ _ _ _ Nn) NF).
  rewrite firstn_app_lt; [reflexivity|]. apply Nat.lt_le_incl. apply nth_error_Some. congruence.
Qed.

Lemma floats_prefix pre x post :
  floats_first (pre ++ x :: post) = true -> is_float x = false -> floats pre = floats (pre ++ x :: post).
Proof.
  intros FF NF.
  rewrite <- (floats_firstn (pre ++ x :: post) (length pre) x FF).
  - rewrite firstn_app_lt by lia. rewrite firstn_all. reflexivity.
  - rewrite nth_error_app2 by lia. rewrite Nat.sub_diag. reflexivity.
  - exact NF.
Qed.

(** ---- find_target / find_proof *)
Lemma find_target_spec d : forall seen target pre a pl steps,
  find_target d seen target = Some (pre, a, pl, steps) ->
  exists pre' post, pre = seen ++ pre' /\ d = pre' ++ IProv a pl steps :: post /\
                    find_proof d target = Some (a, pl, steps).
Proof.
  induction d as [|x d IH]; intros seen target pre a pl steps H; simpl in H; [discriminate|].
  destruct x as [l tc v|b|b pl' st'].
  - apply IH in H as [pre' [post [E1 [E2 E3]]]]. exists (IFloat l tc v :: pre'), post.
    rewrite E1, <- app_assoc. simpl. repeat split; [rewrite E2; reflexivity | exact E3].
  - apply IH in H as [pre' [post [E1 [E2 E3]]]]. exists (IAx b :: pre'), post.
    rewrite E1, <- app_assoc. simpl. repeat split; [rewrite E2; reflexivity | exact E3].
  - simpl. destruct (label_eqb target (a_label b)) eqn:E.
    + inversion H; subst. exists [], d. rewrite app_nil_r. repeat split.
    + apply IH in H as [pre' [post [E1 [E2 E3]]]]. exists (IProv b pl' st' :: pre'), post.
      rewrite E1, <- app_assoc. simpl. repeat split; [rewrite E2; reflexivity | exact E3].
Qed.

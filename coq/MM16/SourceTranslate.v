(** C16, tie by translation: the translation assembled from the GENERATED functions
    ([gen_extracted] = translate.main's axioms/claims, [gen_exec_proof] = translate.exec_proof with the
    generated label numbering of converter.split_proof) and the main property stated of it.

    Not generated (hand-written glue, as in the model): the three-phase skeleton of [ProofExp.execute_full]
    (publish every axiom, publish the claims in reverse, run the proof phase) and the serializer's symbol
    numbering [sym_table]. *)
From Coq Require Import ZArith NArith PeanoNat List Bool Lia.
From Pi2 Require Import ML.Syntax ML.Subst ML.Machine ML.Facts
  MM16.Verify MM16.Convert MM16.Instr MM16.Translate MM16.Fragment
  MM16.InstrFacts MM16.ConvertFacts MM16.SimFacts MM16.VerifyFacts MM16.Sim MM16.Step MM16.Rules MM16.Compose MM16.Main
  MM16.GenPrims MM16.GenRun Gen.MMTranslate MM16.GenMMTranslateAgree.
Import ListNotations.
Open Scope N_scope.

Definition publish_all (ps:list pat) : list oinstr := flat_map (fun p => emit_pat p ++ [OPublish]) ps.

Definition gen_translate_raw (d:db) (target:label) : option (list N * list N * list N) :=
  match find_proof d target with
  | None => None
  | Some (a, pl, steps) =>
      if negb (N.eqb (fst (a_stmt a)) tc_proved) then None else
      let sid := fun c => idx_or0 c (sym_table d [a] (conv_labels d a pl) steps) in
      let cv := mkCv d sid in
      match gen_extracted cv target (mkG st0 []) with
      | Some ((axioms, claims), _) =>
          let gi := publish_all axioms in
          let ci := publish_all (rev claims) in
          match iruns Gamma gi st0 with
          | Some s1 =>
              match iruns Claim ci (set_stack [] s1) with
              | Some s2 =>
                  match gen_exec_proof cv target axioms (mkG (set_stack [] s2) []) with
                  | Some (_, g) => Some (encode gi, encode ci, encode (g_out g))
                  | None => None end
              | None => None end
          | None => None end
      | None => None end
  end.

Lemma flat_map_map' {A B C} (f:B -> list C) (g:A -> B) l : flat_map f (map g l) = flat_map (fun x => f (g x)) l.
Proof. induction l; simpl; [reflexivity|]. rewrite IHl. reflexivity. Qed.

Lemma R_some_inv {A} (m:M A) t x t' :
  R m t = Some (x, t') -> exists g, m (g_of t) = Some (x, g) /\ g_out g = out t'.
Proof.
  unfold R. destruct (m (g_of t)) as [[y g]|]; [|discriminate]. intros H. inversion H; subst. exists g. split; reflexivity.
Qed.

Lemma nodup_labels_find d : nodup_labels (map item_label d) = true ->
  forall a, In (IAx a) d -> exists i, find_item d (a_label a) = Some (i, IAx a).
Proof.
  induction d as [|it d IH]; intros ND a HI; [destruct HI|].
  simpl in ND. apply andb_true_iff in ND as [N1 N2]. simpl.
  destruct (label_eqb (a_label a) (item_label it)) eqn:E.
  - destruct HI as [->|HI]; [eexists; reflexivity|].
    exfalso. apply label_eqb_eq in E.
    assert (X: existsb (label_eqb (item_label it)) (map item_label d) = true).
    { apply existsb_exists. exists (item_label (IAx a)). split; [apply in_map; exact HI|]. simpl. rewrite E. apply label_eqb_refl. }
    rewrite X in N1. discriminate.
  - destruct HI as [->|HI]; [simpl in E; rewrite label_eqb_refl in E; discriminate|].
    destruct (IH N2 a HI) as [i F]. rewrite F. eexists; reflexivity.
Qed.

Lemma exported_items d a : In a (exported d) -> In (IAx a) d.
Proof.
  unfold exported. intros H. apply in_flat_map in H as [it [Hit Ha]].
  destruct it as [l tc v|b|b pl st]; simpl in Ha; try contradiction.
  destruct (classify b); simpl in Ha; try contradiction. destruct Ha as [->|[]]. exact Hit.
Qed.

Lemma mvid_keys_NoDup d :
  forallb (fun f => N.eqb (snd (fst f)) tc_pattern) (floats d) = true -> nodupb (float_vars d) = true ->
  forall a, NoDup (map (mvid d) (metavars_in_order d a)).
Proof.
  intros HPF HND a.
  assert (ND: NoDup (metavars_in_order d a)) by (apply mio_NoDup; assumption).
  assert (HIN: forall v, In v (metavars_in_order d a) -> In v (float_vars d)) by (intros v Hv; eapply mio_in; eassumption).
  induction (metavars_in_order d a) as [|x l IH]; simpl; [constructor|]. inversion ND; subst. constructor.
  - intros HI. apply in_map_iff in HI as [y [E Hy]]. apply (mvid_inj d HPF) in E; [subst; contradiction | |]; apply HIN; simpl; auto.
  - apply IH; [assumption|]. intros v Hv. apply HIN. right. exact Hv.
Qed.

(** whenever the model's translation exists, the one assembled from the generated functions is the same *)
Theorem gen_translate_raw_agree d target r :
  (forall a, NoDup (map (mvid d) (metavars_in_order d a))) ->
  nodup_labels (map item_label d) = true ->
  translate_raw false d target = Some r -> gen_translate_raw d target = Some r.
Proof.
  intros HND NL H. unfold translate_raw in H. unfold gen_translate_raw.
  destruct (find_proof d target) as [[[a pl] steps]|] eqn:FP; [|discriminate].
  destruct (negb (N.eqb (fst (a_stmt a)) tc_proved)); [discriminate|].
  set (sid := fun c => idx_or0 c (sym_table d [a] (conv_labels d a pl) steps)) in *.
  set (cv := mkCv d sid).
  assert (HFI: forall b, In b (exported (cv_d cv)) -> exists i, find_item (cv_d cv) (a_label b) = Some (i, IAx b)).
  { intros b Hb. apply nodup_labels_find; [exact NL | apply exported_items; exact Hb]. }
  pose proof (gen_extracted_agree cv HFI target a pl steps (mkT st0 [] []) FP) as GE.
  apply R_some_inv in GE as [g0' [GE _]]. unfold g_of in GE. cbn [mst out] in GE. rewrite GE.
  unfold axs. cbn [cv_d cv_sid cv]. unfold publish_all. rewrite flat_map_map'.
  change (flat_map (fun x => emit_pat (axiom_pat d sid x) ++ [OPublish]) (exported d)) with (gamma_instrs d sid) .
  change (flat_map (fun p => emit_pat p ++ [OPublish]) (rev [lemma_pat d sid a])) with (claim_instrs d sid [a]).
  destruct (iruns Gamma (gamma_instrs d sid) st0) as [s1|]; [|discriminate].
  destruct (iruns Claim (claim_instrs d sid [a]) (set_stack [] s1)) as [s2|]; [|discriminate].
  destruct (trun d sid (conv_labels d a pl) steps (mkT (set_stack [] s2) [] [])) as [t|] eqn:TR; [|discriminate].
  destruct (match top t with Some (TProved p) => if pat_eqb p (lemma_pat d sid a) then do [OPublish] t else None | _ => None end) as [t''|] eqn:FIN.
  2:{ destruct (top t) as [[p|p]|]; try discriminate. destruct (pat_eqb p (lemma_pat d sid a)); [|discriminate].
      destruct (do [OPublish] t); discriminate. }
  destruct (gen_exec_proof_agree cv HND target a pl steps (mkT (set_stack [] s2) [] []) t t'' FP eq_refl TR FIN) as [h GP].
  apply R_some_inv in GP as [g1 [GP EO]]. unfold g_of in GP. cbn [mst out] in GP. unfold axs in GP. cbn [cv_d cv_sid cv] in GP. rewrite GP.
  rewrite EO. cbn [out].
  destruct (top t) as [[p|p]|]; try discriminate. destruct (pat_eqb p (lemma_pat d sid a)); [|discriminate].
  rewrite FIN in H. exact H.
Qed.

(** the property, of the translation assembled from the generated functions *)
Theorem source_translate d target :
  mm_verify d target = true -> in_fragment d target = true ->
  exists g c p a pl steps sid,
    gen_translate_raw d target = Some (g, c, p) /\
    find_proof d target = Some (a, pl, steps) /\ sid_of false d target = Some sid /\
    accepted_with d sid a g c p.
Proof.
  intros MV FR. destruct (translate_correct d target MV FR) as (g & c & p & a & pl & steps & sid & T & FP & SI & AC).
  destruct (in_fragment_parts _ _ FR) as (FF & HPF & HND & NL & HENV & AX & TG).
  exists g, c, p, a, pl, steps, sid. repeat split; try assumption.
  apply gen_translate_raw_agree; [apply mvid_keys_NoDup; assumption | exact NL | exact T].
Qed.

(** C16: the proof layout does not change the outcome.  Two databases with the same skeleton (they
    differ only in the proof texts of their [$p] statements: label lists, Z marks, back-references)
    publish byte-identical Gamma and Claim files; with [translate_correct] both proofs are accepted. *)
From Coq Require Import NArith PeanoNat List Bool Lia.
From Pi2 Require Import ML.Syntax ML.Subst ML.Machine ML.Facts
  MM16.Verify MM16.Convert MM16.Instr MM16.Translate MM16.Fragment
  MM16.InstrFacts MM16.ConvertFacts MM16.SimFacts MM16.VerifyFacts MM16.Sim MM16.Step MM16.Rules MM16.Compose MM16.Main.
Import ListNotations.
Open Scope N_scope.

Definition strip (it:item) : item := match it with IProv a _ _ => IProv a [] [] | x => x end.
Definition skeleton (d:db) : db := map strip d.

(** ---- what depends on the skeleton only *)
Lemma floats_skeleton d : floats (skeleton d) = floats d.
Proof.
  unfold floats, skeleton. induction d as [|x d IH]; simpl; [reflexivity|]. rewrite IH. destruct x; reflexivity.
Qed.

Lemma build_env_skeleton d : forall e, build_env (skeleton d) e = build_env d e.
Proof.
  induction d as [|x d IH]; intros e; [reflexivity|].
  destruct x as [l tc v|a|a pl st].
  - simpl. apply IH.
  - change (skeleton (IAx a :: d)) with (IAx a :: skeleton d). cbn [build_env].
    destruct (notation_decl (IAx a)) as [[c [ps body]]|]; apply IH.
  - simpl. apply IH.
Qed.

Lemma exported_skeleton d : exported (skeleton d) = exported d.
Proof.
  unfold exported, skeleton. induction d as [|x d IH]; simpl; [reflexivity|]. rewrite IH. destruct x; reflexivity.
Qed.

Lemma find_proof_skeleton d target :
  find_proof (skeleton d) target = match find_proof d target with Some (a, _, _) => Some (a, [], []) | None => None end.
Proof.
  induction d as [|x d IH]; simpl; [reflexivity|].
  destruct x as [l tc v|a|a pl st]; simpl; try exact IH.
  destruct (label_eqb target (a_label a)); [reflexivity | exact IH].
Qed.

Section Same.
Variables d1 d2 : db.
Hypothesis SK : skeleton d1 = skeleton d2.

Lemma same_floats : floats d1 = floats d2.
Proof. rewrite <- (floats_skeleton d1), <- (floats_skeleton d2), SK. reflexivity. Qed.
Lemma same_env : env_of d1 = env_of d2.
Proof. unfold env_of. rewrite <- (build_env_skeleton d1), <- (build_env_skeleton d2), SK. reflexivity. Qed.
Lemma same_exported : exported d1 = exported d2.
Proof. rewrite <- (exported_skeleton d1), <- (exported_skeleton d2), SK. reflexivity. Qed.

Lemma same_img sid t : img d1 sid t = img d2 sid t.
Proof. unfold img, mvid, pattern_floats. rewrite same_floats, same_env. reflexivity. Qed.

Lemma same_axiom_pat sid a : axiom_pat d1 sid a = axiom_pat d2 sid a.
Proof.
  unfold axiom_pat, ants_pat, concl_pat. f_equal.
  - apply map_ext. intros e. apply same_img.
  - destruct (a_stmt a) as [tc [|t r]]; [reflexivity | apply same_img].
Qed.

Lemma same_target target a1 pl1 st1 a2 pl2 st2 :
  find_proof d1 target = Some (a1, pl1, st1) -> find_proof d2 target = Some (a2, pl2, st2) -> a1 = a2.
Proof.
  intros H1 H2. pose proof (find_proof_skeleton d1 target) as E1. pose proof (find_proof_skeleton d2 target) as E2.
  rewrite H1 in E1. rewrite H2 in E2. rewrite SK in E1. rewrite E1 in E2. inversion E2. reflexivity.
Qed.
End Same.

(** ---- a pattern's bytes depend on the symbol numbering only at the constants it mentions *)
Lemma psyms_chain ps : forall h, psyms (fold_left App ps h) = psyms h ++ flat_map psyms ps.
Proof.
  induction ps as [|p ps IH]; intros h; simpl; [rewrite app_nil_r; reflexivity|].
  rewrite IH. simpl. rewrite <- app_assoc. reflexivity.
Qed.

Lemma img0_sid_ext (s1 s2 mv:N->N) t :
  (forall c, In c (psyms (img0 (fun c => c) mv t)) -> s1 c = s2 c) -> img0 s1 mv t = img0 s2 mv t.
Proof.
  induction t as [v|c args IH] using mmterm_ind'; intros H; [reflexivity|].
  assert (CH: (forall k, In k (psyms (fold_left App (map (img0 (fun c => c) mv) args) (Sym c))) -> s1 k = s2 k) ->
              fold_left App (map (img0 s1 mv) args) (Sym (s1 c)) = fold_left App (map (img0 s2 mv) args) (Sym (s2 c))).
  { intros HC. rewrite (HC c) by (rewrite psyms_chain; left; reflexivity).
    f_equal. apply map_ext_Forall. rewrite Forall_forall in IH |- *. intros a Ha. apply IH; [exact Ha|].
    intros k Hk. apply HC. rewrite psyms_chain. right. apply in_flat_map. exists (img0 (fun c => c) mv a).
    split; [apply in_map; exact Ha | exact Hk]. }
  simpl in H |- *.
  destruct (N.eqb c c_imp).
  - destruct args as [|a [|b rest]]; try (apply CH; exact H).
    inversion IH as [|? ? Ha IH']; subst. inversion IH' as [|? ? Hb _]; subst. simpl in H |- *.
    rewrite Ha, Hb; [reflexivity | |]; intros k Hk; apply H; apply in_or_app; [right | left]; exact Hk.
  - destruct (N.eqb c c_app).
    + destruct args as [|a [|b rest]]; try (apply CH; exact H).
      inversion IH as [|? ? Ha IH']; subst. inversion IH' as [|? ? Hb _]; subst. simpl in H |- *.
      rewrite Ha, Hb; [reflexivity | |]; intros k Hk; apply H; apply in_or_app; [right | left]; exact Hk.
    + apply CH. exact H.
Qed.

Lemma psyms_chain_imp ants c : psyms (chain_imp ants c) = flat_map psyms ants ++ psyms c.
Proof. induction ants as [|a ants IH]; simpl; [reflexivity|]. rewrite IH, app_assoc. reflexivity. Qed.

Lemma img_sid_ext d s1 s2 t :
  (forall c, In c (psyms (img d (fun c => c) t)) -> s1 c = s2 c) -> img d s1 t = img d s2 t.
Proof. unfold img. apply img0_sid_ext. Qed.

Lemma axiom_pat_sid_ext d s1 s2 a :
  (forall c, In c (psyms (axiom_pat d (fun c => c) a)) -> s1 c = s2 c) -> axiom_pat d s1 a = axiom_pat d s2 a.
Proof.
  unfold axiom_pat, ants_pat, concl_pat. intros H. rewrite psyms_chain_imp in H. f_equal.
  - apply map_ext_Forall. apply Forall_forall. intros e He. apply img_sid_ext. intros c Hc. apply H.
    apply in_or_app. left. apply in_flat_map. exists (img d (fun c => c) (stmt_term (snd e))).
    split; [|exact Hc]. apply in_map_iff. exists e. split; [reflexivity | exact He].
  - destruct (a_stmt a) as [tc [|t r]]; [reflexivity|].
    apply img_sid_ext. intros c Hc. apply H. apply in_or_app. right. exact Hc.
Qed.

(** ---- first-occurrence tables: positions in a prefix do not depend on what follows *)
Lemma nodupN_app X : forall Y s, exists Z, nodupN (X ++ Y) s = nodupN X s ++ Z.
Proof.
  induction X as [|x X IH]; intros Y s; simpl.
  - eexists. reflexivity.
  - destruct (memN x s).
    + apply IH.
    + destruct (IH Y (x :: s)) as [Z E]. exists Z. rewrite E. reflexivity.
Qed.

Lemma nodupN_In c X : forall s, In c X -> memN c s = false -> In c (nodupN X s).
Proof.
  induction X as [|x X IH]; intros s H M; [destruct H|]. simpl.
  destruct (N.eq_dec x c) as [->|NE].
  - rewrite M. left. reflexivity.
  - destruct H as [H|H]; [contradiction|].
    destruct (memN x s); [apply IH; assumption|]. right. apply IH; [exact H|].
    unfold memN in *. simpl. rewrite M. rewrite orb_false_r. apply N.eqb_neq. intros E. apply NE. symmetry. exact E.
Qed.

Lemma index_of_app c P Z : In c P -> index_of c (P ++ Z) = index_of c P.
Proof.
  induction P as [|y P IH]; intros H; [destruct H|]. simpl.
  destruct (N.eqb y c) eqn:E; [reflexivity|].
  destruct H as [H|H]; [subst; rewrite N.eqb_refl in E; discriminate|]. rewrite (IH H). reflexivity.
Qed.

Lemma table_prefix c X Y1 Y2 : In c X -> idx_or0 c (nodupN (X ++ Y1) []) = idx_or0 c (nodupN (X ++ Y2) []).
Proof.
  intros H. destruct (nodupN_app X Y1 []) as [Z1 E1]. destruct (nodupN_app X Y2 []) as [Z2 E2].
  unfold idx_or0. rewrite E1, E2.
  rewrite !index_of_app by (apply nodupN_In; [exact H | reflexivity]). reflexivity.
Qed.

Lemma flat_map_ext_in' {A B} (f g:A->list B) l : (forall a, In a l -> f a = g a) -> flat_map f l = flat_map g l.
Proof.
  induction l as [|x l IH]; intros H; simpl; [reflexivity|].
  rewrite (H x (or_introl eq_refl)), IH; [reflexivity|]. intros a Ha. apply H. right. exact Ha.
Qed.

(** ---- the Gamma and Claim bytes of a translation *)
Lemma translate_raw_gc d target g c p :
  translate_raw false d target = Some (g, c, p) ->
  exists a pl steps sid,
    find_proof d target = Some (a, pl, steps) /\ sid_of false d target = Some sid /\
    g = encode (gamma_instrs d sid) /\ c = encode (claim_instrs d sid [a]).
Proof.
  unfold translate_raw, sid_of. destruct (find_proof d target) as [[[a pl] steps]|]; [|discriminate].
  destruct (negb _); [discriminate|].
  destruct (iruns Gamma _ _); [|discriminate]. destruct (iruns Claim _ _); [|discriminate].
  destruct (trun _ _ _ _ _) as [t|]; [|discriminate]. destruct (top t) as [[q|q]|]; try discriminate.
  destruct (pat_eqb _ _); [|discriminate]. destruct (do _ _); [|discriminate].
  intros H. inversion H; subst. do 4 eexists. repeat split.
Qed.

Theorem compression_irrelevant d1 d2 target :
  skeleton d1 = skeleton d2 ->
  mm_verify d1 target = true -> mm_verify d2 target = true ->
  in_fragment d1 target = true -> in_fragment d2 target = true ->
  exists g c p1 p2 s1 s2,
    translate_raw false d1 target = Some (g, c, p1) /\ translate_raw false d2 target = Some (g, c, p2) /\
    verify g0 g c p1 = Some s1 /\ verify g0 g c p2 = Some s2.
Proof.
  intros SK V1 V2 F1 F2.
  destruct (translate_correct d1 target V1 F1) as (g1 & c1 & p1 & a1 & pl1 & st1 & sid1 & T1 & FP1 & SI1 & AC1).
  destruct (translate_correct d2 target V2 F2) as (g2 & c2 & p2 & a2 & pl2 & st2 & sid2 & T2 & FP2 & SI2 & AC2).
  destruct AC1 as (? & ? & s31 & _ & _ & _ & _ & _ & _ & _ & _ & _ & _ & VF1).
  destruct AC2 as (? & ? & s32 & _ & _ & _ & _ & _ & _ & _ & _ & _ & _ & VF2).
  destruct (translate_raw_gc _ _ _ _ _ T1) as (a1' & pl1' & st1' & sid1' & FP1' & SI1' & EG1 & EC1).
  destruct (translate_raw_gc _ _ _ _ _ T2) as (a2' & pl2' & st2' & sid2' & FP2' & SI2' & EG2 & EC2).
  rewrite FP1 in FP1'. inversion FP1'; subst a1' pl1' st1'. rewrite FP2 in FP2'. inversion FP2'; subst a2' pl2' st2'.
  rewrite SI1 in SI1'. inversion SI1'; subst sid1'. rewrite SI2 in SI2'. inversion SI2'; subst sid2'.
  assert (EA: a1 = a2) by (eapply same_target; eassumption). subst a2.
  (* the two symbol numberings agree on everything the Gamma and Claim phases mention *)
  unfold sid_of in SI1, SI2. rewrite FP1 in SI1. rewrite FP2 in SI2. inversion SI1 as [E1]. inversion SI2 as [E2]. clear SI1 SI2.
  set (X := flat_map psyms (map (axiom_pat d1 (fun c => c)) (exported d1) ++ map (lemma_pat d1 (fun c => c)) (rev [a1]))).
  assert (AG: forall k, In k X -> sid1 k = sid2 k).
  { intros k Hk. subst sid1 sid2. unfold sym_table.
    rewrite <- (same_exported d1 d2 SK).
    replace (map (axiom_pat d2 (fun c => c)) (exported d1)) with (map (axiom_pat d1 (fun c => c)) (exported d1))
      by (apply map_ext; intros; apply same_axiom_pat; exact SK).
    replace (map (lemma_pat d2 (fun c => c)) (rev [a1])) with (map (lemma_pat d1 (fun c => c)) (rev [a1]))
      by (apply map_ext; intros; unfold lemma_pat; apply same_img; exact SK).
    rewrite !app_assoc. rewrite !(flat_map_app psyms (_ ++ _)). fold X. apply table_prefix. exact Hk. }
  assert (G: g1 = g2).
  { subst g1 g2. f_equal. unfold gamma_instrs. rewrite <- (same_exported d1 d2 SK).
    apply flat_map_ext_in'. intros a Ha. f_equal. f_equal.
    rewrite <- (same_axiom_pat d1 d2 SK). apply axiom_pat_sid_ext. intros k Hk. apply AG.
    unfold X. rewrite flat_map_app. apply in_or_app. left. apply in_flat_map.
    exists (axiom_pat d1 (fun c => c) a). split; [apply in_map; exact Ha | exact Hk]. }
  assert (Cq: c1 = c2).
  { subst c1 c2. f_equal. unfold claim_instrs. simpl. f_equal. f_equal. unfold lemma_pat.
    rewrite <- (same_img d1 d2 SK). f_equal. apply img_sid_ext. intros k Hk. apply AG.
    unfold X. rewrite flat_map_app. apply in_or_app. right. cbn [rev app map flat_map]. rewrite app_nil_r. exact Hk. }
  clear EG1 EC1 EG2 EC2. subst g2 c2. exists g1, c1, p1, p2, s31, s32. repeat split; assumption.
Qed.

(** C16: simulation of Metamath proof steps by the emitted checker instructions — helper layer:
    how each translator helper ([do], [load_of], [save_pops], [mp_all], [do_inst]) moves the tracked
    checker state. *)
From Coq Require Import NArith PeanoNat List Bool Lia.
From Pi2 Require Import ML.Syntax ML.Subst ML.Machine ML.Facts
  MM16.Verify MM16.Convert MM16.Instr MM16.Translate MM16.InstrFacts MM16.ConvertFacts.
Import ListNotations.
Open Scope N_scope.

(** [t'] is reached from [t] by emitting instructions that the tracked state executes *)
Definition steps_to (t t':tst) : Prop :=
  exists is, out t' = out t ++ is /\ iruns Proof is (mst t) = Some (mst t').

Lemma steps_refl t : steps_to t t.
Proof. exists []. split; [rewrite app_nil_r; reflexivity | reflexivity]. Qed.

Lemma steps_trans t1 t2 t3 : steps_to t1 t2 -> steps_to t2 t3 -> steps_to t1 t3.
Proof.
  intros [i1 [O1 R1]] [i2 [O2 R2]]. exists (i1 ++ i2). split.
  - rewrite O2, O1, app_assoc. reflexivity.
  - rewrite iruns_app, R1. exact R2.
Qed.

(** stack becomes [stk], memory grows by [extra], claims and the Z-heap are untouched *)
Definition same_but (t t':tst) (stk extra:list term) : Prop :=
  stack (mst t') = stk /\ memory (mst t') = memory (mst t) ++ extra /\
  claims (mst t') = claims (mst t) /\ heap t' = heap t /\ steps_to t t'.

Lemma same_but_refl t : same_but t t (stack (mst t)) [].
Proof. repeat split; try reflexivity; [rewrite app_nil_r; reflexivity | apply steps_refl]. Qed.

Lemma same_but_trans t t1 t2 s1 e1 s2 e2 :
  same_but t t1 s1 e1 -> same_but t1 t2 s2 e2 -> same_but t t2 s2 (e1 ++ e2).
Proof.
  intros (A1 & A2 & A3 & A4 & A5) (B1 & B2 & B3 & B4 & B5). repeat split.
  - exact B1.
  - rewrite B2, A2, app_assoc. reflexivity.
  - congruence.
  - congruence.
  - eapply steps_trans; eassumption.
Qed.

Lemma do_ok is t s' : iruns Proof is (mst t) = Some s' -> do is t = Some (mkT s' (heap t) (out t ++ is)).
Proof. intros H. unfold do. rewrite H. reflexivity. Qed.

Lemma do_same_but is t s' :
  iruns Proof is (mst t) = Some s' ->
  forall extra, memory s' = memory (mst t) ++ extra -> claims s' = claims (mst t) ->
  exists t', do is t = Some t' /\ same_but t t' (stack s') extra.
Proof.
  intros H extra HM HC. eexists. split; [apply do_ok; exact H|].
  repeat split; simpl; try assumption. exists is. split; [reflexivity | exact H].
Qed.

Lemma load_of_ok x t : In x (memory (mst t)) ->
  exists t', load_of x t = Some t' /\ same_but t t' (x :: stack (mst t)) [].
Proof.
  intros H. destruct (find_idx_In _ _ H) as [i [F Nn]]. unfold load_of. rewrite F.
  assert (R: iruns Proof [OLoad (N.of_nat i)] (mst t) = Some (push x (mst t))).
  { simpl. rewrite Nat2N.id, Nn. reflexivity. }
  destruct (do_same_but _ _ _ R [] ltac:(simpl; rewrite app_nil_r; reflexivity) eq_refl) as [t' [D S]].
  exists t'. split; [exact D | exact S].
Qed.

Section Conv.
Variable d : db.
Variable sid : N -> N.

Lemma save_pops_ok xs : forall t acc S, stack (mst t) = xs ++ S ->
  exists t', save_pops (length xs) t acc = Some (acc ++ xs, t') /\ same_but t t' S xs.
Proof.
  induction xs as [|x xs IH]; intros t acc S HS; simpl.
  - exists t. rewrite app_nil_r. split; [reflexivity|]. simpl in HS. rewrite <- HS. apply same_but_refl.
  - unfold top. rewrite HS. simpl.
    assert (R: iruns Proof [OSave; OPop] (mst t) = Some (mkst (xs ++ S) (memory (mst t) ++ [x]) (claims (mst t)))).
    { simpl. rewrite HS. simpl. reflexivity. }
    destruct (do_same_but _ _ _ R [x] eq_refl eq_refl) as [t1 [D1 S1]]. rewrite D1.
    destruct (IH t1 (acc ++ [x]) S) as [t2 [D2 S2]]; [destruct S1 as [E _]; exact E|].
    exists t2. split.
    + rewrite D2. rewrite <- app_assoc. reflexivity.
    + exact (same_but_trans _ _ _ _ _ _ _ S1 S2).
Qed.

Lemma mp_all_ok ps : forall t c S,
  stack (mst t) = TProved (chain_imp ps c) :: S ->
  (forall p, In p ps -> In (TProved p) (memory (mst t))) ->
  exists t', mp_all (map TProved ps) t = Some t' /\ same_but t t' (TProved c :: S) [].
Proof.
  induction ps as [|p ps IH]; intros t c S HS HM; simpl.
  - exists t. split; [reflexivity|]. simpl in HS. rewrite <- HS. apply same_but_refl.
  - destruct (load_of_ok (TProved p) t (HM p (or_introl eq_refl))) as [t1 [L1 S1]]. rewrite L1.
    assert (R: iruns Proof [OMP] (mst t1) = Some (set_stack (TProved (chain_imp ps c) :: S) (mst t1))).
    { destruct S1 as [E _]. simpl. rewrite E, HS. simpl. rewrite pat_eqb_refl. reflexivity. }
    destruct (do_same_but _ _ _ R [] ltac:(simpl; rewrite app_nil_r; reflexivity) eq_refl) as [t2 [D2 S2]].
    rewrite D2.
    destruct (IH t2 c S) as [t3 [D3 S3]].
    + destruct S2 as [E _]. exact E.
    + intros q Hq. destruct S2 as (_ & M2 & _). destruct S1 as (_ & M1 & _).
      rewrite M2, M1, !app_nil_r. apply HM. right. exact Hq.
    + exists t3. split; [exact D3|].
      pose proof (same_but_trans _ _ _ _ _ _ _ (same_but_trans _ _ _ _ _ _ _ S1 S2) S3) as X. exact X.
Qed.

(** popping the images of the floating-hypothesis arguments *)
Lemma pop_pats_imgs (ps:list pat) rest : pop_pats (length ps) (map TPat ps ++ rest) = Some (ps, rest).
Proof. induction ps as [|p ps IH]; simpl; [reflexivity|]. rewrite IH. reflexivity. Qed.

Lemma inst_run (proved:bool) p ids plugs q t S :
  stack (mst t) = (if proved then TProved p else TPat p) :: map TPat plugs ++ S ->
  length ids = length plugs ->
  inst g0 p ids plugs = Some q ->
  exists t', do [OInst ids] t = Some t' /\ same_but t t' ((if proved then TProved q else TPat q) :: S) [].
Proof.
  intros HS L HI.
  assert (R: iruns Proof [OInst ids] (mst t) = Some (set_stack ((if proved then TProved q else TPat q) :: S) (mst t))).
  { simpl. rewrite HS. rewrite L, pop_pats_imgs. destruct proved; rewrite HI; reflexivity. }
  destruct (do_same_but _ _ _ R [] ltac:(simpl; rewrite app_nil_r; reflexivity) eq_refl) as [t' [D S']].
  exists t'. split; [exact D | exact S'].
Qed.

End Conv.

(** C16: per-step simulation.  A Metamath stack entry [#Pattern t] is represented by the checker
    term [Pattern (img t)], [|- t] by [Proved (img t)] (relation [rel]); every translated proof step,
    executed by the checker model, re-establishes the relation ([mm_step_sim]). *)
From Coq Require Import NArith PeanoNat List Bool Lia.
From Pi2 Require Import ML.Syntax ML.Subst ML.Machine ML.Facts
  MM16.Verify MM16.Convert MM16.Instr MM16.Translate MM16.Fragment
  MM16.InstrFacts MM16.ConvertFacts MM16.SimFacts MM16.VerifyFacts.
Import ListNotations.
Open Scope N_scope.

Lemma nodupb_NoDup l : nodupb l = true -> NoDup l.
Proof.
  induction l as [|x l IH]; simpl; intros H; constructor.
  - apply andb_true_iff in H as [H _]. intros HI. apply memN_In in HI. rewrite HI in H. discriminate.
  - apply IH. apply andb_true_iff in H as [_ H]. exact H.
Qed.

Lemma NoDup_filter {A} (f:A->bool) l : NoDup l -> NoDup (filter f l).
Proof.
  induction 1 as [|x l Hx ND IH]; simpl; [constructor|]. destruct (f x); [|exact IH].
  constructor; [|exact IH]. intros HI. apply filter_In in HI as [HI _]. contradiction.
Qed.

Lemma map_filter_comm {A B} (g:A->B) (p:B->bool) l : map g (filter (fun x => p (g x)) l) = filter p (map g l).
Proof. induction l as [|x l IH]; simpl; [reflexivity|]. destruct (p (g x)); simpl; rewrite IH; reflexivity. Qed.

Lemma combine_map2 {A B C D} (f:A->C) (g:B->D) vs : forall ts,
  combine (map f vs) (map g ts) = map (fun e => (f (fst e), g (snd e))) (combine vs ts).
Proof. induction vs as [|x vs IH]; intros [|y ts]; simpl; try reflexivity. rewrite IH. reflexivity. Qed.

Section Sim.
Variable d : db.
Variable sid : N -> N.
Hypothesis HPF : forallb (fun f => N.eqb (snd (fst f)) tc_pattern) (floats d) = true.
Hypothesis HND : nodupb (float_vars d) = true.
Hypothesis HENV : env_ok (env_of d) = true.

Notation im := (img d sid).
Notation env := (env_of d).

Lemma pf_eq : pattern_floats d = float_vars d.
Proof.
  unfold pattern_floats, float_vars. revert HPF. generalize (floats d). intros l.
  induction l as [|f l IH]; simpl; intros H; [reflexivity|].
  apply andb_true_iff in H as [H1 H2]. rewrite H1. simpl. rewrite (IH H2). reflexivity.
Qed.

Lemma float_tc f : In f (floats d) -> snd (fst f) = tc_pattern.
Proof. intros H. rewrite forallb_forall in HPF. apply N.eqb_eq. apply HPF. exact H. Qed.

Lemma env_heads c : (c = c_imp \/ c = c_app) -> assoc c env = None.
Proof.
  intros Hc. unfold env_ok in HENV. apply andb_true_iff in HENV as [H _].
  revert H. generalize env. intros e. induction e as [|[k x] e IH]; simpl; intros H; [reflexivity|].
  apply andb_true_iff in H as [H1 H2]. apply andb_true_iff in H1 as [H1 _]. apply andb_true_iff in H1 as [Ha Hb].
  destruct (N.eqb k c) eqn:E.
  - apply N.eqb_eq in E. subst k. destruct Hc; subst c.
    + rewrite N.eqb_refl in Ha. discriminate.
    + rewrite N.eqb_refl in Hb. discriminate.
  - apply IH. exact H2.
Qed.

Lemma closed_env : bodies_closed env.
Proof.
  unfold env_ok in HENV. apply andb_true_iff in HENV as [H _].
  intros c ps body. revert H. generalize env. intros e. induction e as [|[k [ps' b']] e IH]; simpl; intros H HA; [discriminate|].
  apply andb_true_iff in H as [H1 H2]. apply andb_true_iff in H1 as [_ H1]. simpl in H1.
  destruct (N.eqb k c).
  - inversion HA; subst. intros v Hv. rewrite forallb_forall in H1. apply memN_In. apply H1. exact Hv.
  - apply IH; assumption.
Qed.

Lemma img_imp a b : im (TApp c_imp [a; b]) = Imp (im a) (im b).
Proof. unfold img. simpl expand. rewrite (env_heads c_imp (or_introl eq_refl)). reflexivity. Qed.

Lemma img_app a b : im (TApp c_app [a; b]) = App (im a) (im b).
Proof. unfold img. simpl expand. rewrite (env_heads c_app (or_intror eq_refl)). reflexivity. Qed.

Lemma wf_arity pv t : wf_term env pv t = true -> arity_ok env t = true.
Proof.
  induction t as [v|c args IH] using mmterm_ind'; intros H; [reflexivity|].
  simpl in H |- *. apply andb_true_iff in H as [H1 H2]. apply andb_true_iff. split.
  - rewrite forallb_forall in H1 |- *. rewrite Forall_forall in IH. intros a Ha. apply IH; [exact Ha | apply H1; exact Ha].
  - destruct (N.eqb c c_imp) eqn:E1.
    + apply N.eqb_eq in E1. subst. rewrite (env_heads c_imp (or_introl eq_refl)). reflexivity.
    + destruct (N.eqb c c_app) eqn:E2.
      * apply N.eqb_eq in E2. subst. rewrite (env_heads c_app (or_intror eq_refl)). reflexivity.
      * simpl in H2. exact H2.
Qed.

Lemma mvid_inj a b : In a (float_vars d) -> In b (float_vars d) -> mvid d a = mvid d b -> a = b.
Proof. unfold mvid. rewrite pf_eq. apply idx_or0_inj. Qed.

(** the checker's Instantiate computes the image of the substituted term *)
Lemma inst_img vs ts t :
  term_ok env (float_vars d) t = true ->
  NoDup vs -> length vs = length ts -> (forall v, In v vs -> In v (float_vars d)) ->
  inst g0 (im t) (rev (map (mvid d) vs)) (rev (map im ts)) = Some (im (tsubst (combine vs ts) t)).
Proof.
  intros TO ND L Hvs. unfold term_ok in TO. apply andb_true_iff in TO as [WF VO].
  unfold img. rewrite (expand_tsubst _ _ _ closed_env (wf_arity _ _ WF)).
  apply img0_inst. intros v Hv.
  assert (Hvf: In v (float_vars d)).
  { rewrite forallb_forall in VO. apply memN_In. apply VO. exact Hv. }
  rewrite lookup_rev.
  - rewrite combine_map2.
    rewrite <- (map_map (fun e : N * mmterm => (fst e, img0 sid (mvid d) (expand env (snd e))))
                        (fun e : N * pat => (mvid d (fst e), snd e))).
    change (map (fun e : N * mmterm => (fst e, img0 sid (mvid d) (expand env (snd e)))) (combine vs ts))
      with (map_snd (fun u => img0 sid (mvid d) (expand env u)) (combine vs ts)).
    rewrite (assoc_map_key (mvid d) (float_vars d)); [| exact mvid_inj | exact Hvf |].
    + rewrite !assoc_map_snd. destruct (assoc v (combine vs ts)); reflexivity.
    + intros k Hk. apply Hvs. unfold map_snd in Hk. rewrite map_map in Hk. simpl in Hk.
      apply in_map_iff in Hk as [[k' x] [E1 E2]]. simpl in E1. subst. apply in_combine_l in E2. exact E2.
  - clear -ND Hvs HPF HND. induction vs as [|x vs IH]; simpl; [constructor|]. inversion ND; subst.
    constructor.
    + intros HI. apply in_map_iff in HI as [y [E Hy]]. apply mvid_inj in E; [subst; contradiction| |];
        apply Hvs; simpl; auto.
    + apply IH; [assumption|]. intros v Hv. apply Hvs. right. exact Hv.
  - rewrite !map_length. exact L.
Qed.

(** ---- the relation *)
Definition rel (s:stmt) (x:term) : Prop :=
  exists t, (s = (tc_pattern, [t]) /\ x = TPat (im t)) \/ (s = (tc_proved, [t]) /\ x = TProved (im t)).

Lemma rel_pat t x : rel (tc_pattern, [t]) x -> x = TPat (im t).
Proof. intros [u [[E1 E2]|[E1 E2]]]; inversion E1; subst; reflexivity. Qed.

Lemma rel_proved t x : rel (tc_proved, [t]) x -> x = TProved (im t).
Proof. intros [u [[E1 E2]|[E1 E2]]]; inversion E1; subst; reflexivity. Qed.

Lemma rel_mk_pat t : rel (tc_pattern, [t]) (TPat (im t)).
Proof. exists t. left. split; reflexivity. Qed.
Lemma rel_mk_proved t : rel (tc_proved, [t]) (TProved (im t)).
Proof. exists t. right. split; reflexivity. Qed.

Lemma rel_pats ts : forall xs, Forall2 rel (map (fun t => (tc_pattern, [t])) ts) xs -> xs = map TPat (map im ts).
Proof.
  induction ts as [|t ts IH]; intros xs H; inversion H; subst; simpl; [reflexivity|].
  rewrite (rel_pat _ _ H2), (IH _ H4). reflexivity.
Qed.

Lemma rel_proveds ts : forall xs, Forall2 rel (map (fun t => (tc_proved, [t])) ts) xs -> xs = map TProved (map im ts).
Proof.
  induction ts as [|t ts IH]; intros xs H; inversion H; subst; simpl; [reflexivity|].
  rewrite (rel_proved _ _ H2), (IH _ H4). reflexivity.
Qed.

Variable cl : list pat.

Record inv (ms mh:list stmt) (t:tst) : Prop := mkInv {
  inv_stack : Forall2 rel ms (stack (mst t));
  inv_heap : Forall2 rel mh (heap t);
  inv_heap_mem : forall x, In x (heap t) -> In x (memory (mst t));
  inv_ax : forall a, In a (exported d) -> In (TProved (axiom_pat d sid a)) (memory (mst t));
  inv_claims : claims (mst t) = cl }.

Lemma inv_same_but ms mh t t' ms' stk extra :
  inv ms mh t -> same_but t t' stk extra -> Forall2 rel ms' stk -> inv ms' mh t'.
Proof.
  intros I (A1 & A2 & A3 & A4 & A5) HR. destruct I as [I1 I2 I3 I4 I5]. constructor.
  - rewrite A1. exact HR.
  - rewrite A4. exact I2.
  - intros x Hx. rewrite A4 in Hx. rewrite A2. apply in_or_app. left. apply I3. exact Hx.
  - intros a Ha. rewrite A2. apply in_or_app. left. apply I4. exact Ha.
  - rewrite A3. exact I5.
Qed.

(** ---- the floating-hypothesis arguments on both stacks *)
Lemma float_entries fl ts :
  (forall f, In f fl -> In f (floats d)) -> length ts = length fl ->
  map (fun ft => float_entry (fst ft) (snd ft)) (combine fl ts) = map (fun t => (tc_pattern, [t])) ts.
Proof.
  revert ts. induction fl as [|f fl IH]; intros [|t ts] Hf L; simpl in *; try discriminate; [reflexivity|].
  unfold float_entry at 1. simpl. rewrite (float_tc f (Hf f (or_introl eq_refl))).
  rewrite IH; [reflexivity | intros g Hg; apply Hf; right; exact Hg | lia].
Qed.

Lemma mand_floats_in ctx a : floats ctx = floats d -> forall f, In f (mand_floats ctx a) -> In f (floats d).
Proof. intros E f H. unfold mand_floats in H. rewrite E in H. apply filter_In in H as [H _]. exact H. Qed.

Lemma mand_vars_order ctx a : floats ctx = floats d ->
  map (fun f => snd f) (mand_floats ctx a) = metavars_in_order d a.
Proof.
  intros E. unfold mand_floats, metavars_in_order. rewrite E, pf_eq. unfold float_vars.
  apply (map_filter_comm (fun f : label * N * N => snd f) (fun v => memN v (mand_vars a))).
Qed.

Lemma mio_NoDup a : NoDup (metavars_in_order d a).
Proof. unfold metavars_in_order. apply NoDup_filter. rewrite pf_eq. apply nodupb_NoDup. exact HND. Qed.

Lemma mio_in a v : In v (metavars_in_order d a) -> In v (float_vars d).
Proof. unfold metavars_in_order. rewrite pf_eq. intros H. apply filter_In in H as [H _]. exact H. Qed.

(** what a successful [apply_assertion] looks like in the fragment *)
Lemma apply_inv ctx a ms ms' :
  floats ctx = floats d -> apply_assertion ctx a ms = Some ms' ->
  exists ts rest,
    length ts = length (metavars_in_order d a) /\
    let s := combine (metavars_in_order d a) ts in
    ms = rev (map (fun e => ssubst s (snd e)) (a_ess a)) ++ rev (map (fun t => (tc_pattern, [t])) ts) ++ rest
    /\ ms' = ssubst s (a_stmt a) :: rest.
Proof.
  intros E H. unfold apply_assertion in H.
  destruct (negb (forallb (has_float ctx) (mand_vars a))); [discriminate|].
  destruct (pop_n _ ms []) as [[args rest]|] eqn:P; [|discriminate].
  destruct (bind_floats _ _) as [s|] eqn:B; [|discriminate].
  destruct (forallb2 stmt_eqb _ _) eqn:Q; [|discriminate]. inversion H; subst ms'. clear H.
  apply stmts_eqb_eq in Q.
  apply pop_n_spec in P as [popped [L [E1 E2]]]. rewrite app_nil_r in E2.
  apply bind_floats_spec in B as [ts [Lt [B1 B2]]].
  rewrite (mand_vars_order ctx a E) in B2.
  rewrite float_entries in B1; [| apply mand_floats_in; exact E | exact Lt].
  exists ts, rest. split.
  - rewrite <- (mand_vars_order ctx a E), map_length. exact Lt.
  - simpl. rewrite <- B2. split; [|reflexivity].
    assert (EP: popped = rev (skipn (length (mand_floats ctx a)) args) ++ rev (firstn (length (mand_floats ctx a)) args)).
    { rewrite <- rev_app_distr, firstn_skipn, E2, rev_involutive. reflexivity. }
    rewrite E1, EP, B1, Q, <- app_assoc. reflexivity.
Qed.

Lemma Forall2_app_l {A B} (R:A->B->Prop) l1 l2 l :
  Forall2 R (l1 ++ l2) l -> exists x1 x2, l = x1 ++ x2 /\ Forall2 R l1 x1 /\ Forall2 R l2 x2.
Proof. intros H. apply Forall2_app_inv_l in H as [x1 [x2 [H1 [H2 H3]]]]. exists x1, x2. auto. Qed.

Lemma Forall2_rev' {A B} (R:A->B->Prop) l1 l2 : Forall2 R l1 l2 -> Forall2 R (rev l1) (rev l2).
Proof.
  induction 1 as [|x y l1 l2 Hxy H IH]; simpl; [constructor|].
  apply Forall2_app; [exact IH | constructor; [exact Hxy | constructor]].
Qed.

Lemma Forall2_rev {A B} (R:A->B->Prop) l1 l2 : Forall2 R (rev l1) l2 -> Forall2 R l1 (rev l2).
Proof.
  intros H. apply Forall2_rev' in H. rewrite rev_involutive in H. exact H.
Qed.

(** split the checker stack along a Metamath stack [rev E ++ rev F ++ rest] *)
Lemma stack_split es ts rest stk :
  Forall2 rel (rev (map (fun t => (tc_proved, [t])) es) ++ rev (map (fun t => (tc_pattern, [t])) ts) ++ rest) stk ->
  exists srest, stk = map TProved (rev (map im es)) ++ map TPat (rev (map im ts)) ++ srest /\ Forall2 rel rest srest.
Proof.
  intros H. apply Forall2_app_l in H as [x1 [x23 [E1 [H1 H23]]]].
  apply Forall2_app_l in H23 as [x2 [x3 [E2 [H2 H3]]]].
  apply Forall2_rev in H1. apply rel_proveds in H1. apply Forall2_rev in H2. apply rel_pats in H2.
  exists x3. split; [|exact H3]. subst stk x23.
  rewrite <- (rev_involutive x1), H1. rewrite <- (rev_involutive x2), H2.
  rewrite !map_rev. reflexivity.
Qed.

End Sim.

(** C16: composition — label dispatch, step lists, the three phases, and the main theorem
    [translate_correct]. *)
From Coq Require Import NArith PeanoNat List Bool Lia.
From Pi2 Require Import ML.Syntax ML.Subst ML.Machine ML.Facts
  MM16.Verify MM16.Convert MM16.Instr MM16.Translate MM16.Fragment
  MM16.InstrFacts MM16.ConvertFacts MM16.SimFacts MM16.VerifyFacts MM16.Sim MM16.Step MM16.Rules.
Import ListNotations.
Open Scope N_scope.

Section Compose.
Variable d : db.
Variable sid : N -> N.
Hypothesis FF : floats_first d = true.
Hypothesis HPF : forallb (fun f => N.eqb (snd (fst f)) tc_pattern) (floats d) = true.
Hypothesis HND : nodupb (float_vars d) = true.
Hypothesis HENV : env_ok (env_of d) = true.
Hypothesis AX : forallb (fun it => match it with IAx a => axiom_ok d a | _ => true end) d = true.
Variable cl : list pat.

Notation im := (img d sid).
Notation env := (env_of d).
Notation Inv := (inv d sid cl).

Lemma classify_tc a k : classify a = k ->
  match k with
  | KAxiom | KRule => fst (a_stmt a) = tc_proved
  | KCtor => fst (a_stmt a) = tc_pattern
  | _ => True
  end.
Proof.
  intros <-. unfold classify. destruct (notation_decl (IAx a)); [exact I|].
  destruct (N.eqb (fst (a_stmt a)) tc_proved) eqn:E1.
  - apply N.eqb_eq in E1. destruct (is_rule_label (a_label a)); exact E1.
  - destruct (N.eqb (fst (a_stmt a)) tc_pattern) eqn:E2; [apply N.eqb_eq in E2; exact E2 | exact I].
Qed.

Lemma axiom_ok_in a : In (IAx a) d -> axiom_ok d a = true.
Proof. intros H. rewrite forallb_forall in AX. apply (AX _ H). Qed.

Lemma run_imp st l r s : stack st = TPat r :: TPat l :: s -> iruns Proof [OImp] st = Some (set_stack (TPat (Imp l r) :: s) st).
Proof. intros H. simpl. rewrite H. reflexivity. Qed.
Lemma run_app st l r s : stack st = TPat r :: TPat l :: s -> iruns Proof [OApp] st = Some (set_stack (TPat (App l r) :: s) st).
Proof. intros H. simpl. rewrite H. reflexivity. Qed.

Lemma ctor_sim a ctx ms ms' mh t :
  floats ctx = floats d -> In (IAx a) d -> classify a = KCtor ->
  Inv ms mh t -> apply_assertion ctx a ms = Some ms' ->
  exists t', ctor_step d sid a t = Some t' /\ Inv ms' mh t' /\ steps_to t t'.
Proof.
  intros EF HIn HC I HA. pose proof (axiom_ok_in a HIn) as HOK.
  pose proof (classify_tc a _ HC) as ET. simpl in ET.
  unfold axiom_ok in HOK. rewrite HC in HOK.
  apply andb_true_iff in HOK as [HOK HL]. apply andb_true_iff in HOK as [HOK HT]. apply andb_true_iff in HOK as [HE H1].
  assert (EE: a_ess a = []) by (destruct (a_ess a); [reflexivity | discriminate]).
  pose proof (stmt_one _ H1) as ES. rewrite ET in ES.
  unfold ctor_step.
  destruct (a_label a) eqn:EL.
  - eapply (ctor_bin_sim d sid HPF HND cl c_imp OImp Imp); try eassumption; [exact run_imp | apply (img_imp d sid HENV)].
  - eapply (ctor_bin_sim d sid HPF HND cl c_app OApp App); try eassumption; [exact run_app | apply (img_app d sid HENV)].
  - eapply ctor_generic_sim; eassumption.
  - eapply ctor_generic_sim; eassumption.
  - eapply ctor_generic_sim; eassumption.
  - eapply ctor_generic_sim; eassumption.
  - eapply ctor_generic_sim; eassumption.
Qed.

Lemma rule_sim a ctx ms ms' mh t :
  floats ctx = floats d -> In (IAx a) d -> classify a = KRule ->
  Inv ms mh t -> apply_assertion ctx a ms = Some ms' ->
  exists t', rule_step (a_label a) t = Some t' /\ Inv ms' mh t' /\ steps_to t t'.
Proof.
  intros EF HIn HC I HA. pose proof (axiom_ok_in a HIn) as HOK.
  pose proof (classify_tc a _ HC) as ET. simpl in ET.
  unfold axiom_ok in HOK. rewrite HC in HOK.
  destruct (a_label a) eqn:EL; try discriminate; simpl.
  - eapply prop1_sim; eassumption.
  - eapply prop2_sim; eassumption.
  - eapply mp_sim; eassumption.
Qed.

Lemma in_floats l tc v : In (IFloat l tc v) d -> In (l, tc, v) (floats d).
Proof. intros H. unfold floats. apply in_flat_map. exists (IFloat l tc v). split; [exact H | left; reflexivity]. Qed.

Lemma label_step_sim pre post tgt pl steps l ms mh ms' mh' t :
  d = pre ++ IProv tgt pl steps :: post -> a_ess tgt = [] -> label_ok d l = true ->
  Inv ms mh t ->
  match lookup_ref pre tgt l with
  | Some (RHyp s) => Some (s :: ms, mh)
  | Some (RAssert ctx a) => match apply_assertion ctx a ms with Some stk' => Some (stk', mh) | None => None end
  | None => None
  end = Some (ms', mh') ->
  exists t', label_step d sid l t = Some t' /\ Inv ms' mh' t' /\ steps_to t t'.
Proof.
  intros ED EE LO I H. unfold lookup_ref in H. rewrite EE in H. simpl in H.
  destruct (find_item pre l) as [[i it]|] eqn:F; [|discriminate].
  assert (FD: find_item d l = Some (i, it)) by (rewrite ED; apply find_item_app; exact F).
  destruct (find_item_spec _ _ _ _ F) as [Nn EL].
  assert (HIn: In it d). { rewrite ED. apply in_or_app. left. eapply nth_error_In. exact Nn. }
  unfold label_ok in LO. rewrite FD in LO. unfold label_step. rewrite FD.
  destruct it as [l' tc v|a|a pl' st'].
  - inversion H; subst ms' mh'. clear H.
    assert (ETC: tc = tc_pattern). { apply (float_tc d HPF (l', tc, v)). apply in_floats. exact HIn. }
    subst tc. rewrite N.eqb_refl. apply float_sim. exact I.
  - assert (EF: floats (firstn i pre) = floats d).
    { rewrite ED. apply (ctx_floats pre (IProv tgt pl steps :: post) i (IAx a)); [rewrite <- ED; exact FF | exact Nn | reflexivity]. }
    destruct (apply_assertion (firstn i pre) a ms) as [stk'|] eqn:HA; [|discriminate].
    inversion H; subst ms' mh'. clear H.
    destruct (classify a) eqn:HC; try discriminate.
    + eapply ctor_sim; eassumption.
    + eapply ax_sim; try eassumption. apply axiom_ok_in. exact HIn.
    + simpl in EL. rewrite <- EL. eapply rule_sim; eassumption.
  - discriminate.
Qed.

Lemma tstep_sim pre post tgt pl steps labels n ms mh ms' mh' t :
  d = pre ++ IProv tgt pl steps :: post -> a_ess tgt = [] ->
  (forall l, In l labels -> label_ok d l = true) ->
  Inv ms mh t -> mm_step pre tgt labels n (ms, mh) = Some (ms', mh') ->
  exists t', tstep d sid labels n t = Some t' /\ Inv ms' mh' t' /\ steps_to t t'.
Proof.
  intros ED EE LO I H. unfold mm_step in H. unfold tstep.
  destruct (N.eqb n 0).
  - destruct ms as [|x ms0]; [discriminate|]. inversion H; subst ms' mh'. apply z_sim. exact I.
  - destruct (Nat.leb (N.to_nat n) (length labels)).
    + destruct (nth_error labels (N.to_nat n - 1)) as [l|] eqn:Nn; [|discriminate].
      eapply label_step_sim; try eassumption. apply LO. eapply nth_error_In. exact Nn.
    + destruct (nth_error mh (N.to_nat n - length labels - 1)) as [s|] eqn:Nn; [|discriminate].
      inversion H; subst ms' mh'. eapply backref_sim; eassumption.
Qed.

Lemma trun_sim pre post tgt pl steps0 labels :
  d = pre ++ IProv tgt pl steps0 :: post -> a_ess tgt = [] ->
  (forall l, In l labels -> label_ok d l = true) ->
  forall steps ms mh ms' mh' t,
  Inv ms mh t -> mm_run pre tgt labels steps (ms, mh) = Some (ms', mh') ->
  exists t', trun d sid labels steps t = Some t' /\ Inv ms' mh' t' /\ steps_to t t'.
Proof.
  intros ED EE LO. induction steps as [|n steps IH]; intros ms mh ms' mh' t I H; cbn [mm_run trun] in H |- *.
  - inversion H; subst ms' mh'. exists t. split; [reflexivity|]. split; [exact I | apply steps_refl].
  - destruct (mm_step pre tgt labels n (ms, mh)) as [[ms1 mh1]|] eqn:S; [|discriminate].
    edestruct tstep_sim as [t1 [T1 [I1 P1]]]; [exact ED | exact EE | exact LO | exact I | exact S |]. rewrite T1.
    destruct (IH _ _ _ _ _ I1 H) as [t2 [T2 [I2 P2]]]. exists t2. split; [exact T2|]. split; [exact I2|].
    eapply steps_trans; eassumption.
Qed.

(** ---- Gamma and Claim phases *)
Lemma axiom_pat_simple a : simple (axiom_pat d sid a) = true.
Proof.
  unfold axiom_pat, ants_pat, concl_pat. apply chain_imp_simple.
  - induction (a_ess a) as [|e es IH]; simpl; [reflexivity|]. rewrite im_simple. exact IH.
  - destruct (a_stmt a) as [tc [|t r]]; [reflexivity | apply im_simple].
Qed.

Lemma publish_list ph (P:assertion -> pat) (upd:state -> pat -> state) l :
  (forall a, simple (P a) = true) ->
  (forall st p, irun ph OPublish (push (TPat p) st) = Some (upd st p)) ->
  forall st, iruns ph (flat_map (fun a => emit_pat (P a) ++ [OPublish]) l) st
             = Some (fold_left (fun s a => upd s (P a)) l st).
Proof.
  intros HS HP. induction l as [|a l IH]; intros st; simpl; [reflexivity|].
  rewrite <- app_assoc. rewrite iruns_app, (emit_pat_run ph _ (HS a)). cbn [iruns app].
  rewrite HP. apply IH.
Qed.

Lemma fold_publish (P:assertion -> pat) l : forall st,
  fold_left (fun s a => mkst (stack s) (memory s ++ [TProved (P a)]) (claims s)) l st
  = mkst (stack st) (memory st ++ map (fun a => TProved (P a)) l) (claims st).
Proof.
  induction l as [|a l IH]; intros st; simpl.
  - rewrite app_nil_r. destruct st; reflexivity.
  - rewrite IH. simpl. rewrite <- app_assoc. reflexivity.
Qed.

Lemma gamma_ok :
  iruns Gamma (gamma_instrs d sid) st0
  = Some (mkst [] (map (fun a => TProved (axiom_pat d sid a)) (exported d)) []).
Proof.
  unfold gamma_instrs.
  rewrite (publish_list Gamma (axiom_pat d sid) (fun st p => mkst (stack st) (memory st ++ [TProved p]) (claims st))).
  - rewrite fold_publish. reflexivity.
  - exact axiom_pat_simple.
  - intros st p. reflexivity.
Qed.

Lemma claim_ok a s1 :
  iruns Claim (claim_instrs d sid [a]) (set_stack [] s1) = Some (mkst [] (memory s1) (lemma_pat d sid a :: claims s1)).
Proof.
  unfold claim_instrs. simpl. rewrite app_nil_r. rewrite iruns_app.
  rewrite (emit_pat_run Claim); [reflexivity|]. apply im_simple.
Qed.

End Compose.

(** C16: the checker instructions the Metamath translator emits, with their byte encoding
    ([serializing_interpreter.py]) and a direct semantics that [MM16/InstrFacts.v] proves equal to
    [ML.Machine.exec] on the encoded bytes.  Definitions only. *)
From Coq Require Import NArith List Bool.
From Pi2 Require Import ML.Syntax ML.Subst ML.Machine.
Import ListNotations.
Open Scope N_scope.

Inductive oinstr :=
| OSym (id:N) | OImp | OApp | OMeta (id:N)
| OProp1 | OProp2 | OMP
| OInst (ids:list N)
| OPop | OSave | OLoad (i:N) | OPublish.

Definition enc1 (i:oinstr) : list N :=
  match i with
  | OSym id => [4; id]
  | OImp => [5]
  | OApp => [6]
  | OMeta id => [137; id]
  | OProp1 => [12]
  | OProp2 => [13]
  | OMP => [21]
  | OInst ids => 26 :: N.of_nat (length ids) :: ids
  | OPop => [27]
  | OSave => [28]
  | OLoad i => [29; i]
  | OPublish => [30]
  end.
Definition encode (is:list oinstr) : list N := flat_map enc1 is.

(** pop [n] patterns (head = top); [None] if a non-pattern or too few *)
Fixpoint pop_pats (n:nat) (s:list term) : option (list pat * list term) :=
  match n with
  | O => Some ([], s)
  | S n' => match s with
            | TPat p :: s' => match pop_pats n' s' with
                              | Some (ps, r) => Some (p::ps, r)
                              | None => None end
            | _ => None
            end
  end.

Definition g0 := guards_sound.

Definition irun (ph:phase) (i:oinstr) (st:state) : option state :=
  match i with
  | OSym id => Some (push (TPat (Sym id)) st)
  | OMeta id => Some (push (TPat (phi id)) st)
  | OImp => match stack st with
            | TPat r :: TPat l :: s => Some (set_stack (TPat (Imp l r) :: s) st)
            | _ => None end
  | OApp => match stack st with
            | TPat r :: TPat l :: s => Some (set_stack (TPat (App l r) :: s) st)
            | _ => None end
  | OProp1 => Some (push (TProved ax_prop1) st)
  | OProp2 => Some (push (TProved ax_prop2) st)
  | OMP => match stack st with
           | TProved p2 :: TProved (Imp l r) :: s =>
               if pat_eqb l p2 then Some (set_stack (TProved r :: s) st) else None
           | _ => None end
  | OInst ids =>
      match stack st with
      | t :: s1 =>
          match pop_pats (length ids) s1 with
          | Some (plugs, s2) =>
              match t with
              | TPat p => match inst g0 p ids plugs with
                          | Some q => Some (set_stack (TPat q :: s2) st) | None => None end
              | TProved p => match inst g0 p ids plugs with
                          | Some q => Some (set_stack (TProved q :: s2) st) | None => None end
              end
          | None => None end
      | [] => None end
  | OPop => match stack st with _ :: s => Some (set_stack s st) | [] => None end
  | OSave => match stack st with
             | t :: _ => Some (mkst (stack st) (memory st ++ [t]) (claims st))
             | [] => None end
  | OLoad i => match nth_error (memory st) (N.to_nat i) with
               | Some t => Some (push t st) | None => None end
  | OPublish =>
      match ph with
      | Gamma => match stack st with
                 | TPat p :: s => Some (mkst s (memory st ++ [TProved p]) (claims st))
                 | _ => None end
      | Claim => match stack st with
                 | TPat p :: s => Some (mkst s (memory st) (p :: claims st))
                 | _ => None end
      | Proof => match claims st, stack st with
                 | c :: cs, TProved p :: s =>
                     if pat_eqb c p then Some (mkst s (memory st) cs) else None
                 | _, _ => None end
      end
  end.

Fixpoint iruns (ph:phase) (is:list oinstr) (st:state) : option state :=
  match is with
  | [] => Some st
  | i::r => match irun ph i st with Some st' => iruns ph r st' | None => None end
  end.

(** [Interpreter.pattern] for the patterns of the fragment (post-order) *)
Fixpoint emit_pat (p:pat) : list oinstr :=
  match p with
  | Sym id => [OSym id]
  | Imp l r => emit_pat l ++ emit_pat r ++ [OImp]
  | App l r => emit_pat l ++ emit_pat r ++ [OApp]
  | MVar id _ _ _ _ _ => [OMeta id]
  | _ => []
  end.

Definition term_eqb (a b:term) : bool :=
  match a, b with
  | TPat p, TPat q | TProved p, TProved q => pat_eqb p q
  | _, _ => false
  end.

(** [list.index]: first position holding an equal term *)
Fixpoint find_idx (x:term) (l:list term) : option nat :=
  match l with
  | [] => None
  | y::r => if term_eqb y x then Some O else option_map S (find_idx x r)
  end.

(** C16: the checker instructions the Metamath translator emits, with their byte encoding
    ([serializing_interpreter.py]) and a direct semantics that [MM16/InstrFacts.v] proves equal to
    [ML.Machine.exec] on the encoded bytes.  Definitions only. *)
From Coq Require Import NArith List Bool.
From Pi2 Require Import ML.Syntax ML.Subst ML.Machine.
Import ListNotations.
Open Scope N_scope.

Inductive instr :=
| ISym (id:N) | IImp | IApp | IMeta (id:N)
| IProp1 | IProp2 | IMP
| IInst (ids:list N)
| IPop | ISave | ILoad (i:N) | IPublish.

Definition enc1 (i:instr) : list N :=
  match i with
  | ISym id => [4; id]
  | IImp => [5]
  | IApp => [6]
  | IMeta id => [137; id]
  | IProp1 => [12]
  | IProp2 => [13]
  | IMP => [21]
  | IInst ids => 26 :: N.of_nat (length ids) :: ids
  | IPop => [27]
  | ISave => [28]
  | ILoad i => [29; i]
  | IPublish => [30]
  end.
Definition encode (is:list instr) : list N := flat_map enc1 is.

(** pop [n] patterns (head = top); [None] if a non-pattern or too few *)
Fixpoint pop_pats (n:nat) (s:list term) : option (list pat * list term) :=
  match n with
  | O => Some ([], s)
  | S n' => match s with
            | TPat p :: s' => match pop_pats n' s' with
                              | Some (ps, r) => Some (p::ps, r)
                              | None => None end
            | _ => None
            end
  end.

Definition g0 := guards_sound.

Definition irun (ph:phase) (i:instr) (st:state) : option state :=
  match i with
  | ISym id => Some (push (TPat (Sym id)) st)
  | IMeta id => Some (push (TPat (phi id)) st)
  | IImp => match stack st with
            | TPat r :: TPat l :: s => Some (set_stack (TPat (Imp l r) :: s) st)
            | _ => None end
  | IApp => match stack st with
            | TPat r :: TPat l :: s => Some (set_stack (TPat (App l r) :: s) st)
            | _ => None end
  | IProp1 => Some (push (TProved ax_prop1) st)
  | IProp2 => Some (push (TProved ax_prop2) st)
  | IMP => match stack st with
           | TProved p2 :: TProved (Imp l r) :: s =>
               if pat_eqb l p2 then Some (set_stack (TProved r :: s) st) else None
           | _ => None end
  | IInst ids =>
      match stack st with
      | t :: s1 =>
          match pop_pats (length ids) s1 with
          | Some (plugs, s2) =>
              match t with
              | TPat p => match inst g0 p ids plugs with
                          | Some q => Some (set_stack (TPat q :: s2) st) | None => None end
              | TProved p => match inst g0 p ids plugs with
                          | Some q => Some (set_stack (TProved q :: s2) st) | None => None end
              end
          | None => None end
      | [] => None end
  | IPop => match stack st with _ :: s => Some (set_stack s st) | [] => None end
  | ISave => match stack st with
             | t :: _ => Some (mkst (stack st) (memory st ++ [t]) (claims st))
             | [] => None end
  | ILoad i => match nth_error (memory st) (N.to_nat i) with
               | Some t => Some (push t st) | None => None end
  | IPublish =>
      match ph with
      | Gamma => match stack st with
                 | TPat p :: s => Some (mkst s (memory st ++ [TProved p]) (claims st))
                 | _ => None end
      | Claim => match stack st with
                 | TPat p :: s => Some (mkst s (memory st) (p :: claims st))
                 | _ => None end
      | Proof => match claims st, stack st with
                 | c :: cs, TProved p :: s =>
                     if pat_eqb c p then Some (mkst s (memory st) cs) else None
                 | _, _ => None end
      end
  end.

Fixpoint iruns (ph:phase) (is:list instr) (st:state) : option state :=
  match is with
  | [] => Some st
  | i::r => match irun ph i st with Some st' => iruns ph r st' | None => None end
  end.

(** [Interpreter.pattern] for the patterns of the fragment (post-order) *)
Fixpoint emit_pat (p:pat) : list instr :=
  match p with
  | Sym id => [ISym id]
  | Imp l r => emit_pat l ++ emit_pat r ++ [IImp]
  | App l r => emit_pat l ++ emit_pat r ++ [IApp]
  | MVar id _ _ _ _ _ => [IMeta id]
  | _ => []
  end.

Definition term_eqb (a b:term) : bool :=
  match a, b with
  | TPat p, TPat q | TProved p, TProved q => pat_eqb p q
  | _, _ => false
  end.

(** [list.index]: first position holding an equal term *)
Fixpoint find_idx (x:term) (l:list term) : option nat :=
  match l with
  | [] => None
  | y::r => if term_eqb y x then Some O else option_map S (find_idx x r)
  end.

(** C16, tie by translation: the vocabulary the generated file [Gen/MMTranslate.v] is written in.

    [translators/mm_translate.py] turns the Python statements of [translate.exec_proof] (with its nested
    [get_delta]/[do_mp]), [translate.convert_to_implication], the axiom/claim assembly of [translate.main]
    and the mandatory-hypothesis loop of [converter._import_proof.split_proof] into Gallina, statement by
    statement.  What it does NOT translate are the objects those statements talk to: the interpreter
    ([interpreter().save(...)], ...), the converter's query methods and Python's list/dict primitives.
    Their meaning is fixed here, once, by hand (so this file is trusted for the translation tie; the
    differential tie of harness/c16.py still compares the whole thing with the running code).
    A Python exception (assert, IndexError, KeyError, NotImplementedError) is [None].
    Definitions only. *)
From Coq Require Import ZArith NArith List Bool.
From Pi2 Require Import ML.Syntax ML.Subst ML.Machine MM16.Verify MM16.Convert MM16.Instr MM16.Translate.
Import ListNotations.
Open Scope N_scope.

(** ---- the state the statements act on: the tracked checker state and the bytes emitted so far *)
Record gst := mkG { g_mst : state; g_out : list oinstr }.
Definition M (A:Type) : Type := gst -> option (A * gst).
Definition ret {A} (x:A) : M A := fun s => Some (x, s).
Definition bind {A B} (m:M A) (k:A -> M B) : M B :=
  fun s => match m s with Some (x, s') => k x s' | None => None end.
Definition raise {A} : M A := fun _ => None.
Definition py_assert (b:bool) : M unit := fun s => if b then Some (tt, s) else None.
Definition lift {A} (o:option A) : M A := fun s => match o with Some x => Some (x, s) | None => None end.

Declare Scope gen_scope.
Delimit Scope gen_scope with gen.
Notation "x <- m ;; k" := (bind m (fun x => k)) (at level 61, m at next level, right associativity) : gen_scope.
Notation "' p <- m ;; k" := (bind m (fun p => k)) (at level 61, p pattern, m at next level, right associativity) : gen_scope.
Notation "m ;;; k" := (bind m (fun _ => k)) (at level 61, right associativity) : gen_scope.

Fixpoint foldM {A S} (f:S -> A -> M S) (l:list A) (acc:S) : M S :=
  match l with
  | [] => ret acc
  | x::r => bind (f acc x) (fun acc' => foldM f r acc')
  end.

(** ---- Python lists, ints and dicts.  A Python list is kept in Python order (index 0 first). *)
Definition py_index {A} (l:list A) (z:Z) : option A :=
  if (z <? 0)%Z then
    let k := Z.to_nat (- z) in
    if Nat.leb k (length l) then nth_error l (length l - k) else None
  else nth_error l (Z.to_nat z).
Definition p_index {A} (l:list A) (z:Z) : M A := lift (py_index l z).
Definition py_len {A} (l:list A) : Z := Z.of_nat (length l).
(** truthiness of a list / tuple, also written [len(l) > 0] *)
Definition py_nonempty {A} (l:list A) : bool := match l with [] => false | _ :: _ => true end.

(** [dict[int, Pattern]] (instantiation maps): insertion ordered, assignment to an existing key replaces *)
Definition dict := list (N * term).
Definition dict_empty : dict := [].
Fixpoint dict_set (k:N) (v:term) (d:dict) : dict :=
  match d with
  | [] => [(k, v)]
  | (k', v')::r => if N.eqb k' k then (k, v)::r else (k', v') :: dict_set k v r
  end.
Definition dict_keys (d:dict) : list N := map fst d.
Definition dict_values (d:dict) : list term := map snd d.

(** [dict[int, str]] (label table of a proof) *)
Definition zdict := list (Z * label).
Fixpoint zdict_get (d:zdict) (k:Z) : option label :=
  match d with
  | [] => None
  | (k', v)::r => if Z.eqb k' k then Some v else zdict_get r k
  end.
Definition zdict_has (d:zdict) (k:Z) : bool := match zdict_get d k with Some _ => true | None => false end.
Fixpoint zdict_set (k:Z) (v:label) (d:zdict) : zdict :=
  match d with
  | [] => [(k, v)]
  | (k', v')::r => if Z.eqb k' k then (k, v)::r else (k', v') :: zdict_set k v r
  end.

(** ---- [isinstance] *)
Definition is_pattern (x:term) : bool := match x with TPat _ => true | TProved _ => false end.
Definition is_proved (x:term) : bool := match x with TProved _ => true | TPat _ => false end.
Definition is_metavar (p:pat) : bool := match p with MVar _ _ _ _ _ _ => true | _ => false end.
Definition mv_name (p:pat) : N := match p with MVar id _ _ _ _ _ => id | _ => 0 end.
Definition mk_proved (p:pat) : term := TProved p.

(** ---- the interpreter ([StatefulInterpreter] under [SerializingInterpreter]) *)
Definition gdo (is:list oinstr) : M unit :=
  fun s => match iruns Proof is (g_mst s) with
           | Some st => Some (tt, mkG st (g_out s ++ is))
           | None => None end.

(** [stack()[z]]: the Python stack has its top last; the model's has it first *)
Definition p_stack_at (z:Z) : M term :=
  fun s => let stk := stack (g_mst s) in
           match (if (z <? 0)%Z then nth_error stk (Z.to_nat (- z) - 1) else nth_error (rev stk) (Z.to_nat z)) with
           | Some x => Some (x, s) | None => None end.

Definition top_is (x:term) : M unit :=
  fun s => match stack (g_mst s) with
           | y :: _ => if Instr.term_eqb y x then Some (tt, s) else None
           | [] => None end.
Definition top2_are (l r:term) : M unit :=
  fun s => match stack (g_mst s) with
           | r' :: l' :: _ => if Instr.term_eqb l' l && Instr.term_eqb r' r then Some (tt, s) else None
           | _ => None end.

Definition i_save (x:term) : M unit := bind (top_is x) (fun _ => gdo [OSave]).
Definition i_pop (x:term) : M unit := bind (top_is x) (fun _ => gdo [OPop]).
Definition i_load (x:term) : M unit :=
  fun s => match find_idx x (memory (g_mst s)) with
           | Some i => gdo [OLoad (N.of_nat i)] s
           | None => None end.
Definition i_app (l r:term) : M unit := bind (top2_are l r) (fun _ => gdo [OApp]).
Definition i_implies (l r:term) : M unit := bind (top2_are l r) (fun _ => gdo [OImp]).
Definition i_pattern (p:pat) : M unit := gdo (emit_pat p).
Definition i_metavar (id:N) : M unit := gdo [OMeta id].
Definition i_prop1 : M term := bind (gdo [OProp1]) (fun _ => ret (TProved ax_prop1)).
Definition i_prop2 : M term := bind (gdo [OProp2]) (fun _ => ret (TProved ax_prop2)).
Definition i_modus_ponens (l r:term) : M unit := bind (top2_are l r) (fun _ => gdo [OMP]).

Fixpoint terms_eqb (a b:list term) : bool :=
  match a, b with
  | [], [] => true
  | x::a', y::b' => Instr.term_eqb x y && terms_eqb a' b'
  | _, _ => false
  end.

(** [instantiate(x, delta)] / [instantiate_pattern(x, delta)]: the term on top is [x], the [len(delta)]
    entries below it are [list(delta.values())] (deepest first); emits [Instantiate len *reversed(keys)] *)
Definition i_instantiate (x:term) (delta:dict) : M unit :=
  fun s => match stack (g_mst s) with
           | y :: below =>
               if Instr.term_eqb y x && Nat.leb (length delta) (length below)
                  && terms_eqb (rev (firstn (length delta) below)) (dict_values delta)
               then gdo [OInst (rev (dict_keys delta))] s else None
           | [] => None end.

Definition i_publish_proof (x:term) : M unit := bind (top_is x) (fun _ => gdo [OPublish]).

(** ---- the converter, as far as the translated statements query it *)
Record conv := mkCv { cv_d : db; cv_sid : N -> N }.

Definition cv_get_axiom_by_name (cv:conv) (l:label) : M assertion :=
  lift (match find_item (cv_d cv) l with Some (_, IAx a) => Some a | _ => None end).
Definition cv_kind (cv:conv) (l:label) : option akind :=
  match find_item (cv_d cv) l with Some (_, IAx a) => Some (classify a) | _ => None end.
Definition cv_pattern_constructors_has (cv:conv) (l:label) : bool :=
  match cv_kind cv l with Some KNotation | Some KCtor => true | _ => false end.
Definition cv_exported_axioms_has (cv:conv) (l:label) : bool :=
  match cv_kind cv l with Some KAxiom => true | _ => false end.
Definition cv_proof_rules_has (cv:conv) (l:label) : bool :=
  match cv_kind cv l with Some KRule => true | _ => false end.
Definition cv_exported_axioms (cv:conv) : list label := map a_label (exported (cv_d cv)).

Definition cv_fp_has (cv:conv) (l:label) : bool :=
  match find_item (cv_d cv) l with Some (_, IFloat _ _ _) => true | _ => false end.
(** [_fp_label_to_pattern[label]]: a one-element tuple; a [#Pattern] float is a [MetaVar], the other
    typecodes (outside the model) are element/set variables or symbols, i.e. not a [MetaVar] *)
Definition cv_get_floating_pattern_by_name (cv:conv) (l:label) : M (list pat) :=
  lift (match find_item (cv_d cv) l with
        | Some (_, IFloat _ tc v) => Some [if N.eqb tc tc_pattern then phi (mvid (cv_d cv) v) else EVar 0]
        | _ => None end).

Definition ax_pattern (cv:conv) (a:assertion) : pat := concl_pat (cv_d cv) (cv_sid cv) a.
Definition ax_antecedents (cv:conv) (a:assertion) : list pat := ants_pat (cv_d cv) (cv_sid cv) a.
Definition ax_has_antecedents (a:assertion) : bool := match a_ess a with [] => false | _ => true end.
(** [axiom.metavars]: only its emptiness is observed; as a list: the metavariables in [$f] order *)
Definition ax_metavars (cv:conv) (a:assertion) : list N := metavars_in_order (cv_d cv) a.

Definition cv_get_metavars_in_order (cv:conv) (l:label) : M (list N) :=
  lift (match find_item (cv_d cv) l with
        | Some (_, IAx a) | Some (_, IProv a _ _) => Some (metavars_in_order (cv_d cv) a)
        | _ => None end).
Definition cv_resolve_metavar (cv:conv) (v:N) : M pat :=
  lift (if memN v (pattern_floats (cv_d cv)) then Some (phi (mvid (cv_d cv) v)) else None).

(** [proofexp.load_axiom(p)(interpreter())]: [assert p in self._axioms], then [load(Proved(p))] *)
Definition p_load_axiom (axioms:list pat) (p:pat) : M unit :=
  bind (py_assert (existsb (pat_eqb p) axioms)) (fun _ => i_load (TProved p)).

(** ---- lemmas and their decoded proofs ([representation.Proof]) *)
Record pyproof := mkPf { pf_labels : zdict; pf_applied : list Z }.
Record pylemma := mkLm { lm_a : assertion; lm_proof : pyproof }.
Definition lm_pattern (cv:conv) (lm:pylemma) : pat := lemma_pat (cv_d cv) (cv_sid cv) (lm_a lm).

(** [parse_lemmas]: the parenthesised labels continue the numbering of the mandatory hypotheses
    (character-level parsing is C15's; here only the numbering [len(declared_lemmas) + 1, ...]) *)
Fixpoint zdict_extend (d:zdict) (pl:list label) : zdict :=
  match pl with
  | [] => d
  | l::r => zdict_extend (zdict_set (py_len d + 1)%Z l d) r
  end.

(** the database as [self.parsed.statements] sees it: floating statements carry a label and a variable *)
Definition is_floating (it:item) : bool := match it with IFloat _ _ _ => true | _ => false end.
Definition fl_label (it:item) : label := item_label it.
Definition fl_metavariable (it:item) : N := match it with IFloat _ _ v => v | _ => 0 end.
Definition stmt_metavariables (a:assertion) : list N := svars (a_stmt a).

(** C16, tie by translation: how the vocabulary of [GenPrims] acts on the model's translator state
    ([R m t] runs a generated computation on a [tst], leaving the Z-heap field alone). *)
From Coq Require Import ZArith NArith PeanoNat List Bool Lia.
From Pi2 Require Import ML.Syntax ML.Subst ML.Machine ML.Facts
  MM16.Verify MM16.Convert MM16.Instr MM16.Translate MM16.InstrFacts MM16.GenPrims.
Import ListNotations.
Open Scope N_scope.

Definition g_of (t:tst) : gst := mkG (mst t) (out t).
Definition R {A} (m:M A) (t:tst) : option (A * tst) :=
  match m (g_of t) with
  | Some (x, g) => Some (x, mkT (g_mst g) (heap t) (g_out g))
  | None => None
  end.

Lemma R_ret {A} (x:A) t : R (ret x) t = Some (x, t).
Proof. destruct t; reflexivity. Qed.

Lemma R_bind {A B} (m:M A) (k:A -> M B) t :
  R (bind m k) t = match R m t with Some (x, t') => R (k x) t' | None => None end.
Proof.
  unfold R, bind. destruct (m (g_of t)) as [[x g]|]; [|reflexivity]. destruct g as [s o]. reflexivity.
Qed.

Lemma R_raise {A} t : R (@raise A) t = None.
Proof. reflexivity. Qed.

Lemma R_assert b t : R (py_assert b) t = if b then Some (tt, t) else None.
Proof. unfold R, py_assert. destruct b; [destruct t|]; reflexivity. Qed.

Lemma R_lift {A} (o:option A) t : R (lift o) t = match o with Some x => Some (x, t) | None => None end.
Proof. unfold R, lift. destruct o; [destruct t|]; reflexivity. Qed.

Lemma R_gdo is t : R (gdo is) t = match do is t with Some t' => Some (tt, t') | None => None end.
Proof. unfold R, gdo, do. simpl. destruct (iruns Proof is (mst t)); reflexivity. Qed.

Lemma do_heap is t t' : do is t = Some t' -> heap t' = heap t.
Proof. unfold do. destruct (iruns Proof is (mst t)); intros H; inversion H; reflexivity. Qed.

Lemma do_app a b t : do (a ++ b) t = match do a t with Some t1 => do b t1 | None => None end.
Proof.
  unfold do. rewrite iruns_app. destruct (iruns Proof a (mst t)) as [s1|]; [|reflexivity]. simpl.
  destruct (iruns Proof b s1); [|reflexivity]. rewrite app_assoc. reflexivity.
Qed.

(** [stack()[-k]] for a literal [k >= 1] *)
Lemma R_stack_neg (k:nat) t :
  R (p_stack_at (- Z.of_nat (S k))) t = match nth_error (stack (mst t)) k with Some x => Some (x, t) | None => None end.
Proof.
  unfold R, p_stack_at. simpl g_mst.
  assert (E1: (- Z.of_nat (S k) <? 0)%Z = true) by (apply Z.ltb_lt; lia). rewrite E1.
  rewrite Z.opp_involutive, Nat2Z.id. simpl Nat.sub. rewrite Nat.sub_0_r.
  destruct (nth_error (stack (mst t)) k); [destruct t|]; reflexivity.
Qed.

Lemma R_top_is x t : R (top_is x) t =
  match stack (mst t) with y :: _ => if Instr.term_eqb y x then Some (tt, t) else None | [] => None end.
Proof. unfold R, top_is. simpl. destruct (stack (mst t)) as [|y s]; [reflexivity|]. destruct (Instr.term_eqb y x); [destruct t|]; reflexivity. Qed.

Lemma R_top2_are l r t : R (top2_are l r) t =
  match stack (mst t) with
  | r' :: l' :: _ => if Instr.term_eqb l' l && Instr.term_eqb r' r then Some (tt, t) else None
  | _ => None end.
Proof.
  unfold R, top2_are. simpl. destruct (stack (mst t)) as [|r' [|l' s]]; try reflexivity.
  destruct (Instr.term_eqb l' l && Instr.term_eqb r' r); [destruct t|]; reflexivity.
Qed.

Lemma R_i_load x t : R (i_load x) t = match load_of x t with Some t' => Some (tt, t') | None => None end.
Proof.
  unfold i_load, load_of, R. simpl g_mst. destruct (find_idx x (memory (mst t))) as [i|]; [|reflexivity].
  change (match gdo [OLoad (N.of_nat i)] (g_of t) with Some (x0, g) => Some (x0, mkT (g_mst g) (heap t) (g_out g)) | None => None end)
    with (R (gdo [OLoad (N.of_nat i)]) t). apply R_gdo.
Qed.

Lemma R_foldM_nil {A S} (f:S -> A -> M S) acc t : R (foldM f [] acc) t = Some (acc, t).
Proof. apply R_ret. Qed.
Lemma R_foldM_cons {A S} (f:S -> A -> M S) x l acc t :
  R (foldM f (x :: l) acc) t = match R (f acc x) t with Some (acc', t') => R (foldM f l acc') t' | None => None end.
Proof. simpl foldM. apply R_bind. Qed.

Lemma term_eqb_refl' x : Instr.term_eqb x x = true.
Proof. apply term_eqb_refl. Qed.

(** C16: the step simulation lemmas, one per kind of Metamath proof step, and their composition over
    step lists ([trun_sim]). *)
From Coq Require Import NArith PeanoNat List Bool Lia.
From Pi2 Require Import ML.Syntax ML.Subst ML.Machine ML.Facts
  MM16.Verify MM16.Convert MM16.Instr MM16.Translate MM16.Fragment
  MM16.InstrFacts MM16.ConvertFacts MM16.SimFacts MM16.VerifyFacts MM16.Sim.
Import ListNotations.
Open Scope N_scope.

Section Step.
Variable d : db.
Variable sid : N -> N.
Hypothesis HPF : forallb (fun f => N.eqb (snd (fst f)) tc_pattern) (floats d) = true.
Hypothesis HND : nodupb (float_vars d) = true.
Hypothesis HENV : env_ok (env_of d) = true.
Variable cl : list pat.

Notation im := (img d sid).
Notation env := (env_of d).
Notation Inv := (inv d sid cl).
Notation Rel := (rel d sid).

Lemma im_simple t : simple (im t) = true.
Proof. unfold img. apply img0_simple. Qed.

Lemma stmt_one (s:stmt) : single_term s = true -> s = (fst s, [stmt_term s]).
Proof.
  destruct s as [tc [|t [|u r]]]; unfold single_term, stmt_term; simpl; try discriminate. reflexivity.
Qed.

(** ---- Z and back-references *)
Lemma z_sim ms mh t x :
  Inv (x :: ms) mh t ->
  exists t', (match top t with
              | Some y => match do [OSave] t with
                          | Some t1 => Some (mkT (mst t1) (heap t1 ++ [y]) (out t1))
                          | None => None end
              | None => None end) = Some t' /\ Inv (x :: ms) (mh ++ [x]) t' /\ steps_to t t'.
Proof.
  intros I. destruct I as [I1 I2 I3 I4 I5].
  destruct (stack (mst t)) as [|y stk] eqn:H0; [inversion I1|].
  assert (Hxy: Rel x y) by (inversion I1; assumption).
  unfold top. rewrite H0. simpl.
  assert (R: iruns Proof [OSave] (mst t) = Some (mkst (stack (mst t)) (memory (mst t) ++ [y]) (claims (mst t)))).
  { simpl. rewrite H0. reflexivity. }
  rewrite (do_ok _ _ _ R). eexists. split; [reflexivity|]. split.
  - constructor; simpl.
    + rewrite H0. exact I1.
    + apply Forall2_app; [exact I2 | constructor; [exact Hxy | constructor]].
    + intros z Hz. apply in_app_or in Hz as [Hz|Hz]; apply in_or_app.
      * left. apply I3. exact Hz.
      * right. exact Hz.
    + intros a Ha. apply in_or_app. left. apply I4. exact Ha.
    + exact I5.
  - exists [OSave]. simpl. split; [reflexivity|]. rewrite H0. reflexivity.
Qed.

Lemma backref_sim ms mh t k s :
  Inv ms mh t -> nth_error mh k = Some s ->
  exists t', (match nth_error (heap t) k with Some x => load_of x t | None => None end) = Some t'
             /\ Inv (s :: ms) mh t' /\ steps_to t t'.
Proof.
  intros I Hk. pose proof (inv_heap _ _ _ _ _ _ I) as H2.
  assert (exists x, nth_error (heap t) k = Some x /\ Rel s x) as [x [Hx Rx]].
  { clear -H2 Hk. revert k Hk. induction H2 as [|a b l l' Hab H IH]; intros [|k] Hk; simpl in *; try discriminate.
    - inversion Hk; subst. exists b. split; [reflexivity | exact Hab].
    - apply IH. exact Hk. }
  rewrite Hx.
  assert (HM: In x (memory (mst t))).
  { apply (inv_heap_mem _ _ _ _ _ _ I). eapply nth_error_In. exact Hx. }
  destruct (load_of_ok x t HM) as [t' [L S]]. exists t'. split; [exact L|]. split.
  - eapply inv_same_but; [exact I | exact S |]. constructor; [exact Rx | apply (inv_stack _ _ _ _ _ _ I)].
  - destruct S as (_ & _ & _ & _ & S). exact S.
Qed.

(** ---- floating hypothesis *)
Lemma float_sim ms mh t v :
  Inv ms mh t ->
  exists t', do [OMeta (mvid d v)] t = Some t' /\ Inv ((tc_pattern, [TVar v]) :: ms) mh t' /\ steps_to t t'.
Proof.
  intros I.
  assert (R: iruns Proof [OMeta (mvid d v)] (mst t) = Some (push (TPat (phi (mvid d v))) (mst t))) by reflexivity.
  destruct (do_same_but _ _ _ R [] ltac:(simpl; rewrite app_nil_r; reflexivity) eq_refl) as [t' [D S]].
  exists t'. split; [exact D|]. split.
  - eapply inv_same_but; [exact I | exact S |]. simpl. constructor; [|apply (inv_stack _ _ _ _ _ _ I)].
    exact (rel_mk_pat d sid (TVar v)).
  - destruct S as (_ & _ & _ & _ & S). exact S.
Qed.

(** ---- instantiation of a freshly pushed constructor pattern / loaded axiom *)
Lemma do_inst_sim (proved:bool) a p q ts t srest :
  length ts = length (metavars_in_order d a) ->
  stack (mst t) = (if proved then TProved p else TPat p) :: map TPat (rev (map im ts)) ++ srest ->
  (match metavars_in_order d a with
   | [] => p = q
   | _ => inst g0 p (rev (map (mvid d) (metavars_in_order d a))) (rev (map im ts)) = Some q
   end) ->
  exists t', do_inst d a t = Some t' /\ same_but t t' ((if proved then TProved q else TPat q) :: srest) [].
Proof.
  intros L HS HI. unfold do_inst, inst_ids.
  destruct (metavars_in_order d a) as [|v vs] eqn:E.
  - destruct ts; [|discriminate]. simpl in HS. subst q. exists t. split; [reflexivity|].
    rewrite <- HS. apply same_but_refl.
  - assert (R: exists t', do [OInst (rev (map (mvid d) (v :: vs)))] t = Some t' /\
                 same_but t t' ((if proved then TProved q else TPat q) :: srest) []).
    { eapply inst_run; [exact HS | | exact HI].
      rewrite !rev_length, !map_length. symmetry. exact L. }
    exact R.
Qed.

(** ---- constructor axioms *)
Lemma ctor_generic_sim a ctx ms ms' mh t tm :
  floats ctx = floats d ->
  a_ess a = [] -> a_stmt a = (tc_pattern, [tm]) -> term_ok env (float_vars d) tm = true ->
  Inv ms mh t -> apply_assertion ctx a ms = Some ms' ->
  exists t', (match do (emit_pat (concl_pat d sid a)) t with
              | Some t1 => do_inst d a t1 | None => None end) = Some t' /\ Inv ms' mh t' /\ steps_to t t'.
Proof.
  intros EF EE ES TO I HA.
  destruct (apply_inv d HPF ctx a ms ms' EF HA) as [ts [rest [L [E1 E2]]]].
  rewrite EE in E1. simpl in E1. rewrite ES in E2. unfold ssubst in E2. simpl in E2.
  pose proof (inv_stack _ _ _ _ _ _ I) as HSt. rewrite E1 in HSt.
  destruct (stack_split d sid [] ts rest _ HSt) as [srest [ESt HR]]. simpl in ESt.
  assert (EP: concl_pat d sid a = im tm). { unfold concl_pat. rewrite ES. reflexivity. }
  rewrite EP.
  assert (R: iruns Proof (emit_pat (im tm)) (mst t) = Some (push (TPat (im tm)) (mst t))).
  { apply emit_pat_run. apply im_simple. }
  destruct (do_same_but _ _ _ R [] ltac:(simpl; rewrite app_nil_r; reflexivity) eq_refl) as [t1 [D1 S1]].
  rewrite D1.
  destruct (do_inst_sim false a (im tm) (im (tsubst (combine (metavars_in_order d a) ts) tm)) ts t1 srest L) as [t2 [D2 S2]].
  - destruct S1 as [S1 _]. rewrite S1. simpl. rewrite ESt. reflexivity.
  - destruct (metavars_in_order d a) as [|v vs] eqn:EM.
    + simpl. rewrite tsubst_nil. reflexivity.
    + rewrite <- EM in *.
      assert (ND: NoDup (metavars_in_order d a)) by (apply mio_NoDup; assumption).
      assert (HIN: forall w, In w (metavars_in_order d a) -> In w (float_vars d)) by (intros w Hw; eapply mio_in; eassumption).
      assert (L': length (metavars_in_order d a) = length ts) by (symmetry; exact L).
      apply inst_img; assumption.
  - exists t2. split; [exact D2|]. pose proof (same_but_trans _ _ _ _ _ _ _ S1 S2) as S. split.
    + eapply inv_same_but; [exact I | exact S |]. rewrite E2. constructor; [apply rel_mk_pat | exact HR].
    + destruct S as (_ & _ & _ & _ & S). exact S.
Qed.

Lemma two_vars a x y (ts:list mmterm) :
  mand_float_vars d a = [x; y] -> length ts = length (metavars_in_order d a) ->
  metavars_in_order d a = [x; y] /\ x <> y /\ exists t1 t2, ts = [t1; t2].
Proof.
  intros HL L.
  assert (E: metavars_in_order d a = [x; y]).
  { rewrite <- (mand_vars_order d HPF d a eq_refl). exact HL. }
  split; [exact E|]. split.
  - assert (ND: NoDup (metavars_in_order d a)) by (apply mio_NoDup; assumption). rewrite E in ND.
    inversion ND; subst. intros ->. apply H1. left. reflexivity.
  - rewrite E in L. destruct ts as [|t1 [|t2 [|? ?]]]; try discriminate. exists t1, t2. reflexivity.
Qed.

Lemma ctor_bin_sim (c:N) (oi:oinstr) (mk:pat->pat->pat) a ctx ms ms' mh t :
  (forall st l r s, stack st = TPat r :: TPat l :: s -> iruns Proof [oi] st = Some (set_stack (TPat (mk l r) :: s) st)) ->
  (forall a b, im (TApp c [a; b]) = mk (im a) (im b)) ->
  floats ctx = floats d ->
  a_ess a = [] -> fst (a_stmt a) = tc_pattern -> binary_ctor_ok d c a = true ->
  Inv ms mh t -> apply_assertion ctx a ms = Some ms' ->
  exists t', do [oi] t = Some t' /\ Inv ms' mh t' /\ steps_to t t'.
Proof.
  intros HRun HImg EF EE ET HB I HA.
  destruct (apply_inv d HPF ctx a ms ms' EF HA) as [ts [rest [L [E1 E2]]]].
  unfold binary_ctor_ok in HB.
  destruct (mand_float_vars d a) as [|x [|y [|? ?]]] eqn:EMF; try discriminate.
  assert (ES: a_stmt a = (tc_pattern, [TApp c [TVar x; TVar y]])).
  { destruct (a_stmt a) as [tc l]. simpl in ET, HB. subst tc. f_equal.
    eapply forallb2_eq; [|exact HB]. apply Forall_forall. intros u _ w. apply mterm_eqb_eq. }
  destruct (two_vars a x y ts EMF L) as [EM [NE [t1 [t2 ->]]]].
  rewrite EE in E1. simpl in E1. rewrite EM, ES in E2. unfold ssubst in E2. simpl in E2.
  rewrite N.eqb_refl in E2.
  assert (NE': N.eqb x y = false) by (apply N.eqb_neq; exact NE). rewrite NE', N.eqb_refl in E2.
  pose proof (inv_stack _ _ _ _ _ _ I) as HSt. rewrite E1 in HSt.
  destruct (stack_split d sid [] [t1; t2] rest _ HSt) as [srest [ESt HR]]. simpl in ESt.
  pose proof (HRun (mst t) (im t1) (im t2) srest ESt) as R.
  destruct (do_same_but _ _ _ R [] ltac:(simpl; rewrite app_nil_r; reflexivity) eq_refl) as [t' [D S]].
  exists t'. split; [exact D|]. split.
  - eapply inv_same_but; [exact I | exact S |]. rewrite E2. simpl. constructor; [|exact HR].
    rewrite <- HImg. apply rel_mk_pat.
  - destruct S as (_ & _ & _ & _ & S). exact S.
Qed.

(** ---- logical axioms and rules with essential hypotheses *)
Lemma ess_entries (s:list (N*mmterm)) (es:list (label*stmt)) :
  forallb (fun e => N.eqb (fst (snd e)) tc_proved && single_term (snd e)
                    && term_ok env (float_vars d) (stmt_term (snd e))) es = true ->
  map (fun e => ssubst s (snd e)) es
  = map (fun t => (tc_proved, [t])) (map (tsubst s) (map (fun e => stmt_term (snd e)) es)).
Proof.
  induction es as [|[l st] es IH]; simpl; intros H; [reflexivity|].
  apply andb_true_iff in H as [H1 H2]. apply andb_true_iff in H1 as [H1 _]. apply andb_true_iff in H1 as [Ha Hb].
  apply N.eqb_eq in Ha. rewrite (IH H2). f_equal.
  rewrite (stmt_one st Hb). unfold ssubst. simpl. rewrite Ha. reflexivity.
Qed.

Lemma exported_in a : In (IAx a) d -> classify a = KAxiom -> In a (exported d).
Proof.
  intros H C. unfold exported. apply in_flat_map. exists (IAx a). split; [exact H|]. rewrite C. left. reflexivity.
Qed.

Lemma ax_sim a ctx ms ms' mh t :
  floats ctx = floats d -> In (IAx a) d -> classify a = KAxiom -> axiom_ok d a = true ->
  Inv ms mh t -> apply_assertion ctx a ms = Some ms' ->
  exists t', ax_step d sid a t = Some t' /\ Inv ms' mh t' /\ steps_to t t'.
Proof.
  intros EF HIn HC HOK I HA.
  unfold axiom_ok in HOK. rewrite HC in HOK.
  apply andb_true_iff in HOK as [HOK HE]. apply andb_true_iff in HOK as [H1 HT].
  assert (ETC: fst (a_stmt a) = tc_proved).
  { unfold classify in HC. destruct (notation_decl (IAx a)); [discriminate|].
    destruct (N.eqb (fst (a_stmt a)) tc_proved) eqn:E; [apply N.eqb_eq in E; exact E|].
    destruct (N.eqb (fst (a_stmt a)) tc_pattern); discriminate. }
  pose proof (stmt_one _ H1) as ES. rewrite ETC in ES. set (c := stmt_term (a_stmt a)) in *.
  set (eterms := map (fun e => stmt_term (snd e)) (a_ess a)).
  destruct (apply_inv d HPF ctx a ms ms' EF HA) as [ts [rest [L [E1 E2]]]].
  set (s := combine (metavars_in_order d a) ts) in *.
  rewrite (ess_entries s _ HE) in E1. fold eterms in E1.
  rewrite ES in E2. unfold ssubst in E2. simpl in E2.
  pose proof (inv_stack _ _ _ _ _ _ I) as HSt. rewrite E1 in HSt.
  destruct (stack_split d sid _ ts rest _ HSt) as [srest [ESt HR]].
  set (PE := map im (map (tsubst s) eterms)) in *.
  (* save/pop the antecedents *)
  unfold ax_step.
  assert (LK: length (a_ess a) = length (map TProved (rev PE))).
  { unfold PE, eterms. rewrite !map_length, rev_length, !map_length. reflexivity. }
  rewrite LK.
  destruct (save_pops_ok (map TProved (rev PE)) t [] _ ESt) as [t1 [D1 S1]]. rewrite D1. simpl app.
  (* load the axiom *)
  assert (EP: axiom_pat d sid a = chain_imp (map im eterms) (im c)).
  { unfold axiom_pat, ants_pat, concl_pat. rewrite ES. unfold eterms. rewrite map_map. reflexivity. }
  assert (HM1: In (TProved (axiom_pat d sid a)) (memory (mst t1))).
  { destruct S1 as (_ & M & _). rewrite M. apply in_or_app. left.
    apply (inv_ax _ _ _ _ _ _ I). apply exported_in; assumption. }
  destruct (load_of_ok _ t1 HM1) as [t2 [D2 S2]]. rewrite D2.
  (* instantiate *)
  destruct (do_inst_sim true a (axiom_pat d sid a) (chain_imp PE (im (tsubst s c))) ts t2 srest L) as [t3 [D3 S3]].
  - destruct S2 as [S2 _]. rewrite S2. destruct S1 as [S1 _]. rewrite S1. reflexivity.
  - rewrite EP. destruct (metavars_in_order d a) as [|v vs] eqn:EM.
    + subst s. simpl combine in *. unfold PE. rewrite tsubst_nil.
      f_equal. rewrite map_map. apply map_ext. intros u. rewrite tsubst_nil. reflexivity.
    + subst PE s. rewrite <- EM in *.
      assert (ND: NoDup (metavars_in_order d a)) by (apply mio_NoDup; assumption).
      assert (HIN: forall w, In w (metavars_in_order d a) -> In w (float_vars d)) by (intros w Hw; eapply mio_in; eassumption).
      assert (L': length (metavars_in_order d a) = length ts) by (symmetry; exact L).
      apply inst_chain_imp.
      * unfold eterms. clear -HE HPF HND HENV L' ND HIN.
        induction (a_ess a) as [|e es IH]; simpl; constructor.
        -- simpl in HE. apply andb_true_iff in HE as [H _]. apply andb_true_iff in H as [_ H].
           apply inst_img; assumption.
        -- apply IH. simpl in HE. apply andb_true_iff in HE as [_ H]. exact H.
      * apply inst_img; assumption.
  - rewrite D3.
    (* modus ponens with every antecedent *)
    rewrite <- map_rev, rev_involutive.
    destruct (mp_all_ok PE t3 (im (tsubst s c)) srest) as [t4 [D4 S4]].
    + destruct S3 as [S3 _]. exact S3.
    + intros p Hp. destruct S3 as (_ & M3 & _). destruct S2 as (_ & M2 & _). destruct S1 as (_ & M1 & _).
      rewrite M3, M2, M1, !app_nil_r. apply in_or_app. right. apply in_map. apply in_rev in Hp. exact Hp.
    + exists t4. split; [exact D4|].
      pose proof (same_but_trans _ _ _ _ _ _ _ (same_but_trans _ _ _ _ _ _ _ (same_but_trans _ _ _ _ _ _ _ S1 S2) S3) S4) as S.
      split.
      * eapply inv_same_but; [exact I | exact S |]. rewrite E2. constructor; [apply rel_mk_proved | exact HR].
      * destruct S as (_ & _ & _ & _ & S). exact S.
Qed.

End Step.

(** C16: the direct semantics [Instr.irun] of the emitted instructions agrees with the checker model
    [ML.Machine.exec] on their byte encoding. *)
From Coq Require Import NArith PeanoNat List Bool Lia.
From Pi2 Require Import ML.Syntax ML.Subst ML.Machine ML.Facts MM16.Instr.
Import ListNotations.
Open Scope N_scope.

Lemma take_ids_pop_pats ids : forall s plugs s2 rest,
  pop_pats (length ids) s = Some (plugs, s2) ->
  take_ids true (length ids) (ids ++ rest) s = Some (ids, plugs, rest, s2).
Proof.
  induction ids as [|i ids IH]; intros s plugs s2 rest H; simpl in *.
  - inversion H; subst. reflexivity.
  - destruct s as [|[p|p] s']; try discriminate. simpl.
    destruct (pop_pats (length ids) s') as [[ps r]|] eqn:E; [|discriminate].
    inversion H; subst. rewrite (IH _ _ _ rest E). reflexivity.
Qed.

Lemma exec_enc1 ph i st st' rest :
  irun ph i st = Some st' -> exec g0 ph (enc1 i ++ rest) st = exec g0 ph rest st'.
Proof.
  intros H. destruct i; simpl enc1; simpl app; rewrite exec_cons; unfold step; simpl decode_op; simpl in H |- *.
  - inversion H; reflexivity.
  - destruct (stack st) as [|[r|r] [|[l|l] s]]; try discriminate. inversion H; subst. reflexivity.
  - destruct (stack st) as [|[r|r] [|[l|l] s]]; try discriminate. inversion H; subst. reflexivity.
  - inversion H; reflexivity.
  - inversion H; reflexivity.
  - inversion H; reflexivity.
  - destruct (stack st) as [|[p2|p2] [|[q|q] s]]; try discriminate. simpl.
    destruct q; try discriminate. simpl.
    destruct (pat_eqb q1 p2); [|discriminate]. inversion H; subst. reflexivity.
  - destruct (stack st) as [|t s1]; [discriminate|].
    destruct (pop_pats (length ids) s1) as [[plugs s2]|] eqn:E; [|discriminate].
    rewrite Nat2N.id. simpl g_instantiate_arity.
    rewrite (take_ids_pop_pats ids s1 plugs s2 rest E).
    destruct t as [p|p]; destruct (inst g0 p ids plugs); try discriminate; inversion H; subst; reflexivity.
  - destruct (stack st) as [|t s]; [discriminate|]. inversion H; subst. reflexivity.
  - destruct (stack st) as [|t s]; [discriminate|]. inversion H; subst. reflexivity.
  - destruct (nth_error (memory st) (N.to_nat i)); [|discriminate]. inversion H; subst. reflexivity.
  - destruct ph.
    + destruct (stack st) as [|[p|p] s]; try discriminate. inversion H; subst. reflexivity.
    + destruct (stack st) as [|[p|p] s]; try discriminate. inversion H; subst. reflexivity.
    + destruct (claims st) as [|c cs]; [discriminate|].
      destruct (stack st) as [|[p|p] s]; try discriminate. simpl.
      destruct (pat_eqb c p); [|discriminate]. inversion H; subst. reflexivity.
Qed.

Lemma exec_encode_app ph is : forall st st' rest,
  iruns ph is st = Some st' -> exec g0 ph (encode is ++ rest) st = exec g0 ph rest st'.
Proof.
  induction is as [|i is IH]; intros st st' rest H; simpl in *.
  - inversion H; reflexivity.
  - destruct (irun ph i st) as [s1|] eqn:E; [|discriminate].
    rewrite <- app_assoc. rewrite (exec_enc1 _ _ _ _ _ E). apply IH. exact H.
Qed.

Lemma exec_encode ph is st st' : iruns ph is st = Some st' -> exec g0 ph (encode is) st = Some st'.
Proof.
  intros H. rewrite <- (app_nil_r (encode is)). rewrite (exec_encode_app _ _ _ _ [] H). apply exec_nil.
Qed.

Lemma iruns_app ph a : forall b st,
  iruns ph (a ++ b) st = match iruns ph a st with Some s => iruns ph b s | None => None end.
Proof.
  induction a as [|i a IH]; intros b st; simpl; [reflexivity|].
  destruct (irun ph i st); [apply IH | reflexivity].
Qed.

(** patterns the converter produces: symbols, implications, applications, clean metavariables *)
Fixpoint simple (p:pat) : bool :=
  match p with
  | Sym _ => true
  | Imp l r | App l r => simple l && simple r
  | MVar _ [] [] [] [] [] => true
  | _ => false
  end.

Lemma emit_pat_run ph p : simple p = true -> forall st, iruns ph (emit_pat p) st = Some (push (TPat p) st).
Proof.
  induction p; intros S st; simpl in S; try discriminate; simpl.
  - reflexivity.
  - apply andb_true_iff in S as [S1 S2].
    rewrite iruns_app, (IHp1 S1). rewrite iruns_app, (IHp2 S2). simpl. reflexivity.
  - apply andb_true_iff in S as [S1 S2].
    rewrite iruns_app, (IHp1 S1). rewrite iruns_app, (IHp2 S2). simpl. reflexivity.
  - destruct ef; [|discriminate]. destruct sf; [|discriminate]. destruct pos; [|discriminate].
    destruct neg; [|discriminate]. destruct holes; [|discriminate]. reflexivity.
Qed.

Lemma term_eqb_refl x : term_eqb x x = true.
Proof. destruct x; simpl; apply pat_eqb_refl. Qed.

Lemma term_eqb_eq x y : term_eqb x y = true -> x = y.
Proof.
  destruct x, y; simpl; try discriminate; intros H; apply pat_eqb_eq in H; subst; reflexivity.
Qed.

Lemma find_idx_In x l : In x l -> exists i, find_idx x l = Some i /\ nth_error l i = Some x.
Proof.
  induction l as [|y l IH]; intros H; [destruct H|]. simpl.
  destruct (term_eqb y x) eqn:E.
  - apply term_eqb_eq in E. subst. exists O. split; reflexivity.
  - destruct H as [H|H]; [subst; rewrite term_eqb_refl in E; discriminate|].
    destruct (IH H) as [i [F Nn]]. exists (S i). rewrite F. split; [reflexivity | exact Nn].
Qed.

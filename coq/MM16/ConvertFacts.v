(** C16: facts about terms, substitution and the converter image:
    [img] commutes with Metamath substitution, i.e. the checker's [Instantiate] computes the image of
    the substituted statement ([inst_img]). *)
From Coq Require Import NArith PeanoNat List Bool Lia.
From Pi2 Require Import ML.Syntax ML.Subst ML.Machine ML.Facts MM16.Verify MM16.Convert MM16.Instr MM16.InstrFacts.
Import ListNotations.
Open Scope N_scope.

(** ---- induction on terms *)
Lemma mmterm_ind' (P:mmterm -> Prop) :
  (forall v, P (TVar v)) -> (forall c args, Forall P args -> P (TApp c args)) -> forall t, P t.
Proof.
  intros HV HA. fix IH 1. intros [v|c args]; [apply HV|]. apply HA.
  induction args as [|a args IHa]; constructor; [apply IH | exact IHa].
Qed.

(** ---- decidable equalities reflect *)
Lemma forallb2_eq {A} (f:A->A->bool) xs : forall ys,
  Forall (fun x => forall y, f x y = true -> x = y) xs -> forallb2 f xs ys = true -> xs = ys.
Proof.
  induction xs as [|x xs IH]; intros [|y ys] HF H; simpl in H; try discriminate; [reflexivity|].
  apply andb_true_iff in H as [H1 H2]. inversion HF; subst.
  f_equal; [auto | apply IH; assumption].
Qed.

Lemma mterm_eqb_eq a : forall b, Verify.term_eqb a b = true -> a = b.
Proof.
  induction a as [v|c args IH] using mmterm_ind'; intros [w|d bs] H; simpl in H; try discriminate.
  - apply N.eqb_eq in H. subst. reflexivity.
  - apply andb_true_iff in H as [H1 H2]. apply N.eqb_eq in H1. subst.
    f_equal. eapply forallb2_eq; eassumption.
Qed.

Lemma stmt_eqb_eq a b : stmt_eqb a b = true -> a = b.
Proof.
  destruct a as [t1 l1], b as [t2 l2]. unfold stmt_eqb. simpl. intros H.
  apply andb_true_iff in H as [H1 H2]. apply N.eqb_eq in H1. subst. f_equal.
  eapply forallb2_eq; [|exact H2]. apply Forall_forall. intros x _ y. apply mterm_eqb_eq.
Qed.

Lemma stmts_eqb_eq xs ys : forallb2 stmt_eqb xs ys = true -> xs = ys.
Proof.
  intros H. eapply forallb2_eq; [|exact H]. apply Forall_forall. intros x _ y. apply stmt_eqb_eq.
Qed.

Lemma memN_In x l : memN x l = true <-> In x l.
Proof.
  unfold memN. rewrite existsb_exists. split.
  - intros [y [Hy E]]. apply N.eqb_eq in E. subst. exact Hy.
  - intros H. exists x. split; [exact H | apply N.eqb_refl].
Qed.

(** ---- association lists and substitution *)
Definition map_snd {B C} (f:B->C) (l:list (N*B)) : list (N*C) := map (fun e => (fst e, f (snd e))) l.

Lemma assoc_map_snd {B C} (f:B->C) v l : assoc v (map_snd f l) = option_map f (assoc v l).
Proof.
  induction l as [|[k x] l IH]; simpl; [reflexivity|]. destruct (N.eqb k v); [reflexivity | exact IH].
Qed.

Lemma combine_map_snd {B C} (f:B->C) ks : forall xs, map_snd f (combine ks xs) = combine ks (map f xs).
Proof.
  induction ks as [|k ks IH]; intros [|x xs]; simpl; try reflexivity. rewrite IH. reflexivity.
Qed.

Lemma assoc_combine_some {B} v ks : forall (xs:list B), length ks = length xs -> In v ks -> assoc v (combine ks xs) <> None.
Proof.
  induction ks as [|k ks IH]; intros [|x xs] L H; simpl in *; try discriminate; [destruct H|].
  destruct (N.eqb k v) eqn:E; [discriminate|].
  destruct H as [H|H]; [subst; rewrite N.eqb_refl in E; discriminate|].
  apply IH; [lia | exact H].
Qed.

Lemma tsubst_nil t : tsubst [] t = t.
Proof.
  induction t as [v|c args IH] using mmterm_ind'; simpl; [reflexivity|]. f_equal.
  induction IH as [|a args Ha _ IHl]; simpl; [reflexivity|]. rewrite Ha, IHl. reflexivity.
Qed.

Lemma map_ext_Forall {A B} (f g:A->B) l : Forall (fun x => f x = g x) l -> map f l = map g l.
Proof. induction 1; simpl; [reflexivity|]. f_equal; assumption. Qed.

Lemma tsubst_comp s th t :
  (forall v, In v (tvars t) -> assoc v th <> None) ->
  tsubst s (tsubst th t) = tsubst (map_snd (tsubst s) th) t.
Proof.
  induction t as [v|c args IH] using mmterm_ind'; intros Hd; simpl.
  - rewrite assoc_map_snd. destruct (assoc v th) eqn:E; [reflexivity|].
    exfalso. apply (Hd v); [left; reflexivity | exact E].
  - f_equal. rewrite map_map. apply map_ext_Forall.
    rewrite Forall_forall in IH |- *. intros a Ha. apply IH; [exact Ha|].
    intros v Hv. apply Hd. simpl. apply in_flat_map. exists a. split; assumption.
Qed.

(** ---- [expand] commutes with substitution *)
Definition arity_ok (env:nenv) : mmterm -> bool :=
  fix go (t:mmterm) : bool :=
    match t with
    | TVar _ => true
    | TApp c args =>
        forallb go args &&
        match assoc c env with
        | Some (ps, _) => Nat.eqb (length ps) (length args)
        | None => true
        end
    end.

Definition bodies_closed (env:nenv) : Prop :=
  forall c ps body, assoc c env = Some (ps, body) -> forall v, In v (tvars body) -> In v ps.

Lemma expand_tsubst env s t :
  bodies_closed env -> arity_ok env t = true ->
  expand env (tsubst s t) = tsubst (map_snd (expand env) s) (expand env t).
Proof.
  intros HC. induction t as [v|c args IH] using mmterm_ind'; intros HA.
  - simpl. rewrite assoc_map_snd. destruct (assoc v s); reflexivity.
  - simpl in HA. apply andb_true_iff in HA as [HA1 HA2].
    assert (E: map (expand env) (map (tsubst s) args)
               = map (tsubst (map_snd (expand env) s)) (map (expand env) args)).
    { rewrite !map_map. apply map_ext_Forall. rewrite Forall_forall in IH |- *.
      intros a Ha. apply IH; [exact Ha|]. rewrite forallb_forall in HA1. apply HA1. exact Ha. }
    simpl. rewrite E. destruct (assoc c env) as [[ps body]|] eqn:EC.
    + rewrite tsubst_comp.
      * rewrite combine_map_snd. reflexivity.
      * intros v Hv. apply assoc_combine_some.
        -- rewrite map_length. apply Nat.eqb_eq. exact HA2.
        -- eapply HC; eassumption.
    + reflexivity.
Qed.

(** ---- [img0] and the checker's [inst] *)
Section Img0.
Variable sid mv : N -> N.
Variable ids : list N.
Variable plugs : list pat.

Lemma inst_phi n : inst g0 (phi n) ids plugs =
  match lookup n ids plugs with Some (Some p) => Some p | Some None => None | None => Some (phi n) end.
Proof. unfold phi. simpl. destruct (lookup n ids plugs) as [[p|]|]; reflexivity. Qed.

Lemma inst_chain ps : forall qs h h',
  Forall2 (fun p q => inst g0 p ids plugs = Some q) ps qs ->
  inst g0 h ids plugs = Some h' ->
  inst g0 (fold_left App ps h) ids plugs = Some (fold_left App qs h').
Proof.
  induction ps as [|p ps IH]; intros qs h h' HF Hh; inversion HF; subst; simpl; [exact Hh|].
  apply IH; [assumption|]. simpl. rewrite Hh, H1. reflexivity.
Qed.

Lemma img0_inst (s:list (N*mmterm)) t :
  (forall v, In v (tvars t) ->
     lookup (mv v) ids plugs = match assoc v s with Some u => Some (Some (img0 sid mv u)) | None => None end) ->
  inst g0 (img0 sid mv t) ids plugs = Some (img0 sid mv (tsubst s t)).
Proof.
  induction t as [v|c args IH] using mmterm_ind'; intros HL.
  - simpl img0 at 1. rewrite inst_phi. rewrite (HL v (or_introl eq_refl)). simpl.
    destruct (assoc v s); reflexivity.
  - assert (F2: Forall2 (fun p q => inst g0 p ids plugs = Some q)
                  (map (img0 sid mv) args) (map (img0 sid mv) (map (tsubst s) args))).
    { clear -IH HL. induction args as [|a args IHa]; simpl; constructor.
      - inversion IH; subst. apply H1. intros v Hv. apply HL. simpl. apply in_or_app. left. exact Hv.
      - inversion IH; subst. apply IHa; [assumption|]. intros v Hv. apply HL. simpl. apply in_or_app. right. exact Hv. }
    assert (CH: inst g0 (fold_left App (map (img0 sid mv) args) (Sym (sid c))) ids plugs
                = Some (fold_left App (map (img0 sid mv) (map (tsubst s) args)) (Sym (sid c)))).
    { apply inst_chain; [exact F2 | reflexivity]. }
    simpl img0. simpl tsubst. simpl img0.
    destruct (N.eqb c c_imp).
    + destruct args as [|a [|b rest]]; try exact CH.
      simpl in F2. inversion F2 as [|? ? ? ? Ha F2']; subst. inversion F2' as [|? ? ? ? Hb _]; subst.
      simpl. rewrite Ha, Hb. reflexivity.
    + destruct (N.eqb c c_app).
      * destruct args as [|a [|b rest]]; try exact CH.
        simpl in F2. inversion F2 as [|? ? ? ? Ha F2']; subst. inversion F2' as [|? ? ? ? Hb _]; subst.
        simpl. rewrite Ha, Hb. reflexivity.
      * exact CH.
Qed.
End Img0.

Lemma img0_simple sid mv t : simple (img0 sid mv t) = true.
Proof.
  induction t as [v|c args IH] using mmterm_ind'; [reflexivity|].
  assert (CH: forall h, simple h = true -> simple (fold_left App (map (img0 sid mv) args) h) = true).
  { induction IH as [|a args Ha _ IHl]; intros h Hh; simpl; [exact Hh|]. apply IHl. simpl. rewrite Hh, Ha. reflexivity. }
  simpl. destruct (N.eqb c c_imp).
  - destruct args as [|a [|b rest]]; try (apply CH; reflexivity).
    inversion IH as [|? ? Ha IH']; subst. inversion IH' as [|? ? Hb _]; subst. simpl. rewrite Ha, Hb. reflexivity.
  - destruct (N.eqb c c_app).
    + destruct args as [|a [|b rest]]; try (apply CH; reflexivity).
      inversion IH as [|? ? Ha IH']; subst. inversion IH' as [|? ? Hb _]; subst. simpl. rewrite Ha, Hb. reflexivity.
    + apply CH. reflexivity.
Qed.

Lemma chain_imp_simple ants c : forallb simple ants = true -> simple c = true -> simple (chain_imp ants c) = true.
Proof.
  induction ants as [|a ants IH]; simpl; intros HA HC; [exact HC|].
  apply andb_true_iff in HA as [H1 H2]. rewrite H1. simpl. apply IH; assumption.
Qed.

Lemma inst_chain_imp ids plugs ants : forall ants' c c',
  Forall2 (fun p q => inst g0 p ids plugs = Some q) ants ants' ->
  inst g0 c ids plugs = Some c' ->
  inst g0 (chain_imp ants c) ids plugs = Some (chain_imp ants' c').
Proof.
  induction ants as [|a ants IH]; intros ants' c c' HF Hc; inversion HF; subst; simpl; [exact Hc|].
  rewrite H1. rewrite (IH _ _ _ H3 Hc). reflexivity.
Qed.

(** ---- [lookup] against reversed id/plug lists *)
Lemma lookup_combine id : forall ids (plugs:list pat), length ids = length plugs ->
  lookup id ids plugs = match assoc id (combine ids plugs) with Some p => Some (Some p) | None => None end.
Proof.
  induction ids as [|i ids IH]; intros [|p plugs] L; simpl in *; try discriminate; [reflexivity|].
  destruct (N.eqb i id); [reflexivity|]. apply IH. lia.
Qed.

Lemma assoc_app {B} v (l1 l2:list (N*B)) :
  assoc v (l1 ++ l2) = match assoc v l1 with Some x => Some x | None => assoc v l2 end.
Proof.
  induction l1 as [|[k x] l1 IH]; simpl; [reflexivity|]. destruct (N.eqb k v); [reflexivity | exact IH].
Qed.

Lemma assoc_none_notin {B} v (l:list (N*B)) : ~ In v (map fst l) -> assoc v l = None.
Proof.
  induction l as [|[k x] l IH]; simpl; intros H; [reflexivity|].
  destruct (N.eqb k v) eqn:E; [apply N.eqb_eq in E; subst; exfalso; apply H; left; reflexivity|].
  apply IH. intros H'. apply H. right. exact H'.
Qed.

Lemma assoc_rev {B} v (l:list (N*B)) : NoDup (map fst l) -> assoc v (rev l) = assoc v l.
Proof.
  induction l as [|[k x] l IH]; simpl; intros ND; [reflexivity|].
  inversion ND; subst. rewrite assoc_app, (IH H2). simpl.
  destruct (N.eqb k v) eqn:E.
  - apply N.eqb_eq in E. subst. rewrite (assoc_none_notin _ _ H1). reflexivity.
  - destruct (assoc v l); reflexivity.
Qed.

Lemma combine_rev {A B} (a:list A) : forall (b:list B), length a = length b ->
  combine (rev a) (rev b) = rev (combine a b).
Proof.
  induction a as [|x a IH]; intros [|y b] L; simpl in *; try discriminate; [reflexivity|].
  rewrite <- IH by lia.
  assert (L': length (rev a) = length (rev b)) by (rewrite !rev_length; lia).
  clear -L'. revert L'. generalize (rev a) (rev b). intros u. induction u as [|p u IHu]; intros [|q w] L; simpl in *; try discriminate; [reflexivity|].
  rewrite IHu by lia. reflexivity.
Qed.

Lemma map_fst_combine {A B} (a:list A) : forall (b:list B), length a = length b -> map fst (combine a b) = a.
Proof.
  induction a as [|x a IH]; intros [|y b] L; simpl in *; try discriminate; [reflexivity|]. rewrite IH by lia. reflexivity.
Qed.

Lemma lookup_rev id ids (plugs:list pat) :
  NoDup ids -> length ids = length plugs ->
  lookup id (rev ids) (rev plugs) = match assoc id (combine ids plugs) with Some p => Some (Some p) | None => None end.
Proof.
  intros ND L. rewrite lookup_combine by (rewrite !rev_length; exact L).
  rewrite combine_rev by exact L. rewrite assoc_rev; [reflexivity|].
  rewrite map_fst_combine by exact L. exact ND.
Qed.

(** ---- metavariable numbering is injective on the [#Pattern] floats *)
Lemma index_of_some x l : In x l -> exists i, index_of x l = Some i.
Proof.
  induction l as [|y l IH]; intros H; [destruct H|]. simpl.
  destruct (N.eqb y x) eqn:E; [eexists; reflexivity|].
  destruct H as [H|H]; [subst; rewrite N.eqb_refl in E; discriminate|].
  destruct (IH H) as [i Hi]. rewrite Hi. eexists; reflexivity.
Qed.

Lemma index_of_inj x y l i : index_of x l = Some i -> index_of y l = Some i -> x = y.
Proof.
  revert i. induction l as [|z l IH]; intros i Hx Hy; simpl in *; [discriminate|].
  destruct (N.eqb z x) eqn:Ex, (N.eqb z y) eqn:Ey.
  - apply N.eqb_eq in Ex, Ey. congruence.
  - destruct (index_of y l); simpl in Hy; inversion Hx; subst; discriminate.
  - destruct (index_of x l); simpl in Hx; inversion Hy; subst; discriminate.
  - destruct (index_of x l) as [ix|] eqn:Ix; [|discriminate].
    destruct (index_of y l) as [iy|] eqn:Iy; [|discriminate].
    simpl in *. inversion Hx; inversion Hy; subst. inversion H1; subst. eapply IH; reflexivity.
Qed.

Lemma idx_or0_inj x y l : In x l -> In y l -> idx_or0 x l = idx_or0 y l -> x = y.
Proof.
  intros Hx Hy. unfold idx_or0.
  destruct (index_of_some _ _ Hx) as [i Hi], (index_of_some _ _ Hy) as [j Hj]. rewrite Hi, Hj.
  intros E. apply Nat2N.inj in E. subst. eapply index_of_inj; eassumption.
Qed.

Lemma assoc_map_key {B} (f:N->N) (dom:list N) v (l:list (N*B)) :
  (forall a b, In a dom -> In b dom -> f a = f b -> a = b) ->
  In v dom -> (forall k, In k (map fst l) -> In k dom) ->
  assoc (f v) (map (fun e => (f (fst e), snd e)) l) = assoc v l.
Proof.
  intros Inj Hv. induction l as [|[k x] l IH]; intros Hd; simpl; [reflexivity|].
  assert (Hk: In k dom) by (apply Hd; left; reflexivity).
  destruct (N.eqb k v) eqn:E.
  - apply N.eqb_eq in E. subst. rewrite N.eqb_refl. reflexivity.
  - destruct (N.eqb (f k) (f v)) eqn:E2.
    + apply N.eqb_eq in E2. apply Inj in E2; [|assumption|assumption]. subst. rewrite N.eqb_refl in E. discriminate.
    + apply IH. intros k' Hk'. apply Hd. right. exact Hk'.
Qed.

(** C16: step simulation for the three fixed proof rules (prop-1, prop-2, modus ponens with its
    save/pop/pop/pop/load cleanup). *)
From Coq Require Import NArith PeanoNat List Bool Lia.
From Pi2 Require Import ML.Syntax ML.Subst ML.Machine ML.Facts
  MM16.Verify MM16.Convert MM16.Instr MM16.Translate MM16.Fragment
  MM16.InstrFacts MM16.ConvertFacts MM16.SimFacts MM16.VerifyFacts MM16.Sim MM16.Step.
Import ListNotations.
Open Scope N_scope.

Section Rules.
Variable d : db.
Variable sid : N -> N.
Hypothesis HPF : forallb (fun f => N.eqb (snd (fst f)) tc_pattern) (floats d) = true.
Hypothesis HND : nodupb (float_vars d) = true.
Hypothesis HENV : env_ok (env_of d) = true.
Variable cl : list pat.

Notation im := (img d sid).
Notation env := (env_of d).
Notation Inv := (inv d sid cl).
Notation Rel := (rel d sid).

Lemma three_vars a x y z (ts:list mmterm) :
  mand_float_vars d a = [x; y; z] -> length ts = length (metavars_in_order d a) ->
  metavars_in_order d a = [x; y; z] /\ x <> y /\ x <> z /\ y <> z /\ exists t1 t2 t3, ts = [t1; t2; t3].
Proof.
  intros HL L.
  assert (E: metavars_in_order d a = [x; y; z]).
  { rewrite <- (mand_vars_order d HPF d a eq_refl). exact HL. }
  split; [exact E|].
  assert (ND: NoDup (metavars_in_order d a)) by (apply mio_NoDup; assumption). rewrite E in ND.
  inversion ND as [|? ? N1 ND1]; subst. inversion ND1 as [|? ? N2 ND2]; subst.
  repeat split.
  - intros ->. apply N1. left. reflexivity.
  - intros ->. apply N1. right. left. reflexivity.
  - intros ->. apply N2. left. reflexivity.
  - rewrite E in L. destruct ts as [|t1 [|t2 [|t3 [|? ?]]]]; try discriminate. exists t1, t2, t3. reflexivity.
Qed.

Lemma prop1_sim a ctx ms ms' mh t :
  floats ctx = floats d -> prop1_ok d a = true -> fst (a_stmt a) = tc_proved ->
  Inv ms mh t -> apply_assertion ctx a ms = Some ms' ->
  exists t', do [OProp1; OInst [1; 0]] t = Some t' /\ Inv ms' mh t' /\ steps_to t t'.
Proof.
  intros EF HB ET I HA.
  destruct (apply_inv d HPF ctx a ms ms' EF HA) as [ts [rest [L [E1 E2]]]].
  unfold prop1_ok in HB.
  destruct (a_ess a) as [|? ?] eqn:EE; [|discriminate].
  destruct (mand_float_vars d a) as [|x [|y [|? ?]]] eqn:EMF; try discriminate.
  apply stmt_eqb_eq in HB. rename HB into ES.
  destruct (two_vars d HPF HND a x y ts EMF L) as [EM [NE [t1 [t2 ->]]]].
  simpl in E1. rewrite EM, ES in E2. unfold ssubst, timp in E2. simpl in E2.
  assert (NE': N.eqb x y = false) by (apply N.eqb_neq; exact NE).
  rewrite !N.eqb_refl, NE' in E2.
  pose proof (inv_stack _ _ _ _ _ _ I) as HSt. rewrite E1 in HSt.
  destruct (stack_split d sid [] [t1; t2] rest _ HSt) as [srest [ESt HR]]. simpl in ESt.
  assert (R: iruns Proof [OProp1; OInst [1; 0]] (mst t)
             = Some (set_stack (TProved (Imp (im t1) (Imp (im t2) (im t1))) :: srest) (mst t))).
  { simpl. rewrite ESt. reflexivity. }
  destruct (do_same_but _ _ _ R [] ltac:(simpl; rewrite app_nil_r; reflexivity) eq_refl) as [t' [D S]].
  exists t'. split; [exact D|]. split.
  - eapply inv_same_but; [exact I | exact S |]. rewrite E2. simpl. constructor; [|exact HR].
    rewrite <- !(img_imp d sid HENV). apply rel_mk_proved.
  - destruct S as (_ & _ & _ & _ & S). exact S.
Qed.

Lemma prop2_sim a ctx ms ms' mh t :
  floats ctx = floats d -> prop2_ok d a = true -> fst (a_stmt a) = tc_proved ->
  Inv ms mh t -> apply_assertion ctx a ms = Some ms' ->
  exists t', do [OProp2; OInst [2; 1; 0]] t = Some t' /\ Inv ms' mh t' /\ steps_to t t'.
Proof.
  intros EF HB ET I HA.
  destruct (apply_inv d HPF ctx a ms ms' EF HA) as [ts [rest [L [E1 E2]]]].
  unfold prop2_ok in HB.
  destruct (a_ess a) as [|? ?] eqn:EE; [|discriminate].
  destruct (mand_float_vars d a) as [|x [|y [|z [|? ?]]]] eqn:EMF; try discriminate.
  apply stmt_eqb_eq in HB. rename HB into ES.
  destruct (three_vars a x y z ts EMF L) as [EM [NXY [NXZ [NYZ [t1 [t2 [t3 ->]]]]]]].
  simpl in E1. rewrite EM, ES in E2. unfold ssubst, timp in E2. simpl in E2.
  assert (N1: N.eqb x y = false) by (apply N.eqb_neq; exact NXY).
  assert (N2: N.eqb x z = false) by (apply N.eqb_neq; exact NXZ).
  assert (N3: N.eqb y z = false) by (apply N.eqb_neq; exact NYZ).
  rewrite !N.eqb_refl, ?N1, ?N2, ?N3 in E2. rewrite ?N.eqb_refl in E2.
  pose proof (inv_stack _ _ _ _ _ _ I) as HSt. rewrite E1 in HSt.
  destruct (stack_split d sid [] [t1; t2; t3] rest _ HSt) as [srest [ESt HR]]. simpl in ESt.
  assert (R: iruns Proof [OProp2; OInst [2; 1; 0]] (mst t)
             = Some (set_stack (TProved (Imp (Imp (im t1) (Imp (im t2) (im t3)))
                                             (Imp (Imp (im t1) (im t2)) (Imp (im t1) (im t3)))) :: srest) (mst t))).
  { simpl. rewrite ESt. reflexivity. }
  destruct (do_same_but _ _ _ R [] ltac:(simpl; rewrite app_nil_r; reflexivity) eq_refl) as [t' [D S]].
  exists t'. split; [exact D|]. split.
  - eapply inv_same_but; [exact I | exact S |]. rewrite E2. simpl. constructor; [|exact HR].
    rewrite <- !(img_imp d sid HENV). apply rel_mk_proved.
  - destruct S as (_ & _ & _ & _ & S). exact S.
Qed.

Lemma mp_sim a ctx ms ms' mh t :
  floats ctx = floats d -> mp_ok d a = true -> fst (a_stmt a) = tc_proved ->
  Inv ms mh t -> apply_assertion ctx a ms = Some ms' ->
  exists t', mp_step t = Some t' /\ Inv ms' mh t' /\ steps_to t t'.
Proof.
  intros EF HB ET I HA.
  destruct (apply_inv d HPF ctx a ms ms' EF HA) as [ts [rest [L [E1 E2]]]].
  unfold mp_ok in HB.
  destruct (mand_float_vars d a) as [|x [|y [|? ?]]] eqn:EMF; try discriminate.
  apply andb_true_iff in HB as [ES EE]. apply stmt_eqb_eq in ES. apply stmts_eqb_eq in EE.
  destruct (two_vars d HPF HND a x y ts EMF L) as [EM [NE [t1 [t2 ->]]]].
  assert (EE': map (fun e : label * stmt => ssubst (combine [x; y] [t1; t2]) (snd e)) (a_ess a)
               = map (ssubst (combine [x; y] [t1; t2])) [(tc_proved, [timp (TVar x) (TVar y)]); (tc_proved, [TVar x])]).
  { rewrite <- EE, map_map. reflexivity. }
  rewrite EM in E1, E2. rewrite EE' in E1. rewrite ES in E2. unfold ssubst, timp in E1, E2. simpl in E1, E2.
  assert (NE': N.eqb x y = false) by (apply N.eqb_neq; exact NE).
  rewrite !N.eqb_refl, ?NE' in E1. rewrite ?N.eqb_refl in E1. rewrite NE', N.eqb_refl in E2.
  pose proof (inv_stack _ _ _ _ _ _ I) as HSt. rewrite E1 in HSt.
  destruct (stack_split d sid [TApp c_imp [t1; t2]; t1] [t1; t2] rest _ HSt) as [srest [ESt HR]].
  simpl in ESt. rewrite (img_imp d sid HENV) in ESt.
  unfold mp_step.
  assert (R1: iruns Proof [OMP] (mst t)
              = Some (set_stack (TProved (im t2) :: TPat (im t2) :: TPat (im t1) :: srest) (mst t))).
  { simpl. rewrite ESt. rewrite pat_eqb_refl. reflexivity. }
  destruct (do_same_but _ _ _ R1 [] ltac:(simpl; rewrite app_nil_r; reflexivity) eq_refl) as [t1' [D1 S1]].
  rewrite D1. unfold top. destruct S1 as (St1 & M1 & C1 & H1' & P1). rewrite St1. simpl.
  assert (R2: iruns Proof [OSave; OPop; OPop; OPop] (mst t1')
              = Some (mkst srest (memory (mst t1') ++ [TProved (im t2)]) (claims (mst t1')))).
  { simpl. rewrite St1. simpl. reflexivity. }
  destruct (do_same_but _ _ _ R2 [TProved (im t2)] eq_refl eq_refl) as [t2' [D2 S2]].
  rewrite D2.
  assert (HM: In (TProved (im t2)) (memory (mst t2'))).
  { destruct S2 as (_ & M2 & _). rewrite M2. apply in_or_app. right. left. reflexivity. }
  destruct (load_of_ok _ t2' HM) as [t3' [D3 S3]]. exists t3'. split; [exact D3|].
  assert (S1': same_but t t1' (TProved (im t2) :: TPat (im t2) :: TPat (im t1) :: srest) []) by (repeat split; assumption).
  pose proof (same_but_trans _ _ _ _ _ _ _ (same_but_trans _ _ _ _ _ _ _ S1' S2) S3) as S.
  split.
  - eapply inv_same_but; [exact I | exact S |]. rewrite E2. destruct S2 as [St2 _]. rewrite St2. simpl.
    constructor; [apply rel_mk_proved | exact HR].
  - destruct S as (_ & _ & _ & _ & S). exact S.
Qed.

End Rules.

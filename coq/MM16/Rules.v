(** C16: step simulation for the three fixed proof rules (prop-1, prop-2, modus ponens with its
    save/pop/pop/pop/load cleanup). *)
From Coq Require Import NArith PeanoNat List Bool Lia.
From Pi2 Require Import ML.Syntax ML.Subst ML.Machine ML.Facts
  MM16.Verify MM16.Convert MM16.Instr MM16.Translate MM16.Fragment
  MM16.InstrFacts MM16.ConvertFacts MM16.SimFacts MM16.VerifyFacts MM16.Sim MM16.Step.
Import ListNotations.
Open Scope N_scope.

Section Rules.
Variable d : db.
Variable sid : N -> N.
Hypothesis HPF : forallb (fun f => N.eqb (snd (fst f)) tc_pattern) (floats d) = true.
Hypothesis HND : nodupb (float_vars d) = true.
Hypothesis HENV : env_ok (env_of d) = true.
Variable cl : list pat.

Notation im := (img d sid).
Notation env := (env_of d).
Notation Inv := (inv d sid cl).
Notation Rel := (rel d sid).

Lemma three_vars a x y z (ts:list mmterm) :
  listN_eqb (mand_float_vars d a) [x; y; z] = true -> length ts = length (metavars_in_order d a) ->
  metavars_in_order d a = [x; y; z] /\ x <> y /\ x <> z /\ y <> z /\ exists t1 t2 t3, ts = [t1; t2; t3].
Proof.
  intros HL L.
  assert (E: metavars_in_order d a = [x; y; z]).
  { rewrite <- (mand_vars_order d HPF d a eq_refl). unfold mand_float_vars in HL.
    destruct (map (fun f : label * N * N => snd f) (mand_floats d a)) as [|x' [|y' [|z' [|? ?]]]]; simpl in HL; try discriminate.
    - destruct (N.eqb x' x); discriminate.
    - destruct (N.eqb x' x); [destruct (N.eqb y' y)|]; discriminate.
    - apply andb_true_iff in HL as [H1 H2]. apply andb_true_iff in H2 as [H2 H3]. apply andb_true_iff in H3 as [H3 _].
      apply N.eqb_eq in H1, H2, H3. subst. reflexivity.
    - apply andb_true_iff in HL as [_ H2]. apply andb_true_iff in H2 as [_ H2]. apply andb_true_iff in H2 as [_ H2]. discriminate. }
  split; [exact E|].
  assert (ND: NoDup (metavars_in_order d a)) by (apply mio_NoDup; assumption). rewrite E in ND.
  inversion ND as [|? ? N1 ND1]; subst. inversion ND1 as [|? ? N2 ND2]; subst.
  repeat split.
  - intros ->. apply N1. left. reflexivity.
  - intros ->. apply N1. right. left. reflexivity.
  - intros ->. apply N2. left. reflexivity.
  - rewrite E in L. destruct ts as [|t1 [|t2 [|t3 [|? ?]]]]; try discriminate. exists t1, t2, t3. reflexivity.
Qed.

Lemma prop1_sim a ctx ms ms' mh t :
  floats ctx = floats d -> prop1_ok d a = true -> fst (a_stmt a) = tc_proved ->
  Inv ms mh t -> apply_assertion ctx a ms = Some ms' ->
  exists t', do [OProp1; OInst [1; 0]] t = Some t' /\ Inv ms' mh t' /\ steps_to t t'.
Proof.
  intros EF HB ET I HA.
  destruct (apply_inv d HPF ctx a ms ms' EF HA) as [ts [rest [L [E1 E2]]]].
  unfold prop1_ok in HB.
  destruct (a_ess a) as [|? ?] eqn:EE; [|discriminate].
  destruct (a_stmt a) as [tc [|[v|c1 [|[x|? ?] [|[?|c2 [|[y|? ?] [|[x'|? ?] [|? ?]]]] [|? ?]]]] [|? ?]]] eqn:ES; try discriminate.
  repeat (apply andb_true_iff in HB as [HB ?]).
  apply N.eqb_eq in HB, H1, H0. subst c1 c2 x'. simpl in ET. subst tc.
  destruct (two_vars d HPF HND a x y ts H L) as [EM [NE [t1 [t2 ->]]]].
  simpl in E1. rewrite EM in E2. unfold ssubst in E2. simpl in E2.
  assert (NE': N.eqb x y = false) by (apply N.eqb_neq; exact NE).
  rewrite !N.eqb_refl, NE' in E2.
  pose proof (inv_stack _ _ _ _ _ _ I) as HSt. rewrite E1 in HSt.
  destruct (stack_split d sid [] [t1; t2] rest _ HSt) as [srest [ESt HR]]. simpl in ESt.
  assert (R: iruns Proof [OProp1; OInst [1; 0]] (mst t)
             = Some (set_stack (TProved (Imp (im t1) (Imp (im t2) (im t1))) :: srest) (mst t))).
  { simpl. rewrite ESt. reflexivity. }
  destruct (do_same_but _ _ _ R [] ltac:(simpl; rewrite app_nil_r; reflexivity) eq_refl) as [t' [D S]].
  exists t'. split; [exact D|]. split.
  - eapply inv_same_but; [exact I | exact S |]. rewrite E2. simpl. constructor; [|exact HR].
    rewrite <- !(img_imp d sid HENV). apply rel_mk_proved.
  - destruct S as (_ & _ & _ & _ & S). exact S.
Qed.

Lemma prop2_sim a ctx ms ms' mh t :
  floats ctx = floats d -> prop2_ok d a = true -> fst (a_stmt a) = tc_proved ->
  Inv ms mh t -> apply_assertion ctx a ms = Some ms' ->
  exists t', do [OProp2; OInst [2; 1; 0]] t = Some t' /\ Inv ms' mh t' /\ steps_to t t'.
Proof.
  intros EF HB ET I HA.
  destruct (apply_inv d HPF ctx a ms ms' EF HA) as [ts [rest [L [E1 E2]]]].
  unfold prop2_ok in HB.
  destruct (a_ess a) as [|? ?] eqn:EE; [|discriminate].
  destruct (a_stmt a) as [tc [|[v|c1 [|[?|c2 [|[x|? ?] [|[?|c3 [|[y|? ?] [|[z|? ?] [|? ?]]]] [|? ?]]]]
                                      [|[?|c4 [|[?|c5 [|[x1|? ?] [|[y1|? ?] [|? ?]]]] [|[?|c6 [|[x2|? ?] [|[z1|? ?] [|? ?]]]] [|? ?]]]] [|? ?]]]] [|? ?]]] eqn:ES;
    try discriminate.
  repeat (apply andb_true_iff in HB as [HB ?]).
  apply N.eqb_eq in HB, H0, H1, H2, H3, H4, H5, H6, H7, H8.
  subst c1 c2 c3 c4 c5 c6 x1 x2 y1 z1. simpl in ET. subst tc.
  destruct (three_vars a x y z ts H L) as [EM [NXY [NXZ [NYZ [t1 [t2 [t3 ->]]]]]]].
  simpl in E1. rewrite EM in E2. unfold ssubst in E2. simpl in E2.
  assert (N1: N.eqb x y = false) by (apply N.eqb_neq; exact NXY).
  assert (N2: N.eqb x z = false) by (apply N.eqb_neq; exact NXZ).
  assert (N3: N.eqb y z = false) by (apply N.eqb_neq; exact NYZ).
  rewrite !N.eqb_refl, ?N1, ?N2, ?N3 in E2. rewrite ?N.eqb_refl in E2.
  pose proof (inv_stack _ _ _ _ _ _ I) as HSt. rewrite E1 in HSt.
  destruct (stack_split d sid [] [t1; t2; t3] rest _ HSt) as [srest [ESt HR]]. simpl in ESt.
  assert (R: iruns Proof [OProp2; OInst [2; 1; 0]] (mst t)
             = Some (set_stack (TProved (Imp (Imp (im t1) (Imp (im t2) (im t3)))
                                             (Imp (Imp (im t1) (im t2)) (Imp (im t1) (im t3)))) :: srest) (mst t))).
  { simpl. rewrite ESt. reflexivity. }
  destruct (do_same_but _ _ _ R [] ltac:(simpl; rewrite app_nil_r; reflexivity) eq_refl) as [t' [D S]].
  exists t'. split; [exact D|]. split.
  - eapply inv_same_but; [exact I | exact S |]. rewrite E2. simpl. constructor; [|exact HR].
    rewrite <- !(img_imp d sid HENV). apply rel_mk_proved.
  - destruct S as (_ & _ & _ & _ & S). exact S.
Qed.

Lemma mp_sim a ctx ms ms' mh t :
  floats ctx = floats d -> mp_ok d a = true -> fst (a_stmt a) = tc_proved ->
  Inv ms mh t -> apply_assertion ctx a ms = Some ms' ->
  exists t', mp_step t = Some t' /\ Inv ms' mh t' /\ steps_to t t'.
Proof.
  intros EF HB ET I HA.
  destruct (apply_inv d HPF ctx a ms ms' EF HA) as [ts [rest [L [E1 E2]]]].
  unfold mp_ok in HB.
  destruct (a_ess a) as [|[l1 [tc1 [|[?|c1 [|[x|? ?] [|[y|? ?] [|? ?]]]] [|? ?]]]] [|[l2 [tc2 [|[x'|? ?] [|? ?]]]] [|? ?]]] eqn:EE;
    try discriminate.
  destruct (a_stmt a) as [tc [|[y'|? ?] [|? ?]]] eqn:ES; try discriminate.
  repeat (apply andb_true_iff in HB as [HB ?]).
  apply N.eqb_eq in HB, H0, H1, H2, H3. subst tc1 tc2 c1 x' y'. simpl in ET. subst tc.
  destruct (two_vars d HPF HND a x y ts H L) as [EM [NE [t1 [t2 ->]]]].
  rewrite EM in E1, E2. unfold ssubst in E1, E2. simpl in E1, E2.
  assert (NE': N.eqb x y = false) by (apply N.eqb_neq; exact NE).
  rewrite !N.eqb_refl, ?NE' in E1. rewrite ?N.eqb_refl in E1. rewrite NE', N.eqb_refl in E2.
  pose proof (inv_stack _ _ _ _ _ _ I) as HSt. rewrite E1 in HSt.
  destruct (stack_split d sid [TApp c_imp [t1; t2]; t1] [t1; t2] rest _ HSt) as [srest [ESt HR]].
  simpl in ESt. rewrite (img_imp d sid HENV) in ESt.
  unfold mp_step.
  assert (R1: iruns Proof [OMP] (mst t)
              = Some (set_stack (TProved (im t2) :: TPat (im t2) :: TPat (im t1) :: srest) (mst t))).
  { simpl. rewrite ESt. rewrite pat_eqb_refl. reflexivity. }
  destruct (do_same_but _ _ _ R1 [] ltac:(simpl; rewrite app_nil_r; reflexivity) eq_refl) as [t1' [D1 S1]].
  rewrite D1. unfold top. destruct S1 as (St1 & M1 & C1 & H1' & P1). rewrite St1. simpl.
  assert (R2: iruns Proof [OSave; OPop; OPop; OPop] (mst t1')
              = Some (mkst srest (memory (mst t1') ++ [TProved (im t2)]) (claims (mst t1')))).
  { simpl. rewrite St1. simpl. reflexivity. }
  destruct (do_same_but _ _ _ R2 [TProved (im t2)] eq_refl eq_refl) as [t2' [D2 S2]].
  rewrite D2.
  assert (HM: In (TProved (im t2)) (memory (mst t2'))).
  { destruct S2 as (_ & M2 & _). rewrite M2. apply in_or_app. right. left. reflexivity. }
  destruct (load_of_ok _ t2' HM) as [t3' [D3 S3]]. exists t3'. split; [exact D3|].
  assert (S1': same_but t t1' (TProved (im t2) :: TPat (im t2) :: TPat (im t1) :: srest) []) by (repeat split; assumption).
  pose proof (same_but_trans _ _ _ _ _ _ _ (same_but_trans _ _ _ _ _ _ _ S1' S2) S3) as S.
  split.
  - eapply inv_same_but; [exact I | exact S |]. rewrite E2. destruct S2 as [St2 _]. rewrite St2. simpl.
    constructor; [apply rel_mk_proved | exact HR].
  - destruct S as (_ & _ & _ & _ & S). exact S.
Qed.

End Rules.

(** M6 / C16: the converter's term -> pattern map ([converter.py] [_to_pattern], [_add_notation],
    [_import_floating], [_resolve]) for the supported fragment.

    [img] is the structural image: [#Pattern]-typed variables become clean metavariables numbered by
    the position of their [$f] statement among the [#Pattern] floats of the whole database
    ([Scope.add_metavariable]: [MetaVar(len(_metavars))]); [\imp]/[\app] are the two built-in
    notations that matter here; a constant with a [$a #Notation] declaration is replaced by its body
    (converted when the declaration is imported, i.e. against the notations imported *before* it);
    every other constant is a [Symbol] applied to its arguments left to right ([resolve_as_app]).
    Symbols are numbered by the serializer in order of first emission; [img] takes that numbering as
    a parameter [sid].  Definitions only. *)
From Coq Require Import NArith List Bool.
From Pi2 Require Import ML.Syntax ML.Subst ML.Machine MM16.Verify.
Import ListNotations.
Open Scope N_scope.

Definition c_imp : N := 0.   (* \imp *)
Definition c_app : N := 1.   (* \app *)

Definition stmt_term (s:stmt) : mmterm := match snd s with [t] => t | _ => TVar 0 end.

(** [$f #Pattern v] statements of the whole database, in order *)
Definition pattern_floats (d:db) : list N :=
  flat_map (fun f => if N.eqb (snd (fst f)) tc_pattern then [snd f] else []) (floats d).

Fixpoint index_of (x:N) (l:list N) : option nat :=
  match l with
  | [] => None
  | y::r => if N.eqb y x then Some O else option_map S (index_of x r)
  end.
Definition idx_or0 (x:N) (l:list N) : N := match index_of x l with Some i => N.of_nat i | None => 0 end.

Definition mvid (d:db) (v:N) : N := idx_or0 v (pattern_floats d).

(** ---- notations *)
Definition var_name (t:mmterm) : N := match t with TVar v => v | TApp _ _ => 0 end.
Definition is_var (t:mmterm) : bool := match t with TVar _ => true | _ => false end.

(** [sugar_axiom]: [$a #Notation ( c params ) body] with [body] not headed by [c] itself *)
Definition notation_decl (it:item) : option (N * (list N * mmterm)) :=
  match it with
  | IAx a =>
      match a_stmt a with
      | (tc, [TApp c ps; body]) =>
          if N.eqb tc tc_notation then
            match body with
            | TApp c' _ => if N.eqb c c' then None else Some (c, (map var_name ps, body))
            | TVar _ => Some (c, (map var_name ps, body))
            end
          else None
      | _ => None
      end
  | _ => None
  end.

Definition nenv := list (N * (list N * mmterm)).

(** replace declared notations by their (already expanded) bodies *)
Fixpoint expand (env:nenv) (t:mmterm) : mmterm :=
  match t with
  | TVar v => TVar v
  | TApp c args =>
      let args' := map (expand env) args in
      match assoc c env with
      | Some (ps, body) => tsubst (combine ps args') body
      | None => TApp c args'
      end
  end.

(** notations are imported in database order (first sweep of [_top_down] collects them, the
    second sweep converts them one by one): a body sees only the notations before it *)
Fixpoint build_env (d:db) (env:nenv) : nenv :=
  match d with
  | [] => env
  | it::r =>
      match notation_decl it with
      | Some (c, (ps, body)) => build_env r (env ++ [(c, (ps, expand env body))])
      | None => build_env r env
      end
  end.
Definition env_of (d:db) : nenv := build_env d [].

(** ---- notation-free terms to patterns *)
Fixpoint img0 (sid mv:N->N) (t:mmterm) : pat :=
  match t with
  | TVar v => phi (mv v)
  | TApp c args =>
      let ps := map (img0 sid mv) args in
      let chain := fold_left App ps (Sym (sid c)) in
      if N.eqb c c_imp then match ps with a::b::_ => Imp a b | _ => chain end
      else if N.eqb c c_app then match ps with a::b::_ => App a b | _ => chain end
      else chain
  end.

Definition img (d:db) (sid:N->N) (t:mmterm) : pat := img0 sid (mvid d) (expand (env_of d) t).

(** [convert_to_implication] *)
Definition chain_imp (ants:list pat) (concl:pat) : pat := fold_right Imp concl ants.

(** the pattern the converter stores for an assertion: for [|-] and [#Pattern] statements the image
    of the term, with the [$e] antecedents as an implication chain; for a [#Notation] statement
    the image of its left-hand side *)
(** [axiom.pattern]: the image of the statement's term (conclusion only) *)
Definition concl_pat (d:db) (sid:N->N) (a:assertion) : pat :=
  match a_stmt a with
  | (_, t::_) => img d sid t
  | _ => phi 0
  end.
(** [axiom.antecedents]: the images of the [$e] statements of the block *)
Definition ants_pat (d:db) (sid:N->N) (a:assertion) : list pat :=
  map (fun e => img d sid (stmt_term (snd e))) (a_ess a).
Definition axiom_pat (d:db) (sid:N->N) (a:assertion) : pat := chain_imp (ants_pat d sid a) (concl_pat d sid a).

(** symbols of a pattern in the order [Interpreter.pattern] emits them *)
Fixpoint psyms (p:pat) : list N :=
  match p with
  | Sym c => [c]
  | Imp l r | App l r => psyms l ++ psyms r
  | _ => []
  end.

Fixpoint nodupN (l:list N) (seen:list N) : list N :=
  match l with
  | [] => []
  | x::r => if memN x seen then nodupN r seen else x :: nodupN r (x::seen)
  end.

(** REGENERATED on every run of ./check C02 / C08 by translators/py_proofdsl.py from the CURRENT source of
    generation/src/proof_generation/{basic_interpreter,interpreter,interpreter_transformer,optimizing_interpreters,proof,pattern}.py.
    Statement-level translation; reading conventions in PTerm/PyRt.v.  Do not edit. *)
From Coq Require Import NArith List Bool.
From Pi2 Require Import ML.Syntax ML.Subst ML.Machine PTerm.Model PTerm.PyRt.
Import ListNotations.
Open Scope N_scope.

(* pattern.py *)
Definition gen_phi0 : pat := (MVar 0 [] [] [] [] []).
Definition gen_phi1 : pat := (MVar 1 [] [] [] [] []).
Definition gen_phi2 : pat := (MVar 2 [] [] [] [] []).
Definition gen_bot : pat := (Mu 0 (SVar 0)).

(* basic_interpreter.py:39 *)
Definition gen_basic_evar (v_id:N) : pat :=
  (EVar v_id).

(* basic_interpreter.py:42 *)
Definition gen_basic_svar (v_id:N) : pat :=
  (SVar v_id).

(* basic_interpreter.py:45 *)
Definition gen_basic_symbol (v_name:N) : pat :=
  (Sym v_name).

(* basic_interpreter.py:48 *)
Definition gen_basic_metavar (v_id:N) (v_e_fresh:list N) (v_s_fresh:list N) (v_positive:list N) (v_negative:list N) (v_application_context:list N) : pat :=
  (MVar v_id v_e_fresh v_s_fresh v_positive v_negative v_application_context).

(* basic_interpreter.py:59 *)
Definition gen_basic_implies (v_left:pat) (v_right:pat) : pat :=
  (Imp v_left v_right).

(* basic_interpreter.py:62 *)
Definition gen_basic_app (v_left:pat) (v_right:pat) : pat :=
  (App v_left v_right).

(* basic_interpreter.py:65 *)
Definition gen_basic_exists (v_var:N) (v_subpattern:pat) : pat :=
  (Ex v_var v_subpattern).

(* basic_interpreter.py:68 *)
Definition gen_basic_esubst (v_evar_id:N) (v_pattern:pat) (v_plug:pat) : pat :=
  (ESub v_pattern (evar_name (EVar v_evar_id)) v_plug).

(* basic_interpreter.py:71 *)
Definition gen_basic_ssubst (v_svar_id:N) (v_pattern:pat) (v_plug:pat) : pat :=
  (SSub v_pattern (svar_name (SVar v_svar_id)) v_plug).

(* basic_interpreter.py:74 *)
Definition gen_basic_mu (v_var:N) (v_subpattern:pat) : pat :=
  (Mu v_var v_subpattern).

(* basic_interpreter.py:77 *)
Definition gen_basic_prop1  : pat :=
  let v_phi0 := (MVar 0 [] [] [] [] []) in let v_phi1 := (MVar 1 [] [] [] [] []) in (Imp v_phi0 (Imp v_phi1 v_phi0)).

(* basic_interpreter.py:82 *)
Definition gen_basic_prop2  : pat :=
  let v_phi0 := (MVar 0 [] [] [] [] []) in let v_phi1 := (MVar 1 [] [] [] [] []) in let v_phi2 := (MVar 2 [] [] [] [] []) in (Imp (Imp v_phi0 (Imp v_phi1 v_phi2)) (Imp (Imp v_phi0 v_phi1) (Imp v_phi0 v_phi2))).

(* basic_interpreter.py:93 *)
Definition gen_basic_prop3  : pat :=
  let v_phi0 := (MVar 0 [] [] [] [] []) in (Imp (Imp (Imp v_phi0 gen_bot) gen_bot) v_phi0).

(* basic_interpreter.py:97 *)
Definition gen_basic_modus_ponens (v_left:pat) (v_right:pat) : option pat :=
  let v_left_conclusion := v_left in match v_left_conclusion with Imp v_l v_r => if (pat_eqb v_l v_right) then Some v_r else None | _ => None end.

(* basic_interpreter.py:103 *)
Definition gen_basic_exists_quantifier  : pat :=
  let v_phi := (MVar 0 [] [] [] [] []) in let v_x := (EVar 0) in let v_y := (EVar 1) in (Imp (ESub v_phi (evar_name v_x) v_y) (Ex (evar_name v_x) v_phi)).

(* basic_interpreter.py:109 *)
Definition gen_basic_exists_generalization (v_proved:pat) (v_var:N) : option pat :=
  match v_proved with Imp v_l v_r => if (e_fresh v_r v_var) then Some (Imp (Ex v_var v_l) v_r) else None | _ => None end.

(* basic_interpreter.py:114 *)
Definition gen_basic_instantiate (v_proved:pat) (v_delta:delta) : option pat :=
  if (is_nil v_delta) then Some v_proved else Some (py_inst v_delta v_proved).

(* basic_interpreter.py:122 *)
Definition gen_basic_pop (v_term:term) : M unit :=
  ret tt.

(* basic_interpreter.py:125 *)
Definition gen_basic_save (v_term:term) : M unit :=
  ret tt.

(* basic_interpreter.py:128 *)
Definition gen_basic_load (v_term:term) : M unit :=
  ret tt.

(* basic_interpreter.py:131 *)
Definition gen_basic_publish_proof (v_term:pat) : M unit :=
  bind (assert_phase Proof) (fun _ => ret tt).

(* basic_interpreter.py:135 *)
Definition gen_basic_publish_axiom (v_term:pat) : M unit :=
  bind (assert_phase Gamma) (fun _ => ret tt).

(* basic_interpreter.py:139 *)
Definition gen_basic_publish_claim (v_term:pat) : M unit :=
  bind (assert_phase Claim) (fun _ => ret tt).

Definition gen_basic : basic_fns := mkbasic
  gen_basic_evar
  gen_basic_svar
  gen_basic_symbol
  gen_basic_metavar
  gen_basic_implies
  gen_basic_app
  gen_basic_exists
  gen_basic_esubst
  gen_basic_ssubst
  gen_basic_mu
  gen_basic_prop1
  gen_basic_prop2
  gen_basic_prop3
  gen_basic_modus_ponens
  gen_basic_exists_quantifier
  gen_basic_exists_generalization
  gen_basic_instantiate
  gen_basic_pop
  gen_basic_save
  gen_basic_load
  gen_basic_publish_proof
  gen_basic_publish_axiom
  gen_basic_publish_claim.

(* interpreter.py:44  Interpreter.pattern; [ovr] = the override of the concrete method by the class of self,
   recursive self.pattern(..) calls go through it again *)
Fixpoint obj_pattern_rec (ovr:pat -> M pat -> M pat) (self_ops:ops) (v_p:pat) {struct v_p} : M pat :=
  ovr v_p
  (match v_p with
  | EVar v_name =>
      (o_evar self_ops v_name)
  | SVar v_name =>
      (o_svar self_ops v_name)
  | Sym v_name =>
      (o_symbol self_ops v_name)
  | Imp v_left v_right =>
      bind (obj_pattern_rec ovr self_ops v_left) (fun a4 => bind (obj_pattern_rec ovr self_ops v_right) (fun a5 => (o_implies self_ops a4 a5)))
  | App v_left v_right =>
      bind (obj_pattern_rec ovr self_ops v_left) (fun a7 => bind (obj_pattern_rec ovr self_ops v_right) (fun a8 => (o_app self_ops a7 a8)))
  | Ex v_var v_subpattern =>
      bind (obj_pattern_rec ovr self_ops v_subpattern) (fun a10 => (o_exists self_ops v_var a10))
  | Mu v_var v_subpattern =>
      bind (obj_pattern_rec ovr self_ops v_subpattern) (fun a12 => (o_mu self_ops v_var a12))
  | MVar v_name v_e_fresh v_s_fresh v_positive v_negative v_app_ctx_holes =>
      (o_metavar self_ops v_name v_e_fresh v_s_fresh v_positive v_negative v_app_ctx_holes)
  | ESub v_subpattern v_var v_plug =>
      bind (obj_pattern_rec ovr self_ops v_plug) (fun v_plug => bind (obj_pattern_rec ovr self_ops v_subpattern) (fun v_subpattern => if (is_meta_head v_subpattern) then (o_esubst self_ops v_var v_subpattern v_plug) else fail))
  | SSub v_subpattern v_var v_plug =>
      bind (obj_pattern_rec ovr self_ops v_plug) (fun v_plug => bind (obj_pattern_rec ovr self_ops v_subpattern) (fun v_subpattern => if (is_meta_head v_subpattern) then (o_ssubst self_ops v_var v_subpattern v_plug) else fail))
  end).
Definition obj_pattern (it:obj) (p:pat) : M pat := obj_pattern_rec (o_override it (o_ops it)) (o_ops it) p.

(* interpreter_transformer.py: every abstract method as delegated by InterpreterTransformer *)
Definition gen_transformer_ops (sub:ops) : ops := mkops
  (fun v_id => (o_evar sub v_id))
  (fun v_id => (o_svar sub v_id))
  (fun v_name => (o_symbol sub v_name))
  (fun v_id v_e_fresh v_s_fresh v_positive v_negative v_application_context => (o_metavar sub v_id v_e_fresh v_s_fresh v_positive v_negative v_application_context))
  (fun v_left v_right => (o_implies sub v_left v_right))
  (fun v_left v_right => (o_app sub v_left v_right))
  (fun v_var v_subpattern => (o_exists sub v_var v_subpattern))
  (fun v_evar_id v_pattern v_plug => (o_esubst sub v_evar_id v_pattern v_plug))
  (fun v_svar_id v_pattern v_plug => (o_ssubst sub v_svar_id v_pattern v_plug))
  (fun v_var v_subpattern => (o_mu sub v_var v_subpattern))
  ((o_prop1 sub))
  ((o_prop2 sub))
  ((o_prop3 sub))
  (fun v_left v_right => (o_modus_ponens sub v_left v_right))
  ((o_exists_quantifier sub))
  (fun v_proved v_var => (o_exists_generalization sub v_proved v_var))
  (fun v_proved v_delta => (o_instantiate sub v_proved v_delta))
  (fun v_term => (o_pop sub v_term))
  (fun v_term => (o_save sub v_term))
  (fun v_term => (o_load sub v_term))
  (fun v_term => (o_publish_proof sub v_term))
  (fun v_term => (o_publish_axiom sub v_term))
  (fun v_term => (o_publish_claim sub v_term)).

(* optimizing_interpreters.py:20 *)
Definition gen_instopt_instantiate (sub:ops) : pat -> delta -> M pat :=
  fun v_proved v_delta => bind (lift_opt (gen_basic_instantiate v_proved v_delta)) (fun v_ret => bind (if (is_nil v_delta) then ret tt else bind (o_instantiate sub v_proved v_delta) (fun a45 => ret tt)) (fun _ => ret v_ret)).

Definition gen_instopt_ops (sub:ops) : ops := mkops
  (fun v_id => (o_evar sub v_id))
  (fun v_id => (o_svar sub v_id))
  (fun v_name => (o_symbol sub v_name))
  (fun v_id v_e_fresh v_s_fresh v_positive v_negative v_application_context => (o_metavar sub v_id v_e_fresh v_s_fresh v_positive v_negative v_application_context))
  (fun v_left v_right => (o_implies sub v_left v_right))
  (fun v_left v_right => (o_app sub v_left v_right))
  (fun v_var v_subpattern => (o_exists sub v_var v_subpattern))
  (fun v_evar_id v_pattern v_plug => (o_esubst sub v_evar_id v_pattern v_plug))
  (fun v_svar_id v_pattern v_plug => (o_ssubst sub v_svar_id v_pattern v_plug))
  (fun v_var v_subpattern => (o_mu sub v_var v_subpattern))
  ((o_prop1 sub))
  ((o_prop2 sub))
  ((o_prop3 sub))
  (fun v_left v_right => (o_modus_ponens sub v_left v_right))
  ((o_exists_quantifier sub))
  (fun v_proved v_var => (o_exists_generalization sub v_proved v_var))
  (gen_instopt_instantiate sub)
  (fun v_term => (o_pop sub v_term))
  (fun v_term => (o_save sub v_term))
  (fun v_term => (o_load sub v_term))
  (fun v_term => (o_publish_proof sub v_term))
  (fun v_term => (o_publish_axiom sub v_term))
  (fun v_term => (o_publish_claim sub v_term)).

(* optimizing_interpreters.py:44  MemoizingInterpreter.pattern; sub_stateful = isinstance(self.sub_interpreter, StatefulInterpreter),
   inS = membership in self._patterns_for_memoization, rt_mem = self.sub_interpreter.memory,
   super_pattern = super().pattern(p) *)
Definition gen_memo_pattern (sub_stateful:bool) (inS:pat -> bool) (self_ops:ops) (v_p:pat) (super_pattern:M pat) : M pat :=
  bind get_mem (fun rt_mem => if (sub_stateful && (tmem (TPat v_p) rt_mem)) then bind (o_load self_ops (TPat v_p)) (fun a46 => ret v_p) else if (inS v_p) then bind super_pattern (fun v_ret => bind (o_save self_ops (TPat v_p)) (fun a48 => ret v_ret)) else super_pattern).

Definition gen_is_stateful_BasicInterpreter : bool := false.
Definition gen_is_stateful_StatefulInterpreter : bool := true.
Definition gen_is_stateful_CountingInterpreter : bool := true.
Definition gen_is_stateful_SerializingInterpreter : bool := true.
Definition gen_is_stateful_PrettyPrintingInterpreter : bool := true.
Definition gen_is_stateful_InterpreterTransformer : bool := false.
Definition gen_is_stateful_InstantiationOptimizer : bool := false.
Definition gen_is_stateful_MemoizingInterpreter : bool := false.

(* the three transformer classes as object constructors: own ops, own override of Interpreter.pattern, own class *)
Definition gen_InterpreterTransformer (sub:obj) : obj := mkobj (gen_transformer_ops (o_ops sub)) no_override gen_is_stateful_InterpreterTransformer.
Definition gen_InstantiationOptimizer (sub:obj) : obj := mkobj (gen_instopt_ops (o_ops sub)) no_override gen_is_stateful_InstantiationOptimizer.
Definition gen_MemoizingInterpreter (inS:pat -> bool) (sub:obj) : obj :=
  mkobj (gen_transformer_ops (o_ops sub)) (gen_memo_pattern (o_stateful sub) inS) gen_is_stateful_MemoizingInterpreter.
Definition gen_base (stateful:bool) : obj := mkobj (base_ops gen_basic) no_override stateful.

(* proof.py:42  ProofThunk.__call__ *)
Definition gen_thunk_call (th:thunk) (v_interpreter:obj) : M pat :=
  bind (th_expr th v_interpreter) (fun v_proved => if (pat_eqb v_proved (th_conc th)) then ret v_proved else fail).

(* proof.py:141 *)
Definition gen_dsl_prop1  : option thunk :=
  Some (mkthunk (fun v_interpreter => (o_prop1 (o_ops v_interpreter))) (Imp gen_phi0 (Imp gen_phi1 gen_phi0))).

(* proof.py:144 *)
Definition gen_dsl_prop2  : option thunk :=
  Some (mkthunk (fun v_interpreter => (o_prop2 (o_ops v_interpreter))) (Imp (Imp gen_phi0 (Imp gen_phi1 gen_phi2)) (Imp (Imp gen_phi0 gen_phi1) (Imp gen_phi0 gen_phi2)))).

(* proof.py:150 *)
Definition gen_dsl_prop3  : option thunk :=
  Some (mkthunk (fun v_interpreter => (o_prop3 (o_ops v_interpreter))) (Imp (Imp (Imp gen_phi0 gen_bot) gen_bot) gen_phi0)).

(* proof.py:155 *)
Definition gen_dsl_modus_ponens (v_left:thunk) (v_right:thunk) : option thunk :=
  match (th_conc v_left) with Imp v_p v_q => if (pat_eqb v_p (th_conc v_right)) then Some (mkthunk (fun v_interpreter => bind (gen_thunk_call v_left v_interpreter) (fun a54 => bind (gen_thunk_call v_right v_interpreter) (fun a55 => (o_modus_ponens (o_ops v_interpreter) a54 a55)))) v_q) else None | _ => None end.

(* proof.py:160 *)
Definition gen_dsl_exists_quantifier  : option thunk :=
  let v_x := (EVar 0) in let v_y := (EVar 1) in Some (mkthunk (fun v_interpreter => (o_exists_quantifier (o_ops v_interpreter))) (Imp (ESub gen_phi0 (evar_name v_x) v_y) (Ex (evar_name v_x) gen_phi0))).

(* proof.py:167 *)
Definition gen_dsl_exists_generalization (v_proved:thunk) (v_var:N) : option thunk :=
  match (th_conc v_proved) with Imp v_l v_r => Some (mkthunk (fun v_interpreter => bind (gen_thunk_call v_proved v_interpreter) (fun a58 => (o_exists_generalization (o_ops v_interpreter) a58 v_var))) (Imp (Ex v_var v_l) v_r)) | _ => None end.

(* proof.py:130 *)
Definition gen_dsl_dynamic_inst (v_pf:thunk) (v_delta:delta) : option thunk :=
  if (is_nil v_delta) then Some v_pf else Some (mkthunk (fun v_interpreter => bind (map_itemsM (fun v_idn v_p => (obj_pattern v_interpreter v_p)) v_delta) (fun v_delta' => bind (gen_thunk_call v_pf v_interpreter) (fun a61 => (o_instantiate (o_ops v_interpreter) a61 v_delta')))) (py_inst v_delta (th_conc v_pf))).

(* proof.py:174 *)
Definition gen_dsl_instantiate (v_proved:thunk) (v_delta:delta) : option thunk :=
  Some (mkthunk (fun v_interpreter => bind (gen_thunk_call v_proved v_interpreter) (fun a63 => (o_instantiate (o_ops v_interpreter) a63 v_delta))) (py_inst v_delta (th_conc v_proved))).

(* proof.py:179 *)
Definition gen_dsl_load_axiom (axs:list pat) (v_axiom_term:pat) : option thunk :=
  if (pmem v_axiom_term axs) then let v_axiom := v_axiom_term in Some (mkthunk (fun v_interpreter => bind (o_load (o_ops v_interpreter) (TProved v_axiom)) (fun a65 => ret v_axiom)) v_axiom_term) else None.

(* proof.py:193 *)
Definition gen_dsl_publish_proof (v_proved:thunk) : option thunk :=
  Some (mkthunk (fun v_interpreter => bind (gen_thunk_call v_proved v_interpreter) (fun a66 => bind (o_publish_proof (o_ops v_interpreter) a66) (fun a67 => ret (th_conc v_proved)))) (th_conc v_proved)).

(* proof.py:200 *)
Definition gen_execute_gamma_phase (subs:list (obj -> bool -> M unit)) (axs cls:list pat) (prs:list thunk) (v_interpreter:obj) (v_move_into_claim:bool) : M unit :=
  bind (assert_phase Gamma) (fun _ => bind (iterM (fun v_submodule => (v_submodule v_interpreter false)) subs) (fun _ => bind (iterM (fun v_axiom => bind (obj_pattern v_interpreter v_axiom) (fun a69 => (o_publish_axiom (o_ops v_interpreter) a69))) axs) (fun _ => if v_move_into_claim then into_claim_phase else ret tt))).

(* proof.py:210 *)
Definition gen_execute_claims_phase (subs:list (obj -> bool -> M unit)) (axs cls:list pat) (prs:list thunk) (v_interpreter:obj) (v_move_into_proof:bool) : M unit :=
  bind (assert_phase Claim) (fun _ => bind (iterM (fun v_claim => bind (obj_pattern v_interpreter v_claim) (fun a72 => (o_publish_claim (o_ops v_interpreter) a72))) (rev cls)) (fun _ => if v_move_into_proof then into_proof_phase else ret tt)).

(* proof.py:218 *)
Definition gen_execute_proofs_phase (subs:list (obj -> bool -> M unit)) (axs cls:list pat) (prs:list thunk) (v_interpreter:obj) : M unit :=
  bind (assert_phase Proof) (fun _ => bind (iterM (fun v_proof_expr => bind (lift_opt (gen_dsl_publish_proof v_proof_expr)) (fun a75 => bind (gen_thunk_call a75 v_interpreter) (fun a76 => ret tt))) prs) (fun _ => ret tt)).

(* proof.py:224 *)
Definition gen_execute_full (subs:list (obj -> bool -> M unit)) (axs cls:list pat) (prs:list thunk) (v_interpreter:obj) : M unit :=
  bind (assert_phase Gamma) (fun _ => bind (gen_execute_gamma_phase subs axs cls prs v_interpreter true) (fun a77 => bind (gen_execute_claims_phase subs axs cls prs v_interpreter true) (fun a78 => (gen_execute_proofs_phase subs axs cls prs v_interpreter)))).


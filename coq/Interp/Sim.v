(** C04: the generator-side tracker is a forward simulation of the checker (proofs). *)
From Coq Require Import NArith List Bool Lia Arith.
From Pi2 Require Import ML.Syntax ML.Subst ML.Machine Interp.Calls Interp.Facts Interp.RoundTrip.
Import ListNotations.
Open Scope N_scope.

(* ------------------------------------------------------------------------------------------ *)
(** * The simulation relation *)

(** the stack with the publish residues erased *)
Definition live (s:list sterm) : list term := map fst (filter (fun e => negb (snd e)) s).

(** the claim queue the tracker stands for: in the proof phase its [claims] (what remains to be
    proved); before, what has been published so far (the Python tracker keeps no record of that: the
    ghost journal) *)
Definition claims_view (tr:tracker) : list pat :=
  match t_phase tr with Proof => t_claims tr | _ => t_journal tr end.

Definition R (f:N -> N) (tr:tracker) (st:state) : Prop :=
  map (rn_term f) (live (t_stack tr)) = stack st /\
  map (rn_term f) (t_memory tr) = memory st /\
  map (rn f) (claims_view tr) = claims st.

(* ------------------------------------------------------------------------------------------ *)
(** * Renaming commutes with everything the checker computes *)

Section RnMachine.
Variable f : N -> N.
Variable g : guards.

Lemma rn_polar : forall p b X, polar b (rn f p) X = polar b p X.
Proof.
  induction p; intros b Y; cbn; try reflexivity.
  - rewrite IHp1, IHp2. reflexivity.
  - rewrite IHp1, IHp2. reflexivity.
  - rewrite IHp. reflexivity.
  - rewrite IHp. reflexivity.
  - rewrite IHp1, rn_s_fresh. reflexivity.
  - rewrite !IHp1, !IHp2, rn_s_fresh. reflexivity.
Qed.

Lemma pat_eqb_evar_rn : forall x q, pat_eqb (EVar x) (rn f q) = pat_eqb (EVar x) q.
Proof. destruct q; reflexivity. Qed.
Lemma pat_eqb_svar_rn : forall x q, pat_eqb (SVar x) (rn f q) = pat_eqb (SVar x) q.
Proof. destruct q; reflexivity. Qed.
Lemma is_meta_head_rn : forall q, is_meta_head (rn f q) = is_meta_head q.
Proof. destruct q; reflexivity. Qed.

Lemma well_formed_rn : forall p, well_formed (rn f p) = well_formed p.
Proof.
  destruct p; try reflexivity.
  - cbn [rn well_formed]. unfold pat_positive. rewrite rn_polar. reflexivity.
  - cbn [rn]. unfold well_formed, is_redundant_subst.
    rewrite pat_eqb_evar_rn, rn_e_fresh, is_meta_head_rn. reflexivity.
  - cbn [rn]. unfold well_formed, is_redundant_subst.
    rewrite pat_eqb_svar_rn, rn_s_fresh, is_meta_head_rn. reflexivity.
Qed.

Lemma rn_apply_esubst : forall p x q,
  apply_esubst g (rn f p) x (rn f q) = option_map (rn f) (apply_esubst g p x q).
Proof.
  induction p; intros y q; cbn; try reflexivity.
  - destruct (N.eqb n y); reflexivity.
  - rewrite IHp1, IHp2. destruct (apply_esubst g p1 y q), (apply_esubst g p2 y q); reflexivity.
  - rewrite IHp1, IHp2. destruct (apply_esubst g p1 y q), (apply_esubst g p2 y q); reflexivity.
  - destruct (N.eqb x y); [reflexivity|]. rewrite rn_e_fresh.
    destruct (chk (g_esubst_exists_capture g) (e_fresh q x)); [|reflexivity].
    rewrite IHp. destruct (apply_esubst g p y q); reflexivity.
  - rewrite rn_s_fresh. destruct (chk (g_esubst_mu_capture g) (s_fresh q X)); [|reflexivity].
    rewrite IHp. destruct (apply_esubst g p y q); reflexivity.
Qed.

Lemma rn_apply_ssubst : forall p x q,
  apply_ssubst g (rn f p) x (rn f q) = option_map (rn f) (apply_ssubst g p x q).
Proof.
  induction p; intros y q; cbn; try reflexivity.
  - destruct (N.eqb n y); reflexivity.
  - rewrite IHp1, IHp2. destruct (apply_ssubst g p1 y q), (apply_ssubst g p2 y q); reflexivity.
  - rewrite IHp1, IHp2. destruct (apply_ssubst g p1 y q), (apply_ssubst g p2 y q); reflexivity.
  - rewrite rn_e_fresh. destruct (chk (g_ssubst_exists_capture g) (e_fresh q x)); [|reflexivity].
    rewrite IHp. destruct (apply_ssubst g p y q); reflexivity.
  - destruct (N.eqb X y); [reflexivity|]. rewrite rn_s_fresh.
    destruct (chk (g_ssubst_mu_capture g) (s_fresh q X)); [|reflexivity].
    rewrite IHp. destruct (apply_ssubst g p y q); reflexivity.
Qed.

Lemma lookup_rn : forall id vars plugs,
  lookup id vars (map (rn f) plugs) = option_map (option_map (rn f)) (lookup id vars plugs).
Proof.
  induction vars as [|v vs IH]; intro plugs; cbn; [reflexivity|].
  destruct (N.eqb v id).
  - destruct plugs; reflexivity.
  - destruct plugs as [|q plugs]; cbn; [apply (IH [])| apply IH].
Qed.

Lemma forallb_rn : forall (h:pat -> N -> bool) l q,
  (forall p x, h (rn f p) x = h p x) -> forallb (h (rn f q)) l = forallb (h q) l.
Proof. intros h l q H. induction l as [|x l IH]; cbn; [reflexivity | rewrite H, IH; reflexivity]. Qed.

Lemma check_constraints_rn : forall ef sf ps ng q,
  check_constraints ef sf ps ng (rn f q) = check_constraints ef sf ps ng q.
Proof.
  intros. unfold check_constraints, pat_positive, pat_negative.
  rewrite (forallb_rn e_fresh), (forallb_rn s_fresh), (forallb_rn (polar true)), (forallb_rn (polar false));
    try reflexivity; intros; try apply rn_e_fresh; try apply rn_s_fresh; apply rn_polar.
Qed.

Lemma touches_rn : forall p vars, touches (rn f p) vars = touches p vars.
Proof.
  induction p; intro vars; cbn; try reflexivity;
    repeat match goal with IH : forall v, touches (rn f ?p) v = _ |- _ => rewrite IH; clear IH end; reflexivity.
Qed.

Lemma rn_inst : forall p vars plugs,
  inst g (rn f p) vars (map (rn f) plugs) = option_map (rn f) (inst g p vars plugs).
Proof.
  induction p; intros vars plugs; cbn; try reflexivity.
  - rewrite IHp1, IHp2. destruct (inst g p1 vars plugs), (inst g p2 vars plugs); reflexivity.
  - rewrite IHp1, IHp2. destruct (inst g p1 vars plugs), (inst g p2 vars plugs); reflexivity.
  - rewrite IHp. destruct (inst g p vars plugs); reflexivity.
  - rewrite IHp. destruct (inst g p vars plugs); reflexivity.
  - rewrite lookup_rn. destruct (lookup id vars plugs) as [[q|]|]; cbn; try reflexivity.
    rewrite check_constraints_rn. destruct (chk (g_inst_constraints g) (check_constraints ef sf pos neg q)); reflexivity.
  - rewrite !touches_rn. destruct (touches p1 vars || touches p2 vars); [|reflexivity].
    rewrite IHp1, IHp2. destruct (inst g p1 vars plugs), (inst g p2 vars plugs); cbn; try reflexivity.
    apply rn_apply_esubst.
  - rewrite !touches_rn. destruct (touches p1 vars || touches p2 vars); [|reflexivity].
    rewrite IHp1, IHp2. destruct (inst g p1 vars plugs), (inst g p2 vars plugs); cbn; try reflexivity.
    apply rn_apply_ssubst.
Qed.

End RnMachine.

Lemma py_inst_nil : forall p, py_inst p [] = p.
Proof. induction p; cbn; congruence. Qed.

(* ------------------------------------------------------------------------------------------ *)
(** * Stack bookkeeping *)

Lemma live_cons_false : forall t s, live ((t, false) :: s) = t :: live s.
Proof. reflexivity. Qed.
Lemma live_cons_true : forall t s, live ((t, true) :: s) = live s.
Proof. reflexivity. Qed.

Lemma no_residue_S : forall k t m s, no_residue (S k) ((t, m) :: s) = true -> m = false /\ no_residue k s = true.
Proof.
  intros k t m s H. unfold no_residue in *. cbn in H. apply andb_true_iff in H. destruct H as [H1 H2].
  destruct m; [discriminate|]. split; [reflexivity | exact H2].
Qed.

Lemma live_firstn_skipn : forall k s,
  no_residue k s = true -> live s = map fst (firstn k s) ++ live (skipn k s).
Proof.
  induction k as [|k IH]; intros s H; [reflexivity|].
  destruct s as [|[t m] s]; [reflexivity|].
  apply no_residue_S in H. destruct H as [-> H]. cbn [firstn skipn map fst app]. rewrite live_cons_false.
  f_equal. apply IH. exact H.
Qed.

(** the checker pops [n] plugs, one per id byte *)
Lemma take_ids_emit : forall f (vs:list pat) (ids:list N) (s:list sterm) rest (ms:list term),
  length ids = length vs ->
  plugs_match (firstn (length vs) s) vs = true -> no_residue (length vs) s = true ->
  take_ids true (length vs) (ids ++ rest) (map (rn_term f) (live s))
  = Some (ids, map (rn f) vs, rest, map (rn_term f) (live (skipn (length vs) s))).
Proof.
  intros f vs. induction vs as [|v vs IH]; intros ids s rest ms Hl Hp Hn.
  - destruct ids; [|discriminate]. reflexivity.
  - destruct ids as [|i ids]; [discriminate|]. destruct s as [|[t m] s]; [discriminate|].
    cbn [length] in *. apply no_residue_S in Hn. destruct Hn as [-> Hn].
    cbn [firstn plugs_match] in Hp. apply andb_true_iff in Hp. destruct Hp as [Ht Hp].
    apply term_eqb_eq in Ht. subst t.
    cbn [take_ids app]. rewrite live_cons_false. cbn [map rn_term pop_pat].
    rewrite (IH ids s rest ms) by (try lia; assumption). reflexivity.
Qed.

(* ------------------------------------------------------------------------------------------ *)
(** * One call = one checker instruction *)

Lemma wf_call_split : forall g tr c,
  wf_call g tr c = true -> no_residue (consumes c) (t_stack tr) = true.
Proof.
  intros g tr c H. unfold wf_call, wf_code in H.
  destruct (no_residue (consumes c) (t_stack tr)); [reflexivity | discriminate].
Qed.

Ltac wf_cond H :=
  unfold wf_call, wf_code in H;
  match type of H with context [negb (no_residue ?k ?s)] => destruct (no_residue k s); [cbn [negb] in H | discriminate H] end.

Section Sim.
Variable f : N -> N.
Let g := guards_sound.

Lemma R_push : forall tr st t,
  R f tr st -> R f (tpush t tr) (push (rn_term f t) st).
Proof.
  intros [ph s me cl jo] st t (Hs & Hm & Hc). unfold R, tpush, set_tstack, push, claims_view in *.
  cbn [t_stack t_memory t_claims t_journal t_phase stack memory claims] in *.
  rewrite live_cons_false. cbn [map]. rewrite Hs. repeat split; assumption.
Qed.

Lemma R_set_stack : forall ph s me cl jo st s' t,
  R f (mktr ph s me cl jo) st ->
  R f (mktr ph ((t, false) :: s') me cl jo)
      (set_stack (rn_term f t :: map (rn_term f) (live s')) st).
Proof.
  intros ph s me cl jo st s' t (Hs & Hm & Hc). unfold R, set_stack, claims_view in *.
  cbn [t_stack t_memory t_claims t_journal t_phase stack memory claims] in *.
  rewrite live_cons_false. cbn [map]. repeat split; assumption.
Qed.

Theorem sim_step : forall tbl tr st c tr' tbl' bs,
  R f tr st -> stateful_step tr c = Some tr' -> emit tbl tr c = Some (tbl', bs) ->
  is_switch c = false -> wf_call g tr c = true -> agrees f tbl' ->
  exists op ops, bs = op :: ops /\
    forall rest, exists st', step g (t_phase tr) op (ops ++ rest) st = Some (rest, st') /\ R f tr' st'.
Proof.
  intros tbl tr st c tr' tbl' bs HR Hs He Hsw Hwf Hf.
  unfold g in *.
  pose proof (wf_call_split _ _ _ Hwf) as Hnr.
  destruct c; cbn [emit] in He; cbn [stateful_step] in Hs; cbn [consumes] in Hnr; try discriminate.
  - (* evar *) emit_simple He. inv Hs. exists 2, [id]. split; [reflexivity|]. intro rest.
    eexists. split; [reflexivity|]. apply (R_push _ _ (TPat (EVar id))). exact HR.
  - emit_simple He. inv Hs. exists 3, [id]. split; [reflexivity|]. intro rest.
    eexists. split; [reflexivity|]. apply (R_push _ _ (TPat (SVar id))). exact HR.
  - (* symbol *)
    inv Hs. destruct (idx_of name tbl) as [i|] eqn:Ei.
    + emit_simple He. exists 4, [N.of_nat i]. split; [reflexivity|]. intro rest.
      eexists. split; [reflexivity|]. rewrite <- (Hf name i Ei). apply (R_push _ _ (TPat (Sym name))). exact HR.
    + emit_simple He. exists 4, [N.of_nat (length tbl)]. split; [reflexivity|]. intro rest.
      eexists. split; [reflexivity|].
      rewrite <- (Hf name (length tbl)); [apply (R_push _ _ (TPat (Sym name))); exact HR|].
      unfold idx_of in *. rewrite (idx_from_app_miss _ _ _ Ei). reflexivity.
  - (* metavar *)
    inv Hs. wf_cond Hwf.
    destruct (wf_true (well_formed (MVar id ef sf pos neg holes))) eqn:Ew; [|discriminate].
    unfold wf_true in Ew. destruct (well_formed (MVar id ef sf pos neg holes)) as [[|]|] eqn:Ew'; try discriminate.
    destruct (is_nil ef && is_nil sf && is_nil pos && is_nil neg && is_nil holes) eqn:En.
    + emit_simple He.
      repeat (apply andb_true_iff in En; destruct En as [En ?]).
      repeat match goal with H : is_nil _ = true |- _ => apply is_nil_true in H end. subst.
      exists 137, [id]. split; [reflexivity|]. intro rest.
      eexists. split; [reflexivity|]. apply (R_push _ _ (TPat (MVar id [] [] [] [] []))). exact HR.
    + emit_simple He. exists 9, (id :: vec ef ++ vec sf ++ vec pos ++ vec neg ++ vec holes).
      split; [reflexivity|]. intro rest.
      unfold step, decode_op, step_i; cbn [app]. rewrite <- !app_assoc. rewrite !read_vec_vec. rewrite Ew'.
      eexists. split; [reflexivity|]. apply (R_push _ _ (TPat (MVar id ef sf pos neg holes))). exact HR.
  - (* implies *)
    inv He. apply binary_inv in Hs as Hst. destruct Hst as (mr & ml & s & Hst).
    destruct tr as [ph stk me cl jo]. cbn in Hst. subst stk.
    apply no_residue_S in Hnr. destruct Hnr as [-> Hnr]. apply no_residue_S in Hnr. destruct Hnr as [-> _].
    unfold binary in Hs. cbn in Hs. rewrite !pat_eqb_refl in Hs. cbn in Hs. inv Hs.
    exists 5, []. split; [reflexivity|]. intro rest.
    destruct HR as (H1 & H2 & H3). cbn [t_stack t_memory] in H1, H2. rewrite !live_cons_false in H1. cbn [map rn_term] in H1.
    unfold step, decode_op, step_i; cbn [app t_phase]. rewrite <- H1. cbn [pop_pat].
    eexists. split; [reflexivity|].
    apply (R_set_stack ph ((TPat r, false) :: (TPat l, false) :: s) me cl jo st s (TPat (Imp l r))).
    repeat split; assumption.
  - (* app *)
    inv He. apply binary_inv in Hs as Hst. destruct Hst as (mr & ml & s & Hst).
    destruct tr as [ph stk me cl jo]. cbn in Hst. subst stk.
    apply no_residue_S in Hnr. destruct Hnr as [-> Hnr]. apply no_residue_S in Hnr. destruct Hnr as [-> _].
    unfold binary in Hs. cbn in Hs. rewrite !pat_eqb_refl in Hs. cbn in Hs. inv Hs.
    exists 6, []. split; [reflexivity|]. intro rest.
    destruct HR as (H1 & H2 & H3). cbn [t_stack t_memory] in H1, H2. rewrite !live_cons_false in H1. cbn [map rn_term] in H1.
    unfold step, decode_op, step_i; cbn [app t_phase]. rewrite <- H1. cbn [pop_pat].
    eexists. split; [reflexivity|].
    apply (R_set_stack ph ((TPat r, false) :: (TPat l, false) :: s) me cl jo st s (TPat (App l r))).
    repeat split; assumption.
  - (* exists *)
    emit_simple He. apply unary_inv in Hs as Hst. destruct Hst as (m & s & Hst).
    destruct tr as [ph stk me cl jo]. cbn in Hst. subst stk.
    apply no_residue_S in Hnr. destruct Hnr as [-> _].
    unfold unary in Hs. cbn in Hs. rewrite !pat_eqb_refl in Hs. inv Hs.
    exists 8, [x]. split; [reflexivity|]. intro rest.
    destruct HR as (H1 & H2 & H3). cbn [t_stack t_memory] in H1, H2. rewrite !live_cons_false in H1. cbn [map rn_term] in H1.
    unfold step, decode_op, step_i; cbn [app t_phase]. rewrite <- H1. cbn [pop_pat].
    eexists. split; [reflexivity|].
    apply (R_set_stack ph ((TPat p, false) :: s) me cl jo st s (TPat (Ex x p))).
    repeat split; assumption.
  - (* mu *)
    emit_simple He. apply unary_inv in Hs as Hst. destruct Hst as (m & s & Hst).
    destruct tr as [ph stk me cl jo]. cbn in Hst. subst stk.
    apply no_residue_S in Hnr. destruct Hnr as [-> _].
    unfold unary in Hs. cbn in Hs. rewrite !pat_eqb_refl in Hs. inv Hs.
    wf_cond Hwf. destruct (pat_positive p X) eqn:Epos; [|discriminate].
    exists 7, [X]. split; [reflexivity|]. intro rest.
    destruct HR as (H1 & H2 & H3). cbn [t_stack t_memory] in H1, H2. rewrite !live_cons_false in H1. cbn [map rn_term] in H1.
    unfold step, decode_op, step_i; cbn [app t_phase]. rewrite <- H1. cbn [pop_pat].
    unfold pat_positive in *. rewrite rn_polar, Epos.
    eexists. split; [reflexivity|].
    apply (R_set_stack ph ((TPat p, false) :: s) me cl jo st s (TPat (Mu X p))).
    repeat split; assumption.
  - (* esubst *)
    emit_simple He. destruct tr as [ph stk me cl jo]. cbn in Hs. cbn [t_stack] in Hnr.
    destruct stk as [|[ep mp] [|[eg mg] s]]; try discriminate.
    destruct (term_eqb ep (TPat p) && term_eqb eg (TPat plug)) eqn:E; [|discriminate].
    apply andb_true_iff in E. destruct E as [E1 E2]. apply term_eqb_eq in E1, E2. subst. inv Hs.
    apply no_residue_S in Hnr. destruct Hnr as [-> Hnr]. apply no_residue_S in Hnr. destruct Hnr as [-> _].
    wf_cond Hwf. destruct (wf_true (well_formed (ESub p x plug))) eqn:Ew; [|discriminate].
    unfold wf_true in Ew. destruct (well_formed (ESub p x plug)) as [[|]|] eqn:Ew'; try discriminate.
    exists 10, [x]. split; [reflexivity|]. intro rest.
    destruct HR as (H1 & H2 & H3). cbn [t_stack t_memory] in H1, H2. rewrite !live_cons_false in H1. cbn [map rn_term] in H1.
    unfold step, decode_op, step_i; cbn [app t_phase]. rewrite <- H1. cbn [pop_pat].
    change (ESub (rn f p) x (rn f plug)) with (rn f (ESub p x plug)). rewrite well_formed_rn, Ew'.
    cbn [g guards_sound g_evar_plugs_only chk].
    eexists. split; [reflexivity|].
    apply (R_set_stack ph ((TPat p, false) :: (TPat plug, false) :: s) me cl jo st s (TPat (ESub p x plug))).
    repeat split; assumption.
  - (* ssubst *)
    emit_simple He. destruct tr as [ph stk me cl jo]. cbn in Hs. cbn [t_stack] in Hnr.
    destruct stk as [|[ep mp] [|[eg mg] s]]; try discriminate.
    destruct (term_eqb ep (TPat p) && term_eqb eg (TPat plug)) eqn:E; [|discriminate].
    apply andb_true_iff in E. destruct E as [E1 E2]. apply term_eqb_eq in E1, E2. subst. inv Hs.
    apply no_residue_S in Hnr. destruct Hnr as [-> Hnr]. apply no_residue_S in Hnr. destruct Hnr as [-> _].
    wf_cond Hwf. destruct (wf_true (well_formed (SSub p X plug))) eqn:Ew; [|discriminate].
    unfold wf_true in Ew. destruct (well_formed (SSub p X plug)) as [[|]|] eqn:Ew'; try discriminate.
    exists 11, [X]. split; [reflexivity|]. intro rest.
    destruct HR as (H1 & H2 & H3). cbn [t_stack t_memory] in H1, H2. rewrite !live_cons_false in H1. cbn [map rn_term] in H1.
    unfold step, decode_op, step_i; cbn [app t_phase]. rewrite <- H1. cbn [pop_pat].
    change (SSub (rn f p) X (rn f plug)) with (rn f (SSub p X plug)). rewrite well_formed_rn, Ew'.
    eexists. split; [reflexivity|].
    apply (R_set_stack ph ((TPat p, false) :: (TPat plug, false) :: s) me cl jo st s (TPat (SSub p X plug))).
    repeat split; assumption.
  - inv He. inv Hs. exists 12, []. split; [reflexivity|]. intro rest.
    eexists. split; [reflexivity|]. apply (R_push _ _ (TProved ax_prop1)). exact HR.
  - inv He. inv Hs. exists 13, []. split; [reflexivity|]. intro rest.
    eexists. split; [reflexivity|]. apply (R_push _ _ (TProved ax_prop2)). exact HR.
  - inv He. inv Hs. exists 14, []. split; [reflexivity|]. intro rest.
    eexists. split; [reflexivity|]. apply (R_push _ _ (TProved ax_prop3)). exact HR.
  - inv He. inv Hs. exists 15, []. split; [reflexivity|]. intro rest.
    eexists. split; [reflexivity|]. apply (R_push _ _ (TProved ax_quantifier)). exact HR.
  - (* modus ponens *)
    inv He. destruct tr as [ph stk me cl jo]. cbn in Hs. cbn [t_stack] in Hnr.
    destruct stk as [|[er mr] [|[el ml] s]]; try discriminate.
    destruct (term_eqb el (TProved l) && term_eqb er (TProved r)) eqn:E; [|discriminate].
    apply andb_true_iff in E. destruct E as [E1 E2]. apply term_eqb_eq in E1, E2. subst.
    destruct (extract_imp l) as [[a b]|] eqn:Ex; [|discriminate].
    destruct (pat_eqb a r) eqn:Ea; [|discriminate]. inv Hs.
    destruct l; cbn in Ex; try discriminate. inv Ex. apply pat_eqb_eq in Ea. subst a.
    apply no_residue_S in Hnr. destruct Hnr as [-> Hnr]. apply no_residue_S in Hnr. destruct Hnr as [-> _].
    exists 21, []. split; [reflexivity|]. intro rest.
    destruct HR as (H1 & H2 & H3). cbn [t_stack t_memory] in H1, H2. rewrite !live_cons_false in H1. cbn [map rn_term] in H1.
    unfold step, decode_op, step_i; cbn [app t_phase]. rewrite <- H1. cbn [pop_proved rn]. rewrite pat_eqb_refl.
    cbn [g guards_sound g_mp_antecedent chk].
    eexists. split; [reflexivity|].
    apply (R_set_stack ph ((TProved r, false) :: (TProved (Imp r b), false) :: s) me cl jo st s (TProved b)).
    repeat split; assumption.
  - (* generalization *)
    emit_simple He. destruct tr as [ph stk me cl jo]. cbn in Hs. cbn [t_stack] in Hnr.
    destruct stk as [|[e m] s]; try discriminate.
    destruct (term_eqb e (TProved p)) eqn:E; [|discriminate]. apply term_eqb_eq in E. subst.
    destruct (extract_imp p) as [[a b]|] eqn:Ex; [|discriminate].
    unfold py_fresh in Hs. destruct (e_fresh b x) eqn:Ef; [|discriminate]. inv Hs.
    destruct p; cbn in Ex; try discriminate. inv Ex.
    apply no_residue_S in Hnr. destruct Hnr as [-> _].
    exists 22, [x]. split; [reflexivity|]. intro rest.
    destruct HR as (H1 & H2 & H3). cbn [t_stack t_memory] in H1, H2. rewrite !live_cons_false in H1. cbn [map rn_term] in H1.
    unfold step, decode_op, step_i; cbn [app t_phase]. rewrite <- H1. cbn [pop_proved rn]. rewrite rn_e_fresh, Ef.
    cbn [g guards_sound g_gen_fresh chk].
    eexists. split; [reflexivity|].
    apply (R_set_stack ph ((TProved (Imp a b), false) :: s) me cl jo st s (TProved (Imp (Ex x a) b))).
    repeat split; assumption.
  - (* instantiate (proved) *)
    emit_simple He. apply do_instantiate_inv in Hs as Hinv. destruct Hinv as (Hn & m & s & Hst & Hp).
    destruct tr as [ph stk me cl jo]. cbn in Hst. subst stk.
    cbn [t_stack] in Hnr. apply no_residue_S in Hnr. destruct Hnr as [Hm Hnr]. subst m.
    wf_cond Hwf.
    destruct (inst guards_sound p (rev (map fst d)) (rev (map snd d))) as [q|] eqn:Ei; [|discriminate].
    destruct (pat_eqb q (py_inst p d)) eqn:Eq; [|discriminate]. apply pat_eqb_eq in Eq. subst q.
    exists 26, (N.of_nat (length d) :: rev (map fst d)). split; [reflexivity|]. intro rest.
    destruct HR as (H1 & H2 & H3). cbn [t_stack t_memory] in H1, H2. rewrite !live_cons_false in H1. cbn [map rn_term] in H1.
    unfold step, decode_op, step_i; cbn [app t_phase]. rewrite <- H1. rewrite Nat2N.id.
    cbn [g guards_sound g_instantiate_arity].
    replace (length d) with (length (rev (map snd d))) by (rewrite rev_length, map_length; reflexivity).
    rewrite (take_ids_emit f (rev (map snd d)) (rev (map fst d)) s rest [])
      by (rewrite ?rev_length, ?map_length; try reflexivity; assumption).
    rewrite rn_inst, Ei. cbn [option_map].
    eexists. split; [reflexivity|].
    (* the tracker side *)
    unfold do_instantiate in Hs. rewrite Hn in Hs. cbn in Hs. rewrite pat_eqb_refl in Hs.
    rewrite rev_length, map_length.
    destruct d as [|kv d'].
    + inv Hs. unfold R, set_tstack, set_stack, claims_view. cbn. rewrite py_inst_nil.
      repeat split; assumption.
    + cbv iota in Hs.
      match type of Hs with (if ?c then _ else _) = _ => replace c with true in Hs by (symmetry; exact Hp) end.
      inv Hs.
      unfold R, set_tstack, set_stack, claims_view. cbn. repeat split; assumption.
  - (* instantiate_pattern *)
    emit_simple He. apply do_instantiate_inv in Hs as Hinv. destruct Hinv as (Hn & m & s & Hst & Hp).
    destruct tr as [ph stk me cl jo]. cbn in Hst. subst stk.
    cbn [t_stack] in Hnr. apply no_residue_S in Hnr. destruct Hnr as [Hm Hnr]. subst m.
    wf_cond Hwf.
    destruct (inst guards_sound p (rev (map fst d)) (rev (map snd d))) as [q|] eqn:Ei; [|discriminate].
    destruct (pat_eqb q (py_inst p d)) eqn:Eq; [|discriminate]. apply pat_eqb_eq in Eq. subst q.
    exists 26, (N.of_nat (length d) :: rev (map fst d)). split; [reflexivity|]. intro rest.
    destruct HR as (H1 & H2 & H3). cbn [t_stack t_memory] in H1, H2. rewrite !live_cons_false in H1. cbn [map rn_term] in H1.
    unfold step, decode_op, step_i; cbn [app t_phase]. rewrite <- H1. rewrite Nat2N.id.
    cbn [g guards_sound g_instantiate_arity].
    replace (length d) with (length (rev (map snd d))) by (rewrite rev_length, map_length; reflexivity).
    rewrite (take_ids_emit f (rev (map snd d)) (rev (map fst d)) s rest [])
      by (rewrite ?rev_length, ?map_length; try reflexivity; assumption).
    rewrite rn_inst, Ei. cbn [option_map].
    eexists. split; [reflexivity|].
    unfold do_instantiate in Hs. rewrite Hn in Hs. cbn in Hs. rewrite pat_eqb_refl in Hs.
    rewrite rev_length, map_length.
    destruct d as [|kv d'].
    + inv Hs. unfold R, set_tstack, set_stack, claims_view. cbn. rewrite py_inst_nil.
      repeat split; assumption.
    + cbv iota in Hs.
      match type of Hs with (if ?c then _ else _) = _ => replace c with true in Hs by (symmetry; exact Hp) end.
      inv Hs.
      unfold R, set_tstack, set_stack, claims_view. cbn. repeat split; assumption.
  - (* pop *)
    inv He. destruct tr as [ph stk me cl jo]. cbn in Hs. cbn [t_stack] in Hnr.
    destruct stk as [|[e m] s]; try discriminate.
    destruct (term_eqb e t) eqn:E; [|discriminate]. apply term_eqb_eq in E. subst. inv Hs.
    apply no_residue_S in Hnr. destruct Hnr as [-> _].
    exists 27, []. split; [reflexivity|]. intro rest.
    destruct HR as (H1 & H2 & H3). cbn [t_stack t_memory] in H1, H2. rewrite !live_cons_false in H1. cbn [map rn_term] in H1.
    unfold step, decode_op, step_i; cbn [app t_phase]. rewrite <- H1.
    eexists. split; [reflexivity|]. unfold R, set_tstack, set_stack, claims_view. cbn. repeat split; assumption.
  - (* save *)
    inv He. destruct (top_is t (t_stack tr)) eqn:E; [|discriminate]. inv Hs.
    apply top_is_inv in E. destruct E as (m & s & Hst).
    destruct tr as [ph stk me cl jo]. cbn in Hst. subst stk. cbn [t_stack] in Hnr.
    apply no_residue_S in Hnr. destruct Hnr as [-> _].
    exists 28, []. split; [reflexivity|]. intro rest.
    destruct HR as (H1 & H2 & H3). cbn [t_stack t_memory] in H1, H2. rewrite !live_cons_false in H1. cbn [map rn_term] in H1.
    unfold step, decode_op, step_i; cbn [app t_phase]. rewrite <- H1.
    eexists. split; [reflexivity|]. unfold R, claims_view.
    cbn [t_stack t_memory t_claims t_journal t_phase stack memory claims].
    rewrite live_cons_false, map_app. cbn [map]. rewrite H2. repeat split; try assumption.
  - (* load *)
    destruct (index_of t (t_memory tr)) as [i|] eqn:Ei; [|discriminate].
    emit_simple He. destruct (existsb (term_eqb t) (t_memory tr)); [|discriminate]. inv Hs.
    exists 29, [N.of_nat i]. split; [reflexivity|]. intro rest.
    pose proof HR as (H1 & H2 & H3).
    unfold step, decode_op, step_i; cbn [app]. rewrite Nat2N.id. rewrite <- H2.
    rewrite (map_nth_error (rn_term f) _ _ (index_of_nth _ _ _ Ei)).
    eexists. split; [reflexivity|]. apply R_push. exact HR.
  - (* publish proof *)
    inv He. destruct tr as [ph stk me cl jo]. cbn in Hs. cbn [t_stack] in Hnr.
    destruct ph; try discriminate. destruct cl as [|c cs]; [discriminate|].
    destruct (pat_eqb p c && top_is (TProved p) stk) eqn:E; [|discriminate]. inv Hs.
    apply andb_true_iff in E. destruct E as [E1 E2]. apply pat_eqb_eq in E1. subst c.
    apply top_is_inv in E2. destruct E2 as (m & s & ->).
    apply no_residue_S in Hnr. destruct Hnr as [-> _].
    exists 30, []. split; [reflexivity|]. intro rest.
    destruct HR as (H1 & H2 & H3). cbn [t_stack t_memory] in H1, H2. rewrite !live_cons_false in H1. cbn [map rn_term] in H1.
    unfold claims_view in H3. cbn in H3.
    unfold step, decode_op, step_i; cbn [app t_phase]. rewrite <- H3, <- H1. cbn [pop_proved]. rewrite pat_eqb_refl.
    cbn [g guards_sound g_publish_claim_eq chk].
    eexists. split; [reflexivity|]. unfold R, claims_view. cbn.
    repeat split; try assumption; reflexivity.
  - (* publish axiom *)
    inv He. destruct tr as [ph stk me cl jo]. cbn in Hs. cbn [t_stack] in Hnr.
    destruct ph; try discriminate.
    destruct (top_is (TPat p) stk) eqn:E; [|discriminate]. inv Hs.
    apply top_is_inv in E. destruct E as (m & s & ->).
    apply no_residue_S in Hnr. destruct Hnr as [-> _].
    exists 30, []. split; [reflexivity|]. intro rest.
    destruct HR as (H1 & H2 & H3). cbn [t_stack t_memory] in H1, H2. rewrite !live_cons_false in H1. cbn [map rn_term] in H1.
    unfold step, decode_op, step_i; cbn [app t_phase]. rewrite <- H1. cbn [pop_pat].
    eexists. split; [reflexivity|]. unfold R, claims_view. cbn. rewrite map_app. cbn.
    rewrite H2. repeat split; try assumption; reflexivity.
  - (* publish claim *)
    inv He. destruct tr as [ph stk me cl jo]. cbn in Hs. cbn [t_stack] in Hnr.
    destruct ph; try discriminate.
    destruct (top_is (TPat p) stk) eqn:E; [|discriminate]. inv Hs.
    apply top_is_inv in E. destruct E as (m & s & ->).
    apply no_residue_S in Hnr. destruct Hnr as [-> _].
    exists 30, []. split; [reflexivity|]. intro rest.
    destruct HR as (H1 & H2 & H3). cbn [t_stack t_memory] in H1, H2. rewrite !live_cons_false in H1. cbn [map rn_term] in H1.
    unfold claims_view in H3. cbn in H3.
    unfold step, decode_op, step_i; cbn [app t_phase]. rewrite <- H1. cbn [pop_pat].
    eexists. split; [reflexivity|]. unfold R, claims_view. cbn.
    rewrite H3. repeat split; try assumption; reflexivity.
Qed.

End Sim.

(* ------------------------------------------------------------------------------------------ *)
(** * Runs *)

Definition g0 := guards_sound.

(** every call of the run is inside the boundary *)
Fixpoint wf_run (tr:tracker) (cs:list call) : Prop :=
  match cs with
  | [] => True
  | c :: cs' => wf_call g0 tr c = true /\
                match stateful_step tr c with Some tr' => wf_run tr' cs' | None => True end
  end.

Lemma set_tstack_phase : forall s tr, t_phase (set_tstack s tr) = t_phase tr.
Proof. reflexivity. Qed.

Lemma stateful_step_phase : forall tr c tr',
  is_switch c = false -> stateful_step tr c = Some tr' -> t_phase tr' = t_phase tr.
Proof.
  intros tr c tr' Hsw H. destruct c; cbn [stateful_step is_switch] in *; try discriminate;
    try (inv H; reflexivity).
  - unfold binary in H. destruct (t_stack tr) as [|[? ?] [|[? ?] ?]]; try discriminate.
    destruct (_ && _); inv H. reflexivity.
  - unfold binary in H. destruct (t_stack tr) as [|[? ?] [|[? ?] ?]]; try discriminate.
    destruct (_ && _); inv H. reflexivity.
  - unfold unary in H. destruct (t_stack tr) as [|[? ?] ?]; try discriminate.
    destruct (term_eqb _ _); inv H. reflexivity.
  - unfold unary in H. destruct (t_stack tr) as [|[? ?] ?]; try discriminate.
    destruct (term_eqb _ _); inv H. reflexivity.
  - destruct (t_stack tr) as [|[? ?] [|[? ?] ?]]; try discriminate. destruct (_ && _); inv H. reflexivity.
  - destruct (t_stack tr) as [|[? ?] [|[? ?] ?]]; try discriminate. destruct (_ && _); inv H. reflexivity.
  - destruct (t_stack tr) as [|[? ?] [|[? ?] ?]]; try discriminate. destruct (_ && _); try discriminate.
    destruct (extract_imp l) as [[? ?]|]; try discriminate. destruct (pat_eqb _ _); inv H. reflexivity.
  - destruct (t_stack tr) as [|[? ?] ?]; try discriminate. destruct (term_eqb _ _); try discriminate.
    destruct (extract_imp p) as [[? ?]|]; try discriminate. destruct (py_fresh _ _); inv H. reflexivity.
  - unfold do_instantiate in H. destruct (negb _); try discriminate.
    destruct (t_stack tr) as [|[? ?] ?]; try discriminate. destruct (term_eqb _ _); try discriminate.
    destruct d; [destruct l; inv H; reflexivity|]. destruct (plugs_match _ _); inv H. reflexivity.
  - unfold do_instantiate in H. destruct (negb _); try discriminate.
    destruct (t_stack tr) as [|[? ?] ?]; try discriminate. destruct (term_eqb _ _); try discriminate.
    destruct d; [inv H; reflexivity|]. destruct (plugs_match _ _); inv H. reflexivity.
  - destruct (t_stack tr) as [|[? ?] ?]; try discriminate. destruct (term_eqb _ _); inv H. reflexivity.
  - destruct (top_is _ _); inv H. reflexivity.
  - destruct (existsb _ _); inv H. reflexivity.
  - destruct (t_phase tr) eqn:E; try discriminate. destruct (t_claims tr); try discriminate.
    destruct (_ && _); inv H. reflexivity.
  - destruct (t_phase tr) eqn:E; try discriminate. destruct (top_is _ _); inv H. reflexivity.
  - destruct (t_phase tr) eqn:E; try discriminate. destruct (top_is _ _); inv H. reflexivity.
Qed.

Lemma sim_run_app : forall f cs tbl tr st tblF trF bs,
  R f tr st -> ser_run tbl tr cs = Some (tblF, trF, bs) -> wf_run tr cs -> agrees f tblF ->
  forall more n, (length bs + length more <= n)%nat ->
  exists st' n', (length more <= n')%nat /\
    exec_fuel g0 n (t_phase tr) (bs ++ more) st = exec_fuel g0 n' (t_phase tr) more st' /\
    R f trF st' /\ t_phase trF = t_phase tr.
Proof.
  induction cs as [|c cs IH]; intros tbl tr st tblF trF bs HR H Hwf Hf more n Hn; cbn in H.
  - inv H. exists st, n. cbn in Hn. split; [lia|]. split; [reflexivity|]. split; [assumption | reflexivity].
  - destruct (is_switch c) eqn:Esw; [discriminate|].
    destruct (ser_step tbl tr c) as [[[t1 tr1] b1]|] eqn:E1; [|discriminate].
    destruct (ser_run t1 tr1 cs) as [[[t2 tr2] b2]|] eqn:E2; [|discriminate]. inv H.
    pose proof (ser_run_extends _ _ _ _ _ _ E2) as [m2 Hm2]. subst tblF.
    unfold ser_step in E1.
    destruct (stateful_step tr c) as [tr1'|] eqn:Es; [|discriminate].
    destruct (emit tbl tr c) as [[t1' b1']|] eqn:Ee; [|discriminate]. inv E1.
    cbn [wf_run] in Hwf. rewrite Es in Hwf. destruct Hwf as [Hwc Hwr].
    destruct (sim_step f tbl tr st c tr1 t1 b1 HR Es Ee Esw Hwc (agrees_prefix _ _ _ Hf))
      as (op & ops & -> & Hstep).
    destruct (Hstep (b2 ++ more)) as (st1 & Hst1 & HR1).
    rewrite app_length in Hn. cbn [length] in Hn.
    destruct n as [|n]; [lia|].
    pose proof (stateful_step_phase _ _ _ Esw Es) as Hph.
    destruct (IH t1 tr1 st1 _ trF b2 HR1 E2 Hwr Hf more n ltac:(lia)) as (st' & n' & Hn' & Hrun & HRF & HphF).
    exists st', n'. split; [exact Hn'|]. split; [|split; [exact HRF | eapply eq_trans; eassumption]].
    rewrite <- app_assoc. cbn [app exec_fuel]. unfold g0 in *. rewrite Hst1. rewrite <- Hph. exact Hrun.
Qed.

(** one phase: the machine runs the bytes of the run without error and ends in a related state *)
Theorem sim_run : forall f cs tbl tr st tblF trF bs,
  R f tr st -> ser_run tbl tr cs = Some (tblF, trF, bs) -> wf_run tr cs -> agrees f tblF ->
  exists st', exec g0 (t_phase tr) bs st = Some st' /\ R f trF st' /\ t_phase trF = t_phase tr.
Proof.
  intros f cs tbl tr st tblF trF bs HR H Hwf Hf.
  destruct (sim_run_app f cs tbl tr st tblF trF bs HR H Hwf Hf [] (length bs)) as (st' & n' & _ & Hrun & HRF & Hph);
    [cbn; lia|].
  exists st'. rewrite app_nil_r in Hrun. unfold exec. rewrite Hrun. split; [destruct n'; reflexivity|]. split; assumption.
Qed.

(** the single-call form of the statement *)
Theorem sim : forall f tbl tr st c tr' tbl' bs,
  R f tr st -> stateful_step tr c = Some tr' -> emit tbl tr c = Some (tbl', bs) ->
  is_switch c = false -> wf_call g0 tr c = true -> agrees f tbl' ->
  exists st', exec g0 (t_phase tr) bs st = Some st' /\ R f tr' st'.
Proof.
  intros f tbl tr st c tr' tbl' bs HR Hs He Hsw Hwf Hf.
  destruct (sim_step f tbl tr st c tr' tbl' bs HR Hs He Hsw Hwf Hf) as (op & ops & -> & Hstep).
  destruct (Hstep []) as (st' & Hst & HR'). exists st'. split; [|exact HR'].
  unfold exec, g0. cbn [length exec_fuel]. rewrite app_nil_r in Hst. rewrite Hst. destruct (length ops); reflexivity.
Qed.

Lemma sim_into_claim : forall f tr st tr',
  R f tr st -> stateful_step tr CIntoClaim = Some tr' ->
  R f tr' (set_stack [] st) /\ t_phase tr = Gamma /\ t_phase tr' = Claim.
Proof.
  intros f [ph s me cl jo] st tr' (H1 & H2 & H3) H. cbn in H. destruct ph; try discriminate. inv H.
  unfold R, claims_view in *. cbn in *. repeat split; assumption.
Qed.

Lemma sim_into_proof : forall f tr st tr',
  R f tr st -> stateful_step tr CIntoProof = Some tr' -> wf_call g0 tr CIntoProof = true ->
  R f tr' (set_stack [] st) /\ t_phase tr = Claim /\ t_phase tr' = Proof.
Proof.
  intros f [ph s me cl jo] st tr' (H1 & H2 & H3) H Hwf. cbn in H. destruct ph; try discriminate. inv H.
  unfold wf_call, wf_code in Hwf. cbn in Hwf.
  destruct (pats_eqb jo cl) eqn:E; [|discriminate]. apply pats_eqb_eq in E. subst jo.
  unfold R, claims_view in *. cbn in *. repeat split; assumption.
Qed.

Lemma R_fresh : forall f cl, R f (fresh_tracker Gamma cl) st0.
Proof. intros. unfold R, claims_view. cbn. repeat split. Qed.

(** a whole generation: the three files run on the checker in sequence (stack cleared in between,
    as [verify] does) without error, and after each phase the states are related *)
Theorem simulation_module : forall cl gcs ccs pcs t1 tr1 gb tr1' t2 tr2 cb tr2' t3 tr3 pb,
  ser_run [] (fresh_tracker Gamma cl) gcs = Some (t1, tr1, gb) -> wf_run (fresh_tracker Gamma cl) gcs ->
  stateful_step tr1 CIntoClaim = Some tr1' ->
  ser_run t1 tr1' ccs = Some (t2, tr2, cb) -> wf_run tr1' ccs ->
  stateful_step tr2 CIntoProof = Some tr2' -> wf_call g0 tr2 CIntoProof = true ->
  ser_run t2 tr2' pcs = Some (t3, tr3, pb) -> wf_run tr2' pcs ->
  let f := numbering t3 in
  exists s1 s2 s3,
    exec g0 Gamma gb st0 = Some s1 /\ R f tr1 s1 /\
    exec g0 Claim cb (set_stack [] s1) = Some s2 /\ R f tr2 s2 /\
    exec g0 Proof pb (set_stack [] s2) = Some s3 /\ R f tr3 s3.
Proof.
  intros cl gcs ccs pcs t1 tr1 gb tr1' t2 tr2 cb tr2' t3 tr3 pb H1 W1 S1 H2 W2 S2 WS2 H3 W3 f.
  pose proof (ser_run_extends _ _ _ _ _ _ H2) as [m2 E2].
  pose proof (ser_run_extends _ _ _ _ _ _ H3) as [m3 E3].
  assert (F3 : agrees f t3) by apply numbering_agrees.
  assert (F2 : agrees f t2) by (subst t3; eapply agrees_prefix; exact F3).
  assert (F1 : agrees f t1) by (subst t2; eapply agrees_prefix; exact F2).
  destruct (sim_run f gcs [] _ st0 t1 tr1 gb (R_fresh f cl) H1 W1 F1) as (s1 & X1 & R1 & P1).
  destruct (sim_into_claim f tr1 s1 tr1' R1 S1) as (R1' & _ & Pc).
  destruct (sim_run f ccs t1 tr1' _ t2 tr2 cb R1' H2 W2 F2) as (s2 & X2 & R2 & P2).
  destruct (sim_into_proof f tr2 s2 tr2' R2 S2 WS2) as (R2' & _ & Pp).
  destruct (sim_run f pcs t2 tr2' _ t3 tr3 pb R2' H3 W3 F3) as (s3 & X3 & R3 & P3).
  exists s1, s2, s3. cbn in X1. rewrite Pc in X2. rewrite Pp in X3.
  split; [exact X1|]. split; [exact R1|]. split; [exact X2|]. split; [exact R2|]. split; [exact X3 | exact R3].
Qed.

(** every Load the serialiser emits addresses the FIRST memory slot that holds the intended term,
    on the generator side and (under R) on the checker side *)
Theorem load_index_correct : forall f tbl tr st t tr' tbl' bs,
  R f tr st -> stateful_step tr (CLoad t) = Some tr' -> emit tbl tr (CLoad t) = Some (tbl', bs) ->
  exists i, bs = [29; N.of_nat i] /\
    nth_error (t_memory tr) i = Some t /\
    nth_error (memory st) i = Some (rn_term f t) /\
    (forall j u, (j < i)%nat -> nth_error (t_memory tr) j = Some u -> u <> t).
Proof.
  intros f tbl tr st t tr' tbl' bs (H1 & H2 & H3) Hs He. cbn in He.
  destruct (index_of t (t_memory tr)) as [i|] eqn:Ei; [|discriminate].
  emit_simple He. exists i. split; [reflexivity|].
  pose proof (index_of_nth _ _ _ Ei) as Hn. split; [exact Hn|]. split.
  - rewrite <- H2. apply map_nth_error. exact Hn.
  - intros j u Hj Hu. unfold index_of in Ei.
    assert (G : forall m k, index_from k t m = Some i ->
                forall j u, (j + k < i)%nat -> nth_error m j = Some u -> u <> t).
    { induction m as [|v m IH]; intros k Ek j0 u0 Hj0 Hu0; [destruct j0; discriminate|].
      cbn in Ek. destruct (term_eqb v t) eqn:E.
      - inv Ek. lia.
      - destruct j0 as [|j0]; cbn in Hu0.
        + inv Hu0. intro X. subst. rewrite term_eqb_refl in E. discriminate.
        + apply (IH (S k) Ek j0 u0); [lia | exact Hu0]. }
    apply (G (t_memory tr) 0%nat Ei j u); [lia | exact Hu].
Qed.

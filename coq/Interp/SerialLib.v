(** Hand-written meaning of the Python primitives that the translator translators/py_serial.py maps
    the statements of serializing_interpreter.py and deserialize.py onto (definitions only).
    The GENERATED file Gen/PySerial.v is built from these and from nothing else of the model. *)
From Coq Require Import NArith List Bool String.
From Pi2 Require Import ML.Syntax ML.Subst ML.Machine Interp.Calls.
Import ListNotations.
Open Scope N_scope.

(** [Instruction.X]: the value of the enumerator in the table the translator reads from instruction.py *)
Definition op_lookup (tbl:list (N * string)) (name:string) : N :=
  match find (fun e => String.eqb (snd e) name) tbl with Some (b, _) => b | None => 0 end.
(** [Instruction(byte)] succeeds *)
Definition op_known (tbl:list (N * string)) (b:N) : bool := existsb (fun e => N.eqb (fst e) b) tbl.

(** a Python [dict[str, int]], insertion ordered *)
Definition pydict := list (N * N).
Definition dict_has (k:N) (d:pydict) : bool := existsb (fun e => N.eqb (fst e) k) d.
Fixpoint dict_get (k:N) (d:pydict) : option N :=
  match d with [] => None | (k', v) :: r => if N.eqb k' k then Some v else dict_get k r end.
Definition dict_len (d:pydict) : N := N.of_nat (Datatypes.length d).
Fixpoint dict_put (k v:N) (d:pydict) : pydict :=
  match d with
  | [] => [(k, v)]
  | (k', v') :: r => if N.eqb k' k then (k', v) :: r else (k', v') :: dict_put k v r
  end.
(** the dict that the model's table (names in first-occurrence order) stands for *)
Definition dict_of (tbl:symtab) : pydict := combine tbl (map N.of_nat (seq 0 (Datatypes.length tbl))).
Definition dict_names (d:pydict) : symtab := map fst d.

(** [len(x)] on tuples / lists / dicts of the model *)
Definition py_len {A} (l:list A) : N := N.of_nat (Datatypes.length l).
(** [sum([...])] *)
Definition py_sum (l:list N) : N := fold_right N.add 0 l.
(** [var.name] of an EVar / SVar object and [EVar(id)] / [SVar(id)]: variables are their ids in the model *)
Definition var_name (v:N) : N := v.
Definition var_mk (v:N) : N := v.
(** [list.index(x)] *)
Definition py_index (t:term) (m:list term) : option N :=
  match index_of t m with Some i => Some (N.of_nat i) | None => None end.

(** the state of a serialiser method: the symbol dict and the bytes written to [self.out] so far *)
Definition W := pydict -> list N -> option (pydict * list N).
(** [self.out.write(bytes(l))] *)
Definition w_write (l:list N) (k:W) : W :=
  fun d out => match bytes l with Some b => k d (out ++ b) | None => None end.
Definition w_done : W := fun d out => Some (d, out).
(** [for x in l: body] *)
Fixpoint w_for {A} (l:list A) (body:A -> W -> W) (k:W) : W :=
  match l with
  | [] => k
  | x :: r => body x (w_for r body k)
  end.

(** deserialiser side *)
(** [interpreter.stack[-(k+1)]] *)
Definition stack_at (k:nat) (tr:tracker) : option term := peek k tr.
(** [reversed(interpreter.stack[-(n + 1) : -1])]: the (at most n) entries below the top, top first *)
Definition stack_below_top (n:N) (tr:tracker) : list term :=
  firstn (N.to_nat n) (tl (map fst (t_stack tr))).
(** [map(assert_is_pattern, l)] *)
Fixpoint all_pats (l:list term) : option (list pat) :=
  match l with
  | [] => Some []
  | TPat p :: r => match all_pats r with Some v => Some (p :: v) | None => None end
  | TProved _ :: _ => None
  end.
(** [zip(a, b, strict=True)] *)
Fixpoint zip_strict {A B} (a:list A) (b:list B) : option (list (A * B)) :=
  match a, b with
  | [], [] => Some []
  | x :: a', y :: b' => match zip_strict a' b' with Some z => Some ((x, y) :: z) | None => None end
  | _, _ => None
  end.
(** [interpreter.memory[i]] *)
Definition mem_at (i:N) (tr:tracker) : option term := nth_error (t_memory tr) (N.to_nat i).

(** statements on the symbol dict *)
Definition w_dict (f:pydict -> pydict) (k:W) : W := fun d out => k (f d) out.
Definition w_cond (c:pydict -> bool) (a b:W -> W) (k:W) : W := fun d out => if c d then a k d out else b k d out.
(** [x = self._symbol_identifiers[key]] (KeyError = failure) *)
Definition w_get (key:N) (k:N -> W) : W :=
  fun d out => match dict_get key d with Some v => k v d out | None => None end.
(** a sub-expression that may raise (list.index) *)
Definition w_opt {A} (o:option A) (k:A -> W) : W :=
  fun d out => match o with Some v => k v d out | None => None end.
Definition w_skip (k:W) : W := k.

(** Basic facts about the interpreter models: decidable equalities, renaming homomorphisms. *)
From Coq Require Import NArith List Bool Lia.
From Pi2 Require Import ML.Syntax ML.Subst ML.Machine Interp.Calls.
Import ListNotations.
Open Scope N_scope.

(* ------------------------------------------------------------------------------------------ *)
(** * Equalities *)

Lemma list_eqb_eq : forall a b, list_eqb a b = true <-> a = b.
Proof.
  induction a as [|x a IH]; destruct b as [|y b]; cbn; split; intro H; try congruence; try discriminate.
  - apply andb_true_iff in H. destruct H as [H1 H2]. apply N.eqb_eq in H1. apply IH in H2. congruence.
  - inversion H; subst. rewrite N.eqb_refl. cbn. apply IH. reflexivity.
Qed.

Lemma pat_eqb_eq : forall a b, pat_eqb a b = true <-> a = b.
Proof.
  induction a; destruct b; cbn; split; intro H; try discriminate; try congruence;
    repeat match goal with
           | H : _ && _ = true |- _ => apply andb_true_iff in H; destruct H
           | H : N.eqb _ _ = true |- _ => apply N.eqb_eq in H
           | H : list_eqb _ _ = true |- _ => apply list_eqb_eq in H
           | IH : forall b, pat_eqb ?a b = true <-> ?a = b, H : pat_eqb ?a _ = true |- _ => apply IH in H
           end; subst; try reflexivity;
    try (inversion H; subst;
         repeat (apply andb_true_iff; split);
         try apply N.eqb_refl; try (apply list_eqb_eq; reflexivity);
         match goal with IH : forall b, pat_eqb ?a b = true <-> ?a = b |- pat_eqb ?a ?a = true => apply IH; reflexivity end).
Qed.

Lemma pat_eqb_refl : forall a, pat_eqb a a = true.
Proof. intro a. apply pat_eqb_eq. reflexivity. Qed.

Lemma term_eqb_eq : forall a b, term_eqb a b = true <-> a = b.
Proof.
  destruct a, b; cbn; split; intro H; try discriminate; try congruence.
  - apply pat_eqb_eq in H. congruence.
  - inversion H. apply pat_eqb_refl.
  - apply pat_eqb_eq in H. congruence.
  - inversion H. apply pat_eqb_refl.
Qed.

Lemma term_eqb_refl : forall a, term_eqb a a = true.
Proof. intro a. apply term_eqb_eq. reflexivity. Qed.

Lemma pats_eqb_eq : forall a b, pats_eqb a b = true <-> a = b.
Proof.
  induction a as [|x a IH]; destruct b as [|y b]; cbn; split; intro H; try congruence; try discriminate.
  - apply andb_true_iff in H. destruct H as [H1 H2]. apply pat_eqb_eq in H1. apply IH in H2. congruence.
  - inversion H; subst. rewrite pat_eqb_refl. cbn. apply IH. reflexivity.
Qed.

(* ------------------------------------------------------------------------------------------ *)
(** * Renaming is a homomorphism for everything the tracker computes *)

Section Rn.
Variable f : N -> N.

Lemma rn_e_fresh : forall p x, e_fresh (rn f p) x = e_fresh p x.
Proof.
  induction p; intro y; cbn; try reflexivity;
    repeat match goal with IH : forall x, e_fresh (rn f ?p) x = _ |- _ => rewrite IH; clear IH end; reflexivity.
Qed.

Lemma rn_s_fresh : forall p x, s_fresh (rn f p) x = s_fresh p x.
Proof.
  induction p; intro y; cbn; try reflexivity;
    repeat match goal with IH : forall x, s_fresh (rn f ?p) x = _ |- _ => rewrite IH; clear IH end; reflexivity.
Qed.

Lemma rn_py_esubst : forall p x q, rn f (py_esubst p x q) = py_esubst (rn f p) x (rn f q).
Proof.
  induction p; intros y q; cbn; try reflexivity.
  - destruct (N.eqb y n); reflexivity.
  - rewrite IHp1, IHp2. reflexivity.
  - rewrite IHp1, IHp2. reflexivity.
  - destruct (N.eqb y x); cbn; [reflexivity | rewrite IHp; reflexivity].
  - rewrite IHp. reflexivity.
  - destruct (mem y ef); reflexivity.
Qed.

Lemma rn_py_ssubst : forall p x q, rn f (py_ssubst p x q) = py_ssubst (rn f p) x (rn f q).
Proof.
  induction p; intros y q; cbn; try reflexivity.
  - destruct (N.eqb y n); reflexivity.
  - rewrite IHp1, IHp2. reflexivity.
  - rewrite IHp1, IHp2. reflexivity.
  - rewrite IHp. reflexivity.
  - destruct (N.eqb y X); cbn; [reflexivity | rewrite IHp; reflexivity].
  - destruct (mem y sf); reflexivity.
Qed.

Lemma dlookup_rn : forall k d, dlookup k (rn_delta f d) = option_map (rn f) (dlookup k d).
Proof.
  induction d as [|[k' v] d IH]; cbn; [reflexivity|].
  destruct (N.eqb k' k); [reflexivity | exact IH].
Qed.

Lemma is_nil_rn_delta : forall d, is_nil (rn_delta f d) = is_nil d.
Proof. destruct d; reflexivity. Qed.

Lemma rn_py_inst : forall p d, rn f (py_inst p d) = py_inst (rn f p) (rn_delta f d).
Proof.
  induction p; intro d; cbn; try reflexivity.
  - rewrite IHp1, IHp2. reflexivity.
  - rewrite IHp1, IHp2. reflexivity.
  - rewrite IHp. reflexivity.
  - rewrite IHp. reflexivity.
  - rewrite dlookup_rn. destruct (dlookup id d); reflexivity.
  - rewrite is_nil_rn_delta. destruct (is_nil d); cbn; [reflexivity|].
    rewrite rn_py_esubst, IHp1, IHp2. reflexivity.
  - rewrite is_nil_rn_delta. destruct (is_nil d); cbn; [reflexivity|].
    rewrite rn_py_ssubst, IHp1, IHp2. reflexivity.
Qed.

Lemma pat_eqb_rn : forall a b, pat_eqb a b = true -> pat_eqb (rn f a) (rn f b) = true.
Proof. intros a b H. apply pat_eqb_eq in H. subst. apply pat_eqb_refl. Qed.

Lemma term_eqb_rn : forall a b, term_eqb a b = true -> term_eqb (rn_term f a) (rn_term f b) = true.
Proof. intros a b H. apply term_eqb_eq in H. subst. apply term_eqb_refl. Qed.

Lemma map_fst_rn_delta : forall d, map fst (rn_delta f d) = map fst d.
Proof. induction d as [|[k v] d IH]; simpl; [reflexivity | rewrite IH; reflexivity]. Qed.

Lemma map_snd_rn_delta : forall d, map snd (rn_delta f d) = map (rn f) (map snd d).
Proof. induction d as [|[k v] d IH]; simpl; [reflexivity | rewrite IH; reflexivity]. Qed.

Lemma length_rn_delta : forall d, length (rn_delta f d) = length d.
Proof. intro d. apply map_length. Qed.

Lemma existsb_key_rn : forall k d,
  existsb (fun e : N * pat => N.eqb (fst e) k) (rn_delta f d) = existsb (fun e : N * pat => N.eqb (fst e) k) d.
Proof. induction d as [|[k' v'] d IH]; simpl; [reflexivity | rewrite IH; reflexivity]. Qed.

Lemma nodup_keys_rn : forall d, nodup_keys (rn_delta f d) = nodup_keys d.
Proof.
  induction d as [|[k v] d IH]; [reflexivity|].
  change (rn_delta f ((k, v) :: d)) with ((k, rn f v) :: rn_delta f d).
  simpl. rewrite IH, existsb_key_rn. reflexivity.
Qed.

End Rn.

(** C03: what a module publishes is what it declares (proofs). *)
From Coq Require Import NArith List Bool Lia Arith.
From Pi2 Require Import ML.Syntax ML.Subst ML.Machine ML.Journal
  Interp.Calls Interp.Facts Interp.RoundTrip Interp.Sim Interp.Module.
Import ListNotations.
Open Scope N_scope.

(* ------------------------------------------------------------------------------------------ *)
(** * Induction on patterns with notation (nested lists) *)

Section NpatInd.
Variable P : npat -> Prop.
Hypothesis HE : forall n, P (NE n).
Hypothesis HS : forall n, P (NS n).
Hypothesis HY : forall n, P (NY n).
Hypothesis HImp : forall l r, P l -> P r -> P (NImp l r).
Hypothesis HApp : forall l r, P l -> P r -> P (NApp l r).
Hypothesis HEx : forall x p, P p -> P (NEx x p).
Hypothesis HMu : forall x p, P p -> P (NMu x p).
Hypothesis HMV : forall id a b c d e, P (NMV id a b c d e).
Hypothesis HES : forall p x q, P p -> P q -> P (NESub p x q).
Hypothesis HSS : forall p x q, P p -> P q -> P (NSSub p x q).
Hypothesis HInst : forall body d, P body -> Forall (fun kv => P (snd kv)) d -> P (NInst body d).

Fixpoint npat_rect' (p:npat) : P p :=
  match p with
  | NE n => HE n | NS n => HS n | NY n => HY n
  | NImp l r => HImp l r (npat_rect' l) (npat_rect' r)
  | NApp l r => HApp l r (npat_rect' l) (npat_rect' r)
  | NEx x q => HEx x q (npat_rect' q)
  | NMu x q => HMu x q (npat_rect' q)
  | NMV id a b c d e => HMV id a b c d e
  | NESub q x plug => HES q x plug (npat_rect' q) (npat_rect' plug)
  | NSSub q x plug => HSS q x plug (npat_rect' q) (npat_rect' plug)
  | NInst body d =>
      HInst body d (npat_rect' body)
        ((fix go (d:list (N * npat)) : Forall (fun kv => P (snd kv)) d :=
            match d with
            | [] => Forall_nil _
            | kv :: r => Forall_cons kv (npat_rect' (snd kv)) (go r)
            end) d)
  end.
End NpatInd.

(* ------------------------------------------------------------------------------------------ *)
(** * Only the publish calls of the two phases publish *)

Lemma pub_of_app : forall a b, pub_of (a ++ b) = pub_of a ++ pub_of b.
Proof.
  induction a as [|c a IH]; intro b; [reflexivity|].
  destruct c; cbn; rewrite ?IH; reflexivity.
Qed.

Ltac opt_inv :=
  repeat match goal with
         | H : match ?x with Some _ => _ | None => None end = Some _ |- _ =>
             let E := fresh "E" in destruct x eqn:E; [|discriminate H]
         | H : (if ?b then _ else None) = Some _ |- _ =>
             let E := fresh "E" in destruct b eqn:E; [|discriminate H]
         | H : (let '(_, _) := ?x in _) = Some _ |- _ => destruct x
         | H : Some _ = Some _ |- _ => inversion H; subst; clear H
         end.

Ltac use_ih :=
  repeat match goal with
         | IH : forall cs, Some ?l = Some cs -> pub_of cs = [] |- _ => rewrite (IH _ eq_refl); clear IH
         | IH : forall cs, pattern_calls ?p = Some cs -> _, E : pattern_calls ?p = Some _ |- _ =>
             rewrite (IH _ E); clear IH
         end.

Lemma pub_of_go : forall (d:list (N * npat)) la,
  Forall (fun kv => forall cs, pattern_calls (snd kv) = Some cs -> pub_of cs = []) d ->
  (fix go (d:list (N * npat)) : option (list call) :=
     match d with
     | [] => Some []
     | (_, v) :: r => match pattern_calls v, go r with
                      | Some a, Some b => Some (a ++ b) | _, _ => None end
     end) d = Some la -> pub_of la = [].
Proof.
  induction d as [|[k v] r IH]; intros la HF Ego.
  - inv Ego. reflexivity.
  - inversion HF as [|? ? Hv Hr]; subst. cbn in Hv.
    destruct (pattern_calls v) as [a|] eqn:Ea; [|discriminate].
    match type of Ego with match ?g with _ => _ end = _ => destruct g as [b|] eqn:Eb; [|discriminate] end.
    inv Ego. rewrite pub_of_app, (Hv _ eq_refl), (IH _ Hr eq_refl). reflexivity.
Qed.

Lemma pub_of_pattern_calls : forall p cs, pattern_calls p = Some cs -> pub_of cs = [].
Proof.
  induction p using npat_rect'; intros cs Hc; cbn [pattern_calls] in Hc.
  - inv Hc. reflexivity.
  - inv Hc. reflexivity.
  - inv Hc. reflexivity.
  - opt_inv. rewrite !pub_of_app. use_ih. reflexivity.
  - opt_inv. rewrite !pub_of_app. use_ih. reflexivity.
  - opt_inv. rewrite !pub_of_app. use_ih. reflexivity.
  - opt_inv. rewrite !pub_of_app. use_ih. reflexivity.
  - inv Hc. reflexivity.
  - opt_inv. rewrite !pub_of_app. use_ih. reflexivity.
  - opt_inv. rewrite !pub_of_app. use_ih. reflexivity.
  - match type of Hc with match ?g with _ => _ end = _ => destruct g as [la|] eqn:Ego; [|discriminate] end.
    destruct (pattern_calls p) as [lb|] eqn:Eb; [|discriminate]. inv Hc.
    rewrite !pub_of_app, (pub_of_go _ _ H Ego), (IHp _ eq_refl). reflexivity.
Qed.

Section MemoPub.
Variable sel : npat -> bool.

Lemma finish_memo_pub : forall p r cs mem',
  finish_memo sel p r = Some (cs, mem') -> exists cs0 mem0, r = Some (cs0, mem0) /\ pub_of cs = pub_of cs0.
Proof.
  intros p [[cs0 mem0]|] cs mem' H; cbn in H; [|discriminate].
  exists cs0, mem0. split; [reflexivity|]. destruct (sel p); inv H; [|reflexivity].
  rewrite pub_of_app. cbn. apply app_nil_r.
Qed.

Definition memo_ok (p:npat) : Prop :=
  forall mem cs mem', memo_calls sel p mem = Some (cs, mem') -> pub_of cs = [].

Lemma pub_of_mgo : forall (d:list (N * npat)) mem la mem',
  Forall (fun kv => memo_ok (snd kv)) d ->
  (fix go (d:list (N * npat)) (mem:list term) : option (list call * list term) :=
     match d with
     | [] => Some ([], mem)
     | (_, v) :: r => match memo_calls sel v mem with
                      | Some (a, m1) => match go r m1 with
                                        | Some (b, m2) => Some (a ++ b, m2) | None => None end
                      | None => None end
     end) d mem = Some (la, mem') -> pub_of la = [].
Proof.
  induction d as [|[k v] r IH]; intros mem la mem' HF Ego.
  - inv Ego. reflexivity.
  - inversion HF as [|? ? Hv Hr]; subst. cbn in Hv.
    destruct (memo_calls sel v mem) as [[a m1]|] eqn:Ea; [|discriminate].
    match type of Ego with match ?g with _ => _ end = _ => destruct g as [[b m2]|] eqn:Eb; [|discriminate] end.
    inv Ego. rewrite pub_of_app, (Hv _ _ _ Ea), (IH _ _ _ Hr Eb). reflexivity.
Qed.

Ltac memo_start Hc :=
  cbn [memo_calls] in Hc;
  match type of Hc with (if ?b then _ else _) = _ => destruct b; [inv Hc; reflexivity|] end;
  apply finish_memo_pub in Hc; destruct Hc as (cs0 & mem0 & Hr & ->).

Lemma pub_of_memo_calls : forall p, memo_ok p.
Proof.
  induction p using npat_rect'; intros mem cs mem' Hc; memo_start Hc.
  - inv Hr. reflexivity.
  - inv Hr. reflexivity.
  - inv Hr. reflexivity.
  - destruct (memo_calls sel p1 mem) as [[a m1]|] eqn:E1; [|discriminate].
    destruct (memo_calls sel p2 m1) as [[b m2]|] eqn:E2; [|discriminate]. inv Hr.
    rewrite !pub_of_app, (IHp1 _ _ _ E1), (IHp2 _ _ _ E2). reflexivity.
  - destruct (memo_calls sel p1 mem) as [[a m1]|] eqn:E1; [|discriminate].
    destruct (memo_calls sel p2 m1) as [[b m2]|] eqn:E2; [|discriminate]. inv Hr.
    rewrite !pub_of_app, (IHp1 _ _ _ E1), (IHp2 _ _ _ E2). reflexivity.
  - destruct (memo_calls sel p mem) as [[a m1]|] eqn:E1; [|discriminate]. inv Hr.
    rewrite !pub_of_app, (IHp _ _ _ E1). reflexivity.
  - destruct (memo_calls sel p mem) as [[a m1]|] eqn:E1; [|discriminate]. inv Hr.
    rewrite !pub_of_app, (IHp _ _ _ E1). reflexivity.
  - inv Hr. reflexivity.
  - destruct (memo_calls sel p2 mem) as [[a m1]|] eqn:E1; [|discriminate].
    destruct (memo_calls sel p1 m1) as [[b m2]|] eqn:E2; [|discriminate].
    destruct (meta_head p1); [|discriminate]. inv Hr.
    rewrite !pub_of_app, (IHp2 _ _ _ E1), (IHp1 _ _ _ E2). reflexivity.
  - destruct (memo_calls sel p2 mem) as [[a m1]|] eqn:E1; [|discriminate].
    destruct (memo_calls sel p1 m1) as [[b m2]|] eqn:E2; [|discriminate].
    destruct (meta_head p1); [|discriminate]. inv Hr.
    rewrite !pub_of_app, (IHp2 _ _ _ E1), (IHp1 _ _ _ E2). reflexivity.
  - match type of Hr with match ?g with _ => _ end = _ => destruct g as [[la m1]|] eqn:Ego; [|discriminate] end.
    destruct (memo_calls sel p m1) as [[lb m2]|] eqn:Eb; [|discriminate]. inv Hr.
    rewrite !pub_of_app, (pub_of_mgo _ _ _ _ H Ego), (IHp _ _ _ Eb). reflexivity.
Qed.

End MemoPub.

(* ------------------------------------------------------------------------------------------ *)
(** * The publish calls of the two phases are the declarations, in order *)

Lemma pub_of_axioms_calls : forall l cs, axioms_calls l = Some cs -> pub_of cs = map expand l.
Proof.
  induction l as [|a l IH]; intros cs H; cbn in H.
  - inv H. reflexivity.
  - destruct (pattern_calls a) as [x|] eqn:Ea; [|discriminate].
    destruct (axioms_calls l) as [y|] eqn:El; [|discriminate]. inv H.
    rewrite pub_of_app, (pub_of_pattern_calls _ _ Ea). cbn. rewrite (IH _ eq_refl). reflexivity.
Qed.

Lemma pub_of_claims_calls : forall l cs, claims_calls_in_order l = Some cs -> pub_of cs = map expand l.
Proof.
  induction l as [|a l IH]; intros cs H; cbn in H.
  - inv H. reflexivity.
  - destruct (pattern_calls a) as [x|] eqn:Ea; [|discriminate].
    destruct (claims_calls_in_order l) as [y|] eqn:El; [|discriminate]. inv H.
    rewrite pub_of_app, (pub_of_pattern_calls _ _ Ea). cbn. rewrite (IH _ eq_refl). reflexivity.
Qed.

Lemma pub_of_maxioms_calls : forall sel l mem cs mem',
  maxioms_calls sel l mem = Some (cs, mem') -> pub_of cs = map expand l.
Proof.
  intro sel. induction l as [|a l IH]; intros mem cs mem' H; cbn in H.
  - inv H. reflexivity.
  - destruct (memo_calls sel a mem) as [[x m1]|] eqn:Ea; [|discriminate].
    destruct (maxioms_calls sel l (m1 ++ [TProved (expand a)])) as [[y m2]|] eqn:El; [|discriminate]. inv H.
    rewrite pub_of_app, (pub_of_memo_calls sel _ _ _ _ Ea). cbn. rewrite (IH _ _ _ El). reflexivity.
Qed.

Lemma pub_of_mclaims_calls : forall sel l mem cs mem',
  mclaims_calls sel l mem = Some (cs, mem') -> pub_of cs = map expand l.
Proof.
  intro sel. induction l as [|a l IH]; intros mem cs mem' H; cbn in H.
  - inv H. reflexivity.
  - destruct (memo_calls sel a mem) as [[x m1]|] eqn:Ea; [|discriminate].
    destruct (mclaims_calls sel l m1) as [[y m2]|] eqn:El; [|discriminate]. inv H.
    rewrite pub_of_app, (pub_of_memo_calls sel _ _ _ _ Ea). cbn. rewrite (IH _ _ _ El). reflexivity.
Qed.

(* ------------------------------------------------------------------------------------------ *)
(** * The checker's publish journal of a run *)

Definition pub_obs (op:N) (st:state) : list pat :=
  match decode_op op, stack st with
  | Some IPublish, t :: _ => [pat_of_term t]
  | _, _ => [] end.

Lemma journal_head : forall f tbl tr st c tr' tbl' op ops,
  R f tr st -> stateful_step tr c = Some tr' -> emit tbl tr c = Some (tbl', op :: ops) ->
  wf_call guards_sound tr c = true ->
  pub_obs op st = map (rn f) (pub_of [c]).
Proof.
  intros f tbl tr st c tr' tbl' op ops HR Hs He Hwf.
  pose proof (wf_call_split _ _ _ Hwf) as Hnr.
  destruct c; cbn [emit] in He; cbn [consumes] in Hnr;
    try (emit_simple He; inv He; reflexivity); try (inv He; reflexivity).
  - destruct (idx_of name tbl); emit_simple He; inv He; reflexivity.
  - destruct (is_nil ef && is_nil sf && is_nil pos && is_nil neg && is_nil holes); emit_simple He; inv He; reflexivity.
  - destruct (index_of t (t_memory tr)); [|discriminate]. emit_simple He. inv He. reflexivity.
  - (* publish proof *)
    inv He. destruct tr as [ph stk me cl jo]. cbn in Hs. cbn [t_stack] in Hnr.
    destruct ph; try discriminate. destruct cl as [|c cs]; [discriminate|].
    destruct (pat_eqb p c && top_is (TProved p) stk) eqn:E; [|discriminate].
    apply andb_true_iff in E. destruct E as [_ E2]. apply top_is_inv in E2. destruct E2 as (m & s & ->).
    apply no_residue_S in Hnr. destruct Hnr as [-> _].
    destruct HR as (H1 & _). cbn [t_stack] in H1. rewrite live_cons_false in H1. cbn [map rn_term] in H1.
    unfold pub_obs. rewrite <- H1. reflexivity.
  - inv He. destruct tr as [ph stk me cl jo]. cbn in Hs. cbn [t_stack] in Hnr.
    destruct ph; try discriminate.
    destruct (top_is (TPat p) stk) eqn:E; [|discriminate]. apply top_is_inv in E. destruct E as (m & s & ->).
    apply no_residue_S in Hnr. destruct Hnr as [-> _].
    destruct HR as (H1 & _). cbn [t_stack] in H1. rewrite live_cons_false in H1. cbn [map rn_term] in H1.
    unfold pub_obs. rewrite <- H1. reflexivity.
  - inv He. destruct tr as [ph stk me cl jo]. cbn in Hs. cbn [t_stack] in Hnr.
    destruct ph; try discriminate.
    destruct (top_is (TPat p) stk) eqn:E; [|discriminate]. apply top_is_inv in E. destruct E as (m & s & ->).
    apply no_residue_S in Hnr. destruct Hnr as [-> _].
    destruct HR as (H1 & _). cbn [t_stack] in H1. rewrite live_cons_false in H1. cbn [map rn_term] in H1.
    unfold pub_obs. rewrite <- H1. reflexivity.
Qed.

Lemma journal_run_app : forall f cs tbl tr st tblF trF bs,
  R f tr st -> ser_run tbl tr cs = Some (tblF, trF, bs) -> wf_run tr cs -> agrees f tblF ->
  forall more n, (length bs + length more <= n)%nat ->
  exists st' n', (length more <= n')%nat /\
    journal_fuel g0 n (t_phase tr) (bs ++ more) st
      = map (rn f) (pub_of cs) ++ journal_fuel g0 n' (t_phase tr) more st' /\
    exec_fuel g0 n (t_phase tr) (bs ++ more) st = exec_fuel g0 n' (t_phase tr) more st' /\
    R f trF st' /\ t_phase trF = t_phase tr.
Proof.
  induction cs as [|c cs IH]; intros tbl tr st tblF trF bs HR H Hwf Hf more n Hn; cbn [ser_run] in H.
  - inv H. exists st, n. cbn in Hn. split; [lia|]. split; [reflexivity|]. split; [reflexivity|].
    split; [assumption | reflexivity].
  - destruct (is_switch c) eqn:Esw; [discriminate|].
    destruct (ser_step tbl tr c) as [[[t1 tr1] b1]|] eqn:E1; [|discriminate].
    destruct (ser_run t1 tr1 cs) as [[[t2 tr2] b2]|] eqn:E2; [|discriminate]. inv H.
    pose proof (ser_run_extends _ _ _ _ _ _ E2) as [m2 Hm2]. subst tblF.
    unfold ser_step in E1.
    destruct (stateful_step tr c) as [tr1'|] eqn:Es; [|discriminate].
    destruct (emit tbl tr c) as [[t1' b1']|] eqn:Ee; [|discriminate]. inv E1.
    cbn [wf_run] in Hwf. rewrite Es in Hwf. destruct Hwf as [Hwc Hwr].
    destruct (sim_step f tbl tr st c tr1 t1 b1 HR Es Ee Esw Hwc (agrees_prefix _ _ _ Hf))
      as (op & ops & -> & Hstep).
    destruct (Hstep (b2 ++ more)) as (st1 & Hst1 & HR1).
    pose proof (journal_head f tbl tr st c tr1 t1 op ops HR Es Ee Hwc) as Hj.
    rewrite app_length in Hn. cbn [length] in Hn.
    destruct n as [|n]; [lia|].
    pose proof (stateful_step_phase _ _ _ Esw Es) as Hph.
    destruct (IH t1 tr1 st1 _ trF b2 HR1 E2 Hwr Hf more n ltac:(lia)) as (st' & n' & Hn' & Hjr & Hrun & HRF & HphF).
    exists st', n'. split; [exact Hn'|]. split; [|split; [|split; [exact HRF | eapply eq_trans; eassumption]]].
    + rewrite <- app_assoc. cbn [app journal_fuel]. unfold g0 in *. rewrite Hst1.
      fold (pub_obs op st). rewrite Hj. rewrite <- Hph. rewrite Hjr.
      change (c :: cs) with ([c] ++ cs). rewrite pub_of_app, map_app, <- app_assoc. reflexivity.
    + rewrite <- app_assoc. cbn [app exec_fuel]. unfold g0 in *. rewrite Hst1. rewrite <- Hph. exact Hrun.
Qed.

(** what the checker's journal records for a run = the patterns of its publish calls, renumbered *)
Theorem journal_run : forall f cs tbl tr st tblF trF bs,
  R f tr st -> ser_run tbl tr cs = Some (tblF, trF, bs) -> wf_run tr cs -> agrees f tblF ->
  journal g0 (t_phase tr) bs st = map (rn f) (pub_of cs) /\
  exists st', exec g0 (t_phase tr) bs st = Some st' /\ R f trF st' /\ t_phase trF = t_phase tr.
Proof.
  intros f cs tbl tr st tblF trF bs HR H Hwf Hf.
  destruct (journal_run_app f cs tbl tr st tblF trF bs HR H Hwf Hf [] (length bs))
    as (st' & n' & _ & Hj & Hrun & HRF & Hph); [cbn; lia|].
  rewrite app_nil_r in Hj, Hrun. split.
  - unfold journal. rewrite Hj. destruct n'; cbn; apply app_nil_r.
  - exists st'. unfold exec. rewrite Hrun. split; [destruct n'; reflexivity|]. split; assumption.
Qed.

(* ------------------------------------------------------------------------------------------ *)
(** * The ghost journal of the tracker *)

Lemma journal_ghost_step : forall tr c tr',
  stateful_step tr c = Some tr' -> is_switch c = false ->
  t_journal tr' = (match t_phase tr with Claim => rev (pub_of [c]) | _ => [] end) ++ t_journal tr.
Proof.
  intros tr c tr' H Hsw. destruct c; cbn [stateful_step is_switch pub_of rev app] in *; try discriminate;
    try (inv H; destruct (t_phase tr); reflexivity).
  - unfold binary in H. destruct (t_stack tr) as [|[? ?] [|[? ?] ?]]; try discriminate.
    destruct (_ && _); inv H. destruct (t_phase tr); reflexivity.
  - unfold binary in H. destruct (t_stack tr) as [|[? ?] [|[? ?] ?]]; try discriminate.
    destruct (_ && _); inv H. destruct (t_phase tr); reflexivity.
  - unfold unary in H. destruct (t_stack tr) as [|[? ?] ?]; try discriminate.
    destruct (term_eqb _ _); inv H. destruct (t_phase tr); reflexivity.
  - unfold unary in H. destruct (t_stack tr) as [|[? ?] ?]; try discriminate.
    destruct (term_eqb _ _); inv H. destruct (t_phase tr); reflexivity.
  - destruct (t_stack tr) as [|[? ?] [|[? ?] ?]]; try discriminate. destruct (_ && _); inv H.
    destruct (t_phase tr); reflexivity.
  - destruct (t_stack tr) as [|[? ?] [|[? ?] ?]]; try discriminate. destruct (_ && _); inv H.
    destruct (t_phase tr); reflexivity.
  - destruct (t_stack tr) as [|[? ?] [|[? ?] ?]]; try discriminate. destruct (_ && _); try discriminate.
    destruct (extract_imp l) as [[? ?]|]; try discriminate. destruct (pat_eqb _ _); inv H.
    destruct (t_phase tr); reflexivity.
  - destruct (t_stack tr) as [|[? ?] ?]; try discriminate. destruct (term_eqb _ _); try discriminate.
    destruct (extract_imp p) as [[? ?]|]; try discriminate. destruct (py_fresh _ _); inv H.
    destruct (t_phase tr); reflexivity.
  - unfold do_instantiate in H. destruct (negb _); try discriminate.
    destruct (t_stack tr) as [|[? ?] ?]; try discriminate. destruct (term_eqb _ _); try discriminate.
    destruct d; [destruct l; inv H; destruct (t_phase tr); reflexivity|].
    destruct (plugs_match _ _); inv H. destruct (t_phase tr); reflexivity.
  - unfold do_instantiate in H. destruct (negb _); try discriminate.
    destruct (t_stack tr) as [|[? ?] ?]; try discriminate. destruct (term_eqb _ _); try discriminate.
    destruct d; [inv H; destruct (t_phase tr); reflexivity|].
    destruct (plugs_match _ _); inv H. destruct (t_phase tr); reflexivity.
  - destruct (t_stack tr) as [|[? ?] ?]; try discriminate. destruct (term_eqb _ _); inv H.
    destruct (t_phase tr); reflexivity.
  - destruct (top_is _ _); inv H. destruct (t_phase tr); reflexivity.
  - destruct (existsb _ _); inv H. destruct (t_phase tr); reflexivity.
  - destruct (t_phase tr) eqn:E; try discriminate. destruct (t_claims tr); try discriminate.
    destruct (_ && _); inv H. reflexivity.
  - destruct (t_phase tr) eqn:E; try discriminate. destruct (top_is _ _); inv H. reflexivity.
  - destruct (t_phase tr) eqn:E; try discriminate. destruct (top_is _ _); inv H. reflexivity.
Qed.

Lemma journal_ghost_run : forall cs tbl tr tblF trF bs,
  ser_run tbl tr cs = Some (tblF, trF, bs) ->
  t_journal trF = (match t_phase tr with Claim => rev (pub_of cs) | _ => [] end) ++ t_journal tr.
Proof.
  induction cs as [|c cs IH]; intros tbl tr tblF trF bs H; cbn [ser_run] in H.
  - inv H. destruct (t_phase trF); reflexivity.
  - destruct (is_switch c) eqn:Esw; [discriminate|].
    destruct (ser_step tbl tr c) as [[[t1 tr1] b1]|] eqn:E1; [|discriminate].
    destruct (ser_run t1 tr1 cs) as [[[t2 tr2] b2]|] eqn:E2; [|discriminate]. inv H.
    unfold ser_step in E1. destruct (stateful_step tr c) as [tr1'|] eqn:Es; [|discriminate].
    destruct (emit tbl tr c) as [[? ?]|]; [|discriminate]. inv E1.
    rewrite (IH _ _ _ _ _ E2), (journal_ghost_step _ _ _ Es Esw), (stateful_step_phase _ _ _ Esw Es).
    destruct (t_phase tr); try reflexivity.
    change (c :: cs) with ([c] ++ cs). rewrite pub_of_app, rev_app_distr, app_assoc. reflexivity.
Qed.

(* ------------------------------------------------------------------------------------------ *)
(** * The two public files of a module *)

(** the gamma file publishes exactly the declared theory, in order *)
Theorem gamma_exact : forall f m cl cs t1 tr1 gb,
  gamma_calls m = Some cs ->
  ser_run [] (fresh_tracker Gamma cl) cs = Some (t1, tr1, gb) -> wf_run (fresh_tracker Gamma cl) cs ->
  agrees f t1 ->
  gamma_axioms g0 gb = map (rn f) (map expand (flat_axioms m)).
Proof.
  intros f m cl cs t1 tr1 gb Hc H Hwf Hf.
  destruct (journal_run f cs [] _ st0 t1 tr1 gb (R_fresh f cl) H Hwf Hf) as (Hj & _).
  unfold gamma_axioms. cbn [t_phase fresh_tracker] in Hj. rewrite Hj.
  unfold gamma_calls in Hc. rewrite (pub_of_axioms_calls _ _ Hc). reflexivity.
Qed.

(** the claim file publishes the declared claims, reversed; the checker's claim queue after it holds
    them in declaration order (first declared = first to be proved) *)
Theorem claims_exact : forall f m cl gcs t1 tr1 gb tr1' ccs t2 tr2 cb,
  ser_run [] (fresh_tracker Gamma cl) gcs = Some (t1, tr1, gb) -> wf_run (fresh_tracker Gamma cl) gcs ->
  stateful_step tr1 CIntoClaim = Some tr1' ->
  claim_calls m = Some ccs ->
  ser_run t1 tr1' ccs = Some (t2, tr2, cb) -> wf_run tr1' ccs ->
  agrees f t2 ->
  exists s1, exec g0 Gamma gb st0 = Some s1 /\
    journal g0 Claim cb (set_stack [] s1) = map (rn f) (rev (map expand (m_claims m))) /\
    declared_claims g0 gb cb = map (rn f) (map expand (m_claims m)).
Proof.
  intros f m cl gcs t1 tr1 gb tr1' ccs t2 tr2 cb H1 W1 S1 Hc H2 W2 Hf.
  pose proof (ser_run_extends _ _ _ _ _ _ H2) as [m2 E2].
  assert (F1 : agrees f t1) by (subst t2; eapply agrees_prefix; exact Hf).
  destruct (sim_run f gcs [] _ st0 t1 tr1 gb (R_fresh f cl) H1 W1 F1) as (s1 & X1 & R1 & P1).
  destruct (sim_into_claim f tr1 s1 tr1' R1 S1) as (R1' & Pg & Pc).
  destruct (journal_run f ccs t1 tr1' _ t2 tr2 cb R1' H2 W2 Hf) as (Hj & s2 & X2 & R2 & P2).
  cbn [t_phase fresh_tracker] in X1. rewrite Pc in Hj, X2.
  unfold claim_calls in Hc. pose proof (pub_of_claims_calls _ _ Hc) as Hp.
  exists s1. split; [exact X1|]. split.
  - rewrite Hj, Hp, map_rev. reflexivity.
  - unfold declared_claims. rewrite X1, X2.
    destruct R2 as (_ & _ & R2c). rewrite <- R2c. unfold claims_view. rewrite P2, Pc.
    rewrite (journal_ghost_run _ _ _ _ _ _ H2), Pc, Hp.
    (* the journal of tr1' is that of the fresh tracker: nothing is published as a claim in gamma *)
    assert (J1 : t_journal tr1' = []).
    { pose proof (journal_ghost_run _ _ _ _ _ _ H1) as J. cbn in J.
      destruct tr1 as [ph s me c1 jo]. cbn in S1, J. destruct ph; try discriminate. inv S1. first [exact J | reflexivity]. }
    rewrite J1, app_nil_r, <- map_rev, rev_involutive. reflexivity.
Qed.

(** the same under the memoiser, for ANY selection of patterns to memoise *)
Theorem gamma_exact_opt : forall f sel m cl cs mem1 t1 tr1 gb,
  mgamma_calls sel m = Some (cs, mem1) ->
  ser_run [] (fresh_tracker Gamma cl) cs = Some (t1, tr1, gb) -> wf_run (fresh_tracker Gamma cl) cs ->
  agrees f t1 ->
  gamma_axioms g0 gb = map (rn f) (map expand (flat_axioms m)).
Proof.
  intros f sel m cl cs mem1 t1 tr1 gb Hc H Hwf Hf.
  destruct (journal_run f cs [] _ st0 t1 tr1 gb (R_fresh f cl) H Hwf Hf) as (Hj & _).
  unfold gamma_axioms. cbn [t_phase fresh_tracker] in Hj. rewrite Hj.
  unfold mgamma_calls in Hc. rewrite (pub_of_maxioms_calls _ _ _ _ _ Hc). reflexivity.
Qed.

Theorem claims_exact_opt : forall f sel m cl gcs t1 tr1 gb tr1' mem1 ccs mem2 t2 tr2 cb,
  ser_run [] (fresh_tracker Gamma cl) gcs = Some (t1, tr1, gb) -> wf_run (fresh_tracker Gamma cl) gcs ->
  stateful_step tr1 CIntoClaim = Some tr1' ->
  mclaim_calls sel m mem1 = Some (ccs, mem2) ->
  ser_run t1 tr1' ccs = Some (t2, tr2, cb) -> wf_run tr1' ccs ->
  agrees f t2 ->
  declared_claims g0 gb cb = map (rn f) (map expand (m_claims m)).
Proof.
  intros f sel m cl gcs t1 tr1 gb tr1' mem1 ccs mem2 t2 tr2 cb H1 W1 S1 Hc H2 W2 Hf.
  pose proof (ser_run_extends _ _ _ _ _ _ H2) as [m2 E2].
  assert (F1 : agrees f t1) by (subst t2; eapply agrees_prefix; exact Hf).
  destruct (sim_run f gcs [] _ st0 t1 tr1 gb (R_fresh f cl) H1 W1 F1) as (s1 & X1 & R1 & P1).
  destruct (sim_into_claim f tr1 s1 tr1' R1 S1) as (R1' & Pg & Pc).
  destruct (sim_run f ccs t1 tr1' _ t2 tr2 cb R1' H2 W2 Hf) as (s2 & X2 & R2 & P2).
  cbn [t_phase fresh_tracker] in X1. rewrite Pc in X2.
  unfold mclaim_calls in Hc. pose proof (pub_of_mclaims_calls _ _ _ _ _ Hc) as Hp.
  unfold declared_claims. rewrite X1, X2.
  destruct R2 as (_ & _ & R2c). rewrite <- R2c. unfold claims_view. rewrite P2, Pc.
  rewrite (journal_ghost_run _ _ _ _ _ _ H2), Pc, Hp.
  assert (J1 : t_journal tr1' = []).
  { pose proof (journal_ghost_run _ _ _ _ _ _ H1) as J. cbn in J.
    destruct tr1 as [ph s me c1 jo]. cbn in S1, J. destruct ph; try discriminate. inv S1. first [exact J | reflexivity]. }
  rewrite J1, app_nil_r, <- map_rev, rev_involutive. reflexivity.
Qed.

(* ------------------------------------------------------------------------------------------ *)
(** * The symbol table *)

Lemma idx_from_nth : forall tbl k name i,
  idx_from k name tbl = Some i -> (k <= i)%nat /\ nth_error tbl (i - k) = Some name.
Proof.
  induction tbl as [|n tbl IH]; intros k name i H; cbn in H; [discriminate|].
  destruct (N.eqb n name) eqn:E.
  - inv H. apply N.eqb_eq in E. subst. rewrite Nat.sub_diag. split; [lia | reflexivity].
  - apply IH in H. destruct H as [H1 H2]. split; [lia|].
    replace (i - k)%nat with (S (i - S k)) by lia. exact H2.
Qed.

Lemma idx_of_nth : forall tbl name i, idx_of name tbl = Some i -> nth_error tbl i = Some name.
Proof.
  intros tbl name i H. apply idx_from_nth in H. destruct H as [_ H]. rewrite Nat.sub_0_r in H. exact H.
Qed.

(** distinct symbols receive distinct numbers *)
Theorem symtab_injective : forall tbl a b i, idx_of a tbl = Some i -> idx_of b tbl = Some i -> a = b.
Proof.
  intros tbl a b i Ha Hb. apply idx_of_nth in Ha. apply idx_of_nth in Hb. congruence.
Qed.

(** a number, once given, never changes: one table threads the three files *)
Theorem symtab_stable : forall cs tbl tr tblF trF bs a i,
  ser_run tbl tr cs = Some (tblF, trF, bs) -> idx_of a tbl = Some i -> idx_of a tblF = Some i.
Proof.
  intros cs tbl tr tblF trF bs a i H Hi. apply ser_run_extends in H. destruct H as [more ->].
  unfold idx_of in *. apply idx_from_app_hit. exact Hi.
Qed.

Lemma bytes_ok : forall l l', bytes l = Some l' -> Forall (fun b => b < 256) l'.
Proof.
  intros l l' H. unfold bytes in H. destruct (forallb byte_ok l) eqn:E; [|discriminate]. inv H.
  apply Forall_forall. intros x Hx. rewrite forallb_forall in E. specialize (E x Hx).
  unfold byte_ok in E. apply N.ltb_lt. exact E.
Qed.

(** everything written is a byte: an id above 255 is never encoded (bytes([...]) raises) *)
Theorem emit_bytes : forall tbl tr c tbl' bs, emit tbl tr c = Some (tbl', bs) -> Forall (fun b => b < 256) bs.
Proof.
  intros tbl tr c tbl' bs H.
  assert (K : forall l, Forall (fun b => b < 256) l -> Forall (fun b => b < 256) l) by auto.
  destruct c; cbn [emit] in H;
    try solve [apply with_tbl_some in H; destruct H as [_ H]; apply bytes_ok in H; exact H];
    try solve [inv H; repeat (constructor; try reflexivity)].
  - destruct (idx_of name tbl); apply with_tbl_some in H; destruct H as [_ H]; apply bytes_ok in H; exact H.
  - destruct (is_nil ef && is_nil sf && is_nil pos && is_nil neg && is_nil holes);
      apply with_tbl_some in H; destruct H as [_ H]; apply bytes_ok in H; exact H.
  - destruct (index_of t (t_memory tr)); [|discriminate].
    apply with_tbl_some in H; destruct H as [_ H]; apply bytes_ok in H; exact H.
Qed.

Lemma bytes_big : forall l x, In x l -> 256 <= x -> bytes l = None.
Proof.
  intros l x Hin Hx. unfold bytes. destruct (forallb byte_ok l) eqn:E; [|reflexivity].
  rewrite forallb_forall in E. specialize (E x Hin). unfold byte_ok in E. apply N.ltb_lt in E. lia.
Qed.

(** the 257th distinct symbol is refused *)
Theorem refuse_symbol_over_255 : forall tbl tr name,
  idx_of name tbl = None -> (256 <= length tbl)%nat -> emit tbl tr (CSymbol name) = None.
Proof.
  intros tbl tr name Hn Hl. cbn. rewrite Hn.
  rewrite (bytes_big _ (N.of_nat (length tbl))); [reflexivity | right; left; reflexivity | lia].
Qed.

(** ... and so is every variable / metavariable id above 255 *)
Theorem refuse_ids_over_255 : forall tbl tr id, 256 <= id ->
  emit tbl tr (CEVar id) = None /\ emit tbl tr (CSVar id) = None /\
  (forall a b c d e, emit tbl tr (CMetaVar id a b c d e) = None) /\
  (forall p, emit tbl tr (CExists id p) = None) /\ (forall p, emit tbl tr (CMu id p) = None).
Proof.
  intros tbl tr id H. repeat split; intros; cbn;
    try (rewrite (bytes_big _ id); [reflexivity | right; left; reflexivity | exact H]).
  destruct (is_nil a && is_nil b && is_nil c && is_nil d && is_nil e);
    (rewrite (bytes_big _ id); [reflexivity | right; left; reflexivity | exact H]).
Qed.

(** hence the table never holds more than 256 names *)
Lemma emit_table_bound : forall tbl tr c tbl' bs,
  emit tbl tr c = Some (tbl', bs) -> (length tbl <= 256)%nat -> (length tbl' <= 256)%nat.
Proof.
  intros tbl tr c tbl' bs H Hl.
  destruct c; cbn [emit] in H;
    try solve [apply with_tbl_some in H; destruct H as [-> _]; exact Hl]; try solve [inv H; exact Hl].
  - destruct (idx_of name tbl).
    + apply with_tbl_some in H. destruct H as [-> _]. exact Hl.
    + apply with_tbl_some in H. destruct H as [-> H]. pose proof (bytes_some _ _ H) as ->. apply bytes_ok in H.
      apply Forall_inv_tail in H. apply Forall_inv in H.
      rewrite app_length. cbn. lia.
  - destruct (is_nil ef && is_nil sf && is_nil pos && is_nil neg && is_nil holes);
      apply with_tbl_some in H; destruct H as [-> _]; exact Hl.
  - destruct (index_of t (t_memory tr)); [|discriminate].
    apply with_tbl_some in H. destruct H as [-> _]. exact Hl.
Qed.

Theorem symtab_bounded : forall cs tbl tr tblF trF bs,
  ser_run tbl tr cs = Some (tblF, trF, bs) -> (length tbl <= 256)%nat -> (length tblF <= 256)%nat.
Proof.
  induction cs as [|c cs IH]; intros tbl tr tblF trF bs H Hl; cbn [ser_run] in H.
  - inv H. exact Hl.
  - destruct (is_switch c); [discriminate|].
    destruct (ser_step tbl tr c) as [[[t1 tr1] b1]|] eqn:E1; [|discriminate].
    destruct (ser_run t1 tr1 cs) as [[[t2 tr2] b2]|] eqn:E2; [|discriminate]. inv H.
    unfold ser_step in E1. destruct (stateful_step tr c); [|discriminate].
    destruct (emit tbl tr c) as [[? ?]|] eqn:Ee; [|discriminate]. inv E1.
    eapply IH; [exact E2|]. eapply emit_table_bound; eassumption.
Qed.

(* ------------------------------------------------------------------------------------------ *)
(** * Every symbol the tracker holds has a number; decoding the numbers gives the names back *)

Fixpoint syms (p:pat) : list N :=
  match p with
  | Sym n => [n]
  | EVar _ | SVar _ | MVar _ _ _ _ _ _ => []
  | Imp l r | App l r => syms l ++ syms r
  | Ex _ q | Mu _ q => syms q
  | ESub q _ plug | SSub q _ plug => syms q ++ syms plug
  end.

Definition covp (tbl:symtab) (p:pat) : Prop := incl (syms p) tbl.
Definition covt (tbl:symtab) (t:term) : Prop := covp tbl (pat_of_term t).
Definition cov (tbl:symtab) (tr:tracker) : Prop :=
  Forall (fun e => covt tbl (fst e)) (t_stack tr) /\ Forall (covt tbl) (t_memory tr).

Lemma covp_mono : forall tbl more p, covp tbl p -> covp (tbl ++ more) p.
Proof. intros tbl more p H x Hx. apply in_or_app. left. apply H. exact Hx. Qed.

Lemma cov_mono : forall tbl more tr, cov tbl tr -> cov (tbl ++ more) tr.
Proof.
  intros tbl more tr [H1 H2]. split; eapply Forall_impl; try eassumption; intros a Ha; apply covp_mono; exact Ha.
Qed.

Lemma covp_py_esubst : forall tbl p x q, covp tbl p -> covp tbl q -> covp tbl (py_esubst p x q).
Proof.
  unfold covp. induction p; intros y q Hp Hq; cbn in *; try assumption.
  - destruct (N.eqb y n); assumption.
  - apply incl_app; [apply IHp1 | apply IHp2]; try assumption; eapply incl_tran; try exact Hp;
      [apply incl_appl | apply incl_appr]; apply incl_refl.
  - apply incl_app; [apply IHp1 | apply IHp2]; try assumption; eapply incl_tran; try exact Hp;
      [apply incl_appl | apply incl_appr]; apply incl_refl.
  - destruct (N.eqb y x); cbn; [assumption | apply IHp; assumption].
  - apply IHp; assumption.
  - destruct (mem y ef); cbn; [intros z Hz; destruct Hz | exact Hq].
  - apply incl_app; assumption.
  - apply incl_app; assumption.
Qed.

Lemma covp_py_ssubst : forall tbl p x q, covp tbl p -> covp tbl q -> covp tbl (py_ssubst p x q).
Proof.
  unfold covp. induction p; intros y q Hp Hq; cbn in *; try assumption.
  - destruct (N.eqb y n); assumption.
  - apply incl_app; [apply IHp1 | apply IHp2]; try assumption; eapply incl_tran; try exact Hp;
      [apply incl_appl | apply incl_appr]; apply incl_refl.
  - apply incl_app; [apply IHp1 | apply IHp2]; try assumption; eapply incl_tran; try exact Hp;
      [apply incl_appl | apply incl_appr]; apply incl_refl.
  - apply IHp; assumption.
  - destruct (N.eqb y X); cbn; [assumption | apply IHp; assumption].
  - destruct (mem y sf); cbn; [intros z Hz; destruct Hz | exact Hq].
  - apply incl_app; assumption.
  - apply incl_app; assumption.
Qed.

Lemma dlookup_in : forall k d v, dlookup k d = Some v -> In v (map snd d).
Proof.
  induction d as [|[k' v'] d IH]; intros v H; cbn in *; [discriminate|].
  destruct (N.eqb k' k); [inv H; left; reflexivity | right; apply IH; exact H].
Qed.

Lemma covp_py_inst : forall tbl p d,
  covp tbl p -> Forall (covp tbl) (map snd d) -> covp tbl (py_inst p d).
Proof.
  unfold covp. induction p; intros d Hp Hd; cbn in *; try assumption.
  - apply incl_app; [apply IHp1 | apply IHp2]; try assumption; eapply incl_tran; try exact Hp;
      [apply incl_appl | apply incl_appr]; apply incl_refl.
  - apply incl_app; [apply IHp1 | apply IHp2]; try assumption; eapply incl_tran; try exact Hp;
      [apply incl_appl | apply incl_appr]; apply incl_refl.
  - apply IHp; assumption.
  - apply IHp; assumption.
  - destruct (dlookup id d) as [q|] eqn:E; [|cbn; intros z Hz; destruct Hz].
    rewrite Forall_forall in Hd. apply Hd. eapply dlookup_in. exact E.
  - destruct (is_nil d); [exact Hp|].
    apply covp_py_esubst; [apply IHp1 | apply IHp2]; try assumption; eapply incl_tran; try exact Hp;
      [apply incl_appl | apply incl_appr]; apply incl_refl.
  - destruct (is_nil d); [exact Hp|].
    apply covp_py_ssubst; [apply IHp1 | apply IHp2]; try assumption; eapply incl_tran; try exact Hp;
      [apply incl_appl | apply incl_appr]; apply incl_refl.
Qed.

Lemma idx_from_in : forall tbl k name i, idx_from k name tbl = Some i -> In name tbl.
Proof.
  induction tbl as [|n tbl IH]; intros k name i H; cbn in H; [discriminate|].
  destruct (N.eqb n name) eqn:E; [apply N.eqb_eq in E; left; exact E | right; eapply IH; exact H].
Qed.

Lemma in_idx_from : forall tbl k name, In name tbl -> exists i, idx_from k name tbl = Some i.
Proof.
  induction tbl as [|n tbl IH]; intros k name H; [destruct H|]. cbn.
  destruct (N.eqb n name) eqn:E; [eexists; reflexivity|].
  destruct H as [H|H]; [subst; rewrite N.eqb_refl in E; discriminate | apply IH; exact H].
Qed.

Lemma plugs_cov : forall tbl s vs,
  plugs_match s vs = true -> Forall (fun e => covt tbl (fst e)) s -> Forall (covp tbl) vs.
Proof.
  induction s as [|[t m] s IH]; destruct vs as [|v vs]; cbn; intros H HF; try discriminate; [constructor|].
  apply andb_true_iff in H. destruct H as [H1 H2]. apply term_eqb_eq in H1. subst t.
  inversion HF; subst. constructor; [assumption | apply IH; assumption].
Qed.

Lemma Forall_firstn : forall (A:Type) (P:A -> Prop) n l, Forall P l -> Forall P (firstn n l).
Proof.
  intros A P n. induction n as [|n IH]; intros l H; [constructor|].
  destruct l; [constructor|]. inversion H; subst. cbn. constructor; [assumption | apply IH; assumption].
Qed.
Lemma Forall_skipn : forall (A:Type) (P:A -> Prop) n l, Forall P l -> Forall P (skipn n l).
Proof.
  intros A P n. induction n as [|n IH]; intros l H; [exact H|].
  destruct l; [constructor|]. inversion H; subst. cbn. apply IH. assumption.
Qed.

Lemma mark_top_cov : forall tbl s,
  Forall (fun e : sterm => covt tbl (fst e)) s -> Forall (fun e : sterm => covt tbl (fst e)) (mark_top s).
Proof. intros tbl [|[u m] s] H; [exact H|]. inversion H; subst. constructor; assumption. Qed.

Lemma nil_cov : forall tbl, incl (@nil N) tbl.
Proof. intros tbl z Hz. destruct Hz. Qed.

(** the invariant is kept by every call of the serialiser *)
Lemma cov_step : forall tbl tr c tbl' tr' bs,
  cov tbl tr -> ser_step tbl tr c = Some (tbl', tr', bs) -> cov tbl' tr'.
Proof.
  intros tbl tr c tbl' tr' bs Hc H. unfold ser_step in H.
  destruct (stateful_step tr c) as [tr1|] eqn:Es; [|discriminate].
  destruct (emit tbl tr c) as [[t1 b1]|] eqn:Ee; [|discriminate]. inv H.
  pose proof (emit_extends _ _ _ _ _ Ee) as [more ->].
  apply (cov_mono _ more) in Hc. set (T := tbl ++ more) in *.
  destruct Hc as [Hst Hme].
  assert (Hax : forall p, syms p = [] -> covp T p) by (intros p Hp; unfold covp; rewrite Hp; apply nil_cov).
  destruct c; cbn [stateful_step] in Es.
  - inv Es. split; [constructor; [apply Hax; reflexivity | exact Hst] | exact Hme].
  - inv Es. split; [constructor; [apply Hax; reflexivity | exact Hst] | exact Hme].
  - (* symbol *)
    inv Es. split; [constructor; [|exact Hst] | exact Hme].
    unfold covt, covp. cbn. intros z [<-|[]].
    cbn in Ee. destruct (idx_of name tbl) as [i|] eqn:Ei.
    + unfold T. apply in_or_app. left. eapply idx_from_in. exact Ei.
    + apply with_tbl_some in Ee. destruct Ee as [Et _]. unfold T in *.
      apply app_inv_head in Et. subst more. apply in_or_app. right. left. reflexivity.
  - inv Es. split; [constructor; [apply Hax; reflexivity | exact Hst] | exact Hme].
  - apply binary_inv in Es as Hs. destruct Hs as (mr & ml & s & Hs).
    destruct tr as [ph stk me cl jo]. cbn in Hs. subst stk. unfold binary in Es. cbn in Es.
    rewrite !pat_eqb_refl in Es. cbn in Es. inv Es. cbn in *.
    inversion Hst as [|? ? H1 Ht]; subst. inversion Ht as [|? ? H2 Ht']; subst.
    split; [constructor; [|exact Ht'] | exact Hme]. unfold covt, covp in *. cbn in *. apply incl_app; assumption.
  - apply binary_inv in Es as Hs. destruct Hs as (mr & ml & s & Hs).
    destruct tr as [ph stk me cl jo]. cbn in Hs. subst stk. unfold binary in Es. cbn in Es.
    rewrite !pat_eqb_refl in Es. cbn in Es. inv Es. cbn in *.
    inversion Hst as [|? ? H1 Ht]; subst. inversion Ht as [|? ? H2 Ht']; subst.
    split; [constructor; [|exact Ht'] | exact Hme]. unfold covt, covp in *. cbn in *. apply incl_app; assumption.
  - apply unary_inv in Es as Hs. destruct Hs as (m & s & Hs).
    destruct tr as [ph stk me cl jo]. cbn in Hs. subst stk. unfold unary in Es. cbn in Es.
    rewrite !pat_eqb_refl in Es. inv Es. cbn in *.
    inversion Hst as [|? ? H1 Ht]; subst. split; [constructor; [exact H1 | exact Ht] | exact Hme].
  - apply unary_inv in Es as Hs. destruct Hs as (m & s & Hs).
    destruct tr as [ph stk me cl jo]. cbn in Hs. subst stk. unfold unary in Es. cbn in Es.
    rewrite !pat_eqb_refl in Es. inv Es. cbn in *.
    inversion Hst as [|? ? H1 Ht]; subst. split; [constructor; [exact H1 | exact Ht] | exact Hme].
  - destruct tr as [ph stk me cl jo]. cbn in *.
    destruct stk as [|[ep mp] [|[eg mg] s]]; try discriminate.
    destruct (term_eqb ep (TPat p) && term_eqb eg (TPat plug)) eqn:E; [|discriminate].
    apply andb_true_iff in E. destruct E as [E1 E2]. apply term_eqb_eq in E1, E2. subst. inv Es. cbn in *.
    inversion Hst as [|? ? H1 Ht]; subst. inversion Ht as [|? ? H2 Ht']; subst.
    split; [constructor; [|exact Ht'] | exact Hme]. unfold covt, covp in *. cbn in *. apply incl_app; assumption.
  - destruct tr as [ph stk me cl jo]. cbn in *.
    destruct stk as [|[ep mp] [|[eg mg] s]]; try discriminate.
    destruct (term_eqb ep (TPat p) && term_eqb eg (TPat plug)) eqn:E; [|discriminate].
    apply andb_true_iff in E. destruct E as [E1 E2]. apply term_eqb_eq in E1, E2. subst. inv Es. cbn in *.
    inversion Hst as [|? ? H1 Ht]; subst. inversion Ht as [|? ? H2 Ht']; subst.
    split; [constructor; [|exact Ht'] | exact Hme]. unfold covt, covp in *. cbn in *. apply incl_app; assumption.
  - inv Es. split; [constructor; [apply Hax; reflexivity | exact Hst] | exact Hme].
  - inv Es. split; [constructor; [apply Hax; reflexivity | exact Hst] | exact Hme].
  - inv Es. split; [constructor; [apply Hax; reflexivity | exact Hst] | exact Hme].
  - inv Es. split; [constructor; [apply Hax; reflexivity | exact Hst] | exact Hme].
  - (* mp *)
    destruct tr as [ph stk me cl jo]. cbn in *.
    destruct stk as [|[er mr] [|[el ml] s]]; try discriminate.
    destruct (term_eqb el (TProved l) && term_eqb er (TProved r)) eqn:E; [|discriminate].
    apply andb_true_iff in E. destruct E as [E1 E2]. apply term_eqb_eq in E1, E2. subst.
    destruct (extract_imp l) as [[a b]|] eqn:Ex; [|discriminate].
    destruct (pat_eqb a r); [|discriminate]. inv Es. destruct l; cbn in Ex; try discriminate. inv Ex. cbn in *.
    inversion Hst as [|? ? H1 Ht]; subst. inversion Ht as [|? ? H2 Ht']; subst.
    split; [constructor; [|exact Ht'] | exact Hme]. unfold covt, covp in *. cbn in *.
    eapply incl_tran; [|exact H2]. apply incl_appr. apply incl_refl.
  - (* gen *)
    destruct tr as [ph stk me cl jo]. cbn in *.
    destruct stk as [|[e m] s]; try discriminate.
    destruct (term_eqb e (TProved p)) eqn:E; [|discriminate]. apply term_eqb_eq in E. subst.
    destruct (extract_imp p) as [[a b]|] eqn:Ex; [|discriminate].
    destruct (py_fresh b x); [|discriminate]. inv Es. destruct p; cbn in Ex; try discriminate. inv Ex. cbn in *.
    inversion Hst as [|? ? H1 Ht]; subst.
    split; [constructor; [exact H1 | exact Ht] | exact Hme].
  - (* instantiate *)
    apply do_instantiate_inv in Es as Hi. destruct Hi as (Hn & m & s & Hs & Hp).
    destruct tr as [ph stk me cl jo]. cbn in Hs. subst stk. cbn in Hst, Hme.
    inversion Hst as [|? ? H1 Ht]; subst.
    pose proof (plugs_cov T _ _ Hp (Forall_firstn _ _ _ _ Ht)) as Hv.
    assert (Hvs : Forall (covp T) (map snd d)).
    { apply Forall_forall. intros v Hv'. rewrite Forall_forall in Hv. apply Hv. apply in_rev in Hv'. exact Hv'. }
    unfold do_instantiate in Es. rewrite Hn in Es. cbn in Es. rewrite pat_eqb_refl in Es.
    destruct d as [|kv d'].
    + inv Es. split; [|exact Hme]. cbn. constructor; [exact H1 | exact Ht].
    + cbv iota in Es.
      match type of Es with (if ?c then _ else _) = _ => replace c with true in Es by (symmetry; exact Hp) end.
      inv Es. split; [|exact Hme]. unfold set_tstack; cbn [t_stack]. constructor; [|exact (Forall_skipn _ _ (S (length d')) s Ht)].
      unfold covt. cbn [fst pat_of_term]. apply covp_py_inst; assumption.
  - apply do_instantiate_inv in Es as Hi. destruct Hi as (Hn & m & s & Hs & Hp).
    destruct tr as [ph stk me cl jo]. cbn in Hs. subst stk. cbn in Hst, Hme.
    inversion Hst as [|? ? H1 Ht]; subst.
    pose proof (plugs_cov T _ _ Hp (Forall_firstn _ _ _ _ Ht)) as Hv.
    assert (Hvs : Forall (covp T) (map snd d)).
    { apply Forall_forall. intros v Hv'. rewrite Forall_forall in Hv. apply Hv. apply in_rev in Hv'. exact Hv'. }
    unfold do_instantiate in Es. rewrite Hn in Es. cbn in Es. rewrite pat_eqb_refl in Es.
    destruct d as [|kv d'].
    + inv Es. split; [|exact Hme]. cbn. constructor; [|exact Ht].
      unfold covt. cbn. apply covp_py_inst; [exact H1 | constructor].
    + cbv iota in Es.
      match type of Es with (if ?c then _ else _) = _ => replace c with true in Es by (symmetry; exact Hp) end.
      inv Es. split; [|exact Hme]. unfold set_tstack; cbn [t_stack]. constructor; [|exact (Forall_skipn _ _ (S (length d')) s Ht)].
      unfold covt. cbn [fst pat_of_term]. apply covp_py_inst; assumption.
  - (* pop *)
    destruct tr as [ph stk me cl jo]. cbn in *.
    destruct stk as [|[e m] s]; try discriminate. destruct (term_eqb e t); [|discriminate]. inv Es.
    inversion Hst; subst. split; assumption.
  - (* save *)
    destruct (top_is t (t_stack tr)) eqn:E; [|discriminate]. inv Es.
    apply top_is_inv in E. destruct E as (m & s & Hs). cbn. rewrite Hs in Hst.
    inversion Hst as [|? ? H1 Ht]; subst. split; [rewrite Hs; exact Hst|].
    apply Forall_app. split; [exact Hme | constructor; [exact H1 | constructor]].
  - (* load *)
    destruct (existsb (term_eqb t) (t_memory tr)) eqn:E; [|discriminate]. inv Es.
    apply existsb_exists in E. destruct E as (u & Hu & Eu). apply term_eqb_eq in Eu. subst u.
    split; [|exact Hme]. cbn. constructor; [|exact Hst]. rewrite Forall_forall in Hme. apply Hme. exact Hu.
  - (* publish proof *)
    destruct tr as [ph stk me cl jo]. cbn in *. destruct ph; try discriminate. destruct cl; try discriminate.
    destruct (_ && _); inv Es. split; [apply mark_top_cov; exact Hst | exact Hme].
  - destruct tr as [ph stk me cl jo]. cbn in *. destruct ph; try discriminate.
    destruct (top_is (TPat p) stk) eqn:E; inv Es.
    apply top_is_inv in E. destruct E as (m & s & ->). inversion Hst as [|? ? H1 Ht]; subst.
    split; [apply mark_top_cov; exact Hst|]. cbn. apply Forall_app. split; [exact Hme | constructor; [exact H1 | constructor]].
  - destruct tr as [ph stk me cl jo]. cbn in *. destruct ph; try discriminate.
    destruct (top_is (TPat p) stk) eqn:E; inv Es. split; [apply mark_top_cov; exact Hst | exact Hme].
  - destruct tr as [ph stk me cl jo]. cbn in *. destruct ph; try discriminate. inv Es. split; [constructor | exact Hme].
  - destruct tr as [ph stk me cl jo]. cbn in *. destruct ph; try discriminate. inv Es. split; [constructor | exact Hme].
Qed.

Lemma pub_cov_step : forall tbl tr c tr',
  cov tbl tr -> stateful_step tr c = Some tr' -> Forall (covp tbl) (pub_of [c]).
Proof.
  intros tbl tr c tr' [Hst _] Es.
  destruct c; cbn [pub_of]; try constructor; try constructor; cbn [stateful_step] in Es.
  - destruct (t_phase tr); try discriminate. destruct (t_claims tr); try discriminate.
    destruct (pat_eqb p p0 && top_is (TProved p) (t_stack tr)) eqn:E; [|discriminate].
    apply andb_true_iff in E. destruct E as [_ E]. apply top_is_inv in E. destruct E as (m & s & Hs).
    rewrite Hs in Hst. inversion Hst; subst. assumption.
  - destruct (t_phase tr); try discriminate.
    destruct (top_is (TPat p) (t_stack tr)) eqn:E; [|discriminate].
    apply top_is_inv in E. destruct E as (m & s & Hs). rewrite Hs in Hst. inversion Hst; subst. assumption.
  - destruct (t_phase tr); try discriminate.
    destruct (top_is (TPat p) (t_stack tr)) eqn:E; [|discriminate].
    apply top_is_inv in E. destruct E as (m & s & Hs). rewrite Hs in Hst. inversion Hst; subst. assumption.
Qed.

Lemma pub_cov_run : forall cs tbl tr tblF trF bs,
  ser_run tbl tr cs = Some (tblF, trF, bs) -> cov tbl tr ->
  cov tblF trF /\ Forall (covp tblF) (pub_of cs).
Proof.
  induction cs as [|c cs IH]; intros tbl tr tblF trF bs H Hc; cbn [ser_run] in H.
  - inv H. split; [exact Hc | constructor].
  - destruct (is_switch c); [discriminate|].
    destruct (ser_step tbl tr c) as [[[t1 tr1] b1]|] eqn:E1; [|discriminate].
    destruct (ser_run t1 tr1 cs) as [[[t2 tr2] b2]|] eqn:E2; [|discriminate]. inv H.
    pose proof (cov_step _ _ _ _ _ _ Hc E1) as Hc1.
    destruct (IH _ _ _ _ _ E2 Hc1) as [HcF Hp]. split; [exact HcF|].
    change (c :: cs) with ([c] ++ cs). rewrite pub_of_app. apply Forall_app. split; [|exact Hp].
    pose proof (ser_step_extends _ _ _ _ _ _ E1) as [m1 ->].
    pose proof (ser_run_extends _ _ _ _ _ _ E2) as [m2 ->].
    unfold ser_step in E1. destruct (stateful_step tr c) as [tr1'|] eqn:Es; [|discriminate].
    pose proof (pub_cov_step _ _ _ _ Hc Es) as Hpc.
    eapply Forall_impl; [|exact Hpc]. intros a Ha. rewrite <- app_assoc. apply covp_mono. exact Ha.
Qed.

(** decoding the numbers of a file back to names *)
Definition name_of (tbl:symtab) (i:N) : N := nth (N.to_nat i) tbl 0.
Definition unrn (tbl:symtab) (p:pat) : pat := rn (name_of tbl) p.

Lemma unrn_rn : forall tbl p, covp tbl p -> unrn tbl (rn (numbering tbl) p) = p.
Proof.
  unfold unrn, covp. induction p; intro H; cbn in *; try reflexivity.
  - f_equal. assert (Hin : In n tbl) by (apply H; left; reflexivity).
    destruct (in_idx_from tbl 0 n Hin) as [i Hi]. unfold numbering, idx_of. rewrite Hi.
    unfold name_of. rewrite Nat2N.id. apply nth_error_nth. apply idx_of_nth. exact Hi.
  - rewrite IHp1, IHp2; [reflexivity | |]; eapply incl_tran; try exact H; [apply incl_appr | apply incl_appl]; apply incl_refl.
  - rewrite IHp1, IHp2; [reflexivity | |]; eapply incl_tran; try exact H; [apply incl_appr | apply incl_appl]; apply incl_refl.
  - rewrite IHp; [reflexivity | exact H].
  - rewrite IHp; [reflexivity | exact H].
  - rewrite IHp1, IHp2; [reflexivity | |]; eapply incl_tran; try exact H; [apply incl_appr | apply incl_appl]; apply incl_refl.
  - rewrite IHp1, IHp2; [reflexivity | |]; eapply incl_tran; try exact H; [apply incl_appr | apply incl_appl]; apply incl_refl.
Qed.

Lemma map_unrn_rn : forall tbl l, Forall (covp tbl) l -> map (unrn tbl) (map (rn (numbering tbl)) l) = l.
Proof.
  induction l as [|p l IH]; intro H; [reflexivity|]. inversion H; subst. cbn.
  rewrite unrn_rn by assumption. rewrite IH by assumption. reflexivity.
Qed.

Lemma cov_fresh : forall ph cl, cov [] (fresh_tracker ph cl).
Proof. intros. split; constructor. Qed.

(** the gamma file, decoded with the table of its own serialisation, IS the declared theory --
    whatever the memoiser chose to save and load *)
Theorem gamma_exact_names : forall sel m cl cs mem1 t1 tr1 gb,
  mgamma_calls sel m = Some (cs, mem1) ->
  ser_run [] (fresh_tracker Gamma cl) cs = Some (t1, tr1, gb) -> wf_run (fresh_tracker Gamma cl) cs ->
  map (unrn t1) (gamma_axioms g0 gb) = map expand (flat_axioms m).
Proof.
  intros sel m cl cs mem1 t1 tr1 gb Hc H Hwf.
  rewrite (gamma_exact_opt (numbering t1) sel m cl cs mem1 t1 tr1 gb Hc H Hwf (numbering_agrees t1)).
  apply map_unrn_rn.
  destruct (pub_cov_run _ _ _ _ _ _ H (cov_fresh Gamma cl)) as [_ Hp].
  unfold mgamma_calls in Hc. rewrite (pub_of_maxioms_calls _ _ _ _ _ Hc) in Hp. exact Hp.
Qed.

Theorem gamma_exact_names_plain : forall m cl cs t1 tr1 gb,
  gamma_calls m = Some cs ->
  ser_run [] (fresh_tracker Gamma cl) cs = Some (t1, tr1, gb) -> wf_run (fresh_tracker Gamma cl) cs ->
  map (unrn t1) (gamma_axioms g0 gb) = map expand (flat_axioms m).
Proof.
  intros m cl cs t1 tr1 gb Hc H Hwf.
  rewrite (gamma_exact (numbering t1) m cl cs t1 tr1 gb Hc H Hwf (numbering_agrees t1)).
  apply map_unrn_rn.
  destruct (pub_cov_run _ _ _ _ _ _ H (cov_fresh Gamma cl)) as [_ Hp].
  unfold gamma_calls in Hc. rewrite (pub_of_axioms_calls _ _ Hc) in Hp. exact Hp.
Qed.

(** optimisation is irrelevant to what is published: the two gamma files decode to the same theory *)
Theorem opt_irrelevant_gamma : forall sel m cl cs1 t1 tr1 gb1 cs2 mem2 t2 tr2 gb2,
  gamma_calls m = Some cs1 ->
  ser_run [] (fresh_tracker Gamma cl) cs1 = Some (t1, tr1, gb1) -> wf_run (fresh_tracker Gamma cl) cs1 ->
  mgamma_calls sel m = Some (cs2, mem2) ->
  ser_run [] (fresh_tracker Gamma cl) cs2 = Some (t2, tr2, gb2) -> wf_run (fresh_tracker Gamma cl) cs2 ->
  map (unrn t1) (gamma_axioms g0 gb1) = map (unrn t2) (gamma_axioms g0 gb2).
Proof.
  intros. erewrite gamma_exact_names_plain by eassumption. erewrite gamma_exact_names by eassumption. reflexivity.
Qed.

Theorem opt_irrelevant_claims : forall sel m cl
    gcs1 t1 tr1 gb1 tr1' ccs1 u1 ur1 cb1
    gcs2 mem2 t2 tr2 gb2 tr2' ccs2 mem3 u2 ur2 cb2,
  ser_run [] (fresh_tracker Gamma cl) gcs1 = Some (t1, tr1, gb1) -> wf_run (fresh_tracker Gamma cl) gcs1 ->
  stateful_step tr1 CIntoClaim = Some tr1' -> claim_calls m = Some ccs1 ->
  ser_run t1 tr1' ccs1 = Some (u1, ur1, cb1) -> wf_run tr1' ccs1 ->
  ser_run [] (fresh_tracker Gamma cl) gcs2 = Some (t2, tr2, gb2) -> wf_run (fresh_tracker Gamma cl) gcs2 ->
  stateful_step tr2 CIntoClaim = Some tr2' -> mclaim_calls sel m mem2 = Some (ccs2, mem3) ->
  ser_run t2 tr2' ccs2 = Some (u2, ur2, cb2) -> wf_run tr2' ccs2 ->
  map (unrn u1) (declared_claims g0 gb1 cb1) = map expand (m_claims m) /\
  map (unrn u2) (declared_claims g0 gb2 cb2) = map expand (m_claims m).
Proof.
  intros sel m cl gcs1 t1 tr1 gb1 tr1' ccs1 u1 ur1 cb1 gcs2 mem2 t2 tr2 gb2 tr2' ccs2 mem3 u2 ur2 cb2
         G1 W1 S1 C1 H1 V1 G2 W2 S2 C2 H2 V2.
  assert (cov_claim : forall t tr tr', cov t tr -> stateful_step tr CIntoClaim = Some tr' -> cov t tr').
  { intros t [ph s me c jo] tr' [_ Hm] Hs. cbn in Hs. destruct ph; try discriminate. inv Hs.
    split; [constructor | exact Hm]. }
  split.
  - destruct (claims_exact (numbering u1) m cl gcs1 t1 tr1 gb1 tr1' ccs1 u1 ur1 cb1 G1 W1 S1 C1 H1 V1
                (numbering_agrees u1)) as (s1 & _ & _ & Hd).
    rewrite Hd. apply map_unrn_rn.
    destruct (pub_cov_run _ _ _ _ _ _ G1 (cov_fresh Gamma cl)) as [Hc1 _].
    destruct (pub_cov_run _ _ _ _ _ _ H1 (cov_claim _ _ _ Hc1 S1)) as [_ Hp].
    unfold claim_calls in C1. rewrite (pub_of_claims_calls _ _ C1) in Hp.
    rewrite map_rev in Hp. apply Forall_rev in Hp. rewrite rev_involutive in Hp. exact Hp.
  - rewrite (claims_exact_opt (numbering u2) sel m cl gcs2 t2 tr2 gb2 tr2' mem2 ccs2 mem3 u2 ur2 cb2
               G2 W2 S2 C2 H2 V2 (numbering_agrees u2)).
    apply map_unrn_rn.
    destruct (pub_cov_run _ _ _ _ _ _ G2 (cov_fresh Gamma cl)) as [Hc1 _].
    destruct (pub_cov_run _ _ _ _ _ _ H2 (cov_claim _ _ _ Hc1 S2)) as [_ Hp].
    unfold mclaim_calls in C2. rewrite (pub_of_mclaims_calls _ _ _ _ _ C2) in Hp.
    rewrite map_rev in Hp. apply Forall_rev in Hp. rewrite rev_involutive in Hp. exact Hp.
Qed.

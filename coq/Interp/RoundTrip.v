(** C14: the deserialiser replays what the serialiser wrote (proofs). *)
From Coq Require Import NArith List Bool Lia Arith.
From Pi2 Require Import ML.Syntax ML.Subst ML.Machine Interp.Calls Interp.Facts.
Import ListNotations.
Open Scope N_scope.

Ltac inv H := inversion H; subst; clear H.

(* ------------------------------------------------------------------------------------------ *)
(** * The tracker step commutes with symbol renaming *)

Section StepRn.
Variable f : N -> N.

Lemma plugs_match_rn : forall s vs,
  plugs_match s vs = true -> plugs_match (map (rn_sterm f) s) (map (rn f) vs) = true.
Proof.
  induction s as [|[t m] s IH]; destruct vs as [|v vs]; cbn; intro H; try discriminate; try reflexivity.
  apply andb_true_iff in H. destruct H as [H1 H2]. apply term_eqb_eq in H1. subst t. cbn.
  rewrite pat_eqb_refl. cbn. apply IH. exact H2.
Qed.

Lemma binary_rn : forall (mk:pat -> pat -> pat) l r tr tr',
  (forall a b, rn f (mk a b) = mk (rn f a) (rn f b)) ->
  binary mk l r tr = Some tr' ->
  binary mk (rn f l) (rn f r) (rn_tracker f tr) = Some (rn_tracker f tr').
Proof.
  intros mk l r [ph st me cl jo] tr' Hmk H. unfold binary in *. cbn in *.
  destruct st as [|[er mr] [|[el ml] s]]; try discriminate. cbn.
  destruct (term_eqb el (TPat l) && term_eqb er (TPat r)) eqn:E; [|discriminate].
  apply andb_true_iff in E. destruct E as [E1 E2]. apply term_eqb_eq in E1, E2. subst. inv H.
  cbn. rewrite !pat_eqb_refl. cbn. unfold rn_tracker, set_tstack. cbn. rewrite Hmk. reflexivity.
Qed.

Lemma unary_rn : forall (mk:pat -> pat) p tr tr',
  (forall a, rn f (mk a) = mk (rn f a)) ->
  unary mk p tr = Some tr' ->
  unary mk (rn f p) (rn_tracker f tr) = Some (rn_tracker f tr').
Proof.
  intros mk p [ph st me cl jo] tr' Hmk H. unfold unary in *. cbn in *.
  destruct st as [|[e m] s]; try discriminate. cbn.
  destruct (term_eqb e (TPat p)) eqn:E; [|discriminate].
  apply term_eqb_eq in E. subst. inv H.
  cbn. rewrite !pat_eqb_refl. unfold rn_tracker, set_tstack. cbn. rewrite Hmk. reflexivity.
Qed.

Lemma rn_term_if : forall (b:bool) p q,
  rn_term f (if b then TProved p else TPat q) = if b then TProved (rn f p) else TPat (rn f q).
Proof. destruct b; reflexivity. Qed.

Lemma do_instantiate_rn : forall b p d tr tr',
  do_instantiate b p d tr = Some tr' ->
  do_instantiate b (rn f p) (rn_delta f d) (rn_tracker f tr) = Some (rn_tracker f tr').
Proof.
  intros b p d [ph st me cl jo] tr' H. unfold do_instantiate in *. cbn [t_stack rn_tracker] in *.
  rewrite nodup_keys_rn. destruct (negb (nodup_keys d)); [discriminate|].
  destruct st as [|[t m] s]; [discriminate|]. cbn [map rn_sterm fst snd].
  destruct (term_eqb t (if b then TProved p else TPat p)) eqn:E; [|discriminate].
  apply term_eqb_eq in E. subst t. rewrite rn_term_if, term_eqb_refl.
  destruct d as [|kv d].
  - cbn [rn_delta map]. destruct b.
    + destruct s; [|discriminate]. inv H. reflexivity.
    + inv H. cbn. reflexivity.
  - remember (kv :: d) as dd eqn:Edd.
    assert (Hnn : rn_delta f dd = (fst kv, rn f (snd kv)) :: rn_delta f d) by (subst dd; reflexivity).
    rewrite Hnn. rewrite <- Hnn. clear Hnn.
    rewrite length_rn_delta, map_snd_rn_delta, <- map_rev, firstn_map.
    destruct (plugs_match (firstn (length dd) s) (rev (map snd dd))) eqn:E; [|subst dd; discriminate].
    rewrite (plugs_match_rn _ _ E).
    assert (H' : Some (set_tstack (((if b then TProved (py_inst p dd) else TPat (py_inst p dd)), false)
                                   :: skipn (length dd) s) (mktr ph ((if b then TProved p else TPat p, m) :: s) me cl jo)) = Some tr')
      by (subst dd; exact H).
    inv H'. unfold set_tstack, rn_tracker. cbn. rewrite skipn_map, <- rn_py_inst.
    destruct b; reflexivity.
Qed.

Lemma top_is_rn : forall t s, top_is t s = true -> top_is (rn_term f t) (map (rn_sterm f) s) = true.
Proof.
  intros t [|[u m] s] H; cbn in *; [discriminate|]. apply term_eqb_rn. exact H.
Qed.

Lemma mark_top_rn : forall s, map (rn_sterm f) (mark_top s) = mark_top (map (rn_sterm f) s).
Proof. intros [|[u m] s]; reflexivity. Qed.

Lemma existsb_term_rn : forall t m,
  existsb (term_eqb t) m = true -> existsb (term_eqb (rn_term f t)) (map (rn_term f) m) = true.
Proof.
  induction m as [|u m IH]; cbn; intro H; [discriminate|].
  apply orb_true_iff in H. destruct H as [H|H].
  - rewrite (term_eqb_rn f _ _ H). reflexivity.
  - rewrite (IH H). apply orb_true_r.
Qed.

Lemma extract_imp_rn : forall p a b, extract_imp p = Some (a, b) -> extract_imp (rn f p) = Some (rn f a, rn f b).
Proof. intros p a b H. destruct p; cbn in *; try discriminate. inv H. reflexivity. Qed.

Theorem stateful_step_rn : forall tr c tr',
  stateful_step tr c = Some tr' ->
  stateful_step (rn_tracker f tr) (rn_call f c) = Some (rn_tracker f tr').
Proof.
  intros tr c tr' H. destruct c; cbn [stateful_step rn_call] in *.
  - inv H. reflexivity.
  - inv H. reflexivity.
  - inv H. reflexivity.
  - inv H. reflexivity.
  - apply binary_rn; [reflexivity | exact H].
  - apply binary_rn; [reflexivity | exact H].
  - apply (unary_rn (Ex x)); [reflexivity | exact H].
  - apply (unary_rn (Mu X)); [reflexivity | exact H].
  - destruct tr as [ph st me cl jo]. cbn in *.
    destruct st as [|[ep mp] [|[eg mg] s]]; try discriminate. cbn.
    destruct (term_eqb ep (TPat p) && term_eqb eg (TPat plug)) eqn:E; [|discriminate].
    apply andb_true_iff in E. destruct E as [E1 E2]. apply term_eqb_eq in E1, E2. subst. inv H.
    cbn. rewrite !pat_eqb_refl. reflexivity.
  - destruct tr as [ph st me cl jo]. cbn in *.
    destruct st as [|[ep mp] [|[eg mg] s]]; try discriminate. cbn.
    destruct (term_eqb ep (TPat p) && term_eqb eg (TPat plug)) eqn:E; [|discriminate].
    apply andb_true_iff in E. destruct E as [E1 E2]. apply term_eqb_eq in E1, E2. subst. inv H.
    cbn. rewrite !pat_eqb_refl. reflexivity.
  - inv H. reflexivity.
  - inv H. reflexivity.
  - inv H. reflexivity.
  - inv H. reflexivity.
  - (* modus ponens *)
    destruct tr as [ph st me cl jo]. cbn in *.
    destruct st as [|[er mr] [|[el ml] s]]; try discriminate. cbn.
    destruct (term_eqb el (TProved l) && term_eqb er (TProved r)) eqn:E; [|discriminate].
    apply andb_true_iff in E. destruct E as [E1 E2]. apply term_eqb_eq in E1, E2. subst.
    destruct (extract_imp l) as [[a b]|] eqn:Ex; [|discriminate].
    destruct (pat_eqb a r) eqn:Ea; [|discriminate]. inv H.
    cbn. rewrite !pat_eqb_refl. cbn. rewrite (extract_imp_rn _ _ _ Ex), (pat_eqb_rn f _ _ Ea). reflexivity.
  - (* generalization *)
    destruct tr as [ph st me cl jo]. cbn in *.
    destruct st as [|[e m] s]; try discriminate. cbn.
    destruct (term_eqb e (TProved p)) eqn:E; [|discriminate]. apply term_eqb_eq in E. subst.
    destruct (extract_imp p) as [[a b]|] eqn:Ex; [|discriminate].
    unfold py_fresh in *. destruct (e_fresh b x) eqn:Ef; [|discriminate]. inv H.
    cbn. rewrite pat_eqb_refl, (extract_imp_rn _ _ _ Ex), rn_e_fresh, Ef. reflexivity.
  - apply do_instantiate_rn. exact H.
  - apply do_instantiate_rn. exact H.
  - (* pop *)
    destruct tr as [ph st me cl jo]. cbn in *.
    destruct st as [|[e m] s]; try discriminate. cbn.
    destruct (term_eqb e t) eqn:E; [|discriminate]. inv H.
    rewrite (term_eqb_rn f _ _ E). reflexivity.
  - (* save *)
    destruct (top_is t (t_stack tr)) eqn:E; [|discriminate]. inv H.
    destruct tr as [ph st me cl jo]. cbn in *. rewrite (top_is_rn _ _ E).
    unfold rn_tracker. cbn. rewrite map_app. reflexivity.
  - (* load *)
    destruct (existsb (term_eqb t) (t_memory tr)) eqn:E; [|discriminate]. inv H.
    destruct tr as [ph st me cl jo]. cbn in *. rewrite (existsb_term_rn _ _ E). reflexivity.
  - (* publish proof *)
    destruct tr as [ph st me cl jo]. cbn in *.
    destruct ph; try discriminate. destruct cl as [|c cs]; [discriminate|].
    destruct (pat_eqb p c && top_is (TProved p) st) eqn:E; [|discriminate]. inv H.
    apply andb_true_iff in E. destruct E as [E1 E2].
    cbn. rewrite (pat_eqb_rn f _ _ E1). rewrite (top_is_rn (TProved p) _ E2). cbn.
    unfold rn_tracker. cbn. rewrite mark_top_rn. reflexivity.
  - (* publish axiom *)
    destruct tr as [ph st me cl jo]. cbn in *.
    destruct ph; try discriminate.
    destruct (top_is (TPat p) st) eqn:E; [|discriminate]. inv H.
    rewrite (top_is_rn (TPat p) _ E). unfold rn_tracker. cbn. rewrite mark_top_rn, map_app. reflexivity.
  - (* publish claim *)
    destruct tr as [ph st me cl jo]. cbn in *.
    destruct ph; try discriminate.
    destruct (top_is (TPat p) st) eqn:E; [|discriminate]. inv H.
    rewrite (top_is_rn (TPat p) _ E). unfold rn_tracker. cbn. rewrite mark_top_rn. reflexivity.
  - destruct tr as [ph st me cl jo]. cbn in *. destruct ph; try discriminate. inv H. reflexivity.
  - destruct tr as [ph st me cl jo]. cbn in *. destruct ph; try discriminate. inv H. reflexivity.
Qed.

End StepRn.

(** C14: the deserialiser replays what the serialiser wrote (proofs). *)
From Coq Require Import NArith List Bool Lia Arith.
From Pi2 Require Import ML.Syntax ML.Subst ML.Machine Interp.Calls Interp.Facts.
Import ListNotations.
Open Scope N_scope.

Ltac inv H := inversion H; subst; clear H.

(* ------------------------------------------------------------------------------------------ *)
(** * The tracker step commutes with symbol renaming *)

Section StepRn.
Variable f : N -> N.

Lemma plugs_match_rn : forall s vs,
  plugs_match s vs = true -> plugs_match (map (rn_sterm f) s) (map (rn f) vs) = true.
Proof.
  induction s as [|[t m] s IH]; destruct vs as [|v vs]; cbn; intro H; try discriminate; try reflexivity.
  apply andb_true_iff in H. destruct H as [H1 H2]. apply term_eqb_eq in H1. subst t. cbn.
  rewrite pat_eqb_refl. cbn. apply IH. exact H2.
Qed.

Lemma binary_rn : forall (mk:pat -> pat -> pat) l r tr tr',
  (forall a b, rn f (mk a b) = mk (rn f a) (rn f b)) ->
  binary mk l r tr = Some tr' ->
  binary mk (rn f l) (rn f r) (rn_tracker f tr) = Some (rn_tracker f tr').
Proof.
  intros mk l r [ph st me cl jo] tr' Hmk H. unfold binary in *. cbn in *.
  destruct st as [|[er mr] [|[el ml] s]]; try discriminate. cbn.
  destruct (term_eqb el (TPat l) && term_eqb er (TPat r)) eqn:E; [|discriminate].
  apply andb_true_iff in E. destruct E as [E1 E2]. apply term_eqb_eq in E1, E2. subst. inv H.
  cbn. rewrite !pat_eqb_refl. cbn. unfold rn_tracker, set_tstack, rn_sterm. cbn. rewrite Hmk. reflexivity.
Qed.

Lemma unary_rn : forall (mk:pat -> pat) p tr tr',
  (forall a, rn f (mk a) = mk (rn f a)) ->
  unary mk p tr = Some tr' ->
  unary mk (rn f p) (rn_tracker f tr) = Some (rn_tracker f tr').
Proof.
  intros mk p [ph st me cl jo] tr' Hmk H. unfold unary in *. cbn in *.
  destruct st as [|[e m] s]; try discriminate. cbn.
  destruct (term_eqb e (TPat p)) eqn:E; [|discriminate].
  apply term_eqb_eq in E. subst. inv H.
  cbn. rewrite !pat_eqb_refl. unfold rn_tracker, set_tstack, rn_sterm. cbn. rewrite Hmk. reflexivity.
Qed.

Lemma rn_term_if : forall (b:bool) p q,
  rn_term f (if b then TProved p else TPat q) = if b then TProved (rn f p) else TPat (rn f q).
Proof. destruct b; reflexivity. Qed.

Lemma do_instantiate_rn : forall b p d tr tr',
  do_instantiate b p d tr = Some tr' ->
  do_instantiate b (rn f p) (rn_delta f d) (rn_tracker f tr) = Some (rn_tracker f tr').
Proof.
  intros b p d [ph st me cl jo] tr' H. unfold do_instantiate in *. cbn [t_stack rn_tracker] in *.
  rewrite nodup_keys_rn. destruct (negb (nodup_keys d)); [discriminate|].
  destruct st as [|[t m] s]; [discriminate|]. cbn [map rn_sterm fst snd].
  destruct (term_eqb t (if b then TProved p else TPat p)) eqn:E; [|discriminate].
  apply term_eqb_eq in E. subst t. rewrite rn_term_if, term_eqb_refl.
  destruct d as [|kv d].
  - cbn [rn_delta map]. destruct b.
    + inv H. reflexivity.
    + inv H. unfold set_tstack, rn_tracker, rn_sterm. cbn. rewrite (rn_py_inst f p []). reflexivity.
  - change (rn_delta f (kv :: d)) with ((fst kv, rn f (snd kv)) :: rn_delta f d).
    cbv iota in H. cbv iota.
    change ((fst kv, rn f (snd kv)) :: rn_delta f d) with (rn_delta f (kv :: d)).
    set (dd := kv :: d) in *. clearbody dd.
    rewrite length_rn_delta, map_snd_rn_delta, <- map_rev, firstn_map.
    destruct (plugs_match (firstn (length dd) s) (rev (map snd dd))) eqn:E; [|discriminate].
    rewrite (plugs_match_rn _ _ E). inv H.
    unfold set_tstack, rn_tracker.
    cbn [t_phase t_stack t_memory t_claims t_journal map].
    rewrite skipn_map. unfold rn_sterm at 2. cbn [fst snd]. rewrite rn_term_if, <- rn_py_inst. reflexivity.
Qed.

Lemma top_is_rn : forall t s, top_is t s = true -> top_is (rn_term f t) (map (rn_sterm f) s) = true.
Proof.
  intros t [|[u m] s] H; cbn in *; [discriminate|]. apply term_eqb_rn. exact H.
Qed.

Lemma mark_top_rn : forall s, map (rn_sterm f) (mark_top s) = mark_top (map (rn_sterm f) s).
Proof. intros [|[u m] s]; reflexivity. Qed.

Lemma existsb_term_rn : forall t m,
  existsb (term_eqb t) m = true -> existsb (term_eqb (rn_term f t)) (map (rn_term f) m) = true.
Proof.
  induction m as [|u m IH]; cbn; intro H; [discriminate|].
  apply orb_true_iff in H. destruct H as [H|H].
  - rewrite (term_eqb_rn f _ _ H). reflexivity.
  - rewrite (IH H). apply orb_true_r.
Qed.

Lemma extract_imp_rn : forall p a b, extract_imp p = Some (a, b) -> extract_imp (rn f p) = Some (rn f a, rn f b).
Proof. intros p a b H. destruct p; cbn in *; try discriminate. inv H. reflexivity. Qed.

Theorem stateful_step_rn : forall tr c tr',
  stateful_step tr c = Some tr' ->
  stateful_step (rn_tracker f tr) (rn_call f c) = Some (rn_tracker f tr').
Proof.
  intros tr c tr' H. destruct c; cbn [stateful_step rn_call] in *.
  - inv H. reflexivity.
  - inv H. reflexivity.
  - inv H. reflexivity.
  - inv H. reflexivity.
  - apply binary_rn; [reflexivity | exact H].
  - apply binary_rn; [reflexivity | exact H].
  - apply (unary_rn (Ex x)); [reflexivity | exact H].
  - apply (unary_rn (Mu X)); [reflexivity | exact H].
  - destruct tr as [ph st me cl jo]. cbn in *.
    destruct st as [|[ep mp] [|[eg mg] s]]; try discriminate. cbn.
    destruct (term_eqb ep (TPat p) && term_eqb eg (TPat plug)) eqn:E; [|discriminate].
    apply andb_true_iff in E. destruct E as [E1 E2]. apply term_eqb_eq in E1, E2. subst. inv H.
    cbn. rewrite !pat_eqb_refl. reflexivity.
  - destruct tr as [ph st me cl jo]. cbn in *.
    destruct st as [|[ep mp] [|[eg mg] s]]; try discriminate. cbn.
    destruct (term_eqb ep (TPat p) && term_eqb eg (TPat plug)) eqn:E; [|discriminate].
    apply andb_true_iff in E. destruct E as [E1 E2]. apply term_eqb_eq in E1, E2. subst. inv H.
    cbn. rewrite !pat_eqb_refl. reflexivity.
  - inv H. reflexivity.
  - inv H. reflexivity.
  - inv H. reflexivity.
  - inv H. reflexivity.
  - (* modus ponens *)
    destruct tr as [ph st me cl jo]. cbn in *.
    destruct st as [|[er mr] [|[el ml] s]]; try discriminate. cbn.
    destruct (term_eqb el (TProved l) && term_eqb er (TProved r)) eqn:E; [|discriminate].
    apply andb_true_iff in E. destruct E as [E1 E2]. apply term_eqb_eq in E1, E2. subst.
    destruct (extract_imp l) as [[a b]|] eqn:Ex; [|discriminate].
    destruct (pat_eqb a r) eqn:Ea; [|discriminate]. inv H.
    cbn. rewrite !pat_eqb_refl. cbn. rewrite (extract_imp_rn _ _ _ Ex), (pat_eqb_rn f _ _ Ea). reflexivity.
  - (* generalization *)
    destruct tr as [ph st me cl jo]. cbn in *.
    destruct st as [|[e m] s]; try discriminate. cbn.
    destruct (term_eqb e (TProved p)) eqn:E; [|discriminate]. apply term_eqb_eq in E. subst.
    destruct (extract_imp p) as [[a b]|] eqn:Ex; [|discriminate].
    unfold py_fresh in *. destruct (e_fresh b x) eqn:Ef; [|discriminate]. inv H.
    cbn. rewrite pat_eqb_refl, (extract_imp_rn _ _ _ Ex), rn_e_fresh, Ef. reflexivity.
  - apply do_instantiate_rn. exact H.
  - apply do_instantiate_rn. exact H.
  - (* pop *)
    destruct tr as [ph st me cl jo]. cbn in *.
    destruct st as [|[e m] s]; try discriminate. cbn.
    destruct (term_eqb e t) eqn:E; [|discriminate]. inv H.
    rewrite (term_eqb_rn f _ _ E). reflexivity.
  - (* save *)
    destruct (top_is t (t_stack tr)) eqn:E; [|discriminate]. inv H.
    destruct tr as [ph st me cl jo]. cbn in *. rewrite (top_is_rn _ _ E).
    unfold rn_tracker. cbn. rewrite map_app. reflexivity.
  - (* load *)
    destruct (existsb (term_eqb t) (t_memory tr)) eqn:E; [|discriminate]. inv H.
    destruct tr as [ph st me cl jo]. cbn in *. rewrite (existsb_term_rn _ _ E). reflexivity.
  - (* publish proof *)
    destruct tr as [ph st me cl jo]. cbn in *.
    destruct ph; try discriminate. destruct cl as [|c cs]; [discriminate|].
    destruct (pat_eqb p c && top_is (TProved p) st) eqn:E; [|discriminate]. inv H.
    apply andb_true_iff in E. destruct E as [E1 E2].
    cbn. rewrite (pat_eqb_rn f _ _ E1). pose proof (top_is_rn (TProved p) _ E2) as E2'. cbn [rn_term] in E2'. rewrite E2'. cbn.
    unfold rn_tracker. cbn. rewrite mark_top_rn. reflexivity.
  - (* publish axiom *)
    destruct tr as [ph st me cl jo]. cbn in *.
    destruct ph; try discriminate.
    destruct (top_is (TPat p) st) eqn:E; [|discriminate]. inv H.
    pose proof (top_is_rn (TPat p) _ E) as E'. cbn [rn_term] in E'. rewrite E'. unfold rn_tracker. cbn. rewrite mark_top_rn, map_app. reflexivity.
  - (* publish claim *)
    destruct tr as [ph st me cl jo]. cbn in *.
    destruct ph; try discriminate.
    destruct (top_is (TPat p) st) eqn:E; [|discriminate]. inv H.
    pose proof (top_is_rn (TPat p) _ E) as E'. cbn [rn_term] in E'. rewrite E'. unfold rn_tracker. cbn. rewrite mark_top_rn. reflexivity.
  - destruct tr as [ph st me cl jo]. cbn in *. destruct ph; try discriminate. inv H. reflexivity.
  - destruct tr as [ph st me cl jo]. cbn in *. destruct ph; try discriminate. inv H. reflexivity.
Qed.

End StepRn.

(* ------------------------------------------------------------------------------------------ *)
(** * The symbol table *)

Definition agrees (f:N -> N) (tbl:symtab) : Prop :=
  forall name i, idx_of name tbl = Some i -> f name = N.of_nat i.

Lemma idx_from_app_hit : forall tbl more k name i,
  idx_from k name tbl = Some i -> idx_from k name (tbl ++ more) = Some i.
Proof.
  induction tbl as [|n tbl IH]; intros more k name i H; cbn in *; [discriminate|].
  destruct (N.eqb n name); [exact H | apply IH; exact H].
Qed.

Lemma idx_from_app_miss : forall tbl k name,
  idx_from k name tbl = None -> idx_from k name (tbl ++ [name]) = Some (k + length tbl)%nat.
Proof.
  induction tbl as [|n tbl IH]; intros k name H; cbn in *.
  - rewrite N.eqb_refl. f_equal. lia.
  - destruct (N.eqb n name); [discriminate|]. rewrite IH by exact H. f_equal. lia.
Qed.

Lemma agrees_prefix : forall f tbl more, agrees f (tbl ++ more) -> agrees f tbl.
Proof.
  intros f tbl more H name i Hi. apply H. unfold idx_of in *. apply idx_from_app_hit. exact Hi.
Qed.

Lemma numbering_agrees : forall tbl, agrees (numbering tbl) tbl.
Proof. intros tbl name i H. unfold numbering. rewrite H. reflexivity. Qed.

Lemma bytes_some : forall l l', bytes l = Some l' -> l' = l.
Proof. intros l l' H. unfold bytes in H. destruct (forallb byte_ok l); congruence. Qed.

Lemma with_tbl_some : forall tbl o tbl' bs,
  with_tbl tbl o = Some (tbl', bs) -> tbl' = tbl /\ o = Some bs.
Proof. intros tbl [l|] tbl' bs H; cbn in H; inv H. split; reflexivity. Qed.

Lemma emit_extends : forall tbl tr c tbl' bs,
  emit tbl tr c = Some (tbl', bs) -> exists more, tbl' = tbl ++ more.
Proof.
  intros tbl tr c tbl' bs H.
  destruct c; cbn in H;
    try (apply with_tbl_some in H; destruct H as [-> _]; exists []; rewrite app_nil_r; reflexivity);
    try (inv H; exists []; rewrite app_nil_r; reflexivity).
  - destruct (idx_of name tbl).
    + apply with_tbl_some in H. destruct H as [-> _]. exists []. rewrite app_nil_r. reflexivity.
    + apply with_tbl_some in H. destruct H as [-> _]. exists [name]. reflexivity.
  - destruct (is_nil ef && is_nil sf && is_nil pos && is_nil neg && is_nil holes);
      apply with_tbl_some in H; destruct H as [-> _]; exists []; rewrite app_nil_r; reflexivity.
  - destruct (index_of t (t_memory tr)); [|discriminate].
    apply with_tbl_some in H. destruct H as [-> _]. exists []. rewrite app_nil_r. reflexivity.
Qed.

(* ------------------------------------------------------------------------------------------ *)
(** * Operand readers on what the serialiser wrote *)

Lemma take_n_app : forall l r, take_n (length l) (l ++ r) = Some (l, r).
Proof. induction l as [|x l IH]; intro r; cbn; [reflexivity | rewrite IH; reflexivity]. Qed.

Lemma read_vec_vec : forall l r, read_vec (vec l ++ r) = Some (l, r).
Proof. intros l r. unfold vec, read_vec. cbn. rewrite Nat2N.id. apply take_n_app. Qed.

Lemma take_n_short : forall n bs, (length bs < n)%nat -> take_n n bs = None.
Proof.
  induction n as [|n IH]; intros bs H; [lia|]. destruct bs as [|b bs]; cbn; [reflexivity|].
  rewrite IH; [reflexivity | cbn in H; lia].
Qed.

Lemma index_from_nth : forall m k t i,
  index_from k t m = Some i -> (k <= i)%nat /\ nth_error m (i - k) = Some t.
Proof.
  induction m as [|u m IH]; intros k t i H; cbn in H; [discriminate|].
  destruct (term_eqb u t) eqn:E.
  - inv H. apply term_eqb_eq in E. subst. rewrite Nat.sub_diag. split; [lia | reflexivity].
  - apply IH in H. destruct H as [H1 H2]. split; [lia|].
    replace (i - k)%nat with (S (i - S k)) by lia. exact H2.
Qed.

Lemma index_of_nth : forall m t i, index_of t m = Some i -> nth_error m i = Some t.
Proof.
  intros m t i H. apply index_from_nth in H. destruct H as [_ H]. rewrite Nat.sub_0_r in H. exact H.
Qed.

Lemma peek_plugs_match : forall f vs s,
  plugs_match (firstn (length vs) s) vs = true ->
  peek_plugs (length vs) (map (rn_sterm f) s) = Some (map (rn f) vs).
Proof.
  induction vs as [|v vs IH]; intros s H; [reflexivity|].
  destruct s as [|[t m] s]; cbn in H; [discriminate|].
  apply andb_true_iff in H. destruct H as [H1 H2]. apply term_eqb_eq in H1. subst t.
  cbn. rewrite IH by exact H2. reflexivity.
Qed.

Lemma plugs_match_length : forall s vs, plugs_match s vs = true -> length s = length vs.
Proof.
  induction s as [|[t m] s IH]; destruct vs as [|v vs]; cbn; intro H; try discriminate; [reflexivity|].
  apply andb_true_iff in H. destruct H as [_ H]. f_equal. apply IH. exact H.
Qed.

(** [dict(pairs)] of pairwise distinct keys is the list of pairs itself *)
Definition key_in (k:N) (d:delta) : bool := existsb (fun e => N.eqb (fst e) k) d.

Lemma dict_set_fresh : forall k v d, key_in k d = false -> dict_set k v d = d ++ [(k, v)].
Proof.
  induction d as [|[k' v'] d IH]; cbn; intro H; [reflexivity|].
  apply orb_false_iff in H. destruct H as [H1 H2]. rewrite H1, IH by exact H2. reflexivity.
Qed.

Lemma key_in_app : forall k a b, key_in k (a ++ b) = key_in k a || key_in k b.
Proof. intros. unfold key_in. apply existsb_app. Qed.

Lemma fold_dict_nodup : forall d acc,
  nodup_keys d = true -> (forall k v, In (k, v) d -> key_in k acc = false) ->
  fold_left (fun a kv => dict_set (fst kv) (snd kv) a) d acc = acc ++ d.
Proof.
  induction d as [|[k v] d IH]; intros acc Hn Hd; cbn; [rewrite app_nil_r; reflexivity|].
  cbn in Hn. apply andb_true_iff in Hn. destruct Hn as [Hk Hn].
  rewrite dict_set_fresh by (apply (Hd k v); left; reflexivity).
  rewrite IH; [rewrite <- app_assoc; reflexivity | exact Hn |].
  intros k' v' Hin. rewrite key_in_app. cbn. rewrite orb_false_r.
  rewrite (Hd k' v') by (right; exact Hin). cbn.
  apply negb_true_iff in Hk. destruct (N.eqb k k') eqn:E; [|reflexivity].
  apply N.eqb_eq in E. subst k'. exfalso.
  assert (X : existsb (fun e : N * pat => N.eqb (fst e) k) d = true).
  { apply existsb_exists. exists (k, v'). split; [exact Hin | cbn; apply N.eqb_refl]. }
  congruence.
Qed.

Lemma mk_dict_nodup : forall d, nodup_keys d = true -> mk_dict d = d.
Proof.
  intros d H. unfold mk_dict. rewrite fold_dict_nodup; [reflexivity | exact H | reflexivity].
Qed.

Lemma combine_fst_snd : forall (d:delta), combine (map fst d) (map snd d) = d.
Proof. induction d as [|[k v] d IH]; cbn; congruence. Qed.

Lemma combine_app_eq : forall (A B:Type) (a a':list A) (b b':list B),
  length a = length b -> combine (a ++ a') (b ++ b') = combine a b ++ combine a' b'.
Proof.
  intros A B a. induction a as [|x a IH]; intros a' b b' H; destruct b as [|y b]; cbn in *; try lia; [reflexivity|].
  rewrite IH by lia. reflexivity.
Qed.

Lemma rev_combine_rev : forall (A B:Type) (a:list A) (b:list B),
  length a = length b -> rev (combine (rev a) (rev b)) = combine a b.
Proof.
  intros A B a. induction a as [|x a IH]; intros b H; destruct b as [|y b]; cbn in *; try lia; [reflexivity|].
  assert (Hl : length (rev a) = length (rev b)) by (rewrite !rev_length; lia).
  rewrite combine_app_eq by exact Hl. rewrite rev_app_distr. cbn. rewrite IH by lia. reflexivity.
Qed.

(* ------------------------------------------------------------------------------------------ *)
(** * Inversion of successful tracker steps (shape of the stack) *)

Lemma binary_inv : forall mk l r tr tr',
  binary mk l r tr = Some tr' -> exists mr ml s, t_stack tr = (TPat r, mr) :: (TPat l, ml) :: s.
Proof.
  intros mk l r tr tr' H. unfold binary in H.
  destruct (t_stack tr) as [|[er mr] [|[el ml] s]]; try discriminate.
  destruct (term_eqb el (TPat l) && term_eqb er (TPat r)) eqn:E; [|discriminate].
  apply andb_true_iff in E. destruct E as [E1 E2]. apply term_eqb_eq in E1, E2. subst.
  exists mr, ml, s. reflexivity.
Qed.

Lemma unary_inv : forall mk p tr tr',
  unary mk p tr = Some tr' -> exists m s, t_stack tr = (TPat p, m) :: s.
Proof.
  intros mk p tr tr' H. unfold unary in H.
  destruct (t_stack tr) as [|[e m] s]; try discriminate.
  destruct (term_eqb e (TPat p)) eqn:E; [|discriminate]. apply term_eqb_eq in E. subst.
  exists m, s. reflexivity.
Qed.

Lemma do_instantiate_inv : forall b p d tr tr',
  do_instantiate b p d tr = Some tr' ->
  nodup_keys d = true /\
  exists m s, t_stack tr = ((if b then TProved p else TPat p), m) :: s /\
              plugs_match (firstn (length d) s) (rev (map snd d)) = true.
Proof.
  intros b p d tr tr' H. unfold do_instantiate in H.
  destruct (nodup_keys d); [|discriminate]. split; [reflexivity|]. cbn in H.
  destruct (t_stack tr) as [|[t m] s]; [discriminate|].
  destruct (term_eqb t (if b then TProved p else TPat p)) eqn:E; [|discriminate].
  apply term_eqb_eq in E. subst t. exists m, s. split; [reflexivity|].
  destruct d as [|kv d]; [reflexivity|].
  destruct (plugs_match (firstn (length (kv :: d)) s) (rev (map snd (kv :: d)))) eqn:E; [first [reflexivity | exact E] | discriminate].
Qed.

Lemma top_is_inv : forall t s, top_is t s = true -> exists m s', s = (t, m) :: s'.
Proof.
  intros t [|[u m] s'] H; cbn in H; [discriminate|]. apply term_eqb_eq in H. subst. exists m, s'. reflexivity.
Qed.

(* ------------------------------------------------------------------------------------------ *)
(** * Decoding what one call wrote gives the (renamed) call back *)

Ltac emit_simple He :=
  apply with_tbl_some in He; destruct He as [-> He]; apply bytes_some in He; subst.

Lemma is_nil_true : forall (A:Type) (l:list A), is_nil l = true -> l = [].
Proof. intros A [|x l] H; [reflexivity | discriminate]. Qed.

Lemma decode_emit : forall f tbl tr c tr1 tbl' bs rest,
  stateful_step tr c = Some tr1 -> emit tbl tr c = Some (tbl', bs) -> is_switch c = false ->
  agrees f tbl' ->
  exists op ops, bs = op :: ops /\ N.eqb op 0 = false /\
    decode dflags_fixed op (ops ++ rest) (rn_tracker f tr) = Some (Some (rn_call f c), rest).
Proof.
  intros f tbl tr c tr1 tbl' bs rest Hs He Hsw Hf.
  destruct c; cbn [emit] in He; cbn [stateful_step] in Hs; try discriminate.
  - emit_simple He. exists 2, [id]. repeat split.
  - emit_simple He. exists 3, [id]. repeat split.
  - (* symbol *)
    destruct (idx_of name tbl) as [i|] eqn:Ei.
    + emit_simple He. exists 4, [N.of_nat i]. repeat split. cbn. rewrite (Hf name i Ei). reflexivity.
    + emit_simple He. exists 4, [N.of_nat (length tbl)]. repeat split. cbn.
      rewrite (Hf name (length tbl)); [reflexivity|].
      unfold idx_of in *. rewrite (idx_from_app_miss _ _ _ Ei). reflexivity.
  - (* metavar *)
    destruct (is_nil ef && is_nil sf && is_nil pos && is_nil neg && is_nil holes) eqn:En.
    + emit_simple He.
      repeat (apply andb_true_iff in En; destruct En as [En ?]).
      repeat match goal with H : is_nil _ = true |- _ => apply is_nil_true in H end. subst.
      exists 137, [id]. repeat split.
    + emit_simple He. exists 9, (id :: vec ef ++ vec sf ++ vec pos ++ vec neg ++ vec holes). repeat split.
      cbn [decode app]. rewrite <- !app_assoc. rewrite !read_vec_vec. cbn [dflags_fixed df_metavar_ints andb].
      reflexivity.
  - inv He. apply binary_inv in Hs. destruct Hs as (mr & ml & s & Hst).
    exists 5, []. repeat split. destruct tr as [ph st me cl jo]. cbn in Hst. subst st. reflexivity.
  - inv He. apply binary_inv in Hs. destruct Hs as (mr & ml & s & Hst).
    exists 6, []. repeat split. destruct tr as [ph st me cl jo]. cbn in Hst. subst st. reflexivity.
  - emit_simple He. apply unary_inv in Hs. destruct Hs as (m & s & Hst).
    exists 8, [x]. repeat split. destruct tr as [ph st me cl jo]. cbn in Hst. subst st. reflexivity.
  - emit_simple He. apply unary_inv in Hs. destruct Hs as (m & s & Hst).
    exists 7, [X]. repeat split. destruct tr as [ph st me cl jo]. cbn in Hst. subst st. reflexivity.
  - (* esubst *)
    emit_simple He. destruct tr as [ph st me cl jo]. cbn in Hs.
    destruct st as [|[ep mp] [|[eg mg] s]]; try discriminate.
    destruct (term_eqb ep (TPat p) && term_eqb eg (TPat plug)) eqn:E; [|discriminate].
    apply andb_true_iff in E. destruct E as [E1 E2]. apply term_eqb_eq in E1, E2. subst.
    exists 10, [x]. repeat split.
  - emit_simple He. destruct tr as [ph st me cl jo]. cbn in Hs.
    destruct st as [|[ep mp] [|[eg mg] s]]; try discriminate.
    destruct (term_eqb ep (TPat p) && term_eqb eg (TPat plug)) eqn:E; [|discriminate].
    apply andb_true_iff in E. destruct E as [E1 E2]. apply term_eqb_eq in E1, E2. subst.
    exists 11, [X]. repeat split.
  - inv He. exists 12, []. repeat split.
  - inv He. exists 13, []. repeat split.
  - inv He. exists 14, []. repeat split.
  - inv He. exists 15, []. repeat split.
  - (* modus ponens *)
    inv He. destruct tr as [ph st me cl jo]. cbn in Hs.
    destruct st as [|[er mr] [|[el ml] s]]; try discriminate.
    destruct (term_eqb el (TProved l) && term_eqb er (TProved r)) eqn:E; [|discriminate].
    apply andb_true_iff in E. destruct E as [E1 E2]. apply term_eqb_eq in E1, E2. subst.
    exists 21, []. repeat split.
  - (* generalization *)
    emit_simple He. destruct tr as [ph st me cl jo]. cbn in Hs.
    destruct st as [|[e m] s]; try discriminate.
    destruct (term_eqb e (TProved p)) eqn:E; [|discriminate]. apply term_eqb_eq in E. subst.
    exists 22, [x]. repeat split.
  - (* instantiate (proved) *)
    emit_simple He. apply do_instantiate_inv in Hs. destruct Hs as (Hn & m & s & Hst & Hp).
    exists 26, (N.of_nat (length d) :: rev (map fst d)). repeat split.
    destruct tr as [ph st me cl jo]. cbn in Hst. subst st.
    cbn [decode app t_stack rn_tracker map rn_sterm fst snd rn_term].
    rewrite Nat2N.id.
    replace (length d) with (length (rev (map fst d))) at 1 by (rewrite rev_length, map_length; reflexivity).
    rewrite take_n_app.
    replace (length d) with (length (rev (map snd d))) by (rewrite rev_length, map_length; reflexivity).
    rewrite (peek_plugs_match f (rev (map snd d)) s)
      by (rewrite rev_length, map_length; exact Hp).
    rewrite map_rev, rev_combine_rev by (rewrite !map_length; reflexivity).
    rewrite <- map_snd_rn_delta, <- (map_fst_rn_delta f d), combine_fst_snd.
    rewrite mk_dict_nodup by (rewrite nodup_keys_rn; exact Hn). reflexivity.
  - (* instantiate_pattern *)
    emit_simple He. apply do_instantiate_inv in Hs. destruct Hs as (Hn & m & s & Hst & Hp).
    exists 26, (N.of_nat (length d) :: rev (map fst d)). repeat split.
    destruct tr as [ph st me cl jo]. cbn in Hst. subst st.
    cbn [decode app t_stack rn_tracker map rn_sterm fst snd rn_term].
    rewrite Nat2N.id.
    replace (length d) with (length (rev (map fst d))) at 1 by (rewrite rev_length, map_length; reflexivity).
    rewrite take_n_app.
    replace (length d) with (length (rev (map snd d))) by (rewrite rev_length, map_length; reflexivity).
    rewrite (peek_plugs_match f (rev (map snd d)) s)
      by (rewrite rev_length, map_length; exact Hp).
    rewrite map_rev, rev_combine_rev by (rewrite !map_length; reflexivity).
    rewrite <- map_snd_rn_delta, <- (map_fst_rn_delta f d), combine_fst_snd.
    rewrite mk_dict_nodup by (rewrite nodup_keys_rn; exact Hn). reflexivity.
  - (* pop *)
    inv He. destruct tr as [ph st me cl jo]. cbn in Hs.
    destruct st as [|[e m] s]; try discriminate.
    destruct (term_eqb e t) eqn:E; [|discriminate]. apply term_eqb_eq in E. subst.
    exists 27, []. repeat split.
  - (* save *)
    inv He. destruct (top_is t (t_stack tr)) eqn:E; [|discriminate].
    apply top_is_inv in E. destruct E as (m & s & Hst).
    destruct tr as [ph st me cl jo]. cbn in Hst. subst st.
    exists 28, []. repeat split.
  - (* load *)
    destruct (index_of t (t_memory tr)) as [i|] eqn:Ei; [|discriminate].
    emit_simple He. exists 29, [N.of_nat i]. repeat split.
    destruct tr as [ph st me cl jo]. cbn in *. rewrite Nat2N.id.
    rewrite (map_nth_error (rn_term f) _ _ (index_of_nth _ _ _ Ei)). reflexivity.
  - (* publish proof *)
    inv He. destruct tr as [ph st me cl jo]. cbn in Hs.
    destruct ph; try discriminate. destruct cl as [|c cs]; [discriminate|].
    destruct (pat_eqb p c && top_is (TProved p) st) eqn:E; [|discriminate].
    apply andb_true_iff in E. destruct E as [E1 E2]. apply pat_eqb_eq in E1. subst c.
    apply top_is_inv in E2. destruct E2 as (m & s & ->).
    exists 30, []. repeat split. cbn. rewrite pat_eqb_refl. reflexivity.
  - (* publish axiom *)
    inv He. destruct tr as [ph st me cl jo]. cbn in Hs.
    destruct ph; try discriminate.
    destruct (top_is (TPat p) st) eqn:E; [|discriminate].
    apply top_is_inv in E. destruct E as (m & s & ->).
    exists 30, []. repeat split.
  - (* publish claim *)
    inv He. destruct tr as [ph st me cl jo]. cbn in Hs.
    destruct ph; try discriminate.
    destruct (top_is (TPat p) st) eqn:E; [|discriminate].
    apply top_is_inv in E. destruct E as (m & s & ->).
    exists 30, []. repeat split.
Qed.

(* ------------------------------------------------------------------------------------------ *)
(** * Round trip *)

Lemma ser_step_extends : forall tbl tr c tbl' tr' bs,
  ser_step tbl tr c = Some (tbl', tr', bs) -> exists more, tbl' = tbl ++ more.
Proof.
  intros tbl tr c tbl' tr' bs H. unfold ser_step in H.
  destruct (stateful_step tr c); [|discriminate].
  destruct (emit tbl tr c) as [[tb0 bb0]|] eqn:E; [|discriminate]. inv H. eapply emit_extends. exact E.
Qed.

Lemma ser_run_extends : forall cs tbl tr tbl' tr' bs,
  ser_run tbl tr cs = Some (tbl', tr', bs) -> exists more, tbl' = tbl ++ more.
Proof.
  induction cs as [|c cs IH]; intros tbl tr tbl' tr' bs H; cbn in H.
  - inv H. exists []. rewrite app_nil_r. reflexivity.
  - destruct (is_switch c); [discriminate|].
    destruct (ser_step tbl tr c) as [[[t1 tr1] b1]|] eqn:E1; [|discriminate].
    destruct (ser_run t1 tr1 cs) as [[[t2 tr2] b2]|] eqn:E2; [|discriminate]. inv H.
    apply ser_step_extends in E1. destruct E1 as [m1 ->].
    apply IH in E2. destruct E2 as [m2 ->]. exists (m1 ++ m2). rewrite app_assoc. reflexivity.
Qed.

Lemma ser_run_stateful : forall cs tbl tr tbl' tr' bs,
  ser_run tbl tr cs = Some (tbl', tr', bs) -> stateful_run tr cs = Some tr'.
Proof.
  induction cs as [|c cs IH]; intros tbl tr tbl' tr' bs H; cbn in *.
  - inv H. reflexivity.
  - destruct (is_switch c); [discriminate|]. unfold ser_step in H.
    destruct (stateful_step tr c) as [tr1|]; [|discriminate].
    destruct (emit tbl tr c) as [[t1 b1]|]; [|discriminate].
    destruct (ser_run t1 tr1 cs) as [[[t2 tr2] b2]|] eqn:E2; [|discriminate]. inv H.
    eapply IH. exact E2.
Qed.

(** the bytes of a run, followed by anything: the deserialiser replays the run and continues on the rest *)
Lemma roundtrip_app : forall f cs tbl tr tblF trF bs,
  ser_run tbl tr cs = Some (tblF, trF, bs) -> agrees f tblF ->
  forall more n, (length bs + length more <= n)%nat ->
  exists n', (length more <= n')%nat /\
    deser_fuel dflags_fixed n (bs ++ more) (rn_tracker f tr) = deser_fuel dflags_fixed n' more (rn_tracker f trF).
Proof.
  induction cs as [|c cs IH]; intros tbl tr tblF trF bs H Hf more n Hn; cbn in H.
  - inv H. exists n. split; [cbn in Hn; lia | reflexivity].
  - destruct (is_switch c) eqn:Esw; [discriminate|].
    destruct (ser_step tbl tr c) as [[[t1 tr1] b1]|] eqn:E1; [|discriminate].
    destruct (ser_run t1 tr1 cs) as [[[t2 tr2] b2]|] eqn:E2; [|discriminate]. inv H.
    pose proof (ser_run_extends _ _ _ _ _ _ E2) as [m2 Hm2]. subst tblF.
    unfold ser_step in E1.
    destruct (stateful_step tr c) as [tr1'|] eqn:Es; [|discriminate].
    destruct (emit tbl tr c) as [[t1' b1']|] eqn:Ee; [|discriminate]. inv E1.
    destruct (decode_emit f tbl tr c tr1 t1 b1 (b2 ++ more) Es Ee Esw (agrees_prefix _ _ _ Hf))
      as (op & ops & -> & Hop & Hdec).
    rewrite app_length in Hn. cbn [length] in Hn.
    destruct n as [|n]; [lia|].
    destruct (IH t1 tr1 _ trF b2 E2 Hf more n ltac:(lia)) as (n' & Hn' & Hrun).
    exists n'. split; [exact Hn'|].
    rewrite <- app_assoc. cbn [app deser_fuel]. rewrite Hop. cbn [andb].
    rewrite Hdec. rewrite (stateful_step_rn f _ _ _ Es). exact Hrun.
Qed.

Theorem roundtrip : forall cs tbl tr tblF trF bs,
  ser_run tbl tr cs = Some (tblF, trF, bs) ->
  deser dflags_fixed bs (rn_tracker (numbering tblF) tr) = Some (rn_tracker (numbering tblF) trF).
Proof.
  intros cs tbl tr tblF trF bs H.
  destruct (roundtrip_app (numbering tblF) cs tbl tr tblF trF bs H (numbering_agrees tblF) [] (length bs))
    as (n' & _ & Hrun); [cbn; lia|].
  unfold deser. rewrite app_nil_r in Hrun. rewrite Hrun. destruct n'; reflexivity.
Qed.

(* ------------------------------------------------------------------------------------------ *)
(** * Unknown and truncated input *)

Definition handled (op:N) : bool :=
  existsb (N.eqb op) [2;3;4;5;6;7;8;9;10;11;12;13;14;15;21;22;26;27;28;29;30;137].

Lemma decode_unknown : forall df op bs tr, handled op = false -> decode df op bs tr = None.
Proof.
  intros df op bs tr H. destruct op as [|p]; [reflexivity|].
  do 8 (try destruct p as [p|p|]); try reflexivity; try (cbn in H; discriminate H).
Qed.

Theorem deser_rejects_unknown : forall op rest tr,
  handled op = false -> deser dflags_fixed (op :: rest) tr = None.
Proof.
  intros op rest tr H. unfold deser. cbn [length deser_fuel dflags_fixed df_zero_stops].
  rewrite andb_false_r. rewrite decode_unknown by exact H. reflexivity.
Qed.

Lemma read_vec_firstn_short : forall l r k,
  (k < S (length l))%nat -> read_vec (firstn k (vec l ++ r)) = None.
Proof.
  intros l r k H. destruct k as [|j]; [reflexivity|].
  unfold vec. cbn [app firstn read_vec]. rewrite Nat2N.id. apply take_n_short.
  rewrite firstn_length. lia.
Qed.

Lemma read_vec_firstn_long : forall l r k,
  (S (length l) <= k)%nat -> read_vec (firstn k (vec l ++ r)) = Some (l, firstn (k - S (length l)) r).
Proof.
  intros l r k H. destruct k as [|j]; [lia|].
  unfold vec. cbn [app firstn read_vec]. rewrite Nat2N.id.
  rewrite firstn_app. rewrite (firstn_all2 l) by lia.
  replace (S j - S (length l))%nat with (j - length l)%nat by lia. apply take_n_app.
Qed.

Lemma vec_length : forall l, length (vec l) = S (length l).
Proof. reflexivity. Qed.

(** a stream cut inside the operands of an instruction the serialiser wrote is an error *)
Opaque vec.
Lemma decode_truncated : forall tbl tr c tbl' op ops k tr',
  emit tbl tr c = Some (tbl', op :: ops) -> (k < length ops)%nat ->
  decode dflags_fixed op (firstn k ops) tr' = None.
Proof.
  intros tbl tr c tbl' op ops k tr' He Hk.
  destruct c; cbn [emit] in He;
    try (emit_simple He; inv He; cbn in Hk; destruct k; [reflexivity | lia]);
    try (inv He; cbn in Hk; lia).
  - (* symbol *)
    destruct (idx_of name tbl); emit_simple He; inv He; cbn in Hk; (destruct k; [reflexivity | lia]).
  - (* metavar *)
    destruct (is_nil ef && is_nil sf && is_nil pos && is_nil neg && is_nil holes).
    + emit_simple He. inv He. cbn in Hk. destruct k; [reflexivity | lia].
    + emit_simple He. inv He. cbn [length] in Hk. rewrite !app_length, !vec_length in Hk.
      destruct k as [|k]; [reflexivity|]. cbn [firstn decode].
      destruct (Nat.ltb k (S (length ef))) eqn:E1; [apply Nat.ltb_lt in E1|apply Nat.ltb_ge in E1].
      { rewrite read_vec_firstn_short by exact E1. reflexivity. }
      rewrite read_vec_firstn_long by exact E1.
      destruct (Nat.ltb (k - S (length ef)) (S (length sf))) eqn:E2; [apply Nat.ltb_lt in E2|apply Nat.ltb_ge in E2].
      { rewrite read_vec_firstn_short by exact E2. reflexivity. }
      rewrite read_vec_firstn_long by exact E2.
      destruct (Nat.ltb (k - S (length ef) - S (length sf)) (S (length pos))) eqn:E3;
        [apply Nat.ltb_lt in E3|apply Nat.ltb_ge in E3].
      { rewrite read_vec_firstn_short by exact E3. reflexivity. }
      rewrite read_vec_firstn_long by exact E3.
      destruct (Nat.ltb (k - S (length ef) - S (length sf) - S (length pos)) (S (length neg))) eqn:E4;
        [apply Nat.ltb_lt in E4|apply Nat.ltb_ge in E4].
      { rewrite read_vec_firstn_short by exact E4. reflexivity. }
      rewrite read_vec_firstn_long by exact E4.
      rewrite <- (app_nil_r (vec holes)).
      rewrite read_vec_firstn_short by lia. reflexivity.
  - (* instantiate *)
    emit_simple He. inv He. cbn [length] in Hk. rewrite rev_length, map_length in Hk.
    destruct k as [|k]; [reflexivity|]. cbn [firstn decode]. rewrite Nat2N.id.
    rewrite take_n_short; [reflexivity|]. rewrite firstn_length, rev_length, map_length. lia.
  - emit_simple He. inv He. cbn [length] in Hk. rewrite rev_length, map_length in Hk.
    destruct k as [|k]; [reflexivity|]. cbn [firstn decode]. rewrite Nat2N.id.
    rewrite take_n_short; [reflexivity|]. rewrite firstn_length, rev_length, map_length. lia.
  - (* load *)
    destruct (index_of t (t_memory tr)); [|discriminate].
    emit_simple He. inv He. cbn in Hk. destruct k; [reflexivity | lia].
Qed.
Transparent vec.

(** a serialised run cut in the middle of its last instruction is an error *)
Theorem deser_rejects_truncated : forall cs tbl tr tbl1 tr1 bs c tr2 tbl2 op ops k,
  ser_run tbl tr cs = Some (tbl1, tr1, bs) ->
  ser_step tbl1 tr1 c = Some (tbl2, tr2, op :: ops) -> (k < length ops)%nat ->
  deser dflags_fixed (bs ++ op :: firstn k ops) (rn_tracker (numbering tbl1) tr) = None.
Proof.
  intros cs tbl tr tbl1 tr1 bs c tr2 tbl2 op ops k Hrun Hstep Hk.
  set (more := op :: firstn k ops).
  destruct (roundtrip_app (numbering tbl1) cs tbl tr tbl1 tr1 bs Hrun (numbering_agrees tbl1) more
              (length (bs ++ more))) as (n' & Hn' & Hr); [rewrite app_length; lia|].
  unfold deser. rewrite Hr. subst more. cbn [length] in Hn'. destruct n' as [|n']; [lia|].
  unfold ser_step in Hstep. destruct (stateful_step tr1 c); [|discriminate].
  destruct (emit tbl1 tr1 c) as [[tb0 bb0]|] eqn:Ee; [|discriminate]. inv Hstep.
  cbn [deser_fuel dflags_fixed df_zero_stops]. rewrite andb_false_r.
  rewrite (decode_truncated _ _ _ _ _ _ _ _ Ee Hk). reflexivity.
Qed.

Theorem roundtrip_f : forall f cs tbl tr tblF trF bs,
  ser_run tbl tr cs = Some (tblF, trF, bs) -> agrees f tblF ->
  deser dflags_fixed bs (rn_tracker f tr) = Some (rn_tracker f trF).
Proof.
  intros f cs tbl tr tblF trF bs H Hf.
  destruct (roundtrip_app f cs tbl tr tblF trF bs H Hf [] (length bs)) as (n' & _ & Hrun); [cbn; lia|].
  unfold deser. rewrite app_nil_r in Hrun. rewrite Hrun. destruct n'; reflexivity.
Qed.

(** the three files of a module, deserialised in sequence into one interpreter (with the two phase
    switches in between), replay the whole generation; one numbering serves the three files *)
Theorem roundtrip_module : forall tr0 gcs ccs pcs t1 tr1 gb tr1' t2 tr2 cb tr2' t3 tr3 pb,
  ser_run [] tr0 gcs = Some (t1, tr1, gb) -> stateful_step tr1 CIntoClaim = Some tr1' ->
  ser_run t1 tr1' ccs = Some (t2, tr2, cb) -> stateful_step tr2 CIntoProof = Some tr2' ->
  ser_run t2 tr2' pcs = Some (t3, tr3, pb) ->
  let f := numbering t3 in
  exists d1 d1' d2 d2',
    deser dflags_fixed gb (rn_tracker f tr0) = Some d1 /\ stateful_step d1 CIntoClaim = Some d1' /\
    deser dflags_fixed cb d1' = Some d2 /\ stateful_step d2 CIntoProof = Some d2' /\
    deser dflags_fixed pb d2' = Some (rn_tracker f tr3).
Proof.
  intros tr0 gcs ccs pcs t1 tr1 gb tr1' t2 tr2 cb tr2' t3 tr3 pb H1 S1 H2 S2 H3 f.
  pose proof (ser_run_extends _ _ _ _ _ _ H2) as [m2 E2].
  pose proof (ser_run_extends _ _ _ _ _ _ H3) as [m3 E3].
  assert (F3 : agrees f t3) by apply numbering_agrees.
  assert (F2 : agrees f t2) by (subst t3; eapply agrees_prefix; exact F3).
  assert (F1 : agrees f t1) by (subst t2; eapply agrees_prefix; exact F2).
  exists (rn_tracker f tr1), (rn_tracker f tr1'), (rn_tracker f tr2), (rn_tracker f tr2').
  repeat split.
  - eapply roundtrip_f; eassumption.
  - apply (stateful_step_rn f _ _ _ S1).
  - eapply roundtrip_f; eassumption.
  - apply (stateful_step_rn f _ _ _ S2).
  - eapply roundtrip_f; eassumption.
Qed.

(** The functions REGENERATED from serializing_interpreter.py / deserialize.py / instruction.py
    (Gen/PySerial.v) are equal to the hand-written model of Interp/Calls.v. *)
From Coq Require Import NArith List Bool String Lia Arith.
From Pi2 Require Import ML.Syntax ML.Subst ML.Machine Interp.Calls Interp.Facts Interp.RoundTrip
  Interp.SerialLib Gen.PySerial.
Import ListNotations.
Open Scope N_scope.

(* ------------------------------------------------------------------------------------------ *)
(** * Opcodes: the numbers of instruction.py that the model's [emit] / [decode] / the checker use *)

Lemma pyops :
  pyop "EVar"%string = 2 /\ pyop "SVar"%string = 3 /\ pyop "Symbol"%string = 4 /\ pyop "Implies"%string = 5 /\ pyop "App"%string = 6 /\
  pyop "Mu"%string = 7 /\ pyop "Exists"%string = 8 /\ pyop "MetaVar"%string = 9 /\ pyop "ESubst"%string = 10 /\ pyop "SSubst"%string = 11 /\
  pyop "Prop1"%string = 12 /\ pyop "Prop2"%string = 13 /\ pyop "Prop3"%string = 14 /\ pyop "Quantifier"%string = 15 /\
  pyop "ModusPonens"%string = 21 /\ pyop "Generalization"%string = 22 /\ pyop "Instantiate"%string = 26 /\ pyop "Pop"%string = 27 /\
  pyop "Save"%string = 28 /\ pyop "Load"%string = 29 /\ pyop "Publish"%string = 30 /\ pyop "CleanMetaVar"%string = 137.
Proof. repeat split; vm_compute; reflexivity. Qed.

Ltac ops :=
  let H := fresh in
  pose proof pyops as H;
  repeat match type of H with _ /\ _ => let a := fresh in destruct H as [a H]; rewrite ?a; clear a end;
  rewrite ?H; clear H.

(* ------------------------------------------------------------------------------------------ *)
(** * The symbol dict *)

Definition dict_from (k:nat) (tbl:symtab) : pydict := combine tbl (map N.of_nat (seq k (Datatypes.length tbl))).

Lemma dict_of_from : forall tbl, dict_of tbl = dict_from 0 tbl.
Proof. reflexivity. Qed.

Lemma dict_has_from : forall tbl k name,
  dict_has name (dict_from k tbl) = match idx_from k name tbl with Some _ => true | None => false end.
Proof.
  induction tbl as [|n tbl IH]; intros k name; [reflexivity|].
  unfold dict_from in *. cbn. destruct (N.eqb n name); [reflexivity|]. apply (IH (S k)).
Qed.

Lemma dict_get_from : forall tbl k name,
  dict_get name (dict_from k tbl) = option_map N.of_nat (idx_from k name tbl).
Proof.
  induction tbl as [|n tbl IH]; intros k name; [reflexivity|].
  unfold dict_from in *. cbn. destruct (N.eqb n name); [reflexivity|]. apply (IH (S k)).
Qed.

Lemma dict_len_from : forall tbl k, dict_len (dict_from k tbl) = N.of_nat (Datatypes.length tbl).
Proof.
  intros. unfold dict_len, dict_from. rewrite combine_length, map_length, seq_length, Nat.min_id. reflexivity.
Qed.

Lemma dict_put_fresh : forall tbl k name,
  idx_from k name tbl = None ->
  dict_put name (N.of_nat (k + Datatypes.length tbl)) (dict_from k tbl) = dict_from k (tbl ++ [name]).
Proof.
  induction tbl as [|n tbl IH]; intros k name H.
  - cbn. rewrite Nat.add_0_r. reflexivity.
  - cbn in H. destruct (N.eqb n name) eqn:E; [discriminate|].
    unfold dict_from in *. cbn. rewrite E. f_equal.
    replace (k + S (Datatypes.length tbl))%nat with (S k + Datatypes.length tbl)%nat by lia.
    rewrite (IH (S k) name H). reflexivity.
Qed.

Lemma dict_names_of : forall tbl, dict_names (dict_of tbl) = tbl.
Proof.
  intro tbl. unfold dict_names, dict_of. generalize 0%nat.
  induction tbl as [|n tbl IH]; intro k; [reflexivity|]. cbn. f_equal. apply IH.
Qed.

(* ------------------------------------------------------------------------------------------ *)
(** * Writes *)

Lemma bytes_app : forall a b,
  bytes (a ++ b) = match bytes a, bytes b with Some _, Some _ => Some (a ++ b) | _, _ => None end.
Proof.
  intros a b. unfold bytes. rewrite forallb_app.
  destruct (forallb byte_ok a), (forallb byte_ok b); reflexivity.
Qed.

Lemma w_write_app : forall a b k d out, w_write a (w_write b k) d out = w_write (a ++ b) k d out.
Proof.
  intros. unfold w_write. rewrite bytes_app. unfold bytes.
  destruct (forallb byte_ok a), (forallb byte_ok b); try reflexivity. rewrite app_assoc. reflexivity.
Qed.

Lemma w_write_done : forall l d, w_write l w_done d [] = match bytes l with Some b => Some (d, b) | None => None end.
Proof. reflexivity. Qed.

Lemma map_var_name : forall l, map (fun v => var_name v) l = l.
Proof. induction l; cbn; unfold var_name in *; congruence. Qed.
Lemma map_var_mk : forall l, map var_mk l = l.
Proof. induction l; cbn; unfold var_mk in *; congruence. Qed.

Lemma sum_zero : forall a b c d e : list N,
  N.eqb (py_sum (map (fun l => py_len l) [a; b; c; d; e])) 0
  = is_nil a && is_nil b && is_nil c && is_nil d && is_nil e.
Proof.
  intros. unfold py_sum, py_len. cbn [map fold_right].
  destruct a, b, c, d, e; cbn [is_nil andb Datatypes.length]; try reflexivity;
    apply N.eqb_neq; lia.
Qed.

Definition lift (r:option (symtab * list N)) : option (pydict * list N) :=
  match r with Some (t, b) => Some (dict_of t, b) | None => None end.

(** which generated method a call of the model denotes (the [id: str] label of save/load is not modelled) *)
Definition gen_emit (tbl:symtab) (tr:tracker) (c:call) : option (pydict * list N) :=
  let d := dict_of tbl in
  match c with
  | CEVar id => ser_evar tr id d []
  | CSVar id => ser_svar tr id d []
  | CSymbol name => ser_symbol tr name d []
  | CMetaVar id a b c0 d0 e => ser_metavar tr id a b c0 d0 e d []
  | CImplies l r => ser_implies tr l r d []
  | CApp l r => ser_app tr l r d []
  | CExists x p => ser_exists tr x p d []
  | CMu x p => ser_mu tr x p d []
  | CESubst x p q => ser_esubst tr x p q d []
  | CSSubst x p q => ser_ssubst tr x p q d []
  | CProp1 => ser_prop1 tr d []
  | CProp2 => ser_prop2 tr d []
  | CProp3 => ser_prop3 tr d []
  | CQuantifier => ser_exists_quantifier tr d []
  | CModusPonens l r => ser_modus_ponens tr l r d []
  | CGeneralization p x => ser_exists_generalization tr p x d []
  | CInstantiate p dl => ser_instantiate tr p dl d []
  | CInstantiatePattern p dl => ser_instantiate_pattern tr p dl d []
  | CPop t => ser_pop tr t d []
  | CSave t => ser_save tr 0 t d []
  | CLoad t => ser_load tr 0 t d []
  | CPublishProof p => ser_publish_proof tr p d []
  | CPublishAxiom p => ser_publish_axiom tr p d []
  | CPublishClaim p => ser_publish_claim tr p d []
  | CIntoClaim | CIntoProof => Some (d, [])      (* io_interpreter.py: the sink is switched, nothing is written *)
  end.

Ltac simple_write :=
  rewrite w_write_done; cbn [emit with_tbl lift];
  first [ reflexivity | match goal with |- context [bytes ?l] => destruct (bytes l) end; reflexivity ].

Theorem gen_emit_agrees : forall tbl tr c, gen_emit tbl tr c = lift (emit tbl tr c).
Proof.
  intros tbl tr c. destruct c; unfold gen_emit; cbv zeta;
    try (unfold ser_evar, ser_svar, ser_implies, ser_app, ser_exists, ser_mu, ser_esubst, ser_ssubst, ser_prop1,
           ser_prop2, ser_prop3, ser_exists_quantifier, ser_modus_ponens, ser_exists_generalization, ser_pop,
           ser_save, ser_publish_proof, ser_publish_axiom, ser_publish_claim; ops; unfold var_name; simple_write).
  - (* symbol *)
    unfold ser_symbol, w_dict, w_get. ops. cbn [emit]. rewrite dict_of_from, dict_has_from.
    unfold idx_of. destruct (idx_from 0 name tbl) as [i|] eqn:Ei; cbn [negb].
    + rewrite dict_get_from, Ei. cbn [option_map]. rewrite w_write_done. cbn [with_tbl lift].
      destruct (bytes [4; N.of_nat i]); reflexivity.
    + rewrite dict_len_from. pose proof (dict_put_fresh tbl 0 name Ei) as Hp. cbn [Nat.add] in Hp. rewrite !Hp.
      rewrite dict_get_from, (idx_from_app_miss _ _ _ Ei). cbn [option_map Nat.add]. rewrite w_write_done.
      cbn [with_tbl lift]. destruct (bytes [4; N.of_nat (Datatypes.length tbl)]); reflexivity.
  - (* metavar *)
    unfold ser_metavar, w_cond. cbv zeta. rewrite sum_zero. ops. cbn [emit].
    destruct (is_nil ef && is_nil sf && is_nil pos && is_nil neg && is_nil holes); cbv beta.
    + simple_write.
    + cbn [w_for]. rewrite !map_var_name. rewrite !w_write_app. unfold w_write, w_done.
      unfold vec, py_len. rewrite <- !app_assoc. cbn [app].
      match goal with |- context [bytes ?l] => destruct (bytes l) end; reflexivity.
  - (* instantiate *)
    unfold ser_instantiate. ops. rewrite w_write_done. cbn [emit with_tbl lift app]. unfold py_len.
    match goal with |- context [bytes ?l] => destruct (bytes l) end; reflexivity.
  - unfold ser_instantiate_pattern. ops. rewrite w_write_done. cbn [emit with_tbl lift app]. unfold py_len.
    match goal with |- context [bytes ?l] => destruct (bytes l) end; reflexivity.
  - (* load *)
    unfold ser_load, w_opt, py_index. ops. cbn [emit].
    destruct (index_of t (t_memory tr)); [|reflexivity]. simple_write.
  - reflexivity.
  - reflexivity.
Qed.

(** every method calls the super() method of its own name first, passing on exactly its own parameters
    (the tracker step of the model is that super call); and these are the 24 emitting methods *)
Fixpoint strs_eqb (a b:list string) : bool :=
  match a, b with
  | [], [] => true
  | x :: a', y :: b' => String.eqb x y && strs_eqb a' b'
  | _, _ => false
  end.
Lemma gen_super_ok :
  forallb (fun e => match e with (m, s, args, params) => String.eqb m s && strs_eqb args params end) gen_super = true /\
  map (fun e => match e with (m, _, _, _) => m end) gen_super =
  ["evar"; "svar"; "symbol"; "metavar"; "implies"; "app"; "exists"; "mu"; "esubst"; "ssubst"; "prop1"; "prop2"; "prop3";
   "modus_ponens"; "exists_quantifier"; "exists_generalization"; "instantiate"; "instantiate_pattern"; "pop"; "save";
   "load"; "publish_proof"; "publish_axiom"; "publish_claim"]%string.
Proof. split; vm_compute; reflexivity. Qed.

(* ------------------------------------------------------------------------------------------ *)
(** * The dispatch of the deserialiser *)

Lemma take_n_length : forall n bs keys r, take_n n bs = Some (keys, r) -> Datatypes.length keys = n.
Proof.
  induction n as [|n IH]; intros bs keys r H; cbn in H.
  - inv H. reflexivity.
  - destruct bs as [|b bs]; [discriminate|]. destruct (take_n n bs) as [[v r']|] eqn:E; [|discriminate].
    inv H. cbn. f_equal. eapply IH. exact E.
Qed.

Lemma zip_strict_combine : forall (A B:Type) (a:list A) (b:list B),
  zip_strict a b = if Nat.eqb (Datatypes.length a) (Datatypes.length b) then Some (combine a b) else None.
Proof.
  induction a as [|x a IH]; destruct b as [|y b]; cbn; try reflexivity.
  rewrite IH. destruct (Nat.eqb (Datatypes.length a) (Datatypes.length b)); reflexivity.
Qed.

Lemma peek_plugs_all_pats : forall n s,
  peek_plugs n s = match all_pats (firstn n (map fst s)) with
                   | Some v => if Nat.eqb (Datatypes.length v) n then Some v else None
                   | None => None end.
Proof.
  induction n as [|n IH]; intro s; [reflexivity|].
  destruct s as [|[t m] s]; [reflexivity|]. cbn [peek_plugs map fst firstn all_pats].
  destruct t as [p|p]; [|reflexivity]. rewrite IH.
  destruct (all_pats (firstn n (map fst s))) as [v|]; [|reflexivity]. cbn [Datatypes.length Nat.eqb].
  destruct (Nat.eqb (Datatypes.length v) n); reflexivity.
Qed.

Definition handled_list : list N := [2;3;4;5;6;7;8;9;10;11;12;13;14;15;21;22;26;27;28;29;30;137].

Lemma handled_false : forall op k, handled op = false -> In k handled_list -> N.eqb op k = false.
Proof.
  intros op k H Hin. unfold handled in H.
  destruct (N.eqb op k) eqn:E; [|reflexivity]. exfalso.
  assert (X : existsb (N.eqb op) handled_list = true) by (apply existsb_exists; exists k; split; assumption).
  unfold handled_list in X. congruence.
Qed.

Lemma handled_true : forall op, handled op = true -> In op handled_list.
Proof.
  intros op H. unfold handled in H. apply existsb_exists in H. destruct H as (k & Hin & E).
  apply N.eqb_eq in E. subst. exact Hin.
Qed.

Ltac dm :=
  repeat match goal with
         | |- context [match ?x with _ => _ end] =>
             destruct x eqn:?; try reflexivity; try congruence; try (cbn [negb] in *; congruence)
         end.

Ltac start k :=
  unfold gen_decode; ops; cbn [N.eqb Pos.eqb];
  unfold decode, stack_at, peek_pat, peek_proved, peek, mem_at, var_mk;
  cbn [dflags_fixed df_subst_plug_top df_metavar_ints df_no_quantifier df_no_generalization
       df_publish_gamma_skip df_publish_proof_bad df_zero_stops andb negb].

Lemma gen_decode_handled : forall op bs tr, In op handled_list -> gen_decode op bs tr = decode dflags_fixed op bs tr.
Proof.
  intros op bs tr H. unfold handled_list in H. cbn [In] in H.
  repeat match type of H with _ \/ _ => destruct H as [H|H] end; try contradiction; subst op.
  - start 2. dm; try reflexivity.
  - start 3. dm; try reflexivity.
  - start 4. dm; try reflexivity.
  - start 5. dm; try reflexivity.
  - start 6. dm; try reflexivity.
  - start 7. dm; try reflexivity.
  - start 8. dm; try reflexivity.
  - (* MetaVar *)
    start 9. rewrite ?map_var_mk.
    destruct bs as [|id r0]; [reflexivity|].
    destruct (read_vec r0) as [[a r1]|]; [|reflexivity]. destruct (read_vec r1) as [[b r2]|]; [|reflexivity].
    destruct (read_vec r2) as [[c r3]|]; [|reflexivity]. destruct (read_vec r3) as [[d r4]|]; [|reflexivity].
    destruct (read_vec r4) as [[e r5]|]; [|reflexivity]. rewrite !map_var_mk. reflexivity.
  - start 10. dm; try reflexivity.
  - start 11. dm; try reflexivity.
  - start 12. dm; try reflexivity.
  - start 13. dm; try reflexivity.
  - start 14. dm; try reflexivity.
  - start 15. dm; try reflexivity.
  - start 21. dm; try reflexivity.
  - start 22. dm; try reflexivity.
  - (* Instantiate *)
    start 26. unfold stack_below_top.
    destruct bs as [|n r0]; [reflexivity|].
    destruct (take_n (N.to_nat n) r0) as [[keys r1]|] eqn:Et; [|reflexivity].
    pose proof (take_n_length _ _ _ _ Et) as Hk.
    destruct (t_stack tr) as [|[target m] s]; [reflexivity|]. cbn [nth_error map fst tl].
    rewrite peek_plugs_all_pats.
    destruct (all_pats (firstn (N.to_nat n) (map fst s))) as [vals|]; [|reflexivity].
    rewrite zip_strict_combine, Hk, (Nat.eqb_sym (N.to_nat n)).
    destruct (Nat.eqb (Datatypes.length vals) (N.to_nat n)); [|reflexivity].
    destruct target; reflexivity.
  - start 27. dm; try reflexivity.
  - start 28. dm; try reflexivity.
  - (* Load *)
    start 29. unfold py_len. destruct bs as [|i r]; [reflexivity|].
    destruct (N.leb (N.of_nat (Datatypes.length (t_memory tr))) i) eqn:E.
    + apply N.leb_le in E. assert (X : nth_error (t_memory tr) (N.to_nat i) = None) by (apply nth_error_None; lia).
      rewrite X. reflexivity.
    + dm.
  - (* Publish *)
    start 30. destruct (t_phase tr); cbn [phase_eqb]; dm.
  - start 137. dm; try reflexivity.
Qed.

Lemma gen_decode_unhandled : forall op bs tr, handled op = false -> gen_decode op bs tr = None.
Proof.
  intros op bs tr H. unfold gen_decode. ops.
  rewrite !(handled_false op _ H) by (unfold handled_list; cbn; tauto). reflexivity.
Qed.

Theorem gen_decode_agrees : forall op bs tr, gen_decode op bs tr = decode dflags_fixed op bs tr.
Proof.
  intros op bs tr. destruct (handled op) eqn:H.
  - apply gen_decode_handled. apply handled_true. exact H.
  - rewrite gen_decode_unhandled by exact H. symmetry. apply decode_unknown. exact H.
Qed.

(** every byte the model's [decode] handles is an [Instruction]: the [Instruction(byte)] test of the loop
    rejects nothing that the dispatch would accept *)
Lemma handled_known : forall op, handled op = true -> op_known ps_opcodes op = true.
Proof.
  intros op H. apply handled_true in H. unfold handled_list in H. cbn [In] in H.
  repeat match type of H with _ \/ _ => destruct H as [H|H] end; try contradiction; subst op; vm_compute; reflexivity.
Qed.

Theorem gen_deser_fuel_agrees : forall fuel bs tr, gen_deser_fuel fuel bs tr = deser_fuel dflags_fixed fuel bs tr.
Proof.
  induction fuel as [|f IH]; intros bs tr; destruct bs as [|op rest]; try reflexivity.
  cbn [gen_deser_fuel deser_fuel dflags_fixed df_zero_stops]. rewrite andb_false_r.
  rewrite gen_decode_agrees.
  destruct (handled op) eqn:H.
  - rewrite (handled_known _ H). cbn [negb].
    destruct (decode dflags_fixed op rest tr) as [[oc r]|]; [|reflexivity].
    destruct (match oc with Some c => stateful_step tr c | None => Some tr end); [apply IH | reflexivity].
  - rewrite (decode_unknown dflags_fixed op rest tr H). destruct (negb (op_known ps_opcodes op)); reflexivity.
Qed.

Theorem gen_deser_agrees : forall bs tr, gen_deser bs tr = deser dflags_fixed bs tr.
Proof. intros. apply gen_deser_fuel_agrees. Qed.

(* ------------------------------------------------------------------------------------------ *)
(** * The serialiser built from the generated methods *)

Definition gen_emit_tbl (tbl:symtab) (tr:tracker) (c:call) : option (symtab * list N) :=
  match gen_emit tbl tr c with Some (d, b) => Some (dict_names d, b) | None => None end.

Theorem gen_emit_tbl_agrees : forall tbl tr c, gen_emit_tbl tbl tr c = emit tbl tr c.
Proof.
  intros. unfold gen_emit_tbl. rewrite gen_emit_agrees. destruct (emit tbl tr c) as [[t b]|]; [|reflexivity].
  cbn. rewrite dict_names_of. reflexivity.
Qed.

(** one call of the SerializingInterpreter: super() (the tracker) first, then the generated writes *)
Definition gen_ser_step (tbl:symtab) (tr:tracker) (c:call) : option (symtab * tracker * list N) :=
  match stateful_step tr c with
  | Some tr' => match gen_emit_tbl tbl tr c with
                | Some (tbl', bs) => Some (tbl', tr', bs)
                | None => None end
  | None => None
  end.

Fixpoint gen_ser_run (tbl:symtab) (tr:tracker) (cs:list call) : option (symtab * tracker * list N) :=
  match cs with
  | [] => Some (tbl, tr, [])
  | c :: cs' =>
      if is_switch c then None else
      match gen_ser_step tbl tr c with
      | Some (tbl', tr', bs) =>
          match gen_ser_run tbl' tr' cs' with
          | Some (tbl'', tr'', bs') => Some (tbl'', tr'', bs ++ bs')
          | None => None end
      | None => None end
  end.

Lemma gen_ser_step_agrees : forall tbl tr c, gen_ser_step tbl tr c = ser_step tbl tr c.
Proof. intros. unfold gen_ser_step, ser_step. rewrite gen_emit_tbl_agrees. reflexivity. Qed.

Theorem gen_ser_run_agrees : forall cs tbl tr, gen_ser_run tbl tr cs = ser_run tbl tr cs.
Proof.
  induction cs as [|c cs IH]; intros tbl tr; [reflexivity|]. cbn [gen_ser_run ser_run].
  rewrite gen_ser_step_agrees. destruct (is_switch c); [reflexivity|].
  destruct (ser_step tbl tr c) as [[[t1 tr1] b1]|]; [|reflexivity]. rewrite IH. reflexivity.
Qed.

(** M4 (Interp): proof modules (proof.py) -- filled in below. *)
From Coq Require Import NArith List Bool.
From Pi2 Require Import ML.Syntax ML.Subst ML.Machine Interp.Calls.
Import ListNotations.
Open Scope N_scope.

(** M4 (Interp): proof modules (proof.py): patterns WITH notation, the [Interpreter.pattern]
    traversal, the memoising wrapper (optimizing_interpreters.py), the gamma and claim phases of a
    module with imported submodules.  Definitions only. *)
From Coq Require Import NArith List Bool.
From Pi2 Require Import ML.Syntax ML.Subst ML.Machine Interp.Calls.
Import ListNotations.
Open Scope N_scope.

(** generator-side patterns: the checker's constructors plus [Instantiate] (notation), whose
    substitution is an insertion-ordered dict *)
Inductive npat :=
| NE (n:N) | NS (n:N) | NY (n:N)
| NImp (l r:npat) | NApp (l r:npat) | NEx (x:N) (p:npat) | NMu (X:N) (p:npat)
| NMV (id:N) (ef sf pos neg holes:list N)
| NESub (p:npat) (x:N) (plug:npat) | NSSub (p:npat) (X:N) (plug:npat)
| NInst (body:npat) (d:list (N * npat)).

(** full notation expansion ([Instantiate.simplify] applied everywhere, bottom-up) *)
Fixpoint expand (p:npat) : pat :=
  match p with
  | NE n => EVar n | NS n => SVar n | NY n => Sym n
  | NImp l r => Imp (expand l) (expand r)
  | NApp l r => App (expand l) (expand r)
  | NEx x q => Ex x (expand q)
  | NMu X q => Mu X (expand q)
  | NMV id ef sf ps ng hs => MVar id ef sf ps ng hs
  | NESub q x plug => ESub (expand q) x (expand plug)
  | NSSub q X plug => SSub (expand q) X (expand plug)
  | NInst body d => py_inst (expand body) (map (fun kv => (fst kv, expand (snd kv))) d)
  end.

(** [assert isinstance(subpattern, MetaVar | ESubst | SSubst)] in [Interpreter.pattern]: the object
    returned for the sub-pattern must syntactically be one of the three (an [Instantiate] is not) *)
Definition meta_head (p:npat) : bool :=
  match p with NMV _ _ _ _ _ _ | NESub _ _ _ | NSSub _ _ _ => true | _ => false end.

(** structural equality (what membership in a Python [set] of frozen dataclasses decides; the
    substitution of an [Instantiate] is a [frozendict]: order-insensitive) *)
Fixpoint npat_eqb (a b:npat) : bool :=
  match a, b with
  | NE n, NE m | NS n, NS m | NY n, NY m => N.eqb n m
  | NImp l r, NImp l' r' | NApp l r, NApp l' r' => npat_eqb l l' && npat_eqb r r'
  | NEx x p, NEx y q | NMu x p, NMu y q => N.eqb x y && npat_eqb p q
  | NMV i a1 a2 a3 a4 a5, NMV j b1 b2 b3 b4 b5 =>
      N.eqb i j && list_eqb a1 b1 && list_eqb a2 b2 && list_eqb a3 b3 && list_eqb a4 b4 && list_eqb a5 b5
  | NESub p x q, NESub p' y q' | NSSub p x q, NSSub p' y q' => npat_eqb p p' && N.eqb x y && npat_eqb q q'
  | NInst p d, NInst p' d' =>
      (* a frozendict compares (and hashes) as an unordered map *)
      npat_eqb p p' && Nat.eqb (length d) (length d') &&
      (fix go (d:list (N * npat)) : bool :=
         match d with
         | [] => true
         | (k, v) :: r =>
             (fix find (e:list (N * npat)) : bool :=
                match e with
                | [] => false
                | (k', v') :: e' => if N.eqb k k' then npat_eqb v v' else find e'
                end) d' && go r
         end) d
  | _, _ => false
  end.

Definition nexpand_delta (d:list (N * npat)) : delta := map (fun kv => (fst kv, expand (snd kv))) d.

(** the calls made by [Interpreter.pattern(p)] (interpreter.py:44); [None] = the isinstance
    assertion of the ESubst/SSubst arms fails *)
Fixpoint pattern_calls (p:npat) : option (list call) :=
  match p with
  | NE n => Some [CEVar n]
  | NS n => Some [CSVar n]
  | NY n => Some [CSymbol n]
  | NMV id ef sf ps ng hs => Some [CMetaVar id ef sf ps ng hs]
  | NImp l r =>
      match pattern_calls l, pattern_calls r with
      | Some a, Some b => Some (a ++ b ++ [CImplies (expand l) (expand r)]) | _, _ => None end
  | NApp l r =>
      match pattern_calls l, pattern_calls r with
      | Some a, Some b => Some (a ++ b ++ [CApp (expand l) (expand r)]) | _, _ => None end
  | NEx x q => match pattern_calls q with Some a => Some (a ++ [CExists x (expand q)]) | None => None end
  | NMu X q => match pattern_calls q with Some a => Some (a ++ [CMu X (expand q)]) | None => None end
  | NESub q x plug =>
      match pattern_calls plug, pattern_calls q with
      | Some a, Some b => if meta_head q then Some (a ++ b ++ [CESubst x (expand q) (expand plug)]) else None
      | _, _ => None end
  | NSSub q X plug =>
      match pattern_calls plug, pattern_calls q with
      | Some a, Some b => if meta_head q then Some (a ++ b ++ [CSSubst X (expand q) (expand plug)]) else None
      | _, _ => None end
  | NInst body d =>
      match (fix go (d:list (N * npat)) : option (list call) :=
               match d with
               | [] => Some []
               | (_, v) :: r => match pattern_calls v, go r with
                                | Some a, Some b => Some (a ++ b) | _, _ => None end
               end) d, pattern_calls body with
      | Some a, Some b => Some (a ++ b ++ [CInstantiatePattern (expand body) (nexpand_delta d)])
      | _, _ => None end
  end.

(** [MemoizingInterpreter.pattern] over a [StatefulInterpreter]: [sel] = the set chosen by
    [CountingInterpreter.finalize], [mem] = the tracker memory (threaded: saves append to it) *)
Section Memo.
Variable sel : npat -> bool.

Definition in_memory (p:npat) (mem:list term) : bool := existsb (term_eqb (TPat (expand p))) mem.

Definition finish_memo (p:npat) (r:option (list call * list term)) : option (list call * list term) :=
  match r with
  | Some (cs, mem) =>
      if sel p then Some (cs ++ [CSave (TPat (expand p))], mem ++ [TPat (expand p)]) else Some (cs, mem)
  | None => None
  end.

Fixpoint memo_calls (p:npat) (mem:list term) : option (list call * list term) :=
  if in_memory p mem then Some ([CLoad (TPat (expand p))], mem) else
  finish_memo p
  match p with
  | NE n => Some ([CEVar n], mem)
  | NS n => Some ([CSVar n], mem)
  | NY n => Some ([CSymbol n], mem)
  | NMV id ef sf ps ng hs => Some ([CMetaVar id ef sf ps ng hs], mem)
  | NImp l r =>
      match memo_calls l mem with
      | Some (a, m1) => match memo_calls r m1 with
                        | Some (b, m2) => Some (a ++ b ++ [CImplies (expand l) (expand r)], m2)
                        | None => None end
      | None => None end
  | NApp l r =>
      match memo_calls l mem with
      | Some (a, m1) => match memo_calls r m1 with
                        | Some (b, m2) => Some (a ++ b ++ [CApp (expand l) (expand r)], m2)
                        | None => None end
      | None => None end
  | NEx x q => match memo_calls q mem with
               | Some (a, m1) => Some (a ++ [CExists x (expand q)], m1) | None => None end
  | NMu X q => match memo_calls q mem with
               | Some (a, m1) => Some (a ++ [CMu X (expand q)], m1) | None => None end
  | NESub q x plug =>
      match memo_calls plug mem with
      | Some (a, m1) => match memo_calls q m1 with
                        | Some (b, m2) =>
                            (* a LOADED sub-pattern is returned as the object [q] itself *)
                            if meta_head q then Some (a ++ b ++ [CESubst x (expand q) (expand plug)], m2) else None
                        | None => None end
      | None => None end
  | NSSub q X plug =>
      match memo_calls plug mem with
      | Some (a, m1) => match memo_calls q m1 with
                        | Some (b, m2) =>
                            if meta_head q then Some (a ++ b ++ [CSSubst X (expand q) (expand plug)], m2) else None
                        | None => None end
      | None => None end
  | NInst body d =>
      match (fix go (d:list (N * npat)) (mem:list term) : option (list call * list term) :=
               match d with
               | [] => Some ([], mem)
               | (_, v) :: r => match memo_calls v mem with
                                | Some (a, m1) => match go r m1 with
                                                  | Some (b, m2) => Some (a ++ b, m2) | None => None end
                                | None => None end
               end) d mem with
      | Some (a, m1) => match memo_calls body m1 with
                        | Some (b, m2) => Some (a ++ b ++ [CInstantiatePattern (expand body) (nexpand_delta d)], m2)
                        | None => None end
      | None => None end
  end.

End Memo.

(** a proof module: own axioms, own claims, imported submodules (proof.py:49-125) *)
Inductive module := Mod (axioms:list npat) (claims:list npat) (subs:list module).

Definition m_axioms (m:module) := match m with Mod a _ _ => a end.
Definition m_claims (m:module) := match m with Mod _ c _ => c end.
Definition m_subs (m:module) := match m with Mod _ _ s => s end.

(** the declared theory: submodules' axioms first (import order, recursively: the import-tree walk
    of [execute_gamma_phase]; a module imported along two paths is walked twice, D15), then own *)
Fixpoint flat_axioms (m:module) : list npat :=
  match m with
  | Mod a _ s => (fix go (s:list module) : list npat :=
                    match s with [] => [] | x :: r => flat_axioms x ++ go r end) s ++ a
  end.

(** [execute_gamma_phase] (proof.py:200) without optimisation *)
Fixpoint axioms_calls (l:list npat) : option (list call) :=
  match l with
  | [] => Some []
  | a :: r => match pattern_calls a, axioms_calls r with
              | Some x, Some y => Some (x ++ [CPublishAxiom (expand a)] ++ y) | _, _ => None end
  end.
Definition gamma_calls (m:module) : option (list call) := axioms_calls (flat_axioms m).

(** [execute_claims_phase] (proof.py:210): own claims only, REVERSED *)
Fixpoint claims_calls_in_order (l:list npat) : option (list call) :=
  match l with
  | [] => Some []
  | c :: r => match pattern_calls c, claims_calls_in_order r with
              | Some x, Some y => Some (x ++ [CPublishClaim (expand c)] ++ y) | _, _ => None end
  end.
Definition claim_calls (m:module) : option (list call) := claims_calls_in_order (rev (m_claims m)).

(** the same two phases under the memoiser *)
Section MemoModule.
Variable sel : npat -> bool.

Fixpoint maxioms_calls (l:list npat) (mem:list term) : option (list call * list term) :=
  match l with
  | [] => Some ([], mem)
  | a :: r => match memo_calls sel a mem with
              | Some (x, m1) =>
                  match maxioms_calls r (m1 ++ [TProved (expand a)]) with
                  | Some (y, m2) => Some (x ++ [CPublishAxiom (expand a)] ++ y, m2) | None => None end
              | None => None end
  end.
Definition mgamma_calls (m:module) : option (list call * list term) := maxioms_calls (flat_axioms m) [].

Fixpoint mclaims_calls (l:list npat) (mem:list term) : option (list call * list term) :=
  match l with
  | [] => Some ([], mem)
  | c :: r => match memo_calls sel c mem with
              | Some (x, m1) =>
                  match mclaims_calls r m1 with
                  | Some (y, m2) => Some (x ++ [CPublishClaim (expand c)] ++ y, m2) | None => None end
              | None => None end
  end.
Definition mclaim_calls (m:module) (mem:list term) : option (list call * list term) :=
  mclaims_calls (rev (m_claims m)) mem.

End MemoModule.

(** the patterns published by a call sequence, in order *)
Fixpoint pub_of (cs:list call) : list pat :=
  match cs with
  | [] => []
  | CPublishAxiom p :: r | CPublishClaim p :: r | CPublishProof p :: r => p :: pub_of r
  | _ :: r => pub_of r
  end.

(** the gamma and claim files of a module ([serialize], proof.py:269, first two phases);
    [sel = None]: optimize off *)
Definition mod_files (sel:option (npat -> bool)) (m:module)
  : option (symtab * tracker * list N * list N) :=
  let tr0 := fresh_tracker Gamma (map expand (m_claims m)) in
  match sel with
  | None =>
      match gamma_calls m, claim_calls m with
      | Some gc, Some cc =>
          match ser_run [] tr0 gc with
          | Some (t1, tr1, gb) =>
              match stateful_step tr1 CIntoClaim with
              | Some tr1' =>
                  match ser_run t1 tr1' cc with
                  | Some (t2, tr2, cb) => Some (t2, tr2, gb, cb)
                  | None => None end
              | None => None end
          | None => None end
      | _, _ => None end
  | Some s =>
      match mgamma_calls s m with
      | Some (gc, mem1) =>
          match mclaim_calls s m mem1 with
          | Some (cc, _) =>
              match ser_run [] tr0 gc with
              | Some (t1, tr1, gb) =>
                  match stateful_step tr1 CIntoClaim with
                  | Some tr1' =>
                      match ser_run t1 tr1' cc with
                      | Some (t2, tr2, cb) => Some (t2, tr2, gb, cb)
                      | None => None end
                  | None => None end
              | None => None end
          | None => None end
      | None => None end
  end.

(** M4 (Interp): the generator-side interpreters over EXPANDED patterns.

    Modelled code (generation/src/proof_generation/):
      interpreter.py            abstract [Interpreter], [ExecutionPhase]           -> [call], phases
      basic_interpreter.py      conclusions of the rules                           -> inside [stateful_step]
      stateful_interpreter.py   stack / memory / claims tracker, every assert=None -> [stateful_step]
      serializing_interpreter.py  bytes written per call, symbol numbering          -> [emit]
      io_interpreter.py         one sink per phase                                 -> [files] in [ser_run3]
      deserialize.py            opcode dispatch with operand peeking               -> [deser]

    Conventions.  Patterns are the checker's [pat] (notation fully expanded); a symbol NAME is an [N]
    chosen by the harness (the runner maps Python strings to numbers); the serialiser's table maps a
    name to the byte it writes.  Python [raise]/failed [assert]/IndexError/ValueError = [None].
    Stacks have their TOP at the HEAD (Python lists have it at the end).

    Ghost data (never inspected by any accept/reject decision, never emitted):
      - the boolean beside every tracker stack entry: [true] = "publish residue", the entry was
        published; the generator-side tracker keeps it (defect D8), the checker popped it;
      - [t_journal]: the claims published so far (head = last), which the Python tracker does not
        record at all ([publish_claim] only asserts). *)
From Coq Require Import NArith List Bool.
From Pi2 Require Import ML.Syntax ML.Subst ML.Machine.
Import ListNotations.
Open Scope N_scope.

(* ------------------------------------------------------------------------------------------ *)
(** * Python-side operations on expanded patterns (pattern.py) *)

(** [Pattern.apply_esubst] (pattern.py:130,166,202,239,272,301,340,390,433,464) *)
Fixpoint py_esubst (p:pat) (x:N) (plug:pat) : pat :=
  match p with
  | EVar n => if N.eqb x n then plug else p
  | SVar _ | Sym _ => p
  | Imp l r => Imp (py_esubst l x plug) (py_esubst r x plug)
  | App l r => App (py_esubst l x plug) (py_esubst r x plug)
  | Ex y q => if N.eqb x y then p else Ex y (py_esubst q x plug)
  | Mu Y q => Mu Y (py_esubst q x plug)
  | MVar _ ef _ _ _ _ => if mem x ef then p else ESub p x plug
  | ESub _ _ _ | SSub _ _ _ => ESub p x plug
  end.

(** [Pattern.apply_ssubst] *)
Fixpoint py_ssubst (p:pat) (X:N) (plug:pat) : pat :=
  match p with
  | SVar n => if N.eqb X n then plug else p
  | EVar _ | Sym _ => p
  | Imp l r => Imp (py_ssubst l X plug) (py_ssubst r X plug)
  | App l r => App (py_ssubst l X plug) (py_ssubst r X plug)
  | Ex y q => Ex y (py_ssubst q X plug)
  | Mu Y q => if N.eqb X Y then p else Mu Y (py_ssubst q X plug)
  | MVar _ _ sf _ _ _ => if mem X sf then p else SSub p X plug
  | ESub _ _ _ | SSub _ _ _ => SSub p X plug
  end.

(** a Python [dict[int, Pattern]]: insertion ordered, keys pairwise distinct *)
Definition delta := list (N * pat).

Fixpoint dlookup (k:N) (d:delta) : option pat :=
  match d with
  | [] => None
  | (k', v) :: d' => if N.eqb k' k then Some v else dlookup k d'
  end.

Definition is_nil {A} (l:list A) : bool := match l with [] => true | _ => false end.

(** [Pattern.instantiate] on plain constructors.  [if not delta: return self] of the ESubst/SSubst
    arms is kept literally; for the other arms recursing with an empty [delta] is the identity. *)
Fixpoint py_inst (p:pat) (d:delta) : pat :=
  match p with
  | EVar _ | SVar _ | Sym _ => p
  | Imp l r => Imp (py_inst l d) (py_inst r d)
  | App l r => App (py_inst l d) (py_inst r d)
  | Ex y q => Ex y (py_inst q d)
  | Mu Y q => Mu Y (py_inst q d)
  | MVar id _ _ _ _ _ => match dlookup id d with Some q => q | None => p end
  | ESub q x plug => if is_nil d then p else py_esubst (py_inst q d) x (py_inst plug d)
  | SSub q X plug => if is_nil d then p else py_ssubst (py_inst q d) X (py_inst plug d)
  end.

(** [Pattern.evar_is_free] really means "is fresh"; on plain constructors it is, arm by arm, the
    checker's [e_fresh] (EVar: name != self.name; Exists: name == var or sub; MetaVar: membership in
    e_fresh; ESubst: plug if var == name else pattern and plug; SSubst: pattern and plug). *)
Definition py_fresh (p:pat) (x:N) : bool := e_fresh p x.

(** [Implies.extract] on an expanded pattern *)
Definition extract_imp (p:pat) : option (pat * pat) :=
  match p with Imp l r => Some (l, r) | _ => None end.

(* ------------------------------------------------------------------------------------------ *)
(** * Calls: one constructor per [Interpreter] method *)

Inductive call :=
| CEVar (id:N) | CSVar (id:N) | CSymbol (name:N)
| CMetaVar (id:N) (ef sf pos neg holes:list N)
| CImplies (l r:pat) | CApp (l r:pat)
| CExists (x:N) (p:pat) | CMu (X:N) (p:pat)
| CESubst (x:N) (p plug:pat) | CSSubst (X:N) (p plug:pat)
| CProp1 | CProp2 | CProp3 | CQuantifier
| CModusPonens (l r:pat)              (* conclusions of the two [Proved] arguments *)
| CGeneralization (p:pat) (x:N)       (* conclusion of the [Proved] argument, [var.name] *)
| CInstantiate (p:pat) (d:delta)      (* [instantiate(Proved(p), d)] *)
| CInstantiatePattern (p:pat) (d:delta)
| CPop (t:term) | CSave (t:term) | CLoad (t:term)
| CPublishProof (p:pat) | CPublishAxiom (p:pat) | CPublishClaim (p:pat)
| CIntoClaim | CIntoProof.

(* ------------------------------------------------------------------------------------------ *)
(** * The tracker (stateful_interpreter.py) *)

Definition sterm := (term * bool)%type.

Record tracker := mktr {
  t_phase   : phase;
  t_stack   : list sterm;   (* head = top;  bool = ghost residue mark *)
  t_memory  : list term;    (* index 0 first *)
  t_claims  : list pat;     (* constructor argument; [publish_proof] takes the FIRST *)
  t_journal : list pat      (* ghost: claims published so far, head = last *)
}.

Definition fresh_tracker (ph:phase) (cl:list pat) : tracker := mktr ph [] [] cl [].

Definition term_eqb (a b:term) : bool :=
  match a, b with
  | TPat p, TPat q | TProved p, TProved q => pat_eqb p q
  | _, _ => false
  end.

Definition phase_eqb (a b:phase) : bool :=
  match a, b with Gamma, Gamma | Claim, Claim | Proof, Proof => true | _, _ => false end.

Definition set_tstack (s:list sterm) (tr:tracker) : tracker :=
  mktr (t_phase tr) s (t_memory tr) (t_claims tr) (t_journal tr).
Definition tpush (t:term) (tr:tracker) : tracker := set_tstack ((t, false) :: t_stack tr) tr.

Definition top_is (t:term) (s:list sterm) : bool :=
  match s with (u, _) :: _ => term_eqb u t | [] => false end.

Definition mark_top (s:list sterm) : list sterm :=
  match s with (u, _) :: s' => (u, true) :: s' | [] => [] end.

(** [expected_plugs == list(delta.values())] with the plugs read top first *)
Fixpoint plugs_match (s:list sterm) (vs:list pat) : bool :=
  match s, vs with
  | [], [] => true
  | (t, _) :: s', v :: vs' => term_eqb t (TPat v) && plugs_match s' vs'
  | _, _ => false
  end.

Fixpoint nodup_keys (d:delta) : bool :=
  match d with
  | [] => true
  | (k, _) :: d' => negb (existsb (fun e => N.eqb (fst e) k) d') && nodup_keys d'
  end.

Definition binary (mk:pat -> pat -> pat) (l r:pat) (tr:tracker) : option tracker :=
  match t_stack tr with
  | (er, _) :: (el, _) :: s =>
      if term_eqb el (TPat l) && term_eqb er (TPat r)
      then Some (set_tstack ((TPat (mk l r), false) :: s) tr) else None
  | _ => None
  end.

Definition unary (mk:pat -> pat) (p:pat) (tr:tracker) : option tracker :=
  match t_stack tr with
  | (e, _) :: s => if term_eqb e (TPat p) then Some (set_tstack ((TPat (mk p), false) :: s) tr) else None
  | [] => None
  end.

(** [instantiate] (stateful_interpreter.py:156) and [instantiate_pattern] (:167).
    Both guard the slices [stack[-len(delta):]] / [stack[:-len(delta)]] with [len(delta)]
    ([instantiate] since the fix of D11, /repo commit 9b6b5b9; before it the slices were taken even
    when [len(delta) = 0], where they denote the WHOLE stack / the EMPTY stack, so that
    [instantiate(p, {})] succeeded only on an otherwise empty stack). *)
Definition do_instantiate (proved:bool) (p:pat) (d:delta) (tr:tracker) : option tracker :=
  if negb (nodup_keys d) then None else
  match t_stack tr with
  | (t, _) :: s =>
      let target := if proved then TProved p else TPat p in
      let result := if proved then TProved (py_inst p d) else TPat (py_inst p d) in
      if term_eqb t target then
        match d with
        | [] => if proved
                then Some (set_tstack ((TProved p, false) :: s) tr)     (* [if not delta: return proved] *)
                else Some (set_tstack ((result, false) :: s) tr)
        | _ => let n := length d in
               if plugs_match (firstn n s) (rev (map snd d))
               then Some (set_tstack ((result, false) :: skipn n s) tr) else None
        end
      else None
  | [] => None
  end.

Definition stateful_step (tr:tracker) (c:call) : option tracker :=
  match c with
  | CEVar id => Some (tpush (TPat (EVar id)) tr)
  | CSVar id => Some (tpush (TPat (SVar id)) tr)
  | CSymbol name => Some (tpush (TPat (Sym name)) tr)
  | CMetaVar id ef sf ps ng hs => Some (tpush (TPat (MVar id ef sf ps ng hs)) tr)
  | CImplies l r => binary Imp l r tr
  | CApp l r => binary App l r tr
  | CExists x p => unary (Ex x) p tr
  | CMu X p => unary (Mu X) p tr
  | CESubst x p plug =>     (* [*stack, expected_plug, expected_pattern = stack] *)
      match t_stack tr with
      | (ep, _) :: (eg, _) :: s =>
          if term_eqb ep (TPat p) && term_eqb eg (TPat plug)
          then Some (set_tstack ((TPat (ESub p x plug), false) :: s) tr) else None
      | _ => None end
  | CSSubst X p plug =>
      match t_stack tr with
      | (ep, _) :: (eg, _) :: s =>
          if term_eqb ep (TPat p) && term_eqb eg (TPat plug)
          then Some (set_tstack ((TPat (SSub p X plug), false) :: s) tr) else None
      | _ => None end
  | CProp1 => Some (tpush (TProved ax_prop1) tr)
  | CProp2 => Some (tpush (TProved ax_prop2) tr)
  | CProp3 => Some (tpush (TProved ax_prop3) tr)
  | CQuantifier => Some (tpush (TProved ax_quantifier) tr)
  | CModusPonens l r =>
      match t_stack tr with
      | (er, _) :: (el, _) :: s =>
          if term_eqb el (TProved l) && term_eqb er (TProved r) then
            match extract_imp l with
            | Some (a, b) => if pat_eqb a r then Some (set_tstack ((TProved b, false) :: s) tr) else None
            | None => None end
          else None
      | _ => None end
  | CGeneralization p x =>
      match t_stack tr with
      | (e, _) :: s =>
          if term_eqb e (TProved p) then
            match extract_imp p with
            | Some (l, r) => if py_fresh r x
                             then Some (set_tstack ((TProved (Imp (Ex x l) r), false) :: s) tr) else None
            | None => None end
          else None
      | [] => None end
  | CInstantiate p d => do_instantiate true p d tr
  | CInstantiatePattern p d => do_instantiate false p d tr
  | CPop t =>
      match t_stack tr with
      | (e, _) :: s => if term_eqb e t then Some (set_tstack s tr) else None
      | [] => None end
  | CSave t =>
      if top_is t (t_stack tr)
      then Some (mktr (t_phase tr) (t_stack tr) (t_memory tr ++ [t]) (t_claims tr) (t_journal tr))
      else None
  | CLoad t =>
      if existsb (term_eqb t) (t_memory tr) then Some (tpush t tr) else None
  | CPublishProof p =>       (* does NOT pop (D8): the top is only marked *)
      match t_phase tr, t_claims tr with
      | Proof, c :: cs =>
          if pat_eqb p c && top_is (TProved p) (t_stack tr)
          then Some (mktr Proof (mark_top (t_stack tr)) (t_memory tr) cs (t_journal tr)) else None
      | _, _ => None end
  | CPublishAxiom p =>
      match t_phase tr with
      | Gamma =>
          if top_is (TPat p) (t_stack tr)
          then Some (mktr Gamma (mark_top (t_stack tr)) (t_memory tr ++ [TProved p]) (t_claims tr) (t_journal tr))
          else None
      | _ => None end
  | CPublishClaim p =>
      match t_phase tr with
      | Claim =>
          if top_is (TPat p) (t_stack tr)
          then Some (mktr Claim (mark_top (t_stack tr)) (t_memory tr) (t_claims tr) (p :: t_journal tr))
          else None
      | _ => None end
  | CIntoClaim =>
      match t_phase tr with
      | Gamma => Some (mktr Claim [] (t_memory tr) (t_claims tr) (t_journal tr))
      | _ => None end
  | CIntoProof =>
      match t_phase tr with
      | Claim => Some (mktr Proof [] (t_memory tr) (t_claims tr) (t_journal tr))
      | _ => None end
  end.

Fixpoint stateful_run (tr:tracker) (cs:list call) : option tracker :=
  match cs with
  | [] => Some tr
  | c :: cs' => match stateful_step tr c with Some tr' => stateful_run tr' cs' | None => None end
  end.

(* ------------------------------------------------------------------------------------------ *)
(** * The serialiser (serializing_interpreter.py) *)

(** [_symbol_identifiers]: names in order of first occurrence; the id is the position *)
Definition symtab := list N.

Fixpoint idx_from (k:nat) (name:N) (tbl:symtab) : option nat :=
  match tbl with
  | [] => None
  | n :: tbl' => if N.eqb n name then Some k else idx_from (S k) name tbl'
  end.
Definition idx_of (name:N) (tbl:symtab) : option nat := idx_from 0 name tbl.

(** [bytes([...])] raises ValueError unless every element is in range(256) *)
Definition byte_ok (b:N) : bool := b <? 256.
Definition bytes (l:list N) : option (list N) := if forallb byte_ok l then Some l else None.

Definition vec (l:list N) : list N := N.of_nat (length l) :: l.

(** [list.index(term)]: first position whose element is [==] *)
Fixpoint index_from (k:nat) (t:term) (m:list term) : option nat :=
  match m with
  | [] => None
  | u :: m' => if term_eqb u t then Some k else index_from (S k) t m'
  end.
Definition index_of (t:term) (m:list term) : option nat := index_from 0 t m.

Definition with_tbl (tbl:symtab) (o:option (list N)) : option (symtab * list N) :=
  match o with Some bs => Some (tbl, bs) | None => None end.

(** bytes written by one call; [tr] is the tracker BEFORE the call (only its memory is read, by
    [load], and [load] does not change the memory) *)
Definition emit (tbl:symtab) (tr:tracker) (c:call) : option (symtab * list N) :=
  match c with
  | CEVar id => with_tbl tbl (bytes [2; id])
  | CSVar id => with_tbl tbl (bytes [3; id])
  | CSymbol name =>
      match idx_of name tbl with
      | Some i => with_tbl tbl (bytes [4; N.of_nat i])
      | None => with_tbl (tbl ++ [name]) (bytes [4; N.of_nat (length tbl)])
      end
  | CMetaVar id ef sf ps ng hs =>
      if is_nil ef && is_nil sf && is_nil ps && is_nil ng && is_nil hs
      then with_tbl tbl (bytes [137; id])
      else with_tbl tbl (bytes (9 :: id :: vec ef ++ vec sf ++ vec ps ++ vec ng ++ vec hs))
  | CImplies _ _ => Some (tbl, [5])
  | CApp _ _ => Some (tbl, [6])
  | CMu X _ => with_tbl tbl (bytes [7; X])
  | CExists x _ => with_tbl tbl (bytes [8; x])
  | CESubst x _ _ => with_tbl tbl (bytes [10; x])
  | CSSubst X _ _ => with_tbl tbl (bytes [11; X])
  | CProp1 => Some (tbl, [12])
  | CProp2 => Some (tbl, [13])
  | CProp3 => Some (tbl, [14])
  | CQuantifier => Some (tbl, [15])
  | CModusPonens _ _ => Some (tbl, [21])
  | CGeneralization _ x => with_tbl tbl (bytes [22; x])
  | CInstantiate _ d | CInstantiatePattern _ d =>
      with_tbl tbl (bytes (26 :: N.of_nat (length d) :: rev (map fst d)))
  | CPop _ => Some (tbl, [27])
  | CSave _ => Some (tbl, [28])
  | CLoad t =>
      match index_of t (t_memory tr) with
      | Some i => with_tbl tbl (bytes [29; N.of_nat i])
      | None => None end
  | CPublishProof _ | CPublishAxiom _ | CPublishClaim _ => Some (tbl, [30])
  | CIntoClaim | CIntoProof => Some (tbl, [])      (* the sink is switched, nothing is written *)
  end.

Definition is_switch (c:call) : bool :=
  match c with CIntoClaim | CIntoProof => true | _ => false end.

(** one call of the [SerializingInterpreter]: tracker update (asserts) and bytes *)
Definition ser_step (tbl:symtab) (tr:tracker) (c:call) : option (symtab * tracker * list N) :=
  match stateful_step tr c with
  | Some tr' => match emit tbl tr c with
                | Some (tbl', bs) => Some (tbl', tr', bs)
                | None => None end
  | None => None
  end.

(** a run inside ONE phase (no sink switch): the bytes of one file *)
Fixpoint ser_run (tbl:symtab) (tr:tracker) (cs:list call) : option (symtab * tracker * list N) :=
  match cs with
  | [] => Some (tbl, tr, [])
  | c :: cs' =>
      if is_switch c then None else
      match ser_step tbl tr c with
      | Some (tbl', tr', bs) =>
          match ser_run tbl' tr' cs' with
          | Some (tbl'', tr'', bs') => Some (tbl'', tr'', bs ++ bs')
          | None => None end
      | None => None end
  end.

(** a run across phases: three sinks (io_interpreter.py) *)
Definition files := (list N * list N * list N)%type.
Definition add_bytes (ph:phase) (bs:list N) (f:files) : files :=
  let '(g, c, p) := f in
  match ph with Gamma => (g ++ bs, c, p) | Claim => (g, c ++ bs, p) | Proof => (g, c, p ++ bs) end.

Fixpoint ser_run3 (tbl:symtab) (tr:tracker) (f:files) (cs:list call) : option (symtab * tracker * files) :=
  match cs with
  | [] => Some (tbl, tr, f)
  | c :: cs' =>
      match ser_step tbl tr c with
      | Some (tbl', tr', bs) => ser_run3 tbl' tr' (add_bytes (t_phase tr) bs f) cs'
      | None => None end
  end.

(* ------------------------------------------------------------------------------------------ *)
(** * The deserialiser (deserialize.py) *)

(** one flag per defect of the pinned [deserialize.py] (D7a-g); [true] = defective behaviour *)
Record dflags := {
  df_subst_plug_top     : bool;  (* D7a/b  ESubst/SSubst: plug read from stack[-1] instead of stack[-2] *)
  df_metavar_ints       : bool;  (* D7c    constrained MetaVar gets ints instead of EVar/SVar objects *)
  df_no_quantifier      : bool;  (* D7d    Quantifier falls into "Unknown instruction" *)
  df_no_generalization  : bool;  (* D7e    Generalization falls into "Unknown instruction" *)
  df_publish_gamma_skip : bool;  (* D7f    Publish in the gamma phase is silently ignored *)
  df_publish_proof_bad  : bool;  (* D7f'   Publish in the proof phase calls publish_claim (asserts) *)
  df_zero_stops         : bool   (* D7g    [while byte := next()] : byte 0 ends the loop silently *)
}.
Definition dflags_fixed : dflags := Build_dflags false false false false false false false.
Definition dflags_pinned : dflags := Build_dflags true true true true true true true.

Definition peek (n:nat) (tr:tracker) : option term :=
  match nth_error (t_stack tr) n with Some (t, _) => Some t | None => None end.
Definition peek_pat (n:nat) (tr:tracker) : option pat :=
  match peek n tr with Some (TPat p) => Some p | _ => None end.
Definition peek_proved (n:nat) (tr:tracker) : option pat :=
  match peek n tr with Some (TProved p) => Some p | _ => None end.

(** [dict(pairs)]: a later pair with an existing key overwrites the value in place *)
Fixpoint dict_set (k:N) (v:pat) (d:delta) : delta :=
  match d with
  | [] => [(k, v)]
  | (k', v') :: d' => if N.eqb k' k then (k', v) :: d' else (k', v') :: dict_set k v d'
  end.
Definition mk_dict (pairs:delta) : delta := fold_left (fun d kv => dict_set (fst kv) (snd kv) d) pairs [].

(** the plugs below the target, top first: [reversed(stack[-(n+1):-1])], each asserted a Pattern;
    [zip(..., strict=True)] fails when fewer than [n] are there *)
Fixpoint peek_plugs (n:nat) (s:list sterm) : option (list pat) :=
  match n with
  | O => Some []
  | S n' => match s with
            | (TPat p, _) :: s' => match peek_plugs n' s' with Some l => Some (p :: l) | None => None end
            | _ => None end
  end.

Section Deser.
Variable df : dflags.

(** decode ONE instruction: opcode [op] (already known to be non-zero or zero-not-special), operand
    bytes from [bs], operands peeked from the tracker.  [Some (None, _)] = nothing is called. *)
Definition decode (op:N) (bs:list N) (tr:tracker) : option (option call * list N) :=
  match op with
  | 2 => match bs with id :: r => Some (Some (CEVar id), r) | [] => None end
  | 3 => match bs with id :: r => Some (Some (CSVar id), r) | [] => None end
  | 4 => match bs with id :: r => Some (Some (CSymbol id), r) | [] => None end     (* [symbol(str(id))] *)
  | 5 => match peek_pat 0 tr, peek_pat 1 tr with
         | Some r0, Some l0 => Some (Some (CImplies l0 r0), bs) | _, _ => None end
  | 6 => match peek_pat 0 tr, peek_pat 1 tr with
         | Some r0, Some l0 => Some (Some (CApp l0 r0), bs) | _, _ => None end
  | 8 => match bs with
         | id :: r => match peek_pat 0 tr with Some p => Some (Some (CExists id p), r) | None => None end
         | [] => None end
  | 7 => match bs with
         | id :: r => match peek_pat 0 tr with Some p => Some (Some (CMu id p), r) | None => None end
         | [] => None end
  | 10 => match bs with
          | x :: r =>
              match peek_pat 0 tr, (if df_subst_plug_top df then peek_pat 0 tr else peek_pat 1 tr) with
              | Some p, Some plug => Some (Some (CESubst x p plug), r) | _, _ => None end
          | [] => None end
  | 11 => match bs with
          | x :: r =>
              match peek_pat 0 tr, (if df_subst_plug_top df then peek_pat 0 tr else peek_pat 1 tr) with
              | Some p, Some plug => Some (Some (CSSubst x p plug), r) | _, _ => None end
          | [] => None end
  | 9 => match bs with
         | id :: r0 =>
           match read_vec r0 with Some (ef, r1) =>
           match read_vec r1 with Some (sf, r2) =>
           match read_vec r2 with Some (ps, r3) =>
           match read_vec r3 with Some (ng, r4) =>
           match read_vec r4 with Some (hs, r5) =>
             (* D7c: with ints instead of EVar/SVar objects the resulting MetaVar is not a term of
                the model; the defective configuration is modelled as "no round trip" *)
             if df_metavar_ints df && negb (is_nil ef && is_nil sf && is_nil ps && is_nil ng && is_nil hs)
             then None
             else Some (Some (CMetaVar id ef sf ps ng hs), r5)
           | None => None end | None => None end | None => None end | None => None end | None => None end
         | [] => None end
  | 137 => match bs with id :: r => Some (Some (CMetaVar id [] [] [] [] []), r) | [] => None end
  | 12 => Some (Some CProp1, bs)
  | 13 => Some (Some CProp2, bs)
  | 14 => Some (Some CProp3, bs)
  | 15 => if df_no_quantifier df then None else Some (Some CQuantifier, bs)
  | 21 => match peek_proved 0 tr, peek_proved 1 tr with
          | Some r0, Some l0 => Some (Some (CModusPonens l0 r0), bs) | _, _ => None end
  | 22 => if df_no_generalization df then None else
          match bs with
          | x :: r => match peek_proved 0 tr with Some p => Some (Some (CGeneralization p x), r) | None => None end
          | [] => None end
  | 26 => match bs with
          | n :: r0 =>
              match take_n (N.to_nat n) r0 with
              | Some (keys, r1) =>
                  match t_stack tr with
                  | (target, _) :: s =>
                      match peek_plugs (N.to_nat n) s with
                      | Some vals =>
                          let d := mk_dict (rev (combine keys vals)) in
                          match target with
                          | TProved p => Some (Some (CInstantiate p d), r1)
                          | TPat p => Some (Some (CInstantiatePattern p d), r1)
                          end
                      | None => None end
                  | [] => None end
              | None => None end
          | [] => None end
  | 27 => match peek 0 tr with Some t => Some (Some (CPop t), bs) | None => None end
  | 28 => match peek 0 tr with Some t => Some (Some (CSave t), bs) | None => None end
  | 29 => match bs with
          | i :: r => match nth_error (t_memory tr) (N.to_nat i) with
                      | Some t => Some (Some (CLoad t), r) | None => None end
          | [] => None end
  | 30 => match t_phase tr with
          | Claim => match peek_pat 0 tr with Some p => Some (Some (CPublishClaim p), bs) | None => None end
          | Proof =>
              if df_publish_proof_bad df then None     (* publish_claim asserts phase == Claim *)
              else match peek_proved 0 tr, t_claims tr with
                   | Some p, c :: _ => if pat_eqb c p then Some (Some (CPublishProof p), bs) else None
                   | _, _ => None end
          | Gamma =>
              if df_publish_gamma_skip df then Some (None, bs)
              else match peek_pat 0 tr with Some p => Some (Some (CPublishAxiom p), bs) | None => None end
          end
  | _ => None    (* Instruction(byte) raises ValueError / "Unknown instruction" *)
  end.

Fixpoint deser_fuel (fuel:nat) (bs:list N) (tr:tracker) : option tracker :=
  match bs with
  | [] => Some tr
  | op :: rest =>
      match fuel with
      | O => None
      | S f =>
          if N.eqb op 0 && df_zero_stops df then Some tr else
          match decode op rest tr with
          | Some (oc, rest') =>
              match (match oc with Some c => stateful_step tr c | None => Some tr end) with
              | Some tr' => deser_fuel f rest' tr'
              | None => None end
          | None => None end
      end
  end.

(** every instruction consumes its opcode byte, so [length bs] steps suffice *)
Definition deser (bs:list N) (tr:tracker) : option tracker := deser_fuel (length bs) bs tr.

End Deser.

(* ------------------------------------------------------------------------------------------ *)
(** * Symbol renaming ("up to symbol numbering") *)

Fixpoint rn (f:N -> N) (p:pat) : pat :=
  match p with
  | Sym n => Sym (f n)
  | EVar _ | SVar _ | MVar _ _ _ _ _ _ => p
  | Imp l r => Imp (rn f l) (rn f r)
  | App l r => App (rn f l) (rn f r)
  | Ex x q => Ex x (rn f q)
  | Mu X q => Mu X (rn f q)
  | ESub q x plug => ESub (rn f q) x (rn f plug)
  | SSub q X plug => SSub (rn f q) X (rn f plug)
  end.

Definition rn_term (f:N -> N) (t:term) : term :=
  match t with TPat p => TPat (rn f p) | TProved p => TProved (rn f p) end.
Definition rn_sterm (f:N -> N) (e:sterm) : sterm := (rn_term f (fst e), snd e).
Definition rn_delta (f:N -> N) (d:delta) : delta := map (fun kv => (fst kv, rn f (snd kv))) d.
Definition rn_tracker (f:N -> N) (tr:tracker) : tracker :=
  mktr (t_phase tr) (map (rn_sterm f) (t_stack tr)) (map (rn_term f) (t_memory tr))
       (map (rn f) (t_claims tr)) (map (rn f) (t_journal tr)).

Definition rn_call (f:N -> N) (c:call) : call :=
  match c with
  | CSymbol name => CSymbol (f name)
  | CImplies l r => CImplies (rn f l) (rn f r)
  | CApp l r => CApp (rn f l) (rn f r)
  | CExists x p => CExists x (rn f p)
  | CMu X p => CMu X (rn f p)
  | CESubst x p plug => CESubst x (rn f p) (rn f plug)
  | CSSubst X p plug => CSSubst X (rn f p) (rn f plug)
  | CModusPonens l r => CModusPonens (rn f l) (rn f r)
  | CGeneralization p x => CGeneralization (rn f p) x
  | CInstantiate p d => CInstantiate (rn f p) (rn_delta f d)
  | CInstantiatePattern p d => CInstantiatePattern (rn f p) (rn_delta f d)
  | CPop t => CPop (rn_term f t)
  | CSave t => CSave (rn_term f t)
  | CLoad t => CLoad (rn_term f t)
  | CPublishProof p => CPublishProof (rn f p)
  | CPublishAxiom p => CPublishAxiom (rn f p)
  | CPublishClaim p => CPublishClaim (rn f p)
  | CEVar _ | CSVar _ | CMetaVar _ _ _ _ _ _ | CProp1 | CProp2 | CProp3 | CQuantifier
  | CIntoClaim | CIntoProof => c
  end.

(** the numbering function of a table: position of the name; names not in the table get the next
    free number (any value would do: such names are never written) *)
Definition numbering (tbl:symtab) (name:N) : N :=
  match idx_of name tbl with Some i => N.of_nat i | None => N.of_nat (length tbl) end.

(* ------------------------------------------------------------------------------------------ *)
(** * C04: what the checker demands and the tracker does not (the boundary of the simulation) *)

(** number of stack entries a call reads or consumes *)
Definition consumes (c:call) : nat :=
  match c with
  | CImplies _ _ | CApp _ _ | CESubst _ _ _ | CSSubst _ _ _ | CModusPonens _ _ => 2
  | CExists _ _ | CMu _ _ | CGeneralization _ _ | CPop _ | CSave _
  | CPublishProof _ | CPublishAxiom _ | CPublishClaim _ => 1
  | CInstantiate _ d | CInstantiatePattern _ d => S (length d)
  | _ => 0
  end.

Definition no_residue (k:nat) (s:list sterm) : bool := forallb (fun e => negb (snd e)) (firstn k s).

Fixpoint pats_eqb (a b:list pat) : bool :=
  match a, b with
  | [], [] => true
  | x :: a', y :: b' => pat_eqb x y && pats_eqb a' b'
  | _, _ => false
  end.

Definition wf_true (o:option bool) : bool := match o with Some true => true | _ => false end.

(** [wf_code tr c = 0]: the call is inside the boundary; otherwise the number names the condition
    that fails (used by the harness to sign a divergence by call site):
    1 publish residue read (D8)      2 non-positive mu (D9a)       3 ill-formed metavar (holes)
    4 ill-formed/redundant esubst (D9b)  5 ill-formed/redundant ssubst (D9b)
    6 instantiate: checker result differs or checker rejects (D9c/d)
    7 into_proof_phase with declared claims different from the published ones *)
Definition wf_code (g:guards) (tr:tracker) (c:call) : N :=
  if negb (no_residue (consumes c) (t_stack tr)) then 1 else
  match c with
  | CMu X p => if pat_positive p X then 0 else 2
  | CMetaVar id ef sf ps ng hs => if wf_true (well_formed (MVar id ef sf ps ng hs)) then 0 else 3
  | CESubst x p plug => if wf_true (well_formed (ESub p x plug)) then 0 else 4
  | CSSubst X p plug => if wf_true (well_formed (SSub p X plug)) then 0 else 5
  | CInstantiate p d | CInstantiatePattern p d =>
      match inst g p (rev (map fst d)) (rev (map snd d)) with
      | Some q => if pat_eqb q (py_inst p d) then 0 else 6
      | None => 6 end
  | CIntoProof => if pats_eqb (t_journal tr) (t_claims tr) then 0 else 7
  | _ => 0
  end.
Definition wf_call (g:guards) (tr:tracker) (c:call) : bool := N.eqb (wf_code g tr c) 0.

(** Concrete patterns and flag configurations used by the [_refuted] theorems and the non-vacuity
    examples of C06/C07/C11/C12/C13 (definitions only). *)
From Coq Require Import NArith List Bool.
From Pi2 Require Import ML.Syntax Py.Pattern.
Import ListNotations.
Open Scope N_scope.

Definition pphi (i:N) : ppat := PMVar i [] [] [] [] [].
(** pattern.py:585-589 *)
Definition bot_def : ppat := PMu 0 (PSVar 0).
Definition bot_p : ppat := PInst bot_def [].
Definition neg_def : ppat := PImp (pphi 0) bot_p.
Definition neg_p (a:ppat) : ppat := PInst neg_def [(0, a)].
Definition and_def : ppat := neg_p (PImp (pphi 0) (neg_p (pphi 1))).
Definition and_p (a b:ppat) : ppat := PInst and_def [(0, a); (1, b)].
Definition bot_nt : notation := {| nt_label := []; nt_arity := 0; nt_def := bot_def; nt_fmt := [Lit [8869]] |}.
Definition neg_nt : notation := {| nt_label := []; nt_arity := 1; nt_def := neg_def; nt_fmt := [Lit [172]; Hole 0] |}.
Definition and_nt : notation :=
  {| nt_label := []; nt_arity := 2; nt_def := and_def; nt_fmt := [Lit [40]; Hole 0; Lit [32;8896;32]; Hole 1; Lit [41]] |}.

(** sound configuration with exactly one repair missing *)
Definition flags_no_fresh_simplify : pyflags :=
  {| f_fresh_simplify := false; f_inst_extend := true; f_mv_keep_subst := true;
     f_match_list_none := true; f_assert_none := true; f_match_simplify := true |}.
Definition flags_no_inst_extend : pyflags :=
  {| f_fresh_simplify := true; f_inst_extend := false; f_mv_keep_subst := true;
     f_match_list_none := true; f_assert_none := true; f_match_simplify := true |}.
Definition flags_mv_drop : pyflags :=
  {| f_fresh_simplify := true; f_inst_extend := true; f_mv_keep_subst := false;
     f_match_list_none := true; f_assert_none := true; f_match_simplify := true |}.
Definition flags_no_match_list_none : pyflags :=
  {| f_fresh_simplify := true; f_inst_extend := true; f_mv_keep_subst := true;
     f_match_list_none := false; f_assert_none := true; f_match_simplify := true |}.
Definition flags_no_assert_none : pyflags :=
  {| f_fresh_simplify := true; f_inst_extend := true; f_mv_keep_subst := true;
     f_match_list_none := true; f_assert_none := false; f_match_simplify := true |}.
Definition flags_no_match_simplify : pyflags :=
  {| f_fresh_simplify := true; f_inst_extend := true; f_mv_keep_subst := true;
     f_match_list_none := true; f_assert_none := true; f_match_simplify := false |}.

(** D5: Instantiate(phi0 -> phi1, {0: x7}).instantiate({1: phi0}) *)
Definition d5_pat : ppat := PInst (PImp (pphi 0) (pphi 1)) [(0, PEVar 7)].
Definition d5_delta : delta := [(1, pphi 0)].

(** D9d: N2 = Notation(1, ESubst(phi0, x1, x2)); p = N2(phi0{e_fresh x1}); delta = {0: phi5{e_fresh x1}[x4/x3]} *)
Definition drop_pat : ppat :=
  PInst (PESub (pphi 0) 1 (PEVar 2)) [(0, PMVar 0 [1] [] [] [] [])].
Definition drop_delta : delta := [(0, PESub (PMVar 5 [1] [] [] [] []) 3 (PEVar 4))].

(** metavars: N3 = Notation(2, ESubst(phi0, x1, phi1)); N3(x2, phi5) *)
Definition mvs_pat : ppat := PInst (PESub (pphi 0) 1 (pphi 1)) [(0, PEVar 2); (1, pphi 5)].

(** D4c: a notation whose body is a bare metavariable, applied to phi1 *)
Definition bare_pat : ppat := PInst (pphi 0) [(0, pphi 1)].

(** D13 (pinned tree, repaired by a fix commit): equiv's format string was the f-string f'({0} <-> {1})',
    i.e. the literal "(0 <-> 1)" without holes *)
Definition equiv_def : ppat := and_p (PImp (pphi 0) (pphi 1)) (PImp (pphi 1) (pphi 0)).
Definition equiv_pinned_nt : notation :=
  {| nt_label := []; nt_arity := 2; nt_def := equiv_def; nt_fmt := [Lit [40;48;32;60;45;62;32;49;41]] |}.

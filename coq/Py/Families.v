(** Notation tables: comparison helpers for the regenerated table (Gen/Notations.v) and the hand-written
    parametric family [nary_app] (proofs/kore.py:112-128).  Definitions only. *)
From Coq Require Import NArith List Bool.
From Pi2 Require Import ML.Syntax Py.Pattern Py.Pretty.
Import ListNotations.
Open Scope N_scope.

(** merge adjacent literals, drop empty ones (what [string.Formatter().parse] yields) *)
Fixpoint norm_chunks (l:list chunk) : list chunk :=
  match l with
  | [] => []
  | Lit s :: t =>
      match norm_chunks t with
      | Lit s' :: t' => Lit (s ++ s') :: t'
      | t' => match s with [] => t' | _ => Lit s :: t' end
      end
  | Hole i :: t => Hole i :: norm_chunks t
  end.
Definition chunk_eqb (a b:chunk) : bool :=
  match a, b with
  | Lit s, Lit s' => list_eqb s s'
  | Hole i, Hole j => Nat.eqb i j
  | _, _ => false
  end.
Fixpoint chunks_eqb (a b:list chunk) : bool :=
  match a, b with
  | [], [] => true
  | x::a', y::b' => chunk_eqb x y && chunks_eqb a' b'
  | _, _ => false
  end.
Definition notation_eqb (a b:notation) : bool :=
  Nat.eqb (nt_arity a) (nt_arity b) && ppat_eqb (nt_def a) (nt_def b)
  && chunks_eqb (norm_chunks (nt_fmt a)) (norm_chunks (nt_fmt b)) && list_eqb (nt_label a) (nt_label b).

(** kore.nary_app(symbol, n, cell) *)
Fixpoint nary_def (p:ppat) (k:N) (n:nat) : ppat :=
  match n with O => p | S n => nary_def (PApp p (PMVar k [] [] [] [] [])) (k+1) n end.
Fixpoint holes_sep (sep:str) (k:nat) (n:nat) : list chunk :=
  match n with
  | O => []
  | S O => [Hole k]
  | S n => Hole k :: Lit sep :: holes_sep sep (S k) n
  end.
Definition nary_fmt (name:str) (n:nat) (cell:bool) : list chunk :=
  if cell then Lit ([60] ++ name ++ [62;32]) :: holes_sep [32] 0 n ++ [Lit ([32;60;47] ++ name ++ [62])]
  else Lit (name ++ [40]) :: holes_sep [44;32] 0 n ++ [Lit [41]].
Definition nary_app (sym:N) (name:str) (n:nat) (cell:bool) : notation :=
  {| nt_label := name; nt_arity := n; nt_def := nary_def (PSym sym) 0 n; nt_fmt := nary_fmt name n cell |}.

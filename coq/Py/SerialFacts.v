(** C19: the instruction stream written for a sequence of interpreter calls decodes, uniquely and in order, into
    exactly one instruction per call, and that instruction carries the operands the pretty-printed step shows. *)
From Coq Require Import NArith List Bool Lia Arith.
From Pi2 Require Import ML.Syntax Py.Pattern Py.PatFacts Py.Pretty Py.Serial.
Import ListNotations.
Open Scope N_scope.

Lemma take_app v : forall rest, take (length v) (v ++ rest) = Some (v, rest).
Proof. induction v as [|b v IH]; intro rest; simpl; [reflexivity|]. rewrite IH. reflexivity. Qed.

Lemma read_vec_vec l rest : read_vec (vec l ++ rest) = Some (l, rest).
Proof. unfold vec, read_vec, nlen. simpl. rewrite Nat2N.id. apply take_app. Qed.

Lemma decode1_encode i rest : decode1 (encode i ++ rest) = Some (i, rest).
Proof.
  destruct i; try reflexivity.
  - (* MetaVar *)
    assert (E : encode (IMetaVar id l1 l2 l3 l4 l5) ++ rest
                = 9 :: id :: (vec l1 ++ (vec l2 ++ (vec l3 ++ (vec l4 ++ (vec l5 ++ rest)))))).
    { unfold encode. rewrite <- !app_comm_cons. rewrite <- !app_assoc. reflexivity. }
    rewrite E. clear E.
    change (decode1 (9 :: id :: (vec l1 ++ (vec l2 ++ (vec l3 ++ (vec l4 ++ (vec l5 ++ rest)))))))
      with (match read_vec (vec l1 ++ (vec l2 ++ (vec l3 ++ (vec l4 ++ (vec l5 ++ rest))))) with None => None | Some (a, r2) =>
            match read_vec r2 with None => None | Some (b, r3) =>
            match read_vec r3 with None => None | Some (c, r4) =>
            match read_vec r4 with None => None | Some (d, r5) =>
            match read_vec r5 with None => None | Some (e, r6) => Some (IMetaVar id a b c d e, r6)
            end end end end end).
    rewrite read_vec_vec. rewrite read_vec_vec. rewrite read_vec_vec. rewrite read_vec_vec. rewrite read_vec_vec.
    reflexivity.
  - (* Instantiate *)
    change (decode1 (encode (IInstantiate ids) ++ rest))
      with (match read_vec (vec ids ++ rest) with Some (ids0, r') => Some (IInstantiate ids0, r') | None => None end).
    rewrite read_vec_vec. reflexivity.
Qed.

Lemma encode_nonnil i : exists op tl, encode i = op :: tl.
Proof. destruct i; simpl; eauto. Qed.

Lemma decode_cons n i rest :
  decode (S n) (encode i ++ rest) = match decode n rest with Some l => Some (i :: l) | None => None end.
Proof.
  destruct (encode_nonnil i) as [op [tl E]].
  assert (H : decode (S n) (encode i ++ rest) =
              match decode1 (encode i ++ rest) with
              | Some (i0, rest0) => match decode n rest0 with Some l => Some (i0 :: l) | None => None end
              | None => None
              end).
  { rewrite E. reflexivity. }
  rewrite H, decode1_encode. reflexivity.
Qed.

Lemma decode_instrs l : forall n, (length l <= n)%nat -> decode n (flat_map encode l) = Some l.
Proof.
  induction l as [|i l IH]; intros n Hn; simpl.
  - destruct n; reflexivity.
  - destruct n as [|n]; [simpl in Hn; lia|]. rewrite decode_cons, IH by (simpl in Hn; lia). reflexivity.
Qed.

Lemma instrs_of_length cs : forall tbl, length (instrs_of tbl cs) = length cs.
Proof.
  induction cs as [|c cs IH]; intro tbl; simpl; [reflexivity|].
  destruct (instr_of tbl c) as [tbl' i]. simpl. rewrite IH. reflexivity.
Qed.

(** the binary file decodes into exactly one instruction per call, in call order *)
Theorem decode_emits tbl cs : decode (length cs) (emits tbl cs) = Some (instrs_of tbl cs).
Proof. unfold emits. apply decode_instrs. rewrite instrs_of_length. lia. Qed.

(** what "the instruction corresponds to the step" means: same kind, same operands (Instantiate ids are the
    keys reversed; a MetaVar without constraints is the compact CleanMetaVar; Load shows the memory index) *)
Definition step_matches (c:call) (i:instr) : Prop :=
  match c, i with
  | KEVar a, IEVar b | KSVar a, ISVar b | KExists a, IExists b | KMu a, IMu b
  | KESubst a, IESubst b | KSSubst a, ISSubst b | KGeneralization a, IGeneralization b => a = b
  | KSymbol _, ISymbol _ => True
  | KMetaVar id a b c d e, IMetaVar id' a' b' c' d' e' =>
      id = id' /\ a = a' /\ b = b' /\ c = c' /\ d = d' /\ e = e' /\ all_nil [a;b;c;d;e] = false
  | KMetaVar id a b c d e, ICleanMetaVar id' => id = id' /\ all_nil [a;b;c;d;e] = true
  | KImplies, IImplies | KApp, IApp | KProp1, IProp1 | KProp2, IProp2 | KProp3, IProp3
  | KModusPonens, IModusPonens | KQuantifier, IQuantifier | KPop, IPop | KSave, ISave | KPublish, IPublish => True
  | KInst keys, IInstantiate ids => ids = rev keys
  | KLoad _ idx, ILoad idx' => idx = idx'
  | _, _ => False
  end.

Lemma instr_of_matches tbl c : step_matches c (snd (instr_of tbl c)).
Proof.
  destruct c; try (simpl; auto; fail).
  - simpl. destruct (sym_id tbl name). simpl. exact I.
  - unfold instr_of. cbn [snd]. destruct (all_nil [ef; sf; pos; neg; app]) eqn:E; unfold step_matches; rewrite E; repeat split.
Qed.

Theorem steps_match cs : forall tbl, Forall2 step_matches cs (instrs_of tbl cs).
Proof.
  induction cs as [|c cs IH]; intro tbl; simpl; [constructor|].
  pose proof (instr_of_matches tbl c) as M. destruct (instr_of tbl c) as [tbl' i]. constructor; auto.
Qed.

(** ---- symbols are numbered in first-occurrence order ---- *)
Fixpoint final_tbl (tbl:list str) (cs:list call) : list str :=
  match cs with
  | [] => tbl
  | c::r => final_tbl (fst (instr_of tbl c)) r
  end.

Lemma index_of_spec s : forall tbl k i, index_of s tbl k = Some i ->
  (k <= i) /\ nth_error tbl (N.to_nat (i - k)) = Some s.
Proof.
  induction tbl as [|t tbl IH]; intros k i H; simpl in H; [discriminate|].
  destruct (list_eqb s t) eqn:E.
  - inversion H; subst. apply list_eqb_eq in E. subst. split; [lia|]. rewrite N.sub_diag. reflexivity.
  - apply IH in H as [H1 H2]. split; [lia|].
    replace (N.to_nat (i - k)) with (S (N.to_nat (i - (k + 1)))) by lia. exact H2.
Qed.
Lemma index_of_none s : forall tbl k, index_of s tbl k = None -> ~ In s tbl.
Proof.
  induction tbl as [|t tbl IH]; intros k H; simpl in *; [tauto|].
  destruct (list_eqb s t) eqn:E; [discriminate|]. intros [->|Hin].
  - rewrite list_eqb_refl in E. discriminate.
  - eapply IH; eauto.
Qed.

Lemma NoDup_snoc {A} (l:list A) x : NoDup l -> ~ In x l -> NoDup (l ++ [x]).
Proof.
  induction 1 as [|a l Ha Hl IH]; intro Hx; simpl.
  - constructor; [tauto|constructor].
  - constructor.
    + intro Hin. apply in_app_or in Hin as [Hin|[<-|[]]]; [contradiction|]. apply Hx. left. reflexivity.
    + apply IH. intro Hin. apply Hx. right. exact Hin.
Qed.

Lemma sym_id_spec tbl name : NoDup tbl ->
  let (tbl', i) := sym_id tbl name in
  nth_error tbl' (N.to_nat i) = Some name /\ (exists e, tbl' = tbl ++ e) /\ NoDup tbl'.
Proof.
  intro Hn. unfold sym_id. destruct (index_of name tbl 0) as [i|] eqn:E.
  - apply index_of_spec in E as [_ E]. rewrite N.sub_0_r in E. split; [exact E|]. split; [exists []; rewrite app_nil_r; reflexivity|exact Hn].
  - apply index_of_none in E. split.
    + rewrite Nat2N.id, nth_error_app2 by lia. rewrite Nat.sub_diag. reflexivity.
    + split; [eauto|]. apply NoDup_snoc; auto.
Qed.

Lemma instr_of_tbl tbl c : NoDup tbl ->
  NoDup (fst (instr_of tbl c)) /\ (exists e, fst (instr_of tbl c) = tbl ++ e) /\
  match c, snd (instr_of tbl c) with
  | KSymbol name, ISymbol k => nth_error (fst (instr_of tbl c)) (N.to_nat k) = Some name
  | _, _ => True
  end.
Proof.
  intro Hn. destruct c; simpl; try (split; [exact Hn|split; [exists []; rewrite app_nil_r; reflexivity|exact I]]).
  - pose proof (sym_id_spec tbl name Hn) as S. destruct (sym_id tbl name) as [tbl' i]. simpl.
    destruct S as [S1 [S2 S3]]. auto.
Qed.

(** every Symbol instruction carries the index of its name in the final first-occurrence table, which has no
    duplicates: equal names get equal ids, different names different ids *)
Theorem symbols_numbered cs : forall tbl, NoDup tbl ->
  NoDup (final_tbl tbl cs) /\ (exists e, final_tbl tbl cs = tbl ++ e) /\
  Forall2 (fun c i => match c, i with
                      | KSymbol name, ISymbol k => nth_error (final_tbl tbl cs) (N.to_nat k) = Some name
                      | _, _ => True
                      end) cs (instrs_of tbl cs).
Proof.
  induction cs as [|c cs IH]; intros tbl Hn; simpl.
  - split; [exact Hn|]. split; [exists []; rewrite app_nil_r; reflexivity|constructor].
  - destruct (instr_of_tbl tbl c Hn) as [H1 [[e He] H3]].
    remember (instr_of tbl c) as ti eqn:Ei in *. destruct ti as [tbl' i]. cbn [fst snd] in *.
    destruct (IH tbl' H1) as [I1 [[e' He'] I3]].
    split; [exact I1|]. split; [exists (e ++ e'); rewrite He', He, app_assoc; reflexivity|].
    constructor; [|exact I3].
    destruct c; auto. destruct i; auto.
    rewrite <- Ei in H3. cbn [snd] in H3.
    rewrite He'. rewrite nth_error_app1; [exact H3|]. apply nth_error_Some. congruence.
Qed.

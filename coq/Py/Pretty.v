(** M3 (continued): [Pattern.pretty] and [Notation.print_instantiation] (pattern.py:96-590).
    Strings are lists of Unicode code points ([list N]); a format string is a chunk list
    ([Lit s | Hole i], produced from the Python format string by [string.Formatter().parse] in
    harness/notations.py, which fails closed on anything but plain positional fields).  Model only. *)
From Coq Require Import NArith List Bool Decimal.
From Pi2 Require Import ML.Syntax Py.Pattern.
Import ListNotations.
Open Scope N_scope.

Definition str := list N.

Fixpoint uint_str (u:Decimal.uint) : str :=
  match u with
  | Decimal.Nil => []
  | Decimal.D0 r => 48 :: uint_str r | Decimal.D1 r => 49 :: uint_str r | Decimal.D2 r => 50 :: uint_str r
  | Decimal.D3 r => 51 :: uint_str r | Decimal.D4 r => 52 :: uint_str r | Decimal.D5 r => 53 :: uint_str r
  | Decimal.D6 r => 54 :: uint_str r | Decimal.D7 r => 55 :: uint_str r | Decimal.D8 r => 56 :: uint_str r
  | Decimal.D9 r => 57 :: uint_str r
  end.
(** Python [str(int)] for a natural number *)
Definition dec (n:N) : str := uint_str (N.to_uint n).

(** structural identity of two generator patterns (what the dict lookup [self.pattern in opts.notations]
    amounts to: equal dataclass hash, then [==]; notation definitions are built by [Notation.__call__], so
    their instantiation dicts are in key order and compared as ordered lists here) *)
Fixpoint ppat_eqb (a b:ppat) : bool :=
  match a, b with
  | PEVar n, PEVar m | PSVar n, PSVar m | PSym n, PSym m => N.eqb n m
  | PImp l r, PImp l' r' | PApp l r, PApp l' r' => ppat_eqb l l' && ppat_eqb r r'
  | PEx x p, PEx y q | PMu x p, PMu y q => N.eqb x y && ppat_eqb p q
  | PMVar i a1 a2 a3 a4 a5, PMVar j b1 b2 b3 b4 b5 =>
      N.eqb i j && list_eqb a1 b1 && list_eqb a2 b2 && list_eqb a3 b3 && list_eqb a4 b4 && list_eqb a5 b5
  | PESub p x q, PESub p' y q' | PSSub p x q, PSSub p' y q' => ppat_eqb p p' && N.eqb x y && ppat_eqb q q'
  | PInst p d, PInst p' d' =>
      ppat_eqb p p' &&
      (fix go (l:delta) (l':delta) : bool :=
         match l, l' with
         | [], [] => true
         | kv::t, kv'::t' => N.eqb (fst kv) (fst kv') && ppat_eqb (snd kv) (snd kv') && go t t'
         | _, _ => false
         end) d d'
  | _, _ => false
  end.

Record popts := {
  o_simplify  : bool;                (* PrettyOptions.simplify_instantiations *)
  o_notations : list notation;       (* PrettyOptions.notations, keyed by definition *)
  o_syms      : list (N * str)       (* names of the Symbol ids (default: "s<id>") *)
}.
Definition popts_default (syms:list (N*str)) : popts :=
  {| o_simplify := false; o_notations := []; o_syms := syms |}.

Definition symname (o:popts) (n:N) : str :=
  match alookup n (o_syms o) with Some s => s | None => 115 :: dec n end.

Fixpoint find_notation (nts:list notation) (p:ppat) : option notation :=
  match nts with
  | [] => None
  | nt::t => if ppat_eqb (nt_def nt) p then Some nt else find_notation t p
  end.

(** [str.format] applied to the argument list on a chunk list; [None] = IndexError (-> ValueError in print_instantiation) *)
Fixpoint format (fmt:list chunk) (args:list str) : option str :=
  match fmt with
  | [] => Some []
  | Lit s :: t => bind (format t args) (fun r => Some (s ++ r))
  | Hole i :: t => match nth_error args i with
                   | Some a => bind (format t args) (fun r => Some (a ++ r))
                   | None => None
                   end
  end.

(** Python [repr(str)] for strings without control / non-printable characters *)
Definition has (c:N) (s:str) : bool := existsb (N.eqb c) s.
Definition py_repr (s:str) : str :=
  let q := if has 39 s && negb (has 34 s) then 34 else 39 in
  q :: flat_map (fun c => if N.eqb c q || N.eqb c 92 then [92; c] else [c]) s ++ [q].

(** [str(dict)] of an int -> str dict *)
Fixpoint dict_body (l:list (N*str)) : str :=
  match l with
  | [] => []
  | [kv] => dec (fst kv) ++ [58; 32] ++ py_repr (snd kv)
  | kv::t => dec (fst kv) ++ [58; 32] ++ py_repr (snd kv) ++ [44; 32] ++ dict_body t
  end.
Definition dict_str (l:list (N*str)) : str := 123 :: dict_body l ++ [125].

Section WithFlags.
Variable f : pyflags.

(** outer option: fuel; inner option: Python raises (ValueError of print_instantiation) *)
Fixpoint pretty (n:nat) (o:popts) (p:ppat) {struct n} : option (option str) :=
  match n with O => None | S n =>
  let bin (l r:ppat) (sep:str) :=
    bind (pretty n o l) (fun a => match a with None => Some None | Some a =>
    bind (pretty n o r) (fun b => match b with None => Some None | Some b =>
      Some (Some (40 :: a ++ sep ++ b ++ [41])) end) end) in
  match p with
  | PEVar k => Some (Some (120 :: dec k))
  | PSVar k => Some (Some (88 :: dec k))
  | PSym k => Some (Some (symname o k))
  | PMVar k _ _ _ _ _ => Some (Some ([112;104;105] ++ dec k))
  | PImp l r => bin l r [32;45;62;32]
  | PApp l r => bin l r [32;183;32]
  | PEx x q => bind (pretty n o q) (fun a => match a with None => Some None | Some a =>
      Some (Some ([40;8707;32;120] ++ dec x ++ [32;46;32] ++ a ++ [41])) end)
  | PMu x q => bind (pretty n o q) (fun a => match a with None => Some None | Some a =>
      Some (Some ([40;956;32;88] ++ dec x ++ [32;46;32] ++ a ++ [41])) end)
  | PESub q x plug =>
      bind (pretty n o q) (fun a => match a with None => Some None | Some a =>
      bind (pretty n o plug) (fun b => match b with None => Some None | Some b =>
        Some (Some (a ++ [91] ++ b ++ [47;120] ++ dec x ++ [93])) end) end)
  | PSSub q x plug =>
      bind (pretty n o q) (fun a => match a with None => Some None | Some a =>
      bind (pretty n o plug) (fun b => match b with None => Some None | Some b =>
        Some (Some (a ++ [91] ++ b ++ [47;88] ++ dec x ++ [93])) end) end)
  | PInst q d =>
      if o_simplify o then bind (py_inst f n q d) (fun r => pretty n o r) else
      let vals :=
        (fix go (l:delta) : option (option (list (N*str))) :=
           match l with
           | [] => Some (Some [])
           | kv::t => bind (pretty n o (snd kv)) (fun a => match a with None => Some None | Some a =>
                      bind (go t) (fun r => match r with None => Some None | Some r =>
                        Some (Some ((fst kv, a) :: r)) end) end)
           end) d in
      bind vals (fun vs => match vs with None => Some None | Some vs =>
        match find_notation (o_notations o) q with
        | Some nt => Some (format (nt_fmt nt) (map snd vs))
        | None =>
            bind (pretty n (popts_default (o_syms o)) q) (fun a => match a with None => Some None | Some a =>
              Some (Some (a ++ [91] ++ dict_str vs ++ [93])) end)
        end end)
  end end.

End WithFlags.

(** C19: every metavariable the definition depends on has a hole in the format string *)
Definition has_hole (fmt:list chunk) (i:N) : bool :=
  existsb (fun c => match c with Hole j => N.eqb (N.of_nat j) i | Lit _ => false end) fmt.
Definition covers (nt:notation) : bool :=
  forallb (has_hole (nt_fmt nt)) (metavars (nt_def nt)).
